(* C16 - stop logic of the simplex loop and of the solve drivers around it (model only; proofs in Limits_Proofs.v).

   Written from the code:
     src/soplex/spxsolve.hpp   SPxSolverBase<R>::solve   the ENTER and the LEAVE loop have the same skeleton
                               SPxSolverBase<R>::terminate
     src/soplex/spxsolver.hpp  setTerminationIter / setTerminationTime / isTimeLimitReached
     src/soplex.hpp            _solveRealLPAndRecordStatistics (budget arithmetic), _isSolveStopped
     src/soplex/solvereal.hpp  _evaluateSolutionReal (status mapping), _preprocessAndSolveReal (which objective limit is used)
     src/soplex/solverational.hpp  one round of the verdict automaton of _optimizeRational

   The simplex engine itself (pricer, ratio test, basis update, shifting, refactorisation) is NOT modelled: it is an oracle
   that supplies, for every pass of the pivoting loop, what happened in that pass (an [event]).  What is modelled is the
   code AROUND the engine that decides when to stop and what status to report.

   One pass of the loop (both algorithms):

        printDisplayLine();
        id = pricer->select();                      -- nothing found: priced = true; break  (no limit is looked at)
        if(maxIters >= 0 && iterations() >= maxIters)  { m_status = ABORT_ITER; stop }      -- BEFORE the step
        if(interrupt != nullptr && *interrupt)         { m_status = ABORT_TIME; stop }      -- BEFORE the step
        enter(id) / leave(id);                      -- basis change (iterCount+1), bound flip (counter unchanged), or the
                                                       ratio test fails and the basis status becomes INFEASIBLE / UNBOUNDED
        stop = terminate();                         -- terminal basis status first, then the time limit, then the objective limit
*)
From Coq Require Import ZArith QArith List Bool.
Import ListNotations.
Local Open Scope Z_scope.

(* What the engine did in one pass. *)
Inductive ekind :=
| Start        (* not a pass: the call of terminate() at the beginning of solve(), before the loop *)
| Pivot        (* a candidate was priced; enter/leave changed the basis: iterations()+1 *)
| Flip         (* a candidate was priced; only a nonbasic variable moved to its other bound: iterations() unchanged *)
| Switch       (* pricer found nothing but the OPTIMAL test failed (shift / infeasibility left): switch ENTER <-> LEAVE *)
| Optimal      (* pricer found nothing, no shift, maxInfeas within tolerance: OPTIMAL *)
| Infeasible   (* a candidate was priced; the ratio test failed in the dual algorithm: basis status INFEASIBLE *)
| Unbounded    (* a candidate was priced; the ratio test failed in the primal algorithm: basis status UNBOUNDED *)
| Fail.        (* the engine gave up (cycling, stalling, singular basis, exception) *)

(* Everything external that the stop logic reads in one pass. *)
Record event := {
  ev_kind   : ekind;
  ev_intr   : bool;       (* value of *interrupt when it is read in this pass *)
  ev_timeup : bool;       (* what isTimeLimitReached() returns in the terminate() call of this pass *)
  ev_dual   : option Q    (* Some v: after the step the DUAL algorithm is running (type()*rep() > 0), shift() < epsilon and
                             noViols(opttol - shift) hold before and after factorizeAndRecompute(), and value() = v *)
}.

Inductive status :=
| RUNNING              (* the oracle's list ended while the loop was still running (no verdict) *)
| OPTIMAL | INFEASIBLE | UNBOUNDED | INForUNBD
| ABORT_ITER | ABORT_TIME | ABORT_VALUE
| FAILED.              (* ABORT_CYCLING / SINGULAR / ERROR: not a limit, not a verdict *)

(* The termination controls of one inner solve (members of SPxSolverBase). *)
Record limits := {
  max_iters : Z;          (* maxIters; negative = no limit *)
  use_intr  : bool;       (* interrupt != nullptr *)
  use_time  : bool;       (* maxTime < infinity *)
  obj_lim   : option Q;   (* objLimit; None = infinity (>= R(infinity) disables the test) *)
  maxi      : bool        (* spxSense() == MAXIMIZE *)
}.

Definition no_limits : limits :=
  {| max_iters := -1; use_intr := false; use_time := false; obj_lim := None; maxi := false |}.

(* int(spxSense()) * value() <= int(spxSense()) * objLimit   with MINIMIZE = -1, MAXIMIZE = +1 *)
Definition beyond (mx : bool) (lim v : Q) : bool := if mx then Qle_bool v lim else Qle_bool lim v.

(* terminate(): [bs] is the status a terminal basis status maps to (checked first); then time; then objective limit. *)
Definition terminate (lim : limits) (bs : option status) (e : event) : option status :=
  match bs with
  | Some s => Some s
  | None =>
    if use_time lim && ev_timeup e then Some ABORT_TIME
    else match obj_lim lim, ev_dual e with
         | Some l, Some v => if beyond (maxi lim) l v then Some ABORT_VALUE else None
         | _, _ => None
         end
  end.

Record result := {
  st    : status;
  iters : Z;              (* iterations() when solve() returns *)
  rest  : list event      (* the passes the engine has not executed: the state from which a later solve continues *)
}.

Definition iter_limit_hit (lim : limits) (n : Z) : bool := (0 <=? max_iters lim) && (max_iters lim <=? n).

(* basis status after the step of a pass that priced a candidate *)
Definition basis_after (k : ekind) : option status :=
  match k with Infeasible => Some INFEASIBLE | Unbounded => Some UNBOUNDED | _ => None end.

Definition count_after (k : ekind) (n : Z) : Z := match k with Pivot => n + 1 | _ => n end.

Fixpoint run_from (lim : limits) (n : Z) (evs : list event) : result :=
  match evs with
  | [] => {| st := RUNNING; iters := n; rest := [] |}
  | e :: r =>
    match ev_kind e with
    | Optimal => {| st := OPTIMAL; iters := n; rest := r |}
    | Fail => {| st := FAILED; iters := n; rest := r |}
    | Switch => run_from lim n r
    | Start =>
      match terminate lim None e with
      | Some s => {| st := s; iters := n; rest := r |}
      | None => run_from lim n r
      end
    | k =>
      if iter_limit_hit lim n then {| st := ABORT_ITER; iters := n; rest := e :: r |}
      else if use_intr lim && ev_intr e then {| st := ABORT_TIME; iters := n; rest := e :: r |}
      else
        match terminate lim (basis_after k) e with
        | Some s => {| st := s; iters := count_after k n; rest := r |}
        | None => run_from lim (count_after k n) r
        end
    end
  end.

(* solve() resets iterCount to 0 *)
Definition run (lim : limits) (evs : list event) : result := run_from lim 0 evs.

Definition is_abort (s : status) : bool :=
  match s with ABORT_ITER | ABORT_TIME | ABORT_VALUE => true | _ => false end.
Definition is_verdict (s : status) : bool :=
  match s with OPTIMAL | INFEASIBLE | UNBOUNDED => true | _ => false end.
Definition verdict_kind (s : status) : ekind :=
  match s with OPTIMAL => Optimal | INFEASIBLE => Infeasible | UNBOUNDED => Unbounded | _ => Fail end.

(* ---------------------------------------------------------------------------------------------------------------------
   Around the inner solve: SoPlexBase<R>::_solveRealLPAndRecordStatistics and _evaluateSolutionReal.
   One optimize() may call the inner solver several times (re-solve after polishing / failed verification / singularity /
   failed unsimplification); whether it does is decided by code that is not modelled, so the sequence of inner solves is
   supplied by the oracle.  The limits of every inner solve are computed from what the earlier ones used. *)

(* setTerminationIter: a negative argument means "no limit" *)
Definition set_termination_iter (p : Z) : Z := if p <? 0 then -1 else p.
(* _solver.setTerminationIter(intParam(ITERLIMIT) - _statistics->iterations)   [the guard ITERLIMIT < INFTY always holds] *)
Definition iter_budget (iterlimit used : Z) : Z := set_termination_iter (iterlimit - used).

(* setTerminationTime(TIMELIMIT - solvingTime->time()): negative is clamped to 0 *)
Definition set_termination_time (p : Q) : Q := if Qle_bool 0 p then p else 0%Q.
Definition time_budget (timelimit elapsed : Q) : Q := set_termination_time (timelimit - elapsed).
(* isTimeLimitReached(): no limit -> false; clock skipped -> false; else time() >= maxTime *)
Definition time_limit_reached (maxtime : option Q) (skip : bool) (clock : Q) : bool :=
  match maxtime with None => false | Some t => negb skip && Qle_bool t clock end.

(* the objective limit handed to the inner solver by _preprocessAndSolveReal (None = +-INFTY) *)
Definition termination_value (mx : bool) (objlimit_lower objlimit_upper : option Q) : option Q :=
  if mx then objlimit_lower else objlimit_upper.

Inductive simp := S_OKAY | S_INFEASIBLE | S_DUAL_INFEASIBLE | S_UNBOUNDED | S_VANISHED.

Record inner := {
  in_simp     : simp;          (* result of the simplifier in this call of _preprocessAndSolveReal (OKAY when it is off) *)
  in_objlim   : bool;          (* objective limit enabled (it is switched off for the re-solve after _verifyObjLimitReal failed
                                  with simplifier and scaler already off: toggleTerminationValue(false)) *)
  in_events   : list event
}.

(* _evaluateSolutionReal without ENSURERAY: verdicts of the simplifier are reported as they are, otherwise the status of the
   inner solver is reported; abort statuses are kept (a solution and a basis are stored with them). *)
Definition evaluate (s : simp) (inner_status : status) : status :=
  match s with
  | S_OKAY => inner_status
  | S_INFEASIBLE => INFEASIBLE
  | S_UNBOUNDED => UNBOUNDED
  | S_DUAL_INFEASIBLE => INForUNBD
  | S_VANISHED => OPTIMAL
  end.

(* after which statuses _evaluateSolutionReal / _storeSolutionReal may call _preprocessAndSolveReal again: OPTIMAL (polishing
   pass on the original LP, failed _verifySolutionReal), ABORT_VALUE (failed _verifyObjLimitReal), SINGULAR / ABORT_CYCLING.
   After ABORT_ITER, ABORT_TIME, INFEASIBLE, UNBOUNDED the result is stored as it is. *)
Definition may_resolve (s : status) : bool :=
  match s with OPTIMAL | ABORT_VALUE | FAILED => true | _ => false end.

Record oresult := { ost : status; oiters : Z (* _statistics->iterations = numIterations() *) }.

(* limits of one inner solve: the iteration budget; the interrupt pointer is handed to the first inner solve only (the
   re-solves call _preprocessAndSolveReal(false) with the default interrupt = nullptr) *)
Definition inner_limits (lim : limits) (budget : Z) (first : bool) (objlim_on : bool) : limits :=
  {| max_iters := budget; use_intr := use_intr lim && first; use_time := use_time lim;
     obj_lim := if objlim_on then obj_lim lim else None; maxi := maxi lim |}.

Fixpoint outer_from (lim : limits) (iterlimit used : Z) (first : bool) (last : status) (solves : list inner) : oresult :=
  match solves with
  | [] => {| ost := last; oiters := used |}
  | s :: more =>
    match in_simp s with
    | S_OKAY =>
      let r := run (inner_limits lim (iter_budget iterlimit used) first (in_objlim s)) (in_events s) in
      if may_resolve (st r) then outer_from lim iterlimit (used + iters r) false (st r) more
      else {| ost := st r; oiters := used + iters r |}
    | S_VANISHED => outer_from lim iterlimit used false OPTIMAL more       (* a failed verification may re-solve *)
    | k => {| ost := evaluate k RUNNING; oiters := used |}
    end
  end.

(* optimize(): the statistics are cleared first *)
Definition outer (lim : limits) (iterlimit : Z) (solves : list inner) : oresult :=
  outer_from lim iterlimit 0 true RUNNING solves.

(* ---------------------------------------------------------------------------------------------------------------------
   Exact solve: SoPlexBase<R>::_isSolveStopped and one round of the loop of _optimizeRational (precision boosting: the
   round asks for another round). *)
Record rstats := { r_time : Q; r_iters : Z; r_refs : Z; r_stallrefs : Z }.
Record rlimits := { rl_time : option Q; rl_iter : Z; rl_ref : Z; rl_stallref : Z }.

Definition stopped_time (l : rlimits) (s : rstats) : bool :=
  match rl_time l with None => false | Some t => Qle_bool t (r_time s) end.
Definition stopped_iter (l : rlimits) (s : rstats) : bool :=
  ((0 <=? rl_iter l) && (rl_iter l <=? r_iters s))
  || ((0 <=? rl_ref l) && (rl_ref l <=? r_refs s))
  || ((0 <=? rl_stallref l) && (rl_stallref l <=? r_stallrefs s)).
Definition is_solve_stopped (l : rlimits) (s : rstats) : bool := stopped_time l s || stopped_iter l s.

(* answers of the three refinement procedures in one round (each sets its own stop flags) *)
Record ropt := { o_error : bool; o_stime : bool; o_siter : bool; o_unbounded : bool; o_infeasible : bool;
                 o_pfeas : bool; o_dfeas : bool }.
Record runb := { u_error : bool; u_stime : bool; u_siter : bool; u_hasray : bool }.
Record rfeas := { f_error : bool; f_stime : bool; f_siter : bool; f_infeasible : bool }.

Inductive rstatus := R_ERROR | R_ABORT_TIME | R_ABORT_ITER | R_OPTIMAL | R_INFEASIBLE | R_UNBOUNDED | R_AGAIN.

(* unboundednessNotCertified / infeasibilityNotCertified are false in the first round *)
Definition rat_round (o : ropt) (u : runb) (f : rfeas) (u2 : runb) (testdualinf : bool) : rstatus :=
  if o_error o then R_ERROR
  else if o_stime o then R_ABORT_TIME
  else if o_siter o then R_ABORT_ITER
  else if o_unbounded o then
    if u_error u then R_ERROR
    else if u_stime u then R_ABORT_TIME
    else if u_siter u then R_ABORT_ITER
    else if f_error f then R_ERROR
    else if f_stime f then R_ABORT_TIME
    else if f_siter f then R_ABORT_ITER
    else if f_infeasible f then R_INFEASIBLE
    else if u_hasray u then R_UNBOUNDED
    else R_AGAIN
  else if o_infeasible o then
    if f_error f then R_ERROR
    else if f_stime f then R_ABORT_TIME
    else if f_siter f then R_ABORT_ITER
    else if f_infeasible f && testdualinf && u_error u2 then R_ERROR
    else if f_infeasible f then R_INFEASIBLE
    else R_AGAIN          (* hasUnboundedRay is still false here when the feasibility test did not confirm infeasibility *)
  else if o_pfeas o && o_dfeas o then R_OPTIMAL
  else R_AGAIN.
