(* Extraction of the LU specification checkers (ExtrOcamlBasic only: bool, option, unit, list, prod mapped to OCaml's;
   nat, positive, Z, Q stay the extracted inductive types). *)
From Coq Require Extraction.
From Coq Require Import ExtrOcamlBasic ZArith QArith List.
From SV Require Import LUModel.

Extraction "../extract/C11/model.ml"
  check_solve_right check_solve_left regular_cert regular_cert_scaled singular_cert
  solve2_right_spec solve3_right_spec solve2_left_spec solve3_left_spec
  check_inverse_col check_inverse_row basis_matrix
  check_residual_right check_residual_left check_close
  norm_inf norm_inf_mat norm_one_mat cond_inf
  replace_col lu_step lu_run wf_mat wf_vec mat_vec vec_mat mscale vscale
  Qle_bool Qeq_bool Qmult Qplus Qabs.Qabs.
