(* Extraction of the certificate checkers (used by C01, C02, C03, C08, C16). *)
From Coq Require Extraction.
From Coq Require Import ExtrOcamlBasic QArith List.
From SV Require Import Vec LP Cert DriverModel DriverReplay RatGateModel SolveGateModel.

Extraction "../extract/C01/model.ml" feasible_b objective check_opt_exact check_farkas check_ray box
  check_opt_tol check_ray_tol dual_bound dvec tvec Qred Qcompare Qplus Qminus Qmult
  replay st_code is_user_space
  bound_violation row_violation dual_violation redcost_violation verify_bits.
