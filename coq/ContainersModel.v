(* C19 - executable models of the remaining elementary containers.
   IdxSet / DIdxSet (idxset.h/.cpp, didxset.h/.cpp): the index array as a list, positions are observable.
   NameSet (nameset.h/.cpp): a DataSet of names + a name -> key table; the table is modelled by searching the set
     (hash order is not observable), names are abstract identifiers (Z).
   SVSet / LPRowSet / LPColSet (svsetbase.h, lprowsetbase.h, lpcolsetbase.h): a ClassSet of vectors (and row / column
     data), i.e. the DataSet model with a structured element type, plus the automatic growth of ensurePSVec.
   DataHashTable (datahashtable.h): an association list.
   DataArray / Array / ClassArray (dataarray.h, array.h, classarray.h): lists.
   IdList / IsList (idlist.h, islist.h): lists of element identifiers.
   No proofs in this file. *)
From Coq Require Import List ZArith Bool.
From SV Require Import DataSetModel.
Import ListNotations.
Local Open Scope Z_scope.

(* ------------------------------------------------------------------ generic list helpers *)
Definition lastn {A} (n : nat) (l : list A) : list A := skipn (length l - n) l.

(* ------------------------------------------------------------------ IdxSet / DIdxSet *)
(* pos(i): first position holding i, -1 if none *)
Fixpoint is_pos_from (l : list Z) (i : Z) (p : Z) : Z :=
  match l with
  | [] => -1
  | x :: r => if x =? i then p else is_pos_from r i (p + 1)
  end.
Definition is_pos (l : list Z) (i : Z) : Z := is_pos_from l i 0.
(* dim(): the largest index, -1 for the empty set *)
Definition is_dim (l : list Z) : Z := fold_right Z.max (-1) l.
(* addIdx(i) (precondition size() < max(), or automatic growth for DIdxSet) *)
Definition is_add (l : list Z) (i : Z) : list Z := l ++ [i].
(* add(n, i[]) *)
Definition is_add_list (l : list Z) (is : list Z) : list Z := l ++ is.
(* remove(int n): idx[n] = idx[--num]  (precondition 0 <= n < size()) *)
Definition is_remove_pos (l : list Z) (n : Z) : list Z :=
  if (0 <=? n) && (n <? zlen l) then
    match rev l with
    | [] => l
    | lst :: _ => if n =? zlen l - 1 then removelast l else setn (removelast l) n lst
    end
  else l.
(* remove(int n, int m): removes positions n..m (precondition 0 <= n <= m < size()); the last
   min(m-n+1, size()-m-1) indices move, in their order, into the hole; indices before position n keep their number *)
Definition is_remove_range (l : list Z) (n m : Z) : list Z :=
  let size := zlen l in
  let count := m + 1 - n in
  let tail := size - (m + 1) in
  let cpy := if count <=? tail then count else tail in
  let newsize := size - count in
  firstn (Z.to_nat n) l ++ lastn (Z.to_nat cpy) l ++
  firstn (Z.to_nat (newsize - n - cpy)) (skipn (Z.to_nat (n + cpy)) l).
(* DIdxSet: capacity after making room for n more indices (add: "if(max() - size() < n) setMax(size() + n)") *)
Definition dis_room (size max n : Z) : Z := if max - size <? n then Z.max 1 (size + n) else max.
(* DIdxSet::setMax(newmax) *)
Definition dis_setmax (size newmax : Z) : Z := Z.max 1 (Z.max size newmax).

(* ------------------------------------------------------------------ NameSet *)
Section NameSet.
Definition nset := ds Z.                      (* element = name identifier *)

Definition ns_names (s : nset) : list Z := map snd (ds_abs 0 s).
(* number(name): position of the name, -1 if absent *)
Definition ns_number (s : nset) (name : Z) : Z := is_pos (ns_names s) name.
Definition ns_has (s : nset) (name : Z) : bool := 0 <=? ns_number s name.
(* key(name): the key of the name, -1 (invalid key) if absent *)
Definition ns_key (s : nset) (name : Z) : Z :=
  let n := ns_number s name in if 0 <=? n then ds_key s n else -1.

(* add(key, name): a name already present is ignored (None: the caller's key is untouched); otherwise the set grows
   when size()+1 > max() * 0.7 to int(2 * max() + 8) and the name gets a key *)
Definition ns_add (s : nset) (name : Z) : nset * option Z :=
  if ns_has s name then (s, None)
  else
    let s1 := if 7 * themax s <? 10 * (thesize s + 1) then ds_remax 0 s (2 * themax s + 8) else s in
    let '(s2, k) := ds_add s1 name in (s2, Some k).

(* remove(name) *)
Definition ns_remove_name (s : nset) (name : Z) : nset :=
  let n := ns_number s name in if 0 <=? n then ds_remove_num s n else s.
(* remove(key) (precondition has(key)), remove(int) = remove(key(n)) *)
Definition ns_remove_num (s : nset) (n : Z) : nset := ds_remove_num s n.
(* remove(keys[], n): one after the other, by key *)
Definition ns_remove_keys (s : nset) (ks : list Z) : nset :=
  fold_left (fun st k => match ds_number st k with Some n => ds_remove_num st n | None => st end) ks s.
(* remove(nums[], n) as documented: "removes n names with numbers nums" - the numbers denote the names they denote
   when the call is made *)
Definition ns_remove_nums (s : nset) (nums : list Z) : nset :=
  ns_remove_keys s (map (ds_key s) nums).
(* remove(dstat[]): stable compaction, dstat is rewritten like DataSet::remove(perm) *)
Definition ns_remove_perm (s : nset) (perm : list Z) : nset * list Z := ds_remove_perm s perm.
Definition ns_clear (s : nset) : nset := ds_clear s.
Definition ns_remax (s : nset) (m : Z) : nset := ds_remax 0 s m.
End NameSet.

(* ------------------------------------------------------------------ NameSet: the string memory *)
(* All names are stored, zero-terminated, in one char array mem of memMax() bytes of which memSize() are in use; the
   DataSet element of a name is its offset.  Names are unique, so the model keeps the offset per name identifier.
   memPack() rewrites the names in number order without gaps, memRemax() reallocates, add() appends (after packing /
   growing when the name does not fit).  The characters of the name with identifier id (1..12 characters over a, b, c;
   the harness uses the same strings): *)
Definition nstr (id : Z) : list Z := repeat (97 + id mod 3) (Z.to_nat (id + 1)).

Record nmem := mkNM { nm_mem : list Z; nm_used : Z; nm_max : Z; nm_off : list (Z * Z) }.

(* the C string starting at an offset *)
Fixpoint cstr_of (l : list Z) : list Z :=
  match l with
  | [] => []
  | c :: r => if c =? 0 then [] else c :: cstr_of r
  end.
Definition cstr (mem : list Z) (off : Z) : list Z := cstr_of (skipn (Z.to_nat off) mem).

Fixpoint nm_lookup (offs : list (Z * Z)) (id : Z) : option Z :=
  match offs with
  | [] => None
  | (i, o) :: r => if i =? id then Some o else nm_lookup r id
  end.
(* the string read back for a name that is in the set *)
Definition nm_name (st : nmem) (id : Z) : list Z :=
  match nm_lookup (nm_off st) id with Some o => cstr (nm_mem st) o | None => [] end.

(* writing characters at an offset (the caller guarantees that they fit) *)
Definition write_at (mem : list Z) (off : Z) (s : list Z) : list Z :=
  firstn (Z.to_nat off) mem ++ s ++ skipn (Z.to_nat off + length s) mem.

(* NameSet(max, mmax): memmax = mmax < 1 ? 8 * max + 1 : mmax *)
Definition nm_init (setmax mmax : Z) : nmem :=
  let m := if mmax <? 1 then 8 * setmax + 1 else mmax in mkNM (repeat 0 (Z.to_nat m)) 0 m [].

(* memRemax(newmax) *)
Definition nm_remax (st : nmem) (newmax : Z) : nmem :=
  let m := if newmax <? nm_used st then nm_used st else newmax in
  mkNM (resize 0 m (nm_mem st)) (nm_used st) m (nm_off st).

(* memPack(): order = the names in number order; the names are copied one after the other into a temporary buffer of
   memSize() bytes, which is then copied back *)
Definition nm_pack_step (old : nmem) (acc : list Z * Z * list (Z * Z)) (id : Z) : list Z * Z * list (Z * Z) :=
  let '(buf, last, offs) := acc in
  let t := nm_name old id in
  (write_at buf last (t ++ [0]), last + zlen t + 1, offs ++ [(id, last)]).
Definition nm_pack (order : list Z) (st : nmem) : nmem :=
  let '(buf, last, offs) := fold_left (nm_pack_step st) order (repeat 0 (Z.to_nat (nm_used st)), 0, []) in
  mkNM (copy_prefix last buf (nm_mem st)) last (nm_max st) offs.

(* the memory part of add(key, str) for a name that is not yet in the set *)
Definition nm_add (order : list Z) (st : nmem) (id : Z) : nmem :=
  let len := zlen (nstr id) in
  let st1 :=
    if nm_max st <=? nm_used st + len then
      let p := nm_pack order st in
      if nm_max p <=? nm_used p + len then nm_remax p (2 * nm_max p + 9 + len) else p
    else st in
  mkNM (write_at (nm_mem st1) (nm_used st1) (nstr id ++ [0])) (nm_used st1 + len + 1) (nm_max st1)
       (nm_off st1 ++ [(id, nm_used st1)]).

(* removals keep the memory and forget the offsets of the removed names; clear() *)
Definition nm_keep (remaining : list Z) (st : nmem) : nmem :=
  mkNM (nm_mem st) (nm_used st) (nm_max st)
       (filter (fun e => existsb (Z.eqb (fst e)) remaining) (nm_off st)).
Definition nm_clear (st : nmem) : nmem := mkNM (nm_mem st) 0 (nm_max st) [].

(* ------------------------------------------------------------------ SVSet / LPRowSet / LPColSet *)
(* ensurePSVec(n): "if(num() + n > max()) reMax(int(factor * max()) + 8 + n)" with factor 1.1 *)
Definition svs_ensure {D} (d0 : D) (s : ds D) (n : Z) : ds D :=
  if themax s <? thenum s + n then ds_remax d0 s ((11 * themax s) / 10 + 8 + n) else s.
Definition svs_add {D} (d0 : D) (s : ds D) (x : D) : ds D * Z := ds_add (svs_ensure d0 s 1) x.

(* ------------------------------------------------------------------ DataHashTable *)
Definition htab := list (Z * Z).
Fixpoint ht_get (t : htab) (k : Z) : option Z :=
  match t with
  | [] => None
  | (k', v) :: r => if k' =? k then Some v else ht_get r k
  end.
Definition ht_has (t : htab) (k : Z) : bool := match ht_get t k with Some _ => true | None => false end.
(* add(h, info) (precondition !has(h)) *)
Definition ht_add (t : htab) (k v : Z) : htab := t ++ [(k, v)].
Definition ht_remove (t : htab) (k : Z) : htab := filter (fun e => negb (fst e =? k)) t.

(* ------------------------------------------------------------------ DataArray / Array / ClassArray *)
(* insert(i, n, t[]): insert before the i'th element (0 <= i <= size()) *)
Definition arr_insert {A} (l : list A) (i : Z) (xs : list A) : list A :=
  firstn (Z.to_nat i) l ++ xs ++ skipn (Z.to_nat i) l.
(* remove(n, m): remove m elements starting at n (fewer if the array ends before) *)
Definition arr_remove {A} (l : list A) (n m : Z) : list A :=
  firstn (Z.to_nat n) l ++ skipn (Z.to_nat (n + m)) l.
(* removeLast(m) *)
Definition arr_remove_last {A} (l : list A) (m : Z) : list A := firstn (Z.to_nat (zlen l - m)) l.
(* reSize(n) followed by filling the new elements with d *)
Definition arr_resize {A} (d : A) (l : list A) (n : Z) : list A := resize d n l.

(* ------------------------------------------------------------------ IdList / IsList *)
Definition lst_append (l : list Z) (x : Z) : list Z := l ++ [x].
Definition lst_prepend (l : list Z) (x : Z) : list Z := x :: l.
(* insert(elem, after) *)
Fixpoint lst_insert_after (l : list Z) (x after : Z) : list Z :=
  match l with
  | [] => []
  | y :: r => if y =? after then y :: x :: r else y :: lst_insert_after r x after
  end.
Definition lst_remove (l : list Z) (x : Z) : list Z := filter (fun y => negb (y =? x)) l.
(* IsList::remove_next(after) *)
Fixpoint lst_remove_next (l : list Z) (after : Z) : list Z :=
  match l with
  | [] => []
  | y :: r => if y =? after then y :: tl r else y :: lst_remove_next r after
  end.
