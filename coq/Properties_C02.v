(* C02 - Infeasible/unbounded verdicts are never wrong; rays and Farkas proofs are valid. *)
From Coq Require Import QArith Qabs List Bool.
From SV Require Import Vec LP Cert Cert_Proofs DriverModel Driver_Proofs Driver_Honest.
Import ListNotations.
Local Open Scope Q_scope.

(* A Farkas vector accepted by the checker proves that the user's LP has no feasible point. *)
Theorem C02_farkas_proves_infeasibility :
  forall p y, check_farkas p y = true -> infeasible p.
Proof. exact farkas_sound. Qed.
Print Assumptions C02_farkas_proves_infeasibility.

(* Floating-point Farkas vectors carry rounding-level coefficients on unbounded columns; accepted on the M-box of the LP
   they exclude every feasible point whose entries are bounded by M. *)
Theorem C02_farkas_on_box :
  forall M p y, check_farkas (box M p) y = true ->
    forall x, feasible p x -> ~ (forall j, (j < ncols p)%nat -> - M <= vnth x j /\ vnth x j <= M).
Proof. exact farkas_box_sound. Qed.
Print Assumptions C02_farkas_on_box.

(* An accepted ray keeps every bound and side satisfied from any feasible point, for every step length, and the
   objective improves strictly and linearly: the LP has no finite optimum. *)
Theorem C02_ray_keeps_feasible_and_improves :
  forall p x0 r, feasible p x0 -> check_ray p r = true ->
    forall t, 0 <= t ->
      feasible p (along x0 r t) /\
      objective p (along x0 r t) == objective p x0 + t * dot (objvec p) r /\
      (0 < t -> strictly_better p (objective p (along x0 r t)) (objective p x0)).
Proof. exact ray_sound. Qed.
Print Assumptions C02_ray_keeps_feasible_and_improves.

Theorem C02_ray_means_unbounded :
  forall p x0 r, feasible p x0 -> check_ray p r = true -> unbounded p.
Proof. exact ray_unbounded. Qed.
Print Assumptions C02_ray_means_unbounded.

(* tolerance version for floating-point rays: the violation grows at most linearly with the step *)
Theorem C02_ray_with_tolerance :
  forall e0 e p x0 r, feasible_tol e0 p x0 -> check_ray_tol e p r = true ->
    forall t, 0 <= t ->
      feasible_tol (e0 + t * e) p (along x0 r t) /\
      objective p (along x0 r t) == objective p x0 + t * dot (objvec p) r /\
      (0 < t -> strictly_better p (objective p (along x0 r t)) (objective p x0)).
Proof. exact ray_tol_sound. Qed.
Print Assumptions C02_ray_with_tolerance.

(* The three kinds of certificate exclude each other: a solver can never be right with two different verdicts. *)
Theorem C02_certificates_exclusive :
  forall p x y yf x0 r,
    (check_opt_exact p x y = true -> check_farkas p yf = true -> False) /\
    (check_opt_exact p x y = true -> feasible p x0 -> check_ray p r = true -> False) /\
    (check_farkas p yf = true -> feasible p x0 -> False).
Proof. exact certificates_exclusive. Qed.
Print Assumptions C02_certificates_exclusive.

(* With ENSURERAY the solve driver (model of solvereal.hpp, DriverModel.v; tied to the code by replaying every recorded
   control trace) never ends INFEASIBLE without a Farkas vector or UNBOUNDED without a primal ray - whatever the simplifier,
   the scalers and the simplex engine answer, including verdicts found by presolve and verdicts on a scaled or presolved LP. *)
Theorem C02_ensureray_offers_proof :
  forall P orc oscaled s0 r, p_ensureray P = true -> optimize P orc oscaled FUEL s0 = Done r ->
    (status r = INFEASIBLE -> has_farkas r = true) /\ (status r = UNBOUNDED -> has_ray r = true).
Proof. exact ensureray_offers_proof. Qed.
Print Assumptions C02_ensureray_offers_proof.

(* and the offered vector has been mapped back to the user's problem space *)
Theorem C02_offered_proof_in_user_space :
  forall P orc oscaled s0 r, optimize P orc oscaled FUEL s0 = Done r ->
    (sol_ok r || has_ray r || has_farkas r) = true -> is_user_space (sol_space r) = true.
Proof. exact offered_solution_in_user_space. Qed.
Print Assumptions C02_offered_proof_in_user_space.

(* ---- non-vacuity ---- *)
Definition ex_orec (sr : simp) (t : st) : orec :=
  {| o_simp := sr; o_scaled := true; o_status := t; o_throw := false; o_vbits := (false, false, false, false);
     o_dualfeas := true; o_cycstatus := ABORT_CYCLING; o_resbasis := true |}.
Definition ex_state : dstate :=
  {| simp_on := false; scaler_on := true; loaded := true; scaled := false; sol_scaled := false; intl := false;
     has_basis := false; status := OTHER 0; has_sol := false; has_ray := false; has_farkas := false; apply_pol := false;
     objlim_en := true; opt_calls := 0; unsc_calls := 0; sol_space := user_space; sol_ok := false; frame := O; trace := [] |}.
(* presolve detects infeasibility: with ENSURERAY the original LP is solved again and a Farkas vector is offered; without
   it the verdict is reported as it is, with no proof *)
Example C02_ex_ensureray :
  match optimize {| p_simp := true; p_scaler := true; p_persist := true; p_ensureray := true; p_objlim := false |}
                 (fun k => if Nat.eqb k 0 then ex_orec S_INFEASIBLE (OTHER 0) else ex_orec S_OKAY INFEASIBLE) true FUEL ex_state,
        optimize {| p_simp := true; p_scaler := true; p_persist := true; p_ensureray := false; p_objlim := false |}
                 (fun k => ex_orec S_INFEASIBLE (OTHER 0)) true FUEL ex_state with
  | Done r, Done r' => status r = INFEASIBLE /\ has_farkas r = true /\ frame r = 2%nat /\ status r' = INFEASIBLE /\ has_farkas r' = false
  | _, _ => False
  end.
Proof. vm_compute. repeat split. Qed.

Definition ex_inf : lp :=
  {| maximize := false; offset := 0;
     cols := [ {| c_obj := 1; c_lo := Some 0; c_up := Some 1 |} ];
     rows := [ {| r_lhs := Some 3; r_coef := [1]; r_rhs := None |} ] |}.
Example C02_ex_farkas : check_farkas ex_inf [1] = true.
Proof. vm_compute. reflexivity. Qed.
(* A verdict INFEASIBLE / UNBOUNDED the driver ends with is the verdict of its LAST pass: the inner solve's status (after
   cycling: the status of the feasibility test) or the simplifier's verdict; for every oracle, setting, start state, fuel. *)
Theorem C02_verdict_from_last_pass : forall P orc oscaled fuel s0 s' t,
  optimize P orc oscaled fuel s0 = Done s' -> DriverModel.status s' = t -> (t = DriverModel.INFEASIBLE \/ t = DriverModel.UNBOUNDED) ->
  exists f, frame s' = S f /\
    (o_status (orc f) = t \/ (o_status (orc f) = DriverModel.ABORT_CYCLING /\ o_cycstatus (orc f) = t) \/
     (p_simp P = true /\ (o_simp (orc f) = S_INFEASIBLE /\ t = DriverModel.INFEASIBLE \/ o_simp (orc f) = S_UNBOUNDED /\ t = DriverModel.UNBOUNDED))).
Proof. exact verdict_from_last_pass. Qed.
Print Assumptions C02_verdict_from_last_pass.

Definition ex_unb : lp :=
  {| maximize := true; offset := 0;
     cols := [ {| c_obj := 1; c_lo := Some 0; c_up := None |}; {| c_obj := 0; c_lo := None; c_up := Some 2 |} ];
     rows := [ {| r_lhs := None; r_coef := [1; -1]; r_rhs := Some 5 |} ] |}.
Example C02_ex_ray : feasible_b ex_unb [0; 0] = true /\ check_ray ex_unb [1; 1] = false /\ check_ray ex_unb [1; 0] = false.
Proof. vm_compute. repeat split. Qed.
Definition ex_unb2 : lp :=
  {| maximize := true; offset := 0;
     cols := [ {| c_obj := 1; c_lo := Some 0; c_up := None |}; {| c_obj := 0; c_lo := Some 0; c_up := None |} ];
     rows := [ {| r_lhs := None; r_coef := [1; -1]; r_rhs := Some 5 |} ] |}.
Example C02_ex_ray2 : feasible_b ex_unb2 [0; 0] = true /\ check_ray ex_unb2 [1; 1] = true.
Proof. vm_compute. repeat split. Qed.
