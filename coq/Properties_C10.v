(* C10 - The LU factorization and its updates solve with the current basis matrix.
   Property theorems only; each is closed by [exact] of a lemma proved in LU_Proofs.v.

   Certifying-oracle reading (DESIGN.md section 2, 5/C10): the Markowitz elimination, the Forrest-Tomlin and
   product-form updates and the hyper-sparse solves are witness producers and are NOT modelled.  The theorems
   below say what acceptance by the checkers of LUModel.v means, for matrices of every dimension over Q:
   every answer of the implementation is passed through the extracted checkers on every run (checks/C10.py). *)
From Coq Require Import List QArith Qabs Bool Arith ZArith.
From SV Require Import LUModel LU_Proofs.
Import ListNotations.
Local Open Scope Q_scope.

(* A regular certificate (two-sided inverse, checked coefficient-wise) makes the right and the left system uniquely
   solvable: any two accepted solutions agree, and Binv b / b^T Binv are accepted solutions for every rhs. *)
Theorem C10_regular_cert_unique_solution :
  forall n B Binv, regular_cert n B Binv = true ->
  (forall x y b, check_solve_right n B x b = true -> check_solve_right n B y b = true -> Forall2 Qeq x y) /\
  (forall b, length b = n -> check_solve_right n B (mat_vec n Binv b) b = true) /\
  (forall x y b, check_solve_left n B x b = true -> check_solve_left n B y b = true -> Forall2 Qeq x y) /\
  (forall b, length b = n -> check_solve_left n B (vec_mat b Binv) b = true).
Proof. exact regular_cert_unique_solution_lemma. Qed.
Print Assumptions C10_regular_cert_unique_solution.

(* A singular certificate (non-zero kernel vector) excludes every regular certificate: the verdicts SINGULAR
   (validated by a kernel vector) and "solves for every right-hand side" cannot both be right. *)
Theorem C10_singular_cert_no_inverse :
  forall n B v, singular_cert n B v = true -> forall Binv, regular_cert n B Binv = false.
Proof. exact singular_cert_no_inverse_lemma. Qed.
Print Assumptions C10_singular_cert_no_inverse.

(* ... and with a kernel vector no accepted solution is the only one. *)
Theorem C10_singular_cert_solutions_not_unique :
  forall n B v, singular_cert n B v = true ->
  forall x b, check_solve_right n B x b = true ->
    check_solve_right n B (vadd x v) b = true /\ ~ Forall2 Qeq (vadd x v) x.
Proof. exact singular_cert_not_unique_lemma. Qed.
Print Assumptions C10_singular_cert_solutions_not_unique.

(* change(idx, column): column k becomes v, all other columns are unchanged, the shape is preserved. *)
Theorem C10_replace_col_spec :
  forall n B k v, wf_mat n B = true -> wf_vec n v = true -> (k < n)%nat ->
  wf_mat n (replace_col B k v) = true /\
  nth_error (replace_col B k v) k = Some v /\
  (forall j, j <> k -> nth_error (replace_col B k v) j = nth_error B j).
Proof. exact replace_col_spec_lemma. Qed.
Print Assumptions C10_replace_col_spec.

(* any history of loads and column replacements keeps a square matrix of the same dimension *)
Theorem C10_history_keeps_shape :
  forall n ops B, wf_mat n B = true -> forallb (wf_op n) ops = true -> wf_mat n (lu_run B ops) = true.
Proof. exact lu_run_wf_lemma. Qed.
Print Assumptions C10_history_keeps_shape.

(* algebraic core of the product-form (eta) update: if w solves B w = v then the matrix with column k replaced
   by v is B times the eta matrix built from w. *)
Theorem C10_eta_update_correct :
  forall n B k v w x, wf_mat n B = true -> check_solve_right n B w v = true -> length x = n -> (k < n)%nat ->
  Forall2 Qeq (mat_vec n (replace_col B k v) x) (mat_vec n B (eta_apply k w x)).
Proof. exact eta_update_correct_lemma. Qed.
Print Assumptions C10_eta_update_correct.

(* The 2- and 3-right-hand-side variants are specified as exactly the tuple of the single specifications. *)
Theorem C10_multi_rhs_spec :
  forall n B x y z b d e,
  (solve2_right_spec n B x y b d = true <-> check_solve_right n B x b = true /\ check_solve_right n B y d = true) /\
  (solve3_right_spec n B x y z b d e = true <->
     check_solve_right n B x b = true /\ check_solve_right n B y d = true /\ check_solve_right n B z e = true) /\
  (solve2_left_spec n B x y b d = true <-> check_solve_left n B x b = true /\ check_solve_left n B y d = true) /\
  (solve3_left_spec n B x y z b d e = true <->
     check_solve_left n B x b = true /\ check_solve_left n B y d = true /\ check_solve_left n B z e = true).
Proof. exact multi_rhs_spec_lemma. Qed.
Print Assumptions C10_multi_rhs_spec.

(* On a certified-regular matrix exact multi-rhs answers coincide with the exact single-solve answers. *)
Theorem C10_multi_rhs_equals_single_right :
  forall n B Binv x y z b d e x1 y1 z1, regular_cert n B Binv = true ->
  solve3_right_spec n B x y z b d e = true ->
  check_solve_right n B x1 b = true -> check_solve_right n B y1 d = true -> check_solve_right n B z1 e = true ->
  Forall2 Qeq x x1 /\ Forall2 Qeq y y1 /\ Forall2 Qeq z z1.
Proof. exact multi_rhs_equals_single_lemma. Qed.
Print Assumptions C10_multi_rhs_equals_single_right.

Theorem C10_multi_rhs_equals_single_left :
  forall n B Binv x y z b d e x1 y1 z1, regular_cert n B Binv = true ->
  solve3_left_spec n B x y z b d e = true ->
  check_solve_left n B x1 b = true -> check_solve_left n B y1 d = true -> check_solve_left n B z1 e = true ->
  Forall2 Qeq x x1 /\ Forall2 Qeq y y1 /\ Forall2 Qeq z z1.
Proof. exact multi_lhs_equals_single_lemma. Qed.
Print Assumptions C10_multi_rhs_equals_single_left.

(* The boolean checkers say exactly that the equations hold coefficient by coefficient. *)
Theorem C10_check_solve_right_sound :
  forall n B x b, check_solve_right n B x b = true <->
  (wf_mat n B = true /\ length x = n /\ length b = n /\
   forall i, (i < n)%nat -> nth i (mat_vec n B x) 0 == nth i b 0).
Proof. exact check_solve_right_sound_lemma. Qed.
Print Assumptions C10_check_solve_right_sound.

Theorem C10_check_solve_left_sound :
  forall n B x b, check_solve_left n B x b = true <->
  (wf_mat n B = true /\ length x = n /\ length b = n /\
   forall j, (j < n)%nat -> dot x (nth j B []) == nth j b 0).
Proof. exact check_solve_left_sound_lemma. Qed.
Print Assumptions C10_check_solve_left_sound.

(* Tolerance version: acceptance bounds every residual component by eps (|B|_inf |x|_inf + |b|_inf)
   (|B|_1 on the transposed side). *)
Theorem C10_residual_bound :
  forall n B x b eps, check_residual_right n B x b eps = true ->
  forall i, (i < n)%nat -> Qabs (nth i (mat_vec n B x) 0 - nth i b 0) <= eps * (norm_inf_mat n B * norm_inf x + norm_inf b).
Proof. exact residual_bound_right_lemma. Qed.
Print Assumptions C10_residual_bound.

Theorem C10_residual_bound_left :
  forall n B x b eps, check_residual_left n B x b eps = true ->
  forall j, (j < n)%nat -> Qabs (dot x (nth j B []) - nth j b 0) <= eps * (norm_one_mat B * norm_inf x + norm_inf b).
Proof. exact residual_bound_left_lemma. Qed.
Print Assumptions C10_residual_bound_left.

(* the tolerance check is not vacuous: exact solutions pass it for every eps >= 0 *)
Theorem C10_exact_solution_passes_residual :
  forall n B x b eps, 0 <= eps -> length b = n ->
  check_solve_right n B x b = true -> check_residual_right n B x b eps = true.
Proof. exact exact_passes_residual_lemma. Qed.
Print Assumptions C10_exact_solution_passes_residual.

(* forward error: an approximate solution differs from the exact one, Binv b, by Binv applied to its residual *)
Theorem C10_forward_error :
  forall n B Binv x b, regular_cert n B Binv = true -> length x = n -> length b = n ->
  Forall2 Qeq x (vadd (mat_vec n Binv b) (mat_vec n Binv (residual_right n B x b))).
Proof. exact forward_error_lemma. Qed.
Print Assumptions C10_forward_error.

(* the certificate in the form the check uses it (inverse = integer matrix N over a common denominator d) *)
Theorem C10_regular_cert_scaled_sound :
  forall n B N d, regular_cert_scaled n B N d = true -> regular_cert n B (mscale (/ d) N) = true.
Proof. exact regular_cert_scaled_sound_lemma. Qed.
Print Assumptions C10_regular_cert_scaled_sound.

(* Homogeneity: the check clears denominators by scaling the matrix by s > 0 and the solution by t > 0 (and the
   right-hand side by s t); the verdicts of the checkers do not change. *)
Theorem C10_residual_check_scale_invariant :
  forall n B x b eps s t, 0 < s -> 0 < t ->
  check_residual_right n (mscale s B) (vscale t x) (vscale (s * t) b) eps = check_residual_right n B x b eps /\
  check_residual_left n (mscale s B) (vscale t x) (vscale (s * t) b) eps = check_residual_left n B x b eps.
Proof. exact residual_check_scale_invariant_lemma. Qed.
Print Assumptions C10_residual_check_scale_invariant.

Theorem C10_close_check_scale_invariant :
  forall x y eps t, 0 < t -> check_close (vscale t x) (vscale t y) eps = check_close x y eps.
Proof. exact check_close_scale_lemma. Qed.
Print Assumptions C10_close_check_scale_invariant.

(* ---- the hypotheses are satisfiable by non-trivial instances ---- *)
Definition exB : mat := [[2; 1; 0]; [1; 1; 0]; [0; 3; 1#2]].              (* columns *)
Definition exBinv : mat := [[1; -1; 0]; [-1; 2; 0]; [6; -12; 2]].
Example ex_regular_scaled : regular_cert_scaled 3 exB (mscale 5 exBinv) 5 = true.
Proof. vm_compute. reflexivity. Qed.
Example ex_regular : regular_cert 3 exB exBinv = true.
Proof. vm_compute. reflexivity. Qed.
Example ex_solve : check_solve_right 3 exB [1; 2; 4] [4; 15; 2] = true /\
                   check_solve_left 3 exB [1; 2; 4] [4; 3; 8] = true.
Proof. vm_compute. split; reflexivity. Qed.
Example ex_singular : singular_cert 3 [[1; 2; 3]; [2; 4; 6]; [0; 1; 0]] [2; -1; 0] = true.
Proof. vm_compute. reflexivity. Qed.
Example ex_replace : replace_col exB 1 [5; 6; 7] = [[2; 1; 0]; [5; 6; 7]; [0; 3; 1#2]].
Proof. reflexivity. Qed.
Example ex_eta : check_solve_right 3 exB [1; 1; 2] [3; 8; 1] = true /\
                 veqb (mat_vec 3 (replace_col exB 1 [3; 8; 1]) [1; 2; 3]) (mat_vec 3 exB (eta_apply 1 [1; 1; 2] [1; 2; 3])) = true.
Proof. vm_compute. split; reflexivity. Qed.
Example ex_residual : check_residual_right 3 exB [1; 2; 4000001#1000000] [4; 15; 2] (1#100000) = true /\
                      check_residual_right 3 exB [1; 2; 5] [4; 15; 2] (1#100000) = false.
Proof. vm_compute. split; reflexivity. Qed.
Example ex_history : lu_run exB [OpChange 0 [1; 0; 0]; OpLoad exBinv; OpChange 2 [0; 0; 1]] = [[1; -1; 0]; [-1; 2; 0]; [0; 0; 1]].
Proof. reflexivity. Qed.
Example ex_scale : check_residual_right 3 (mscale 8 exB) (vscale 4 [1; 2; 4000001#1000000]) (vscale 32 [4; 15; 2]) (1#100000) = true /\
                   check_residual_right 3 (mscale 8 exB) (vscale 4 [1; 2; 5]) (vscale 32 [4; 15; 2]) (1#100000) = false.
Proof. vm_compute. split; reflexivity. Qed.

(* ---- the update protocol (usetup): load / ...4update / change ---- *)
(* Whatever the history of loads, prepared updates, solves and column replacements, a change that relies on the prepared vector
   uses the vector that was prepared for the CURRENT matrix (every operation that changes the matrix drops the prepared vector). *)
Theorem C10_prepared_update_is_for_current_matrix :
  forall ops B0 o B v,
    change_uses (p_run {| p_mat := B0; p_prep := None |} ops) o = Some (B, v) ->
    B = p_mat (p_run {| p_mat := B0; p_prep := None |} ops).
Proof. exact change_uses_current_lemma. Qed.
Print Assumptions C10_prepared_update_is_for_current_matrix.

(* the flag the implementation keeps (compared with SLUFactor::usetup after every operation of every history) *)
Theorem C10_usetup_flag :
  forall s o, usetup (p_step s o) = match o with PPrep _ => true | PSolve => usetup s | _ => false end.
Proof. exact usetup_after_lemma. Qed.
Print Assumptions C10_usetup_flag.

(* the protocol machine and the specification machine agree on the matrix *)
Theorem C10_protocol_matrix :
  forall ops s, p_mat (p_run s ops) = lu_run (p_mat s) (flat_map p_erase ops).
Proof. exact p_run_matrix_lemma. Qed.
Print Assumptions C10_protocol_matrix.

(* sharpness: a load() that kept the prepared vector would hand a later change a vector prepared for another matrix *)
Theorem C10_stale_prepared_vector_refuted :
  exists ops o B v, let s := fold_left p_step_stale ops {| p_mat := [[1; 0]; [0; 1]]; p_prep := None |} in
    change_uses s o = Some (B, v) /\ B <> p_mat s.
Proof. exact stale_load_refuted_lemma. Qed.
Print Assumptions C10_stale_prepared_vector_refuted.
