(* C20 - model of the C interface (src/soplex_interface.cpp) as a layer of argument/result conversions around
   C++ member calls.  Executable definitions only; proofs are in CIface_Proofs.v.

   What is modelled from the code:
   * dense array -> sparse vector: the loop  for(i = 0; i < size; ++i) if(a[i] != 0) vec.add(i, a[i])   of
     SoPlex_addColReal / addRowReal (and, with a numerator test and a Rational(num, den) construction, of
     SoPlex_addColRational / addRowRational).  [nnonzeros] only sizes the DSVector (DSVectorBase grows on add).
   * (long num, long den) -> Rational: boost::multiprecision gmp_rational assign_components(long, long)
     (den = 0 throws; a negative denominator moves the sign to the numerator; mpq_canonicalize).
   * Rational -> (long, long) of the two rational getters ((long int) numerator(q): saturating conversion).
   * per wrapper: the C++ member calls made, with the converted arguments in the order the code passes them
     (LPCol(obj, vec, upper, lower), LPRow(lhs, vec, rhs)), and how the C++ results are handed to the caller.
   * per wrapper: the indices of every caller array, of the wrapper's temporary vector and of the returned buffer that
     are read or written, as a function of the declared lengths and the LP dimensions. *)
From Coq Require Import ZArith QArith Qreduction List Bool String.
Import ListNotations.
Local Open Scope nat_scope.

(* ------------------------------------------------------------------------------------------------------------- *)
(* sparse vectors: (index, value) in the order of DSVector::add                                                    *)
(* ------------------------------------------------------------------------------------------------------------- *)
Definition svec (A : Type) := list (nat * A).

Section Dense.
  Variable A : Type.
  Variable isz : A -> bool.          (* the wrapper's test  a[i] == 0 *)

  (* the wrapper loop: [i] is the loop counter, [fuel] = size - i, [arr] the not yet visited part of the array,
     [acc] the DSVector built so far.  Running off the caller's array (size larger than the allocation) is not
     a behaviour of the model: the loop stops; the footprint model below flags the call instead. *)
  Fixpoint d2s_loop (arr : list A) (i fuel : nat) (acc : svec A) {struct fuel} : svec A :=
    match fuel with
    | O => acc
    | S f => match arr with
             | [] => acc
             | x :: tl => d2s_loop tl (S i) f (if isz x then acc else acc ++ [(i, x)])
             end
    end.

  Definition dense_to_sparse_gen (arr : list A) (size : nat) : svec A := d2s_loop arr 0 size [].

  (* what a C++ user would pass: the non-zero entries of the first [size] positions with their positions *)
  Definition sparse_of_dense (arr : list A) (size : nat) : svec A :=
    filter (fun p => negb (isz (snd p))) (combine (seq 0 size) arr).

  Definition sv_get (d : A) (v : svec A) (i : nat) : A :=
    match find (fun p => Nat.eqb (fst p) i) v with Some p => snd p | None => d end.
End Dense.
Arguments d2s_loop {A}. Arguments dense_to_sparse_gen {A}. Arguments sparse_of_dense {A}. Arguments sv_get {A}.

Definition Qis0 (q : Q) : bool := Z.eqb (Qnum q) 0.
Definition Zis0 (z : Z) : bool := Z.eqb z 0.

(* SoPlex_addColReal / SoPlex_addRowReal: doubles are carried as the rationals they denote *)
Definition dense_to_sparse (arr : list Q) (size : nat) : svec Q := dense_to_sparse_gen Qis0 arr size.

(* ------------------------------------------------------------------------------------------------------------- *)
(* (long, long) <-> Rational                                                                                      *)
(* ------------------------------------------------------------------------------------------------------------- *)
Definition pair_to_Q (num den : Z) : option Q :=
  if Z.eqb den 0 then None
  else Some (Qred (if Z.ltb den 0 then Qmake (- num) (Z.to_pos (- den)) else Qmake num (Z.to_pos den))).

(* the C++ user's value: Rational(num) / Rational(den), canonical *)
Definition rat_of_pair (num den : Z) : option Q :=
  if Z.eqb den 0 then None else Some (Qred (Qdiv (inject_Z num) (inject_Z den))).

Definition LONG_MAX : Z := 9223372036854775807.
Definition LONG_MIN : Z := -9223372036854775808.
Definition to_long (z : Z) : Z := if Z.ltb LONG_MAX z then LONG_MAX else if Z.ltb z LONG_MIN then LONG_MIN else z.
Definition Q_to_pair (q : Q) : Z * Z := (to_long (Qnum q), to_long (Zpos (Qden q))).

(* the rational loop of SoPlex_addColRational / addRowRational: numerator test, denominator read only for
   non-zero numerators, Rational(num, den) may throw *)
Fixpoint d2s_rat_loop (nums dens : list Z) (i fuel : nat) (acc : svec Q) {struct fuel} : option (svec Q) :=
  match fuel with
  | O => Some acc
  | S f => match nums, dens with
           | n :: nt, d :: dt =>
             if Zis0 n then d2s_rat_loop nt dt (S i) f acc
             else match pair_to_Q n d with
                  | None => None
                  | Some q => d2s_rat_loop nt dt (S i) f (acc ++ [(i, q)])
                  end
           | _, _ => Some acc
           end
  end.
Definition dense_to_sparse_rat (nums dens : list Z) (size : nat) : option (svec Q) := d2s_rat_loop nums dens 0 size [].

Fixpoint opt_all {A : Type} (l : list (option A)) : option (list A) :=
  match l with
  | [] => Some []
  | None :: _ => None
  | Some x :: tl => match opt_all tl with Some r => Some (x :: r) | None => None end
  end.

(* C++ user's version: positions of the first [size] entries with non-zero numerator, value Rational(n)/Rational(d) *)
Definition sparse_of_dense_rat (nums dens : list Z) (size : nat) : option (svec Q) :=
  opt_all (map (fun p => match rat_of_pair (fst (snd p)) (snd (snd p)) with
                         | Some q => Some (fst p, q) | None => None end)
               (filter (fun p => negb (Zis0 (fst (snd p)))) (combine (seq 0 size) (combine nums dens)))).

(* the loops of SoPlex_changeObjRational / changeLhsRational / changeRhsRational: every entry is converted *)
Definition dense_rat (nums dens : list Z) (dim : nat) : option (list Q) :=
  opt_all (map (fun p => pair_to_Q (fst p) (snd p)) (firstn dim (combine nums dens))).
Definition dense_rat_spec (nums dens : list Z) (dim : nat) : option (list Q) :=
  opt_all (map (fun p => rat_of_pair (fst p) (snd p)) (firstn dim (combine nums dens))).

(* ------------------------------------------------------------------------------------------------------------- *)
(* the C functions (raw arguments) and the C++ members (typed arguments)                                          *)
(* ------------------------------------------------------------------------------------------------------------- *)
Inductive c_call :=
| CReadInstanceFile (f : Z) | CReadBasisFile (f : Z) | CReadSettingsFile (f : Z)
| CClearLPReal | CNumRows | CNumCols | CSetRational
| CSetBoolParam (code v : Z) | CSetIntParam (code v : Z) | CSetRealParam (code : Z) (v : Q) | CGetIntParam (code : Z)
| CAddColReal (e : list Q) (size : nat) (nnz : Z) (obj lb ub : Q)
| CRemoveColReal (i : Z)
| CAddColRational (nums dens : list Z) (size : nat) (nnz : Z) (objn objd lbn lbd ubn ubd : Z)
| CAddRowReal (e : list Q) (size : nat) (nnz : Z) (lb ub : Q)
| CRemoveRowReal (i : Z)
| CAddRowRational (nums dens : list Z) (size : nat) (nnz : Z) (lbn lbd ubn ubd : Z)
| CGetPrimalReal (dim : nat) | CGetPrimalRationalString (dim : nat) | CGetDualReal (dim : nat) | CGetRedCostReal (dim : nat)
| COptimize | CGetStatus | CGetSolvingTime | CGetNumIterations
| CChangeObjReal (a : list Q) (dim : nat) | CChangeObjRational (nums dens : list Z) (dim : nat)
| CChangeLhsReal (a : list Q) (dim : nat) | CChangeRowLhsReal (i : Z) (v : Q)
| CChangeLhsRational (nums dens : list Z) (dim : nat)
| CChangeRhsReal (a : list Q) (dim : nat) | CChangeRowRhsReal (i : Z) (v : Q)
| CChangeRangeReal (l r : list Q) (dim : nat) | CChangeRowRangeReal (i : Z) (l r : Q)
| CChangeRhsRational (nums dens : list Z) (dim : nat)
| CWriteFileReal (f : Z) | CObjValueReal | CObjValueRationalString
| CChangeBoundsReal (l u : list Q) (dim : nat) | CChangeVarBoundsReal (i : Z) (l u : Q)
| CChangeVarBoundsRational (i : Z) (lbn lbd ubn ubd : Z)
| CChangeLowerReal (a : list Q) (dim : nat) | CChangeVarLowerReal (i : Z) (v : Q) | CGetLowerReal (dim : nat)
| CGetObjReal (dim : nat)
| CChangeUpperReal (a : list Q) (dim : nat) | CChangeVarUpperReal (i : Z) (v : Q) | CGetUpperReal (dim : nat)
| CBasisRowStatus (i : Z) | CBasisColStatus (i : Z)
| CGetRowVectorReal (i : Z) | CGetRowVectorRational (i : Z) | CGetRowBoundsReal (i : Z) | CGetRowBoundsRational (i : Z).

Inductive cpp_op :=
| XReadFile (f : Z) | XReadBasisFile (f : Z) | XLoadSettingsFile (f : Z) | XClearLPReal | XNumRows | XNumCols
| XSetBoolParam (code : Z) (v : bool) | XSetIntParam (code v : Z) | XSetRealParam (code : Z) (v : Q) | XIntParam (code : Z)
| XAddColReal (obj : Q) (v : svec Q) (up lo : Q) | XRemoveColReal (i : Z)
| XAddColRational (obj : Q) (v : svec Q) (up lo : Q)
| XAddRowReal (lhs : Q) (v : svec Q) (rhs : Q) | XRemoveRowReal (i : Z)
| XAddRowRational (lhs : Q) (v : svec Q) (rhs : Q)
| XGetPrimalRealArr (size : nat) | XGetPrimalRational (dim : nat) | XGetDualRealArr (size : nat) | XGetRedCostRealArr (size : nat)
| XOptimize | XStatus | XSolveTime | XNumIterations
| XChangeObjReal (v : list Q) | XChangeObjRational (v : list Q)
| XChangeLhsReal (v : list Q) | XChangeLhsRealI (i : Z) (v : Q) | XChangeLhsRational (v : list Q)
| XChangeRhsReal (v : list Q) | XChangeRhsRealI (i : Z) (v : Q)
| XChangeRangeReal (l r : list Q) | XChangeRangeRealI (i : Z) (l r : Q) | XChangeRhsRational (v : list Q)
| XWriteFile (f : Z) | XObjValueReal | XObjValueRational
| XChangeBoundsReal (l u : list Q) | XChangeBoundsRealI (i : Z) (l u : Q) | XChangeBoundsRationalI (i : Z) (l u : Q)
| XChangeLowerReal (v : list Q) | XChangeLowerRealI (i : Z) (v : Q) | XGetLowerReal (dim : nat) | XGetObjReal (dim : nat)
| XChangeUpperReal (v : list Q) | XChangeUpperRealI (i : Z) (v : Q) | XGetUpperReal (dim : nat)
| XBasisRowStatus (i : Z) | XBasisColStatus (i : Z)
| XGetRowVectorReal (i : Z) | XGetRowRational (i : Z) | XLhsReal (i : Z) | XRhsReal (i : Z)
| XLhsRational (i : Z) | XRhsRational (i : Z).

(* results of C++ members.  RVec: a getter into a caller-provided array/vector: success flag and the contents of the
   vector after the call (its dimension may have been changed by the getter). *)
Inductive cpp_out :=
| RUnit | RBool (b : bool) | RInt (z : Z) | RReal (q : Q) | RRat (q : Q)
| RVec (ok : bool) (v : list Q) | RSvec (v : svec Q).

(* what the C caller receives *)
Inductive c_out :=
| KUnit | KInt (z : Z) | KReal (q : Q)
| KArr (v : list Q)                               (* values stored into the output array, from index 0 *)
| KStr (parts : list Q)                           (* the rationals printed into the returned string, in order *)
| KSvec (nnz : nat) (idx : list Z) (vals : list Q)
| KSvecRat (nnz : nat) (idx : list Z) (vals : list (Z * Z))
| KPair (a b : Q) | KRatPair (a b : Z * Z)
| KBad.                                           (* the C++ member returned something of another shape *)

(* integer codes of SoPlex_setRational, as written in the wrapper (regenerated values are checked in codes_agree) *)
Record rational_codes := { rc_readmode : Z * Z; rc_solvemode : Z * Z; rc_checkmode : Z * Z; rc_syncmode : Z * Z;
                           rc_feastol : Z; rc_opttol : Z }.

Section Wrappers.
  Variable RC : rational_codes.

  Definition opt2 {A B C : Type} (f : A -> B -> C) (a : option A) (b : option B) : option C :=
    match a, b with Some x, Some y => Some (f x y) | _, _ => None end.
  Definition opt3 {A B C D : Type} (f : A -> B -> C -> D) (a : option A) (b : option B) (c : option C) : option D :=
    match a, b, c with Some x, Some y, Some z => Some (f x y z) | _, _, _ => None end.

  (* conv = (sparse real, sparse rational, dense rational, pair) conversions; the wrappers use the loop versions, the
     intended C++ calls the specification versions *)
  Record convs := { cv_sp : list Q -> nat -> svec Q;
                    cv_sprat : list Z -> list Z -> nat -> option (svec Q);
                    cv_drat : list Z -> list Z -> nat -> option (list Q);
                    cv_pair : Z -> Z -> option Q }.
  Definition code_convs : convs :=
    {| cv_sp := dense_to_sparse; cv_sprat := dense_to_sparse_rat; cv_drat := dense_rat; cv_pair := pair_to_Q |}.
  Definition spec_convs : convs :=
    {| cv_sp := sparse_of_dense Qis0; cv_sprat := sparse_of_dense_rat; cv_drat := dense_rat_spec; cv_pair := rat_of_pair |}.

  (* the C++ member calls of a C function; None = the conversion throws (zero denominator) *)
  Definition calls (cv : convs) (c : c_call) : option (list cpp_op) :=
    match c with
    | CReadInstanceFile f => Some [XReadFile f]
    | CReadBasisFile f => Some [XReadBasisFile f]
    | CReadSettingsFile f => Some [XLoadSettingsFile f]
    | CClearLPReal => Some [XClearLPReal]
    | CNumRows => Some [XNumRows]
    | CNumCols => Some [XNumCols]
    | CSetRational =>
      Some [XSetIntParam (fst (rc_readmode RC)) (snd (rc_readmode RC));
            XSetIntParam (fst (rc_solvemode RC)) (snd (rc_solvemode RC));
            XSetIntParam (fst (rc_checkmode RC)) (snd (rc_checkmode RC));
            XSetIntParam (fst (rc_syncmode RC)) (snd (rc_syncmode RC));
            XSetRealParam (rc_feastol RC) 0; XSetRealParam (rc_opttol RC) 0]
    | CSetBoolParam code v => Some [XSetBoolParam code (negb (Z.eqb v 0))]      (* int -> bool conversion *)
    | CSetIntParam code v => Some [XSetIntParam code v]
    | CSetRealParam code v => Some [XSetRealParam code v]
    | CGetIntParam code => Some [XIntParam code]
    | CAddColReal e size _ obj lb ub => Some [XAddColReal obj (cv_sp cv e size) ub lb]
    | CRemoveColReal i => Some [XRemoveColReal i]
    | CAddColRational nums dens size _ on od ln ld un ud =>
      (* order of evaluation in the wrapper: lower, upper, objective, entries *)
      match cv_pair cv ln ld, cv_pair cv un ud, cv_pair cv on od with
      | Some lo, Some up, Some obj =>
        match cv_sprat cv nums dens size with Some v => Some [XAddColRational obj v up lo] | None => None end
      | _, _, _ => None
      end
    | CAddRowReal e size _ lb ub => Some [XAddRowReal lb (cv_sp cv e size) ub]
    | CRemoveRowReal i => Some [XRemoveRowReal i]
    | CAddRowRational nums dens size _ ln ld un ud =>
      match cv_pair cv ln ld, cv_pair cv un ud with
      | Some lo, Some up =>
        match cv_sprat cv nums dens size with Some v => Some [XAddRowRational lo v up] | None => None end
      | _, _ => None
      end
    | CGetPrimalReal dim => Some [XGetPrimalRealArr dim]
    | CGetPrimalRationalString dim => Some [XGetPrimalRational dim]
    | CGetDualReal dim => Some [XGetDualRealArr dim]
    | CGetRedCostReal dim => Some [XGetRedCostRealArr dim]
    | COptimize => Some [XOptimize]
    | CGetStatus => Some [XStatus]
    | CGetSolvingTime => Some [XSolveTime]
    | CGetNumIterations => Some [XNumIterations]
    | CChangeObjReal a dim => Some [XChangeObjReal (firstn dim a)]
    | CChangeObjRational n d dim => option_map (fun v => [XChangeObjRational v]) (cv_drat cv n d dim)
    | CChangeLhsReal a dim => Some [XChangeLhsReal (firstn dim a)]
    | CChangeRowLhsReal i v => Some [XChangeLhsRealI i v]
    | CChangeLhsRational n d dim => option_map (fun v => [XChangeLhsRational v]) (cv_drat cv n d dim)
    | CChangeRhsReal a dim => Some [XChangeRhsReal (firstn dim a)]
    | CChangeRowRhsReal i v => Some [XChangeRhsRealI i v]
    | CChangeRangeReal l r dim => Some [XChangeRangeReal (firstn dim l) (firstn dim r)]
    | CChangeRowRangeReal i l r => Some [XChangeRangeRealI i l r]
    | CChangeRhsRational n d dim => option_map (fun v => [XChangeRhsRational v]) (cv_drat cv n d dim)
    | CWriteFileReal f => Some [XWriteFile f]
    | CObjValueReal => Some [XObjValueReal]
    | CObjValueRationalString => Some [XObjValueRational]
    | CChangeBoundsReal l u dim => Some [XChangeBoundsReal (firstn dim l) (firstn dim u)]
    | CChangeVarBoundsReal i l u => Some [XChangeBoundsRealI i l u]
    | CChangeVarBoundsRational i ln ld un ud =>
      opt2 (fun lo up => [XChangeBoundsRationalI i lo up]) (cv_pair cv ln ld) (cv_pair cv un ud)
    | CChangeLowerReal a dim => Some [XChangeLowerReal (firstn dim a)]
    | CChangeVarLowerReal i v => Some [XChangeLowerRealI i v]
    | CGetLowerReal dim => Some [XGetLowerReal dim]
    | CGetObjReal dim => Some [XGetObjReal dim]
    | CChangeUpperReal a dim => Some [XChangeUpperReal (firstn dim a)]
    | CChangeVarUpperReal i v => Some [XChangeUpperRealI i v]
    | CGetUpperReal dim => Some [XGetUpperReal dim]
    | CBasisRowStatus i => Some [XBasisRowStatus i]
    | CBasisColStatus i => Some [XBasisColStatus i]
    | CGetRowVectorReal i => Some [XGetRowVectorReal i]
    | CGetRowVectorRational i => Some [XGetRowRational i]
    | CGetRowBoundsReal i => Some [XLhsReal i; XRhsReal i]
    | CGetRowBoundsRational i => Some [XLhsRational i; XLhsRational i; XRhsRational i; XRhsRational i]
    end.

  Definition wrapper_calls := calls code_convs.     (* what soplex_interface.cpp does *)
  Definition intended_calls := calls spec_convs.    (* what a C++ user writes for the same request *)

  (* how the wrapper hands the C++ results to the C caller *)
  Definition wrapper_result (c : c_call) (rs : list cpp_out) : c_out :=
    match c, rs with
    | (CReadInstanceFile _ | CReadBasisFile _ | CReadSettingsFile _), [RBool b] => KInt (if b then 1 else 0)%Z
    | (CNumRows | CNumCols | CGetIntParam _ | COptimize | CGetStatus | CGetNumIterations
       | CBasisRowStatus _ | CBasisColStatus _), [RInt z] => KInt z
    | (CGetSolvingTime | CObjValueReal), [RReal q] => KReal q
    (* array getters that forward the caller's array to C++: the C++ member stores directly *)
    | (CGetPrimalReal _ | CGetDualReal _ | CGetRedCostReal _), [RVec ok v] => if ok then KArr v else KArr []
    (* getters through a temporary Vector(dim): for(i < dim) out[i] = tmp[i] *)
    | (CGetLowerReal dim | CGetObjReal dim | CGetUpperReal dim), [RVec _ v] => KArr (firstn dim v)
    | CGetPrimalRationalString dim, [RVec _ v] => KStr (firstn dim v)
    | CObjValueRationalString, [RRat q] => KStr [q]
    | CGetRowVectorReal _, [RSvec v] => KSvec (List.length v) (map (fun p => Z.of_nat (fst p)) v) (map snd v)
    | CGetRowVectorRational _, [RSvec v] =>
      KSvecRat (List.length v) (map (fun p => Z.of_nat (fst p)) v) (map (fun p => Q_to_pair (snd p)) v)
    | CGetRowBoundsReal _, [RReal a; RReal b] => KPair a b
    | CGetRowBoundsRational _, [RRat a1; RRat a2; RRat b1; RRat b2] =>
      KRatPair (fst (Q_to_pair a1), snd (Q_to_pair a2)) (fst (Q_to_pair b1), snd (Q_to_pair b2))
    | (CClearLPReal | CSetRational | CSetBoolParam _ _ | CSetIntParam _ _ | CSetRealParam _ _
       | CAddColReal _ _ _ _ _ _ | CRemoveColReal _ | CAddColRational _ _ _ _ _ _ _ _ _ _
       | CAddRowReal _ _ _ _ _ | CRemoveRowReal _ | CAddRowRational _ _ _ _ _ _ _ _
       | CChangeObjReal _ _ | CChangeObjRational _ _ _ | CChangeLhsReal _ _ | CChangeRowLhsReal _ _
       | CChangeLhsRational _ _ _ | CChangeRhsReal _ _ | CChangeRowRhsReal _ _ | CChangeRangeReal _ _ _
       | CChangeRowRangeReal _ _ _ | CChangeRhsRational _ _ _ | CWriteFileReal _ | CChangeBoundsReal _ _ _
       | CChangeVarBoundsReal _ _ _ | CChangeVarBoundsRational _ _ _ _ _ | CChangeLowerReal _ _
       | CChangeVarLowerReal _ _ | CChangeUpperReal _ _ | CChangeVarUpperReal _ _), _ => KUnit
    | _, _ => KBad
    end.

  (* ----- the two runs over an abstract C++ object ----- *)
  Variable St : Type.
  Variable xstep : St -> cpp_op -> St * cpp_out.

  Fixpoint x_run (s : St) (ops : list cpp_op) : St * list cpp_out :=
    match ops with
    | [] => (s, [])
    | o :: tl => let (s1, r) := xstep s o in let (s2, rs) := x_run s1 tl in (s2, r :: rs)
    end.

  (* one C call: convert, call the members, convert back.  None: the conversion threw before any member call. *)
  Definition c_step (s : St) (c : c_call) : option (St * c_out) :=
    match wrapper_calls c with
    | None => None
    | Some ops => let (s', rs) := x_run s ops in Some (s', wrapper_result c rs)
    end.

  Fixpoint c_run (s : St) (cs : list c_call) : option (St * list c_out) :=
    match cs with
    | [] => Some (s, [])
    | c :: tl => match c_step s c with
                 | None => None
                 | Some (s1, o) => match c_run s1 tl with Some (s2, os) => Some (s2, o :: os) | None => None end
                 end
    end.

  (* the mirrored C++ session: for every C call the intended member calls; the per-call results are kept *)
  Fixpoint mirror_run (s : St) (cs : list c_call) : option (St * list (list cpp_out)) :=
    match cs with
    | [] => Some (s, [])
    | c :: tl => match intended_calls c with
                 | None => None
                 | Some ops => let (s1, rs) := x_run s ops in
                               match mirror_run s1 tl with Some (s2, rss) => Some (s2, rs :: rss) | None => None end
                 end
    end.

  Fixpoint results (cs : list c_call) (rss : list (list cpp_out)) : list c_out :=
    match cs, rss with
    | c :: ct, rs :: rt => wrapper_result c rs :: results ct rt
    | _, _ => []
    end.
End Wrappers.

(* a call has valid arguments when every array is at least as long as its declared List.length and no denominator that
   the wrapper reads is zero *)
Definition dens_ok_sparse (nums dens : list Z) (size : nat) : bool :=
  forallb (fun p => Zis0 (fst p) || negb (Zis0 (snd p))) (firstn size (combine nums dens)).
Definition dens_ok_dense (dens : list Z) (dim : nat) : bool := forallb (fun d => negb (Zis0 d)) (firstn dim dens).

Definition valid_call (c : c_call) : bool :=
  match c with
  | CAddColReal e size _ _ _ _ | CAddRowReal e size _ _ _ => size <=? List.length e
  | CAddColRational n d size _ _ od _ ld _ ud =>
    (size <=? List.length n) && (size <=? List.length d) && dens_ok_sparse n d size && negb (Zis0 od) && negb (Zis0 ld) && negb (Zis0 ud)
  | CAddRowRational n d size _ _ ld _ ud =>
    (size <=? List.length n) && (size <=? List.length d) && dens_ok_sparse n d size && negb (Zis0 ld) && negb (Zis0 ud)
  | CChangeObjReal a dim | CChangeLhsReal a dim | CChangeRhsReal a dim | CChangeLowerReal a dim | CChangeUpperReal a dim =>
    dim <=? List.length a
  | CChangeRangeReal l r dim | CChangeBoundsReal l r dim => (dim <=? List.length l) && (dim <=? List.length r)
  | CChangeObjRational n d dim | CChangeLhsRational n d dim | CChangeRhsRational n d dim =>
    (dim <=? List.length n) && (dim <=? List.length d) && dens_ok_dense d dim
  | CChangeVarBoundsRational _ _ ld _ ud => negb (Zis0 ld) && negb (Zis0 ud)
  | _ => true
  end.

(* ------------------------------------------------------------------------------------------------------------- *)
(* read / write footprints                                                                                        *)
(* ------------------------------------------------------------------------------------------------------------- *)
(* the facts about the C++ object a footprint depends on *)
Record lpdims := { d_rows : nat; d_cols : nat; d_ratcols : nat; d_hassol : bool; d_hasrat : bool;
                   d_scaled : bool;      (* the real LP is stored scaled (persistent scaling after a solve) *)
                   d_rowlen : nat;       (* number of non-zeros of the row addressed by a row getter *)
                   d_strlen : nat }.     (* List.length of the C++ string the call has to return *)

Inductive buf :=
| BArg (k : nat)      (* k-th pointer argument of the call (arrays and out-parameters, counted from 0) *)
| BTmp                (* the wrapper's temporary vector / sparse vector *)
| BRet.               (* the buffer returned to the caller *)

Record access := { a_buf : buf; a_wr : bool; a_idx : list nat }.
Definition rd (b : buf) (l : list nat) := {| a_buf := b; a_wr := false; a_idx := l |}.
Definition wr (b : buf) (l : list nat) := {| a_buf := b; a_wr := true; a_idx := l |}.
Definition upto (n : nat) := seq 0 n.
Definition nz_positions (nums : list Z) (size : nat) : list nat := map fst (dense_to_sparse_gen Zis0 nums size).

(* dimension of the wrapper's temporary when the wrapper indexes it *)
Definition tmp_dim_vecgetter (d : lpdims) (dim : nat) : nat :=
  if d_scaled d then dim            (* SPxScaler::get*Unscaled stores into the vector as it is *)
  else d_cols d.                    (* vec = VectorBase(lower()) re-dimensions it to the LP's size *)
Definition tmp_dim_primalstring (d : lpdims) (dim : nat) : nat :=
  if d_hasrat d && d_hassol d && (d_ratcols d <=? dim) then d_ratcols d   (* vector = _primal *)
  else dim.                                                                (* getter refused: Vector(dim) untouched *)

Definition footprint (c : c_call) (d : lpdims) : list access :=
  match c with
  | CAddColReal _ size _ _ _ _ | CAddRowReal _ size _ _ _ => [rd (BArg 0) (upto size)]
  | CAddColRational nums _ size _ _ _ _ _ _ _ | CAddRowRational nums _ size _ _ _ _ _ =>
    [rd (BArg 0) (upto size); rd (BArg 1) (nz_positions nums size)]
  | CGetPrimalReal dim | CGetRedCostReal dim =>
    if d_hassol d && (d_cols d <=? dim) then [wr (BArg 0) (upto (d_cols d))] else []
  | CGetDualReal dim =>
    if d_hassol d && (d_rows d <=? dim) then [wr (BArg 0) (upto (d_rows d))] else []
  | CGetPrimalRationalString dim => [rd BTmp (upto dim); wr BRet (upto (d_strlen d + 1))]
  | CChangeObjReal _ dim | CChangeLhsReal _ dim | CChangeRhsReal _ dim | CChangeLowerReal _ dim | CChangeUpperReal _ dim =>
    [rd (BArg 0) (upto dim)]
  | CChangeRangeReal _ _ dim | CChangeBoundsReal _ _ dim => [rd (BArg 0) (upto dim); rd (BArg 1) (upto dim)]
  | CChangeObjRational _ _ dim | CChangeLhsRational _ _ dim | CChangeRhsRational _ _ dim =>
    [rd (BArg 0) (upto dim); rd (BArg 1) (upto dim)]
  | CObjValueRationalString => [wr BRet (upto 1)]      (* strncpy(value, str, 1) *)
  | CGetLowerReal dim | CGetUpperReal dim | CGetObjReal dim =>
    (if d_scaled d then [wr BTmp (upto (d_cols d))] else []) ++ [rd BTmp (upto dim); wr (BArg 0) (upto dim)]
  | CGetRowVectorReal _ => [wr (BArg 0) [0]; wr (BArg 1) (upto (d_rowlen d)); wr (BArg 2) (upto (d_rowlen d))]
  | CGetRowVectorRational _ =>
    [wr BTmp (upto (d_rowlen d));      (* row = lprow.rowVector() into an SVector that owns no memory *)
     wr (BArg 0) [0]; wr (BArg 1) (upto (d_rowlen d)); wr (BArg 2) (upto (d_rowlen d)); wr (BArg 3) (upto (d_rowlen d))]
  | CGetRowBoundsReal _ => [wr (BArg 0) [0]; wr (BArg 1) [0]]
  | CGetRowBoundsRational _ => [wr (BArg 0) [0]; wr (BArg 1) [0]; wr (BArg 2) [0]; wr (BArg 3) [0]]
  | _ => []
  end.

(* number of elements of each buffer: caller arrays have exactly the declared List.length; out-parameters one element;
   the arrays of the row getters have no declared List.length: the caller provides numCols elements *)
Definition buf_len (c : c_call) (d : lpdims) (b : buf) : nat :=
  match c, b with
  | (CAddColReal _ size _ _ _ _ | CAddRowReal _ size _ _ _), BArg 0 => size
  | (CAddColRational _ _ size _ _ _ _ _ _ _ | CAddRowRational _ _ size _ _ _ _ _), BArg (0 | 1) => size
  | (CGetPrimalReal dim | CGetRedCostReal dim | CGetDualReal dim), BArg 0 => dim
  | (CChangeObjReal _ dim | CChangeLhsReal _ dim | CChangeRhsReal _ dim | CChangeLowerReal _ dim | CChangeUpperReal _ dim), BArg 0 => dim
  | (CChangeRangeReal _ _ dim | CChangeBoundsReal _ _ dim), BArg (0 | 1) => dim
  | (CChangeObjRational _ _ dim | CChangeLhsRational _ _ dim | CChangeRhsRational _ _ dim), BArg (0 | 1) => dim
  | (CGetLowerReal dim | CGetUpperReal dim | CGetObjReal dim), BArg 0 => dim
  | (CGetLowerReal dim | CGetUpperReal dim | CGetObjReal dim), BTmp => tmp_dim_vecgetter d dim
  | CGetPrimalRationalString dim, BTmp => tmp_dim_primalstring d dim
  | CGetPrimalRationalString _, BRet => d_strlen d + 1      (* new char[strlen(s) + 1] after s was built *)
  | CObjValueRationalString, BRet => 1                        (* new char[strlen("") + 1]: List.length taken before s is assigned *)
  | CGetRowVectorReal _, BArg 0 => 1
  | CGetRowVectorReal _, BArg (1 | 2) => d_cols d
  | CGetRowVectorRational _, BArg 0 => 1
  | CGetRowVectorRational _, BArg (1 | 2 | 3) => d_cols d
  | CGetRowVectorRational _, BTmp => 0                        (* SVectorRational row;  no memory attached *)
  | (CGetRowBoundsReal _ | CGetRowBoundsRational _), BArg _ => 1
  | _, _ => 0
  end.

Definition access_ok (c : c_call) (d : lpdims) (a : access) : bool :=
  forallb (fun i => i <? buf_len c d (a_buf a)) (a_idx a).
Definition footprint_ok (c : c_call) (d : lpdims) : bool := forallb (access_ok c d) (footprint c d).

(* the dimension contract under which the wrappers stay inside every buffer *)
Definition dims_ok (c : c_call) (d : lpdims) : bool :=
  match c with
  | CGetLowerReal dim | CGetUpperReal dim | CGetObjReal dim =>
    if d_scaled d then d_cols d <=? dim else dim <=? d_cols d
  | CGetPrimalRationalString dim => negb (d_hasrat d && d_hassol d && (d_ratcols d <? dim))
  | CGetRowVectorReal _ => d_rowlen d <=? d_cols d
  | CGetRowVectorRational _ => d_rowlen d =? 0
  | _ => true
  end.

(* a returned string is usable by a C caller when the buffer holds the text and its terminator *)
Definition ret_string_ok (c : c_call) (d : lpdims) : bool := d_strlen d + 1 <=? buf_len c d BRet.

(* ------------------------------------------------------------------------------------------------------------- *)
(* regenerated tables (gen/Gen_CIface.v) and their obligations                                                    *)
(* ------------------------------------------------------------------------------------------------------------- *)
(* kind: intparam / boolparam / realparam / status / varstatus / intvalue ...; doc: the integer a C user finds
   documented (enumerator in the C++ headers, or the comment in soplex_interface.h); cpp: the compiled C++ enumerator;
   cside: the code as it comes out of / is understood by the compiled C function. *)
Record code_row := { cr_kind : string; cr_name : string; cr_doc : Z; cr_cpp : Z; cr_cside : Z }.
Definition code_row_ok (r : code_row) : bool := Z.eqb (cr_doc r) (cr_cpp r) && Z.eqb (cr_cside r) (cr_cpp r).

(* wrapped members: C function name, members called through the handle in source order *)
Definition wrap_row := (string * list string)%type.

Local Open Scope string_scope.
Definition expected_wraps : list wrap_row :=
  [ ("SoPlex_create", []); ("SoPlex_free", []);
    ("SoPlex_readInstanceFile", ["readFile"]); ("SoPlex_readBasisFile", ["readBasisFile"]);
    ("SoPlex_readSettingsFile", ["loadSettingsFile"]); ("SoPlex_clearLPReal", ["clearLPReal"]);
    ("SoPlex_numRows", ["numRows"]); ("SoPlex_numCols", ["numCols"]);
    ("SoPlex_setRational", ["setIntParam"; "setIntParam"; "setIntParam"; "setIntParam"; "setRealParam"; "setRealParam"]);
    ("SoPlex_setBoolParam", ["setBoolParam"]); ("SoPlex_setIntParam", ["setIntParam"]);
    ("SoPlex_setRealParam", ["setRealParam"]); ("SoPlex_getIntParam", ["intParam"]);
    ("SoPlex_addColReal", ["addColReal"]); ("SoPlex_removeColReal", ["removeColReal"]);
    ("SoPlex_addColRational", ["addColRational"]); ("SoPlex_addRowReal", ["addRowReal"]);
    ("SoPlex_removeRowReal", ["removeRowReal"]); ("SoPlex_addRowRational", ["addRowRational"]);
    ("SoPlex_getPrimalReal", ["getPrimalReal"]); ("SoPlex_getPrimalRationalString", ["getPrimalRational"]);
    ("SoPlex_getDualReal", ["getDualReal"]); ("SoPlex_getRedCostReal", ["getRedCostReal"]);
    ("SoPlex_optimize", ["optimize"]); ("SoPlex_getStatus", ["status"]); ("SoPlex_getSolvingTime", ["solveTime"]);
    ("SoPlex_getNumIterations", ["numIterations"]); ("SoPlex_changeObjReal", ["changeObjReal"]);
    ("SoPlex_changeObjRational", ["changeObjRational"]); ("SoPlex_changeLhsReal", ["changeLhsReal"]);
    ("SoPlex_changeRowLhsReal", ["changeLhsReal"]); ("SoPlex_changeLhsRational", ["changeLhsRational"]);
    ("SoPlex_changeRhsReal", ["changeRhsReal"]); ("SoPlex_changeRowRhsReal", ["changeRhsReal"]);
    ("SoPlex_changeRangeReal", ["changeRangeReal"]); ("SoPlex_changeRowRangeReal", ["changeRangeReal"]);
    ("SoPlex_changeRhsRational", ["changeRhsRational"]); ("SoPlex_writeFileReal", ["writeFile"]);
    ("SoPlex_objValueReal", ["objValueReal"]); ("SoPlex_objValueRationalString", ["objValueRational"]);
    ("SoPlex_changeBoundsReal", ["changeBoundsReal"]); ("SoPlex_changeVarBoundsReal", ["changeBoundsReal"]);
    ("SoPlex_changeVarBoundsRational", ["changeBoundsRational"]); ("SoPlex_changeLowerReal", ["changeLowerReal"]);
    ("SoPlex_changeVarLowerReal", ["changeLowerReal"]); ("SoPlex_getLowerReal", ["getLowerReal"]);
    ("SoPlex_getObjReal", ["getObjReal"]); ("SoPlex_changeUpperReal", ["changeUpperReal"]);
    ("SoPlex_changeVarUpperReal", ["changeUpperReal"]); ("SoPlex_getUpperReal", ["getUpperReal"]);
    ("SoPlex_basisRowStatus", ["basisRowStatus"]); ("SoPlex_basisColStatus", ["basisColStatus"]);
    ("SoPlex_getRowVectorReal", ["getRowVectorReal"]); ("SoPlex_getRowVectorRational", ["getRowRational"]);
    ("SoPlex_getRowBoundsReal", ["lhsReal"; "rhsReal"]);
    ("SoPlex_getRowBoundsRational", ["lhsRational"; "lhsRational"; "rhsRational"; "rhsRational"]) ].

Definition list_string_eqb (a b : list string) : bool :=
  Nat.eqb (List.length a) (List.length b) && forallb (fun p => String.eqb (fst p) (snd p)) (combine a b).

Definition lookup_wrap (n : string) (t : list wrap_row) : option (list string) :=
  match find (fun r => String.eqb (fst r) n) t with Some r => Some (snd r) | None => None end.

(* every function declared in the header is defined, wraps exactly the members the model composes, and the model's
   table has no function the interface lacks *)
Definition wraps_ok (declared : list string) (defined : list wrap_row) : bool :=
  forallb (fun n => match lookup_wrap n defined, lookup_wrap n expected_wraps with
                    | Some a, Some b => list_string_eqb a b
                    | _, _ => false end) declared
  && forallb (fun r => existsb (String.eqb (fst r)) declared) expected_wraps
  && Nat.eqb (List.length declared) (List.length expected_wraps).
