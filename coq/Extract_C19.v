(* Extraction of the C19 models (ExtrOcamlBasic only: bool, option, unit, list, prod, sumbool mapped to OCaml's;
   nat, positive, Z, Q stay the extracted inductive types). *)
From Coq Require Extraction.
From Coq Require Import ExtrOcamlBasic ZArith QArith List.
From SV Require Import DataSetModel SparseVecModel ContainersModel.

Extraction "../extract/C19/model.ml"
  ds_init ds_step ds_free ds_abs ds_number ds_has_key ds_has_num ds_key ds_remax ds_set_num ds_clear ds_assign
  ds_remove_num ds_remove_perm ds_remove_nums pad_perm
  (* vectors *)
  dv_get dv_set dv_zero dv_clear dv_redim dv_add dv_sub dv_scale dv_multadd dv_dot dv_length2 dv_maxabs dv_minabs
  sv_get sv_pos sv_dim sv_add sv_add_list sv_assign sv_remove sv_remove_range sv_scale sv_sort sv_dot_dv sv_dot_sv sv_length2
  sv_maxabs sv_minabs sv_of_dv sv_unit sv_times sv_of_ss
  dv_multadd_sv dv_add_sv dv_sub_sv dv_multsub_sv dv_assign_sv dv_set_sv
  ss_new ss_do_setup ss_unsetup ss_clearnum ss_setvalue ss_add ss_clearidx ss_clear ss_scale ss_add_dv ss_sub_dv
  ss_multadd_dv ss_add_sv ss_sub_sv ss_add_ss ss_sub_ss ss_multadd_sv ss_set_sv dv_add_ss dv_sub_ss dv_multadd_ss
  dv_dot_ss dv_set_ss ss_dot_ss ss_assign_ss ss_redim ss_entries rows_tmul Qred
  (* containers *)
  is_pos is_dim is_add is_add_list is_remove_pos is_remove_range dis_room dis_setmax
  ns_names ns_number ns_has ns_key ns_add ns_remove_name ns_remove_num ns_remove_keys ns_remove_nums ns_remove_perm
  ns_clear ns_remax nstr nm_init nm_remax nm_pack nm_add nm_keep nm_clear nm_name svs_ensure svs_add ht_get ht_has ht_add ht_remove
  arr_insert arr_remove arr_remove_last arr_resize lst_append lst_prepend lst_insert_after lst_remove lst_remove_next.
