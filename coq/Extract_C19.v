(* Extraction of the C19 models (ExtrOcamlBasic only: bool, option, unit, list, prod, sumbool mapped to OCaml's;
   nat, positive, Z, Q stay the extracted inductive types). *)
From Coq Require Extraction.
From Coq Require Import ExtrOcamlBasic ZArith QArith List.
From SV Require Import DataSetModel SparseVecModel.

Extraction "../extract/C19/model.ml"
  ds_init ds_step ds_free ds_abs ds_number ds_has_key.
