(* C19 - executable model of the SoPlex vector classes over exact rationals.

   svec  = SVectorBase / DSVectorBase / UnitVectorBase : the non-zeros (index, value) in storage order
           (src/soplex/svectorbase.h, dsvectorbase.h, unitvectorbase.h).  A DSVector is an SVector whose memory grows;
           the model has no capacity, the documented preconditions "size() < max()" are the caller's business.
   dvec  = VectorBase : list of values, dimension = length (vectorbase.h).
   ssvec = SSVectorBase : dense values + index list + setup flag (ssvectorbase.h, basevectors.h).

   Values are Q and compared with Qeq_bool (the model never relies on a normal form; the driver prints Qred).
   Indices are nat (the code uses non-negative ints).  Functions mirror the loops of the code (direction of the
   loops is kept where it determines the storage order); storage order itself is not an observable of the
   correspondence check (entries are printed sorted by index) except through sort / the merging scalar products,
   whose preconditions are stated in the theorems.  No proofs in this file. *)
From Coq Require Import List ZArith QArith Qabs Bool Arith.
Import ListNotations.
Local Open Scope Q_scope.

Definition svec := list (nat * Q).
Definition dvec := list Q.
Record ssvec := mkSS { ss_val : dvec; ss_idx : list nat; ss_setup : bool }.

Definition qzero (x : Q) : bool := Qeq_bool x 0.
Definition qabs (x : Q) : Q := Qabs x.
Definition qle_bool (x y : Q) : bool := Qle_bool x y.

(* ---------------------------------------------------------------- dense vectors *)
Definition dv_get (d : dvec) (i : nat) : Q := nth i d 0.

Fixpoint dv_set (d : dvec) (i : nat) (x : Q) : dvec :=
  match d, i with
  | [], _ => []                                   (* out of range: the code asserts i < dim *)
  | _ :: r, O => x :: r
  | y :: r, S k => y :: dv_set r k x
  end.

Definition dv_upd (d : dvec) (i : nat) (f : Q -> Q) : dvec := dv_set d i (f (dv_get d i)).

Definition dv_zero (n : nat) : dvec := repeat 0 n.
Definition dv_clear (d : dvec) : dvec := map (fun _ => 0) d.

(* VectorBase::reDim(newdim, setZero = true) *)
Definition dv_redim (n : nat) (d : dvec) : dvec := firstn n d ++ repeat 0 (n - length d).

Fixpoint dv_zip (f : Q -> Q -> Q) (a b : dvec) : dvec :=
  match a, b with
  | x :: a', y :: b' => f x y :: dv_zip f a' b'
  | _, _ => []
  end.

Definition dv_add (a b : dvec) : dvec := dv_zip Qplus a b.                 (* operator+=(VectorBase) *)
Definition dv_sub (a b : dvec) : dvec := dv_zip Qminus a b.                (* operator-=(VectorBase) *)
Definition dv_scale (x : Q) (a : dvec) : dvec := map (fun y => y * x) a.   (* operator*=(x) *)
Definition dv_multadd (x : Q) (b a : dvec) : dvec := dv_zip (fun y z => y + x * z) a b.  (* a.multAdd(x,b) *)
Definition dv_neg (a : dvec) : dvec := map Qopp a.

Fixpoint dv_dot (a b : dvec) : Q :=                                        (* operator*(VectorBase) *)
  match a, b with
  | x :: a', y :: b' => x * y + dv_dot a' b'
  | _, _ => 0
  end.

Definition dv_length2 (a : dvec) : Q := dv_dot a a.

Definition qmax (x y : Q) : Q := if qle_bool x y then y else x.
Definition qmin (x y : Q) : Q := if qle_bool x y then x else y.
(* maxAbs / minAbs of a non-empty dense vector *)
Definition dv_maxabs (a : dvec) : Q := fold_right (fun x m => qmax (qabs x) m) 0 a.
Definition dv_minabs (a : dvec) : option Q :=
  match a with
  | [] => None
  | x :: r => Some (fold_right (fun y m => qmin (qabs y) m) (qabs x) r)
  end.

(* ---------------------------------------------------------------- sparse vectors *)
(* SVectorBase::pos / operator[] : first position holding index i *)
Fixpoint sv_get (v : svec) (i : nat) : Q :=
  match v with
  | [] => 0
  | (j, x) :: r => if Nat.eqb j i then x else sv_get r i
  end.

Fixpoint sv_pos_from (v : svec) (i : nat) (p : nat) : option nat :=
  match v with
  | [] => None
  | (j, _) :: r => if Nat.eqb j i then Some p else sv_pos_from r i (S p)
  end.
Definition sv_pos (v : svec) (i : nat) : option nat := sv_pos_from v i 0.

Definition sv_indices (v : svec) : list nat := map fst v.
Definition sv_size (v : svec) : nat := length v.
Definition sv_dim (v : svec) : nat := fold_right (fun e m => Nat.max (S (fst e)) m) 0%nat v.

(* dense expansion to dimension n *)
Definition expand (n : nat) (v : svec) : dvec := map (sv_get v) (seq 0 n).

(* SVectorBase::add(i, v): zeros are not stored *)
Definition sv_add (i : nat) (x : Q) (v : svec) : svec := if qzero x then v else v ++ [(i, x)].
(* SVectorBase::add(n, idx[], val[]) / add(const SVectorBase&) : append the non-zero entries *)
Definition sv_add_list (es : svec) (v : svec) : svec := v ++ filter (fun e => negb (qzero (snd e))) es.
(* SVectorBase::operator=(const SVectorBase&), DSVectorBase::operator=: copy the non-zero entries *)
Definition sv_assign (src : svec) : svec := filter (fun e => negb (qzero (snd e))) src.

(* SVectorBase::remove(int n): the last non-zero moves into position n *)
Fixpoint sv_set_nth (v : svec) (p : nat) (e : nat * Q) : svec :=
  match v, p with
  | [], _ => []
  | _ :: r, O => e :: r
  | y :: r, S k => y :: sv_set_nth r k e
  end.
Definition sv_remove (p : nat) (v : svec) : svec :=
  match rev v with
  | [] => []
  | lst :: _ =>
      if Nat.ltb p (length v) then
        (if Nat.eqb p (length v - 1) then removelast v else sv_set_nth (removelast v) p lst)
      else v                                       (* the code asserts p < size() *)
  end.

(* SVectorBase::remove(int n, int m) as documented ("remove nonzeros n thru m", 0 <= n <= m < size()): the last
   min(m-n+1, size()-m-1) non-zeros move into the hole, the last one first *)
Definition sv_remove_range (n m : nat) (v : svec) : svec :=
  let size := length v in
  let count := (m + 1 - n)%nat in
  let tail := (size - (m + 1))%nat in
  let cpy := Nat.min count tail in
  firstn n v ++ rev (skipn (size - cpy) v) ++ firstn (size - count - n - cpy) (skipn (n + cpy) v).

(* operator*=(x) *)
Definition sv_scale (x : Q) (v : svec) : svec := map (fun e => (fst e, snd e * x)) v.

(* SVectorBase::sort(): insertion sort by index, stable (an element moves left past strictly larger indices) *)
Fixpoint sv_insert (e : nat * Q) (v : svec) : svec :=
  match v with
  | [] => [e]
  | y :: r => if Nat.ltb (fst e) (fst y) then e :: y :: r else y :: sv_insert e r
  end.
Definition sv_sort (v : svec) : svec := fold_left (fun acc e => sv_insert e acc) v [].

(* SVectorBase * VectorBase and VectorBase * SVectorBase *)
Fixpoint sv_dot_dv (v : svec) (d : dvec) : Q :=
  match v with
  | [] => 0
  | (i, x) :: r => x * dv_get d i + sv_dot_dv r d
  end.

(* SVectorBase * SVectorBase: the merge loop of svectorbase.h (both operands are walked once, in storage order;
   it computes the scalar product when both are sorted by index - see the theorem) *)
Fixpoint sv_dot_sv (u v : svec) : Q :=
  match u with
  | [] => 0
  | (i, x) :: u' =>
      (fix inner (w : svec) : Q :=
         match w with
         | [] => 0
         | (j, y) :: w' =>
             if Nat.eqb i j then x * y + sv_dot_sv u' w'
             else if Nat.ltb i j then sv_dot_sv u' w
             else inner w'
         end) v
  end.

Definition sv_length2 (v : svec) : Q := fold_right (fun e s => snd e * snd e + s) 0 v.
Definition sv_maxabs (v : svec) : Q := fold_right (fun e m => qmax (qabs (snd e)) m) 0 v.
(* minAbs of an empty vector is R(infinity): None *)
Definition sv_minabs (v : svec) : option Q :=
  match v with
  | [] => None
  | e :: r => Some (fold_right (fun y m => qmin (qabs (snd y)) m) (qabs (snd e)) r)
  end.

(* SVectorBase::operator=(const VectorBase&): non-zeros of the dense vector, from the highest index down *)
Fixpoint sv_of_dv_from (d : dvec) (i : nat) : svec :=
  match d with
  | [] => []
  | x :: r => sv_of_dv_from r (S i) ++ (if qzero x then [] else [(i, x)])
  end.
Definition sv_of_dv (d : dvec) : svec := sv_of_dv_from d 0.

(* UnitVectorBase(i) *)
Definition sv_unit (i : nat) : svec := [(i, 1)].

(* operator*(SVectorBase, x) -> DSVectorBase (basevectors.h): res.add(index, value*x) drops zero products *)
Definition sv_times (v : svec) (x : Q) : svec :=
  fold_left (fun acc e => sv_add (fst e) (snd e * x) acc) v [].

(* ---------------------------------------------------------------- dense (op) sparse *)
(* VectorBase::operator+=(SVectorBase), operator-=, multAdd, multSub: loop from the last non-zero to the first *)
Definition dv_multadd_sv (x : Q) (v : svec) (d : dvec) : dvec :=
  fold_right (fun e acc => dv_upd acc (fst e) (fun y => y + x * snd e)) d v.
Definition dv_add_sv (v : svec) (d : dvec) : dvec :=
  fold_right (fun e acc => dv_upd acc (fst e) (fun y => y + snd e)) d v.
Definition dv_sub_sv (v : svec) (d : dvec) : dvec :=
  fold_right (fun e acc => dv_upd acc (fst e) (fun y => y - snd e)) d v.
Definition dv_multsub_sv (x : Q) (v : svec) (d : dvec) : dvec :=
  fold_right (fun e acc => dv_upd acc (fst e) (fun y => y - x * snd e)) d v.
(* VectorBase::assign(SVectorBase): overwrite the positions of the non-zeros (last to first); others unchanged *)
Definition dv_assign_sv (v : svec) (d : dvec) : dvec :=
  fold_right (fun e acc => dv_set acc (fst e) (snd e)) d v.
(* VectorBase::operator=(SVectorBase): clear, then write first to last *)
Definition dv_set_sv (v : svec) (d : dvec) : dvec :=
  fold_left (fun acc e => dv_set acc (fst e) (snd e)) v (dv_clear d).
(* operator-(SVectorBase v, VectorBase w) = v - w *)
Definition sv_minus_dv (v : svec) (w : dvec) : dvec := dv_add_sv v (dv_neg w).

(* ---------------------------------------------------------------- semi-sparse vectors *)
Definition ss_dim (s : ssvec) : nat := length (ss_val s).
Definition ss_new (n : nat) : ssvec := mkSS (dv_zero n) [] true.          (* SSVectorBase(dim): cleared, set up *)

(* the scan of setup(): indices of entries with |x| > eps in ascending order, tiny non-zeros are set to 0 *)
Fixpoint scan_idx (eps : Q) (d : dvec) (i : nat) : list nat :=
  match d with
  | [] => []
  | x :: r => if qzero x then scan_idx eps r (S i)
              else if qle_bool (qabs x) eps then scan_idx eps r (S i)
              else i :: scan_idx eps r (S i)
  end.
Definition scan_val (eps : Q) (d : dvec) : dvec :=
  map (fun x => if qzero x then x else if qle_bool (qabs x) eps then 0 else x) d.

Definition ss_setup_force (eps : Q) (s : ssvec) : ssvec :=
  mkSS (scan_val eps (ss_val s)) (scan_idx eps (ss_val s) 0) true.
(* SSVectorBase::setup() *)
Definition ss_do_setup (eps : Q) (s : ssvec) : ssvec := if ss_setup s then s else ss_setup_force eps s.
Definition ss_unsetup (s : ssvec) : ssvec := mkSS (ss_val s) (ss_idx s) false.
(* "if(isSetup()) { setupStatus = false; setup(); }" after the dense arithmetic *)
Definition ss_resetup (eps : Q) (s : ssvec) : ssvec := if ss_setup s then ss_setup_force eps s else s.

(* IdxSet::remove(int n) on the index list: idx[n] = idx[--num] *)
Fixpoint nl_set_nth (l : list nat) (p : nat) (e : nat) : list nat :=
  match l, p with
  | [], _ => []
  | _ :: r, O => e :: r
  | y :: r, S k => y :: nl_set_nth r k e
  end.
Definition nl_remove_pos (p : nat) (l : list nat) : list nat :=
  match rev l with
  | [] => []
  | lst :: _ =>
      if Nat.ltb p (length l) then
        (if Nat.eqb p (length l - 1) then removelast l else nl_set_nth (removelast l) p lst)
      else l
  end.
Fixpoint nl_pos_from (l : list nat) (i p : nat) : option nat :=
  match l with
  | [] => None
  | j :: r => if Nat.eqb j i then Some p else nl_pos_from r i (S p)
  end.
Definition nl_pos (l : list nat) (i : nat) : option nat := nl_pos_from l i 0.

(* SSVectorBase::clearNum(n) (requires setup) *)
Definition ss_clearnum (n : nat) (s : ssvec) : ssvec :=
  mkSS (dv_set (ss_val s) (nth n (ss_idx s) 0%nat) 0) (nl_remove_pos n (ss_idx s)) (ss_setup s).

(* SSVectorBase::setValue(i, x) *)
Definition ss_setvalue (eps : Q) (i : nat) (x : Q) (s : ssvec) : ssvec :=
  if ss_setup s then
    match nl_pos (ss_idx s) i with
    | None =>
        mkSS (dv_set (ss_val s) i x)
             (if qle_bool (qabs x) eps then ss_idx s else ss_idx s ++ [i]) true
    | Some n =>
        if qzero x then
          let s' := ss_clearnum n s in mkSS (dv_set (ss_val s') i x) (ss_idx s') true
        else mkSS (dv_set (ss_val s) i x) (ss_idx s) true
    end
  else mkSS (dv_set (ss_val s) i x) (ss_idx s) false.

(* SSVectorBase::add(i, x): precondition val[i] = 0 and i not among the indices *)
Definition ss_add (i : nat) (x : Q) (s : ssvec) : ssvec :=
  mkSS (dv_set (ss_val s) i x) (ss_idx s ++ [i]) (ss_setup s).

(* SSVectorBase::clearIdx(i) *)
Definition ss_clearidx (i : nat) (s : ssvec) : ssvec :=
  if ss_setup s then
    match nl_pos (ss_idx s) i with
    | Some n => mkSS (dv_set (ss_val s) i 0) (nl_remove_pos n (ss_idx s)) true
    | None => mkSS (dv_set (ss_val s) i 0) (ss_idx s) true
    end
  else mkSS (dv_set (ss_val s) i 0) (ss_idx s) false.

(* SSVectorBase::clear() *)
Definition ss_clear (s : ssvec) : ssvec :=
  if ss_setup s then mkSS (fold_left (fun d i => dv_set d i 0) (ss_idx s) (ss_val s)) [] true
  else mkSS (dv_clear (ss_val s)) [] true.

(* SSVectorBase::operator*=(x) (requires setup): only the indexed positions are scaled *)
Definition ss_scale (x : Q) (s : ssvec) : ssvec :=
  mkSS (fold_right (fun i d => dv_upd d i (fun y => y * x)) (ss_val s) (ss_idx s)) (ss_idx s) (ss_setup s).

(* SSVectorBase::operator+=(VectorBase) / -= / multAdd(x, VectorBase) *)
Definition ss_add_dv (eps : Q) (w : dvec) (s : ssvec) : ssvec :=
  ss_resetup eps (mkSS (dv_add (ss_val s) w) (ss_idx s) (ss_setup s)).
Definition ss_sub_dv (eps : Q) (w : dvec) (s : ssvec) : ssvec :=
  ss_resetup eps (mkSS (dv_sub (ss_val s) w) (ss_idx s) (ss_setup s)).
Definition ss_multadd_dv (eps : Q) (x : Q) (w : dvec) (s : ssvec) : ssvec :=
  ss_resetup eps (mkSS (dv_multadd x w (ss_val s)) (ss_idx s) (ss_setup s)).
(* SSVectorBase::operator+=(SVectorBase) / -= *)
Definition ss_add_sv (eps : Q) (v : svec) (s : ssvec) : ssvec :=
  ss_resetup eps (mkSS (dv_add_sv v (ss_val s)) (ss_idx s) (ss_setup s)).
Definition ss_sub_sv (eps : Q) (v : svec) (s : ssvec) : ssvec :=
  ss_resetup eps (mkSS (dv_sub_sv v (ss_val s)) (ss_idx s) (ss_setup s)).
(* the values of a set-up semi-sparse vector as a sparse vector (index order of the index list) *)
Definition ss_entries (s : ssvec) : svec := map (fun i => (i, dv_get (ss_val s) i)) (ss_idx s).
(* SSVectorBase::operator+=(SSVectorBase) / -= : the right operand is set up *)
Definition ss_add_ss (eps : Q) (w : ssvec) (s : ssvec) : ssvec := ss_add_sv eps (ss_entries w) s.
Definition ss_sub_ss (eps : Q) (w : ssvec) (s : ssvec) : ssvec :=
  if ss_setup w then ss_sub_sv eps (ss_entries w) s else ss_sub_dv eps (ss_val w) s.

(* SSVectorBase::multAdd(x, SVectorBase) (basevectors.h): set-up case keeps the index list current, results with
   |value| <= eps are removed; loop from the last non-zero of vec to the first.  When a result was marked the
   adjust pass (basevectors.h:426-443) walks the index list, keeps the entries with |value| > eps and sets the
   value of every other indexed entry to an exact 0. *)
Definition ss_multadd_step (eps : Q) (x : Q) (e : nat * Q) (st : dvec * list nat * list nat) :=
  let '(d, idx, marked) := st in
  let j := fst e in
  let old := dv_get d j in
  if negb (qzero old) || existsb (Nat.eqb j) marked then
    let y := (if existsb (Nat.eqb j) marked then 0 else old) + x * snd e in
    (* a marked entry holds SOPLEX_VECTOR_MARKER (1e-100), which the model treats as an exact 0 *)
    if qle_bool (qabs y) eps then (dv_set d j 0, idx, j :: marked)
    else (dv_set d j y, idx, filter (fun k => negb (Nat.eqb j k)) marked)
  else
    let y := x * snd e in
    if qle_bool (qabs y) eps then (d, idx, marked) else (dv_set d j y, idx ++ [j], marked).
Definition ss_multadd_sv (eps : Q) (x : Q) (v : svec) (s : ssvec) : ssvec :=
  if ss_setup s then
    let '(d, idx, marked) := fold_right (ss_multadd_step eps x) (ss_val s, ss_idx s, []) v in
    match marked with
    | [] => mkSS d idx true
    | _ => mkSS (fold_left (fun d' k => if qle_bool (qabs (dv_get d' k)) eps then dv_set d' k 0 else d') idx d)
                (filter (fun k => negb (qle_bool (qabs (dv_get d k)) eps)) idx) true
    end
  else mkSS (dv_multadd_sv x v (ss_val s)) (ss_idx s) false.

(* SSVectorBase::assign(SVectorBase) on top of clear() = operator=(SVectorBase) *)
Definition ss_assign_step (eps : Q) (st : dvec * list nat) (e : nat * Q) :=
  let '(d, idx) := st in
  if qle_bool (qabs (snd e)) eps then (dv_set d (fst e) 0, idx) else (dv_set d (fst e) (snd e), idx ++ [fst e]).
Definition ss_set_sv (eps : Q) (v : svec) (s : ssvec) : ssvec :=
  let c := ss_clear s in
  let '(d, idx) := fold_left (ss_assign_step eps) v (ss_val c, []) in
  mkSS d idx true.

(* VectorBase (op) SSVectorBase *)
Definition dv_add_ss (w : ssvec) (d : dvec) : dvec :=
  if ss_setup w then dv_add_sv (ss_entries w) d else dv_add d (ss_val w).
Definition dv_sub_ss (w : ssvec) (d : dvec) : dvec :=
  if ss_setup w then dv_sub_sv (ss_entries w) d else dv_sub d (ss_val w).
Definition dv_multadd_ss (x : Q) (w : ssvec) (d : dvec) : dvec :=
  if ss_setup w then dv_multadd_sv x (ss_entries w) d else dv_multadd x (ss_val w) d.
Definition dv_dot_ss (d : dvec) (w : ssvec) : Q :=
  if ss_setup w then sv_dot_dv (ss_entries w) d else dv_dot d (ss_val w).
(* VectorBase::operator=(SSVectorBase) *)
Definition dv_set_ss (w : ssvec) (d : dvec) : dvec :=
  if ss_setup w then dv_assign_sv (ss_entries w) (dv_clear d) else ss_val w.

(* SVectorBase::operator=(SSVectorBase) / DSVectorBase::operator=(SSVectorBase) as documented: the non-zeros of a
   set-up semi-sparse vector *)
Definition sv_of_ss (w : ssvec) : svec := filter (fun e => negb (qzero (snd e))) (ss_entries w).

(* SSVectorBase * SSVectorBase: both set up; the code merges the two index lists from their ends and computes the
   scalar product when both index lists are ascending (as setup() produces them).  The model is the documented
   meaning: the scalar product over the indexed entries of the left operand. *)
Definition ss_dot_ss (a b : ssvec) : Q := sv_dot_dv (ss_entries a) (ss_val b).

(* the merge loop itself, on the reversed index lists (for the theorem that it equals ss_dot_ss when sorted) *)
Fixpoint ss_merge_rev (da db : dvec) (ia ib : list nat) : Q :=
  match ia with
  | [] => 0
  | i :: ia' =>
      (fix inner (w : list nat) : Q :=
         match w with
         | [] => 0
         | j :: w' =>
             if Nat.eqb i j then dv_get da i * dv_get db j + ss_merge_rev da db ia' w'
             else if Nat.ltb j i then ss_merge_rev da db ia' w
             else inner w'
         end) ib
  end.
Definition ss_dot_merge (a b : ssvec) : Q := ss_merge_rev (ss_val a) (ss_val b) (rev (ss_idx a)) (rev (ss_idx b)).

(* SSVectorBase::operator=(const SSVectorBase& rhs): clear(), reDim(rhs.dim()), then the indexed values of a set-up rhs
   (index list copied as it is), or the entries with |value| > eps of a rhs that is not set up; the result is set up *)
Definition ss_assign_ss (eps : Q) (rhs this : ssvec) : ssvec :=
  let base := dv_redim (ss_dim rhs) (ss_val (ss_clear this)) in
  if ss_setup rhs then
    mkSS (fold_right (fun i d => dv_set d i (dv_get (ss_val rhs) i)) base (ss_idx rhs)) (ss_idx rhs) true
  else
    let keep := filter (fun i => negb (qle_bool (qabs (dv_get (ss_val rhs) i)) eps)) (seq 0 (ss_dim rhs)) in
    mkSS (fold_left (fun d i => dv_set d i (dv_get (ss_val rhs) i)) keep base) keep true.

(* SSVectorBase::reDim(newdim) *)
(* "for(i = size()-1; i >= 0; --i) if(index(i) >= newdim) remove(i);" - IdxSet::remove(i) moves the last index into
   position i, so the surviving indices are permuted (ssvectorbase.h:582-592) *)
Definition ss_redim (n : nat) (s : ssvec) : ssvec :=
  mkSS (dv_redim n (ss_val s))
       (fold_left (fun l p => if Nat.leb n (nth p l 0%nat) then nl_remove_pos p l else l)
                  (rev (seq 0 (length (ss_idx s)))) (ss_idx s))
       (ss_setup s).

(* x^T A for a set of sparse vectors (rows of A as svecs): SSVectorBase::assign2product and friends compute
   result[j] = sum_i x[i] * A_i[j]; modelled by its meaning *)
Definition rows_tmul (n : nat) (x : dvec) (rows : list svec) : dvec :=
  fold_left (fun acc ir => dv_multadd_sv (dv_get x (fst ir)) (snd ir) acc)
            (combine (seq 0 (length rows)) rows) (dv_zero n).
