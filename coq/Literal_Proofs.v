(* C12 - proofs about LiteralModel.v: positional semantics of the grammar, print/parse round trip of rationals,
   uniqueness of the correctly rounded double, soundness of the executable rounding check, and the refutation of
   "ratFromString is exact" on the model of the code. *)
From Coq Require Import ZArith QArith Qabs Qpower Bool List Ascii Lia Lqa Decimal DecimalPos Setoid.
From SV Require Import Dbl LiteralModel.
Import ListNotations.
Local Open Scope Z_scope.

(* ---------------------------------------------------------------- characters and digit lists *)

Lemma digit_char d : 0 <= d <= 9 -> digit_of (char_of_digit d) = Some d.
Proof.
  intros H. assert (d = 0 \/ d = 1 \/ d = 2 \/ d = 3 \/ d = 4 \/ d = 5 \/ d = 6 \/ d = 7 \/ d = 8 \/ d = 9) as C by lia.
  repeat (destruct C as [-> | C]; [reflexivity|]). subst. reflexivity.
Qed.

Lemma digit_of_range c d : digit_of c = Some d -> 0 <= d <= 9.
Proof.
  destruct c as [[] [] [] [] [] [] [] []]; cbn; intros H; try discriminate; injection H as <-; lia.
Qed.

(* a string that does not begin with a digit *)
Definition no_digit_head (s : list ascii) : Prop :=
  match s with [] => True | c :: _ => digit_of c = None end.

Lemma take_digits_render ds rest :
  all_digits ds -> no_digit_head rest -> take_digits (render ds ++ rest) = (ds, rest).
Proof.
  intros H Hr. induction H as [|d ds Hd _ IH]; cbn.
  - destruct rest as [|c r]; cbn; auto. cbn in Hr. now rewrite Hr.
  - rewrite (digit_char d Hd). unfold render in IH. now rewrite IH.
Qed.

Lemma take_digits_render_nil ds : all_digits ds -> take_digits (render ds) = (ds, []).
Proof. intros H. rewrite <- (app_nil_r (render ds)). now apply take_digits_render. Qed.

Lemma fold_digits ds a :
  fold_left (fun a d => 10 * a + d) ds a = a * 10 ^ Z.of_nat (length ds) + int_part ds.
Proof.
  revert a. induction ds as [|d ds IH]; intros a; cbn [fold_left int_part length].
  - cbn. lia.
  - rewrite IH. rewrite Nat2Z.inj_succ, Z.pow_succ_r by lia. lia.
Qed.

Lemma digits_val_int_part ds : digits_val ds = int_part ds.
Proof. unfold digits_val. rewrite fold_digits. lia. Qed.

Lemma digits_val_app a b : digits_val (a ++ b) = digits_val a * 10 ^ Z.of_nat (length b) + digits_val b.
Proof.
  unfold digits_val. rewrite fold_left_app, fold_digits, (fold_digits b 0). lia.
Qed.

Lemma int_part_nonneg ds : all_digits ds -> 0 <= int_part ds.
Proof.
  induction 1 as [|d ds Hd _ IH]; cbn; [lia|].
  assert (0 <= 10 ^ Z.of_nat (length ds)) by (apply Z.pow_nonneg; lia). nia.
Qed.

(* ---------------------------------------------------------------- powers of ten *)

Local Open Scope Q_scope.

Lemma ten_nz : ~ inject_Z 10 == 0.
Proof. intros H. discriminate H. Qed.

Lemma pow10_0 : pow10 0 == 1.
Proof. reflexivity. Qed.

Lemma pow10_add a b : pow10 (a + b) == pow10 a * pow10 b.
Proof. unfold pow10. apply Qpower_plus. exact ten_nz. Qed.

Lemma pow10_nonneg_Z n : (0 <= n)%Z -> pow10 n == inject_Z (10 ^ n).
Proof. intros H. unfold pow10. symmetry. now apply Zpower_Qpower. Qed.

Lemma pow10_pos e : 0 < pow10 e.
Proof. unfold pow10. apply Qpower_0_lt. reflexivity. Qed.

Lemma pow10_neg_succ n : pow10 (- Z.of_nat (S n)) == pow10 (- Z.of_nat n) / inject_Z 10.
Proof.
  replace (- Z.of_nat (S n))%Z with (- Z.of_nat n + -1)%Z by lia.
  rewrite pow10_add. unfold Qdiv. apply Qmult_comp; [reflexivity|]. reflexivity.
Qed.

Lemma pow10_cancel n : pow10 (Z.of_nat n) * pow10 (- Z.of_nat n) == 1.
Proof. rewrite <- pow10_add. replace (Z.of_nat n + - Z.of_nat n)%Z with 0%Z by lia. reflexivity. Qed.

(* ---------------------------------------------------------------- mantissa = positional value *)

Lemma frac_part_digits fp :
  inject_Z (digits_val fp) * pow10 (- Z.of_nat (length fp)) == frac_part fp.
Proof.
  induction fp as [|d fp IH].
  - cbn. reflexivity.
  - change (d :: fp) with ([d] ++ fp) at 1. rewrite digits_val_app.
    replace (digits_val [d]) with d by (unfold digits_val; cbn; lia).
    cbn [length frac_part]. rewrite pow10_neg_succ.
    rewrite inject_Z_plus, inject_Z_mult.
    rewrite <- pow10_nonneg_Z by lia.
    rewrite <- IH.
    pose proof (pow10_cancel (length fp)) as C.
    set (P := pow10 (Z.of_nat (length fp))) in *. set (N := pow10 (- Z.of_nat (length fp))) in *.
    unfold Qdiv.
    setoid_replace ((inject_Z d * P + inject_Z (digits_val fp)) * (N * / inject_Z 10))
      with ((inject_Z d * (P * N) + inject_Z (digits_val fp) * N) * / inject_Z 10) by ring.
    rewrite C. ring.
Qed.

Lemma mant_val_positional ip fp : mant_val ip fp == inject_Z (int_part ip) + frac_part fp.
Proof.
  unfold mant_val. rewrite digits_val_app, inject_Z_plus, inject_Z_mult.
  rewrite <- pow10_nonneg_Z by lia. rewrite <- frac_part_digits, digits_val_int_part.
  pose proof (pow10_cancel (length fp)) as C.
  set (P := pow10 (Z.of_nat (length fp))) in *. set (N := pow10 (- Z.of_nat (length fp))) in *.
  setoid_replace ((inject_Z (int_part ip) * P + inject_Z (digits_val fp)) * N)
    with (inject_Z (int_part ip) * (P * N) + inject_Z (digits_val fp) * N) by ring.
  rewrite C. ring.
Qed.

(* ---------------------------------------------------------------- the grammar: rendering a literal and reading it *)

Local Open Scope Z_scope.

Lemma digit_not_special c d :
  digit_of c = Some d ->
  is_minus c = false /\ is_plus c = false /\ is_dot c = false /\ is_e c = false /\ is_slash c = false.
Proof.
  destruct c as [[] [] [] [] [] [] [] []]; cbn; intros H; try discriminate; repeat split; reflexivity.
Qed.

Definition sign_chars (s : option bool) : list ascii :=
  match s with None => [] | Some true => ["-"%char] | Some false => ["+"%char] end.
Definition sign_neg (s : option bool) : bool := match s with Some true => true | _ => false end.

(* a string that does not begin with a sign *)
Definition no_sign_head (s : list ascii) : Prop :=
  match s with [] => True | c :: _ => is_minus c = false /\ is_plus c = false end.

Lemma take_sign_chars s rest : no_sign_head rest -> take_sign (sign_chars s ++ rest) = (sign_neg s, rest).
Proof.
  intros H. destruct s as [[|]|]; cbn; auto.
  destruct rest as [|c r]; cbn; auto. destruct H as [-> ->]. reflexivity.
Qed.

Lemma render_head_digit ds rest : all_digits ds -> ds <> [] -> exists c r d, render ds ++ rest = c :: r /\ digit_of c = Some d.
Proof.
  intros H Hn. destruct ds as [|d ds]; [congruence|]. inversion H; subst.
  exists (char_of_digit d), (render ds ++ rest), d. split; auto. now apply digit_char.
Qed.

Lemma render_no_sign ds rest : all_digits ds -> ds <> [] -> no_sign_head (render ds ++ rest).
Proof.
  intros H Hn. destruct (render_head_digit ds rest H Hn) as (c & r & d & -> & Hd).
  apply digit_not_special in Hd. cbn. tauto.
Qed.

Definition e_char (upper : bool) : ascii := if upper then "E"%char else "e"%char.

Definition frac_chars (f : option (list Z)) : list ascii :=
  match f with None => [] | Some fp => "."%char :: render fp end.
Definition exp_chars (e : option (bool * option bool * list Z)) : list ascii :=
  match e with None => [] | Some (up, es, ed) => e_char up :: sign_chars es ++ render ed end.

Definition frac_digits (f : option (list Z)) : list Z := match f with None => [] | Some fp => fp end.
Definition exp_value (e : option (bool * option bool * list Z)) : Z :=
  match e with None => 0 | Some (_, es, ed) => if sign_neg es then - int_part ed else int_part ed end.
Definition exp_wf (e : option (bool * option bool * list Z)) : Prop :=
  match e with None => True | Some (_, _, ed) => all_digits ed /\ ed <> [] end.

(* sign? digits? (. digits?)? ([eE] sign? digits)? *)
Definition lit_chars (s : option bool) (ip : list Z) (f : option (list Z)) (e : option (bool * option bool * list Z)) :=
  sign_chars s ++ render ip ++ frac_chars f ++ exp_chars e.

(* its positional value: (sum d_i 10^(k-1-i) + sum f_j 10^-(j+1)) * 10^(+-x) *)
Definition lit_value (s : option bool) (ip : list Z) (f : option (list Z)) (e : option (bool * option bool * list Z)) : Q :=
  apply_sign (sign_neg s) ((inject_Z (int_part ip) + frac_part (frac_digits f)) * pow10 (exp_value e))%Q.

Lemma denote_exp_chars neg m e :
  exp_wf e ->
  denote_exp neg m (exp_chars e) = Some (apply_sign neg (m * pow10 (exp_value e))%Q) \/
  (e = None /\ denote_exp neg m (exp_chars e) = Some (apply_sign neg m)).
Proof.
  destruct e as [[[up es] ed]|]; cbn [exp_chars exp_wf exp_value].
  - intros [Hd Hn]. left. cbn [denote_exp].
    assert (is_e (e_char up) = true) as -> by (destruct up; reflexivity).
    rewrite take_sign_chars by (rewrite <- (app_nil_r (render ed)); now apply render_no_sign).
    rewrite take_digits_render_nil by auto.
    destruct ed as [|d ed]; [congruence|]. now rewrite <- !digits_val_int_part.
  - intros _. right. split; reflexivity.
Qed.

Lemma no_digit_exp_chars e : no_digit_head (exp_chars e).
Proof. destruct e as [[[[] es] ed]|]; cbn; auto. Qed.

Lemma exp_chars_not_dot_slash e :
  match exp_chars e with [] => True | c :: _ => is_dot c = false /\ is_slash c = false end.
Proof. destruct e as [[[[] es] ed]|]; cbn; auto. Qed.

Lemma take_frac_chars f e :
  match f with Some fp => all_digits fp | None => True end ->
  take_frac (frac_chars f ++ exp_chars e) = (frac_digits f, exp_chars e).
Proof.
  destruct f as [fp|]; cbn [frac_chars frac_digits].
  - intros H. cbn. apply take_digits_render; auto. apply no_digit_exp_chars.
  - intros _. cbn [app]. pose proof (exp_chars_not_dot_slash e) as H.
    destruct (exp_chars e) as [|c r]; cbn; auto. destruct H as [-> _]. reflexivity.
Qed.

Lemma no_digit_frac_exp f e : no_digit_head (frac_chars f ++ exp_chars e).
Proof. destruct f; cbn; auto. apply no_digit_exp_chars. Qed.

Lemma frac_exp_not_slash f e :
  match frac_chars f ++ exp_chars e with [] => True | c :: _ => is_slash c = false end.
Proof.
  destruct f; cbn; auto. pose proof (exp_chars_not_dot_slash e). destruct (exp_chars e); tauto.
Qed.

Lemma frac_exp_no_sign f e : f <> None -> no_sign_head (frac_chars f ++ exp_chars e).
Proof. destruct f; [|congruence]. cbn. auto. Qed.

(* positional semantics of   sign? d1..dk (. f1..fm)? ([eE] sign? x1..xn)?   *)
Theorem denote_decimal_lemma s ip f e :
  all_digits ip -> match f with Some fp => all_digits fp | None => True end -> exp_wf e ->
  ip ++ frac_digits f <> [] ->
  exists q, denote (lit_chars s ip f e) = Some q /\ (q == lit_value s ip f e)%Q.
Proof.
  intros Hi Hf He Hne. unfold denote, lit_chars.
  assert (no_sign_head (render ip ++ frac_chars f ++ exp_chars e)) as Hs.
  { destruct ip as [|d ip].
    - cbn [render map app]. apply frac_exp_no_sign. destruct f; [discriminate|]. cbn in Hne. congruence.
    - apply render_no_sign; auto. discriminate. }
  rewrite take_sign_chars by exact Hs.
  unfold denote_body. rewrite take_digits_render by (auto; apply no_digit_frac_exp).
  assert (denote_dec (sign_neg s) ip (frac_chars f ++ exp_chars e) =
          denote_exp (sign_neg s) (mant_val ip (frac_digits f)) (exp_chars e)) as HD.
  { unfold denote_dec. rewrite take_frac_chars by auto.
    destruct (ip ++ frac_digits f) eqn:E; [congruence|reflexivity]. }
  assert (match frac_chars f ++ exp_chars e with
          | c :: r2 => if is_slash c then denote_frac (sign_neg s) ip r2
                       else denote_dec (sign_neg s) ip (frac_chars f ++ exp_chars e)
          | [] => denote_dec (sign_neg s) ip []
          end = denote_dec (sign_neg s) ip (frac_chars f ++ exp_chars e)) as HM.
  { pose proof (frac_exp_not_slash f e) as Hsl.
    destruct (frac_chars f ++ exp_chars e) as [|c r]; [reflexivity|]. now rewrite Hsl. }
  rewrite HM, HD.
  destruct (denote_exp_chars (sign_neg s) (mant_val ip (frac_digits f)) e He) as [H|[-> H]]; rewrite H;
    eexists; split; try reflexivity; unfold lit_value.
  - destruct (sign_neg s); cbn [apply_sign]; now rewrite mant_val_positional.
  - cbn [exp_value]. destruct (sign_neg s); cbn [apply_sign]; rewrite mant_val_positional, pow10_0; ring.
Qed.

(* sign? n1..nk / d1..dm *)
Theorem denote_fraction_lemma s np dp :
  all_digits np -> all_digits dp -> np <> [] -> dp <> [] -> int_part dp <> 0 ->
  denote (sign_chars s ++ render np ++ "/"%char :: render dp) =
  Some (apply_sign (sign_neg s) (int_part np # Z.to_pos (int_part dp))).
Proof.
  intros Hn Hd Hnn Hdn Hz. unfold denote.
  rewrite take_sign_chars by (now apply render_no_sign).
  unfold denote_body. rewrite take_digits_render by (auto; reflexivity).
  cbn [is_slash]. unfold denote_frac. rewrite take_digits_render_nil by auto.
  destruct np as [|n np]; [congruence|]. destruct dp as [|d dp]; [congruence|].
  rewrite !digits_val_int_part. destruct (int_part (d :: dp) =? 0) eqn:E; [apply Z.eqb_eq in E; congruence|].
  reflexivity.
Qed.

(* ---------------------------------------------------------------- the symbolic form of the denotation *)

Local Open Scope Q_scope.

Definition sci_agree (a : option sci) (b : option Q) : Prop :=
  match a, b with
  | Some t, Some q => q == sci_val t
  | None, None => True
  | _, _ => False
  end.

Lemma apply_sign_comp neg a b : a == b -> apply_sign neg a == apply_sign neg b.
Proof. intros H. destruct neg; cbn; now rewrite H. Qed.

Lemma sci_exp_spec neg n k m r :
  m == inject_Z n * pow10 k -> sci_agree (sci_exp neg n k r) (denote_exp neg m r).
Proof.
  intros Hm. unfold sci_exp, denote_exp. destruct r as [|c r3].
  - cbn. apply apply_sign_comp. rewrite Hm. unfold Qeq; cbn. ring.
  - destruct (is_e c); [|exact I]. destruct (take_sign r3) as [eneg r4]. destruct (take_digits r4) as [ed r5].
    destruct ed as [|d ed]; [exact I|]. destruct r5; [|exact I]. cbn [sci_agree sci_val].
    apply apply_sign_comp. rewrite Hm, pow10_add.
    setoid_replace (n # Z.to_pos 1) with (inject_Z n) by reflexivity. ring.
Qed.

Lemma sci_dec_spec neg ip r1 : sci_agree (sci_dec neg ip r1) (denote_dec neg ip r1).
Proof.
  unfold sci_dec, denote_dec. destruct (take_frac r1) as [fp r2].
  destruct (ip ++ fp) eqn:E; [exact I|]. rewrite <- E. apply sci_exp_spec. reflexivity.
Qed.

Lemma sci_frac_spec neg ip r2 : sci_agree (sci_frac neg ip r2) (denote_frac neg ip r2).
Proof.
  unfold sci_frac, denote_frac. destruct (take_digits r2) as [dp r3].
  destruct ip; [exact I|]. destruct dp; [exact I|]. destruct r3; [|exact I].
  destruct (digits_val (z0 :: dp) =? 0)%Z; [exact I|]. cbn [sci_agree sci_val].
  apply apply_sign_comp. rewrite pow10_0. ring.
Qed.

(* [denote_sci] accepts exactly the strings [denote] accepts and names the same number *)
Lemma denote_sci_spec s : sci_agree (denote_sci s) (denote s).
Proof.
  unfold denote_sci, denote. destruct (take_sign s) as [neg r0]. unfold sci_body, denote_body.
  destruct (take_digits r0) as [ip r1]. destruct r1 as [|c r2].
  - apply sci_dec_spec.
  - destruct (is_slash c); [apply sci_frac_spec|apply sci_dec_spec].
Qed.

Local Open Scope Z_scope.

(* ---------------------------------------------------------------- printing a rational and reading it back *)

Lemma uint_digits_all u : all_digits (uint_digits u).
Proof. induction u; cbn; constructor; auto; lia. Qed.

Lemma of_uint_acc_digits u acc :
  Z.pos (Pos.of_uint_acc u acc) = fold_left (fun a d => 10 * a + d) (uint_digits u) (Z.pos acc).
Proof.
  revert acc. induction u; intros acc; cbn [Pos.of_uint_acc uint_digits fold_left]; auto;
    rewrite IHu; f_equal; lia.
Qed.

Lemma of_uint_digits u : Z.of_N (Pos.of_uint u) = digits_val (uint_digits u).
Proof.
  unfold digits_val. induction u; cbn [Pos.of_uint uint_digits fold_left]; auto;
    try (cbn [Z.of_N]; rewrite of_uint_acc_digits; f_equal; lia).
Qed.

Lemma print_pos_digits p :
  all_digits (uint_digits (Pos.to_uint p)) /\ uint_digits (Pos.to_uint p) <> [] /\
  int_part (uint_digits (Pos.to_uint p)) = Z.pos p.
Proof.
  split; [apply uint_digits_all|].
  assert (digits_val (uint_digits (Pos.to_uint p)) = Z.pos p) as H.
  { rewrite <- of_uint_digits, DecimalPos.Unsigned.of_to. reflexivity. }
  split.
  - intros E. rewrite E in H. discriminate H.
  - now rewrite <- digits_val_int_part.
Qed.

Lemma denote_print_Z z :
  exists q, denote (print_Z z) = Some q /\ (q == inject_Z z)%Q.
Proof.
  destruct z as [|p|p]; cbn [print_Z].
  - eexists. split; [reflexivity|]. reflexivity.
  - destruct (print_pos_digits p) as (Ha & Hn & Hv). unfold print_pos.
    destruct (denote_decimal_lemma None (uint_digits (Pos.to_uint p)) None None Ha I I) as (q & Hq & Hv').
    { now rewrite app_nil_r. }
    unfold lit_chars in Hq. cbn [sign_chars frac_chars exp_chars app] in Hq. rewrite !app_nil_r in Hq.
    exists q. split; auto. rewrite Hv'. unfold lit_value. cbn [sign_neg apply_sign frac_digits frac_part exp_value].
    rewrite Hv, pow10_0. ring.
  - destruct (print_pos_digits p) as (Ha & Hn & Hv). unfold print_pos.
    destruct (denote_decimal_lemma (Some true) (uint_digits (Pos.to_uint p)) None None Ha I I) as (q & Hq & Hv').
    { now rewrite app_nil_r. }
    unfold lit_chars in Hq. cbn [sign_chars frac_chars exp_chars app] in Hq. rewrite !app_nil_r in Hq.
    exists q. split; auto. rewrite Hv'. unfold lit_value. cbn [sign_neg apply_sign frac_digits frac_part exp_value].
    rewrite Hv, pow10_0. change (inject_Z (Z.neg p)) with (- inject_Z (Z.pos p))%Q. ring.
Qed.

Lemma denote_print_frac n d :
  exists q, denote (print_Z n ++ "/"%char :: print_pos d) = Some q /\ (q == n # d)%Q.
Proof.
  destruct (print_pos_digits d) as (Ha & Hn & Hv). unfold print_pos at 1.
  assert (int_part (uint_digits (Pos.to_uint d)) <> 0) as Hz by (rewrite Hv; discriminate).
  destruct n as [|p|p]; cbn [print_Z].
  - unfold print_pos.
    change (["0"%char] ++ "/"%char :: render (uint_digits (Pos.to_uint d)))
      with (sign_chars None ++ render [0] ++ "/"%char :: render (uint_digits (Pos.to_uint d))).
    rewrite denote_fraction_lemma; auto; try discriminate; [|repeat constructor; lia].
    eexists. split; [reflexivity|]. cbn [sign_neg apply_sign]. rewrite Hv. cbn. reflexivity.
  - destruct (print_pos_digits p) as (Ha' & Hn' & Hv'). unfold print_pos.
    change (render (uint_digits (Pos.to_uint p)) ++ "/"%char :: render (uint_digits (Pos.to_uint d)))
      with (sign_chars None ++ render (uint_digits (Pos.to_uint p)) ++ "/"%char :: render (uint_digits (Pos.to_uint d))).
    rewrite denote_fraction_lemma; auto.
    eexists. split; [reflexivity|]. cbn [sign_neg apply_sign]. rewrite Hv, Hv'. reflexivity.
  - destruct (print_pos_digits p) as (Ha' & Hn' & Hv'). unfold print_pos.
    change (("-"%char :: render (uint_digits (Pos.to_uint p))) ++ "/"%char :: render (uint_digits (Pos.to_uint d)))
      with (sign_chars (Some true) ++ render (uint_digits (Pos.to_uint p)) ++ "/"%char :: render (uint_digits (Pos.to_uint d))).
    rewrite denote_fraction_lemma; auto.
    eexists. split; [reflexivity|]. cbn [sign_neg apply_sign]. rewrite Hv, Hv'. reflexivity.
Qed.

Theorem print_parse_rational_lemma q : exists q', denote (print_q q) = Some q' /\ (q' == q)%Q.
Proof.
  unfold print_q. pose proof (Qred_correct q) as HR. destruct (Qred q) as [n d]. cbn [Qnum Qden].
  destruct d as [d|d|].
  - destruct (denote_print_frac n (d~1)) as (q' & H1 & H2). exists q'. split; auto. now rewrite H2.
  - destruct (denote_print_frac n (d~0)) as (q' & H1 & H2). exists q'. split; auto. now rewrite H2.
  - destruct (denote_print_Z n) as (q' & H1 & H2). exists q'. split; auto. rewrite H2, <- HR. reflexivity.
Qed.

(* ---------------------------------------------------------------- correctly rounded doubles *)

Local Open Scope Q_scope.

(* two correctly rounded images of the same rational are the same number, or the rational is exactly half way *)
Lemma closest_unique_up_to_tie q m1 e1 m2 e2 :
  closest q m1 e1 -> closest q m2 e2 ->
  dyadic_val m1 e1 == dyadic_val m2 e2 \/
  (dyadic_val m1 e1 + dyadic_val m2 e2 == 2 * q /\ Qabs (q - dyadic_val m1 e1) == Qabs (q - dyadic_val m2 e2)).
Proof.
  intros [D1 H1] [D2 H2]. specialize (H1 m2 e2 D2). specialize (H2 m1 e1 D1).
  set (a := dyadic_val m1 e1) in *. set (b := dyadic_val m2 e2) in *.
  assert (Qabs (q - a) == Qabs (q - b)) as E by (apply Qle_antisym; assumption).
  destruct (Qlt_le_dec (q - a) 0) as [Ha|Ha]; destruct (Qlt_le_dec (q - b) 0) as [Hb|Hb].
  - left. rewrite (Qabs_neg (q - a)), (Qabs_neg (q - b)) in E by lra. lra.
  - right. split; [|exact E]. rewrite (Qabs_neg (q - a)), (Qabs_pos (q - b)) in E by lra. lra.
  - right. split; [|exact E]. rewrite (Qabs_pos (q - a)), (Qabs_neg (q - b)) in E by lra. lra.
  - left. rewrite (Qabs_pos (q - a)), (Qabs_pos (q - b)) in E by lra. lra.
Qed.

(* ---------------------------------------------------------------- ratFromString as coded is not exact *)

Definition lit_1em1 : list ascii := ["1"; "e"; "-"; "1"]%char.
Definition lit_m0p0 : list ascii := ["-"; "0"; "."; "0"]%char.
Definition lit_1e400 : list ascii := ["1"; "e"; "4"; "0"; "0"]%char.
Definition lit_1e23 : list ascii := ["1"; "e"; "2"; "3"]%char.

(* no dyadic rational equals one tenth: whatever finite double pow(10,-1) returns, "1e-1" is not read exactly *)
Lemma five_not_div_pow2 k : (0 <= k)%Z -> ~ (5 | 2 ^ k)%Z.
Proof.
  intros Hk. pattern k. apply natlike_ind; auto.
  - cbn. intros [c Hc]. lia.
  - intros x Hx IH H. rewrite Z.pow_succ_r in H by lia. apply IH.
    apply (Z.gauss 5 2); auto.
Qed.

Lemma dyadic_not_tenth m e : ~ dyadic_val m e == 1 # 10.
Proof.
  unfold dyadic_val. destruct (0 <=? e)%Z eqn:E.
  - unfold Qeq, inject_Z; cbn [Qnum Qden]. intros H. lia.
  - apply Z.leb_gt in E. unfold Qeq; cbn [Qnum Qden]. intros H.
    assert (0 < 2 ^ (- e))%Z as P by (apply Z.pow_pos_nonneg; lia).
    rewrite Z2Pos.id in H by exact P.
    apply (five_not_div_pow2 (- e)); [lia|]. exists (2 * m)%Z. lia.
Qed.

Lemma dbl_to_raw_val m e :
  exists n d, dbl_to_raw (DFin m e) = Some (n, d) /\ (0 < d)%Z /\ n # Z.to_pos d == dyadic_val m e.
Proof.
  unfold dbl_to_raw, dyadic_val. destruct (0 <=? e)%Z eqn:E.
  - exists (m * 2 ^ e)%Z, 1%Z. split; auto. split; [lia|]. reflexivity.
  - apply Z.leb_gt in E. set (D := (2 ^ (- e))%Z).
    assert (0 < D)%Z as PD by (apply Z.pow_pos_nonneg; lia).
    set (g := Z.gcd m D).
    assert (0 < g)%Z as Pg.
    { assert (0 <= g)%Z by apply Z.gcd_nonneg. assert (g <> 0)%Z; [|lia].
      intros G. apply Z.gcd_eq_0_r in G. lia. }
    destruct (g =? 0)%Z eqn:G; [apply Z.eqb_eq in G; lia|].
    exists (m / g)%Z, (D / g)%Z.
    destruct (Z.gcd_divide_l m D) as [a Ha]. destruct (Z.gcd_divide_r m D) as [b Hb]. fold g in Ha, Hb.
    assert (m / g = a)%Z as Ea by (rewrite Ha; apply Z.div_mul; lia).
    assert (D / g = b)%Z as Eb by (rewrite Hb at 1; apply Z.div_mul; lia).
    assert (0 < b)%Z as Pb by nia.
    split; auto. split; [lia|].
    unfold Qeq; cbn [Qnum Qden]. rewrite Ea, Eb, !Z2Pos.id by lia. rewrite Ha, Hb. ring.
Qed.

Lemma rat_code_1em1 pw m e :
  pw (-1)%Z = DFin m e ->
  exists a, outcome_val (rat_code pw lit_1em1) = Some a /\ a == dyadic_val m e.
Proof.
  intros H. destruct (dbl_to_raw_val m e) as (n & d & Hr & Pd & Hv).
  assert (rat_code pw lit_1em1 =
          match dbl_to_raw (pw (-1)%Z) with
          | None => OCrash
          | Some (pn, pd) => let (rn, rd) := mpq_mul_raw 1 1 pn pd in OVal rn rd
          end) as E by reflexivity.
  rewrite E, H, Hr. unfold mpq_mul_raw. cbn [Z.eqb orb].
  destruct (n =? 0)%Z eqn:N.
  - apply Z.eqb_eq in N. subst n. exists 0. split; [reflexivity|]. rewrite <- Hv. reflexivity.
  - rewrite Z.gcd_1_l, Z.gcd_1_r, !Z.div_1_r, !Z.mul_1_l, !Z.mul_1_r. cbn [outcome_val]. unfold raw_val.
    destruct (d =? 0)%Z eqn:D0; [apply Z.eqb_eq in D0; lia|].
    destruct (0 <? d)%Z eqn:D1; [|apply Z.ltb_ge in D1; lia].
    exists (n # Z.to_pos d). split; [reflexivity|exact Hv].
Qed.

Lemma denote_1em1 : exists q, denote lit_1em1 = Some q /\ q == 1 # 10.
Proof. eexists. split; [vm_compute; reflexivity|]. reflexivity. Qed.

(* "1e-1" is not read exactly, whatever finite double the C library returns for pow(10, -1) *)
Theorem ratFromString_exact_refuted_lemma :
  forall pw : Z -> dbl, (exists m e, pw (-1)%Z = DFin m e) ->
  exists lit q, denote lit = Some q /\
                exists a, outcome_val (rat_code pw lit) = Some a /\ ~ a == q.
Proof.
  intros pw (m & e & H). destruct denote_1em1 as (q & Hq & Hv).
  exists lit_1em1, q. split; auto.
  destruct (rat_code_1em1 pw m e H) as (a & Ha & Hav). exists a. split; auto.
  rewrite Hav, Hv. apply dyadic_not_tenth.
Qed.

(* with the correctly rounded pow(10,-1) the stored pair is the one the implementation prints *)
Lemma rat_code_1em1_value pw :
  pw (-1)%Z = DFin 3602879701896397 (-55) ->
  rat_code pw lit_1em1 = OVal 3602879701896397 36028797018963968.
Proof.
  intros H.
  assert (rat_code pw lit_1em1 =
          match dbl_to_raw (pw (-1)%Z) with
          | None => OCrash
          | Some (pn, pd) => let (rn, rd) := mpq_mul_raw 1 1 pn pd in OVal rn rd
          end) as E by reflexivity.
  rewrite E, H. vm_compute. reflexivity.
Qed.

(* "-0.0" (in the grammar, denotes 0): the zero-stripping of the negative branch erases the whole mantissa, the
   conversion of "-/10" throws; the LP reader then keeps its initial value 1 *)
Lemma rat_code_neg_zero pw :
  rat_code pw lit_m0p0 = OThrow /\ lpf_value pw lit_m0p0 = OVal 1 1 /\
  exists q, denote lit_m0p0 = Some q /\ q == 0.
Proof.
  split; [reflexivity|]. split; [reflexivity|].
  eexists. split; [vm_compute; reflexivity|]. reflexivity.
Qed.

(* "1e400": pow(10, 400) is +infinity, its conversion to Rational raises SIGFPE inside GMP *)
Lemma rat_code_overflow pw :
  pw 400%Z = DPInf -> rat_code pw lit_1e400 = OCrash /\ exists q, denote lit_1e400 = Some q.
Proof.
  intros H. split.
  - assert (rat_code pw lit_1e400 =
          match dbl_to_raw (pw 400%Z) with
          | None => OCrash
          | Some (pn, pd) => let (rn, rd) := mpq_mul_raw 1 1 pn pd in OVal rn rd
          end) as E by reflexivity.
    rewrite E, H. reflexivity.
  - eexists. vm_compute. reflexivity.
Qed.

(* "1e23": positive exponents above 22 are inexact as well (10^23 is not a double) *)
Lemma rat_code_1e23 pw :
  pw 23%Z = DFin 5960464477539063 24 ->     (* what glibc pow(10, 23) returns: 1.0000000000000001e23 *)
  rat_code pw lit_1e23 = OVal 100000000000000008388608 1 /\
  exists q, denote lit_1e23 = Some q /\ q == inject_Z (10 ^ 23).
Proof.
  intros H. split.
  - assert (rat_code pw lit_1e23 =
          match dbl_to_raw (pw 23%Z) with
          | None => OCrash
          | Some (pn, pd) => let (rn, rd) := mpq_mul_raw 1 1 pn pd in OVal rn rd
          end) as E by reflexivity.
    rewrite E, H. vm_compute. reflexivity.
  - eexists. split; [vm_compute; reflexivity|]. reflexivity.
Qed.
