(* C03 - executable models of the decision kernels that guard the answers of the exact (rational) solve of SoPlex
   (src/soplex/solverational.hpp):
     _computeBoundsViolation, _computeSidesViolation, _computeReducedCostViolation, _computeDualViolation,
     _isSolveStopped / _isRefinementOver, _checkRefinementProgress,
     the post-processing of _performUnboundedIRStable / _performFeasIRStable,
     the verdict loop of _optimizeRational (as an automaton driven by a script of oracle answers),
     the objective value  sol._objVal = sol._primal * maxObj (negated for minimisation).
   Definitions only; proofs in RatGate_Proofs.v. *)
From Coq Require Import QArith ZArith List Bool.
From SV Require Import Vec LP Cert.
Import ListNotations.
Local Open Scope Q_scope.

(* ---------- enumerations (DESIGN Appendix A) ---------- *)
Inductive VarStatus := ON_UPPER | ON_LOWER | FIXED | ZERO | BASIC | UNDEFINED.
Inductive RangeType := RT_FREE | RT_LOWER | RT_UPPER | RT_BOXED | RT_FIXED.

Definition vs_eqb (a b : VarStatus) : bool :=
  match a, b with
  | ON_UPPER, ON_UPPER | ON_LOWER, ON_LOWER | FIXED, FIXED | ZERO, ZERO | BASIC, BASIC | UNDEFINED, UNDEFINED => true
  | _, _ => false
  end.
Definition rt_is_fixed (t : RangeType) : bool := match t with RT_FIXED => true | _ => false end.

(* _lowerFinite / _upperFinite *)
Definition lowerFinite (t : RangeType) : bool := match t with RT_LOWER | RT_BOXED | RT_FIXED => true | _ => false end.
Definition upperFinite (t : RangeType) : bool := match t with RT_UPPER | RT_BOXED | RT_FIXED => true | _ => false end.

(* _rangeTypeRational on bounds where None stands for a value beyond +-INFTY *)
Definition range_type (lo up : option Q) : RangeType :=
  match lo, up with
  | None, None => RT_FREE
  | None, Some _ => RT_UPPER
  | Some _, None => RT_LOWER
  | Some l, Some u => if Qeq_bool l u then RT_FIXED else RT_BOXED
  end.

(* ---------- the state the kernels read ---------- *)
Record gate := {
  g_lp : lp;                       (* the rational LP (None = infinite bound/side) *)
  g_infty : Q;                     (* _rationalPosInfty: the value an infinite bound is stored as *)
  g_ctypes : list RangeType;       (* _colTypes *)
  g_rtypes : list RangeType;       (* _rowTypes *)
  g_cstat : list VarStatus;        (* _basisStatusCols *)
  g_rstat : list VarStatus         (* _basisStatusRows *)
}.
Record rsol := { s_primal : list Q; s_slacks : list Q; s_dual : list Q; s_redcost : list Q }.

Definition ctype (g : gate) (j : nat) : RangeType := nth j (g_ctypes g) RT_FREE.
Definition rtype (g : gate) (i : nat) : RangeType := nth i (g_rtypes g) RT_FREE.
Definition cstat (g : gate) (j : nat) : VarStatus := nth j (g_cstat g) UNDEFINED.
Definition rstat (g : gate) (i : nat) : VarStatus := nth i (g_rstat g) UNDEFINED.

(* the stored value of a bound: an infinite one is stored as -+ infty *)
Definition lo_val (g : gate) (o : option Q) : Q := match o with Some l => l | None => - g_infty g end.
Definition up_val (g : gate) (o : option Q) : Q := match o with Some u => u | None => g_infty g end.

(* "bound - value", with the special case of a zero bound (negated value; no subtraction) *)
Definition bound_minus (b v : Q) : Q := if Qeq_bool b 0 then - v else b - v.

(* ---------- _computeBoundsViolation: one column ---------- *)
Definition bounds_step (g : gate) (x : list Q) (acc : Q) (c : nat) : Q :=
  let t := ctype g c in
  let a1 := if lowerFinite t
            then let m := bound_minus (lo_val g (c_lo (colj (g_lp g) c))) (vnth x c) in
                 if Qltb acc m then m else acc
            else acc in
  if upperFinite t
  then let m := bound_minus (up_val g (c_up (colj (g_lp g) c))) (vnth x c) in
       if Qltb m (- a1) then - m else a1
  else a1.

(* columns are visited from the last to the first *)
Definition down (n : nat) : list nat := rev (seq 0 n).

Definition bounds_violation (g : gate) (s : rsol) : Q :=
  fold_left (bounds_step g (s_primal s)) (down (ncols (g_lp g))) 0.

(* ---------- _computeSidesViolation: one row (with the complementary-slackness term) ---------- *)
Definition sides_step (g : gate) (sl : list Q) (acc : Q) (r : nat) : Q :=
  let t := rtype g r in
  let st := rstat g r in
  let a1 := if lowerFinite t
            then let m := bound_minus (lo_val g (r_lhs (rowi (g_lp g) r))) (vnth sl r) in
                 if Qltb acc m then m
                 else if vs_eqb st ON_LOWER && Qltb m (- acc) then - m else acc
            else acc in
  if upperFinite t
  then let m := bound_minus (up_val g (r_rhs (rowi (g_lp g) r))) (vnth sl r) in
       if Qltb m (- a1) then - m
       else if vs_eqb st ON_UPPER && Qltb a1 m then m else a1
  else a1.

Definition sides_violation (g : gate) (s : rsol) : Q :=
  fold_left (sides_step g (s_slacks s)) (down (nrows (g_lp g))) 0.

(* ---------- _computeReducedCostViolation / _computeDualViolation: one entry ---------- *)
Definition sign_step (maximizing : bool) (t : RangeType) (st : VarStatus) (v : Q) (acc : Q) : Q :=
  if rt_is_fixed t then acc else
  let a1 := if ((maximizing && negb (vs_eqb st ON_LOWER)) || (negb maximizing && negb (vs_eqb st ON_UPPER))) && Qltb v (- acc)
            then - v else acc in
  if ((maximizing && negb (vs_eqb st ON_UPPER)) || (negb maximizing && negb (vs_eqb st ON_LOWER))) && Qltb a1 v
  then v else a1.

Definition redcost_step (g : gate) (d : list Q) (acc : Q) (c : nat) : Q :=
  sign_step (maximize (g_lp g)) (ctype g c) (cstat g c) (vnth d c) acc.
Definition dual_step (g : gate) (y : list Q) (acc : Q) (r : nat) : Q :=
  sign_step (maximize (g_lp g)) (rtype g r) (rstat g r) (vnth y r) acc.

Definition redcost_violation (g : gate) (s : rsol) : Q :=
  fold_left (redcost_step g (s_redcost s)) (down (ncols (g_lp g))) 0.
Definition dual_violation (g : gate) (s : rsol) : Q :=
  fold_left (dual_step g (s_dual s)) (down (nrows (g_lp g))) 0.

(* ---------- _isSolveStopped ---------- *)
Record limits := {
  l_infty : Q; l_timelimit : Q; l_time : Q;
  l_iterlimit : Z; l_iters : Z; l_reflimit : Z; l_refs : Z; l_stallreflimit : Z; l_stalls : Z
}.
Definition is_solve_stopped (l : limits) : bool * bool :=
  ( Qltb (l_timelimit l) (l_infty l) && Qle_bool (l_timelimit l) (l_time l),
    ((0 <=? l_iterlimit l)%Z && (l_iterlimit l <=? l_iters l)%Z)
    || ((0 <=? l_reflimit l)%Z && (l_reflimit l <=? l_refs l)%Z)
    || ((0 <=? l_stallreflimit l)%Z && (l_stallreflimit l <=? l_stalls l)%Z) ).

(* ---------- _isRefinementOver ---------- *)
Record over_out := { o_over : bool; o_pf : bool; o_df : bool; o_st : bool; o_si : bool }.

Definition is_refinement_over (feastol opttol bv sv rv dv : Q) (minIRRoundsRemaining : Z)
           (st0 si0 : bool) (l : limits) (numFailedRefinements : Z) : over_out :=
  let pf := Qle_bool bv feastol && Qle_bool sv feastol in
  let df := Qle_bool rv opttol && Qle_bool dv opttol in
  if pf && df && (minIRRoundsRemaining <? 0)%Z
  then {| o_over := true; o_pf := pf; o_df := df; o_st := st0; o_si := si0 |}
  else let '(st, si) := is_solve_stopped l in
       {| o_over := (st || si) || (2 <? numFailedRefinements)%Z; o_pf := pf; o_df := df; o_st := st; o_si := si |}.

(* ---------- _checkRefinementProgress: (maxViolation, bestViolation, numFailedRefinements) ---------- *)
Definition Qmax2 (a b : Q) : Q := if Qltb a b then b else a.
Definition check_progress (bv sv rv dv best factor : Q) (nfail : Z) : Q * Q * Z :=
  let mx := Qmax2 (Qmax2 (Qmax2 bv sv) rv) dv in
  let best' := best / factor in
  if Qltb best' mx then (mx, best' * factor, (nfail + 1)%Z) else (mx, mx, nfail).

(* ---------- objective value as the code computes it ---------- *)
Definition max_obj (p : lp) : list Q := if maximize p then objvec p else map Qopp (objvec p).
Definition model_objval (p : lp) (x : list Q) : Q :=
  let v := dot x (max_obj p) in if maximize p then v else - v.

(* ====================================================================================================
   The verdict loop of _optimizeRational.
   Oracles: the answers of _performOptIRWrapper in the three modes (original LP, unboundedness test, feasibility test),
   the value of the auxiliary variable tau after the two tests, _boostingLimitReached, the result of
   _setupBoostedSolverAfterRecovery and the value of _isSolveStopped at the loop condition.  They are consumed from a
   script in the order the code asks for them.
   ==================================================================================================== *)
Inductive status := S_UNKNOWN | S_OPTIMAL | S_INFEASIBLE | S_UNBOUNDED | S_ERROR | S_ABORT_TIME | S_ABORT_ITER.

Record ans := { a_pf : bool; a_df : bool; a_inf : bool; a_unb : bool; a_st : bool; a_si : bool; a_err : bool }.

Inductive event :=
| EOpt (a : ans) (boostLimitReached : bool)
| EUnbd (a : ans) (tau : Q)
| EFeas (a : ans) (tau : Q)
| ESetup (ok : bool)
| EStop (st si : bool).

Record cfg := { k_boosting : bool; k_testdualinf : bool; k_feastol : Q }.

(* result of the two auxiliary procedures: (certificate found, stoppedTime, stoppedIter, error) *)
Definition aux_res := (bool * bool * bool * bool)%type.

(* _performUnboundedIRStable after the inner solve: hasUnboundedRay / error *)
Definition unbd_post (k : cfg) (a : ans) (tau : Q) : aux_res :=
  if a_st a || a_si a then (false, a_st a, a_si a, false)
  else if a_err a || a_unb a || a_inf a || negb (a_pf a) || negb (a_df a) then (false, a_st a, a_si a, true)
  else (Qle_bool 1 tau, a_st a, a_si a, negb (Qle_bool 1 tau || Qle_bool tau (k_feastol k))).

(* _performFeasIRStable after the inner solve: withDualFarkas / error *)
Definition feas_post (k : cfg) (a : ans) (tau : Q) : aux_res :=
  if a_st a || a_si a then (false, a_st a, a_si a, false)
  else if a_err a || a_unb a || a_inf a || negb (a_pf a) || negb (a_df a) then (false, a_st a, a_si a, true)
  else (Qltb tau 1, a_st a, a_si a, Qltb tau (- k_feastol k) || Qltb (1 + k_feastol k) tau).

Record vstate := { v_unbNC : bool;     (* unboundednessNotCertified *)
                   v_infNC : bool;     (* infeasibilityNotCertified *)
                   v_ray : bool;       (* hasUnboundedRay *)
                   v_status : status }.

Definition set_status (s : vstate) (t : status) : vstate :=
  {| v_unbNC := v_unbNC s; v_infNC := v_infNC s; v_ray := v_ray s; v_status := t |}.
Definition set_ray (s : vstate) (b : bool) : vstate :=
  {| v_unbNC := v_unbNC s; v_infNC := v_infNC s; v_ray := b; v_status := v_status s |}.
Definition set_unbNC (s : vstate) (b : bool) : vstate :=
  {| v_unbNC := b; v_infNC := v_infNC s; v_ray := v_ray s; v_status := v_status s |}.
Definition set_infNC (s : vstate) (b : bool) : vstate :=
  {| v_unbNC := v_unbNC s; v_infNC := b; v_ray := v_ray s; v_status := v_status s |}.

Inductive flow := Break | Continue.

(* (what the loop does next, state, remaining script, log with the newest event first); None: the script does not offer the
   oracle answer the code asks for *)
Definition step_res := option (flow * vstate * list event * list event)%type.

(* "if(PRECISION_BOOSTING) { if(_setupBoostedSolverAfterRecovery()) continue; else break; }" followed by [otherwise] *)
Definition boost_or (k : cfg) (otherwise : flow) (s : vstate) (evs log : list event) : step_res :=
  if k_boosting k then
    match evs with
    | ESetup ok :: evs' => Some (if ok then Continue else Break, s, evs', ESetup ok :: log)
    | _ => None
    end
  else Some (otherwise, s, evs, log).

(* the tail shared by both test branches: verdict from (infeasible, hasUnboundedRay) *)
Definition conclude (k : cfg) (inf : bool) (s : vstate) (evs log : list event) : step_res :=
  if inf then Some (Break, set_status s S_INFEASIBLE, evs, log)
  else if v_ray s then Some (Break, set_status s S_UNBOUNDED, evs, log)
  else boost_or k Continue s evs log.

(* branch "unboundedness detected for the first time" *)
Definition unb_branch (k : cfg) (s : vstate) (evs log : list event) : step_res :=
  match evs with
  | EUnbd ua tau :: evs2 =>
    let log2 := EUnbd ua tau :: log in
    let '(ray, ust, usi, uerr) := unbd_post k ua tau in
    let s := set_ray s ray in
    if uerr then boost_or k Break (set_status s S_ERROR) evs2 log2
    else
      let s := set_unbNC s (negb ray) in
      if ust then Some (Break, set_status s S_ABORT_TIME, evs2, log2)
      else if usi then Some (Break, set_status s S_ABORT_ITER, evs2, log2)
      else
        match evs2 with
        | EFeas fa ftau :: evs3 =>
          let log3 := EFeas fa ftau :: log2 in
          let '(inf, fst_, fsi, ferr) := feas_post k fa ftau in
          if ferr then boost_or k Break (set_status s S_ERROR) evs3 log3
          else if fst_ then Some (Break, set_status s S_ABORT_TIME, evs3, log3)
          else if fsi then Some (Break, set_status s S_ABORT_ITER, evs3, log3)
          else conclude k inf s evs3 log3
        | _ => None
        end
  | _ => None
  end.

(* branch "infeasibility detected" *)
Definition inf_branch (k : cfg) (s : vstate) (evs log : list event) : step_res :=
  match evs with
  | EFeas fa ftau :: evs2 =>
    let log2 := EFeas fa ftau :: log in
    let '(inf, fst_, fsi, ferr) := feas_post k fa ftau in
    if ferr then boost_or k Break (set_status s S_ERROR) evs2 log2
    else
      let s := set_infNC s (negb inf) in
      if fst_ then Some (Break, set_status s S_ABORT_TIME, evs2, log2)
      else if fsi then Some (Break, set_status s S_ABORT_ITER, evs2, log2)
      else if inf && k_testdualinf k then
        match evs2 with
        | EUnbd ua tau :: evs3 =>
          let log3 := EUnbd ua tau :: log2 in
          let '(ray, ust, usi, uerr) := unbd_post k ua tau in
          let s := set_ray s ray in
          if uerr then boost_or k Break (set_status s S_ERROR) evs3 log3
          else conclude k inf s evs3 log3
        | _ => None
        end
      else conclude k inf s evs2 log2
  | _ => None
  end.

(* one pass through the body of the do-while loop *)
Definition loop_body (k : cfg) (s : vstate) (evs log : list event) : step_res :=
  match evs with
  | EOpt a blim :: evs1 =>
    let log1 := EOpt a blim :: log in
    if a_err a && blim then Some (Break, set_status s S_ERROR, evs1, log1)
    else if a_err a then boost_or k Break (set_status s S_ERROR) evs1 log1
    else if a_st a then Some (Break, set_status s S_ABORT_TIME, evs1, log1)
    else if a_si a then Some (Break, set_status s S_ABORT_ITER, evs1, log1)
    else if a_unb a && negb (v_unbNC s) then unb_branch k s evs1 log1
    else if a_inf a && negb (v_infNC s) then inf_branch k s evs1 log1
    else if a_pf a && a_df a then Some (Break, set_status s S_OPTIMAL, evs1, log1)
    else boost_or k Break s evs1 log1
  | _ => None
  end.

(* do { body } while(!_isSolveStopped(...));  "continue" jumps to the loop condition.  Result: final state and log. *)
Fixpoint verdict_loop (fuel : nat) (k : cfg) (s : vstate) (evs log : list event) : option (vstate * list event) :=
  match fuel with
  | O => None
  | S fuel' =>
    match loop_body k s evs log with
    | None => None
    | Some (Break, s', _, log') => Some (s', log')
    | Some (Continue, s', evs', log') =>
      match evs' with
      | EStop st si :: evs'' =>
        if st || si then Some (s', EStop st si :: log') else verdict_loop fuel' k s' evs'' (EStop st si :: log')
      | _ => None
      end
    end
  end.

Definition init_state : vstate := {| v_unbNC := false; v_infNC := false; v_ray := false; v_status := S_UNKNOWN |}.

(* the status after _optimizeRational for a script of oracle answers (optimize() has reset the status to UNKNOWN) *)
Definition optimize_rational (k : cfg) (script : list event) : option (status * list event) :=
  match verdict_loop (S (length script)) k init_state script [] with
  | Some (s, log) => Some (v_status s, log)
  | None => None
  end.

Definition is_verdict (t : status) : bool :=
  match t with S_OPTIMAL | S_INFEASIBLE | S_UNBOUNDED => true | _ => false end.

(* ---------- reading the log (newest event first) ---------- *)
Fixpoint last_unbd (log : list event) : option (ans * Q) :=
  match log with
  | [] => None
  | EUnbd a t :: _ => Some (a, t)
  | _ :: r => last_unbd r
  end.
Fixpoint last_feas (log : list event) : option (ans * Q) :=
  match log with
  | [] => None
  | EFeas a t :: _ => Some (a, t)
  | _ :: r => last_feas r
  end.
Fixpoint last_opt (log : list event) : option ans :=
  match log with
  | [] => None
  | EOpt a _ :: _ => Some a
  | _ :: r => last_opt r
  end.

Definition clean (a : ans) : bool := negb (a_err a) && negb (a_st a) && negb (a_si a).

(* ====================================================================================================
   The hypotheses under which zero violations mean "optimal", as a boolean (so that they can be evaluated on real answers)
   ==================================================================================================== *)
Definition rt_eqb (a b : RangeType) : bool :=
  match a, b with
  | RT_FREE, RT_FREE | RT_LOWER, RT_LOWER | RT_UPPER, RT_UPPER | RT_BOXED, RT_BOXED | RT_FIXED, RT_FIXED => true
  | _, _ => false
  end.
Definition is_some {A} (o : option A) : bool := match o with Some _ => true | None => false end.

(* the range types are the ones _rangeTypeRational computes from the bounds/sides *)
Definition types_match (g : gate) : bool :=
  let p := g_lp g in
  forall_lt (ncols p) (fun j => rt_eqb (ctype g j) (range_type (c_lo (colj p j)) (c_up (colj p j))))
  && forall_lt (nrows p) (fun i => rt_eqb (rtype g i) (range_type (r_lhs (rowi p i)) (r_rhs (rowi p i)))).

(* a non-basic column sits on the (finite) bound its status names; a non-basic row status names a finite side *)
Definition col_status_ok (g : gate) (x : list Q) (j : nat) : bool :=
  match cstat g j with
  | ON_LOWER => tight_lo (c_lo (colj (g_lp g) j)) (vnth x j)
  | ON_UPPER => tight_up (c_up (colj (g_lp g) j)) (vnth x j)
  | _ => true
  end.
Definition row_status_ok (g : gate) (i : nat) : bool :=
  match rstat g i with
  | ON_LOWER => is_some (r_lhs (rowi (g_lp g) i))
  | ON_UPPER => is_some (r_rhs (rowi (g_lp g) i))
  | _ => true
  end.

Definition gate_consistent (g : gate) (s : rsol) : bool :=
  let p := g_lp g in
  Nat.eqb (length (s_primal s)) (ncols p) && Nat.eqb (length (s_dual s)) (nrows p)
  && types_match g
  && forall_lt (ncols p) (col_status_ok g (s_primal s))
  && forall_lt (nrows p) (row_status_ok g)
  && forall_lt (nrows p) (fun i => Qeq_bool (vnth (s_slacks s) i) (activity p i (s_primal s)))
  && forall_lt (ncols p) (fun j => Qeq_bool (vnth (s_redcost s) j) (redcost p (s_dual s) j)).

Definition gate_zero (g : gate) (s : rsol) : bool :=
  Qle_bool (bounds_violation g s) 0 && Qle_bool (sides_violation g s) 0
  && Qle_bool (redcost_violation g s) 0 && Qle_bool (dual_violation g s) 0.
