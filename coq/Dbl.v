(* Doubles as they cross between the C++ harnesses and the models: exact dyadics m*2^e,
   the two IEEE infinities and NaN.  Comparisons follow IEEE-754 (every comparison with NaN is false). *)
From Coq Require Import ZArith Bool List Lia.
Local Open Scope Z_scope.

Inductive dbl := DNaN | DPInf | DNInf | DFin (m e : Z).

Definition dcmp_fin (m1 e1 m2 e2 : Z) : comparison :=
  let e := Z.min e1 e2 in
  Z.compare (m1 * 2 ^ (e1 - e)) (m2 * 2 ^ (e2 - e)).

(* IEEE < *)
Definition dlt (a b : dbl) : bool :=
  match a, b with
  | DNaN, _ | _, DNaN => false
  | DPInf, _ => false
  | _, DNInf => false
  | DNInf, _ => true
  | _, DPInf => true
  | DFin m1 e1, DFin m2 e2 => match dcmp_fin m1 e1 m2 e2 with Lt => true | _ => false end
  end.

(* IEEE == *)
Definition deq (a b : dbl) : bool :=
  match a, b with
  | DNaN, _ | _, DNaN => false
  | DPInf, DPInf => true
  | DNInf, DNInf => true
  | DFin m1 e1, DFin m2 e2 => match dcmp_fin m1 e1 m2 e2 with Eq => true | _ => false end
  | _, _ => false
  end.

Definition dle (a b : dbl) : bool := dlt a b || deq a b.
Definition is_nan (a : dbl) : bool := match a with DNaN => true | _ => false end.

(* a value lies in the closed range [lo,up]; false for NaN *)
Definition in_range (lo up v : dbl) : bool := dle lo v && dle v up.

Lemma dcmp_fin_refl m e : dcmp_fin m e m e = Eq.
Proof. unfold dcmp_fin. apply Z.compare_refl. Qed.

Lemma deq_refl_fin m e : deq (DFin m e) (DFin m e) = true.
Proof. simpl. now rewrite dcmp_fin_refl. Qed.

Lemma in_range_not_nan lo up v : in_range lo up v = true -> is_nan v = false.
Proof. destruct v; simpl; auto. unfold in_range, dle. destruct lo; simpl; discriminate. Qed.

Lemma nan_not_in_range lo up : in_range lo up DNaN = false.
Proof. unfold in_range, dle. destruct lo; reflexivity. Qed.

Lemma dcmp_eq_any m1 e1 m2 e2 g : g <= e1 -> g <= e2 ->
  (dcmp_fin m1 e1 m2 e2 = Eq <-> m1 * 2 ^ (e1 - g) = m2 * 2 ^ (e2 - g)).
Proof.
  intros H1 H2. unfold dcmp_fin. set (e := Z.min e1 e2). rewrite Z.compare_eq_iff.
  replace (e1 - g) with ((e1 - e) + (e - g)) by lia.
  replace (e2 - g) with ((e2 - e) + (e - g)) by lia.
  rewrite !Z.pow_add_r by (unfold e; lia). rewrite !Z.mul_assoc.
  assert (0 < 2 ^ (e - g)) as P by (apply Z.pow_pos_nonneg; unfold e; lia).
  split; intros H.
  - now rewrite H.
  - apply Z.mul_cancel_r in H; auto; lia.
Qed.

Lemma deq_trans a b c : deq a b = true -> deq b c = true -> deq a c = true.
Proof.
  destruct a as [| | |m1 e1], b as [| | |m2 e2], c as [| | |m3 e3]; simpl; try discriminate; auto.
  intros H1 H2.
  destruct (dcmp_fin m1 e1 m2 e2) eqn:E1; try discriminate.
  destruct (dcmp_fin m2 e2 m3 e3) eqn:E2; try discriminate.
  set (g := Z.min (Z.min e1 e2) e3).
  apply (dcmp_eq_any _ _ _ _ g) in E1; try (unfold g; lia).
  apply (dcmp_eq_any _ _ _ _ g) in E2; try (unfold g; lia).
  assert (dcmp_fin m1 e1 m3 e3 = Eq) as E3.
  { apply (dcmp_eq_any _ _ _ _ g); try (unfold g; lia). congruence. }
  now rewrite E3.
Qed.

Lemma deq_refl v : is_nan v = false -> deq v v = true.
Proof. destruct v; simpl; try discriminate; auto. intros _. now rewrite dcmp_fin_refl. Qed.
