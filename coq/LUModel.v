(* LUModel - specification side of the LU factorisation properties C10 / C11 (and of the basis-inverse queries).

   The Markowitz elimination, the Forrest-Tomlin / product-form updates and the hyper-sparse solves of
   CLUFactor / CLUFactorRational are NOT modelled: they are producers of witnesses.  What is modelled is
     - the meaning of the answers:   B x = b   (solveRight),   x^T B = b^T   (solveLeft),  "column k replaced",
     - boolean checkers for every kind of answer, over exact rationals and for every dimension,
     - certificates for the two verdicts: [regular_cert] (a two-sided inverse) and [singular_cert] (a kernel vector),
     - the tolerance version of the residual check with its explicit bound.
   Matrices are lists of columns (as SLUFactor::load takes them); vectors are lists of rationals.
   No proofs in this file. *)
From Coq Require Import List QArith Qabs Bool Arith ZArith.
Import ListNotations.
Local Open Scope Q_scope.

Definition vec := list Q.
Definition mat := list vec.          (* list of COLUMNS *)

(* ---------- vectors ---------- *)
Definition vzero (n : nat) : vec := repeat 0 n.

Fixpoint vadd (x y : vec) : vec :=
  match x, y with
  | a :: x', b :: y' => (a + b) :: vadd x' y'
  | _, _ => []
  end.

Fixpoint vsub (x y : vec) : vec :=
  match x, y with
  | a :: x', b :: y' => (a - b) :: vsub x' y'
  | _, _ => []
  end.

(* Multiplication with the shorter operand first.  Pos.mul / Z.mul recurse on their first argument, so the order decides
   the cost of the extracted code (the checkers multiply ~50-bit by ~1000-bit integers); the value is the same:
   qmul a b = a * b (lemma qmul_eq). *)
Definition zmul_s (a b : Z) : Z :=
  if (Z.log2 (Z.abs a) <=? Z.log2 (Z.abs b))%Z then (a * b)%Z else (b * a)%Z.
Definition pmul_s (p q : positive) : positive :=
  if (Pos.size_nat p <=? Pos.size_nat q)%nat then (p * q)%positive else (q * p)%positive.
Definition qmul (a b : Q) : Q := Qmake (zmul_s (Qnum a) (Qnum b)) (pmul_s (Qden a) (Qden b)).

Definition vscale (a : Q) (v : vec) : vec := map (fun c => qmul a c) v.

Fixpoint dot (x y : vec) : Q :=
  match x, y with
  | a :: x', b :: y' => qmul a b + dot x' y'
  | _, _ => 0
  end.

Fixpoint unit_vec (n k : nat) : vec :=
  match n with
  | O => []
  | S n' => match k with
            | O => 1 :: vzero n'
            | S k' => 0 :: unit_vec n' k'
            end
  end.

(* ---------- matrices (lists of columns), n = number of rows ---------- *)
(* B x = sum_j x_j * column_j *)
Fixpoint mat_vec (n : nat) (B : mat) (x : vec) : vec :=
  match B, x with
  | c :: B', a :: x' => vadd (vscale a c) (mat_vec n B' x')
  | _, _ => vzero n
  end.

(* x^T B : entry j is <x, column_j> *)
Definition vec_mat (x : vec) (B : mat) : vec := map (dot x) B.

(* columns of A*B are A*(columns of B) *)
Definition mat_mul (n : nat) (A B : mat) : mat := map (mat_vec n A) B.

Fixpoint ident (n : nat) : mat :=
  match n with
  | O => []
  | S n' => (1 :: vzero n') :: map (cons 0) (ident n')
  end.

(* the specification of SLUFactor::change(idx, column): replace column k *)
Fixpoint replace_col (B : mat) (k : nat) (v : vec) : mat :=
  match B, k with
  | [], _ => []
  | _ :: B', O => v :: B'
  | c :: B', S k' => c :: replace_col B' k' v
  end.

(* specification state machine: the state is the current matrix *)
Inductive lu_op : Type :=
| OpLoad (B : mat)
| OpChange (k : nat) (v : vec).

Definition lu_step (B : mat) (o : lu_op) : mat :=
  match o with
  | OpLoad B' => B'
  | OpChange k v => replace_col B k v
  end.

Definition lu_run (B : mat) (ops : list lu_op) : mat := fold_left lu_step ops B.

(* ---------- shapes ---------- *)
Definition wf_vec (n : nat) (v : vec) : bool := Nat.eqb (length v) n.
Definition wf_mat (n : nat) (B : mat) : bool := Nat.eqb (length B) n && forallb (wf_vec n) B.

Definition wf_op (n : nat) (o : lu_op) : bool :=
  match o with
  | OpLoad B => wf_mat n B
  | OpChange k v => Nat.ltb k n && wf_vec n v
  end.

(* ---------- exact comparison ---------- *)
Fixpoint veqb (x y : vec) : bool :=
  match x, y with
  | [], [] => true
  | a :: x', b :: y' => Qeq_bool a b && veqb x' y'
  | _, _ => false
  end.

Fixpoint meqb (A B : mat) : bool :=
  match A, B with
  | [], [] => true
  | a :: A', b :: B' => veqb a b && meqb A' B'
  | _, _ => false
  end.

(* ---------- checkers (exact) ---------- *)
Definition check_solve_right (n : nat) (B : mat) (x b : vec) : bool :=
  wf_mat n B && wf_vec n x && veqb (mat_vec n B x) b.

Definition check_solve_left (n : nat) (B : mat) (x b : vec) : bool :=
  wf_mat n B && wf_vec n x && veqb (vec_mat x B) b.

Definition regular_cert (n : nat) (B Binv : mat) : bool :=
  wf_mat n B && wf_mat n Binv &&
  meqb (mat_mul n Binv B) (ident n) && meqb (mat_mul n B Binv) (ident n).

(* the same certificate with the inverse given as an integer-friendly pair: Binv = N / d *)
Definition mscale (a : Q) (A : mat) : mat := map (vscale a) A.
Definition regular_cert_scaled (n : nat) (B N : mat) (d : Q) : bool :=
  negb (Qeq_bool d 0) && wf_mat n B && wf_mat n N &&
  meqb (mat_mul n N B) (mscale d (ident n)) && meqb (mat_mul n B N) (mscale d (ident n)).

Definition singular_cert (n : nat) (B : mat) (v : vec) : bool :=
  wf_mat n B && wf_vec n v && negb (veqb v (vzero n)) && veqb (mat_vec n B v) (vzero n).

(* multi right-hand-side variants: by specification the tuple of the single solves *)
Definition solve2_right_spec (n : nat) (B : mat) (x y b d : vec) : bool :=
  check_solve_right n B x b && check_solve_right n B y d.
Definition solve3_right_spec (n : nat) (B : mat) (x y z b d e : vec) : bool :=
  check_solve_right n B x b && check_solve_right n B y d && check_solve_right n B z e.
Definition solve2_left_spec (n : nat) (B : mat) (x y b d : vec) : bool :=
  check_solve_left n B x b && check_solve_left n B y d.
Definition solve3_left_spec (n : nat) (B : mat) (x y z b d e : vec) : bool :=
  check_solve_left n B x b && check_solve_left n B y d && check_solve_left n B z e.

(* basis-inverse queries: column c / row r of the inverse, as solves with unit vectors *)
Definition check_inverse_col (n : nat) (B : mat) (c : nat) (v : vec) : bool :=
  Nat.ltb c n && check_solve_right n B v (unit_vec n c).
Definition check_inverse_row (n : nat) (B : mat) (r : nat) (v : vec) : bool :=
  Nat.ltb r n && check_solve_left n B v (unit_vec n r).

(* basis matrix of an LP in column form (m rows): bind_i >= 0 selects LP column bind_i, bind_i < 0 the unit
   vector of row -1-bind_i (slack), as SoPlex::getBasisInd documents *)
Definition basis_col (m : nat) (cols : mat) (b : Z) : option vec :=
  if (0 <=? b)%Z then nth_error cols (Z.to_nat b)
  else let r := Z.to_nat (-1 - b) in if Nat.ltb r m then Some (unit_vec m r) else None.

Fixpoint basis_matrix (m : nat) (cols : mat) (bind : list Z) : option mat :=
  match bind with
  | [] => Some []
  | b :: bs => match basis_col m cols b, basis_matrix m cols bs with
               | Some c, Some M => Some (c :: M)
               | _, _ => None
               end
  end.

(* ---------- tolerance version ---------- *)
Definition qmax (a b : Q) : Q := if Qle_bool a b then b else a.
Definition norm_inf (v : vec) : Q := fold_right (fun a m => qmax (Qabs a) m) 0 v.
Definition vsum_abs (v : vec) : Q := fold_right (fun a s => Qabs a + s) 0 v.
Definition abs_mat (B : mat) : mat := map (map Qabs) B.
Definition ones (n : nat) : vec := repeat 1 n.
(* |B|_inf = max row sum ; |B|_1 = max column sum *)
Definition norm_inf_mat (n : nat) (B : mat) : Q := norm_inf (mat_vec n (abs_mat B) (ones (length B))).
Definition norm_one_mat (B : mat) : Q := norm_inf (map vsum_abs B).

Definition residual_right (n : nat) (B : mat) (x b : vec) : vec := vsub (mat_vec n B x) b.
Definition residual_left (B : mat) (x b : vec) : vec := vsub (vec_mat x B) b.

Definition tol_right (n : nat) (B : mat) (x b : vec) (eps : Q) : Q :=
  eps * (norm_inf_mat n B * norm_inf x + norm_inf b).
Definition tol_left (B : mat) (x b : vec) (eps : Q) : Q :=
  eps * (norm_one_mat B * norm_inf x + norm_inf b).

Definition check_residual_right (n : nat) (B : mat) (x b : vec) (eps : Q) : bool :=
  wf_mat n B && wf_vec n x && wf_vec n b &&
  Qle_bool (norm_inf (residual_right n B x b)) (tol_right n B x b eps).

Definition check_residual_left (n : nat) (B : mat) (x b : vec) (eps : Q) : bool :=
  wf_mat n B && wf_vec n x && wf_vec n b &&
  Qle_bool (norm_inf (residual_left B x b)) (tol_left B x b eps).

(* condition number in the infinity norm, given the (certified) inverse *)
Definition cond_inf (n : nat) (B Binv : mat) : Q := norm_inf_mat n B * norm_inf_mat n Binv.

(* two vectors agree up to a relative tolerance (multi-rhs against single solves, computed in floating point) *)
Definition check_close (x y : vec) (eps : Q) : bool :=
  Nat.eqb (length x) (length y) &&
  Qle_bool (norm_inf (vsub x y)) (eps * (norm_inf x + norm_inf y)).

(* ---------- the update protocol of SLUFactor (src/soplex/slufactor.hpp: load, solveRight4update / solve2right4update /
   solve3right4update, change) ----------
   [usetup] says that an update vector has been prepared; the model also remembers (ghost) for which matrix and which column.
     load(B')                 : matrix := B', nothing prepared
     ...4update(col)          : prepares B^-1 col for the CURRENT matrix
     change(k, v, eta)        : eta = nullptr and something prepared -> the prepared vector is used AS B^-1 v;
                                otherwise B^-1 v is taken from eta / computed by the call;  matrix := B with column k
                                replaced; nothing prepared afterwards *)
Inductive p_op : Type :=
| PLoad (B : mat)
| PPrep (v : vec)
| PSolve                        (* any plain solve: no effect on the protocol state *)
| PChange (k : nat) (v : vec) (explicit_eta : bool).

Record pstate := { p_mat : mat; p_prep : option (mat * vec) }.

Definition usetup (s : pstate) : bool := match p_prep s with Some _ => true | None => false end.

Definition p_step (s : pstate) (o : p_op) : pstate :=
  match o with
  | PLoad B' => {| p_mat := B'; p_prep := None |}
  | PPrep v => {| p_mat := p_mat s; p_prep := Some (p_mat s, v) |}
  | PSolve => s
  | PChange k v _ => {| p_mat := replace_col (p_mat s) k v; p_prep := None |}
  end.

Definition p_run (s : pstate) (ops : list p_op) : pstate := fold_left p_step ops s.

(* what a change uses as B^-1 v when it relies on the prepared vector: the solution prepared for (matrix, column) *)
Definition change_uses (s : pstate) (o : p_op) : option (mat * vec) :=
  match o with
  | PChange _ _ false => p_prep s
  | _ => None
  end.

(* the variant in which load() forgets to drop the prepared vector (for the refutation) *)
Definition p_step_stale (s : pstate) (o : p_op) : pstate :=
  match o with
  | PLoad B' => {| p_mat := B'; p_prep := p_prep s |}
  | _ => p_step s o
  end.
