(* C07 - executable model of the pair (floating-point LP, rational LP) of SoPlexBase<double> and of everything that
   keeps them synchronised: the modifiers of the real interface, their rational counterparts (including the GMP
   mpq_t entry points where they behave differently), syncLPReal / syncLPRational, the copy made before an exact
   solve in SYNCMODE_ONLYREAL, setIntParam(SYNCMODE / OBJSENSE), setRealParam(INFTY / OBJ_OFFSET), and the
   bookkeeping of _rowTypes / _colTypes with the two classifiers _rangeTypeReal (threshold soplex::infinity = 1e100)
   and _rangeTypeRational (threshold: INFTY parameter), exactly where the code calls which.

   Both LPs are instances of ONE generic LP (SPxLPBase<R>) over a number type: doubles are exact dyadics m*2^e,
   rationals are Q.  The matrix is kept dense (a list of rows); that the row file and the column file of SPxLPBase
   mirror each other is property C06, not restated here.  A double is only ever copied, negated, compared (through
   its exact value) and converted to Q exactly; the conversion Q -> double is an oracle [rnd] (Section variable) that
   is told which conversion the code performs: the Rational -> double conversion operator or mpq_get_d.
   No proofs in this file. *)
From Coq Require Import ZArith QArith Qabs List Bool Arith.
Import ListNotations.
Local Open Scope nat_scope.

(* ====================================================================================================== numbers *)
Definition dy := (Z * Z)%type.                       (* m * 2^e *)
Definition dzero : dy := (0%Z, 0%Z).
Definition dneg (d : dy) : dy := (- fst d, snd d)%Z.
Definition dnz (d : dy) : bool := negb (fst d =? 0)%Z.          (* C++  d != 0.0 *)
Definition d2q (d : dy) : Q :=
  let (m, e) := d in
  if (0 <=? e)%Z then inject_Z (m * 2 ^ e) else Qmake m (Z.to_pos (2 ^ (- e))).
(* representable as an IEEE-754 binary64 number (normal or subnormal) *)
Definition is_doubleb (d : dy) : bool :=
  let (m, e) := d in (Z.abs m <? 2 ^ 53)%Z && (-1074 <=? e)%Z && (e <=? 971)%Z.

Definition qzero : Q := 0%Q.
Definition qnz (q : Q) : bool := negb (Qnum q =? 0)%Z.
Definition qleb (a b : Q) : bool := Qle_bool a b.
Definition qltb (a b : Q) : bool := negb (Qle_bool b a).

(* soplex::infinity = 1e100 as a double, the default of INFTY and the bound of a default LPColBase / LPRowBase *)
Definition dinf : dy := (5147557589468029%Z, 280%Z).
(* 1e10, the lower bound of the INFTY parameter *)
Definition dinf_lo : dy := (2441406250%Z, 2%Z).
(* default EPSILON_ZERO = 1e-16 *)
Definition deps : dy := (2028240960365167%Z, (-104)%Z).

(* isNotZero(v, epsilon) = |v| > epsilon, on a rational and on a double (through its exact value) *)
Definition keep_q (eps : dy) (q : Q) : bool := qltb (d2q eps) (Qabs q).
Definition keep_r (eps : dy) (d : dy) : bool := keep_q eps (d2q d).

(* ======================================================================================== range types *)
Inductive rtype := TFree | TLower | TUpper | TBoxed | TFixed.

(* _rangeTypeRational with threshold inf (and _rangeTypeReal on exact values with inf = 1e100) *)
Definition classQ (inf : Q) (l u : Q) : rtype :=
  if qleb l (- inf) then (if qleb inf u then TFree else TUpper)
  else if qleb inf u then TLower
  else if Qeq_bool l u then TFixed else TBoxed.
(* _rangeTypeReal; since the fix of changeRow/Col/Range/BoundsReal no call of the two interfaces uses it any more *)
Definition classR (l u : dy) : rtype := classQ (d2q dinf) (d2q l) (d2q u).

(* ====================================================================================================== lists *)
Fixpoint setn {A} (k : nat) (x : A) (l : list A) : list A :=
  match l, k with
  | [], _ => []
  | _ :: t, O => x :: t
  | y :: t, S k' => y :: setn k' x t
  end.

(* DataSet::remove(int): the last element moves into the hole *)
Definition move_last {A} (d : A) (k : nat) (l : list A) : list A :=
  let n := length l - 1 in
  if k =? n then firstn n l else setn k (nth n l d) (firstn n l).

(* remove(int perm[]): stable compaction; only the sign of perm[i] matters (mask = perm[i] >= 0) *)
Fixpoint keepm {A} (mask : list bool) (l : list A) : list A :=
  match mask, l with
  | b :: t, x :: r => if b then x :: keepm t r else keepm t r
  | _, _ => []
  end.
Definition mask_of_perm (perm : list Z) : list bool := map (fun p => (0 <=? p)%Z) perm.
(* SoPlexBase::_idxToPerm / _rangeToPerm *)
Definition idx_to_mask (n : nat) (idx : list nat) : list bool :=
  map (fun i => negb (existsb (Nat.eqb i) idx)) (seq 0 n).
Definition range_to_mask (n a b : nat) : list bool :=
  map (fun i => (i <? a) || (b <? i)) (seq 0 n).

Fixpoint map2 {A B C} (f : A -> B -> C) (l : list A) (r : list B) : list C :=
  match l, r with
  | x :: t, y :: s => f x y :: map2 f t s
  | _, _ => []
  end.

Fixpoint nodupb (l : list nat) : bool :=
  match l with [] => true | x :: t => negb (existsb (Nat.eqb x) t) && nodupb t end.

(* ====================================================================================== the generic LP *)
Section Gen.
  Context {T : Type}.
  Variable tz : T.                (* 0 *)
  Variable tneg : T -> T.         (* x * -1 *)
  Variable tnz : T -> bool.       (* x != 0 *)

  Definition svec := list (nat * T).
  Definition sget (j : nat) (v : svec) : T :=
    match find (fun p => fst p =? j) v with Some p => snd p | None => tz end.
  Definition dense (n : nat) (v : svec) : list T := map (fun j => sget j v) (seq 0 n).
  (* dimension needed by the nonzeros of v (exact zeros are dropped by SVectorBase::operator= / add) *)
  Definition vdim (v : svec) : nat :=
    fold_right (fun p a => if tnz (snd p) then Nat.max (S (fst p)) a else a) 0 v.

  Record lp := mkLP {
    lhs : list T; rhs : list T;
    mobj : list T;              (* as stored: maxObj (negated when the sense of the LP is MINIMIZE) *)
    lo : list T; up : list T;
    mat : list (list T);        (* rows *)
    lmax : bool;                (* thesense = MAXIMIZE *)
    off : T                     (* objective offset *)
  }.
  Definition nrows (l : lp) : nat := length (lhs l).
  Definition ncols (l : lp) : nat := length (lo l).
  (* a new SPxLPBase / SPxLPBase::clear(): no rows, no columns, MAXIMIZE, offset 0 *)
  Definition empty_lp : lp := mkLP [] [] [] [] [] [] true tz.
  Definition sgn (mx : bool) (x : T) : T := if mx then x else tneg x.
  Definition uobj (l : lp) : list T := map (sgn (lmax l)) (mobj l).

  Definition rowspec := (T * T * svec)%type.        (* lhs, rhs, row vector *)
  Definition colspec := (T * T * T * svec)%type.    (* objective (user sense), lower, upper, column vector *)

  (* the calls of SPxLPBase<R> that the SoPlex interface uses; [tinf] is R(infinity) of that LP *)
  Inductive prim :=
  | PAddRow (r : rowspec) | PAddCol (c : colspec)
  | PChgRow (i : nat) (r : rowspec) | PChgCol (j : nat) (c : colspec)
  | PLhs (i : nat) (x : T) | PRhs (i : nat) (x : T) | PLo (j : nat) (x : T) | PUp (j : nat) (x : T)
  | PObj (j : nat) (x : T)                       (* user sense *)
  | PLhsV (xs : list T) | PRhsV (xs : list T) | PLoV (xs : list T) | PUpV (xs : list T) | PObjV (xs : list T)
  | PElem (i j : nat) (x : T)                    (* after the decision "store x or delete the entry" *)
  | PRemRow (i : nat) | PRemCol (j : nat) | PRemRows (mask : list bool) | PRemCols (mask : list bool)
  | PClear | PSense (mx : bool) | POff (x : T).

  Variable tinf : T.

  Definition papply (p : prim) (l : lp) : lp :=
    match p with
    | PAddRow (a, b, v) =>
      (* doAddRow: missing columns are created as default LPColBase: objective 0, bounds [0, infinity) *)
      let n := ncols l in
      let g := vdim v - n in
      mkLP (lhs l ++ [a]) (rhs l ++ [b])
           (mobj l ++ repeat tz g) (lo l ++ repeat tz g) (up l ++ repeat tinf g)
           (map (fun r => r ++ repeat tz g) (mat l) ++ [dense (n + g) v]) (lmax l) (off l)
    | PAddCol (o, a, b, v) =>
      (* doAddCol: missing rows are created as default LPRowBase: 0 <= . <= infinity, empty *)
      let m := nrows l in
      let g := vdim v - m in
      mkLP (lhs l ++ repeat tz g) (rhs l ++ repeat tinf g)
           (mobj l ++ [sgn (lmax l) o]) (lo l ++ [a]) (up l ++ [b])
           (map2 (fun r x => r ++ [x]) (mat l ++ repeat (repeat tz (ncols l)) g) (dense (m + g) v))
           (lmax l) (off l)
    | PChgRow i (a, b, v) =>
      mkLP (setn i a (lhs l)) (setn i b (rhs l)) (mobj l) (lo l) (up l)
           (setn i (dense (ncols l) v) (mat l)) (lmax l) (off l)
    | PChgCol j (o, a, b, v) =>
      mkLP (lhs l) (rhs l) (setn j (sgn (lmax l) o) (mobj l)) (setn j a (lo l)) (setn j b (up l))
           (map2 (fun r x => setn j x r) (mat l) (dense (nrows l) v)) (lmax l) (off l)
    | PLhs i x => mkLP (setn i x (lhs l)) (rhs l) (mobj l) (lo l) (up l) (mat l) (lmax l) (off l)
    | PRhs i x => mkLP (lhs l) (setn i x (rhs l)) (mobj l) (lo l) (up l) (mat l) (lmax l) (off l)
    | PLo j x => mkLP (lhs l) (rhs l) (mobj l) (setn j x (lo l)) (up l) (mat l) (lmax l) (off l)
    | PUp j x => mkLP (lhs l) (rhs l) (mobj l) (lo l) (setn j x (up l)) (mat l) (lmax l) (off l)
    | PObj j x => mkLP (lhs l) (rhs l) (setn j (sgn (lmax l) x) (mobj l)) (lo l) (up l) (mat l) (lmax l) (off l)
    | PLhsV xs => mkLP xs (rhs l) (mobj l) (lo l) (up l) (mat l) (lmax l) (off l)
    | PRhsV xs => mkLP (lhs l) xs (mobj l) (lo l) (up l) (mat l) (lmax l) (off l)
    | PLoV xs => mkLP (lhs l) (rhs l) (mobj l) xs (up l) (mat l) (lmax l) (off l)
    | PUpV xs => mkLP (lhs l) (rhs l) (mobj l) (lo l) xs (mat l) (lmax l) (off l)
    | PObjV xs => mkLP (lhs l) (rhs l) (map (sgn (lmax l)) xs) (lo l) (up l) (mat l) (lmax l) (off l)
    | PElem i j x =>
      mkLP (lhs l) (rhs l) (mobj l) (lo l) (up l) (setn i (setn j x (nth i (mat l) [])) (mat l)) (lmax l) (off l)
    | PRemRow i =>
      mkLP (move_last tz i (lhs l)) (move_last tz i (rhs l)) (mobj l) (lo l) (up l)
           (move_last [] i (mat l)) (lmax l) (off l)
    | PRemCol j =>
      mkLP (lhs l) (rhs l) (move_last tz j (mobj l)) (move_last tz j (lo l)) (move_last tz j (up l))
           (map (move_last tz j) (mat l)) (lmax l) (off l)
    | PRemRows mask =>
      mkLP (keepm mask (lhs l)) (keepm mask (rhs l)) (mobj l) (lo l) (up l) (keepm mask (mat l)) (lmax l) (off l)
    | PRemCols mask =>
      mkLP (lhs l) (rhs l) (keepm mask (mobj l)) (keepm mask (lo l)) (keepm mask (up l))
           (map (keepm mask) (mat l)) (lmax l) (off l)
    | PClear => empty_lp
    | PSense mx =>
      mkLP (lhs l) (rhs l) (if Bool.eqb mx (lmax l) then mobj l else map tneg (mobj l)) (lo l) (up l) (mat l)
           mx (off l)
    | POff x => mkLP (lhs l) (rhs l) (mobj l) (lo l) (up l) (mat l) (lmax l) x
    end.

  Definition papplys (ps : list prim) (l : lp) : lp := fold_left (fun l p => papply p l) ps l.

  (* is the call inside the documented domain for an LP with m rows and n columns? *)
  Definition svec_ok (bound : option nat) (v : svec) : bool :=
    nodupb (map fst v) && match bound with Some n => forallb (fun p => fst p <? n) v | None => true end.
  Definition prim_ok (m n : nat) (p : prim) : bool :=
    match p with
    | PAddRow (_, _, v) | PAddCol (_, _, _, v) => svec_ok None v
    | PChgRow i (_, _, v) => (i <? m) && svec_ok (Some n) v
    | PChgCol j (_, _, _, v) => (j <? n) && svec_ok (Some m) v
    | PLhs i _ | PRhs i _ | PRemRow i => i <? m
    | PLo j _ | PUp j _ | PObj j _ | PRemCol j => j <? n
    | PLhsV xs | PRhsV xs => length xs =? m
    | PLoV xs | PUpV xs | PObjV xs => length xs =? n
    | PElem i j _ => (i <? m) && (j <? n)
    | PRemRows mask => length mask =? m
    | PRemCols mask => length mask =? n
    | PClear | PSense _ | POff _ => true
    end.
End Gen.
Arguments lp : clear implicits.
Arguments prim : clear implicits.
Arguments svec : clear implicits.
Arguments rowspec : clear implicits.
Arguments colspec : clear implicits.

(* conversion of a whole LP / of the arguments of a call *)
Definition lp_map {A B} (f : A -> B) (l : lp A) : lp B :=
  mkLP (map f (lhs l)) (map f (rhs l)) (map f (mobj l)) (map f (lo l)) (map f (up l)) (map (map f) (mat l))
       (lmax l) (f (off l)).
Definition svec_map {A B} (f : A -> B) (v : svec A) : svec B := map (fun p => (fst p, f (snd p))) v.
Definition prim_map {A B} (f : A -> B) (p : prim A) : prim B :=
  match p with
  | PAddRow (a, b, v) => PAddRow (f a, f b, svec_map f v)
  | PAddCol (o, a, b, v) => PAddCol (f o, f a, f b, svec_map f v)
  | PChgRow i (a, b, v) => PChgRow i (f a, f b, svec_map f v)
  | PChgCol j (o, a, b, v) => PChgCol j (f o, f a, f b, svec_map f v)
  | PLhs i x => PLhs i (f x) | PRhs i x => PRhs i (f x) | PLo j x => PLo j (f x) | PUp j x => PUp j (f x)
  | PObj j x => PObj j (f x)
  | PLhsV xs => PLhsV (map f xs) | PRhsV xs => PRhsV (map f xs) | PLoV xs => PLoV (map f xs)
  | PUpV xs => PUpV (map f xs) | PObjV xs => PObjV (map f xs)
  | PElem i j x => PElem i j (f x)
  | PRemRow i => PRemRow i | PRemCol j => PRemCol j | PRemRows m => PRemRows m | PRemCols m => PRemCols m
  | PClear => PClear | PSense mx => PSense mx | POff x => POff (f x)
  end.

(* the two instances *)
Definition rlp := lp dy.
Definition qlp := lp Q.
Definition rapply : prim dy -> rlp -> rlp := papply dzero dneg dnz dinf.
Definition qapply : prim Q -> qlp -> qlp := papply qzero Qopp qnz (d2q dinf).
(* the same calls where every index of the argument vector counts for the implicit creation of columns / rows: the real
   LP in addRowRational / addColRational(const mpq_t pointers), where doAddRow / doAddCol(value, vector, value) create the
   missing columns / rows from the indices of the converted vector, which keeps entries whose double image is 0.0 *)
Definition rapply_all : prim dy -> rlp -> rlp := papply dzero dneg (fun _ => true) dinf.
Definition applys {T} (ap : prim T -> lp T -> lp T) (ps : list (prim T)) (l : lp T) : lp T :=
  fold_left (fun l p => ap p l) ps l.
Definition rapplys := applys rapply.
Definition qapplys := applys qapply.

(* ========================================================================= type arrays (_rowTypes, _colTypes) *)
Definition class_rows (inf : Q) (q : qlp) : list rtype := map2 (classQ inf) (lhs q) (rhs q).
Definition class_cols (inf : Q) (q : qlp) : list rtype := map2 (classQ inf) (lo q) (up q).
(* _completeRangeTypesRational: append the types of the elements beyond the current size of the array *)
Definition complete (full tys : list rtype) : list rtype := tys ++ skipn (length tys) full.
(* for (i = 0; i < dim; i++) tys[i] = full[i] *)
Definition overwrite (full tys : list rtype) : list rtype := full ++ skipn (length full) tys.
(* removeRow(i): tys[i] = tys[newdim] unless the last one was removed; reSize(newdim) *)
Definition ty_remove (i newdim : nat) (tys : list rtype) : list rtype :=
  firstn newdim (if i <? newdim then setn i (nth newdim tys TFree) tys else tys).
(* removeRows(perm): tys[perm[i]] = tys[i] for the survivors in ascending order; reSize(newdim) *)
Definition ty_compact (mask : list bool) (tys : list rtype) : list rtype := keepm mask tys.

(* ====================================================================================== the solver object *)
Inductive smode := OnlyReal | Auto | Manual.
(* which Rational -> double conversion the code performs *)
Inductive rkind := RConv      (* the conversion operator of Rational: R(x), VectorBase<R>(v), operator= *)
                 | RGetD.     (* mpq_get_d *)

Record state := mkSt {
  rl : rlp;                      (* _realLP *)
  ql : option qlp;               (* _rationalLP (nullptr in SYNCMODE_ONLYREAL until an exact solve) *)
  rty : list rtype;              (* _rowTypes *)
  cty : list rtype;              (* _colTypes *)
  mode : smode;                  (* SYNCMODE *)
  pinf : dy;                     (* INFTY parameter; _rationalPosInfty = its exact value *)
  pmax : bool;                   (* OBJSENSE parameter = MAXIMIZE *)
  eps : dy                       (* EPSILON_ZERO *)
}.

(* new SoPlex object: SYNCMODE_ONLYREAL, OBJSENSE_MAXIMIZE, INFTY = 1e100 *)
Definition init : state := mkSt (empty_lp dzero) None [] [] OnlyReal dinf true deps.

(* calls of the real interface *)
Inductive rop :=
| RAddRow (r : rowspec dy) | RAddRows (rs : list (rowspec dy)) | RAddCol (c : colspec dy) | RAddCols (cs : list (colspec dy))
| RChgRow (i : nat) (r : rowspec dy) | RChgCol (j : nat) (c : colspec dy)
| RLhs (i : nat) (x : dy) | RLhsV (xs : list dy) | RRhs (i : nat) (x : dy) | RRhsV (xs : list dy)
| RRange (i : nat) (a b : dy) | RRangeV (a b : list dy)
| RLo (j : nat) (x : dy) | RLoV (xs : list dy) | RUp (j : nat) (x : dy) | RUpV (xs : list dy)
| RBnd (j : nat) (a b : dy) | RBndV (a b : list dy)
| RObj (j : nat) (x : dy) | RObjV (xs : list dy)
| RElem (i j : nat) (x : dy)
| RRemRow (i : nat) | RRemCol (j : nat)
| RRemRows (perm : list Z) | RRemCols (perm : list Z)
| RRemRowsIdx (idx : list nat) | RRemColsIdx (idx : list nat)
| RRemRowRange (a b : nat) | RRemColRange (a b : nat)
| RClear.

(* calls of the rational interface; [g] = through the GMP (mpq_t) entry point where that is a different function.
   The GMP variants of changeLhs/Range/Lower/Upper/Bounds/Obj and addRow read the value back from the rational LP
   before rounding it, which is the value just written: they are the same transition as the Rational& variant. *)
Inductive qop :=
| QAddRow (g : bool) (r : rowspec Q) | QAddRows (g : bool) (rs : list (rowspec Q))
| QAddCol (g : bool) (c : colspec Q) | QAddCols (g : bool) (cs : list (colspec Q))
| QChgRow (i : nat) (r : rowspec Q) | QChgCol (j : nat) (c : colspec Q)
| QLhs (i : nat) (x : Q) | QLhsV (xs : list Q) | QRhs (i : nat) (x : Q) | QRhsV (xs : list Q)
| GRhsV (xs : list Q)                            (* changeRhsRational(const mpq_t*, int rhsSize) *)
| QRange (i : nat) (a b : Q) | QRangeV (a b : list Q)
| QLo (j : nat) (x : Q) | QLoV (xs : list Q) | QUp (j : nat) (x : Q) | QUpV (xs : list Q)
| QBnd (j : nat) (a b : Q) | QBndV (a b : list Q)
| QObj (j : nat) (x : Q) | QObjV (xs : list Q)
| QElem (g : bool) (i j : nat) (x : Q)
| QRemRow (i : nat) | QRemCol (j : nat)
| QRemRows (perm : list Z) | QRemCols (perm : list Z)
| QRemRowsIdx (idx : list nat) | QRemColsIdx (idx : list nat)
| QRemRowRange (a b : nat) | QRemColRange (a b : nat)
| QClear.

Inductive op :=
| OR (o : rop) | OQ (o : qop)
| SyncReal                       (* syncLPReal() *)
| SyncRat                        (* syncLPRational() *)
| ExactSolveSync                 (* what optimize() does first for an exact solve: _syncLPRational() in ONLYREAL *)
| SetMode (m : smode)            (* setIntParam(SYNCMODE, m) *)
| SetInfty (v : dy)              (* setRealParam(INFTY, v) *)
| SetSense (mx : bool)           (* setIntParam(OBJSENSE, .) *)
| SetOffset (v : dy).            (* setRealParam(OBJ_OFFSET, v) *)

(* how the arrays of types are maintained by a call, given the rational LP after the call *)
Inductive tyupd :=
| TNone
| TComplete                                      (* _completeRangeTypesRational *)
| TRowSet (i : nat) (t : rtype) | TColSet (j : nat) (t : rtype)     (* tys[i] = t; then complete *)
| TRowAtC (i : nat) | TColAtC (j : nat)                             (* tys[i] = classify(rational LP, i); then complete *)
| TRowAt (i : nat) | TColAt (j : nat)                               (* tys[i] = classify(rational LP, i) *)
| TRowsPrefix (k : nat)                                            (* for i < k: tys[i] = classify(rational LP, i) *)
| TRowsAll | TColsAll                                               (* for i < dim *)
| TRemRow (i : nat) | TRemCol (j : nat) | TRemRows (mask : list bool) | TRemCols (mask : list bool)
| TClear.

Definition ty_apply (inf : Q) (q : qlp) (u : tyupd) (tys : list rtype * list rtype) : list rtype * list rtype :=
  let (r, c) := tys in
  let fr := class_rows inf q in
  let fc := class_cols inf q in
  match u with
  | TNone => (r, c)
  | TComplete => (complete fr r, complete fc c)
  | TRowSet i t => (complete fr (setn i t r), complete fc c)
  | TColSet j t => (complete fr r, complete fc (setn j t c))
  | TRowAtC i => (complete fr (setn i (nth i fr TFree) r), complete fc c)
  | TColAtC j => (complete fr r, complete fc (setn j (nth j fc TFree) c))
  | TRowAt i => (setn i (nth i fr TFree) r, c)
  | TColAt j => (r, setn j (nth j fc TFree) c)
  | TRowsPrefix k => (overwrite (firstn k fr) r, c)
  | TRowsAll => (overwrite fr r, c)
  | TColsAll => (r, overwrite fc c)
  | TRemRow i => (ty_remove i (nrows q) r, c)
  | TRemCol j => (r, ty_remove j (ncols q) c)
  | TRemRows mask => (ty_compact mask r, c)
  | TRemCols mask => (r, ty_compact mask c)
  | TClear => ([], [])
  end.

Section Model.
  Variable rnd : rkind -> Q -> dy.

  (* ---------- the real interface: the calls on the real LP ... *)
  Definition elem_r (e : dy) (x : dy) : dy := if keep_r e x then x else dzero.
  Definition rprims (e : dy) (pm : bool) (m n : nat) (o : rop) : list (prim dy) :=
    match o with
    | RAddRow r => [PAddRow r] | RAddRows rs => map PAddRow rs
    | RAddCol c => [PAddCol c] | RAddCols cs => map PAddCol cs
    | RChgRow i r => [PChgRow i r] | RChgCol j c => [PChgCol j c]
    | RLhs i x => [PLhs i x] | RLhsV xs => [PLhsV xs] | RRhs i x => [PRhs i x] | RRhsV xs => [PRhsV xs]
    | RRange i a b => [PLhs i a; PRhs i b] | RRangeV a b => [PLhsV a; PRhsV b]
    | RLo j x => [PLo j x] | RLoV xs => [PLoV xs] | RUp j x => [PUp j x] | RUpV xs => [PUpV xs]
    | RBnd j a b => [PLo j a; PUp j b] | RBndV a b => [PLoV a; PUpV b]
    | RObj j x => [PObj j x] | RObjV xs => [PObjV xs]
    | RElem i j x => [PElem i j (elem_r e x)]
    | RRemRow i => [PRemRow i] | RRemCol j => [PRemCol j]
    | RRemRows perm => [PRemRows (mask_of_perm perm)] | RRemCols perm => [PRemCols (mask_of_perm perm)]
    | RRemRowsIdx idx => [PRemRows (idx_to_mask m idx)] | RRemColsIdx idx => [PRemCols (idx_to_mask n idx)]
    | RRemRowRange a b => [PRemRows (range_to_mask m a b)] | RRemColRange a b => [PRemCols (range_to_mask n a b)]
    (* clearLPReal / clearLPRational: SPxLPBase::clear() resets the sense to MAXIMIZE, the OBJSENSE parameter is re-applied *)
    | RClear => [PClear; PSense pm]
    end.
  (* ... and, in SYNCMODE_AUTO, the update of the type arrays that follows the same calls on the rational LP
     (with every double converted exactly) *)
  Definition rtyupd (m n : nat) (o : rop) : tyupd :=
    match o with
    | RAddRow _ | RAddRows _ | RAddCol _ | RAddCols _ => TComplete
    | RChgRow i _ => TRowAtC i                                   (* _rangeTypeRational(rational lhs(i), rhs(i)); complete *)
    | RChgCol j _ => TColAtC j
    | RLhs i _ | RRhs i _ | RRange i _ _ => TRowAt i
    | RLhsV _ | RRhsV _ | RRangeV _ _ => TRowsAll
    | RLo j _ | RUp j _ | RBnd j _ _ => TColAt j
    | RLoV _ | RUpV _ | RBndV _ _ => TColsAll
    | RObj _ _ | RObjV _ | RElem _ _ _ => TNone
    | RRemRow i => TRemRow i | RRemCol j => TRemCol j
    | RRemRows perm => TRemRows (mask_of_perm perm) | RRemCols perm => TRemCols (mask_of_perm perm)
    | RRemRowsIdx idx => TRemRows (idx_to_mask m idx) | RRemColsIdx idx => TRemCols (idx_to_mask n idx)
    | RRemRowRange a b => TRemRows (range_to_mask m a b) | RRemColRange a b => TRemCols (range_to_mask n a b)
    | RClear => TClear
    end.

  (* ---------- the rational interface: the calls on the rational LP ... *)
  Definition elem_q (e : dy) (g : bool) (x : Q) : Q :=
    if g then (if qnz x then x else qzero)                       (* mpq_sgn of the value is not 0 *)
    else (if keep_q e x then x else qzero).                      (* isNotZero(val, epsilon) *)
  Definition qprims (e : dy) (pm : bool) (m n : nat) (q : qlp) (o : qop) : list (prim Q) :=
    match o with
    | QAddRow _ r => [PAddRow r] | QAddRows _ rs => map PAddRow rs
    | QAddCol _ c => [PAddCol c] | QAddCols _ cs => map PAddCol cs
    | QChgRow i r => [PChgRow i r] | QChgCol j c => [PChgCol j c]
    | QLhs i x => [PLhs i x] | QLhsV xs => [PLhsV xs] | QRhs i x => [PRhs i x] | QRhsV xs => [PRhsV xs]
    | GRhsV xs => [PRhsV (xs ++ skipn (length xs) (rhs q))]
    | QRange i a b => [PLhs i a; PRhs i b] | QRangeV a b => [PLhsV a; PRhsV b]
    | QLo j x => [PLo j x] | QLoV xs => [PLoV xs] | QUp j x => [PUp j x] | QUpV xs => [PUpV xs]
    | QBnd j a b => [PLo j a; PUp j b] | QBndV a b => [PLoV a; PUpV b]
    | QObj j x => [PObj j x] | QObjV xs => [PObjV xs]
    | QElem g i j x => [PElem i j (elem_q e g x)]
    | QRemRow i => [PRemRow i] | QRemCol j => [PRemCol j]
    | QRemRows perm => [PRemRows (mask_of_perm perm)] | QRemCols perm => [PRemCols (mask_of_perm perm)]
    | QRemRowsIdx idx => [PRemRows (idx_to_mask m idx)] | QRemColsIdx idx => [PRemCols (idx_to_mask n idx)]
    | QRemRowRange a b => [PRemRows (range_to_mask m a b)] | QRemColRange a b => [PRemCols (range_to_mask n a b)]
    | QClear => [PClear; PSense pm]
    end.
  Definition qtyupd (inf : Q) (m n : nat) (o : qop) : tyupd :=
    match o with
    | QAddRow _ _ | QAddRows _ _ | QAddCol _ _ | QAddCols _ _ => TComplete
    (* changeRowRational / changeColRational: tys[i] = _rangeTypeRational(lprow.lhs(), lprow.rhs()); complete *)
    | QChgRow i (a, b, _) => TRowSet i (classQ inf a b)
    | QChgCol j (_, a, b, _) => TColSet j (classQ inf a b)
    | QLhs i _ | QRhs i _ | QRange i _ _ => TRowAt i
    | QLhsV _ | QRhsV _ | QRangeV _ _ => TRowsAll
    | GRhsV xs => TRowsPrefix (length xs)
    | QLo j _ | QUp j _ | QBnd j _ _ => TColAt j
    | QLoV _ | QUpV _ | QBndV _ _ => TColsAll
    | QObj _ _ | QObjV _ | QElem _ _ _ _ => TNone
    | QRemRow i => TRemRow i | QRemCol j => TRemCol j
    | QRemRows perm => TRemRows (mask_of_perm perm) | QRemCols perm => TRemCols (mask_of_perm perm)
    | QRemRowsIdx idx => TRemRows (idx_to_mask m idx) | QRemColsIdx idx => TRemCols (idx_to_mask n idx)
    | QRemRowRange a b => TRemRows (range_to_mask m a b) | QRemColRange a b => TRemCols (range_to_mask n a b)
    | QClear => TClear
    end.

  (* ... and, in SYNCMODE_AUTO, the calls on the real LP with the rounded arguments.  [q'] is the rational LP after
     the call, [pm] the OBJSENSE parameter *)
  (* DSVectorRational::add drops exact zeros *)
  Definition sclean_q (v : svec Q) : svec Q := filter (fun p => qnz (snd p)) v.
  Definition rs_clean (r : rowspec Q) : rowspec Q := let '(a, b, v) := r in (a, b, sclean_q v).
  Definition cs_clean (c : colspec Q) : colspec Q := let '(o, a, b, v) := c in (o, a, b, sclean_q v).
  Definition rs_rnd (r : rowspec Q) : rowspec dy := let '(a, b, v) := r in (rnd RConv a, rnd RConv b, svec_map (rnd RConv) v).
  Definition cs_rnd (c : colspec Q) : colspec dy :=
    let '(o, a, b, v) := c in (rnd RConv o, rnd RConv a, rnd RConv b, svec_map (rnd RConv) v).
  (* addColRational(const mpq_t* ...): the objective handed to the real LP is
     R(maxObjRational(i)) * (OBJSENSE parameter == MAXIMIZE ? 1.0 : -1.0) *)
  Definition cs_rnd_g (qmax pm : bool) (c : colspec Q) : colspec dy :=
    let '(o, a, b, v) := c in
    (sgn dneg pm (rnd RConv (sgn Qopp qmax o)), rnd RConv a, rnd RConv b, svec_map (rnd RConv) v).
  Definition qrprims (e : dy) (m n : nat) (q' : qlp) (pm : bool) (o : qop) : list (prim dy) :=
    match o with
    | QAddRow false r => [PAddRow (rs_rnd r)]
    (* the stored rational row (exact zeros of the arrays are not stored), converted entry by entry *)
    | QAddRow true r => [PAddRow (rs_rnd (rs_clean r))]
    | QAddRows _ rs => map (fun r => PAddRow (rs_rnd r)) rs
    | QAddCol false c => [PAddCol (cs_rnd c)]
    | QAddCols false cs => map (fun c => PAddCol (cs_rnd c)) cs
    | QAddCol true c => [PAddCol (cs_rnd_g (lmax q') pm (cs_clean c))]
    | QAddCols true cs => map (fun c => PAddCol (cs_rnd_g (lmax q') pm c)) cs
    | QChgRow i r => [PChgRow i (rs_rnd r)] | QChgCol j c => [PChgCol j (cs_rnd c)]
    | QLhs i x => [PLhs i (rnd RConv x)] | QLhsV xs => [PLhsV (map (rnd RConv) xs)]
    | QRhs i x => [PRhs i (rnd RConv x)] | QRhsV xs => [PRhsV (map (rnd RConv) xs)]
    | GRhsV _ => [PRhsV (map (rnd RConv) (rhs q'))]            (* _changeRhsReal(VectorBase<R>(rhsRational())) *)
    | QRange i a b => [PLhs i (rnd RConv a); PRhs i (rnd RConv b)]
    | QRangeV a b => [PLhsV (map (rnd RConv) a); PRhsV (map (rnd RConv) b)]
    | QLo j x => [PLo j (rnd RConv x)] | QLoV xs => [PLoV (map (rnd RConv) xs)]
    | QUp j x => [PUp j (rnd RConv x)] | QUpV xs => [PUpV (map (rnd RConv) xs)]
    | QBnd j a b => [PLo j (rnd RConv a); PUp j (rnd RConv b)]
    | QBndV a b => [PLoV (map (rnd RConv) a); PUpV (map (rnd RConv) b)]
    | QObj j x => [PObj j (rnd RConv x)] | QObjV xs => [PObjV (map (rnd RConv) xs)]
    | QElem g i j x => [PElem i j (elem_r e (rnd (if g then RGetD else RConv) x))]
    | QRemRow i => [PRemRow i] | QRemCol j => [PRemCol j]
    | QRemRows perm => [PRemRows (mask_of_perm perm)] | QRemCols perm => [PRemCols (mask_of_perm perm)]
    | QRemRowsIdx idx => [PRemRows (idx_to_mask m idx)] | QRemColsIdx idx => [PRemCols (idx_to_mask n idx)]
    | QRemRowRange a b => [PRemRows (range_to_mask m a b)] | QRemColRange a b => [PRemCols (range_to_mask n a b)]
    | QClear => [PClear; PSense pm]
    end.

  (* ---------- _syncLPRational / _recomputeRangeTypesRational / _syncLPReal *)
  Definition sync_rat (s : state) : state :=
    let q := lp_map d2q (rl s) in
    mkSt (rl s) (Some q) (class_rows (d2q (pinf s)) q) (class_cols (d2q (pinf s)) q) (mode s) (pinf s) (pmax s) (eps s).
  Definition sync_real (s : state) : state :=
    match ql s with
    | Some q => mkSt (lp_map (rnd RConv) q) (ql s) (rty s) (cty s) (mode s) (pinf s) (pmax s) (eps s)
    | None => s
    end.

  (* every entry point stores the rational vectors without exact zeros and creates missing columns / rows for the
     stored entries only *)
  Definition qap_of (o : qop) : prim Q -> qlp -> qlp := qapply.
  Definition rap_of (o : qop) : prim dy -> rlp -> rlp :=
    match o with
    | QAddRow true _ | QAddCol true _ => rapply_all      (* doAddRow / doAddCol(value, vector, value): the argument's indices *)
    | _ => rapply
    end.

  Definition with_lps (s : state) (r : rlp) (q : option qlp) (t : list rtype * list rtype) : state :=
    mkSt r q (fst t) (snd t) (mode s) (pinf s) (pmax s) (eps s).

  Definition step (s : state) (o : op) : state :=
    let inf := d2q (pinf s) in
    match o with
    | OR ro =>
      let m := nrows (rl s) in let n := ncols (rl s) in
      let ps := rprims (eps s) (pmax s) m n ro in
      let r' := rapplys ps (rl s) in
      match mode s, ql s with
      | Auto, Some q =>
        (* the rational LP receives the same calls with the doubles converted exactly; changeElement decides on
           the converted value with the same epsilon *)
        let q' := qapplys (map (prim_map d2q) ps) q in
        with_lps s r' (Some q') (ty_apply inf q' (rtyupd m n ro) (rty s, cty s))
      | _, _ => with_lps s r' (ql s) (rty s, cty s)
      end
    | OQ qo =>
      match mode s, ql s with
      | OnlyReal, Some q =>
        (* every call returns at once, except clearLPRational, which has no such test *)
        match qo with
        | QClear => with_lps s (rl s) (Some (qapply (PSense (pmax s)) (empty_lp qzero))) ([], [])
        | _ => s
        end
      | OnlyReal, None => s
      | md, Some q =>
        let m := nrows q in let n := ncols q in
        let q' := applys (qap_of qo) (qprims (eps s) (pmax s) m n q qo) q in
        let t' := ty_apply inf q' (qtyupd inf m n qo) (rty s, cty s) in
        match md with
        | Auto => with_lps s (applys (rap_of qo) (qrprims (eps s) m n q' (pmax s) qo) (rl s)) (Some q') t'
        | _ => with_lps s (rl s) (Some q') t'
        end
      | _, None => s
      end
    | SyncReal => match mode s with Manual => sync_real s | _ => s end
    | SyncRat => match mode s with Manual => sync_rat s | _ => s end
    | ExactSolveSync => match mode s with OnlyReal => sync_rat s | _ => s end
    | SetMode md =>
      let s' :=
        match md with
        | OnlyReal => mkSt (rl s) None (rty s) (cty s) (mode s) (pinf s) (pmax s) (eps s)
        | Auto => match mode s with OnlyReal => sync_rat s | _ => s end
        | Manual =>
          (* _ensureRationalLP, then the sense of the real LP is copied *)
          let q := match ql s with Some q => q | None => empty_lp qzero end in
          let q' := qapply (PSense (lmax (rl s))) q in
          (* coming from ONLYREAL the type arrays are recomputed (_recomputeRangeTypesRational) *)
          let t := match mode s with
                   | OnlyReal => (class_rows inf q', class_cols inf q')
                   | _ => (rty s, cty s)
                   end in
          mkSt (rl s) (Some q') (fst t) (snd t) (mode s) (pinf s) (pmax s) (eps s)
        end in
      mkSt (rl s') (ql s') (rty s') (cty s') md (pinf s') (pmax s') (eps s')
    | SetInfty v =>
      if qleb (d2q dinf_lo) (d2q v) && qleb (d2q v) (d2q dinf) then
        match mode s, ql s with
        | OnlyReal, _ | _, None => mkSt (rl s) (ql s) (rty s) (cty s) (mode s) v (pmax s) (eps s)
        | _, Some q => mkSt (rl s) (ql s) (class_rows (d2q v) q) (class_cols (d2q v) q) (mode s) v (pmax s) (eps s)
        end
      else s
    | SetSense mx =>
      mkSt (rapply (PSense mx) (rl s)) (option_map (qapply (PSense mx)) (ql s)) (rty s) (cty s) (mode s) (pinf s) mx (eps s)
    | SetOffset v =>
      if qleb (- d2q dinf) (d2q v) && qleb (d2q v) (d2q dinf) then
        mkSt (rapply (POff v) (rl s)) (option_map (qapply (POff (d2q v))) (ql s)) (rty s) (cty s) (mode s) (pinf s) (pmax s) (eps s)
      else s
    end.

  Definition run (s : state) (ops : list op) : state := fold_left step ops s.

  (* ---------- the documented domain of every call, in the state in which it is made *)
  Definition dy_ok := is_doubleb.
  Definition svec_dy_ok (v : svec dy) : bool := forallb (fun p => dy_ok (snd p)) v.
  Definition prim_dy_ok (p : prim dy) : bool :=
    match p with
    | PAddRow (a, b, v) | PChgRow _ (a, b, v) => dy_ok a && dy_ok b && svec_dy_ok v
    | PAddCol (o, a, b, v) | PChgCol _ (o, a, b, v) => dy_ok o && dy_ok a && dy_ok b && svec_dy_ok v
    | PLhs _ x | PRhs _ x | PLo _ x | PUp _ x | PObj _ x | PElem _ _ x | POff x => dy_ok x
    | PLhsV xs | PRhsV xs | PLoV xs | PUpV xs | PObjV xs => forallb dy_ok xs
    | _ => true
    end.
  (* every primitive call of a sequence is in the domain of the LP it meets *)
  Fixpoint prims_ok {T} (ap : prim T -> lp T -> lp T) (ps : list (prim T)) (l : lp T) : bool :=
    match ps with
    | [] => true
    | p :: t => prim_ok (nrows l) (ncols l) p && prims_ok ap t (ap p l)
    end.
  Definition rprims_ok := prims_ok rapply.
  Definition qprims_ok := prims_ok qapply.

  (* the GMP array entry points addRowsRational / addColsRational cannot create columns / rows implicitly (exact zeros
     of the arrays are not stored and do not count) *)
  Definition no_growth (g : bool) (bound : nat) (v : svec Q) : bool :=
    negb g || forallb (fun p => negb (qnz (snd p)) || (fst p <? bound)) v.

  Definition valid_op (s : state) (o : op) : bool :=
    match o with
    | OR ro =>
      let m := nrows (rl s) in let n := ncols (rl s) in
      let ps := rprims (eps s) (pmax s) m n ro in
      forallb prim_dy_ok ps && rprims_ok ps (rl s) &&
      match ro with
      | RRemRowsIdx idx => forallb (fun i => i <? m) idx          (* _idxToPerm writes perm[idx[k]] *)
      | RRemColsIdx idx => forallb (fun j => j <? n) idx
      | _ => true
      end &&
      match mode s, ql s with
      | Auto, Some q => qprims_ok (map (prim_map d2q) ps) q
      | Auto, None => false
      | _, _ => true
      end
    | OQ qo =>
      match mode s, ql s with
      | OnlyReal, None => false      (* assert(_rationalLP != nullptr); the index-list / range removals and clearLPRational dereference it *)
      | OnlyReal, Some _ => true
      | _, None => false
      | md, Some q =>
        let m := nrows q in let n := ncols q in
        let ps := qprims (eps s) (pmax s) m n q qo in
        prims_ok (qap_of qo) ps q &&
        match qo with
        | QAddRows g rs => forallb (fun r => no_growth g n (snd r)) rs
        | QAddCols g cs => forallb (fun c => no_growth g m (snd c)) cs
        | GRhsV xs => length xs <=? m
        | QRemRowsIdx idx => forallb (fun i => i <? m) idx
        | QRemColsIdx idx => forallb (fun j => j <? n) idx
        | _ => true
        end &&
        match md with
        | Auto => prims_ok (rap_of qo) (qrprims (eps s) m n (applys (qap_of qo) ps q) (pmax s) qo) (rl s)
        | _ => true
        end
      end
    | SetOffset v | SetInfty v => dy_ok v
    | _ => true
    end.

  Fixpoint valid_run (s : state) (ops : list op) : bool :=
    match ops with
    | [] => true
    | o :: t => valid_op s o && valid_run (step s o) t
    end.
End Model.

(* ============================================================== the conversions as the linked libraries perform them *)
(* |q| = n/d > 0: the double m*2^e with m = floor(n/d / 2^e) or the nearest integer (ties to even), where e is the
   exponent of the binade of n/d, not below the subnormal exponent -1074 *)
Definition scaled_quot (n d : Z) (e : Z) : Z * Z :=     (* quotient and remainder of n/d / 2^e, and the divisor *)
  if (0 <=? e)%Z then (n / (d * 2 ^ e), d * 2 ^ e)%Z else ((n * 2 ^ (- e)) / d, d)%Z.
Definition scaled_rem (n d : Z) (e : Z) : Z :=
  if (0 <=? e)%Z then (n mod (d * 2 ^ e))%Z else ((n * 2 ^ (- e)) mod d)%Z.
Definition binade (n d : Z) : Z :=
  let e0 := (Z.log2 n - Z.log2 d - 53)%Z in
  if (fst (scaled_quot n d e0) <? 2 ^ 53)%Z then e0 else (e0 + 1)%Z.
Definition norm53 (m e : Z) : dy := if (m =? 2 ^ 53)%Z then (2 ^ 52, e + 1)%Z else (m, e).
(* round to nearest, ties to even *)
Definition rne (m r dv : Z) : Z :=
  match (2 * r ?= dv)%Z with Lt => m | Gt => (m + 1)%Z | Eq => if Z.odd m then (m + 1)%Z else m end.
Definition rnd_abs (k : rkind) (n d : Z) : dy :=
  match k with
  | RGetD =>                                                   (* mpq_get_d truncates, also into the subnormal range *)
    let e := Z.max (-1074) (binade n d) in
    (fst (scaled_quot n d e), e)
  | RConv =>
    (* Boost's generic_convert_rational_to_float: the quotient is rounded to 53 significant bits (nearest even) and
       then scaled by ldexp, which rounds a second time (nearest even) when the result is subnormal *)
    let e := binade n d in
    let (m1, e1) := norm53 (rne (fst (scaled_quot n d e)) (scaled_rem n d e) (snd (scaled_quot n d e))) e in
    if (-1074 <=? e1)%Z then (m1, e1)
    else let s := (-1074 - e1)%Z in
         (rne (m1 / 2 ^ s) (m1 mod 2 ^ s) (2 ^ s), (-1074)%Z)
  end.
Definition rnd_impl (k : rkind) (q : Q) : dy :=
  let n := Qnum q in let d := Zpos (Qden q) in
  if (n =? 0)%Z then dzero
  else if (0 <? n)%Z then rnd_abs k n d else dneg (rnd_abs k (- n) d).
