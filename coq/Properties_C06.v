(* C06 - Modifying an LP in place equals building the modified LP from scratch.  Property theorems only. *)
From Coq Require Import ZArith List Bool Arith.
From SV Require Import Dbl LPOpsModel LPOps_Proofs.
Import ListNotations.

(* every call that goes through _invalidateSolution leaves no cached solution and status UNKNOWN *)
Theorem C06_modify_invalidates : forall s o, modifies o = true ->
  hasSol (fst (step s o)) = false /\ stat (fst (step s o)) = 0%Z.
Proof. exact modify_invalidates_l. Qed.
Print Assumptions C06_modify_invalidates.
