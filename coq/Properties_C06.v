(* C06 - Modifying an LP in place equals building the modified LP from scratch.
   Property theorems only; each is closed by [exact] of a lemma of LPOps_Proofs.v.

   Vocabulary (LPOpsModel.v / LPOps_Proofs.v):
     state, op, step, run        the solver object as far as C06 observes it and the ~40 calls of the real interface
     valid_op / valid_run        the call (every call of a history) is inside the documented domain when it is made:
                                 indices in range, vectors of matching dimension, sparse vectors without repeated indices
     Mir P S                     files P and S hold the same entries ((i,x) in vector k of P  <->  (k,x) in vector i of S),
                                 no vector has a repeated index, no stored value is an exact zero
     LInv l                      Mir (row file) (column file) and all attribute vectors have the dimension of their file
     abs / spec_apply / aeq      abstraction to a dense LP (m, n, lhs, rhs, user objective, bounds, sense, matrix as a total
                                 function that is zero outside m x n), the two-line specification of every call on it, and
                                 equality of dense LPs (matrix compared pointwise) *)
From Coq Require Import ZArith List Bool Arith.
From SV Require Import Dbl LPOpsModel LPOps_Proofs.
Import ListNotations.
Local Open Scope nat_scope.

(* ---------------------------------------------------------------------------------------------------------
   mirrored_inv: in every state reachable by any valid history - from the empty LP or from any LP that satisfies
   the invariant - the row file and the column file represent the same matrix without duplicate indices. *)
Theorem C06_mirrored_inv_step :
  forall s o, SInv s -> valid_op (nrows (L s)) (ncols (L s)) o = true -> SInv (fst (step s o)).
Proof. exact step_SInv. Qed.
Print Assumptions C06_mirrored_inv_step.

Theorem C06_mirrored_inv :
  forall ops s, SInv s -> valid_run s ops = true -> SInv (run s ops).
Proof. exact run_SInv. Qed.
Print Assumptions C06_mirrored_inv.

Theorem C06_mirrored_inv_from_empty :
  forall mx eps inf ops, eps_ok eps = true -> valid_run (init mx eps inf) ops = true ->
    LInv (L (run (init mx eps inf) ops)).
Proof. exact run_LInv_from_empty. Qed.
Print Assumptions C06_mirrored_inv_from_empty.

(* both files give the same dense entry *)
Theorem C06_mirror_same_entries :
  forall P S k i, Mir P S -> sget i (nth k P []) = sget k (nth i S []).
Proof. exact mir_sget. Qed.
Print Assumptions C06_mirror_same_entries.

(* ---------------------------------------------------------------------------------------------------------
   refines_dense: every call commutes with the abstraction to the dense LP; so does every history. *)
Theorem C06_refines_dense :
  forall s o, SInv s -> valid_op (nrows (L s)) (ncols (L s)) o = true ->
    aeq (abs (L (fst (step s o)))) (spec_apply (inf s) (eps s) (pmax s) (abs (L s)) o).
Proof. exact step_refines_L. Qed.
Print Assumptions C06_refines_dense.

Theorem C06_refines_dense_history :
  forall ops s, SInv s -> valid_run s ops = true ->
    aeqs (abs_state (run s ops)) (spec_run (inf s) (eps s) (abs_state s) ops).
Proof. exact run_refines_self. Qed.
Print Assumptions C06_refines_dense_history.

(* ---------------------------------------------------------------------------------------------------------
   remove_perm_spec: the perm array after removeRowsReal(perm) / removeColsReal(perm): removed elements keep their
   negative mark, a survivor i is found at perm[i] with its data, survivors keep their relative order, and nothing
   else is left. *)
Theorem C06_remove_perm_spec_rows :
  forall perm l, LInv l -> length perm = nrows l ->
  let l' := fst (remove_rows perm l) in
  let np := snd (remove_rows perm l) in
  length np = length perm /\
  (forall i, (nth i perm (-1) < 0)%Z -> nth i np (-1)%Z = nth i perm (-1)%Z) /\
  (forall i, i < length perm -> (0 <= nth i perm (-1))%Z ->
     exists q, nth i np (-1)%Z = Z.of_nat q /\ q < nrows l' /\
               nth q (lhs l') dzero = nth i (lhs l) dzero /\ nth q (rhs l') dzero = nth i (rhs l) dzero /\
               nth q (rf l') [] = nth i (rf l) []) /\
  (forall i1 i2, i1 < i2 -> i2 < length perm -> (0 <= nth i1 perm (-1))%Z -> (0 <= nth i2 perm (-1))%Z ->
     (nth i1 np (-1) < nth i2 np (-1))%Z) /\
  (forall q, q < nrows l' -> exists i, i < length perm /\ (0 <= nth i perm (-1))%Z /\ nth i np (-1)%Z = Z.of_nat q).
Proof. exact remove_rows_spec. Qed.
Print Assumptions C06_remove_perm_spec_rows.

Theorem C06_remove_perm_spec_cols :
  forall perm l, LInv l -> length perm = ncols l ->
  let l' := fst (remove_cols perm l) in
  let np := snd (remove_cols perm l) in
  length np = length perm /\
  (forall j, (nth j perm (-1) < 0)%Z -> nth j np (-1)%Z = nth j perm (-1)%Z) /\
  (forall j, j < length perm -> (0 <= nth j perm (-1))%Z ->
     exists q, nth j np (-1)%Z = Z.of_nat q /\ q < ncols l' /\
               nth q (obj l') dzero = nth j (obj l) dzero /\ nth q (lo l') dzero = nth j (lo l) dzero /\
               nth q (up l') dzero = nth j (up l) dzero /\ nth q (cf l') [] = nth j (cf l) []) /\
  (forall j1 j2, j1 < j2 -> j2 < length perm -> (0 <= nth j1 perm (-1))%Z -> (0 <= nth j2 perm (-1))%Z ->
     (nth j1 np (-1) < nth j2 np (-1))%Z) /\
  (forall q, q < ncols l' -> exists j, j < length perm /\ (0 <= nth j perm (-1))%Z /\ nth j np (-1)%Z = Z.of_nat q).
Proof. exact remove_cols_spec. Qed.
Print Assumptions C06_remove_perm_spec_cols.

(* removal by index list / by range: the buffer holds -1 exactly for the listed / enclosed elements *)
Theorem C06_remove_idx_marks_minus_one :
  forall n idx i, i < n -> existsb (Nat.eqb i) idx = true -> nth i (newperm (idx_to_perm n idx) 0) (-1)%Z = (-1)%Z.
Proof. exact idx_removed_minus_one. Qed.
Print Assumptions C06_remove_idx_marks_minus_one.

Theorem C06_remove_range_marks_minus_one :
  forall n a b i, i < n -> a <= i -> i <= b -> nth i (newperm (range_to_perm n a b) 0) (-1)%Z = (-1)%Z.
Proof. exact range_removed_minus_one. Qed.
Print Assumptions C06_remove_range_marks_minus_one.

(* ---------------------------------------------------------------------------------------------------------
   single_removal_moves_last: removeRowReal(i) / removeColReal(j) move the last element into the hole and leave
   every other number unchanged. *)
Theorem C06_single_removal_moves_last_row :
  forall i l, LInv l -> i < nrows l ->
  let l' := remove_row i l in
  nrows l' = nrows l - 1 /\ ncols l' = ncols l /\
  (forall k, k < nrows l - 1 -> k <> i ->
     nth k (lhs l') dzero = nth k (lhs l) dzero /\ nth k (rhs l') dzero = nth k (rhs l) dzero /\
     nth k (rf l') [] = nth k (rf l) []) /\
  (i < nrows l - 1 ->
     nth i (lhs l') dzero = nth (nrows l - 1) (lhs l) dzero /\ nth i (rhs l') dzero = nth (nrows l - 1) (rhs l) dzero /\
     nth i (rf l') [] = nth (nrows l - 1) (rf l) []) /\
  obj l' = obj l /\ lo l' = lo l /\ up l' = up l.
Proof. exact remove_row_moves_last. Qed.
Print Assumptions C06_single_removal_moves_last_row.

Theorem C06_single_removal_moves_last_col :
  forall j l, LInv l -> j < ncols l ->
  let l' := remove_col j l in
  ncols l' = ncols l - 1 /\ nrows l' = nrows l /\
  (forall k, k < ncols l - 1 -> k <> j ->
     nth k (obj l') dzero = nth k (obj l) dzero /\ nth k (lo l') dzero = nth k (lo l) dzero /\
     nth k (up l') dzero = nth k (up l) dzero /\ nth k (cf l') [] = nth k (cf l) []) /\
  (j < ncols l - 1 ->
     nth j (obj l') dzero = nth (ncols l - 1) (obj l) dzero /\ nth j (lo l') dzero = nth (ncols l - 1) (lo l) dzero /\
     nth j (up l') dzero = nth (ncols l - 1) (up l) dzero /\ nth j (cf l') [] = nth (ncols l - 1) (cf l) []) /\
  lhs l' = lhs l /\ rhs l' = rhs l.
Proof. exact remove_col_moves_last. Qed.
Print Assumptions C06_single_removal_moves_last_col.

(* ---------------------------------------------------------------------------------------------------------
   modify_invalidates: every modifier leaves no cached solution and status UNKNOWN. *)
Theorem C06_modify_invalidates :
  forall s o, modifies o = true -> hasSol (fst (step s o)) = false /\ stat (fst (step s o)) = 0%Z.
Proof. exact modify_invalidates_l. Qed.
Print Assumptions C06_modify_invalidates.

(* ---------------------------------------------------------------------------------------------------------
   the sense the LP is optimised with is the OBJSENSE parameter, in every reachable state of the specified
   behaviour ... *)
Theorem C06_sense_follows_parameter :
  forall ops s, lmax (L s) = pmax s -> lmax (L (run s ops)) = pmax (run s ops).
Proof. exact run_sense_sync. Qed.
Print Assumptions C06_sense_follows_parameter.

(* ... but not with clearLPReal as it is coded (SPxLPBase::clear resets the sense to MAXIMIZE): reported defect *)
Theorem C06_clear_as_coded_keeps_sense_refuted :
  exists s, lmax (L s) = pmax s /\ lmax (L (clear_as_coded s)) <> pmax (clear_as_coded s).
Proof. exact clear_as_coded_desync. Qed.
Print Assumptions C06_clear_as_coded_keeps_sense_refuted.

(* ---------------------------------------------------------------------------------------------------------
   Examples: the hypotheses are satisfiable by non-trivial histories, and what the theorems say about them. *)
Definition ex_eps : dbl := DFin 1 (-53).
Definition ex_inf : dbl := DFin 1 333.
Definition d (z : Z) : dbl := DFin z 0.

(* two columns; a row that mentions a column that does not exist yet (implicit growth); a column that creates a row;
   changeElement that deletes; removal of rows 0 and 2 by index list; a single column removal; sense change *)
Definition ex_ops : list op :=
  [ AddCols [ (d 1, d 0, d 4, []); (d (-2), d 0, ex_inf, []) ];
    AddRow (d (-1), d 5, [(0, d 2); (3, d 7); (1, d 0)]);
    AddCol (d 3, d (-1), d 1, [(2, d 5); (0, d (-4))]);
    ChgElem 0 3 (DFin 1 (-60));
    AddRows [ (d 0, d 0, [(4, d 1)]); (d 1, d 2, [(0, d 9)]) ];
    Optimize 1 true;
    RemRowsIdx [2; 0];
    RemCol 1;
    SetSense false;
    ChgObj 0 (d 6) ].

Example ex_valid : valid_run (init true ex_eps ex_inf) ex_ops = true.
Proof. vm_compute. reflexivity. Qed.

Example ex_eps_ok : eps_ok ex_eps = true.
Proof. reflexivity. Qed.

(* the final LP: 3 rows, 4 columns; the old last column (number 4) now has number 1 *)
Example ex_result :
  let s := run (init true ex_eps ex_inf) ex_ops in
  (nrows (L s), ncols (L s), nnz (L s)) = (3, 4, 2) /\ uobj (L s) = [d 6; d 3; d 0; d 0] /\
  hasSol s = false /\ stat s = 0%Z /\ lmax (L s) = false.
Proof. vm_compute. repeat split; reflexivity. Qed.

(* the perm array of the index-list removal in that history *)
Example ex_perm :
  snd (step (run (init true ex_eps ex_inf) (firstn 6 ex_ops)) (RemRowsIdx [2; 0])) = [(-1)%Z; 0%Z; (-1)%Z; 1%Z; 2%Z].
Proof. vm_compute. reflexivity. Qed.

(* a call outside the documented domain is recognised as such (repeated index in a sparse vector) *)
Example ex_invalid : valid_op 0 0 (AddRow (d 0, d 1, [(0, d 1); (0, d 2)])) = false.
Proof. reflexivity. Qed.
