(* C13 - File readers survive arbitrary input: the control logic of the three hand-written lexers.
   Property theorems only; each is closed by [exact] of a lemma of Lexers_Proofs.v or, for refutation witnesses,
   by computation.  What is NOT here: the absence of memory errors in the compiled readers is explored with
   AddressSanitizer / UBSan / LeakSanitizer runs (checks/C13.py), not proved. *)
From Coq Require Import ZArith Bool List Arith Lia String.
From SV Require Import SettingsLexer LexersModel Lexers_Proofs.
Import ListNotations.
Local Open Scope Z_scope.

(* ---------------------------------------------------------------------------------------------------------- *)
(* (a) settings line *)

(* [tokenise] is a total function on byte lists (a Gallina Fixpoint composition: it terminates on every input by
   construction); every token it returns is a contiguous segment of the C string of the line, the three segments are
   disjoint and in order, and no token contains a blank, '\n', '#' or NUL. *)
Theorem C13_tokenise_total :
  forall line ty name val, tokenise line = TOk ty name val ->
    exists a b c d, cstr line = a ++ ty ++ b ++ name ++ c ++ val ++ d /\
                    clean_tok ty /\ clean_tok name /\ clean_tok val /\ nz ty /\ nz name /\ nz val.
Proof. exact tokenise_tokens. Qed.
Print Assumptions C13_tokenise_total.

Theorem C13_tokens_within_line :
  forall line ty name val, tokenise line = TOk ty name val ->
    (List.length ty + List.length name + List.length val <= List.length line)%nat.
Proof. exact tokens_len. Qed.
Print Assumptions C13_tokens_within_line.

(* The parser as a cursor machine over the NUL-terminated buffer [line ++ [0]] (any bytes, also NULs inside):
   with the stepping rule of the repaired code no read is outside the buffer, the result is exactly [tokenise line],
   and the cursor ends at or before the terminator (the first NUL). *)
Theorem C13_settings_cursor_in_bounds :
  forall line, exists i, c_parse false (line ++ [0]) = Ok (tokenise line, i) /\ (i <= term_pos line)%nat.
Proof. exact settings_cursor_in_bounds_lemma. Qed.
Print Assumptions C13_settings_cursor_in_bounds.

(* The stepping rule before commit f3bbc2a (unconditional "*line = 0; line++" after a token) violates it: a line that
   ends after the type token or after the name token is read one byte behind its terminator. *)
Example C13_old_rule_reads_behind_terminator_type : c_parse true (codes "bool" ++ [0]) = Oob.
Proof. vm_compute. reflexivity. Qed.
Example C13_old_rule_reads_behind_terminator_name : c_parse true (codes "int:iterlimit" ++ [0]) = Oob.
Proof. vm_compute. reflexivity. Qed.
(* in a larger (zero padded) buffer the old cursor ends behind the terminator, the repaired one on it *)
Example C13_old_rule_cursor_behind_terminator :
  c_parse true (codes "bool" ++ repeat 0 8) = Ok (TError, 5%nat) /\ term_pos (codes "bool" ++ repeat 0 8) = 4%nat /\
  c_parse false (codes "bool" ++ repeat 0 8) = Ok (TError, 4%nat).
Proof. vm_compute. repeat split; reflexivity. Qed.
Example C13_cursor_example :
  c_parse false (codes "real : feastol= 1e-9 # tight" ++ [0]) = Ok (TOk (codes "real") (codes "feastol") (codes "1e-9"), 21%nat).
Proof. vm_compute. reflexivity. Qed.

(* ---------------------------------------------------------------------------------------------------------- *)
(* (b) MPSInput::readLine *)

(* With the repaired give-up condition (getline(...).fail()) readLine returns after at most
   [stream_measure st] + 1 getline calls, for every stream state and every parser state; for a fresh stream of n bytes
   that is n + 3 calls. *)
Theorem C13_mps_readLine_terminates_on_finite_stream :
  forall st ps fuel, (stream_measure st < fuel)%nat -> readLine true fuel st ps <> OutOfFuel.
Proof. intros st ps fuel. exact (readLine_terminates_lemma fuel st ps). Qed.
Print Assumptions C13_mps_readLine_terminates_on_finite_stream.

Theorem C13_mps_readLine_fuel_monotone :
  forall eofcheck fuel fuel' st ps, (fuel <= fuel')%nat -> readLine eofcheck fuel st ps <> OutOfFuel ->
    readLine eofcheck fuel' st ps = readLine eofcheck fuel st ps.
Proof. intros eofcheck fuel fuel' st ps. exact (readLine_fuel_mono eofcheck fuel st ps fuel'). Qed.
Print Assumptions C13_mps_readLine_fuel_monotone.

(* The original condition (!good() && !eof()) refutes the statement: at the end of the input eofbit stays set, every
   further getline stores an empty line, an empty line counts as a comment, and the loop never ends. *)
Theorem C13_mps_readLine_terminates_on_finite_stream_refuted :
  exists bytes, forall fuel ps, readLine false fuel (fresh_stream bytes) ps = OutOfFuel.
Proof. exists []. exact readLine_refuted_lemma. Qed.
Print Assumptions C13_mps_readLine_terminates_on_finite_stream_refuted.

(* the same for the state every truncated file ends in: last line consumed, eofbit set *)
Theorem C13_mps_readLine_hangs_at_eof :
  forall fuel ps, readLine false fuel (mkStream [] true false) ps = OutOfFuel.
Proof. exact readLine_old_hangs_after_last_line. Qed.
Print Assumptions C13_mps_readLine_hangs_at_eof.

(* a truncated MPS file: two calls succeed (NAME, ROWS), the third hangs in the original code and returns false in the
   repaired code *)
Definition trunc_mps := codes "NAME x" ++ [10] ++ codes "ROWS" ++ [10] ++ codes "* end" ++ [10].
Definition third_call (eofcheck : bool) (fuel : nat) : rl_result :=
  match readLine eofcheck 5 (fresh_stream trunc_mps) (init_pstate SName false) with
  | RetTrue _ st1 ps1 =>
    match readLine eofcheck 5 st1 ps1 with
    | RetTrue _ st2 ps2 => readLine eofcheck fuel st2 ps2
    | r => r
    end
  | r => r
  end.
Example C13_truncated_file_old : third_call false 1000 = OutOfFuel.
Proof. vm_compute. reflexivity. Qed.
Example C13_truncated_file_repaired : exists st ps, third_call true 3 = RetFalse st ps.
Proof. vm_compute. eauto. Qed.
Example C13_fields_example :
  match readLine true 3 (fresh_stream (codes "    x1        obj                  1   r1                  -2" ++ [10]))
                 (init_pstate SColumns false) with
  | RetTrue f _ ps => f = mkF None (Some (codes "x1")) (Some (codes "obj")) (Some (codes "1")) (Some (codes "r1")) (Some (codes "-2"))
                      /\ p_newfmt ps = false
  | _ => False
  end.
Proof. vm_compute. split; reflexivity. Qed.

(* ---------------------------------------------------------------------------------------------------------- *)
(* (c) LP format: copy loops into char[8192] *)

(* the copy loop writes outside an array of [cap] bytes exactly when the token has [cap] or more characters *)
Theorem C13_lpf_copy_overflow_iff :
  forall cap tok buf i, copy_loop cap buf i tok = None <-> (cap <= i + List.length tok)%nat.
Proof. intros cap tok. exact (copy_loop_none_iff cap tok). Qed.
Print Assumptions C13_lpf_copy_overflow_iff.

(* and when it fits the array holds the token as a C string *)
Theorem C13_lpf_copy_content :
  forall cap tok, nz tok -> (List.length tok < cap)%nat ->
    exists arr, copy_loop cap (fresh_array cap) 0 tok = Some arr /\ cstr arr = tok.
Proof. exact copy_loop_cstr. Qed.
Print Assumptions C13_lpf_copy_content.

(* the part of "the copy stays within the buffer" that holds: every line shorter than the array is safe in
   LPFreadValue (real and rational scan), LPFreadColName and LPFhasRowName.  (readLPF grows its line buffer beyond
   8192 bytes, so longer lines do reach these functions.) *)
Theorem C13_lpf_copy_within_buffer_partial :
  forall cap rational l, (List.length l < cap)%nat ->
    lpf_read_value cap rational l <> Overflow /\ lpf_read_colname cap l <> Overflow /\ lpf_has_rowname cap l <> Overflow.
Proof. exact lpf_short_lines_safe. Qed.
Print Assumptions C13_lpf_copy_within_buffer_partial.

(* the full statement is refuted: a numeric literal, a column name and a row name of 8192 characters *)
Theorem C13_lpf_copy_within_buffer_refuted :
  (exists l, lpf_read_value LPF_CAP false l = Overflow) /\
  (exists l, lpf_read_value LPF_CAP true l = Overflow) /\
  (exists l, lpf_read_colname LPF_CAP l = Overflow) /\
  (exists l, lpf_has_rowname LPF_CAP l = Overflow).
Proof.
  split; [|split; [|split]].
  - exists (repeat 49 8192). apply lpf_read_value_overflow_iff. split; [vm_compute; reflexivity|].
    apply Nat.leb_le. vm_compute. reflexivity.
  - exists (repeat 49 8192). apply lpf_read_value_overflow_iff. split; [vm_compute; reflexivity|].
    apply Nat.leb_le. vm_compute. reflexivity.
  - exists (repeat 120 8192). apply lpf_read_colname_overflow_iff. apply Nat.leb_le. vm_compute. reflexivity.
  - exists (repeat 114 8192 ++ [58]). vm_compute. reflexivity.
Qed.
Print Assumptions C13_lpf_copy_within_buffer_refuted.

Example C13_lpf_value_example :
  lpf_read_value LPF_CAP false (codes "-12.5e+3 x1") = Done (Some (codes "-12.5e+3"), 9%nat) /\
  lpf_read_value LPF_CAP true (codes "3/4x") = Done (Some (codes "3/4"), 3%nat) /\
  lpf_read_value LPF_CAP false (codes "+ x") = Done (None, 2%nat).
Proof. vm_compute. repeat split; reflexivity. Qed.
Example C13_lpf_names_example :
  lpf_read_colname LPF_CAP (codes "x_1 + y") = Done (codes "x_1", 4%nat) /\
  lpf_has_rowname LPF_CAP (codes " cap 1 : x + y <= 2") = Done (Some (codes "1"), 8%nat).
Proof. vm_compute. repeat split; reflexivity. Qed.

(* LPFhasKeyword: the index into the keyword literal leaves the literal when the word on the line continues with the
   ']' of an optional part ("maximize]" against "max[imize]"): the search for the closing bracket starts at the NUL. *)
Theorem C13_lpf_keyword_index_in_bounds_refuted :
  exists kw pos, lpf_has_keyword kw pos = KwOob.
Proof. exists (codes "max[imize]"), (codes "maximize]"). vm_compute. reflexivity. Qed.
Print Assumptions C13_lpf_keyword_index_in_bounds_refuted.

Example C13_lpf_keyword_examples :
  lpf_has_keyword (codes "max[imize]") (codes "MAXIMIZE") = KwYes 8%nat /\
  lpf_has_keyword (codes "max[imize]") (codes "max x") = KwYes 3%nat /\
  lpf_has_keyword (codes "s[ubject][   ]t[o]") (codes "subject to") = KwYes 10%nat /\
  lpf_has_keyword (codes "s[ubject][   ]t[o]") (codes "st") = KwYes 2%nat /\
  lpf_has_keyword (codes "bound[s]") (codes "bounded") = KwNo /\
  lpf_has_keyword (codes "inf[inity]") (codes "inf<=x") = KwYes 3%nat.
Proof. vm_compute. repeat split; reflexivity. Qed.
