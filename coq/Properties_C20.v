(* C20 - The C interface does exactly what the corresponding C++ calls do.
   Property theorems only; each is closed by [exact] of a lemma of CIface_Proofs.v or by computation over the tables
   regenerated from the current tree (gen/Gen_CIface.v).  The model (CIfaceModel.v) describes the wrapper layer of
   src/soplex_interface.cpp: argument conversions, the C++ members called, result conversions, and the indices of
   every buffer that are read or written.  The C++ object itself is abstract (a state type and a step function). *)
From Coq Require Import ZArith QArith Qreduction List Bool String Sorted.
From SV Require Import CIfaceModel CIface_Proofs.
From SVG Require Import Gen_CIface.
Import ListNotations.
Local Open Scope nat_scope.

(* ---- dense arrays become the same rows and columns ---- *)
(* The sparse vector built by SoPlex_addColReal / SoPlex_addRowReal from (array, size): its dense expansion is the first
   [size] entries of the array, nothing is stored beyond them, no zero is stored, indices are strictly increasing, and
   it is exactly the vector of non-zero entries a C++ caller would pass. *)
Theorem C20_dense_to_sparse_spec : forall (arr : list Q) (size : nat),
    let v := dense_to_sparse arr size in
    (forall i, i < size -> i < List.length arr -> sv_get 0%Q v i == nth i arr 0%Q)
    /\ (forall i, size <= i \/ List.length arr <= i -> sv_get 0%Q v i = 0%Q)
    /\ Forall (fun p => ~ snd p == 0) v
    /\ StronglySorted lt (map fst v)
    /\ (forall i x, In (i, x) v <-> (i < size /\ nth_error arr i = Some x /\ ~ x == 0))
    /\ v = sparse_of_dense Qis0 arr size.
Proof.
  exact (fun arr size =>
           conj (fun i => dense_to_sparse_expand arr size i)
          (conj (dense_to_sparse_beyond arr size)
          (conj (dense_to_sparse_nonzero arr size)
          (conj (dense_to_sparse_sorted arr size)
          (conj (dense_to_sparse_entries arr size) (dense_to_sparse_eq arr size)))))).
Qed.
Print Assumptions C20_dense_to_sparse_spec.

(* [nnonzeros] is only a capacity hint: it does not influence the C++ call. *)
Theorem C20_nnonzeros_is_only_a_hint : forall RC e size nnz nnz' obj lb ub,
    wrapper_calls RC (CAddColReal e size nnz obj lb ub) = wrapper_calls RC (CAddColReal e size nnz' obj lb ub)
    /\ wrapper_calls RC (CAddRowReal e size nnz lb ub) = wrapper_calls RC (CAddRowReal e size nnz' lb ub).
Proof. exact (fun _ _ _ _ _ _ _ _ => conj eq_refl eq_refl). Qed.
Print Assumptions C20_nnonzeros_is_only_a_hint.

(* ---- numerator / denominator pairs become the exact rationals ---- *)
Theorem C20_pair_to_Q_spec : forall num den : Z, den <> 0%Z ->
    exists q, pair_to_Q num den = Some q
              /\ q == inject_Z num / inject_Z den
              /\ Qred q = q
              /\ Z.sgn (Qnum q) = (Z.sgn num * Z.sgn den)%Z
              /\ (den = 1%Z -> q = inject_Z num).
Proof. exact pair_to_Q_spec_lemma. Qed.
Print Assumptions C20_pair_to_Q_spec.

(* the rational array loops produce what a C++ caller computes with Rational(n) / Rational(d) *)
Theorem C20_rational_arrays_exact : forall nums dens size,
    dense_to_sparse_rat nums dens size = sparse_of_dense_rat nums dens size
    /\ dense_rat nums dens size = dense_rat_spec nums dens size.
Proof. exact (fun n d s => conj (dense_to_sparse_rat_eq n d s) (dense_rat_eq n d s)). Qed.
Print Assumptions C20_rational_arrays_exact.

(* the two rational getters return the exact value whenever numerator and denominator fit in a long ... *)
Theorem C20_rational_getters_exact_when_fits : forall q, Qred q = q ->
    (LONG_MIN <= Qnum q <= LONG_MAX)%Z -> (Zpos (Qden q) <= LONG_MAX)%Z ->
    pair_to_Q (fst (Q_to_pair q)) (snd (Q_to_pair q)) = Some q.
Proof. exact Q_to_pair_roundtrip. Qed.
Print Assumptions C20_rational_getters_exact_when_fits.

(* ... and not otherwise (the conversion to long saturates; an infinite bound 1e100 comes back as LONG_MAX) *)
Theorem C20_rational_getters_exact_refuted :
  exists q, Qred q = q /\ pair_to_Q (fst (Q_to_pair q)) (snd (Q_to_pair q)) <> Some q.
Proof. exists (Qmake (10 ^ 100) 1). split; [vm_compute; reflexivity | vm_compute; discriminate]. Qed.
Print Assumptions C20_rational_getters_exact_refuted.

(* ---- status and parameter codes are the C++ enumerators ---- *)
Lemma codes_table_ok : forallb code_row_ok gen_codes = true.
Proof. vm_compute. reflexivity. Qed.

Theorem C20_codes_agree : forall r, In r gen_codes -> cr_doc r = cr_cpp r /\ cr_cside r = cr_cpp r.
Proof.
  exact (fun r H => match andb_prop _ _ (proj1 (forallb_forall code_row_ok gen_codes) codes_table_ok r H) with
                    | conj a b => conj (proj1 (Z.eqb_eq _ _) a) (proj1 (Z.eqb_eq _ _) b) end).
Qed.
Print Assumptions C20_codes_agree.

(* every function declared in soplex_interface.h is defined and calls, through the handle, exactly the members the
   model composes (and the model knows no function the interface lacks) *)
Theorem C20_wrappers_call_the_modelled_members : wraps_ok gen_declared gen_wraps = true.
Proof. vm_compute. reflexivity. Qed.
Print Assumptions C20_wrappers_call_the_modelled_members.

(* ---- array arguments are only read or written within the lengths given by the caller ---- *)
Theorem C20_footprint_within_length : forall c d, dims_ok c d = true -> footprint_ok c d = true.
Proof. exact footprint_within. Qed.
Print Assumptions C20_footprint_within_length.

(* Without the dimension contract the statement is false: on an LP that is not stored scaled, SoPlex_getLowerReal /
   getUpperReal / getObjReal with dim larger than the number of columns read the temporary vector beyond its
   (re-dimensioned) end. *)
Definition dims_2x2 := {| d_rows := 2; d_cols := 2; d_ratcols := 2; d_hassol := true; d_hasrat := true;
                          d_scaled := false; d_rowlen := 1; d_strlen := 7 |}.
Theorem C20_footprint_within_length_refuted :
  exists dim d, footprint_ok (CGetLowerReal dim) d = false /\ footprint_ok (CGetUpperReal dim) d = false
                /\ footprint_ok (CGetObjReal dim) d = false /\ footprint_ok (CGetPrimalRationalString dim) d = false.
Proof. exists 4, dims_2x2. vm_compute. repeat split. Qed.
Print Assumptions C20_footprint_within_length_refuted.

(* SoPlex_getRowVectorRational assigns the row to an SVector that owns no memory: any non-empty row is written
   through a null element pointer. *)
Theorem C20_rowvector_rational_refuted : exists i d, d_rowlen d <= d_cols d /\ footprint_ok (CGetRowVectorRational i) d = false.
Proof. exists 0%Z, dims_2x2. split; [vm_compute; repeat constructor | vm_compute; reflexivity]. Qed.
Print Assumptions C20_rowvector_rational_refuted.

(* returned strings: SoPlex_getPrimalRationalString returns text and terminator; SoPlex_objValueRationalString
   returns a one-byte buffer whatever the length of the value *)
Theorem C20_primal_string_terminated : forall dim d, ret_string_ok (CGetPrimalRationalString dim) d = true.
Proof. exact (fun dim d => Nat.leb_refl _). Qed.
Print Assumptions C20_primal_string_terminated.

Theorem C20_objvalue_string_refuted : forall d, 1 <= d_strlen d -> ret_string_ok CObjValueRationalString d = false.
Proof.
  exact (fun d H => proj2 (Nat.leb_gt (d_strlen d + 1) 1) (eq_ind_r (fun n => 1 < n) (proj1 (Nat.succ_lt_mono 0 (d_strlen d)) H) (Nat.add_1_r (d_strlen d)))).
Qed.
Print Assumptions C20_objvalue_string_refuted.

(* ---- every C call sequence has the effect of the mirrored C++ sequence ---- *)
(* For any C++ object (state type, step function), running a sequence of C calls through the wrapper layer leaves the
   object in the state the mirrored C++ session leaves it in (for each C call, the members a C++ user would call with
   the specification-level conversions of the same arguments), and every value handed to the C caller is the wrapper's
   result conversion of what those members returned.  The wrappers keep no state of their own. *)
Theorem C20_c_refines_cpp : forall RC (St : Type) (xstep : St -> cpp_op -> St * cpp_out) cs s,
    c_run RC St xstep s cs =
    match mirror_run RC St xstep s cs with
    | Some (s', rss) => Some (s', results cs rss)
    | None => None
    end.
Proof. exact c_run_refines. Qed.
Print Assumptions C20_c_refines_cpp.

(* sequences of calls with valid arguments always run (no conversion throws) *)
Theorem C20_valid_calls_are_defined : forall RC (St : Type) (xstep : St -> cpp_op -> St * cpp_out) cs s,
    forallb valid_call cs = true -> exists r, c_run RC St xstep s cs = Some r.
Proof. exact valid_run_defined. Qed.
Print Assumptions C20_valid_calls_are_defined.

(* returned arrays carry the values the C++ getter delivered when the dimension matches *)
Theorem C20_vector_getters_faithful : forall dim ok v, List.length v = dim ->
    wrapper_result (CGetLowerReal dim) [RVec ok v] = KArr v
    /\ wrapper_result (CGetUpperReal dim) [RVec ok v] = KArr v
    /\ wrapper_result (CGetObjReal dim) [RVec ok v] = KArr v
    /\ wrapper_result (CGetPrimalRationalString dim) [RVec ok v] = KStr v.
Proof. exact vec_getter_faithful. Qed.
Print Assumptions C20_vector_getters_faithful.

(* ---- non-vacuity: concrete instances ---- *)
Example C20_ex_dense :
  dense_to_sparse [1 # 2; 0; (-3) # 1; 0 # 5; 7 # 1; 9 # 1]%Q 5 = [(0, 1 # 2); (2, (-3) # 1); (4, 7 # 1)].
Proof. vm_compute. reflexivity. Qed.

Example C20_ex_pairs :
  pair_to_Q (-3) (-6) = Some (1 # 2) /\ pair_to_Q (-7) 1 = Some ((-7) # 1) /\ pair_to_Q 4 (-2) = Some ((-2) # 1)
  /\ pair_to_Q 5 0 = None /\ dense_to_sparse_rat [-3; 0; 5]%Z [-6; 0; 1]%Z 3 = Some [(0, 1 # 2); (2, 5 # 1)].
Proof. vm_compute. repeat split. Qed.

Example C20_ex_dims_ok : dims_ok (CGetLowerReal 2) dims_2x2 = true /\ footprint_ok (CGetLowerReal 2) dims_2x2 = true
                         /\ dims_ok (CGetLowerReal 4) dims_2x2 = false.
Proof. vm_compute. repeat split. Qed.

(* a toy C++ object (counts calls, echoes the sparse vector of the last added column) run through both sides *)
Example C20_ex_refines :
  let xs := fun (s : nat) (o : cpp_op) => (S s, match o with XAddColReal _ v _ _ => RSvec v | XNumCols => RInt (Z.of_nat s)
                                            | XLhsRational _ => RRat (1 # 3) | XRhsRational _ => RRat (Qmake (10 ^ 100) 1) | _ => RUnit end) in
  let cs := [CSetRational; CAddColReal [0; 2 # 1; 0; 1 # 4]%Q 4 0%Z 1%Q 0%Q (5 # 1); CAddColRational [3; 0]%Z [-9; 0]%Z 2 1%Z 1%Z 2%Z 0%Z 1%Z 7%Z (-1)%Z;
             CNumCols; CGetRowBoundsRational 0%Z] in
  forallb valid_call cs = true
  /\ c_run gen_rational_codes nat xs 0 cs = Some (13, [KUnit; KUnit; KUnit; KInt 8; KRatPair (1, 3)%Z (LONG_MAX, 1%Z)]).
Proof. vm_compute. split; reflexivity. Qed.
