(* C03 - proofs about the models of RatGateModel.v:
     zero violations + consistent statuses  ==>  the proved exact optimality checker accepts (gate_zero_is_optimal),
     soundness of the verdict automaton of _optimizeRational, what the computed objective value is. *)
From Coq Require Import QArith ZArith List Bool Lia Lqa.
From SV Require Import Vec LP Cert Cert_Proofs RatGateModel.
Import ListNotations.
Local Open Scope Q_scope.

(* ---------- running maxima ---------- *)
Lemma fold_mono {A} (f : Q -> A -> Q) :
  (forall a j, a <= f a j) -> forall l a, a <= fold_left f l a.
Proof.
  intros Hm l; induction l as [|j l IH]; intros a; simpl; [lra|].
  specialize (IH (f a j)). specialize (Hm a j). lra.
Qed.

Lemma fold_max_zero {A} (f : Q -> A -> Q) (P : A -> Prop) :
  (forall a j, a <= f a j) ->
  (forall a j, 0 <= a -> f a j <= 0 -> P j) ->
  forall l a, 0 <= a -> fold_left f l a <= 0 -> forall j, In j l -> P j.
Proof.
  intros Hm Hl l; induction l as [|i l IH]; intros a Ha Hf j Hin; simpl in *; [tauto|].
  pose proof (Hm a i) as M1. pose proof (fold_mono f Hm l (f a i)) as M2.
  destruct Hin as [<-|Hin].
  - apply (Hl a i Ha). lra.
  - apply (IH (f a i)); auto. lra.
Qed.

Lemma fold_max_zero0 {A} (f : Q -> A -> Q) (P : A -> Prop) :
  (forall a j, 0 <= a -> a <= f a j /\ (f a j <= 0 -> P j)) ->
  forall l, fold_left f l 0 <= 0 -> forall j, In j l -> P j.
Proof.
  intros Hs.
  assert (forall l a, 0 <= a -> a <= fold_left f l a) as M.
  { induction l as [|i l IH]; intros a Ha; simpl; [lra|]. destruct (Hs a i Ha) as [HA _]. specialize (IH (f a i) ltac:(lra)). lra. }
  assert (forall l a, 0 <= a -> fold_left f l a <= 0 -> forall j, In j l -> P j) as G.
  { induction l as [|i l IH]; intros a Ha Hf j Hin; simpl in *; [tauto|].
    destruct (Hs a i Ha) as [HA HB]. pose proof (M l (f a i) ltac:(lra)) as M2.
    destruct Hin as [<-|Hin]; [apply HB; lra|]. apply (IH (f a i)); auto; lra. }
  intros l H. apply (G l 0); auto. lra.
Qed.

Lemma in_down n j : In j (down n) <-> (j < n)%nat.
Proof. unfold down. rewrite <- in_rev, in_seq. lia. Qed.

Lemma bound_minus_eq b v : bound_minus b v == b - v.
Proof.
  unfold bound_minus. destruct (Qeq_bool b 0) eqn:E; [|reflexivity].
  apply Qeq_bool_iff in E. rewrite E. ring.
Qed.

Ltac qb :=
  repeat match goal with
         | H : Qltb _ _ = true |- _ => apply Qltb_lt in H
         | H : Qltb _ _ = false |- _ => apply Qltb_false in H
         | H : Qle_bool _ _ = true |- _ => apply Qle_bool_iff in H
         end.

(* ---------- bounds ---------- *)
Definition bounds_local (g : gate) (x : list Q) (c : nat) : Prop :=
  (lowerFinite (ctype g c) = true -> lo_val g (c_lo (colj (g_lp g) c)) <= vnth x c) /\
  (upperFinite (ctype g c) = true -> vnth x c <= up_val g (c_up (colj (g_lp g) c))).

Lemma bounds_step_spec g x a c : 0 <= a ->
  a <= bounds_step g x a c /\ (bounds_step g x a c <= 0 -> bounds_local g x c).
Proof.
  intros Ha. unfold bounds_step, bounds_local. cbv zeta.
  pose proof (bound_minus_eq (lo_val g (c_lo (colj (g_lp g) c))) (vnth x c)) as E1.
  pose proof (bound_minus_eq (up_val g (c_up (colj (g_lp g) c))) (vnth x c)) as E2.
  set (ml := bound_minus (lo_val g (c_lo (colj (g_lp g) c))) (vnth x c)) in *.
  set (mu := bound_minus (up_val g (c_up (colj (g_lp g) c))) (vnth x c)) in *.
  set (a1 := if lowerFinite (ctype g c) then if Qltb a ml then ml else a else a).
  assert (a <= a1 /\ (a1 <= 0 -> lowerFinite (ctype g c) = true -> ml <= 0)) as [A1 B1].
  { subst a1. destruct (lowerFinite (ctype g c)); [destruct (Qltb a ml) eqn:?; qb; split; intros; lra | split; intros; [lra|discriminate]]. }
  destruct (upperFinite (ctype g c)).
  - destruct (Qltb mu (- a1)) eqn:?; qb; split; try lra; intros H; split; intros F; try discriminate; try specialize (B1 ltac:(lra) F); lra.
  - split; [lra|]. intros H; split; intros F; try discriminate. specialize (B1 H F). lra.
Qed.

Lemma bounds_zero g s : bounds_violation g s <= 0 ->
  forall c, (c < ncols (g_lp g))%nat -> bounds_local g (s_primal s) c.
Proof.
  intros H c Hc. unfold bounds_violation in H.
  apply (fold_max_zero0 (bounds_step g (s_primal s)) (bounds_local g (s_primal s)) (bounds_step_spec g (s_primal s)) _ H).
  now apply in_down.
Qed.

(* ---------- sides ---------- *)
Definition sides_local (g : gate) (sl : list Q) (r : nat) : Prop :=
  (lowerFinite (rtype g r) = true ->
     lo_val g (r_lhs (rowi (g_lp g) r)) <= vnth sl r /\
     (rstat g r = ON_LOWER -> lo_val g (r_lhs (rowi (g_lp g) r)) == vnth sl r)) /\
  (upperFinite (rtype g r) = true ->
     vnth sl r <= up_val g (r_rhs (rowi (g_lp g) r)) /\
     (rstat g r = ON_UPPER -> up_val g (r_rhs (rowi (g_lp g) r)) == vnth sl r)).

Lemma vs_eqb_eq a b : vs_eqb a b = true <-> a = b.
Proof. destruct a, b; simpl; split; intros; try discriminate; auto. Qed.

Lemma sides_step_spec g sl a r : 0 <= a ->
  a <= sides_step g sl a r /\ (sides_step g sl a r <= 0 -> sides_local g sl r).
Proof.
  intros Ha. unfold sides_step, sides_local. cbv zeta.
  pose proof (bound_minus_eq (lo_val g (r_lhs (rowi (g_lp g) r))) (vnth sl r)) as E1.
  pose proof (bound_minus_eq (up_val g (r_rhs (rowi (g_lp g) r))) (vnth sl r)) as E2.
  set (ml := bound_minus (lo_val g (r_lhs (rowi (g_lp g) r))) (vnth sl r)) in *.
  set (mu := bound_minus (up_val g (r_rhs (rowi (g_lp g) r))) (vnth sl r)) in *.
  set (a1 := if lowerFinite (rtype g r) then
               if Qltb a ml then ml else if vs_eqb (rstat g r) ON_LOWER && Qltb ml (- a) then - ml else a else a).
  assert (a <= a1 /\ (a1 <= 0 -> lowerFinite (rtype g r) = true -> ml <= 0 /\ (rstat g r = ON_LOWER -> ml == 0))) as [A1 B1].
  { subst a1. destruct (lowerFinite (rtype g r)); [|split; intros; [lra|discriminate]].
    destruct (Qltb a ml) eqn:?; qb; [split; intros; lra|].
    destruct (vs_eqb (rstat g r) ON_LOWER) eqn:S; cbn [andb].
    - destruct (Qltb ml (- a)) eqn:?; qb; split; intros; try lra.
    - split; [lra|]. intros; split; [lra|]. intros S'. apply vs_eqb_eq in S'. congruence. }
  destruct (upperFinite (rtype g r)).
  - destruct (Qltb mu (- a1)) eqn:?; qb.
    + split; [lra|]. intros H. exfalso. lra.
    + destruct (vs_eqb (rstat g r) ON_UPPER) eqn:S; cbn [andb].
      * destruct (Qltb a1 mu) eqn:?; qb.
        -- split; [lra|]. intros H. exfalso. lra.
        -- split; [lra|]. intros H. split; intros F.
           ++ destruct (B1 H F) as [B2 B3]. split; [lra|]. intros S'. specialize (B3 S'). lra.
           ++ split; [lra|]. intros _. lra.
      * split; [lra|]. intros H. split; intros F.
        -- destruct (B1 H F) as [B2 B3]. split; [lra|]. intros S'. specialize (B3 S'). lra.
        -- split; [lra|]. intros S'. apply vs_eqb_eq in S'. congruence.
  - split; [lra|]. intros H. split; intros F; [|discriminate].
    destruct (B1 H F) as [B2 B3]. split; [lra|]. intros S'. specialize (B3 S'). lra.
Qed.

Lemma sides_zero g s : sides_violation g s <= 0 ->
  forall r, (r < nrows (g_lp g))%nat -> sides_local g (s_slacks s) r.
Proof.
  intros H r Hr. unfold sides_violation in H.
  apply (fold_max_zero0 (sides_step g (s_slacks s)) (sides_local g (s_slacks s)) (sides_step_spec g (s_slacks s)) _ H).
  now apply in_down.
Qed.

(* ---------- reduced costs and duals ---------- *)
Definition sign_local (mx : bool) (t : RangeType) (st : VarStatus) (v : Q) : Prop :=
  rt_is_fixed t = true \/
  ((v < 0 -> st = if mx then ON_LOWER else ON_UPPER) /\ (0 < v -> st = if mx then ON_UPPER else ON_LOWER)).

Lemma sign_step_spec mx t st v a : 0 <= a ->
  a <= sign_step mx t st v a /\ (sign_step mx t st v a <= 0 -> sign_local mx t st v).
Proof.
  intros Ha. unfold sign_step, sign_local. destruct (rt_is_fixed t); [split; [lra|auto]|].
  cbv zeta.
  set (c1 := (mx && negb (vs_eqb st ON_LOWER)) || (negb mx && negb (vs_eqb st ON_UPPER))).
  set (c2 := (mx && negb (vs_eqb st ON_UPPER)) || (negb mx && negb (vs_eqb st ON_LOWER))).
  assert (c1 = false -> st = if mx then ON_LOWER else ON_UPPER) as C1.
  { subst c1. destruct mx; cbn [andb orb negb]; intros E.
    - rewrite orb_false_r in E. apply negb_false_iff in E. now apply vs_eqb_eq.
    - apply negb_false_iff in E. now apply vs_eqb_eq. }
  assert (c2 = false -> st = if mx then ON_UPPER else ON_LOWER) as C2.
  { subst c2. destruct mx; cbn [andb orb negb]; intros E.
    - rewrite orb_false_r in E. apply negb_false_iff in E. now apply vs_eqb_eq.
    - apply negb_false_iff in E. now apply vs_eqb_eq. }
  set (a1 := if c1 && Qltb v (- a) then - v else a).
  assert (a <= a1 /\ (a1 <= 0 -> v < 0 -> c1 = false)) as [A1 B1].
  { subst a1. destruct c1; cbn [andb]; [|split; intros; [lra|reflexivity]].
    destruct (Qltb v (- a)) eqn:?; qb; split; intros; lra. }
  destruct c2; cbn [andb].
  - destruct (Qltb a1 v) eqn:?; qb.
    + split; [lra|]. intros H. exfalso. lra.
    + split; [lra|]. intros H. right. split; intros Hv; [apply C1, B1; auto | exfalso; lra].
  - split; [lra|]. intros H. right. split; intros Hv; [apply C1, B1; auto | now apply C2].
Qed.

Lemma redcost_zero g s : redcost_violation g s <= 0 ->
  forall c, (c < ncols (g_lp g))%nat ->
    sign_local (maximize (g_lp g)) (ctype g c) (cstat g c) (vnth (s_redcost s) c).
Proof.
  intros H c Hc. unfold redcost_violation in H.
  apply (fold_max_zero0 (redcost_step g (s_redcost s))
           (fun c => sign_local (maximize (g_lp g)) (ctype g c) (cstat g c) (vnth (s_redcost s) c))) with (l := down (ncols (g_lp g))); auto.
  - intros a j Ha. apply sign_step_spec; auto.
  - now apply in_down.
Qed.

Lemma dual_zero g s : dual_violation g s <= 0 ->
  forall r, (r < nrows (g_lp g))%nat ->
    sign_local (maximize (g_lp g)) (rtype g r) (rstat g r) (vnth (s_dual s) r).
Proof.
  intros H r Hr. unfold dual_violation in H.
  apply (fold_max_zero0 (dual_step g (s_dual s))
           (fun r => sign_local (maximize (g_lp g)) (rtype g r) (rstat g r) (vnth (s_dual s) r))) with (l := down (nrows (g_lp g))); auto.
  - intros a j Ha. apply sign_step_spec; auto.
  - now apply in_down.
Qed.

(* violations are never negative *)
Lemma fold_nonneg {A} (f : Q -> A -> Q) :
  (forall a j, 0 <= a -> a <= f a j) -> forall l a, 0 <= a -> a <= fold_left f l a.
Proof.
  intros Hm l; induction l as [|i l IH]; intros a Ha; simpl; [lra|].
  pose proof (Hm a i Ha). specialize (IH (f a i) ltac:(lra)). lra.
Qed.

Lemma violations_nonneg g s :
  0 <= bounds_violation g s /\ 0 <= sides_violation g s /\ 0 <= redcost_violation g s /\ 0 <= dual_violation g s.
Proof.
  unfold bounds_violation, sides_violation, redcost_violation, dual_violation.
  repeat split; apply fold_nonneg; try lra; intros a j Ha.
  - apply bounds_step_spec; auto.
  - apply sides_step_spec; auto.
  - apply sign_step_spec; auto.
  - apply sign_step_spec; auto.
Qed.

(* ---------- range types ---------- *)
Lemma rt_eqb_eq a b : rt_eqb a b = true <-> a = b.
Proof. destruct a, b; simpl; split; intros; try discriminate; auto. Qed.

Lemma range_type_lower lo up : lowerFinite (range_type lo up) = is_some lo.
Proof. destruct lo as [l|], up as [u|]; simpl; auto. destruct (Qeq_bool l u); auto. Qed.
Lemma range_type_upper lo up : upperFinite (range_type lo up) = is_some up.
Proof. destruct lo as [l|], up as [u|]; simpl; auto. destruct (Qeq_bool l u); auto. Qed.
Lemma range_type_fixed lo up : rt_is_fixed (range_type lo up) = true -> exists l u, lo = Some l /\ up = Some u /\ l == u.
Proof.
  destruct lo as [l|], up as [u|]; simpl; try discriminate.
  destruct (Qeq_bool l u) eqn:E; simpl; try discriminate. intros _. exists l, u. repeat split; auto. now apply Qeq_bool_iff.
Qed.

(* one variable (column with its value, or row with its activity): feasibility and complementary slackness *)
Lemma var_ok (g : gate) (mx : bool) (lo up : option Q) (t : RangeType) (st : VarStatus) (v k : Q) :
  t = range_type lo up ->
  (lowerFinite t = true -> lo_val g lo <= v) ->
  (upperFinite t = true -> v <= up_val g up) ->
  sign_local mx t st k ->
  (st = ON_LOWER -> tight_lo lo v = true) ->
  (st = ON_UPPER -> tight_up up v = true) ->
  in_lo lo v /\ in_up up v /\ cs_ok ((if mx then -1 else 1) * k) lo up v = true.
Proof.
  intros -> HL HU HS SL SU. rewrite range_type_lower in HL. rewrite range_type_upper in HU.
  assert (in_lo lo v) as IL by (destruct lo; simpl in *; auto).
  assert (in_up up v) as IU by (destruct up; simpl in *; auto).
  repeat split; auto. unfold cs_ok. apply andb_true_iff.
  destruct HS as [F|[S1 S2]].
  - apply range_type_fixed in F as (l & u & -> & -> & E). simpl in *. specialize (HL eq_refl). specialize (HU eq_refl).
    assert (l == v) by lra. assert (u == v) by lra.
    split; [destruct (Qltb 0 _)|destruct (Qltb _ 0)]; auto; now apply Qeq_bool_iff.
  - split.
    + destruct (Qltb 0 _) eqn:E; auto. qb. destruct mx.
      * apply SL, S1. lra.
      * apply SL, S2. lra.
    + destruct (Qltb _ 0) eqn:E; auto. qb. destruct mx.
      * apply SU, S2. lra.
      * apply SU, S1. lra.
Qed.

Lemma sgn_as_if p : sgn p = if maximize p then -1 else 1.
Proof. reflexivity. Qed.

Lemma cs_ok_ext k k' lo up v v' : k == k' -> v == v' -> cs_ok k lo up v = true -> cs_ok k' lo up v' = true.
Proof.
  intros Ek Ev. unfold cs_ok. rewrite !andb_true_iff. intros [A B]. split.
  - destruct (Qltb 0 k') eqn:E'; auto. destruct (Qltb 0 k) eqn:E; qb; [|lra].
    destruct lo as [l|]; simpl in *; try discriminate. apply Qeq_bool_iff in A. apply Qeq_bool_iff. lra.
  - destruct (Qltb k' 0) eqn:E'; auto. destruct (Qltb k 0) eqn:E; qb; [|lra].
    destruct up as [u|]; simpl in *; try discriminate. apply Qeq_bool_iff in B. apply Qeq_bool_iff. lra.
Qed.

(* ---------- (a) the gate: zero violations + consistent statuses ==> the exact optimality checker accepts ---------- *)
Theorem gate_zero_is_optimal g s :
  gate_consistent g s = true -> gate_zero g s = true ->
  check_opt_exact (g_lp g) (s_primal s) (s_dual s) = true.
Proof.
  unfold gate_consistent, gate_zero, types_match. cbv zeta. rewrite !andb_true_iff, !forall_lt_iff.
  intros [[[[[[Lx Ly] [TC TR]] SC] SR] HS] HD] [[[ZB ZS] ZR] ZD].
  qb. set (p := g_lp g) in *. set (x := s_primal s) in *. set (y := s_dual s) in *.
  pose proof (bounds_zero g s ZB) as LB. pose proof (sides_zero g s ZS) as LS.
  pose proof (redcost_zero g s ZR) as LR. pose proof (dual_zero g s ZD) as LD.
  fold p in LB, LS, LR, LD. fold x in LB. fold y in LD.
  (* per column *)
  assert (forall j, (j < ncols p)%nat ->
            in_lo (c_lo (colj p j)) (vnth x j) /\ in_up (c_up (colj p j)) (vnth x j) /\
            cs_ok (sgn p * redcost p y j) (c_lo (colj p j)) (c_up (colj p j)) (vnth x j) = true) as COL.
  { intros j Hj. specialize (TC j Hj). apply rt_eqb_eq in TC. destruct (LB j Hj) as [B1 B2].
    specialize (SC j Hj). unfold col_status_ok in SC. fold p x in SC. specialize (HD j Hj). apply Qeq_bool_iff in HD.
    destruct (var_ok g (maximize p) (c_lo (colj p j)) (c_up (colj p j)) (ctype g j) (cstat g j) (vnth x j) (vnth (s_redcost s) j))
      as (A1 & A2 & A3); auto.
    - intros E. now rewrite E in SC.
    - intros E. now rewrite E in SC.
    - repeat split; auto. eapply cs_ok_ext; [| reflexivity | exact A3]. rewrite sgn_as_if. fold y in HD. rewrite HD. reflexivity. }
  (* per row *)
  assert (forall i, (i < nrows p)%nat ->
            in_lo (r_lhs (rowi p i)) (activity p i x) /\ in_up (r_rhs (rowi p i)) (activity p i x) /\
            cs_ok (sgn p * vnth y i) (r_lhs (rowi p i)) (r_rhs (rowi p i)) (activity p i x) = true) as ROW.
  { intros i Hi. specialize (TR i Hi). apply rt_eqb_eq in TR. destruct (LS i Hi) as [B1 B2]. fold p in B1, B2.
    specialize (SR i Hi). unfold row_status_ok in SR. fold p in SR. specialize (HS i Hi). apply Qeq_bool_iff in HS. fold x in HS.
    destruct (var_ok g (maximize p) (r_lhs (rowi p i)) (r_rhs (rowi p i)) (rtype g i) (rstat g i) (vnth (s_slacks s) i) (vnth y i))
      as (A1 & A2 & A3); auto.
    - intros F. apply (B1 F).
    - intros F. apply (B2 F).
    - intros E. rewrite E in SR. assert (lowerFinite (rtype g i) = true) as F by (rewrite TR, range_type_lower; exact SR).
      destruct (B1 F) as [_ T]. specialize (T E). destruct (r_lhs (rowi p i)); simpl in *; [now apply Qeq_bool_iff|discriminate].
    - intros E. rewrite E in SR. assert (upperFinite (rtype g i) = true) as F by (rewrite TR, range_type_upper; exact SR).
      destruct (B2 F) as [_ T]. specialize (T E). destruct (r_rhs (rowi p i)); simpl in *; [now apply Qeq_bool_iff|discriminate].
    - repeat split.
      + destruct (r_lhs (rowi p i)); simpl in *; auto. lra.
      + destruct (r_rhs (rowi p i)); simpl in *; auto. lra.
      + eapply cs_ok_ext; [| exact HS | exact A3]. rewrite sgn_as_if. reflexivity. }
  unfold check_opt_exact. rewrite !andb_true_iff, !forall_lt_iff. repeat split; auto.
  - apply feasible_b_iff. split; [now apply Nat.eqb_eq|]. split.
    + intros j Hj. destruct (COL j Hj) as (A & B & _). auto.
    + intros i Hi. destruct (ROW i Hi) as (A & B & _). auto.
  - intros j Hj. apply COL; auto.
  - intros i Hi. apply ROW; auto.
Qed.

Corollary gate_zero_optimal g s :
  gate_consistent g s = true -> gate_zero g s = true -> optimal (g_lp g) (s_primal s).
Proof. intros H1 H2. eapply opt_cert_sound, gate_zero_is_optimal; eauto. Qed.

(* ---------- the hypothesis "range types match the bounds" is needed ----------
   With a stale (mirrored) row type the four violations are zero on a point that violates the row: this is the state the
   history family of checks/C03.py looks for after every solve (_rowTypes / _colTypes against the types of the LP held). *)
(* min x  s.t.  1/3 x >= 1/7,  x >= 0;  the row type is mirrored (UPPER instead of LOWER) *)
Definition stale_lp : lp :=
  {| maximize := false; offset := 0;
     cols := [ {| c_obj := 1; c_lo := Some 0; c_up := None |} ];
     rows := [ {| r_lhs := Some (1 # 7); r_coef := [1 # 3]; r_rhs := None |} ] |}.
Definition stale_gate : gate :=
  {| g_lp := stale_lp; g_infty := 10 ^ 100; g_ctypes := [RT_LOWER]; g_rtypes := [RT_UPPER];
     g_cstat := [ON_LOWER]; g_rstat := [BASIC] |}.
Definition stale_sol : rsol := {| s_primal := [0]; s_slacks := [0]; s_dual := [0]; s_redcost := [1] |}.

Lemma gate_needs_matching_types :
  exists g s,
    gate_zero g s = true /\
    forall_lt (ncols (g_lp g)) (col_status_ok g (s_primal s)) = true /\
    forall_lt (nrows (g_lp g)) (row_status_ok g) = true /\
    forall_lt (nrows (g_lp g)) (fun i => Qeq_bool (vnth (s_slacks s) i) (activity (g_lp g) i (s_primal s))) = true /\
    forall_lt (ncols (g_lp g)) (fun j => Qeq_bool (vnth (s_redcost s) j) (redcost (g_lp g) (s_dual s) j)) = true /\
    types_match g = false /\
    feasible_b (g_lp g) (s_primal s) = false /\
    check_opt_exact (g_lp g) (s_primal s) (s_dual s) = false.
Proof. exists stale_gate, stale_sol. repeat split; vm_compute; reflexivity. Qed.

(* ---------- (c) the objective value ---------- *)
Lemma dot_map_opp u v : dot u (map Qopp v) == - dot u v.
Proof.
  revert v; induction u as [|a u IH]; intros [|b v]; simpl; try reflexivity. rewrite IH. ring.
Qed.

(* what the code computes is c.x: the objective offset is missing *)
Theorem model_objval_is_cx p x : model_objval p x == dot (objvec p) x.
Proof.
  unfold model_objval, max_obj. destruct (maximize p).
  - apply dot_comm.
  - rewrite dot_map_opp, dot_comm. ring.
Qed.

Theorem objective_is_cx_plus_offset_partial p x : model_objval p x == objective p x - offset p.
Proof. unfold objective. rewrite model_objval_is_cx. ring. Qed.

Theorem objective_is_cx_plus_offset_iff p x : model_objval p x == objective p x <-> offset p == 0.
Proof. rewrite objective_is_cx_plus_offset_partial. split; intros; lra. Qed.

(* ---------- (b) the verdict automaton ---------- *)
Definition ray_of (r : aux_res) : bool := let '(c, _, _, _) := r in c.
Definition certified : aux_res := (true, false, false, false).     (* certificate, not stopped, no error *)
Definition refuted : aux_res := (false, false, false, false).      (* no certificate, not stopped, no error *)

(* what justifies a final status, read off the log (newest event first) *)
Definition justified (k : cfg) (v : status) (log : list event) : Prop :=
  (v = S_OPTIMAL ->
     exists a bl log', log = EOpt a bl :: log' /\ clean a = true /\ a_pf a = true /\ a_df a = true) /\
  (v = S_INFEASIBLE ->
     exists a t log', feas_post k a t = certified /\
       (log = EFeas a t :: log' \/ exists ua ut st si, log = EUnbd ua ut :: EFeas a t :: log' /\ unbd_post k ua ut = (ray_of (unbd_post k ua ut), st, si, false))) /\
  (v = S_UNBOUNDED ->
     (exists a t log', log = EFeas a t :: log' /\ feas_post k a t = refuted) /\
     (exists a t, last_unbd log = Some (a, t) /\ unbd_post k a t = certified)) /\
  (is_verdict v = true -> exists a, last_opt log = Some a /\ clean a = true).

Lemma justified_nonverdict k v log : is_verdict v = false -> justified k v log.
Proof. intros H. unfold justified. split; [|split; [|split]]; intros E; try (rewrite E in H; discriminate); congruence. Qed.

Lemma unbd_post_ray k a t r : unbd_post k a t = r -> ray_of r = true -> r = certified /\ clean a = true.
Proof.
  unfold unbd_post, clean. intros <-.
  destruct (a_st a), (a_si a); cbn [orb]; try (simpl; discriminate).
  destruct (a_err a); cbn [orb]; try (simpl; discriminate).
  destruct (a_unb a || a_inf a || negb (a_pf a) || negb (a_df a)); try (simpl; discriminate).
  simpl. intros ->. simpl. auto.
Qed.

Definition inv (k : cfg) (s : vstate) (log : list event) : Prop :=
  v_ray s = match last_unbd log with Some (a, t) => ray_of (unbd_post k a t) | None => false end
  /\ is_verdict (v_status s) = false.

Definition opt_ok (log : list event) : Prop := exists a, last_opt log = Some a /\ clean a = true.

Definition good (k : cfg) (r : flow * vstate * list event * list event) : Prop :=
  let '(fl, s', _, log') := r in
  match fl with
  | Break => justified k (v_status s') log' /\ (is_verdict (v_status s') = false -> inv k s' log')
  | Continue => inv k s' log'
  end.

Lemma boost_or_good k o s evs log r :
  inv k s log ->
  boost_or k o s evs log = Some r -> good k r.
Proof.
  unfold boost_or. intros [I1 I2] H.
  destruct (k_boosting k).
  - destruct evs as [|[| | |ok|] evs']; try discriminate. injection H as <-. unfold good.
    destruct ok; [split; auto|split; [now apply justified_nonverdict|intros _; split; auto]].
  - injection H as <-. unfold good. destruct o; [split; [now apply justified_nonverdict|intros _; split; auto]|split; auto].
Qed.

Lemma inv_status k s log t : inv k s log -> is_verdict t = false -> inv k (set_status s t) log.
Proof. intros [A B] H. split; auto. Qed.

Lemma good_break_nonverdict k s evs log : inv k s log -> good k (Break, s, evs, log).
Proof. intros I. unfold good. split; [apply justified_nonverdict, I|auto]. Qed.

Lemma conclude_good k inf s evs log r fa ft log0 :
  inv k s log -> opt_ok log ->
  log = EFeas fa ft :: log0 \/ (exists ua ut st si, log = EUnbd ua ut :: EFeas fa ft :: log0 /\ unbd_post k ua ut = (ray_of (unbd_post k ua ut), st, si, false) /\ inf = true) ->
  feas_post k fa ft = (inf, false, false, false) ->
  conclude k inf s evs log = Some r -> good k r.
Proof.
  intros I O HL HF H. unfold conclude in H.
  destruct inf.
  - injection H as <-. unfold good. split; [|simpl; discriminate].
    unfold justified. simpl. repeat split; try discriminate; auto.
    intros _. exists fa, ft, log0. split; auto.
    destruct HL as [->|(ua & ut & st & si & -> & E & _)]; auto. right. exists ua, ut, st, si. auto.
  - destruct (v_ray s) eqn:R.
    + injection H as <-. unfold good. split; [|simpl; discriminate].
      destruct HL as [->|(ua & ut & st & si & _ & _ & F)]; [|discriminate].
      unfold justified. simpl. repeat split; try discriminate; auto.
      * exists fa, ft, log0. auto.
      * destruct I as [I1 _]. rewrite R in I1. simpl in I1.
        destruct (last_unbd log0) as [[a t]|] eqn:L; [|discriminate].
        exists a, t. split; auto. symmetry in I1. now apply (unbd_post_ray k a t _ eq_refl) in I1.
    + eapply boost_or_good; eauto.
Qed.

Lemma opt_ok_cons e log : opt_ok log -> match e with EOpt _ _ => False | _ => True end -> opt_ok (e :: log).
Proof. intros [a [A B]] H. exists a. destruct e; simpl; try tauto; auto. Qed.

Lemma inv_cons_other k s e log :
  inv k s log -> match e with EUnbd _ _ => False | _ => True end -> inv k s (e :: log).
Proof. intros [A B] H. split; auto. destruct e; simpl; try tauto; auto. Qed.

Lemma inv_unbd k s a t log :
  is_verdict (v_status s) = false -> inv k (set_ray s (ray_of (unbd_post k a t))) (EUnbd a t :: log).
Proof. intros H. split; auto. Qed.

Lemma unb_branch_good k s evs log r :
  inv k s log -> opt_ok log -> unb_branch k s evs log = Some r -> good k r.
Proof.
  intros I O H. unfold unb_branch in H.
  destruct evs as [|[| ua tau | | |] evs2]; try discriminate.
  destruct (unbd_post k ua tau) as [[[ray ust] usi] uerr] eqn:EU.
  assert (inv k (set_ray s ray) (EUnbd ua tau :: log)) as I2.
  { replace ray with (ray_of (unbd_post k ua tau)) by (now rewrite EU). apply inv_unbd, I. }
  destruct uerr.
  { eapply boost_or_good; [|exact H]. now apply inv_status. }
  assert (inv k (set_unbNC (set_ray s ray) (negb ray)) (EUnbd ua tau :: log)) as I3 by exact I2.
  destruct ust. { injection H as <-. apply good_break_nonverdict. now apply inv_status. }
  destruct usi. { injection H as <-. apply good_break_nonverdict. now apply inv_status. }
  destruct evs2 as [|[| | fa ftau | |] evs3]; try discriminate.
  destruct (feas_post k fa ftau) as [[[inf fst_] fsi] ferr] eqn:EF.
  assert (inv k (set_unbNC (set_ray s ray) (negb ray)) (EFeas fa ftau :: EUnbd ua tau :: log)) as I4.
  { apply inv_cons_other; auto. }
  destruct ferr. { eapply boost_or_good; [|exact H]. now apply inv_status. }
  destruct fst_. { injection H as <-. apply good_break_nonverdict. now apply inv_status. }
  destruct fsi. { injection H as <-. apply good_break_nonverdict. now apply inv_status. }
  eapply conclude_good; [exact I4| | | exact EF | exact H].
  - repeat (apply opt_ok_cons; simpl; auto).
  - left. reflexivity.
Qed.

Lemma inf_branch_good k s evs log r :
  inv k s log -> opt_ok log -> inf_branch k s evs log = Some r -> good k r.
Proof.
  intros I O H. unfold inf_branch in H.
  destruct evs as [|[| | fa ftau | |] evs2]; try discriminate.
  destruct (feas_post k fa ftau) as [[[inf fst_] fsi] ferr] eqn:EF.
  assert (inv k s (EFeas fa ftau :: log)) as I2 by (apply inv_cons_other; auto).
  destruct ferr. { eapply boost_or_good; [|exact H]. now apply inv_status. }
  assert (inv k (set_infNC s (negb inf)) (EFeas fa ftau :: log)) as I3 by exact I2.
  destruct fst_. { injection H as <-. apply good_break_nonverdict. now apply inv_status. }
  destruct fsi. { injection H as <-. apply good_break_nonverdict. now apply inv_status. }
  assert (opt_ok (EFeas fa ftau :: log)) as O2 by (apply opt_ok_cons; simpl; auto).
  destruct (inf && k_testdualinf k) eqn:T.
  - apply andb_true_iff in T as [-> _].
    destruct evs2 as [|[| ua tau | | |] evs3]; try discriminate.
    destruct (unbd_post k ua tau) as [[[ray ust] usi] uerr] eqn:EU.
    assert (inv k (set_ray (set_infNC s (negb true)) ray) (EUnbd ua tau :: EFeas fa ftau :: log)) as I4.
    { replace ray with (ray_of (unbd_post k ua tau)) by (now rewrite EU). apply inv_unbd, I. }
    destruct uerr. { eapply boost_or_good; [|exact H]. now apply inv_status. }
    eapply conclude_good; [exact I4| | | exact EF | exact H].
    + apply opt_ok_cons; simpl; auto.
    + right. exists ua, tau, ust, usi. rewrite EU. simpl. auto.
  - eapply conclude_good; [exact I3| exact O2 | | exact EF | exact H]. left. reflexivity.
Qed.

Lemma loop_body_good k s evs log r :
  inv k s log -> loop_body k s evs log = Some r -> good k r.
Proof.
  intros I H. unfold loop_body in H.
  destruct evs as [|[a blim | | | |] evs1]; try discriminate.
  assert (inv k s (EOpt a blim :: log)) as I1 by (apply inv_cons_other; simpl; auto).
  destruct (a_err a) eqn:Eerr; cbn [andb] in H.
  { destruct blim.
    - injection H as <-. apply good_break_nonverdict. now apply inv_status.
    - eapply boost_or_good; [|exact H]. now apply inv_status. }
  destruct (a_st a) eqn:Est. { injection H as <-. apply good_break_nonverdict. now apply inv_status. }
  destruct (a_si a) eqn:Esi. { injection H as <-. apply good_break_nonverdict. now apply inv_status. }
  assert (opt_ok (EOpt a blim :: log)) as O.
  { exists a. split; auto. unfold clean. now rewrite Eerr, Est, Esi. }
  destruct (a_unb a && negb (v_unbNC s)). { eapply unb_branch_good; eauto. }
  destruct (a_inf a && negb (v_infNC s)). { eapply inf_branch_good; eauto. }
  destruct (a_pf a && a_df a) eqn:P.
  - injection H as <-. unfold good. split; [|simpl; discriminate].
    apply andb_true_iff in P as [P1 P2].
    unfold justified. simpl. repeat split; try discriminate; auto.
    intros _. exists a, blim, log. repeat split; auto. unfold clean. now rewrite Eerr, Est, Esi.
  - eapply boost_or_good; [exact I1|exact H].
Qed.

Lemma verdict_loop_sound k : forall fuel s evs log s' log',
  inv k s log -> verdict_loop fuel k s evs log = Some (s', log') -> justified k (v_status s') log'.
Proof.
  induction fuel as [|fuel IH]; intros s evs log s' log' I H; simpl in H; try discriminate.
  destruct (loop_body k s evs log) as [[[[fl s1] evs1] log1]|] eqn:B; try discriminate.
  pose proof (loop_body_good k s evs log _ I B) as G. unfold good in G.
  destruct fl.
  - injection H as <- <-. apply G.
  - destruct evs1 as [|[| | | |st si] evs2]; try discriminate.
    assert (inv k s1 (EStop st si :: log1)) as I2 by (apply inv_cons_other; simpl; auto).
    destruct (st || si).
    + injection H as <- <-. apply justified_nonverdict, I2.
    + eapply IH; eauto.
Qed.

Theorem verdict_automaton_sound k script v log :
  optimize_rational k script = Some (v, log) -> justified k v log.
Proof.
  unfold optimize_rational. intros H.
  destruct (verdict_loop (S (length script)) k init_state script []) as [[s l]|] eqn:E; try discriminate.
  injection H as <- <-. eapply verdict_loop_sound; [|exact E]. split; reflexivity.
Qed.

(* consequences spelled out: stopped / error answers never become one of the three verdicts *)
Corollary verdict_needs_clean_answer k script v log a bl log' :
  optimize_rational k script = Some (v, log) -> log = EOpt a bl :: log' -> clean a = false -> is_verdict v = false.
Proof.
  intros H -> C. destruct (is_verdict v) eqn:V; auto.
  destruct (verdict_automaton_sound _ _ _ _ H) as (_ & _ & _ & J). destruct (J V) as (a' & L & C'). simpl in L. congruence.
Qed.
