(* C08 - executable model of the post-solve steps of SPxMainSM (src/soplex/spxmainsm.hpp, `XxxPS::execute`).

   Every step is a function on the state (x, y, s, r, cStatus, rStatus) that `SPxMainSM::unsimplify` threads through
   the history `m_hist` (walked backwards), together with the data the step recorded when the reduction was applied.
   The functions are written from the code, case split by case split.  The simplifier works in MINIMISATION form
   (`unsimplify` negates y and r of a MAXIMIZE problem before the walk and again after it; the recorded objective
   coefficients `m_obj` are negated likewise), so does this model.

   Tolerance comparisons (`EQrel(a, b, feastol())`, `isZero(z, epsilon())`, ...) are fields of the record `cmps`:
   `tol_cmps ft ep inf` mirrors the inline functions of spxdefines.hpp with the two tolerances and the infinity
   threshold of the run (this instance is extracted and replayed against the code), `exact_cmps` is the instance with
   exact comparisons used in the theorems.

   Vectors are zero-padded lists (`vnth`, `qupd`): all accesses are total, like in Vec.v.
   A step that throws in the code returns None.  No proofs in this file. *)
From Coq Require Import QArith Qabs List Bool Arith.
From SV Require Import Vec LP.
Import ListNotations.
Local Open Scope Q_scope.

(* SPxSolverBase::VarStatus *)
Inductive vstat := ON_UPPER | ON_LOWER | FIXED | ZERO | BASIC | UNDEFINED.

Definition vstat_eqb (a b : vstat) : bool :=
  match a, b with
  | ON_UPPER, ON_UPPER | ON_LOWER, ON_LOWER | FIXED, FIXED | ZERO, ZERO | BASIC, BASIC | UNDEFINED, UNDEFINED => true
  | _, _ => false
  end.
Definition is_basic (a : vstat) : bool := vstat_eqb a BASIC.

(* in-place update of a padded list *)
Fixpoint upd {A : Type} (d : A) (l : list A) (i : nat) (v : A) : list A :=
  match l, i with
  | [], O => [v]
  | [], S k => d :: upd d [] k v
  | _ :: t, O => v :: t
  | a :: t, S k => a :: upd d t k v
  end.
Definition qupd (l : list Q) (i : nat) (v : Q) : list Q := upd 0 l i v.
Definition snth (l : list vstat) (i : nat) : vstat := nth i l UNDEFINED.
Definition supd (l : list vstat) (i : nat) (v : vstat) : list vstat := upd UNDEFINED l i v.

(* sparse vectors (DSVectorBase): (index, value) pairs in storage order *)
Definition svec := list (nat * Q).
Fixpoint sget (v : svec) (i : nat) : Q :=
  match v with
  | [] => 0
  | (k, a) :: t => if Nat.eqb k i then a else sget t i
  end.
(* sum_k value(k) * x[index(k)] *)
Fixpoint sdot (v : svec) (x : list Q) : Q :=
  match v with
  | [] => 0
  | (k, a) :: t => a * vnth x k + sdot t x
  end.
(* the same sum without the entries of index `skip` *)
Fixpoint sdot_skip (v : svec) (skip : nat) (x : list Q) : Q :=
  match v with
  | [] => 0
  | (k, a) :: t => (if Nat.eqb k skip then 0 else a * vnth x k) + sdot_skip t skip x
  end.
(* s[index(k)] += value(k) * c  for all k *)
Fixpoint sadd (v : svec) (c : Q) (s : list Q) : list Q :=
  match v with
  | [] => s
  | (k, a) :: t => sadd t c (qupd s k (vnth s k + a * c))
  end.
Fixpoint sadd_skip (v : svec) (skip : nat) (c : Q) (s : list Q) : list Q :=
  match v with
  | [] => s
  | (k, a) :: t => sadd_skip t skip c (if Nat.eqb k skip then s else qupd s k (vnth s k + a * c))
  end.

Record st := mkst { sx : list Q; sy : list Q; ss : list Q; sr : list Q; scs : list vstat; srs : list vstat }.

Definition set_x (t : st) (j : nat) (v : Q) := mkst (qupd (sx t) j v) (sy t) (ss t) (sr t) (scs t) (srs t).
Definition set_y (t : st) (i : nat) (v : Q) := mkst (sx t) (qupd (sy t) i v) (ss t) (sr t) (scs t) (srs t).
Definition set_s (t : st) (i : nat) (v : Q) := mkst (sx t) (sy t) (qupd (ss t) i v) (sr t) (scs t) (srs t).
Definition set_r (t : st) (j : nat) (v : Q) := mkst (sx t) (sy t) (ss t) (qupd (sr t) j v) (scs t) (srs t).
Definition set_cs (t : st) (j : nat) (v : vstat) := mkst (sx t) (sy t) (ss t) (sr t) (supd (scs t) j v) (srs t).
Definition set_rs (t : st) (i : nat) (v : vstat) := mkst (sx t) (sy t) (ss t) (sr t) (scs t) (supd (srs t) i v).
Definition set_svec (t : st) (s' : list Q) := mkst (sx t) (sy t) s' (sr t) (scs t) (srs t).
Definition set_rvec (t : st) (r' : list Q) := mkst (sx t) (sy t) (ss t) r' (scs t) (srs t).
Definition gx (t : st) j := vnth (sx t) j.
Definition gy (t : st) i := vnth (sy t) i.
Definition gs (t : st) i := vnth (ss t) i.
Definition gr (t : st) j := vnth (sr t) j.
Definition gcs (t : st) j := snth (scs t) j.
Definition grs (t : st) i := snth (srs t) i.

(* "correcting the change of idx by deletion of the row / column": the element that had been moved into the hole
   goes back to the last position *)
Definition fix_row_idx (t : st) (i old_i : nat) : st :=
  if Nat.eqb i old_i then t
  else set_rs (set_y (set_s t old_i (gs t i)) old_i (gy t i)) old_i (grs t i).
Definition fix_col_idx (t : st) (j old_j : nat) : st :=
  if Nat.eqb j old_j then t
  else set_cs (set_r (set_x t old_j (gx t j)) old_j (gr t j)) old_j (gcs t j).

(* ---- comparisons ---- *)
Record cmps := {
  c_inf : Q;                       (* soplex::infinity *)
  eqrel_f : Q -> Q -> bool;        (* EQrel(a, b, feastol()) *)
  eqrel_e : Q -> Q -> bool;        (* EQrel(a, b, epsilon()) *)
  gerel_f : Q -> Q -> bool;  lerel_f : Q -> Q -> bool;
  gerel_e : Q -> Q -> bool;  lerel_e : Q -> Q -> bool;  ltrel_e : Q -> Q -> bool;
  eq_f : Q -> Q -> bool;  ne_f : Q -> Q -> bool;  lt_f : Q -> Q -> bool;  gt_f : Q -> Q -> bool;
  eq_e : Q -> Q -> bool;  gt_e : Q -> Q -> bool;
  zero_f : Q -> bool;  zero_e : Q -> bool;  zero_6 : Q -> bool;      (* isZero(a, feastol / epsilon / 1e-6) *)
  le_mf : Q -> bool;               (* a <= -feastol() *)
  ge_pf : Q -> bool;               (* a >=  feastol() *)
  lt_mf : Q -> bool;               (* a <  -feastol() *)
  gt_pf : Q -> bool                (* a >   feastol() *)
}.

Definition Qleb := Qle_bool.
Definition Qltb' (a b : Q) : bool := negb (Qle_bool b a).
Definition maxabs (a b : Q) : Q := if Qltb' (Qabs b) (Qabs a) then Qabs a else Qabs b.
Definition reldiff (a b : Q) : Q := (a - b) / (if Qltb' 1 (maxabs a b) then maxabs a b else 1).

Definition tol_cmps (ft ep inf : Q) : cmps := {|
  c_inf := inf;
  eqrel_f := fun a b => Qleb (Qabs (reldiff a b)) ft;
  eqrel_e := fun a b => Qleb (Qabs (reldiff a b)) ep;
  gerel_f := fun a b => Qltb' (- ft) (reldiff a b);
  lerel_f := fun a b => Qleb (reldiff a b) ft;
  gerel_e := fun a b => Qltb' (- ep) (reldiff a b);
  lerel_e := fun a b => Qleb (reldiff a b) ep;
  ltrel_e := fun a b => Qleb (reldiff a b) (- ep);
  eq_f := fun a b => Qleb (Qabs (a - b)) ft;
  ne_f := fun a b => Qltb' ft (Qabs (a - b));
  lt_f := fun a b => Qltb' (a - b) (- ft);
  gt_f := fun a b => Qltb' ft (a - b);
  eq_e := fun a b => Qleb (Qabs (a - b)) ep;
  gt_e := fun a b => Qltb' ep (a - b);
  zero_f := fun a => Qleb (Qabs a) ft;
  zero_e := fun a => Qleb (Qabs a) ep;
  zero_6 := fun a => Qleb (Qabs a) (1 # 1000000);
  le_mf := fun a => Qleb a (- ft);
  ge_pf := fun a => Qleb ft a;
  lt_mf := fun a => Qltb' a (- ft);
  gt_pf := fun a => Qltb' ft a
|}.

(* exact comparisons: what the tolerance versions approximate *)
Definition exact_cmps (inf : Q) : cmps := {|
  c_inf := inf;
  eqrel_f := Qeq_bool;  eqrel_e := Qeq_bool;
  gerel_f := fun a b => Qleb b a;  lerel_f := Qleb;
  gerel_e := fun a b => Qleb b a;  lerel_e := Qleb;  ltrel_e := Qltb';
  eq_f := Qeq_bool;  ne_f := fun a b => negb (Qeq_bool a b);  lt_f := Qltb';  gt_f := fun a b => Qltb' b a;
  eq_e := Qeq_bool;  gt_e := fun a b => Qltb' b a;
  zero_f := fun a => Qeq_bool a 0;  zero_e := fun a => Qeq_bool a 0;  zero_6 := fun a => Qeq_bool a 0;
  le_mf := fun a => Qltb' a 0;
  ge_pf := fun a => Qltb' 0 a;
  lt_mf := fun a => Qltb' a 0;
  gt_pf := fun a => Qltb' 0 a
|}.

Definition is_pinf (c : cmps) (v : Q) : bool := Qleb (c_inf c) v.        (* v >=  infinity *)
Definition is_ninf (c : cmps) (v : Q) : bool := Qleb v (- c_inf c).      (* v <= -infinity *)

(* z = a/scale - b/scale with scale = max(|a|,|b|,1), rounded to 0 below epsilon; returns z*scale *)
Definition scaled_diff (c : cmps) (a b : Q) : Q :=
  let sc := if Qltb' (maxabs a b) 1 then 1 else maxabs a b in
  let z := a / sc - b / sc in
  (if zero_e c z then 0 else z) * sc.

(* ------------------------------------------------------------------------------------------------------------ *)
(* RowObjPS *)
Definition exec_RowObj (i j : nat) (t : st) : st :=
  let t := set_s t i (gs t i - gx t j) in
  if is_basic (grs t i) then t
  else
    let rsi := match gcs t j with ON_UPPER => ON_LOWER | ON_LOWER => ON_UPPER | o => o end in
    set_cs (set_rs t i rsi) j ZERO.

(* FreeConstraintPS *)
Definition exec_FreeConstraint (i old_i : nat) (row : svec) (row_obj : Q) (t : st) : st :=
  let t := fix_row_idx t i old_i in
  set_rs (set_y (set_s t i (sdot row (sx t))) i row_obj) i BASIC.

(* EmptyConstraintPS *)
Definition exec_EmptyConstraint (i old_i : nat) (row_obj : Q) (t : st) : st :=
  let t := fix_row_idx t i old_i in
  set_rs (set_y (set_s t i 0) i row_obj) i BASIC.

(* FixVariablePS *)
Definition exec_FixVariable (c : cmps) (j old_j : nat) (val obj lower upper : Q) (correctIdx : bool) (col : svec) (t : st) : st :=
  let t := if correctIdx then fix_col_idx t j old_j else t in     (* no m_j != m_old_j test here: self-assignment *)
  let t := set_x t j val in
  let t := set_svec t (sadd col val (ss t)) in
  let t := set_r t j (obj - sdot col (sy t)) in
  if Qeq_bool lower upper then set_cs t j FIXED
  else set_cs t j (if eqrel_e c val lower then ON_LOWER else if eqrel_e c val upper then ON_UPPER else ZERO).

(* FixBoundsPS *)
Definition exec_FixBounds (j : nat) (status : vstat) (t : st) : st := set_cs t j status.

(* RowSingletonPS *)
(* the outcomes: row basic, y_i = row_obj, r_j = val unless kept *)
Definition rs_slack_basic (t : st) (i j : nat) (row_obj val : Q) (keep_r : bool) (cst : option vstat) : st :=
  let t1 := set_y (set_rs t i BASIC) i row_obj in
  let t2 := if keep_r then t1 else set_r t1 j val in
  match cst with Some cs' => set_cs t2 j cs' | None => t2 end.
(* x_j basic, row non-basic, y_i = val/aij, r_j = 0 *)
Definition rs_col_basic (t : st) (i j : nat) (val aij : Q) (on_lhs : bool) : st :=
  set_r (set_y (set_cs (set_rs t i (if on_lhs then ON_LOWER else ON_UPPER)) j BASIC) i (val / aij)) j 0.
(* x_j was basic already *)
Definition rs_both_basic (t : st) (i j : nat) (row_obj : Q) : st := set_r (set_y (set_rs t i BASIC) i row_obj) j 0.

Definition rs_decide (c : cmps) (t : st) (i j : nat) (lhs rhs aij val oldLo oldUp row_obj : Q) : st :=
  let newLo := if Qltb' 0 aij then lhs / aij else rhs / aij in
  let newUp := if Qltb' 0 aij then rhs / aij else lhs / aij in
  let xj := gx t j in
  let rj := gr t j in
  let slack_basic := rs_slack_basic t i j row_obj val in
  let col_basic := rs_col_basic t i j val aij in
  match gcs t j with
  | FIXED =>
      if Qleb newLo oldLo && Qleb oldUp newUp then slack_basic true None
      else if eqrel_f c newLo newUp then
        if eqrel_f c oldLo oldUp then slack_basic true None
        else if (eqrel_f c oldLo xj && le_mf c rj) || (eqrel_f c oldUp xj && ge_pf c rj)
                || (negb (eqrel_f c oldLo xj) && negb (eqrel_f c oldUp xj))
        then col_basic (eqrel_f c lhs (xj * aij))
        else slack_basic false (Some (if eqrel_f c oldLo xj then ON_LOWER else ON_UPPER))
      else if eqrel_f c newLo oldUp then
        if ge_pf c rj then col_basic (eqrel_f c (lhs / aij) xj)
        else slack_basic false (Some ON_UPPER)
      else if eqrel_f c newUp oldLo then
        if le_mf c rj then col_basic (eqrel_f c (lhs / aij) xj)
        else slack_basic false (Some ON_LOWER)
      else slack_basic true None
  | BASIC => rs_both_basic t i j row_obj
  | ON_LOWER =>
      if eqrel_f c oldLo xj then slack_basic false None
      else col_basic (eqrel_f c (lhs / aij) xj)
  | ON_UPPER =>
      if eqrel_f c oldUp xj then slack_basic false None
      else col_basic (eqrel_f c (lhs / aij) xj)
  | ZERO => slack_basic false None
  | UNDEFINED => t
  end.

Definition exec_RowSingleton (c : cmps) (i old_i j : nat) (lhs rhs obj : Q) (col : svec) (oldLo oldUp row_obj : Q) (t : st) : st :=
  let t := fix_row_idx t i old_i in
  let aij := sget col i in
  let t := set_s t i (aij * gx t j) in
  let val := obj - sdot_skip col i (sy t) in
  rs_decide c t i j lhs rhs aij val oldLo oldUp row_obj.

(* ForceConstraintPS.  Parallel arrays over the entries of m_row: objs, fixed, cols, oldLowers, oldUppers *)
Record force_ent := { fe_idx : nat; fe_a : Q; fe_obj : Q; fe_fixed : bool; fe_col : svec; fe_lo : Q; fe_up : Q }.

(* first loop: statuses and the basis candidate (index into the entry list, entry) *)
Fixpoint force_scan (c : cmps) (ents : list force_ent) (k : nat) (t : st) (best : option (nat * force_ent)) (maxv : Q)
  : st * option (nat * force_ent) :=
  match ents with
  | [] => (t, best)
  | e :: rest =>
      let j := fe_idx e in
      match gcs t j with
      | FIXED =>
          if fe_fixed e then
            let viol := Qabs (gr t j / fe_a e) in
            let onlo := eqrel_f c (fe_lo e) (gx t j) in
            let t' := set_cs t j (if onlo then ON_LOWER else ON_UPPER) in
            if Qltb' maxv viol && ((onlo && lt_mf c (gr t j)) || (eqrel_f c (fe_up e) (gx t j) && gt_pf c (gr t j)))
            then force_scan c rest (S k) t' (Some (k, e)) viol
            else force_scan c rest (S k) t' best maxv
          else force_scan c rest (S k) t best maxv
      | _ => force_scan c rest (S k) t best maxv
      end
  end.

Fixpoint force_update_r (ents : list force_ent) (k bas_k : nat) (mult : Q) (r : list Q) : list Q :=
  match ents with
  | [] => r
  | e :: rest =>
      force_update_r rest (S k) bas_k mult
        (if Nat.eqb k bas_k then r else qupd r (fe_idx e) (vnth r (fe_idx e) - fe_a e * mult))
  end.

Definition exec_ForceConstraint (c : cmps) (i old_i : nat) (lRhs : Q) (ents : list force_ent) (lhs rhs rowobj : Q) (t : st) : st :=
  let t := fix_row_idx t i old_i in
  let t := set_s t i lRhs in
  let '(t, best) := force_scan c ents 0 t None (-1) in
  match best with
  | Some (bas_k, e) =>
      let cand := fe_idx e in
      let t := set_rs (set_cs t cand BASIC) i (if eqrel_f c lRhs lhs then ON_LOWER else ON_UPPER) in
      let aij := fe_a e in
      let mult := gr t cand / aij in
      let t := set_r t cand 0 in
      let t := set_rvec t (force_update_r ents 0 bas_k mult (sr t)) in
      let val := fe_obj e - sdot_skip (fe_col e) i (sy t) in
      set_y t i (val / aij)
  | None => set_y (set_rs t i BASIC) i rowobj
  end.

(* ZeroObjColSingletonPS *)
Definition exec_ZeroObjColSingleton (c : cmps) (j i old_j : nat) (lhs rhs lower upper : Q) (row : svec) (t : st) : option st :=
  let t := fix_col_idx t j old_j in
  let aij := sget row j in
  let si0 := gs t i in
  if negb (zero_6 c si0) && is_pinf c si0 then None else
  let si := if zero_6 c si0 then 0 else si0 in
  let t := set_s t i si in
  let zs1 := scaled_diff c lhs si in
  let zs2 := scaled_diff c rhs si in
  let lo0 := if Qltb' 0 aij then zs1 / aij else zs2 / aij in
  let up0 := if Qltb' 0 aij then zs2 / aij else zs1 / aij in
  let lo := if zero_f c lo0 then 0 else lo0 in
  let up := if zero_f c up0 then 0 else up0 in
  let free := is_ninf c lower && is_pinf c upper in
  let fin (t' : option st) :=
      match t' with
      | Some t1 => let t2 := set_s t1 i (gs t1 i + aij * gx t1 j) in Some (set_r t2 j (- (1) * aij * gy t2 i))
      | None => None
      end in
  let setxc (v : Q) (s : vstat) := Some (set_cs (set_x t j v) j s) in
  fin
  match grs t i with
  | ON_LOWER =>
      if free then setxc 0 ZERO
      else if Qeq_bool lower upper then setxc lower FIXED
      else if Qltb' 0 aij then setxc upper ON_UPPER
      else if Qltb' aij 0 then setxc lower ON_LOWER
      else None
  | ON_UPPER =>
      if free then setxc 0 ZERO
      else if Qeq_bool lower upper then setxc lower FIXED
      else if Qltb' 0 aij then setxc lower ON_LOWER
      else if Qltb' aij 0 then setxc upper ON_UPPER
      else None
  | FIXED =>
      if free then setxc 0 ZERO
      else setxc ((lower + upper) / 2) FIXED
  | BASIC =>
      if gerel_f c lower lo && negb (is_ninf c lower)
      then setxc lower (if Qeq_bool lower upper then FIXED else ON_LOWER)
      else if lerel_f c upper up && negb (is_pinf c upper)
      then setxc upper (if Qeq_bool lower upper then FIXED else ON_UPPER)
      else if negb (is_ninf c lo)
      then Some (set_rs (set_cs (set_x t j lo) j BASIC) i (if Qltb' 0 aij then ON_LOWER else ON_UPPER))
      else if negb (is_pinf c up)
      then Some (set_rs (set_cs (set_x t j up) j BASIC) i (if Qltb' 0 aij then ON_UPPER else ON_LOWER))
      else None
  | _ => None
  end.

(* FreeColSingletonPS *)
Definition exec_FreeColSingleton (c : cmps) (j i old_j old_i : nat) (obj lRhs : Q) (onLhs eqCons : bool) (row : svec) (t : st) : st :=
  let t := fix_row_idx t i old_i in
  let t := fix_col_idx t j old_j in
  let aij := sget row j in
  let val := sdot_skip row j (sx t) in
  let t := set_x t j (scaled_diff c lRhs val / aij) in
  let t := set_s t i lRhs in
  let t := set_y t i (obj / aij) in
  let t := set_r t j 0 in
  let t := set_cs t j BASIC in
  set_rs t i (if eqCons then FIXED else if onLhs then ON_LOWER else ON_UPPER).

(* DoubletonEquationPS *)
Definition exec_DoubletonEquation (c : cmps) (j k i : nat) (maxSense jFixed : bool) (jObj kObj aij : Q) (strictLo strictUp : bool)
    (lo_j : Q) (col : svec) (t : st) : st :=
  let ck := gcs t k in
  let rj := gr t j in
  if negb (is_basic ck) &&
     ((vstat_eqb ck ON_LOWER && strictLo) || (vstat_eqb ck ON_UPPER && strictUp) ||
      (vstat_eqb ck FIXED &&
         ((maxSense && ((Qltb' 0 rj && strictUp) || (Qltb' rj 0 && strictLo))) ||
          (negb maxSense && ((Qltb' 0 rj && strictLo) || (Qltb' rj 0 && strictUp))))))
  then
    let aik := sget col i in
    let val := kObj - sdot_skip col i (sy t) in
    let t := set_y t i (val / aik) in
    let t := set_r t k 0 in
    let rj' := jObj - val * aij / aik in
    let t := set_r t j rj' in
    let t := if jFixed then set_cs t j FIXED
             else if gt_e c rj' 0 || (zero_e c rj' && eq_e c (gx t j) lo_j) then set_cs t j ON_LOWER
             else set_cs t j ON_UPPER in
    set_cs t k BASIC
  else t.

(* DuplicateRowsPS.  perm: None for a negative entry *)
Fixpoint dup_perm_rows (perm : list (option nat)) (i : nat) (t : st) : st :=      (* perm listed from the LAST index down *)
  match perm with
  | [] => t
  | p :: rest =>
      let t' := match p with
                | Some src => set_rs (set_y (set_s t i (gs t src)) i (gy t src)) i (grs t src)
                | None => t
                end in
      dup_perm_rows rest (pred i) t'
  end.

Fixpoint dup_rows_primal (scale : svec) (mi : nat) (t : st) : st :=
  match scale with
  | [] => t
  | (k, a) :: rest => dup_rows_primal rest mi (if Nat.eqb k mi then t else set_s t k (gs t mi / a))
  end.

(* entries: (row index, scale value, rowObj value, isLhsEqualRhs) in the order of m_scale *)
Fixpoint dup_rows_dual (ents : list (nat * Q * Q * bool)) (mi : nat) (i_rowObj : Q) (maxLhsIdx minRhsIdx : option nat) (scale0 : Q)
    (haveSet : bool) (t : st) : st :=
  match ents with
  | [] => t
  | (i, a, ro, eqlr) :: rest =>
      let is_max := match maxLhsIdx with Some m => Nat.eqb i m | None => false end in
      let is_min := match minRhsIdx with Some m => Nat.eqb i m | None => false end in
      let rmi := grs t mi in
      let same := Qltb' 0 (a * scale0) in
      let nonbasic (st_i : vstat) :=
          let t1 := set_y t i (gy t mi * a) in
          let t2 := set_y t1 mi i_rowObj in
          let t3 := set_rs t2 i st_i in
          if Nat.eqb i mi then t3 else set_rs t3 mi BASIC in
      if is_basic rmi || (haveSet && negb (Nat.eqb i mi))
      then dup_rows_dual rest mi i_rowObj maxLhsIdx minRhsIdx scale0 haveSet (set_rs (set_y t i ro) i BASIC)
      else if vstat_eqb rmi FIXED && (is_max || is_min)
      then dup_rows_dual rest mi i_rowObj maxLhsIdx minRhsIdx scale0 true
             (nonbasic (if eqlr then FIXED
                        else if is_max then (if same then ON_LOWER else ON_UPPER)
                        else (if same then ON_UPPER else ON_LOWER)))
      else if is_max && vstat_eqb rmi ON_LOWER
      then dup_rows_dual rest mi i_rowObj maxLhsIdx minRhsIdx scale0 true (nonbasic (if same then ON_LOWER else ON_UPPER))
      else if is_min && vstat_eqb rmi ON_UPPER
      then dup_rows_dual rest mi i_rowObj maxLhsIdx minRhsIdx scale0 true (nonbasic (if same then ON_UPPER else ON_LOWER))
      else if negb (Nat.eqb i mi)
      then dup_rows_dual rest mi i_rowObj maxLhsIdx minRhsIdx scale0 haveSet (set_rs (set_y t i ro) i BASIC)
      else dup_rows_dual rest mi i_rowObj maxLhsIdx minRhsIdx scale0 haveSet t
  end.

Definition exec_DuplicateRows (mi : nat) (i_rowObj : Q) (maxLhsIdx minRhsIdx : option nat) (isLast : bool)
    (ents : list (nat * Q * Q * bool)) (perm : list (option nat)) (t : st) : st :=
  let t := if isLast then dup_perm_rows (rev perm) (pred (length perm)) t else t in
  let scale := map (fun e => match e with (i, a, _, _) => (i, a) end) ents in
  let t := dup_rows_primal scale mi t in
  let scale0 := match ents with (_, a, _, _) :: _ => a | [] => 0 end in
  dup_rows_dual ents mi i_rowObj maxLhsIdx minRhsIdx scale0 false t.

(* DuplicateColsPS *)
Fixpoint dup_perm_cols (perm : list (option nat)) (i : nat) (t : st) : st :=
  match perm with
  | [] => t
  | p :: rest =>
      let t' := match p with
                | Some src => set_cs (set_r (set_x t i (gx t src)) i (gr t src)) i (gcs t src)
                | None => t
                end in
      dup_perm_cols rest (pred i) t'
  end.

Definition zero_status (c : cmps) (lo up : Q) : option vstat :=
  if zero_e c lo && zero_e c up && Qeq_bool lo up then Some FIXED
  else if zero_e c lo then Some ON_LOWER
  else if zero_e c up then Some ON_UPPER
  else if lerel_e c lo 0 && gerel_e c up 0 then Some ZERO
  else None.

Definition exec_DuplicateCols (c : cmps) (j k : nat) (loJ upJ loK upK scale : Q) (isFirst isLast : bool) (perm : list (option nat))
    (t : st) : option st :=
  if isFirst then Some t
  else if isLast then Some (dup_perm_cols (rev perm) (pred (length perm)) t)
  else
    let fixJ (s : vstat) := if Qeq_bool loJ upJ then FIXED else s in
    let fixK (s : vstat) := if Qeq_bool loK upK then FIXED else s in
    let fin (o : option st) := match o with Some t1 => Some (set_r t1 j (scale * gr t1 k)) | None => None end in
    let xk := gx t k in
    (* x_j at a bound, x_k keeps the rest *)
    let j_at (v : Q) (s : vstat) := Some (set_x (set_cs (set_x t j v) j (fixJ s)) k (xk - scale * v)) in
    (* x_k at a bound, x_j basic with the scaled rest *)
    let k_at (bk : Q) (s : vstat) := Some (set_x (set_cs (set_x (set_cs t k (fixK s)) k bk) j BASIC) j (scaled_diff c xk bk / scale)) in
    fin
    match gcs t k with
    | ON_LOWER =>
        let t1 := set_x t k loK in
        if Qltb' 0 scale then Some (set_cs (set_x t1 j loJ) j (fixJ ON_LOWER))
        else Some (set_cs (set_x t1 j upJ) j (fixJ ON_UPPER))
    | ON_UPPER =>
        let t1 := set_x t k upK in
        if Qltb' 0 scale then Some (set_cs (set_x t1 j upJ) j (fixJ ON_UPPER))
        else Some (set_cs (set_x t1 j loJ) j (fixJ ON_LOWER))
    | FIXED => Some (set_cs (set_x t j loJ) j FIXED)
    | ZERO =>
        match zero_status c loK upK with
        | None => None
        | Some sk =>
            match zero_status c loJ upJ with
            | None => None
            | Some sj => Some (set_cs (set_x (set_cs t k sk) j 0) j sj)
            end
        end
    | BASIC =>
        if is_ninf c loJ && is_pinf c upJ && is_ninf c loK && is_pinf c upK
        then Some (set_x (set_cs t j ZERO) j 0)
        else if Qltb' 0 scale then
          if gerel_e c xk (upK + scale * upJ) then j_at upJ ON_UPPER
          else if gerel_e c xk (loK + scale * upJ) && negb (is_pinf c upJ) then j_at upJ ON_UPPER
          else if gerel_e c xk (upK + scale * loJ) && negb (is_pinf c upK) then k_at upK ON_UPPER
          else if gerel_e c xk (loK + scale * loJ) && negb (is_ninf c loJ) then j_at loJ ON_LOWER
          else if gerel_e c xk (loK + scale * loJ) && negb (is_ninf c loK) then k_at loK ON_LOWER
          else if ltrel_e c xk (loK + scale * loJ) then j_at loJ ON_LOWER
          else None
        else
          if gerel_e c xk (upK + scale * loJ) then j_at loJ ON_LOWER
          else if gerel_e c xk (loK + scale * loJ) && negb (is_ninf c loJ) then j_at loJ ON_LOWER
          else if gerel_e c xk (upK + scale * upJ) && negb (is_pinf c upK) then k_at upK ON_UPPER
          else if gerel_e c xk (loK + scale * upJ) && negb (is_pinf c upJ) then j_at upJ ON_UPPER
          else if gerel_e c xk (loK + scale * upJ) && negb (is_ninf c loK) then k_at loK ON_LOWER
          else if ltrel_e c xk (loK + scale * upJ) then j_at upJ ON_UPPER
          else None
    | UNDEFINED => Some t
    end.

(* AggregationPS *)
Fixpoint agg_active (row : svec) (j : nat) (x : list Q) (acc : option (nat * Q)) : option (nat * Q) :=
  match row with
  | [] => acc
  | (k, a) :: rest => agg_active rest j x (if Nat.eqb k j then acc else Some (k, a * vnth x k))
  end.

(* the basis part of AggregationPS::execute (after commit 506310f): does x_k (= active) have to enter the basis? *)
Definition agg_decide (c : cmps) (active : nat) (oldupper oldlower : Q) (t : st) : bool * st :=
  let xa := gx t active in
  let ra := gr t active in
  match gcs t active with
  | ON_UPPER => (ne_f c xa oldupper, t)
  | ON_LOWER => (ne_f c xa oldlower, t)
  | FIXED =>
      let au := eq_f c xa oldupper in
      let al := eq_f c xa oldlower in
      if au && al then (false, t)
      else if au && Qleb ra 0 then (false, set_cs t active ON_UPPER)
      else if al && Qleb 0 ra then (false, set_cs t active ON_LOWER)
      else (true, t)
  | _ => (false, t)
  end.

Definition exec_Aggregation (c : cmps) (j i old_j old_i : nat) (upper lower obj oldupper oldlower rhs : Q) (row col : svec) (t : st)
  : option st :=
  let t := fix_row_idx t i old_i in
  let t := fix_col_idx t j old_j in
  let aij := sget row j in
  match agg_active row j (sx t) None with
  | None => None
  | Some (active, val) =>
      let t := set_x t j (scaled_diff c rhs val / aij) in
      let t := set_s t i rhs in
      let t := set_svec t (sadd_skip col i (rhs / aij) (ss t)) in
      let z := obj - sdot_skip col i (sy t) in
      let t := set_y t i (z / aij) in
      let t := set_r t j 0 in
      let '(toBasis, t) := agg_decide c active oldupper oldlower t in
      let res :=
        if toBasis
        then
          let aik := sget row active in
          let ra := gr t active in
          let t1 := set_y t i (gy t i + ra / aik) in
          let t1 := set_r t1 j (- (aij / aik) * ra) in
          let t1 := set_r (set_cs t1 active BASIC) active 0 in
          if eq_f c (gx t1 j) upper then Some (set_cs t1 j ON_UPPER)
          else if eq_f c (gx t1 j) lower then Some (set_cs t1 j ON_LOWER)
          else if is_pinf c upper && is_ninf c lower then Some (set_cs t1 j ZERO)
          else None
        else Some (set_cs t j BASIC) in
      match res with
      | Some t2 => Some (set_rs t2 i ON_UPPER)
      | None => None
      end
  end.

(* the rule before commit 506310f (kept for the refutation example `aggregation_dual_refuted`): the remaining variable
   is put into the basis with reduced cost 0 but the row dual is not recomputed *)
Definition exec_Aggregation_old (c : cmps) (j i old_j old_i : nat) (upper lower obj oldupper oldlower rhs : Q) (row col : svec) (t : st)
  : option st :=
  let t := fix_row_idx t i old_i in
  let t := fix_col_idx t j old_j in
  let aij := sget row j in
  match agg_active row j (sx t) None with
  | None => None
  | Some (active, val) =>
      let t := set_x t j (scaled_diff c rhs val / aij) in
      let t := set_s t i rhs in
      let t := set_svec t (sadd_skip col i (rhs / aij) (ss t)) in
      let z := obj - sdot_skip col i (sy t) in
      let t := set_y t i (z / aij) in
      let t := set_r t j 0 in
      let ca := gcs t active in
      let xa := gx t active in
      let res :=
        if ((vstat_eqb ca ON_UPPER || vstat_eqb ca FIXED) && ne_f c xa oldupper)
           || ((vstat_eqb ca ON_LOWER || vstat_eqb ca FIXED) && ne_f c xa oldlower)
        then
          let t1 := set_r (set_cs t active BASIC) active 0 in
          if eq_f c (gx t1 j) upper then Some (set_cs t1 j ON_UPPER)
          else if eq_f c (gx t1 j) lower then Some (set_cs t1 j ON_LOWER)
          else if is_pinf c upper && is_ninf c lower then Some (set_cs t1 j ZERO)
          else None
        else Some (set_cs t j BASIC) in
      match res with
      | Some t2 => Some (set_rs t2 i ON_UPPER)
      | None => None
      end
  end.

(* MultiAggregationPS (after commit aa39d1d) *)
Definition exec_MultiAggregation (c : cmps) (j i old_j old_i : nat) (obj const : Q) (onLhs eqCons : bool) (row col : svec) (t : st) : st :=
  let t := fix_row_idx t i old_i in
  let t := fix_col_idx t j old_j in
  let aij := sget row j in
  let val := sdot_skip row j (sx t) in
  let t := set_x t j (scaled_diff c const val / aij) in
  let t := set_s t i const in
  let t := set_svec t (sadd_skip col i (const / aij) (ss t)) in
  let z := obj - sdot_skip col i (sy t) in
  let t := set_y t i (z / aij) in
  let t := set_r t j 0 in
  let t := set_cs t j BASIC in
  set_rs t i (if eqCons then FIXED else if onLhs then ON_LOWER else ON_UPPER).

(* the rule before commit aa39d1d (kept for the refutation example): slack of the aggregated row set to 0, the slacks
   of the other rows containing x_j not shifted back *)
Definition exec_MultiAggregation_old (c : cmps) (j i old_j old_i : nat) (obj const : Q) (onLhs eqCons : bool) (row col : svec) (t : st) : st :=
  let t := fix_row_idx t i old_i in
  let t := fix_col_idx t j old_j in
  let aij := sget row j in
  let val := sdot_skip row j (sx t) in
  let t := set_x t j (scaled_diff c const val / aij) in
  let t := set_s t i 0 in
  let z := obj - sdot_skip col i (sy t) in
  let t := set_y t i (z / aij) in
  let t := set_r t j 0 in
  let t := set_cs t j BASIC in
  set_rs t i (if eqCons then FIXED else if onLhs then ON_LOWER else ON_UPPER).

(* TightenBoundsPS *)
Definition exec_TightenBounds (c : cmps) (j : nat) (origupper origlower : Q) (t : st) : st :=
  let xj := gx t j in
  match gcs t j with
  | FIXED =>
      if lt_f c xj origupper && gt_f c xj origlower then set_cs t j BASIC
      else if lt_f c xj origupper then set_cs t j ON_LOWER
      else if gt_f c xj origlower then set_cs t j ON_UPPER
      else t
  | ON_LOWER => if gt_f c xj origlower then set_cs t j BASIC else t
  | ON_UPPER => if lt_f c xj origupper then set_cs t j BASIC else t
  | _ => t
  end.

(* FreeZeroObjVariablePS *)
Record fz_ent := { fz_row : nat; fz_a : Q; fz_lrhs : Q; fz_rowobj : Q; fz_rowvec : svec }.

Fixpoint fz_move_rows (ents : list fz_ent) (ridx : nat) (t : st) : st :=
  match ents with
  | [] => t
  | e :: rest =>
      let src := fz_row e in
      fz_move_rows rest (S ridx) (set_rs (set_y (set_s t ridx (gs t src)) ridx (gy t src)) ridx (grs t src))
  end.

(* scan of the rows: returns (slack values in order, best bound, index k of the dominating row) *)
Fixpoint fz_scan (c : cmps) (loFree : bool) (j : nat) (x : list Q) (ents : list fz_ent) (k : nat) (best : Q) (dom : option nat)
    (acc : list Q) : list Q * Q * option nat :=
  match ents with
  | [] => (rev acc, best, dom)
  | e :: rest =>
      let val := sdot_skip (fz_rowvec e) j x in
      let b := scaled_diff c (fz_lrhs e) val / sget (fz_rowvec e) j in
      if (if loFree then Qltb' b best else Qltb' best b)
      then fz_scan c loFree j x rest (S k) b (Some k) (val :: acc)
      else fz_scan c loFree j x rest (S k) best dom (val :: acc)
  end.

Fixpoint fz_finish (loFree : bool) (j : nat) (ents : list fz_ent) (slack : list Q) (k : nat) (dom : option nat) (xj : Q) (t : st) : st :=
  match ents, slack with
  | e :: rest, sl :: srest =>
      let i := fz_row e in
      let t1 := set_y (set_s t i (sl + fz_a e * xj)) i (fz_rowobj e) in
      let isdom := match dom with Some d => Nat.eqb d k | None => false end in
      let t2 := if isdom
                then set_rs (set_cs t1 j BASIC) i
                       (if loFree then (if Qltb' 0 (fz_a e) then ON_UPPER else ON_LOWER)
                        else (if Qltb' 0 (fz_a e) then ON_LOWER else ON_UPPER))
                else set_rs t1 i BASIC in
      fz_finish loFree j rest srest (S k) dom xj t2
  | _, _ => t
  end.

(* m_rowObj is indexed by position k in the code through `m_rowObj[idx]` with idx a ROW index: the code reads
   m_rowObj[m_col.index(k)] on a sparse vector filled with add(k, ...), i.e. the entry whose stored index equals the
   row number.  The recorded fz_rowobj of an entry is therefore the value the code reads for that row (the harness
   evaluates `m_rowObj[idx]`). *)
Definition exec_FreeZeroObjVariable (c : cmps) (j old_j old_i : nat) (bnd : Q) (loFree : bool) (ents : list fz_ent) (t : st) : st :=
  let t := fix_col_idx t j old_j in
  let t := fz_move_rows ents (S old_i - length ents)%nat t in
  let '(slack, best, dom) := fz_scan c loFree j (sx t) ents 0 (if loFree then c_inf c else - c_inf c) None [] in
  let use_bnd := if loFree then Qltb' bnd best else Qltb' best bnd in
  let xj := if use_bnd then bnd else best in
  let dom := if use_bnd then None else dom in
  let t := set_x t j xj in
  let t := set_r t j 0 in
  let t := fz_finish loFree j ents slack 0 dom xj t in
  match dom with
  | None => set_cs t j (if loFree then ON_UPPER else ON_LOWER)
  | Some _ => t
  end.

(* ------------------------------------------------------------------------------------------------------------ *)
Inductive step :=
| RowObjPS (i j : nat)
| FreeConstraintPS (i old_i : nat) (row : svec) (row_obj : Q)
| EmptyConstraintPS (i old_i : nat) (row_obj : Q)
| FixVariablePS (j old_j : nat) (val obj lower upper : Q) (correctIdx : bool) (col : svec)
| FixBoundsPS (j : nat) (status : vstat)
| RowSingletonPS (i old_i j : nat) (lhs rhs obj : Q) (col : svec) (oldLo oldUp row_obj : Q)
| ForceConstraintPS (i old_i : nat) (lRhs : Q) (ents : list force_ent) (lhs rhs rowobj : Q)
| ZeroObjColSingletonPS (j i old_j : nat) (lhs rhs lower upper : Q) (row : svec)
| FreeColSingletonPS (j i old_j old_i : nat) (obj lRhs : Q) (onLhs eqCons : bool) (row : svec)
| DoubletonEquationPS (j k i : nat) (maxSense jFixed : bool) (jObj kObj aij : Q) (strictLo strictUp : bool) (lo_j : Q) (col : svec)
| DuplicateRowsPS (mi : nat) (i_rowObj : Q) (maxLhsIdx minRhsIdx : option nat) (isLast : bool) (ents : list (nat * Q * Q * bool))
                  (perm : list (option nat))
| DuplicateColsPS (j k : nat) (loJ upJ loK upK scale : Q) (isFirst isLast : bool) (perm : list (option nat))
| AggregationPS (j i old_j old_i : nat) (upper lower obj oldupper oldlower rhs : Q) (row col : svec)
| MultiAggregationPS (j i old_j old_i : nat) (obj const : Q) (onLhs eqCons : bool) (row col : svec)
| TightenBoundsPS (j : nat) (origupper origlower : Q)
| FreeZeroObjVariablePS (j old_j old_i : nat) (bnd : Q) (loFree : bool) (ents : list fz_ent).

Definition execute (c : cmps) (p : step) (t : st) : option st :=
  match p with
  | RowObjPS i j => Some (exec_RowObj i j t)
  | FreeConstraintPS i oi row ro => Some (exec_FreeConstraint i oi row ro t)
  | EmptyConstraintPS i oi ro => Some (exec_EmptyConstraint i oi ro t)
  | FixVariablePS j oj val obj lo up ci col => Some (exec_FixVariable c j oj val obj lo up ci col t)
  | FixBoundsPS j s => Some (exec_FixBounds j s t)
  | RowSingletonPS i oi j lhs rhs obj col olo oup ro => Some (exec_RowSingleton c i oi j lhs rhs obj col olo oup ro t)
  | ForceConstraintPS i oi lr ents lhs rhs ro => Some (exec_ForceConstraint c i oi lr ents lhs rhs ro t)
  | ZeroObjColSingletonPS j i oj lhs rhs lo up row => exec_ZeroObjColSingleton c j i oj lhs rhs lo up row t
  | FreeColSingletonPS j i oj oi obj lr onl eqc row => Some (exec_FreeColSingleton c j i oj oi obj lr onl eqc row t)
  | DoubletonEquationPS j k i ms jf jo ko aij slo sup loj col => Some (exec_DoubletonEquation c j k i ms jf jo ko aij slo sup loj col t)
  | DuplicateRowsPS mi iro mx mn il ents perm => Some (exec_DuplicateRows mi iro mx mn il ents perm t)
  | DuplicateColsPS j k loJ upJ loK upK sc isf isl perm => exec_DuplicateCols c j k loJ upJ loK upK sc isf isl perm t
  | AggregationPS j i oj oi up lo obj oup olo rhs row col => exec_Aggregation c j i oj oi up lo obj oup olo rhs row col t
  | MultiAggregationPS j i oj oi obj cst onl eqc row col => Some (exec_MultiAggregation c j i oj oi obj cst onl eqc row col t)
  | TightenBoundsPS j ou ol => Some (exec_TightenBounds c j ou ol t)
  | FreeZeroObjVariablePS j oj oi bnd lf ents => Some (exec_FreeZeroObjVariable c j oj oi bnd lf ents t)
  end.

(* the walk of `unsimplify` over the history (last reduction first) *)
Fixpoint run_steps (c : cmps) (hist_rev : list step) (t : st) : option st :=
  match hist_rev with
  | [] => Some t
  | p :: rest => match execute c p t with Some t' => run_steps c rest t' | None => None end
  end.

Definition count_basic (l : list vstat) : nat := length (filter is_basic l).

(* ------------------------------------------------------------------------------------------------------------ *)
(* The reductions behind the steps as LP-to-LP maps (LP before the reduction |-> LP after it), and what the
   constructors of the PostStep classes record.  Used by the step theorems; the ORDER in which the simplifier applies
   reductions and its decision which ones fire are not modelled.  LPs are in minimisation form here. *)

(* removal of element i, the last element moves into the hole (SPxLPBase::removeRow / removeCol) *)
Definition swap_remove {A} (d : A) (i : nat) (l : list A) : list A :=
  map (fun k => if Nat.eqb k i then nth (length l - 1) l d else nth k l d) (seq 0 (length l - 1)).

Definition coef (P : lp) (i j : nat) : Q := vnth (r_coef (rowi P i)) j.

(* sparse copy of a dense vector given by its entries (lp.colVector(j), lp.rowVector(i)) *)
Definition sp_of (f : nat -> Q) (n : nat) : svec :=
  flat_map (fun k => if Qeq_bool (f k) 0 then [] else [(k, f k)]) (seq 0 n).
Definition sp_col (P : lp) (j : nat) : svec := sp_of (fun i => coef P i j) (nrows P).
Definition sp_row (P : lp) (i : nat) : svec := sp_of (fun j => coef P i j) (ncols P).

Definition shift_side (o : option Q) (d : Q) : option Q := option_map (fun v => v - d) o.

(* FreeConstraintPS / EmptyConstraintPS: row i is dropped *)
Definition red_remove_row (P : lp) (i : nat) : lp :=
  {| maximize := maximize P; offset := offset P; cols := cols P; rows := swap_remove drow i (rows P) |}.

(* FixVariablePS: column j is fixed at val and dropped; sides move by a_ij * val, the objective offset by c_j * val *)
Definition red_FixVariable (P : lp) (j : nat) (val : Q) : lp :=
  {| maximize := maximize P; offset := offset P + c_obj (colj P j) * val;
     cols := swap_remove dcol j (cols P);
     rows := map (fun rw => {| r_lhs := shift_side (r_lhs rw) (vnth (r_coef rw) j * val);
                               r_coef := swap_remove 0 j (r_coef rw);
                               r_rhs := shift_side (r_rhs rw) (vnth (r_coef rw) j * val) |}) (rows P) |}.
Definition rec_FixVariable (P : lp) (j : nat) (val : Q) (correctIdx : bool) : step :=
  FixVariablePS j (ncols P - 1) val (c_obj (colj P j))
    (match c_lo (colj P j) with Some l => l | None => - (1) end)      (* only compared with each other and with val *)
    (match c_up (colj P j) with Some u => u | None => 1 end)
    correctIdx (sp_col P j).

(* FixBoundsPS: both bounds of column j become val (the column is removed by a later FixVariable) *)
Definition red_FixBounds (P : lp) (j : nat) (val : Q) : lp :=
  {| maximize := maximize P; offset := offset P;
     cols := upd dcol (cols P) j {| c_obj := c_obj (colj P j); c_lo := Some val; c_up := Some val |};
     rows := rows P |}.

(* RowObjPS (handleRowObjectives): a slack column n with cost w, coefficient 1 in row i and bounds [-rhs_i, -lhs_i] is
   appended, row i becomes the equation  A_i x + x_n = 0.  (The row objective itself has no counterpart in LP.v.) *)
Definition red_RowObj (P : lp) (i : nat) (w : Q) : lp :=
  {| maximize := maximize P; offset := offset P;
     cols := cols P ++ [{| c_obj := w; c_lo := option_map Qopp (r_rhs (rowi P i)); c_up := option_map Qopp (r_lhs (rowi P i)) |}];
     rows := map (fun k => if Nat.eqb k i
                           then {| r_lhs := Some 0; r_coef := r_coef (rowi P k) ++ [1]; r_rhs := Some 0 |}
                           else {| r_lhs := r_lhs (rowi P k); r_coef := r_coef (rowi P k) ++ [0]; r_rhs := r_rhs (rowi P k) |})
                 (seq 0 (nrows P)) |}.

(* number of BASIC entries among the first n *)
Fixpoint cntb (l : list vstat) (n : nat) : nat :=
  match n with O => O | S k => (cntb l k + (if is_basic (snth l k) then 1 else 0))%nat end.

(* the invariants of the walk, for an LP in minimisation form *)
Definition prim_ident (P : lp) (t : st) : Prop := forall i, (i < nrows P)%nat -> gs t i == activity P i (sx t).
Definition dual_ident (P : lp) (t : st) : Prop :=
  forall j, (j < ncols P)%nat -> gr t j == c_obj (colj P j) - vnth (tmat_vec (matrix P) (sy t)) j.
Definition in_bounds (lo up : option Q) (v : Q) : Prop := in_lo lo v /\ in_up up v.
Definition prim_feas (P : lp) (t : st) : Prop :=
  (forall j, (j < ncols P)%nat -> in_bounds (c_lo (colj P j)) (c_up (colj P j)) (gx t j)) /\
  (forall i, (i < nrows P)%nat -> in_bounds (r_lhs (rowi P i)) (r_rhs (rowi P i)) (gs t i)).
(* complementary slackness in minimisation form: a positive multiplier needs the lower side tight, a negative the upper *)
Definition cs_prop (k : Q) (lo up : option Q) (v : Q) : Prop :=
  (0 < k -> match lo with Some l => l == v | None => False end) /\
  (k < 0 -> match up with Some u => u == v | None => False end).
Definition dual_signs (P : lp) (t : st) : Prop :=
  (forall j, (j < ncols P)%nat -> cs_prop (gr t j) (c_lo (colj P j)) (c_up (colj P j)) (gx t j)) /\
  (forall i, (i < nrows P)%nat -> cs_prop (gy t i) (r_lhs (rowi P i)) (r_rhs (rowi P i)) (gs t i)).
Definition basis_count (P : lp) (t : st) : Prop := (cntb (scs t) (ncols P) + cntb (srs t) (nrows P) = nrows P)%nat.
Definition wf_lp (P : lp) : Prop := forall i, (i < nrows P)%nat -> length (r_coef (rowi P i)) = ncols P.
