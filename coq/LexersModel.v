(* C13 - byte-level models, with explicit buffers and cursors, of the three hand-written lexers of the file readers.

   (a) the settings-line parser  SoPlexBase<R>::_parseSettingsLine / parseSettingsString  (soplex.hpp) as a cursor
       machine over a NUL-terminated buffer; a read outside the buffer is the result [Oob].  The token-level model is
       SettingsLexer.tokenise (shared with C15); Lexers_Proofs.v shows that the cursor machine computes the same tokens.
   (b) MPSInput::readLine (mpsinput.cpp) over the 256-byte m_buf, with the std::istream::getline flag semantics
       (libstdc++), the comment / blank-line loop, the fixed-format detection, patch_field, the strtok field splitting
       and the 'MARKER' loop.  [eofcheck = false] is the code of the original tree, [eofcheck = true] the repaired
       condition (proposed_fixes/C13-mps-eof.diff).
   (c) the copy loops of LPFreadValue / LPFreadColName / LPFhasRowName (spxlpbase_real.hpp, spxlpbase_rational.hpp)
       into their fixed-size local arrays of SOPLEX_LPF_MAX_LINE_LEN = 8192 bytes, and the keyword matcher LPFhasKeyword
       with its index into the keyword literal.

   A byte is a Z; a buffer is a list of bytes; no proofs in this file. *)
From Coq Require Import ZArith Bool List Arith Lia.
From SV Require Import SettingsLexer.
Import ListNotations.
Local Open Scope Z_scope.

(* ====================================================================================================== *)
(** * (a) settings line: cursor machine *)

(* result of a sequence of reads: [Oob] = some read was outside the buffer *)
Inductive cres (A : Type) : Type :=
| Oob : cres A
| Ok : A -> cres A.
Arguments Oob {A}.
Arguments Ok {A} _.

(* The cursor is a pair (remaining suffix of the buffer, index of its first byte).  Reading at the cursor reads the
   head of the suffix; the empty suffix is the first address behind the buffer. *)
Definition cursor := (list Z * nat)%type.

(* while( *line == ' ' || *line == '\t' || *line == '\r') line++; *)
Fixpoint c_skipws (l : list Z) (i : nat) : cres cursor :=
  match l with
  | [] => Oob
  | c :: r => if is_blank c then c_skipws r (S i) else Ok (l, i)
  end.

(* while( *line != ' ' && ... && *line != '#' && *line != '\0' && *line != sep) line++;   returns the token too *)
Fixpoint c_span (sep : Z) (l : list Z) (i : nat) : cres (list Z * cursor) :=
  match l with
  | [] => Oob
  | c :: r => if is_blank c || is_eol c || (c =? 0) || (c =? sep) then Ok ([], (l, i))
              else match c_span sep r (S i) with
                   | Oob => Oob
                   | Ok (t, cur) => Ok (c :: t, cur)
                   end
  end.

(* if( *line == sep) { *line = 0; line++; }
   else { [fixed: if( *line != 0)] { *line = 0; line++; }  skip blanks;  if( *line != sep) return false;  line++; }
   [old = true] is the stepping rule before commit f3bbc2a (unconditional step).  [Ok (None, i)] = "return false" with
   the cursor at i. *)
Definition c_expect_sep (old : bool) (sep : Z) (cur : cursor) : cres (option (list Z) * nat) :=
  let (l, i) := cur in
  match l with
  | [] => Oob
  | c :: r =>
    if c =? sep then Ok (Some r, S i)
    else
      let cur1 := if old || negb (c =? 0) then (r, S i) else (l, i) in
      match c_skipws (fst cur1) (snd cur1) with
      | Oob => Oob
      | Ok (l2, i2) =>
        match l2 with
        | [] => Oob
        | c2 :: r2 => if c2 =? sep then Ok (Some r2, S i2) else Ok (None, i2)
        end
      end
  end.

(* *line == '\0' || *line == '\n' || *line == '#' *)
Definition c_at_end (l : list Z) : cres bool :=
  match l with [] => Oob | c :: _ => Ok ((c =? 0) || is_eol c) end.

(* the whole tokenising part of the parser; returns the token result and the final cursor index (the cursor only
   moves forward, so the final index is the largest address read) *)
Definition c_parse (old : bool) (buf : list Z) : cres (tokres * nat) :=
  match c_skipws buf 0 with Oob => Oob | Ok (l0, i0) =>
  match c_at_end l0 with Oob => Oob | Ok e0 =>
  if e0 then Ok (TBlank, i0) else
  match c_span 58 l0 i0 with Oob => Oob | Ok (ty, cur1) =>
  match c_expect_sep old 58 cur1 with Oob => Oob
  | Ok (None, i2) => Ok (TError, i2)
  | Ok (Some l2, i2) =>
  match c_skipws l2 i2 with Oob => Oob | Ok (l3, i3) =>
  match c_at_end l3 with Oob => Oob | Ok e3 =>
  if e3 then Ok (TError, i3) else
  match c_span 61 l3 i3 with Oob => Oob | Ok (name, cur4) =>
  match c_expect_sep old 61 cur4 with Oob => Oob
  | Ok (None, i5) => Ok (TError, i5)
  | Ok (Some l5, i5) =>
  match c_skipws l5 i5 with Oob => Oob | Ok (l6, i6) =>
  match c_at_end l6 with Oob => Oob | Ok e6 =>
  if e6 then Ok (TError, i6) else
  match c_span (-1) l6 i6 with Oob => Oob | Ok (val, (l7, i7)) =>
  match l7 with
  | [] => Oob
  | c :: r7 =>
    if c =? 0 then Ok (TOk ty name val, i7)
    else match c_skipws r7 (S i7) with Oob => Oob | Ok (l8, i8) =>
         match c_at_end l8 with Oob => Oob | Ok e8 =>
         Ok (if e8 then TOk ty name val else TError, i8)
         end end
  end end end end end end end end end end end end.

(* position of the terminator: index of the first NUL of the line *)
Definition term_pos (line : list Z) : nat := List.length (cstr line).

(* ====================================================================================================== *)
(** * (b) MPSInput::readLine *)

Record stream := mkStream { s_rest : list Z; s_eof : bool; s_fail : bool }.

Inductive how := HDelim | HEof | HFull.

(* the extraction loop of istream::getline(buf, n+1): at most n characters are stored *)
Fixpoint scan_line (n : nat) (l : list Z) : list Z * list Z * how :=
  match l with
  | [] => ([], [], HEof)
  | c :: r =>
    if c =? 10 then ([], r, HDelim)
    else match n with
         | O => ([], l, HFull)
         | S n' => let '(cs, r', h) := scan_line n' r in (c :: cs, r', h)
         end
  end.

(* std::istream::getline(m_buf, 256): characters stored (before the NUL) and the new stream state.
   With eofbit or failbit already set the sentry fails: nothing is extracted, buf[0] = 0 and failbit is set. *)
Definition getline (n : nat) (st : stream) : list Z * stream :=
  if s_eof st || s_fail st then ([], mkStream (s_rest st) (s_eof st) true)
  else
    let '(cs, r, h) := scan_line n (s_rest st) in
    match h with
    | HDelim => (cs, mkStream r false false)
    | HEof => (cs, mkStream [] true (match cs with [] => true | _ => false end))
    | HFull => (cs, mkStream r false true)
    end.

Definition BUFCAP : nat := 255.   (* sizeof(m_buf) - 1 *)

Inductive section := SName | SObjsen | SObjname | SRows | SColumns | SRhs | SRanges | SBounds | SEndata.

Record pstate := mkP { p_newfmt : bool; p_integer : bool; p_section : section; p_lineno : Z }.

Record fields := mkF { f0 : option (list Z); f1 : option (list Z); f2 : option (list Z);
                       f3 : option (list Z); f4 : option (list Z); f5 : option (list Z) }.

Inductive rl_result :=
| OutOfFuel
| RetFalse (st : stream) (ps : pstate)
| RetTrue (f : fields) (st : stream) (ps : pstate).

Definition BLANK := 32.

(* tabs, newlines, carriage returns become blanks *)
Definition norm_char (c : Z) : Z := if (c =? 9) || (c =? 10) || (c =? 13) then BLANK else c.
Definition all_blank (l : list Z) : bool := forallb (fun c => norm_char c =? BLANK) l.
Definition starts_star (l : list Z) : bool := match l with 42 :: _ => true | _ => false end.

(* clear_from(buf, pos): blanks from pos up to column 80, NUL at 80 *)
Definition clear_from (l : list Z) (pos : nat) : list Z :=
  firstn pos l ++ repeat BLANK (80 - pos).

Definition nthz (l : list Z) (k : nat) : Z := nth k l 0.

(* strtok(.., " "): skip blanks, take the characters up to the next blank, continue behind it *)
Fixpoint skip_blanks (l : list Z) : list Z :=
  match l with c :: r => if c =? BLANK then skip_blanks r else l | [] => [] end.
Fixpoint take_tok (l : list Z) : list Z * list Z :=
  match l with
  | [] => ([], [])
  | c :: r => if c =? BLANK then ([], r) else let (t, rest) := take_tok r in (c :: t, rest)
  end.
Definition strtok (l : list Z) : option (list Z * list Z) :=
  match skip_blanks l with
  | [] => None
  | l' => Some (take_tok l')
  end.

(* patch_field(buf, beg, end): blanks strictly inside the field become '_' *)
Fixpoint set_range (l : list Z) (k : nat) (b e : nat) (f : Z -> Z) : list Z :=
  match l with
  | [] => []
  | c :: r => (if (b <=? k)%nat && (k <=? e)%nat then f c else c) :: set_range r (S k) b e f
  end.
(* last index in [b, e] that is not blank, scanning downwards from e; None if the field is blank *)
Fixpoint last_nonblank (l : list Z) (b : nat) (cnt : nat) (e : nat) : option nat :=
  match cnt with
  | O => None
  | S cnt' => if negb (nthz l e =? BLANK) then Some e
              else match e with
                   | O => None
                   | S e' => if (b <=? e')%nat then last_nonblank l b cnt' e' else None
                   end
  end.
Fixpoint first_nonblank (l : list Z) (cnt : nat) (b e : nat) : option nat :=
  match cnt with
  | O => None
  | S cnt' => if (e <? b)%nat then None
              else if negb (nthz l b =? BLANK) then Some b else first_nonblank l cnt' (S b) e
  end.
Definition patch_field (l : list Z) (b e : nat) : list Z :=
  match last_nonblank l b (S (e - b)) e with
  | None => l
  | Some e' =>
    match first_nonblank l (S (e' - b)) b e' with
    | None => l
    | Some b' => set_range l 0 b' e' (fun c => if c =? BLANK then 95 else c)
    end
  end.

Definition is_digit (c : Z) : bool := (48 <=? c) && (c <=? 57).

Definition codesz (s : String.string) : list Z := codes s.
Definition MARKER := [39; 77; 65; 82; 75; 69; 82; 39].      (* 'MARKER' *)
Definition INTORG := [39; 73; 78; 84; 79; 82; 71; 39].      (* 'INTORG' *)
Definition INTEND := [39; 73; 78; 84; 69; 78; 68; 39].      (* 'INTEND' *)

Definition starts_dollar (t : list Z) : bool := match t with 36 :: _ => true | _ => false end.

(* one token that is neither missing nor a '$' comment *)
Definition next_field (l : list Z) : option (list Z * list Z) :=
  match strtok l with
  | None => None
  | Some (t, r) => if starts_dollar t then None else Some (t, r)
  end.

Definition in_data_section (s : section) : bool :=
  match s with SColumns | SRhs | SRanges | SBounds => true | _ => false end.

(* everything after the comment loop, for a line that is not a comment and not blank:
   returns (fields, new state, is_marker) *)
Definition split_line (ps : pstate) (line0 : list Z) : fields * pstate * bool :=
  let line := map norm_char line0 in
  let len := List.length line in
  let buf := if (len <? 80)%nat then clear_from line len else line in
  let nof := mkF None None None None None None in
  if negb (nthz buf 0 =? BLANK) then
    (* new section: f0 = strtok(buf), f1 = strtok(NULL) *)
    match strtok buf with
    | None => (nof, ps, false)
    | Some (t0, r0) =>
      match strtok r0 with
      | None => (mkF (Some t0) None None None None None, ps, false)
      | Some (t1, _) => (mkF (Some t0) (Some t1) None None None None, ps, false)
      end
    end
  else
    let '(buf1, newfmt) :=
      if p_newfmt ps then (buf, true)
      else
        let b1 := if (nthz buf 14 =? 36) && (nthz buf 13 =? BLANK) then clear_from buf 14
                  else if (nthz buf 39 =? 36) && (nthz buf 38 =? BLANK) then clear_from buf 39
                  else buf in
        let space := forallb (fun k => nthz b1 k =? BLANK) [12; 13; 22; 23; 36; 37; 38; 47; 48; 61; 62; 63]%nat in
        if space || (len <? 13)%nat then
          let number := existsb (fun k => is_digit (nthz b1 k)) [24; 25; 26; 27; 28; 29; 30; 31; 32; 33; 34; 35]%nat in
          if number || (len <? 13)%nat then
            (patch_field (patch_field (patch_field b1 4 12) 14 22) 39 47, false)
          else (b1, in_data_section (p_section ps))
        else (b1, true) in
    let ps1 := mkP newfmt (p_integer ps) (p_section ps) (p_lineno ps) in
    let s := tl buf1 in
    match strtok s with
    | None => (nof, ps1, false)
    | Some (t1, r1) =>
      let F1 := mkF None (Some t1) None None None None in
      match next_field r1 with
      | None => (F1, ps1, false)
      | Some (t2, r2) =>
        let mk2 := list_eqb t2 MARKER in
        let F2 := mkF None (Some t1) (Some t2) None None None in
        match next_field r2 with
        | None => (F2, ps1, mk2)
        | Some (t3, r3) =>
          let F3 := mkF None (Some t1) (Some t2) (Some t3) None None in
          (* if(is_marker) INTORG / INTEND / unknown marker: break *)
          let '(int3, brk3) :=
            if mk2 then (if list_eqb t3 INTORG then (true, false)
                         else if list_eqb t3 INTEND then (false, false) else (p_integer ps1, true))
            else (p_integer ps1, false) in
          let ps3 := mkP newfmt int3 (p_section ps) (p_lineno ps) in
          if brk3 then (F3, ps3, mk2)
          else
            let mk3 := mk2 || list_eqb t3 MARKER in
            match next_field r3 with
            | None => (F3, ps3, mk3)
            | Some (t4, r4) =>
              let F4 := mkF None (Some t1) (Some t2) (Some t3) (Some t4) None in
              let '(int4, brk4) :=
                if mk3 then (if list_eqb t4 INTORG then (true, false)
                             else if list_eqb t4 INTEND then (false, false) else (int3, true))
                else (int3, false) in
              let ps4 := mkP newfmt int4 (p_section ps) (p_lineno ps) in
              if brk4 then (F4, ps4, mk3)
              else
                match next_field r4 with
                | None => (F4, ps4, mk3)
                | Some (t5, _) => (mkF None (Some t1) (Some t2) (Some t3) (Some t4) (Some t5), ps4, mk3)
                end
            end
        end
      end
    end.

(* the condition under which readLine gives up after getline:
     original:  !good() && !eof()          repaired: fail()                                            *)
Definition gives_up (eofcheck : bool) (st : stream) : bool :=
  if eofcheck then s_fail st else (s_eof st || s_fail st) && negb (s_eof st).

(* MPSInput::readLine: every getline call costs one unit of fuel.  Both loops of the function (comment / blank lines,
   and 'MARKER' lines) go back to the same getline call. *)
Fixpoint readLine (eofcheck : bool) (fuel : nat) (st : stream) (ps : pstate) : rl_result :=
  match fuel with
  | O => OutOfFuel
  | S fuel' =>
    let (cs, st') := getline BUFCAP st in
    if gives_up eofcheck st' then RetFalse st' ps
    else
      let ps' := mkP (p_newfmt ps) (p_integer ps) (p_section ps) (p_lineno ps + 1) in
      let line := cstr cs in          (* strlen(m_buf): the line ends at its first NUL *)
      if starts_star line || all_blank line then readLine eofcheck fuel' st' ps'
      else
        let '(f, ps'', marker) := split_line ps' line in
        if marker then readLine eofcheck fuel' st' ps'' else RetTrue f st' ps''
  end.

Definition fresh_stream (bytes : list Z) : stream := mkStream bytes false false.
Definition init_pstate (sec : section) (newfmt : bool) : pstate := mkP newfmt false sec 0.

(* number of getline calls after which the repaired readLine has certainly returned *)
Definition stream_measure (st : stream) : nat :=
  if s_fail st then 0 else if s_eof st then 1 else List.length (s_rest st) + 2.

(* ====================================================================================================== *)
(** * (c) LP format: token scanners and copy loops into fixed local arrays *)

Definition LPF_CAP : nat := 8192.    (* SOPLEX_LPF_MAX_LINE_LEN *)

Definition is_dig (c : Z) : bool := (48 <=? c) && (c <=? 57).
Definition is_sign (c : Z) : bool := (c =? 43) || (c =? 45).
Definition is_e (c : Z) : bool := (c =? 101) || (c =? 69).

Fixpoint span_digits (l : list Z) : list Z * list Z :=
  match l with
  | c :: r => if is_dig c then let (d, rest) := span_digits r in (c :: d, rest) else ([], l)
  | [] => ([], [])
  end.

Definition opt_char (p : Z -> bool) (l : list Z) : list Z * list Z :=
  match l with c :: r => if p c then ([c], r) else ([], l) | [] => ([], []) end.

(* the scan of LPFreadValue: optional sign, digits, optional dot and digits, optional e / E with optional sign and
   digits and, in the rational reader, an optional slash and digits;
   returns (token = the characters between pos and s, rest, has_digits) *)
Definition scan_value (rational : bool) (l : list Z) : list Z * list Z * bool :=
  let (sg, l1) := opt_char is_sign l in
  let (d1, l2) := span_digits l1 in
  let '(frac, l3) := match l2 with
                     | 46 :: r => let (d2, r') := span_digits r in (46 :: d2, r')
                     | _ => ([], l2)
                     end in
  let '(ex, l4) := match l3 with
                   | c :: r => if is_e c then
                                 let (sg2, r1) := opt_char is_sign r in
                                 let (d3, r2) := span_digits r1 in (c :: sg2 ++ d3, r2)
                               else ([], l3)
                   | [] => ([], l3)
                   end in
  let '(dv, l5) := if rational then
                     match l4 with
                     | 47 :: r => let (d4, r') := span_digits r in (47 :: d4, r')
                     | _ => ([], l4)
                     end
                   else ([], l4) in
  let has_digits := match d1, frac with
                    | _ :: _, _ => true
                    | [], _ :: _ :: _ => true
                    | _, _ => false
                    end in
  (sg ++ d1 ++ frac ++ ex ++ dv, l5, has_digits).

(* the local array: writing index i of an array of [cap] bytes *)
Definition write (cap : nat) (buf : list Z) (i : nat) (v : Z) : option (list Z) :=
  if (i <? cap)%nat then Some (firstn i buf ++ v :: skipn (S i) buf) else None.

(* for(t = tmp; pos != s; pos++) *t++ = *pos;   *t = '\0';     None = a write outside the array *)
Fixpoint copy_loop (cap : nat) (buf : list Z) (i : nat) (tok : list Z) : option (list Z) :=
  match tok with
  | [] => write cap buf i 0
  | c :: r => match write cap buf i c with
              | None => None
              | Some buf' => copy_loop cap buf' (S i) r
              end
  end.

Definition fresh_array (cap : nat) : list Z := repeat 204 cap.   (* uninitialised stack memory, any pattern *)

Definition is_space (c : Z) : bool := (c =? 32) || (c =? 9) || (c =? 10) || (c =? 13).

Inductive lpf_res (A : Type) :=
| Overflow                                  (* a store behind the local array *)
| Done (a : A).
Arguments Overflow {A}.
Arguments Done {A} _.

(* LPFreadValue: (token passed to atof / ratFromString, or None when only a sign was found; number of bytes consumed) *)
Definition lpf_read_value (cap : nat) (rational : bool) (l : list Z) : lpf_res (option (list Z) * nat) :=
  let '(tok, rest, hd) := scan_value rational l in
  let adv := match rest with c :: _ => if is_space c then 1%nat else 0%nat | [] => 0%nat end in
  if hd then
    match copy_loop cap (fresh_array cap) 0 tok with
    | None => Overflow
    | Some arr => Done (Some (cstr arr), (List.length tok + adv)%nat)
    end
  else Done (None, (List.length tok + adv)%nat).

(* characters that end a column name: one of "+-.<>= " or NUL *)
Definition ends_name (c : Z) : bool :=
  (c =? 43) || (c =? 45) || (c =? 46) || (c =? 60) || (c =? 62) || (c =? 61) || (c =? 32) || (c =? 0).
Fixpoint span_name (l : list Z) : list Z * list Z :=
  match l with
  | c :: r => if ends_name c then ([], l) else let (t, rest) := span_name r in (c :: t, rest)
  | [] => ([], [])
  end.

(* LPFreadColName: (name looked up / added, bytes consumed) *)
Definition lpf_read_colname (cap : nat) (l : list Z) : lpf_res (list Z * nat) :=
  let (tok, rest) := span_name l in
  let adv := match rest with c :: _ => if is_space c then 1%nat else 0%nat | [] => 0%nat end in
  match copy_loop cap (fresh_array cap) 0 tok with
  | None => Overflow
  | Some arr => Done (cstr arr, (List.length tok + adv)%nat)
  end.

(* LPFhasRowName: the C string [l] (already cut at its NUL).  dcolpos = index of the first ':';
   end = last index before it that is not ' '; srt = behind the last ' ' before end.
   Result: (Some name = true was returned and name added, bytes consumed) *)
Fixpoint find_colon (l : list Z) (k : nat) : option nat :=
  match l with [] => None | c :: r => if c =? 58 then Some k else find_colon r (S k) end.
(* scanning downwards from index e (inclusive) for a byte satisfying p; the count of bytes left is e+1 *)
Fixpoint scan_down (p : Z -> bool) (l : list Z) (e : nat) : option nat :=
  if p (nthz l e) then Some e
  else match e with O => None | S e' => scan_down p l e' end.
Definition sub (l : list Z) (a b : nat) : list Z := firstn (S b - a) (skipn a l).   (* l[a..b] *)

Definition lpf_has_rowname (cap : nat) (l : list Z) : lpf_res (option (list Z) * nat) :=
  match find_colon l 0 with
  | None => Done (None, 0%nat)
  | Some O => Done (None, 1%nat)
  | Some (S d') =>
    match scan_down (fun c => negb (c =? 32)) l d' with
    | None => Done (None, S (S d'))
    | Some e =>
      let srt := match e with
                 | O => 0%nat
                 | S e' => match scan_down (fun c => c =? 32) l e' with None => 0%nat | Some k => S k end
                 end in
      match copy_loop cap (fresh_array cap) 0 (sub l srt e) with
      | None => Overflow
      | Some arr => Done (Some (cstr arr), S (S d'))
      end
    end
  end.

(* LPFhasKeyword(pos, keyword): index i into the keyword literal (its NUL is at index length kw; a read at a larger
   index is outside the literal), index k into the line.  Result: Some k = keyword found, advance by k. *)
Definition lowerc (c : Z) : Z := if (65 <=? c) && (c <=? 90) then c + 32 else c.
Definition kw_at (kw : list Z) (i : nat) : option Z :=
  if (i <? List.length kw)%nat then Some (nthz kw i) else if (i =? List.length kw)%nat then Some 0 else None.

Inductive kw_res := KwOob | KwNo | KwYes (k : nat).

(* while((tolower(pos[k]) == keyword[i]) && (pos[k] != '\0')) { k++; i++; } *)
Fixpoint kw_match_opt (fuel : nat) (kw pos : list Z) (i k : nat) : option (nat * nat) :=
  match fuel with
  | O => None
  | S f => match kw_at kw i with
           | None => None
           | Some kc => let pc := nthz pos k in
                        if (lowerc pc =? kc) && negb (pc =? 0) then kw_match_opt f kw pos (S i) (S k) else Some (i, k)
           end
  end.
(* while(keyword[i] != ']') i++;      None = read outside the literal *)
Fixpoint kw_find_close (fuel : nat) (kw : list Z) (i : nat) : option nat :=
  match fuel with
  | O => None
  | S f => match kw_at kw i with
           | None => None
           | Some c => if c =? 93 then Some i else kw_find_close f kw (S i)
           end
  end.

Fixpoint kw_loop (fuel : nat) (kw pos : list Z) (i k : nat) : kw_res :=
  match fuel with
  | O => KwOob
  | S f =>
    match kw_at kw i with
    | None => KwOob
    | Some c =>
      if c =? 0 then
        (* end of keyword: the word on the line has to end here as well *)
        let pc := nthz pos k in
        if (pc =? 0) || is_space pc || (pc =? 60) || (pc =? 62) || (pc =? 61) then KwYes k else KwNo
      else if c =? 91 then
        match kw_match_opt (S (List.length kw)) kw pos (S i) k with
        | None => KwOob
        | Some (i1, k1) =>
          match kw_find_close (S (S (List.length kw))) kw i1 with
          | None => KwOob
          | Some i2 => kw_loop f kw pos (S i2) k1           (* --k; then i++, k++ of the for loop *)
          end
        end
      else if c =? lowerc (nthz pos k) then kw_loop f kw pos (S i) (S k)
      else KwNo      (* break: keyword[i] != 0 so the final test fails *)
    end
  end.

Definition lpf_has_keyword (kw pos : list Z) : kw_res :=
  kw_loop (S (S (List.length kw))) kw pos 0 0.
