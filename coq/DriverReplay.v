(* Replay of an observed driver trace through the model (executable glue for the correspondence check; no proofs).
   The oracle answers (simplifier result, solver status, exceptions, verification bits) are read off the observed trace,
   the initial state off its first two records; everything else - which records appear, in which order, with which
   flags - is the model's prediction and is compared with the observation record by record. *)
From Coq Require Import ZArith List Bool.
From SV Require Import DriverModel.
Import ListNotations.
Local Open Scope Z_scope.

Definition ecode (e : tev) : Z := match e with (c, _, _, _, _) => c end.
Definition ea (e : tev) : Z := match e with (_, a, _, _, _) => a end.
Definition eb (e : tev) : Z := match e with (_, _, b, _, _) => b end.
Definition ec (e : tev) : Z := match e with (_, _, _, c, _) => c end.
Definition ed (e : tev) : Z := match e with (_, _, _, _, d) => d end.

Fixpoint find_code (c : Z) (l : list tev) : option tev :=
  match l with
  | [] => None
  | e :: r => if ecode e =? c then Some e else find_code c r
  end.

(* split at every record 10 (= entry of _preprocessAndSolveReal); the first part is the preamble of _optimize *)
Fixpoint split_frames (l : list tev) (cur : list tev) : list (list tev) :=
  match l with
  | [] => [rev cur]
  | e :: r => if ecode e =? 10 then rev cur :: split_frames r [e] else split_frames r (e :: cur)
  end.

Definition isone (z : Z) : bool := z =? 1.

Definition orec_of (f : list tev) : orec :=
  {| o_simp := match find_code 12 f with Some e => simp_of_code (ea e) | None => S_OKAY end;
     o_scaled := match find_code 14 f with Some e => isone (ea e) | None => false end;
     o_status := match find_code 20 f with Some e => st_of_code (eb e) | None => OTHER 0 end;
     o_throw := match find_code 32 f, find_code 61 f with None, None => false | _, _ => true end;
     o_vbits := match find_code 40 f with
                | Some e => (isone (ea e), isone (eb e), isone (ec e), isone (ed e))
                | None => match find_code 42 f with
                          | Some e => (false, false, isone (eb e), isone (ec e))
                          | None => (false, false, false, false)
                          end
                end;
     o_dualfeas := match find_code 42 f with Some e => isone (ea e) | None => true end;
     o_cycstatus := match find_code 28 f with Some e => st_of_code (ea e) | None => ABORT_CYCLING end;
     o_resbasis := match find_code 51 f with Some e => isone (ea e) | None => false end |}.

Definition dflt_orec : orec := orec_of [].

Definition init_state (pre : list tev) (first : list tev) : dstate :=
  let r1 := match find_code 1 pre with Some e => e | None => (1, 0, 0, 0, 0) end in
  let r4 := match find_code 4 pre with Some e => e | None => (4, 1, 0, 1, 0) end in
  {| simp_on := false; scaler_on := isone (eb r1); loaded := isone (ec r4); scaled := isone (ea r1);
     sol_scaled := isone (ea r1); intl := false; has_basis := isone (ed r1); status := OTHER 0; has_sol := false;
     has_ray := false; has_farkas := false; apply_pol := false;
     objlim_en := match find_code 11 first with Some e => isone (ed e) | None => true end;
     opt_calls := ea r4 - 1; unsc_calls := eb r4; sol_space := user_space; sol_ok := false; frame := O; trace := [] |}.

Inductive verdict :=
| Agree (final : dstate)
| Differ (pos : nat) (expected : option tev) (observed : option tev)
| Stuck (why : Z).       (* 1 = out of fuel, 2 = ABORT_VALUE without objective limit *)

Fixpoint first_diff (n : nat) (m o : list tev) : option (nat * option tev * option tev) :=
  match m, o with
  | [], [] => None
  | [], y :: _ => Some (n, None, Some y)
  | x :: _, [] => Some (n, Some x, None)
  | x :: m', y :: o' =>
    match x, y with
    | (c1, a1, b1, d1, e1), (c2, a2, b2, d2, e2) =>
      if (c1 =? c2) && (a1 =? a2) && (b1 =? b2) && (d1 =? d2) && (e1 =? e2) then first_diff (S n) m' o'
      else Some (n, Some x, Some y)
    end
  end.

Definition replay (P : dparams) (obs : list tev) : verdict :=
  match split_frames obs [] with
  | [] => Stuck 0
  | pre :: frames =>
    let orcs := map orec_of frames in
    let orc := fun n => nth n orcs dflt_orec in
    let s0 := init_state pre (match frames with f :: _ => f | [] => [] end) in
    let oscaled := match find_code 3 pre with Some e => isone (ea e) | None => false end in
    match optimize P orc oscaled FUEL s0 with
    | Done s =>
      match first_diff O (rev (trace s)) obs with
      | None => Agree s
      | Some (n, x, y) => Differ n x y
      end
    | OutOfFuel => Stuck 1
    | Impossible _ => Stuck 2
    end
  end.
