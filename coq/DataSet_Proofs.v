(* C19 - lemmas about the DataSet / ClassSet model (DataSetModel.v): array lemmas, the representation invariant
   ds_inv (key <-> number bijection, dense numbering, acyclic free list disjoint from the used slots), its
   preservation by every operation, refinement of the abstract list-of-(key,element) specification, key stability,
   the meaning of the permutation returned by remove(perm), reMax and operator=. *)
From Coq Require Import List ZArith Bool Lia Permutation.
From SV Require Import DataSetModel.
Import ListNotations.
Local Open Scope Z_scope.

(* ======================================================================== part 1 *)
(* ------------------------------------------------------------------ arrays *)
Lemma zlen_nonneg {A} (l : list A) : 0 <= zlen l.
Proof. unfold zlen. lia. Qed.

Lemma setnat_length {A} (l : list A) n x : length (setnat l n x) = length l.
Proof. revert n; induction l as [|y r IH]; intros [|k]; cbn; auto. Qed.

Lemma nth_setnat {A} (d : A) (l : list A) n m x :
  nth m (setnat l n x) d = if (Nat.eqb m n && Nat.ltb n (length l))%bool then x else nth m l d.
Proof.
  revert n m; induction l as [|y r IH]; intros n m.
  - cbn. destruct n, m; cbn; rewrite ?andb_false_r; reflexivity.
  - destruct n as [|k], m as [|j]; cbn; try reflexivity.
    rewrite IH. reflexivity.
Qed.

Lemma zlen_setn {A} (l : list A) i x : zlen (setn l i x) = zlen l.
Proof. unfold zlen, setn. destruct (i <? 0); [reflexivity|]. now rewrite setnat_length. Qed.

Lemma getn_setn {A} (d : A) (l : list A) i j x :
  getn d (setn l i x) j = if (j =? i) && (0 <=? i) && (i <? zlen l) then x else getn d l j.
Proof.
  unfold getn, setn, zlen.
  destruct (Z.ltb_spec i 0) as [Hi|Hi].
  - replace (0 <=? i) with false by lia. rewrite andb_false_r. reflexivity.
  - replace (0 <=? i) with true by lia. rewrite andb_true_r.
    destruct (Z.ltb_spec j 0) as [Hj|Hj].
    + replace (j =? i) with false by lia. reflexivity.
    + rewrite nth_setnat.
      destruct (Z.eqb_spec j i) as [->|Hne].
      * rewrite Nat.eqb_refl. cbn [andb].
        destruct (Z.ltb_spec i (Z.of_nat (length l))); destruct (Nat.ltb_spec (Z.to_nat i) (length l)); try reflexivity; lia.
      * replace (Nat.eqb (Z.to_nat j) (Z.to_nat i)) with false; [reflexivity|].
        symmetry. apply Nat.eqb_neq. lia.
Qed.

Lemma getn_setn_same {A} (d : A) (l : list A) i x : 0 <= i < zlen l -> getn d (setn l i x) i = x.
Proof. intros H. rewrite getn_setn. rewrite Z.eqb_refl. cbn. replace (0 <=? i) with true by lia. replace (i <? zlen l) with true by lia. reflexivity. Qed.

Lemma getn_setn_other {A} (d : A) (l : list A) i j x : j <> i -> getn d (setn l i x) j = getn d l j.
Proof. intros H. rewrite getn_setn. replace (j =? i) with false by lia. reflexivity. Qed.

Lemma setn_oob {A} (l : list A) i x : ~ (0 <= i < zlen l) -> setn l i x = l.
Proof.
  unfold setn, zlen. intros H. destruct (i <? 0) eqn:Hi; [reflexivity|].
  assert (Hn : (length l <= Z.to_nat i)%nat) by lia.
  generalize dependent (Z.to_nat i). clear. intros n. revert n. induction l as [|y r IH]; intros [|k] Hn; cbn in *; try reflexivity; try lia.
  f_equal. apply IH. lia.
Qed.

Lemma zlen_repeat {A} (d : A) n : zlen (repeat d n) = Z.of_nat n.
Proof. unfold zlen. now rewrite repeat_length. Qed.

Lemma getn_repeat {A} (d x : A) n i : 0 <= i < Z.of_nat n -> getn d (repeat x n) i = x.
Proof.
  intros H. unfold getn. replace (i <? 0) with false by lia.
  assert (Hn : (Z.to_nat i < n)%nat) by lia. generalize dependent (Z.to_nat i). clear. intros m. revert m.
  induction n; intros [|m] H; cbn; try lia; auto. apply IHn. lia.
Qed.

Lemma nth_firstn_lt {A} (d : A) (l : list A) k n : (n < k)%nat -> nth n (firstn k l) d = nth n l d.
Proof.
  revert k n; induction l as [|y r IH]; intros k n H.
  - rewrite firstn_nil. reflexivity.
  - destruct k; [lia|]. destruct n; cbn; [reflexivity|]. apply IH. lia.
Qed.

Lemma nth_skipn_add {A} (d : A) (l : list A) k n : nth n (skipn k l) d = nth (k + n) l d.
Proof.
  revert l; induction k; intros l; [reflexivity|].
  destruct l; cbn; [destruct n; reflexivity|]. apply IHk.
Qed.

Lemma zlen_resize {A} (d : A) n l : 0 <= n -> zlen (resize d n l) = n.
Proof.
  intros H. unfold zlen, resize. rewrite app_length, firstn_length, repeat_length. lia.
Qed.

Lemma getn_resize {A} (d : A) n l i : 0 <= i < n -> i < zlen l -> getn d (resize d n l) i = getn d l i.
Proof.
  unfold getn, resize, zlen. intros H1 H2. replace (i <? 0) with false by lia.
  rewrite app_nth1 by (rewrite firstn_length; lia).
  apply nth_firstn_lt. lia.
Qed.

Lemma zlen_copy_prefix {A} n (src dst : list A) : 0 <= n <= zlen src -> n <= zlen dst -> zlen (copy_prefix n src dst) = zlen dst.
Proof.
  unfold zlen, copy_prefix. intros H1 H2. rewrite app_length, firstn_length, skipn_length. lia.
Qed.

Lemma getn_copy_prefix {A} (d : A) n (src dst : list A) i :
  0 <= n <= zlen src -> n <= zlen dst ->
  getn d (copy_prefix n src dst) i = if i <? n then getn d src i else getn d dst i.
Proof.
  unfold getn, copy_prefix, zlen. intros H1 H2.
  destruct (i <? 0) eqn:Hi.
  - destruct (i <? n); reflexivity.
  - destruct (i <? n) eqn:Hin.
    + rewrite app_nth1 by (rewrite firstn_length; lia). apply nth_firstn_lt. lia.
    + rewrite app_nth2 by (rewrite firstn_length; lia). rewrite firstn_length.
      rewrite nth_skipn_add. f_equal. lia.
Qed.

Lemma zrange_length n : length (zrange n) = Z.to_nat n.
Proof. unfold zrange. now rewrite map_length, seq_length. Qed.

Lemma in_zrange n i : In i (zrange n) <-> 0 <= i < n.
Proof.
  unfold zrange. rewrite in_map_iff. split.
  - intros (k & <- & Hk). apply in_seq in Hk. lia.
  - intros H. exists (Z.to_nat i). split; [lia|]. apply in_seq. lia.
Qed.

Lemma zrange_succ n : 0 <= n -> zrange (n + 1) = zrange n ++ [n].
Proof.
  intros H. unfold zrange. replace (Z.to_nat (n + 1)) with (S (Z.to_nat n)) by lia.
  rewrite seq_S, map_app. cbn. f_equal. f_equal. lia.
Qed.

Lemma getn_zrange n i : 0 <= i < n -> getn 0 (zrange n) i = i.
Proof.
  intros H. unfold getn, zrange. replace (i <? 0) with false by lia.
  rewrite nth_indep with (d' := Z.of_nat 0%nat) by (rewrite map_length, seq_length; lia).
  rewrite map_nth. rewrite seq_nth by lia. lia.
Qed.

Lemma zlen_zrange n : 0 <= n -> zlen (zrange n) = n.
Proof. intros H. unfold zlen. rewrite zrange_length. lia. Qed.

(* ======================================================================== part 2 *)
Section DSProofs.
Variable D : Type.
Variable d0 : D.
Notation ds := (ds D).

(* the free list starting at link ff visits exactly the slots fl *)
Fixpoint chain (inf : list Z) (endm size : Z) (ff : Z) (fl : list Z) : Prop :=
  match fl with
  | [] => ff = endm
  | x :: r => ff = - x - 1 /\ 0 <= x < size /\ chain inf endm size (getn 0 inf x) r
  end.

Record ds_inv (s : ds) : Prop := mk_inv {
  inv_max : 0 <= themax s;
  inv_ldata : zlen (data s) = themax s;
  inv_linfo : zlen (info s) = themax s;
  inv_lkeys : zlen (keys s) = themax s;
  inv_bounds : 0 <= thenum s <= thesize s /\ thesize s <= themax s;
  inv_keys : forall n, 0 <= n < thenum s ->
      0 <= getn (-1) (keys s) n < thesize s /\ getn 0 (info s) (getn (-1) (keys s) n) = n;
  inv_free : exists fl, chain (info s) (- themax s - 1) (thesize s) (firstfree s) fl /\ NoDup fl /\
                        zlen fl = thesize s - thenum s
}.

Lemma chain_ff_neg inf endm size ff fl : endm < 0 -> chain inf endm size ff fl -> ff < 0.
Proof. intros He H. destruct fl; cbn in H; lia. Qed.

Lemma chain_info_neg inf endm size ff fl :
  endm < 0 -> chain inf endm size ff fl -> forall x, In x fl -> getn 0 inf x < 0.
Proof.
  intros He. revert ff. induction fl as [|y r IH]; intros ff H x Hx; [contradiction|].
  cbn in H. destruct H as (_ & _ & Hc). destruct Hx as [<-|Hx].
  - eapply chain_ff_neg; eauto.
  - eapply IH; eauto.
Qed.

Lemma chain_in_range inf endm size ff fl : chain inf endm size ff fl -> forall x, In x fl -> 0 <= x < size.
Proof.
  revert ff. induction fl as [|y r IH]; intros ff H x Hx; [contradiction|].
  cbn in H. destruct H as (_ & Hr & Hc). destruct Hx as [<-|Hx]; eauto.
Qed.

Lemma chain_setn inf endm size ff fl i v :
  ~ In i fl -> chain inf endm size ff fl -> chain (setn inf i v) endm size ff fl.
Proof.
  revert ff. induction fl as [|y r IH]; intros ff Hn H; cbn in *; [assumption|].
  destruct H as (H1 & H2 & H3). repeat split; try lia.
  rewrite getn_setn_other by (intros ->; apply Hn; now left).
  apply IH; [intros Hi; apply Hn; now right|assumption].
Qed.

Lemma chain_resize inf endm size ff fl m :
  (forall x, In x fl -> x < zlen inf) -> size <= m -> chain inf endm size ff fl -> chain (resize 0 m inf) endm size ff fl.
Proof.
  revert ff. induction fl as [|y r IH]; intros ff Hl Hm H; cbn in *; [assumption|].
  destruct H as (H1 & H2 & H3). repeat split; try lia.
  rewrite getn_resize; [|lia|apply Hl; now left].
  apply IH; auto.
Qed.

Lemma chain_size inf endm size size' ff fl :
  (forall x, In x fl -> x < size') -> chain inf endm size ff fl -> chain inf endm size' ff fl.
Proof.
  revert ff. induction fl as [|y r IH]; intros ff Hl H; cbn in *; [assumption|].
  destruct H as (H1 & H2 & H3). repeat split; try lia.
  - specialize (Hl y (or_introl eq_refl)). lia.
  - apply IH; auto.
Qed.

Lemma chain_ext inf inf' endm size ff fl :
  (forall x, In x fl -> getn 0 inf' x = getn 0 inf x) -> chain inf endm size ff fl -> chain inf' endm size ff fl.
Proof.
  revert ff. induction fl as [|y r IH]; intros ff He H; cbn in *; [assumption|].
  destruct H as (H1 & H2 & H3). repeat split; try lia.
  rewrite He by now left. apply IH; auto.
Qed.

(* the computed free list is the chain *)
Lemma free_list_chain inf endm size fl : forall fuel ff,
  size <= - endm - 1 -> chain inf endm size ff fl -> (length fl < fuel)%nat ->
  ds_free_list fuel inf endm ff = fl.
Proof.
  induction fl as [|x r IH]; intros fuel ff Hs H Hf; (destruct fuel as [|f]; [cbn in Hf; lia|]); cbn [ds_free_list chain length] in *.
  - subst. now rewrite Z.eqb_refl.
  - destruct H as (-> & Hx & Hc). replace (- x - 1 =? endm) with false by lia.
    replace (- 1 - (- x - 1)) with x by lia. f_equal. apply IH; auto. lia.
Qed.

Lemma last_indep {A} (l : list A) a b : l <> [] -> last l a = last l b.
Proof. induction l as [|x [|y r] IH]; intros H; [congruence|reflexivity|]. change (last (y :: r) a = last (y :: r) b). apply IH. congruence. Qed.

Lemma last_in {A} (l : list A) d : l <> [] -> In (last l d) l.
Proof.
  induction l as [|x [|y r] IH]; intros H; [congruence|now left|]. right. change (In (last (y :: r) d) (y :: r)). apply IH. congruence.
Qed.

(* the walk to the last link *)
Lemma last_cell_chain inf endm size fl : forall fuel cell ff,
  size <= - endm - 1 -> chain inf endm size ff fl -> (length fl < fuel)%nat ->
  ds_last_cell fuel inf endm cell ff = last fl cell.
Proof.
  induction fl as [|x r IH]; intros fuel cell ff Hs H Hf; (destruct fuel as [|f]; [cbn in Hf; lia|]); cbn [ds_last_cell chain] in *.
  - subst. now rewrite Z.eqb_refl.
  - destruct H as (-> & Hx & Hc). replace (- x - 1 =? endm) with false by lia.
    replace (- 1 - (- x - 1)) with x by lia. rewrite (IH f x); auto; [|cbn in Hf; lia].
    destruct r as [|z r']; [reflexivity|]. change (last (z :: r') x = last (z :: r') cell). apply last_indep. congruence.
Qed.

(* patching the end marker of a chain *)
Lemma chain_patch inf endm endm' size ff fl :
  fl <> [] -> NoDup fl -> chain inf endm size ff fl ->
  (forall x, In x fl -> x < zlen inf) ->
  chain (setn inf (last fl (-1)) endm') endm' size ff fl.
Proof.
  revert ff. induction fl as [|x r IH]; intros ff Hne Hnd H Hl; [congruence|].
  cbn [chain] in *. destruct H as (-> & Hx & Hc). inversion Hnd as [|? ? Hnx Hndr]; subst.
  repeat split; try lia.
  destruct r as [|y r'].
  - cbn in *. rewrite getn_setn_same; [reflexivity|]. specialize (Hl x (or_introl eq_refl)). lia.
  - change (last (x :: y :: r') (-1)) with (last (y :: r') (-1)).
    rewrite getn_setn_other.
    + apply IH; auto; [congruence|]. intros z Hz. apply Hl. now right.
    + intros ->. apply Hnx. apply last_in. congruence.
Qed.

Lemma ds_init_inv m : ds_inv (ds_init d0 m).
Proof.
  unfold ds_init. set (mm := if m <? 1 then 8 else m).
  assert (Hm : 1 <= mm) by (unfold mm; destruct (Z.ltb_spec m 1); lia).
  constructor; cbn.
  1-5: rewrite ?zlen_repeat; lia.
  - intros n Hn. lia.
  - exists []. cbn. split; [reflexivity|]. split; [constructor|unfold zlen; cbn; lia].
Qed.

(* ---------------------------------------------------------------- create / add *)
Lemma ds_create_inv s : ds_inv s -> thenum s < themax s -> ds_inv (fst (ds_create s)).
Proof.
  intros [Hmax Hld Hli Hlk Hb Hk (fl & Hc & Hnd & Hlen)] Hpre.
  unfold ds_create.
  destruct (Z.eqb_spec (firstfree s) (- themax s - 1)) as [Hff|Hff].
  - (* fresh slot *)
    assert (fl = []) as ->.
    { destruct fl as [|x r]; [reflexivity|]. cbn in Hc. lia. }
    cbn in Hlen. assert (Hsz : thesize s = thenum s) by (unfold zlen in Hlen; cbn in Hlen; lia).
    cbn. constructor; cbn; rewrite ?zlen_setn; try lia.
    + intros n Hn. destruct (Z.eq_dec n (thenum s)) as [->|Hne].
      * rewrite getn_setn_same by lia. split; [lia|]. rewrite getn_setn_same by lia. reflexivity.
      * rewrite getn_setn_other by lia. destruct (Hk n) as (H1 & H2); [lia|].
        split; [lia|]. rewrite getn_setn_other by lia. exact H2.
    + exists []. cbn. repeat split; auto. unfold zlen; cbn; lia.
  - (* reuse the head of the free list *)
    destruct fl as [|x r]; [cbn in Hc; lia|].
    cbn in Hc. destruct Hc as (Hx & Hxr & Hc). inversion Hnd as [|? ? Hnx Hndr]; subst.
    replace (- firstfree s - 1) with x by lia.
    assert (Hlen' : zlen r = thesize s - thenum s - 1) by (unfold zlen in *; cbn in Hlen; lia).
    assert (Hlr := zlen_nonneg r).
    assert (Hneg : getn 0 (info s) x < 0).
    { eapply chain_ff_neg with (endm := - themax s - 1); [lia|exact Hc]. }
    cbn. constructor; cbn; rewrite ?zlen_setn; try lia.
    + intros n Hn. destruct (Z.eq_dec n (thenum s)) as [->|Hne].
      * rewrite getn_setn_same by lia. split; [lia|]. rewrite getn_setn_same by lia. reflexivity.
      * rewrite getn_setn_other by lia. destruct (Hk n) as (H1 & H2); [lia|].
        split; [lia|]. rewrite getn_setn_other; [exact H2|]. intros Heq. rewrite Heq in H2. lia.
    + exists r. repeat split; auto; [|lia]. apply chain_setn; auto.
Qed.

Lemma ds_create_key_range s : ds_inv s -> thenum s < themax s -> 0 <= snd (ds_create s) < thesize (fst (ds_create s)).
Proof.
  intros [Hmax Hld Hli Hlk Hb Hk (fl & Hc & Hnd & Hlen)] Hpre. unfold ds_create.
  destruct (Z.eqb_spec (firstfree s) (- themax s - 1)) as [Hff|Hff]; cbn; [lia|].
  destruct fl as [|x r]; [cbn in Hc; lia|]. cbn in Hc. lia.
Qed.

Lemma ds_add_inv s x : ds_inv s -> thenum s < themax s -> ds_inv (fst (ds_add s x)).
Proof.
  intros Hi Hpre. pose proof (ds_create_inv s Hi Hpre) as H. unfold ds_add.
  destruct (ds_create s) as (s1, idx). cbn in *.
  destruct H as [Hmax Hld Hli Hlk Hb Hk Hf]. constructor; cbn; rewrite ?zlen_setn; auto.
Qed.


(* ---------------------------------------------------------------- remove(int) *)
Lemma ds_shrink_spec inf endm : forall fuel ff size fl,
  endm <= - size - 1 -> chain inf endm size ff fl -> NoDup fl ->
  exists fl' , let '(ff', size') := ds_shrink fuel inf ff size in
    chain inf endm size' ff' fl' /\ NoDup fl' /\ size' <= size /\ zlen fl - zlen fl' = size - size' /\
    (forall y, In y fl' -> In y fl) /\ (forall y, size' <= y < size -> In y fl) /\
    ((Z.to_nat size < fuel)%nat -> - ff' <> size').
Proof.
  induction fuel as [|f IH]; intros ff size fl He Hc Hnd.
  - exists fl. cbn. repeat split; auto; try lia.
  - cbn [ds_shrink]. destruct (Z.eqb_spec (- ff) size) as [Heq|Hne].
    + destruct fl as [|x r]; [cbn in Hc; lia|].
      cbn [chain] in Hc. destruct Hc as (Hff & Hx & Hc). apply NoDup_cons_iff in Hnd as (Hnx & Hndr).
      assert (Hxs : x = size - 1) by lia.
      assert (Hc' : chain inf endm (size - 1) (getn 0 inf x) r).
      { eapply chain_size; [|exact Hc]. intros y Hy. pose proof (chain_in_range _ _ _ _ _ Hc y Hy).
        assert (y <> x) by (intros ->; contradiction). lia. }
      replace (- ff - 1) with x by lia.
      destruct (IH (getn 0 inf x) (size - 1) r) as (fl' & HH); auto; [lia|].
      exists fl'. destruct (ds_shrink f inf (getn 0 inf x) (size - 1)) as (ff', size').
      destruct HH as (H1 & H2 & H3 & H4 & H5 & H6 & H7).
      repeat split; auto; try lia.
      * unfold zlen in *. cbn [length]. lia.
      * intros y Hy. right. auto.
      * intros y Hy. destruct (Z.eq_dec y x) as [->|Hyx]; [now left|]. right. apply H6. lia.
    + exists fl. repeat split; auto; try lia.
Qed.

Lemma ds_remove_num_inv s n : ds_inv s -> ds_inv (ds_remove_num s n).
Proof.
  intros Hinv. pose proof Hinv as [Hmax Hld Hli Hlk Hb Hk (fl & Hc & Hnd & Hlen)].
  unfold ds_remove_num, ds_has_num.
  destruct (Z.leb_spec 0 n); [|exact Hinv]. destruct (Z.ltb_spec n (thenum s)); [|exact Hinv]. cbn [andb].
  set (idx := getn (-1) (keys s) n).
  destruct (Hk n) as (Hidx & Hinfo); [lia|]. fold idx in Hidx, Hinfo.
  set (inf1 := setn (info s) idx (firstfree s)).
  assert (Hneg : forall x, In x fl -> getn 0 (info s) x < 0).
  { eapply chain_info_neg; [|exact Hc]. lia. }
  assert (Hnotin : ~ In idx fl). { intros Hin. specialize (Hneg idx Hin). lia. }
  assert (Hc1 : chain inf1 (- themax s - 1) (thesize s) (- idx - 1) (idx :: fl)).
  { cbn [chain]. repeat split; try lia. unfold inf1. rewrite getn_setn_same by lia. apply chain_setn; auto. }
  destruct (ds_shrink_spec inf1 (- themax s - 1) (S (Z.to_nat (thesize s))) (- idx - 1) (thesize s) (idx :: fl))
    as (fl' & HH); [lia|exact Hc1|constructor; auto|].
  destruct (ds_shrink (S (Z.to_nat (thesize s))) inf1 (- idx - 1) (thesize s)) as (ff', size').
  destruct HH as (H1 & H2 & H3 & H4 & H5 & H6 & H7).
  assert (Hlen1 : zlen (idx :: fl) = zlen fl + 1) by (unfold zlen; cbn [length]; lia).
  assert (Hl' := zlen_nonneg fl').
  (* slots of the other elements stay below the new size and keep their info *)
  assert (Hother : forall m, 0 <= m < thenum s -> m <> n ->
            0 <= getn (-1) (keys s) m < size' /\ getn 0 inf1 (getn (-1) (keys s) m) = m /\ getn (-1) (keys s) m <> idx).
  { intros m Hm Hmn. destruct (Hk m) as (Hr & Hi); [lia|].
    assert (Hne : getn (-1) (keys s) m <> idx) by (intros Heq; rewrite Heq in Hi; lia).
    assert (Hi1 : getn 0 inf1 (getn (-1) (keys s) m) = m) by (unfold inf1; rewrite getn_setn_other; auto).
    repeat split; auto; try lia.
    destruct (Z.lt_ge_cases (getn (-1) (keys s) m) size') as [|Hge]; [assumption|].
    exfalso. destruct (H6 (getn (-1) (keys s) m)) as [Heq|Hin]; [lia|congruence|].
    specialize (Hneg _ Hin). lia. }
  assert (Hfl'neg : forall y, In y fl' -> getn 0 inf1 y < 0).
  { eapply chain_info_neg; [|exact H1]. lia. }
  destruct (Z.eqb_spec n (thenum s - 1)) as [Hlast|Hnl].
  - constructor; cbn; unfold inf1; rewrite ?zlen_setn; try lia.
    + intros m Hm. destruct (Hother m) as (Ha & Hb' & _); [lia|lia|]. split; [lia|]. exact Hb'.
    + exists fl'. repeat split; auto. lia.
  - set (k := getn (-1) (keys s) (thenum s - 1)).
    destruct (Hother (thenum s - 1)) as (Hkr & Hki & Hkne); [lia|lia|]. fold k in Hkr, Hki, Hkne.
    constructor; cbn; unfold inf1; rewrite ?zlen_setn; try lia.
    + intros m Hm. destruct (Z.eq_dec m n) as [->|Hmn].
      * rewrite getn_setn_same by lia. split; [lia|]. rewrite getn_setn_same; [reflexivity|rewrite zlen_setn; lia].
      * rewrite getn_setn_other by lia. destruct (Hother m) as (Ha & Hb' & Hc'); [lia|lia|]. split; [lia|].
        rewrite getn_setn_other; [exact Hb'|]. intros Heq. fold inf1 in Hb'. rewrite Heq in Hb'. lia.
    + exists fl'. repeat split; auto; [|lia]. apply chain_setn; auto.
      intros Hin. specialize (Hfl'neg k Hin). lia.
Qed.

Lemma ds_remove_key_inv s k s' : ds_inv s -> ds_remove_key s k = Some s' -> ds_inv s'.
Proof.
  unfold ds_remove_key. destruct (ds_number s k); intros Hi [= <-]. now apply ds_remove_num_inv.
Qed.

End DSProofs.

(* ======================================================================== part 3 *)
(* ------------------------------------------------------------------ more array lemmas *)
Lemma zlen_app {A} (a b : list A) : zlen (a ++ b) = zlen a + zlen b.
Proof. unfold zlen. rewrite app_length. lia. Qed.

Lemma zlen_cons {A} (x : A) l : zlen (x :: l) = zlen l + 1.
Proof. unfold zlen. cbn [length]. lia. Qed.

Lemma of_nat_ltb0 n : (Z.of_nat n <? 0) = false.
Proof. apply Z.ltb_ge. lia. Qed.

Lemma getn_app_mid {A} (d : A) (a : list A) x b : getn d (a ++ x :: b) (zlen a) = x.
Proof.
  unfold getn, zlen. rewrite of_nat_ltb0.
  rewrite Nat2Z.id. rewrite app_nth2 by lia. now rewrite Nat.sub_diag.
Qed.

Lemma setnat_app_mid {A} (a : list A) x b y : setnat (a ++ x :: b) (length a) y = a ++ y :: b.
Proof. induction a as [|z a IH]; cbn; [reflexivity|]. now rewrite IH. Qed.

Lemma setn_app_mid {A} (a : list A) x b y : setn (a ++ x :: b) (zlen a) y = a ++ y :: b.
Proof.
  unfold setn, zlen. rewrite of_nat_ltb0.
  rewrite Nat2Z.id. apply setnat_app_mid.
Qed.

Lemma getn_app_l {A} (d : A) (a b : list A) i : 0 <= i < zlen a -> getn d (a ++ b) i = getn d a i.
Proof.
  unfold getn, zlen. intros H. replace (i <? 0) with false by lia. apply app_nth1. lia.
Qed.

Lemma getn_app_r {A} (d : A) (a b : list A) i : zlen a <= i -> getn d (a ++ b) i = getn d b (i - zlen a).
Proof.
  unfold getn, zlen. intros H. assert (0 <= Z.of_nat (length a)) by lia.
  replace (i <? 0) with false by lia. replace (i - Z.of_nat (length a) <? 0) with false by lia.
  rewrite app_nth2 by lia. f_equal. lia.
Qed.

Lemma getn_nth {A} (d : A) l i : 0 <= i -> getn d l i = nth (Z.to_nat i) l d.
Proof. intros H. unfold getn. now replace (i <? 0) with false by lia. Qed.

Lemma getn_in {A} (d : A) l i : 0 <= i < zlen l -> In (getn d l i) l.
Proof. unfold zlen. intros H. rewrite getn_nth by lia. apply nth_In. lia. Qed.

Lemma in_getn {A} (d : A) l x : In x l -> exists i, 0 <= i < zlen l /\ getn d l i = x.
Proof.
  intros H. apply (In_nth _ _ d) in H as (n & Hn & Hx). exists (Z.of_nat n). unfold zlen. split; [lia|].
  rewrite getn_nth by lia. now rewrite Nat2Z.id.
Qed.

Lemma firstn_skipn_zlen {A} (l : list A) n : 0 <= n <= zlen l -> zlen (firstn (Z.to_nat n) l) = n.
Proof. unfold zlen. intros H. rewrite firstn_length. lia. Qed.

Lemma getn_firstn {A} (d : A) l n i : 0 <= i < n -> getn d (firstn (Z.to_nat n) l) i = getn d l i.
Proof. intros H. rewrite !getn_nth by lia. apply nth_firstn_lt. lia. Qed.

(* ------------------------------------------------------------------ the two loops of remove(int perm[]) *)
Fixpoint surv_keys (perm kys : list Z) : list Z :=
  match perm, kys with
  | p :: pr, k :: kr => if 0 <=? p then k :: surv_keys pr kr else surv_keys pr kr
  | _, _ => []
  end.
Fixpoint removed_of (perm kys : list Z) : list Z :=
  match perm, kys with
  | p :: pr, k :: kr => if 0 <=? p then removed_of pr kr else k :: removed_of pr kr
  | _, _ => []
  end.
Fixpoint push_all (rem : list Z) (inf : list Z) (ff : Z) : list Z * Z :=
  match rem with
  | [] => (inf, ff)
  | x :: r => push_all r (setn inf x ff) (- x - 1)
  end.
Fixpoint first_of (rest : list Z) (k first : Z) : Z :=
  match rest with
  | [] => first
  | p :: r => if 0 <=? p then first_of r (k + 1) first else first_of r (k + 1) (if first <? 0 then k else first)
  end.
Fixpoint renum (sk : list Z) (j : Z) (inf : list Z) : list Z :=
  match sk with
  | [] => inf
  | x :: r => renum r (j + 1) (setn inf x j)
  end.

Lemma pass1_spec : forall rest krest pre kpre ktail j inf ff first,
  length rest = length krest -> zlen pre = zlen kpre ->
  ds_pass1 (length rest) (zlen pre) (kpre ++ krest ++ ktail) (pre ++ rest) j inf ff first =
  (pre ++ a_perm_out rest j, fst (push_all (removed_of rest krest) inf ff),
   snd (push_all (removed_of rest krest) inf ff), first_of rest (zlen pre) first).
Proof.
  induction rest as [|p pr IH]; intros krest pre kpre ktail j inf ff first Hl Hp.
  - destruct krest; [|discriminate]. cbn. reflexivity.
  - destruct krest as [|x kr]; [discriminate|]. cbn [length ds_pass1 a_perm_out removed_of first_of].
    rewrite getn_app_mid.
    destruct (Z.leb_spec 0 p) as [Hpos|Hneg].
    + rewrite setn_app_mid.
      replace (pre ++ j :: pr) with ((pre ++ [j]) ++ pr) by (rewrite <- app_assoc; reflexivity).
      replace (kpre ++ (x :: kr) ++ ktail) with ((kpre ++ [x]) ++ kr ++ ktail) by (rewrite <- app_assoc; reflexivity).
      replace (zlen pre + 1) with (zlen (pre ++ [j])) by (rewrite zlen_app; unfold zlen; cbn; lia).
      rewrite IH; [| cbn in Hl; lia | rewrite !zlen_app; unfold zlen in *; cbn; lia].
      rewrite <- app_assoc. cbn [app]. rewrite zlen_app. replace (zlen [j]) with 1 by reflexivity. reflexivity.
    + rewrite Hp. replace (kpre ++ (x :: kr) ++ ktail) with (kpre ++ x :: (kr ++ ktail)) by reflexivity.
      rewrite getn_app_mid. rewrite <- Hp.
      replace (pre ++ p :: pr) with ((pre ++ [p]) ++ pr) by (rewrite <- app_assoc; reflexivity).
      replace (kpre ++ x :: kr ++ ktail) with ((kpre ++ [x]) ++ kr ++ ktail) by (rewrite <- app_assoc; reflexivity).
      replace (zlen pre + 1) with (zlen (pre ++ [p])) by (rewrite zlen_app; unfold zlen; cbn; lia).
      rewrite IH; [| cbn in Hl; lia | rewrite !zlen_app; unfold zlen in *; cbn; lia].
      cbn [push_all]. rewrite <- app_assoc. cbn [app]. rewrite zlen_app. replace (zlen [p]) with 1 by reflexivity.
      replace (first <? 0) with (first <? 0) by reflexivity. reflexivity.
Qed.

Lemma pass2_spec : forall prest krest ppre S G T inf num,
  length prest = length krest -> G <> [] -> zlen ppre = zlen S + zlen G ->
  exists G',
    ds_pass2 (length prest) (zlen ppre) (ppre ++ a_perm_out prest (zlen S)) (S ++ G ++ krest ++ T) inf num
    = (S ++ surv_keys prest krest ++ G' ++ T, renum (surv_keys prest krest) (zlen S) inf,
       num - zlen (removed_of prest krest)).
Proof.
  induction prest as [|p pr IH]; intros krest ppre S G T inf num Hl HG Hk.
  - destruct krest; [|discriminate]. exists G. cbn. f_equal. f_equal. unfold zlen; cbn; lia.
  - destruct krest as [|x kr]; [discriminate|].
    cbn [length ds_pass2 a_perm_out surv_keys removed_of].
    destruct (Z.leb_spec 0 p) as [Hpos|Hneg].
    + rewrite getn_app_mid. pose proof (zlen_nonneg S) as HS. replace (0 <=? zlen S) with true by lia.
      destruct G as [|g G0]; [congruence|].
      (* the key of element k *)
      assert (Hget : getn (-1) (S ++ (g :: G0) ++ (x :: kr) ++ T) (zlen ppre) = x).
      { replace (S ++ (g :: G0) ++ (x :: kr) ++ T) with ((S ++ g :: G0) ++ x :: (kr ++ T)) by (rewrite <- app_assoc; reflexivity).
        replace (zlen ppre) with (zlen (S ++ g :: G0)) by (rewrite zlen_app; lia). apply getn_app_mid. }
      rewrite Hget.
      replace (S ++ (g :: G0) ++ (x :: kr) ++ T) with (S ++ g :: (G0 ++ (x :: kr) ++ T)) by reflexivity.
      rewrite setn_app_mid.
      assert (Hget2 : getn (-1) (S ++ x :: G0 ++ (x :: kr) ++ T) (zlen ppre) = x).
      { replace (S ++ x :: G0 ++ (x :: kr) ++ T) with ((S ++ x :: G0) ++ x :: (kr ++ T)) by (rewrite <- app_assoc; reflexivity).
        replace (zlen ppre) with (zlen (S ++ x :: G0)) by (rewrite zlen_app, !zlen_cons in *; lia). apply getn_app_mid. }
      rewrite Hget2.
      replace (S ++ x :: G0 ++ (x :: kr) ++ T) with ((S ++ x :: G0) ++ x :: (kr ++ T)) by (rewrite <- app_assoc; reflexivity).
      assert (Hk2 : zlen ppre = zlen (S ++ x :: G0)) by (rewrite zlen_app, !zlen_cons in *; lia).
      replace (setn ((S ++ x :: G0) ++ x :: kr ++ T) (zlen ppre) (-1)) with ((S ++ x :: G0) ++ -1 :: kr ++ T)
        by (rewrite Hk2; symmetry; apply setn_app_mid).
      replace (ppre ++ zlen S :: a_perm_out pr (zlen S + 1)) with ((ppre ++ [zlen S]) ++ a_perm_out pr (zlen (S ++ [x])))
        by (rewrite <- app_assoc, zlen_app; unfold zlen; cbn; reflexivity).
      replace ((S ++ x :: G0) ++ -1 :: kr ++ T) with ((S ++ [x]) ++ (G0 ++ [-1]) ++ kr ++ T)
        by (rewrite <- !app_assoc; reflexivity).
      replace (zlen ppre + 1) with (zlen (ppre ++ [zlen S])) by (rewrite zlen_app; unfold zlen; cbn; lia).
      destruct (IH kr (ppre ++ [zlen S]) (S ++ [x]) (G0 ++ [-1]) T (setn inf x (zlen S)) num) as (G' & HG');
        [cbn in Hl; lia | destruct G0; discriminate | rewrite !zlen_app, zlen_cons in *; unfold zlen in *; cbn; lia |].
      exists G'. rewrite HG'. rewrite <- app_assoc. cbn [app renum]. rewrite zlen_app.
      replace (zlen [x]) with 1 by reflexivity. reflexivity.
    + rewrite getn_app_mid. replace (0 <=? p) with false by lia.
      replace (ppre ++ p :: a_perm_out pr (zlen S)) with ((ppre ++ [p]) ++ a_perm_out pr (zlen S)) by (rewrite <- app_assoc; reflexivity).
      replace (S ++ G ++ (x :: kr) ++ T) with (S ++ (G ++ [x]) ++ kr ++ T) by (rewrite <- !app_assoc; reflexivity).
      replace (zlen ppre + 1) with (zlen (ppre ++ [p])) by (rewrite zlen_app; unfold zlen; cbn; lia).
      destruct (IH kr (ppre ++ [p]) S (G ++ [x]) T inf (num - 1)) as (G' & HG');
        [cbn in Hl; lia | destruct G; discriminate | rewrite !zlen_app in *; unfold zlen in *; cbn; lia |].
      exists G'. rewrite HG'. f_equal. rewrite zlen_cons. lia.
Qed.

(* ------------------------------------------------------------------ properties of the loop summaries *)

Lemma nodup_app_inv {A} (a b : list A) : NoDup (a ++ b) -> NoDup a /\ NoDup b /\ (forall x, In x a -> ~ In x b).
Proof.
  induction a as [|x a IH]; cbn; intros H.
  - repeat split; [constructor|assumption|tauto].
  - apply NoDup_cons_iff in H as (Hx & H). destruct (IH H) as (Ha & Hb & Hd).
    repeat split; auto.
    + constructor; auto. intros Hin. apply Hx. apply in_or_app. now left.
    + intros y [<-|Hy] Hyb; [apply Hx; apply in_or_app; now right|]. eapply Hd; eauto.
Qed.

Lemma nodup_app_intro {A} (a b : list A) : NoDup a -> NoDup b -> (forall x, In x a -> ~ In x b) -> NoDup (a ++ b).
Proof.
  induction a as [|x a IH]; cbn; intros Ha Hb Hd; [assumption|].
  apply NoDup_cons_iff in Ha as (Hx & Ha). constructor.
  - intros Hin. apply in_app_or in Hin as [Hin|Hin]; [contradiction|]. eapply Hd; eauto.
  - apply IH; auto.
Qed.

Lemma surv_removed_perm : forall perm kys, length perm = length kys ->
  Permutation (surv_keys perm kys ++ removed_of perm kys) kys.
Proof.
  induction perm as [|p pr IH]; intros [|k kr] Hl; try discriminate; cbn; [constructor|].
  destruct (0 <=? p); cbn.
  - constructor. apply IH. cbn in Hl; lia.
  - apply Permutation_sym. apply Permutation_cons_app. apply Permutation_sym. apply IH. cbn in Hl; lia.
Qed.

Lemma surv_removed_len : forall perm kys, length perm = length kys ->
  zlen (surv_keys perm kys) + zlen (removed_of perm kys) = zlen kys.
Proof.
  intros perm kys Hl. rewrite <- zlen_app. unfold zlen. f_equal. apply Permutation_length. now apply surv_removed_perm.
Qed.

Lemma surv_keys_app : forall a b ka kb, length a = length ka ->
  surv_keys (a ++ b) (ka ++ kb) = surv_keys a ka ++ surv_keys b kb.
Proof.
  induction a as [|p a IH]; intros b [|k ka] kb Hl; try discriminate; cbn; [reflexivity|].
  destruct (0 <=? p); cbn; rewrite IH; auto.
Qed.

Lemma removed_of_app : forall a b ka kb, length a = length ka ->
  removed_of (a ++ b) (ka ++ kb) = removed_of a ka ++ removed_of b kb.
Proof.
  induction a as [|p a IH]; intros b [|k ka] kb Hl; try discriminate; cbn; [reflexivity|].
  destruct (0 <=? p); cbn; rewrite IH; auto.
Qed.

Lemma surv_keys_all : forall a ka, length a = length ka -> Forall (fun p => 0 <= p) a ->
  surv_keys a ka = ka /\ removed_of a ka = [].
Proof.
  induction a as [|p a IH]; intros [|k ka] Hl Hf; try discriminate; cbn; [auto|].
  inversion Hf as [|? ? Hp0 Hfa]; subst. replace (0 <=? p) with true by lia. destruct (IH ka) as (E1 & E2); auto. now rewrite E1, E2.
Qed.

Lemma a_perm_out_app : forall a b j, Forall (fun p => 0 <= p) a ->
  a_perm_out (a ++ b) j = a_perm_out a j ++ a_perm_out b (j + zlen a).
Proof.
  induction a as [|p a IH]; intros b j Hf; cbn [a_perm_out app].
  - f_equal. unfold zlen; cbn; lia.
  - inversion Hf; subst. replace (0 <=? p) with true by lia. cbn [app]. f_equal. rewrite IH by auto. f_equal. f_equal.
    rewrite zlen_cons. lia.
Qed.

Lemma a_perm_out_length : forall a j, length (a_perm_out a j) = length a.
Proof. induction a as [|p a IH]; intros j; cbn; [reflexivity|]. destruct (0 <=? p); cbn; now rewrite IH. Qed.

Lemma a_remove_perm_map {A B} (f : A -> B) : forall perm (K : list A),
  map f ((fix sk (perm : list Z) (l : list A) : list A :=
      match perm, l with
      | p :: pr, k :: kr => if 0 <=? p then k :: sk pr kr else sk pr kr
      | _, _ => []
      end) perm K) =
  (fix sk (perm : list Z) (l : list B) : list B :=
      match perm, l with
      | p :: pr, k :: kr => if 0 <=? p then k :: sk pr kr else sk pr kr
      | _, _ => []
      end) perm (map f K).
Proof.
  induction perm as [|p pr IH]; intros [|k kr]; cbn; try reflexivity. destruct (0 <=? p); cbn; now rewrite IH.
Qed.

Lemma first_of_keep : forall rest k f, 0 <= f -> first_of rest k f = f.
Proof.
  induction rest as [|p r IH]; intros k f Hf; cbn; [reflexivity|].
  destruct (0 <=? p); [apply IH; auto|]. replace (f <? 0) with false by lia. apply IH; auto.
Qed.

Lemma first_of_spec : forall rest k, 0 <= k ->
  (Forall (fun p => 0 <= p) rest /\ first_of rest k (-1) = -1) \/
  (exists A p B, rest = A ++ p :: B /\ Forall (fun q => 0 <= q) A /\ p < 0 /\ first_of rest k (-1) = k + zlen A).
Proof.
  induction rest as [|p r IH]; intros k Hk; cbn.
  - left. split; [constructor|reflexivity].
  - destruct (Z.leb_spec 0 p) as [Hp|Hp].
    + destruct (IH (k + 1)) as [(Hf & He)|(A & q & B & Hr & Hf & Hq & He)]; [lia| |].
      * left. split; [constructor; auto|assumption].
      * right. exists (p :: A), q, B. subst r. repeat split; auto. rewrite He, zlen_cons. lia.
    + right. exists [], p, r. repeat split; auto. cbn. rewrite first_of_keep by lia. unfold zlen; cbn; lia.
Qed.

Lemma perm_nodup_middle {A} (x : A) r fl : NoDup (x :: r ++ fl) -> NoDup (r ++ x :: fl).
Proof. intros H. eapply Permutation_NoDup; [|exact H]. apply Permutation_middle. Qed.

Lemma push_all_spec : forall rem inf ff fl endm size,
  chain inf endm size ff fl -> NoDup (rem ++ fl) -> (forall x, In x rem -> 0 <= x < size /\ x < zlen inf) ->
  chain (fst (push_all rem inf ff)) endm size (snd (push_all rem inf ff)) (rev rem ++ fl)
  /\ zlen (fst (push_all rem inf ff)) = zlen inf
  /\ (forall y, ~ In y rem -> getn 0 (fst (push_all rem inf ff)) y = getn 0 inf y).
Proof.
  induction rem as [|x r IH]; intros inf ff fl endm size Hc Hnd Hr; cbn [push_all rev app].
  - cbn. auto.
  - destruct (Hr x (or_introl eq_refl)) as (Hx1 & Hx2).
    cbn [app] in Hnd. pose proof (perm_nodup_middle _ _ _ Hnd) as Hnd'.
    apply NoDup_cons_iff in Hnd as (Hxn & Hnd).
    assert (Hxfl : ~ In x fl) by (intros Hi; apply Hxn; apply in_or_app; now right).
    assert (Hc' : chain (setn inf x ff) endm size (- x - 1) (x :: fl)).
    { cbn [chain]. repeat split; try lia. rewrite getn_setn_same by lia. apply chain_setn; auto. }
    destruct (IH (setn inf x ff) (- x - 1) (x :: fl) endm size Hc' Hnd') as (H1 & H2 & H3).
    { intros y Hy. rewrite zlen_setn. apply Hr. now right. }
    repeat split.
    + rewrite <- app_assoc. exact H1.
    + rewrite H2. apply zlen_setn.
    + intros y Hy. rewrite H3 by (intros Hi; apply Hy; now right).
      apply getn_setn_other. intros ->. apply Hy. now left.
Qed.

Lemma getn_cons_pos {A} (d : A) x l i : 0 < i -> getn d (x :: l) i = getn d l (i - 1).
Proof.
  intros H. rewrite !getn_nth by lia. replace (Z.to_nat i) with (S (Z.to_nat (i - 1))) by lia. reflexivity.
Qed.

Lemma renum_spec : forall sk j inf, NoDup sk -> (forall x, In x sk -> 0 <= x < zlen inf) ->
  zlen (renum sk j inf) = zlen inf /\
  (forall y, ~ In y sk -> getn 0 (renum sk j inf) y = getn 0 inf y) /\
  (forall i, 0 <= i < zlen sk -> getn 0 (renum sk j inf) (getn 0 sk i) = j + i).
Proof.
  induction sk as [|x r IH]; intros j inf Hnd Hr; cbn [renum].
  - repeat split; auto. intros i Hi. unfold zlen in Hi; cbn in Hi; lia.
  - apply NoDup_cons_iff in Hnd as (Hx & Hnd).
    destruct (IH (j + 1) (setn inf x j) Hnd) as (H1 & H2 & H3).
    { intros y Hy. rewrite zlen_setn. apply Hr. now right. }
    pose proof (Hr x (or_introl eq_refl)) as Hxr.
    repeat split.
    + rewrite H1. apply zlen_setn.
    + intros y Hy. rewrite H2 by (intros Hi; apply Hy; now right).
      apply getn_setn_other. intros ->. apply Hy. now left.
    + intros i Hi. rewrite zlen_cons in Hi. destruct (Z.eq_dec i 0) as [->|Hi0].
      * replace (getn 0 (x :: r) 0) with x by reflexivity. rewrite H2 by assumption.
        rewrite getn_setn_same by lia. lia.
      * rewrite getn_cons_pos by lia. rewrite H3 by lia. lia.
Qed.

Lemma pass2_length : forall cnt k perm kys inf num,
  zlen (fst (fst (ds_pass2 cnt k perm kys inf num))) = zlen kys.
Proof.
  induction cnt as [|c IH]; intros k perm kys inf num; cbn [ds_pass2]; [reflexivity|].
  destruct (0 <=? getn 0 perm k); rewrite IH; rewrite ?zlen_setn; reflexivity.
Qed.

Lemma map_getn_zrange {A} (d : A) (l : list A) n :
  0 <= n <= zlen l -> map (getn d l) (zrange n) = firstn (Z.to_nat n) l.
Proof.
  intros H. unfold zlen in H. apply (nth_ext _ _ d d).
  - rewrite map_length, zrange_length, firstn_length. lia.
  - intros i Hi. rewrite map_length, zrange_length in Hi.
    rewrite nth_firstn_lt by lia.
    rewrite nth_indep with (d' := getn d l 0) by (rewrite map_length, zrange_length; lia).
    rewrite map_nth. unfold zrange. rewrite nth_indep with (d' := Z.of_nat 0) by (rewrite map_length, seq_length; lia).
    rewrite map_nth, seq_nth by lia. rewrite getn_nth by lia. f_equal. lia.
Qed.

(* ======================================================================== part 4 *)
Arguments ds_inv {D}.

Section DSPerm.
Variable D : Type.
Variable d0 : D.
Notation ds := (ds D).

Definition kf (s : ds) (k : Z) : Z * D := (k, getn d0 (data s) k).

Lemma a_remove_perm_surv (f : Z -> Z * D) : forall perm K,
  a_remove_perm perm (map f K) = map f (surv_keys perm K).
Proof.
  induction perm as [|p pr IH]; intros [|k kr]; cbn; try reflexivity. destruct (0 <=? p); cbn; now rewrite IH.
Qed.

Lemma ds_abs_map (s : ds) : 0 <= thenum s <= zlen (keys s) ->
  ds_abs d0 s = map (kf s) (firstn (Z.to_nat (thenum s)) (keys s)).
Proof.
  intros H. unfold ds_abs, ds_elem_num, ds_key. rewrite <- (map_getn_zrange (-1)) by lia.
  rewrite map_map. reflexivity.
Qed.

(* facts about the key array of a consistent set *)
Lemma keys_facts (s : ds) : ds_inv s ->
  let K := firstn (Z.to_nat (thenum s)) (keys s) in
  zlen K = thenum s /\ keys s = K ++ skipn (Z.to_nat (thenum s)) (keys s) /\
  (forall i, 0 <= i < thenum s -> getn (-1) K i = getn (-1) (keys s) i) /\
  (forall x, In x K -> 0 <= x < thesize s /\ 0 <= getn 0 (info s) x < thenum s /\ getn (-1) (keys s) (getn 0 (info s) x) = x) /\
  NoDup K.
Proof.
  intros [Hmax Hld Hli Hlk Hb Hk Hf] K.
  assert (HKl : zlen K = thenum s) by (apply firstn_skipn_zlen; lia).
  assert (HKg : forall i, 0 <= i < thenum s -> getn (-1) K i = getn (-1) (keys s) i) by (intros; apply getn_firstn; lia).
  assert (HKin : forall x, In x K -> 0 <= x < thesize s /\ 0 <= getn 0 (info s) x < thenum s /\ getn (-1) (keys s) (getn 0 (info s) x) = x).
  { intros x Hx. apply (in_getn (-1)) in Hx as (i & Hi & <-). rewrite HKl in Hi. rewrite HKg by lia.
    destruct (Hk i Hi) as (H1 & H2). rewrite H2. repeat split; try lia. }
  split; [exact HKl|]. split; [symmetry; apply firstn_skipn|]. split; [exact HKg|]. split; [exact HKin|].
  { apply (NoDup_nth K (-1)). intros i j Hi Hj He.
    assert (Hi' : 0 <= Z.of_nat i < thenum s) by (unfold zlen in HKl; lia).
    assert (Hj' : 0 <= Z.of_nat j < thenum s) by (unfold zlen in HKl; lia).
    pose proof (HKg _ Hi') as Gi. pose proof (HKg _ Hj') as Gj.
    rewrite getn_nth, Nat2Z.id in Gi, Gj by lia.
    destruct (Hk _ Hi') as (_ & Ii). destruct (Hk _ Hj') as (_ & Ij).
    rewrite <- Gi in Ii. rewrite <- Gj in Ij. rewrite He in Ii. lia. }
Qed.

Lemma ds_eta (s : ds) : mkDS (data s) (info s) (keys s) (themax s) (thesize s) (thenum s) (firstfree s) = s.
Proof. destruct s; reflexivity. Qed.

Lemma firstn_app_len {A} (a b : list A) : firstn (length a) (a ++ b) = a.
Proof. induction a; cbn; [now destruct b|]. now f_equal. Qed.

Lemma ds_remove_perm_spec (s : ds) (perm : list Z) :
  ds_inv s -> zlen perm = thenum s ->
  let K := firstn (Z.to_nat (thenum s)) (keys s) in
  ds_inv (fst (ds_remove_perm s perm)) /\
  snd (ds_remove_perm s perm) = a_perm_out perm 0 /\
  ds_abs d0 (fst (ds_remove_perm s perm)) = a_remove_perm perm (ds_abs d0 s) /\
  themax (fst (ds_remove_perm s perm)) = themax s /\ thesize (fst (ds_remove_perm s perm)) = thesize s /\
  data (fst (ds_remove_perm s perm)) = data s /\
  thenum (fst (ds_remove_perm s perm)) = zlen (surv_keys perm K).
Proof.
  intros Hinv Hlp K.
  destruct (keys_facts s Hinv) as (HKl & Hsplit & HKg & HKin & HKnd). fold K in HKl, Hsplit, HKg, HKin, HKnd.
  pose proof Hinv as [Hmax Hld Hli Hlk Hb Hk (fl & Hc & Hnd & Hlen)].
  set (T := skipn (Z.to_nat (thenum s)) (keys s)) in *.
  assert (Hlen_pk : length perm = length K) by (unfold zlen in *; lia).
  assert (Hneg : forall x, In x fl -> getn 0 (info s) x < 0) by (eapply chain_info_neg; [|exact Hc]; lia).
  assert (HKfl : forall x, In x K -> ~ In x fl) by (intros x Hx Hi; specialize (Hneg x Hi); destruct (HKin x Hx); lia).
  unfold ds_remove_perm.
  replace (Z.to_nat (thenum s)) with (length perm) by (unfold zlen in Hlp; lia).
  pose proof (pass1_spec perm K [] [] T 0 (info s) (firstfree s) (-1) Hlen_pk eq_refl) as P1.
  cbn [app] in P1. replace (zlen []) with 0 in P1 by reflexivity. rewrite <- Hsplit in P1. rewrite P1. clear P1.
  set (rem := removed_of perm K). set (sk := surv_keys perm K).
  pose proof (surv_removed_perm perm K Hlen_pk) as Hperm. fold rem sk in Hperm.
  assert (Hnd2 : NoDup (sk ++ rem)) by (eapply Permutation_NoDup; [apply Permutation_sym; exact Hperm|exact HKnd]).
  destruct (nodup_app_inv _ _ Hnd2) as (Hsknd & Hremnd & Hdisj).
  assert (Hsk_in : forall x, In x sk -> In x K) by (intros x Hx; eapply Permutation_in; [exact Hperm|apply in_or_app; now left]).
  assert (Hrem_in : forall x, In x rem -> In x K) by (intros x Hx; eapply Permutation_in; [exact Hperm|apply in_or_app; now right]).
  assert (Hlens : zlen sk + zlen rem = thenum s) by (rewrite <- HKl; apply surv_removed_len; auto).
  assert (Hndrf : NoDup (rem ++ fl)) by (apply nodup_app_intro; auto).
  destruct (push_all_spec rem (info s) (firstfree s) fl (- themax s - 1) (thesize s) Hc Hndrf) as (Hc1 & Hl1 & Hun1).
  { intros x Hx. destruct (HKin x (Hrem_in x Hx)) as (? & ? & ?). lia. }
  set (inf1 := fst (push_all rem (info s) (firstfree s))) in *.
  set (ff1 := snd (push_all rem (info s) (firstfree s))) in *.
  assert (Hnd1 : NoDup (rev rem ++ fl)).
  { eapply Permutation_NoDup; [|exact Hndrf]. apply Permutation_app_tail. apply Permutation_rev. }
  assert (Hlen1 : zlen (rev rem ++ fl) = thesize s - zlen sk).
  { rewrite zlen_app. unfold zlen at 1. rewrite rev_length. fold (zlen rem). lia. }
  destruct (first_of_spec perm 0) as [(Hall & Hfirst)|(A & p & B & Hpe & HA & Hp & Hfirst)]; [lia| |]; rewrite Hfirst.
  - (* nothing is removed *)
    replace (0 <=? -1) with false by reflexivity. cbn [fst snd].
    destruct (surv_keys_all perm K Hlen_pk Hall) as (Hsk & Hrem). fold sk in Hsk. fold rem in Hrem.
    assert (inf1 = info s /\ ff1 = firstfree s) as (-> & ->) by (unfold inf1, ff1; rewrite Hrem; cbn; auto).
    rewrite ds_eta. split; [exact Hinv|]. split; [reflexivity|]. split.
    { rewrite (ds_abs_map s) by lia. fold K. rewrite a_remove_perm_surv. fold sk. rewrite Hsk. reflexivity. }
    split; [reflexivity|]. split; [reflexivity|]. split; [reflexivity|]. rewrite Hsk. auto.
  - (* at least one removal: first = |A| *)
    replace (0 + zlen A) with (zlen A) by lia. pose proof (zlen_nonneg A) as HAn. replace (0 <=? zlen A) with true by lia.
    (* split the key array accordingly *)
    assert (HlenA : (length A <= length K)%nat) by (rewrite <- Hlen_pk, Hpe, app_length; lia).
    set (KA := firstn (length A) K). set (KR := skipn (length A) K).
    assert (HKs : K = KA ++ KR) by (symmetry; apply firstn_skipn).
    assert (HlKA : length KA = length A) by (unfold KA; rewrite firstn_length; lia).
    destruct KR as [|x KB] eqn:HKR.
    { exfalso. rewrite HKs, Hpe, !app_length in Hlen_pk. cbn in Hlen_pk. lia. }
    assert (HlB : length B = length KB).
    { rewrite HKs, Hpe, !app_length in Hlen_pk. cbn in Hlen_pk. lia. }
    (* the first iteration of the second loop sees perm1[first] = p < 0 *)
    assert (Hp1 : a_perm_out perm 0 = a_perm_out A 0 ++ p :: a_perm_out B (zlen A)).
    { rewrite Hpe, a_perm_out_app by auto. cbn [a_perm_out]. replace (0 <=? p) with false by lia. f_equal. }
    replace (Z.to_nat (thenum s - zlen A)) with (S (length B)).
    2:{ rewrite <- Hlp, Hpe, zlen_app, zlen_cons. unfold zlen. lia. }
    cbn [ds_pass2].
    assert (HlA1 : zlen (a_perm_out A 0) = zlen A) by (unfold zlen; now rewrite a_perm_out_length).
    assert (Hg1 : getn 0 (a_perm_out perm 0) (zlen A) = p) by (rewrite Hp1, <- HlA1; apply getn_app_mid).
    rewrite Hg1. replace (0 <=? p) with false by lia.
    (* the remaining iterations *)
    destruct (pass2_spec B KB (a_perm_out A 0 ++ [p]) KA [x] T inf1 (thenum s - 1)) as (G' & HP2); auto; [discriminate| |].
    { rewrite zlen_app, HlA1. unfold zlen. cbn. lia. }
    replace (zlen (a_perm_out A 0 ++ [p])) with (zlen A + 1) in HP2 by (rewrite zlen_app, HlA1; reflexivity).
    replace ((a_perm_out A 0 ++ [p]) ++ a_perm_out B (zlen KA)) with (a_perm_out perm 0) in HP2.
    2:{ rewrite Hp1, <- app_assoc. cbn. unfold zlen. now rewrite HlKA. }
    replace (KA ++ [x] ++ KB ++ T) with (keys s) in HP2.
    2:{ rewrite Hsplit. fold K. rewrite HKs. rewrite <- app_assoc. reflexivity. }
    assert (Hlkeys2 : zlen (KA ++ surv_keys B KB ++ G' ++ T) = themax s).
    { pose proof (pass2_length (length B) (zlen A + 1) (a_perm_out perm 0) (keys s) inf1 (thenum s - 1)) as PL.
      rewrite HP2 in PL. cbn [fst] in PL. lia. }
    rewrite HP2. cbn [fst snd]. clear HP2.
    (* the survivors *)
    assert (HA' : surv_keys A KA = KA /\ removed_of A KA = []) by (apply surv_keys_all; auto).
    assert (Hsk : sk = KA ++ surv_keys B KB).
    { unfold sk. rewrite HKs, Hpe, surv_keys_app by auto. cbn [surv_keys]. replace (0 <=? p) with false by lia.
      destruct HA' as (-> & _). reflexivity. }
    assert (Hrem : rem = x :: removed_of B KB).
    { unfold rem. rewrite HKs, Hpe, removed_of_app by auto. cbn [removed_of]. replace (0 <=? p) with false by lia.
      destruct HA' as (_ & ->). reflexivity. }
    set (skB := surv_keys B KB) in *.
    assert (HskBnd : NoDup skB /\ NoDup KA /\ forall y, In y KA -> ~ In y skB).
    { rewrite Hsk in Hsknd. destruct (nodup_app_inv _ _ Hsknd) as (? & ? & ?). auto. }
    destruct HskBnd as (HskBnd & HKAnd & HKAdisj).
    assert (HskB_in : forall y, In y skB -> In y sk) by (intros y Hy; rewrite Hsk; apply in_or_app; now right).
    destruct (renum_spec skB (zlen KA) inf1 HskBnd) as (Hl2 & Hun2 & Hre2).
    { intros y Hy. rewrite Hl1. destruct (HKin y (Hsk_in y (HskB_in y Hy))) as (? & ? & ?). lia. }
    set (inf2 := renum skB (zlen KA) inf1) in *.
    assert (Hnum' : thenum s - 1 - zlen (removed_of B KB) = zlen sk).
    { rewrite Hrem, zlen_cons in Hlens. lia. }
    assert (HlenKA : zlen KA = zlen A) by (unfold zlen; now rewrite HlKA).
    set (keys2 := KA ++ skB ++ G' ++ T) in *.
    assert (Hkeys2 : keys2 = sk ++ G' ++ T) by (unfold keys2; rewrite Hsk, <- app_assoc; reflexivity).
    assert (Hk2 : forall n, 0 <= n < zlen sk -> getn (-1) keys2 n = getn (-1) sk n).
    { intros n Hn. rewrite Hkeys2. apply getn_app_l. lia. }
    pose proof (zlen_nonneg sk) as Hsk0. pose proof (zlen_nonneg rem) as Hrem0.
    rewrite Hnum'.
    assert (Hinv' : ds_inv (mkDS (data s) inf2 keys2 (themax s) (thesize s) (zlen sk) ff1)).
    { constructor; cbn [data info keys themax thesize thenum firstfree]; try lia.
      - intros n Hn. rewrite Hk2 by lia.
        assert (Hin : In (getn (-1) sk n) sk) by (apply getn_in; lia).
        destruct (HKin _ (Hsk_in _ Hin)) as (Hr1 & Hr2 & Hr3). split; [lia|].
        destruct (Z.lt_ge_cases n (zlen KA)) as [Hlt|Hge].
        + (* an element in front of the first removed one keeps its number *)
          assert (Hg : getn (-1) sk n = getn (-1) (keys s) n).
          { rewrite Hsk, getn_app_l by lia. rewrite <- HKg by lia. rewrite HKs, getn_app_l by lia. reflexivity. }
          assert (HinKA : In (getn (-1) sk n) KA).
          { rewrite Hsk, getn_app_l by lia. apply getn_in. lia. }
          rewrite Hun2 by (apply HKAdisj; exact HinKA).
          unfold inf1. rewrite Hun1 by (intros Hi; exact (Hdisj _ Hin Hi)).
          rewrite Hg. apply Hk. lia.
        + rewrite Hsk, getn_app_r by lia.
          replace (getn (-1) skB (n - zlen KA)) with (getn 0 skB (n - zlen KA)).
          2:{ rewrite !getn_nth by lia. apply nth_indep. rewrite Hsk, zlen_app in Hn. unfold zlen in *. lia. }
          rewrite Hre2; [lia|]. rewrite Hsk, zlen_app in Hn. lia.
      - exists (rev rem ++ fl). split; [|split; [exact Hnd1|lia]].
        eapply chain_ext; [|exact Hc1]. intros y Hy. apply Hun2. intros Hys.
        apply in_app_or in Hy as [Hy|Hy].
        + apply in_rev in Hy. exact (Hdisj _ (HskB_in _ Hys) Hy).
        + exact (HKfl _ (Hsk_in _ (HskB_in _ Hys)) Hy). }
    split; [exact Hinv'|]. split; [reflexivity|]. split; [|split; [reflexivity|split; [reflexivity|split; reflexivity]]].
    rewrite ds_abs_map by (cbn [keys thenum]; lia). cbn [keys thenum].
    replace (firstn (Z.to_nat (zlen sk)) keys2) with sk.
    2:{ rewrite Hkeys2. unfold zlen. rewrite Nat2Z.id. symmetry. apply firstn_app_len. }
    rewrite (ds_abs_map s) by lia. fold K. rewrite a_remove_perm_surv. reflexivity.
Qed.

End DSPerm.

(* ======================================================================== part 5 *)
Lemma list_eq_getn {A} (d : A) (a b : list A) :
  zlen a = zlen b -> (forall i, 0 <= i < zlen a -> getn d a i = getn d b i) -> a = b.
Proof.
  unfold zlen. intros Hl H. apply (nth_ext _ _ d d); [lia|]. intros n Hn.
  specialize (H (Z.of_nat n)). rewrite !getn_nth, Nat2Z.id in H by lia. apply H. lia.
Qed.

Lemma getn_map {A B} (f : A -> B) (da : A) (db : B) l i :
  0 <= i < zlen l -> getn db (map f l) i = f (getn da l i).
Proof.
  unfold zlen. intros H. rewrite !getn_nth by lia.
  rewrite nth_indep with (d' := f da) by (rewrite map_length; lia). apply map_nth.
Qed.

Lemma zlen_map {A B} (f : A -> B) l : zlen (map f l) = zlen l.
Proof. unfold zlen. now rewrite map_length. Qed.

Lemma zlen_removelast {A} (l : list A) : l <> [] -> zlen (removelast l) = zlen l - 1.
Proof.
  intros H. destruct (exists_last H) as (l' & a & ->). rewrite removelast_last, zlen_app. unfold zlen; cbn; lia.
Qed.

Lemma getn_removelast {A} (d : A) (l : list A) i : 0 <= i < zlen l - 1 -> getn d (removelast l) i = getn d l i.
Proof.
  destruct l as [|x r]; [unfold zlen; cbn; lia|].
  assert (Hne : x :: r <> []) by discriminate. destruct (exists_last Hne) as (l' & a & Heq). rewrite Heq.
  intros H. rewrite removelast_last. rewrite zlen_app in H. replace (zlen [a]) with 1 in H by reflexivity.
  symmetry. apply getn_app_l. lia.
Qed.

Lemma rev_head_last {A} (d : A) (l : list A) x r : rev l = x :: r -> x = getn d l (zlen l - 1) /\ l <> [].
Proof.
  intros H. assert (Hl : l = rev r ++ [x]) by (rewrite <- (rev_involutive l), H; reflexivity).
  subst l. split; [|destruct (rev r); discriminate].
  rewrite zlen_app. replace (zlen [x]) with 1 by reflexivity. replace (zlen (rev r) + 1 - 1) with (zlen (rev r)) by lia.
  symmetry. apply getn_app_mid.
Qed.

Lemma getn_indep {A} (d d' : A) l i : 0 <= i < zlen l -> getn d l i = getn d' l i.
Proof. unfold zlen. intros H. rewrite !getn_nth by lia. apply nth_indep. lia. Qed.

Section DSOps.
Variable D : Type.
Variable d0 : D.
Notation ds := (ds D).

Lemma zlen_abs (s : ds) : 0 <= thenum s -> zlen (ds_abs d0 s) = thenum s.
Proof. intros H. unfold ds_abs. rewrite zlen_map. unfold zlen. rewrite zrange_length. lia. Qed.

Lemma getn_abs (s : ds) n : 0 <= n < thenum s ->
  getn (-1, d0) (ds_abs d0 s) n = (ds_key s n, ds_elem_num d0 s n).
Proof.
  intros H. unfold ds_abs. rewrite (getn_map _ 0) by (rewrite zlen_zrange; lia). now rewrite getn_zrange by lia.
Qed.

(* two consistent views with the same keys and elements have the same abstraction *)
Lemma abs_ext (s s' : ds) :
  thenum s' = thenum s -> 0 <= thenum s ->
  (forall n, 0 <= n < thenum s -> ds_key s' n = ds_key s n /\ ds_elem_num d0 s' n = ds_elem_num d0 s n) ->
  ds_abs d0 s' = ds_abs d0 s.
Proof.
  intros Hn H0 H. apply (list_eq_getn (-1, d0)); rewrite !zlen_abs by lia; [lia|].
  intros i Hi. rewrite !getn_abs by lia. destruct (H i) as (-> & ->); [lia|reflexivity].
Qed.

Lemma in_abs (s : ds) k v : ds_inv s ->
  (In (k, v) (ds_abs d0 s) <-> exists n, 0 <= n < thenum s /\ ds_key s n = k /\ getn d0 (data s) k = v).
Proof.
  intros Hi. unfold ds_abs. rewrite in_map_iff. split.
  - intros (n & Hn & Hin). apply in_zrange in Hin. inversion Hn; subst. exists n. unfold ds_elem_num. auto.
  - intros (n & Hn & Hk & Hv). exists n. split; [|apply in_zrange; lia]. unfold ds_elem_num. now rewrite Hk, Hv.
Qed.

Lemma abs_keys_nodup (s : ds) : ds_inv s -> NoDup (a_keys (ds_abs d0 s)).
Proof.
  intros Hi. destruct (keys_facts D s Hi) as (HKl & Hsplit & HKg & HKin & HKnd).
  destruct Hi as [Hmax Hld Hli Hlk Hb Hk Hf].
  unfold a_keys. rewrite (ds_abs_map D d0 s) by lia. rewrite map_map. cbn. now rewrite map_id.
Qed.

(* ---------------------------------------------------------------- add *)
Lemma ds_add_spec (s : ds) x : ds_inv s -> thenum s < themax s ->
  let s' := fst (ds_add s x) in let k := snd (ds_add s x) in
  ds_inv s' /\ ds_abs d0 s' = ds_abs d0 s ++ [(k, x)] /\ ~ In k (a_keys (ds_abs d0 s)) /\
  themax s' = themax s /\ thenum s' = thenum s + 1.
Proof.
  intros Hinv Hpre. pose proof (ds_add_inv D s x Hinv Hpre) as Hinv'.
  pose proof Hinv as [Hmax Hld Hli Hlk Hb Hk (fl & Hc & Hnd & Hlen)].
  assert (Hneg : forall y, In y fl -> getn 0 (info s) y < 0) by (eapply chain_info_neg; [|exact Hc]; lia).
  unfold ds_add in *. unfold ds_create in *.
  set (idx := if firstfree s =? - themax s - 1 then thesize s else - firstfree s - 1).
  assert (Hidx : 0 <= idx < themax s /\ forall n, 0 <= n < thenum s -> getn (-1) (keys s) n <> idx).
  { unfold idx. destruct (Z.eqb_spec (firstfree s) (- themax s - 1)) as [Hff|Hff].
    - destruct fl as [|y r]; [|cbn in Hc; lia]. unfold zlen in Hlen; cbn in Hlen.
      split; [lia|]. intros n Hn. destruct (Hk n Hn). lia.
    - destruct fl as [|y r]; [cbn in Hc; lia|]. cbn in Hc. destruct Hc as (Hy & Hyr & _).
      split; [lia|]. intros n Hn Heq. destruct (Hk n Hn) as (_ & Hi). rewrite Heq in Hi.
      replace (- firstfree s - 1) with y in Hi by lia. specialize (Hneg y (or_introl eq_refl)). lia. }
  destruct Hidx as (Hidx & Hfresh).
  destruct (firstfree s =? - themax s - 1); cbn [fst snd] in *; fold idx in Hinv' |- *.
  all: (split; [exact Hinv'|]; split; [|split; [|split; reflexivity]]).
  all: try (unfold a_keys; rewrite in_map_iff; intros ((k', v') & Hk' & Hin); cbn in Hk'; subst k';
            apply (in_abs s) in Hin as (n & Hn & Hkn & _); [|exact Hinv]; exact (Hfresh n Hn Hkn)).
  all: unfold ds_abs at 1; cbn [thenum]; rewrite zrange_succ, map_app by lia; cbn [map]; f_equal.
  all: try (apply map_ext_in; intros n Hn; apply in_zrange in Hn;
            unfold ds_key, ds_elem_num, ds_key; cbn [keys data];
            rewrite getn_setn_other by lia; f_equal;
            rewrite getn_setn_other by (apply Hfresh; lia); reflexivity).
  all: unfold ds_key, ds_elem_num, ds_key; cbn [keys data]; rewrite getn_setn_same by lia;
       rewrite getn_setn_same by lia; reflexivity.
Qed.


(* ---------------------------------------------------------------- remove(int) *)
Lemma ds_remove_num_facts (s : ds) n : 0 <= n < thenum s ->
  let s' := ds_remove_num s n in
  thenum s' = thenum s - 1 /\ data s' = data s /\ themax s' = themax s /\
  keys s' = (if n =? thenum s - 1 then keys s else setn (keys s) n (getn (-1) (keys s) (thenum s - 1))).
Proof.
  intros H. unfold ds_remove_num, ds_has_num.
  replace (0 <=? n) with true by lia. replace (n <? thenum s) with true by lia. cbn [andb].
  destruct (ds_shrink _ _ _ _) as (ff', size').
  destruct (n =? thenum s - 1); cbn; auto.
Qed.

Lemma ds_remove_num_abs (s : ds) n : ds_inv s -> ds_abs d0 (ds_remove_num s n) = a_remove n (ds_abs d0 s).
Proof.
  intros Hinv. pose proof Hinv as [Hmax Hld Hli Hlk Hb Hk Hf].
  unfold a_remove. rewrite zlen_abs by lia.
  destruct (Z.leb_spec 0 n); cbn [andb].
  2:{ unfold ds_remove_num, ds_has_num. replace (0 <=? n) with false by lia. reflexivity. }
  destruct (Z.ltb_spec n (thenum s)); cbn [andb].
  2:{ unfold ds_remove_num, ds_has_num. replace (n <? thenum s) with false by lia. now rewrite andb_false_r. }
  destruct (ds_remove_num_facts s n) as (Hn' & Hd' & Hm' & Hk'); [lia|].
  set (l := ds_abs d0 s). assert (Hll : zlen l = thenum s) by (apply zlen_abs; lia).
  destruct (rev l) as [|lst r] eqn:Hrev.
  { assert (l = []) by (rewrite <- (rev_involutive l), Hrev; reflexivity). rewrite H1 in Hll. unfold zlen in Hll; cbn in Hll; lia. }
  destruct (rev_head_last (-1, d0) l lst r Hrev) as (Hlst & Hne). rewrite Hll in Hlst.
  unfold l in Hlst. rewrite getn_abs in Hlst by lia.
  apply (list_eq_getn (-1, d0)).
  - rewrite zlen_abs by lia. rewrite Hn'. destruct (n =? thenum s - 1); cbv iota; [|rewrite zlen_setn]; rewrite zlen_removelast; auto; lia.
  - rewrite zlen_abs by lia. rewrite Hn'. intros i Hi. rewrite getn_abs by lia.
    unfold ds_key, ds_elem_num, ds_key. rewrite Hd', Hk'.
    destruct (Z.eqb_spec n (thenum s - 1)) as [He|He].
    + rewrite getn_removelast by lia. unfold l. rewrite getn_abs by lia. reflexivity.
    + rewrite !getn_setn. rewrite zlen_removelast by assumption.
      destruct (Z.eqb_spec i n) as [->|Hin]; cbn [andb].
      * replace (0 <=? n) with true by lia. replace (n <? zlen (keys s)) with true by lia.
        replace (n <? zlen l - 1) with true by lia. cbn [andb]. rewrite Hlst. reflexivity.
      * rewrite getn_removelast by lia. unfold l. rewrite getn_abs by lia. reflexivity.
Qed.

(* ---------------------------------------------------------------- clear, element write *)
Lemma ds_clear_spec (s : ds) : ds_inv s -> ds_inv (ds_clear s) /\ ds_abs d0 (ds_clear s) = [].
Proof.
  intros [Hmax Hld Hli Hlk Hb Hk Hf]. split; [|reflexivity].
  constructor; cbn; try lia. exists []. cbn. split; [reflexivity|]. split; [constructor|reflexivity].
Qed.

Lemma ds_set_num_spec (s : ds) n x : ds_inv s ->
  ds_inv (ds_set_num s n x) /\ ds_abs d0 (ds_set_num s n x) = a_set d0 n x (ds_abs d0 s).
Proof.
  intros Hinv. pose proof Hinv as [Hmax Hld Hli Hlk Hb Hk Hf].
  unfold ds_set_num, a_set, ds_has_num. rewrite zlen_abs by lia.
  destruct ((0 <=? n) && (n <? thenum s)) eqn:Hr; [|auto].
  apply andb_true_iff in Hr as (H1 & H2). apply Z.leb_le in H1. apply Z.ltb_lt in H2.
  split.
  - constructor; cbn; rewrite ?zlen_setn; auto.
  - apply (list_eq_getn (-1, d0)); rewrite zlen_abs by (cbn; lia); cbn [thenum].
    + rewrite zlen_setn, zlen_abs by lia. reflexivity.
    + intros i Hi. rewrite getn_abs by (cbn; lia). rewrite getn_setn, zlen_abs by lia.
      rewrite (getn_indep (0, d0) (-1, d0)) by (rewrite zlen_abs; lia). rewrite !getn_abs by lia.
      unfold ds_key, ds_elem_num, ds_key. cbn [keys data fst].
      destruct (Z.eqb_spec i n) as [->|Hin]; cbn [andb].
      * replace (0 <=? n) with true by lia. replace (n <? thenum s) with true by lia. cbn [andb].
        destruct (Hk n) as (Hr1 & _); [lia|]. rewrite getn_setn_same by lia. reflexivity.
      * rewrite getn_setn_other; [reflexivity|]. intros Heq.
        destruct (Hk n) as (_ & Hn1); [lia|]. destruct (Hk i) as (_ & Hi1); [lia|]. rewrite Heq in Hi1. lia.
Qed.

(* ---------------------------------------------------------------- reMax *)
Lemma ds_remax_spec (s : ds) m : ds_inv s ->
  ds_inv (ds_remax d0 s m) /\ ds_abs d0 (ds_remax d0 s m) = ds_abs d0 s /\
  themax (ds_remax d0 s m) = Z.max m (thesize s) /\ thesize (ds_remax d0 s m) = thesize s /\
  thenum (ds_remax d0 s m) = thenum s.
Proof.
  intros Hinv. pose proof Hinv as [Hmax Hld Hli Hlk Hb Hk (fl & Hc & Hnd & Hlen)].
  unfold ds_remax. set (nm := if m <? thesize s then thesize s else m).
  assert (Hnm : nm = Z.max m (thesize s)) by (unfold nm; destruct (Z.ltb_spec m (thesize s)); lia).
  assert (Hnm2 : thesize s <= nm) by lia.
  assert (Hfll : (length fl < S (Z.to_nat (thesize s)))%nat) by (unfold zlen in Hlen; lia).
  rewrite (last_cell_chain (info s) (- themax s - 1) (thesize s) fl) by (auto; lia).
  assert (Hneg : forall y, In y fl -> getn 0 (info s) y < 0) by (eapply chain_info_neg; [|exact Hc]; lia).
  assert (Hflr : forall y, In y fl -> 0 <= y < thesize s) by (eapply chain_in_range; exact Hc).
  set (cell := last fl (-1)).
  set (inf' := if cell =? -1 then info s else setn (info s) cell (- nm - 1)).
  set (ff' := if cell =? -1 then - nm - 1 else firstfree s).
  assert (Hinf'l : zlen inf' = themax s) by (unfold inf'; destruct (cell =? -1); rewrite ?zlen_setn; auto).
  assert (Hc' : chain inf' (- nm - 1) (thesize s) ff' fl /\ (forall y, ~ In y fl -> getn 0 inf' y = getn 0 (info s) y)).
  { destruct fl as [|y r].
    - unfold inf', ff', cell. cbn. split; [reflexivity|auto].
    - assert (Hne : y :: r <> []) by discriminate.
      assert (Hin : In cell (y :: r)) by (apply last_in; exact Hne).
      specialize (Hflr cell Hin). unfold inf', ff'. replace (cell =? -1) with false by lia. split.
      + apply chain_patch with (endm := - themax s - 1); auto. intros z Hz. pose proof (chain_in_range _ _ _ _ _ Hc z Hz). lia.
      + intros z Hz. apply getn_setn_other. intros ->. contradiction. }
  destruct Hc' as (Hc' & Hun).
  assert (Hres : ds_inv (mkDS (resize d0 nm (data s)) (resize 0 nm inf') (resize (-1) nm (keys s)) nm (thesize s) (thenum s) ff')).
  { constructor; cbn; rewrite ?zlen_resize by lia; try lia.
    - intros n Hn. destruct (Hk n Hn) as (H1 & H2). rewrite getn_resize by lia. split; [lia|].
      rewrite getn_resize by lia. rewrite Hun; [exact H2|]. intros Hin. specialize (Hneg _ Hin). lia.
    - exists fl. split; [|auto]. apply chain_resize; auto. intros y Hy. specialize (Hflr y Hy). lia. }
  split; [exact Hres|]. split; [|cbn; auto].
  apply abs_ext; cbn [thenum]; [reflexivity|lia|].
  intros n Hn. destruct (Hk n Hn) as (H1 & H2). unfold ds_key, ds_elem_num, ds_key. cbn [keys data].
  rewrite getn_resize by lia. split; [reflexivity|]. apply getn_resize; lia.
Qed.


(* ---------------------------------------------------------------- operator= *)
Lemma ds_assign_spec (lhs rhs : ds) : ds_inv lhs -> ds_inv rhs ->
  ds_inv (ds_assign d0 lhs rhs) /\ ds_abs d0 (ds_assign d0 lhs rhs) = ds_abs d0 rhs /\
  thenum (ds_assign d0 lhs rhs) = thenum rhs /\ thesize (ds_assign d0 lhs rhs) = thesize rhs /\
  themax (ds_assign d0 lhs rhs) = Z.max (themax lhs) (thesize rhs).
Proof.
  intros Hl Hr. pose proof Hr as [Rmax Rld Rli Rlk Rb Rk (fl & Rc & Rnd & Rlen)].
  unfold ds_assign.
  set (l1 := if themax lhs <? thesize rhs then ds_remax d0 lhs (thesize rhs) else lhs).
  assert (Hl1 : ds_inv l1 /\ thesize rhs <= themax l1 /\ themax l1 = Z.max (themax lhs) (thesize rhs)).
  { unfold l1. destruct (Z.ltb_spec (themax lhs) (thesize rhs)).
    - destruct (ds_remax_spec lhs (thesize rhs) Hl) as (H1 & _ & H3 & _). rewrite H3.
      destruct Hl as [? ? ? ? Hb ? ?]. split; [exact H1|]. lia.
    - split; [exact Hl|]. lia. }
  destruct Hl1 as (Hl1 & HL & HLmax).
  destruct (ds_clear_spec l1 Hl1) as (Hl2 & _). set (l2 := ds_clear l1) in *.
  assert (HL2 : themax l2 = themax l1) by reflexivity.
  pose proof Hl2 as [Lmax Lld Lli Llk Lb Lk Lf]. rewrite HL2 in *.
  set (L := themax l1) in *.
  set (dat := copy_prefix (thesize rhs) (data rhs) (data l2)).
  set (inf := copy_prefix (thesize rhs) (info rhs) (info l2)).
  set (kys := copy_prefix (thenum rhs) (keys rhs) (keys l2)).
  assert (Hdl : zlen dat = L) by (unfold dat; rewrite zlen_copy_prefix; lia).
  assert (Hil : zlen inf = L) by (unfold inf; rewrite zlen_copy_prefix; lia).
  assert (Hkl : zlen kys = L) by (unfold kys; rewrite zlen_copy_prefix; lia).
  assert (Hdg : forall i, 0 <= i < thesize rhs -> getn d0 dat i = getn d0 (data rhs) i).
  { intros i Hi. unfold dat. rewrite getn_copy_prefix by lia. now replace (i <? thesize rhs) with true by lia. }
  assert (Hig : forall i, 0 <= i < thesize rhs -> getn 0 inf i = getn 0 (info rhs) i).
  { intros i Hi. unfold inf. rewrite getn_copy_prefix by lia. now replace (i <? thesize rhs) with true by lia. }
  assert (Hkg : forall i, 0 <= i < thenum rhs -> getn (-1) kys i = getn (-1) (keys rhs) i).
  { intros i Hi. unfold kys. rewrite getn_copy_prefix by lia. now replace (i <? thenum rhs) with true by lia. }
  assert (Hneg : forall y, In y fl -> getn 0 (info rhs) y < 0) by (eapply chain_info_neg; [|exact Rc]; lia).
  assert (Hflr : forall y, In y fl -> 0 <= y < thesize rhs) by (eapply chain_in_range; exact Rc).
  assert (Habs : forall inf' ff', (forall n, 0 <= n < thenum rhs -> getn 0 inf' (getn (-1) (keys rhs) n) = n) ->
     ds_abs d0 (mkDS dat inf' kys L (thesize rhs) (thenum rhs) ff') = ds_abs d0 rhs).
  { intros inf' ff' _. apply abs_ext; cbn [thenum]; [reflexivity|lia|]. intros n Hn.
    unfold ds_key, ds_elem_num, ds_key. cbn [keys data]. rewrite Hkg by lia. split; [reflexivity|].
    apply Hdg. destruct (Rk n Hn). lia. }
  destruct (Z.eqb_spec (firstfree rhs) (- themax rhs - 1)) as [Hff|Hff].
  - assert (fl = []) as -> by (destruct fl as [|y r]; [reflexivity|cbn in Rc; lia]).
    unfold zlen in Rlen; cbn in Rlen.
    assert (Hinf : forall n, 0 <= n < thenum rhs -> getn 0 inf (getn (-1) (keys rhs) n) = n).
    { intros n Hn. destruct (Rk n Hn) as (H1 & H2). rewrite Hig by lia. exact H2. }
    split; [|split; [apply Habs; exact Hinf|cbn; repeat split; auto]].
    constructor; cbn; try lia.
    + intros n Hn. rewrite Hkg by lia. destruct (Rk n Hn) as (H1 & H2). split; [lia|]. apply Hinf; lia.
    + exists []. cbn. split; [reflexivity|]. split; [constructor|unfold zlen; cbn; lia].
  - destruct fl as [|y r] eqn:Hfl; [cbn in Rc; lia|]. rewrite <- Hfl in *.
    assert (Hne : fl <> []) by (rewrite Hfl; discriminate).
    assert (Hfll : (length fl < S (Z.to_nat (thesize rhs)))%nat) by (unfold zlen in Rlen; lia).
    rewrite (last_cell_chain (info rhs) (- themax rhs - 1) (thesize rhs) fl) by (auto; lia).
    set (cell := last fl (-1)).
    assert (Hcin : In cell fl) by (apply last_in; exact Hne).
    assert (Hc1 : chain inf (- themax rhs - 1) (thesize rhs) (firstfree rhs) fl).
    { eapply chain_ext; [|exact Rc]. intros z Hz. apply Hig. apply Hflr; exact Hz. }
    assert (Hc2 : chain (setn inf cell (- L - 1)) (- L - 1) (thesize rhs) (firstfree rhs) fl).
    { apply chain_patch with (endm := - themax rhs - 1); auto. intros z Hz. specialize (Hflr z Hz). lia. }
    assert (Hinf : forall n, 0 <= n < thenum rhs -> getn 0 (setn inf cell (- L - 1)) (getn (-1) (keys rhs) n) = n).
    { intros n Hn. destruct (Rk n Hn) as (H1 & H2). rewrite getn_setn_other.
      - rewrite Hig by lia. exact H2.
      - intros Heq. specialize (Hneg cell Hcin). rewrite <- Heq in Hneg. lia. }
    split; [|split; [apply Habs; exact Hinf|cbn; repeat split; auto]].
    constructor; cbn; rewrite ?zlen_setn; try lia.
    + intros n Hn. rewrite Hkg by lia. destruct (Rk n Hn) as (H1 & H2). split; [lia|]. apply Hinf; lia.
    + exists fl. split; [exact Hc2|]. split; [exact Rnd|exact Rlen].
Qed.

(* ---------------------------------------------------------------- add(keys[], items, n) *)
Lemma ds_add_many_spec : forall xs (s : ds), ds_inv s -> thenum s + zlen xs <= themax s ->
  let s' := fst (ds_add_many s xs) in let ks := snd (ds_add_many s xs) in
  ds_inv s' /\ ds_abs d0 s' = ds_abs d0 s ++ combine ks xs /\ length ks = length xs /\
  NoDup (a_keys (ds_abs d0 s) ++ ks) /\ themax s' = themax s.
Proof.
  induction xs as [|x r IH]; intros s Hinv Hpre; cbn [ds_add_many].
  - cbn. rewrite !app_nil_r. split; [exact Hinv|]. split; [reflexivity|]. split; [reflexivity|]. split; [now apply abs_keys_nodup|reflexivity].
  - rewrite zlen_cons in Hpre. pose proof (zlen_nonneg r).
    destruct (ds_add_spec s x Hinv) as (Hi1 & Ha1 & Hf1 & Hm1 & Hn1); [lia|].
    destruct (ds_add s x) as (s1, k). cbn [fst snd] in *.
    destruct (IH s1 Hi1) as (Hi2 & Ha2 & Hl2 & Hnd2 & Hm2); [lia|].
    destruct (ds_add_many s1 r) as (s2, ks). cbn [fst snd] in *.
    split; [exact Hi2|]. split; [|split; [cbn; lia|split; [|lia]]].
    + rewrite Ha2, Ha1, <- app_assoc. reflexivity.
    + rewrite Ha1 in Hnd2. unfold a_keys in *. rewrite map_app in Hnd2. cbn in Hnd2. rewrite <- app_assoc in Hnd2. exact Hnd2.
Qed.

End DSOps.

(* ======================================================================== part 6 *)
(* ------------------------------------------------------------------ mark_perm *)
Lemma zlen_mark_perm perm nums : zlen (mark_perm perm nums) = zlen perm.
Proof. induction nums as [|n r IH]; cbn; [reflexivity|]. now rewrite zlen_setn. Qed.

Lemma getn_mark_perm perm nums i : 0 <= i < zlen perm ->
  getn 0 (mark_perm perm nums) i = if existsb (Z.eqb i) nums then -1 else getn 0 perm i.
Proof.
  intros Hi. induction nums as [|n r IH]; cbn [mark_perm fold_right existsb]; [reflexivity|].
  change (fold_right (fun n p => setn p n (-1)) perm r) with (mark_perm perm r).
  rewrite getn_setn, zlen_mark_perm.
  destruct (Z.eqb_spec i n) as [->|Hne]; cbn [andb orb].
  - replace (0 <=? n) with true by lia. replace (n <? zlen perm) with true by lia. reflexivity.
  - exact IH.
Qed.

Section DSStep.
Variable D : Type.
Variable d0 : D.
Notation ds := (ds D).
Notation aset := (list (Z * D)).

(* ------------------------------------------------------------------ a_number *)
Lemma a_number_none : forall (l : aset) k j, ~ In k (a_keys l) -> a_number l k j = None.
Proof.
  induction l as [|(k', v) r IH]; intros k j H; cbn; [reflexivity|].
  destruct (Z.eqb_spec k' k) as [->|Hne]; [exfalso; apply H; now left|]. apply IH. intros Hi. apply H. now right.
Qed.

Lemma a_number_some : forall (l : aset) k j i, NoDup (a_keys l) -> 0 <= i < zlen l ->
  fst (getn (-1, d0) l i) = k -> a_number l k j = Some (j + i).
Proof.
  induction l as [|(k', v) r IH]; intros k j i Hnd Hi Hk.
  - unfold zlen in Hi; cbn in Hi; lia.
  - cbn [a_number]. cbn [a_keys map fst] in Hnd. apply NoDup_cons_iff in Hnd as (Hk' & Hnd).
    rewrite zlen_cons in Hi. destruct (Z.eq_dec i 0) as [->|Hi0].
    + cbn in Hk. subst k'. rewrite Z.eqb_refl. f_equal. lia.
    + rewrite getn_cons_pos in Hk by lia.
      destruct (Z.eqb_spec k' k) as [->|Hne].
      * exfalso. apply Hk'. unfold a_keys. rewrite <- Hk. apply in_map. apply getn_in. lia.
      * rewrite (IH k (j + 1) (i - 1)); auto; [f_equal; lia|lia].
Qed.

Lemma a_number_inv : forall (l : aset) k j n, a_number l k j = Some n ->
  j <= n < j + zlen l /\ fst (getn (-1, d0) l (n - j)) = k.
Proof.
  induction l as [|(k', v) r IH]; intros k j n H; cbn in H; [discriminate|].
  rewrite zlen_cons. pose proof (zlen_nonneg r).
  destruct (Z.eqb_spec k' k) as [->|Hne].
  - inversion H; subst. replace (n - n) with 0 by lia. split; [lia|reflexivity].
  - apply IH in H as (H1 & H2). split; [lia|]. rewrite getn_cons_pos by lia. replace (n - j - 1) with (n - (j + 1)) by lia. exact H2.
Qed.

(* ------------------------------------------------------------------ what the abstract step keeps *)
Lemma in_a_remove (l : aset) n e : In e l -> (0 <= n < zlen l -> e <> getn (-1, d0) l n) -> In e (a_remove n l).
Proof.
  intros Hin Hne. unfold a_remove.
  destruct ((0 <=? n) && (n <? zlen l)) eqn:Hr; [|exact Hin].
  apply andb_true_iff in Hr as (H1 & H2). apply Z.leb_le in H1. apply Z.ltb_lt in H2.
  specialize (Hne (conj H1 H2)).
  destruct (rev l) as [|lst r] eqn:Hrev; [exact Hin|].
  destruct (rev_head_last (-1, d0) l lst r Hrev) as (Hlst & Hnn).
  apply (in_getn (-1, d0)) in Hin as (i & Hi & He).
  assert (Hin' : i <> n) by (intros ->; congruence).
  destruct (Z.eqb_spec n (zlen l - 1)) as [Hnl|Hnl].
  - rewrite <- He. rewrite <- (getn_removelast (-1, d0)) by lia. apply getn_in. rewrite zlen_removelast by assumption. lia.
  - destruct (Z.eq_dec i (zlen l - 1)) as [Hil|Hil].
    + assert (Hel : e = lst) by (rewrite Hlst, <- Hil; auto).
      assert (Hg : In (getn (-1, d0) (setn (removelast l) n lst) n) (setn (removelast l) n lst)).
      { apply getn_in. rewrite zlen_setn, zlen_removelast by assumption. lia. }
      rewrite getn_setn_same in Hg by (rewrite zlen_removelast by assumption; lia). rewrite Hel. exact Hg.
    + rewrite <- He. rewrite <- (getn_removelast (-1, d0)) by lia.
      rewrite <- (getn_setn_other (-1, d0) (removelast l) n i lst) by assumption.
      apply getn_in. rewrite zlen_setn, zlen_removelast by assumption. lia.
Qed.

Lemma in_a_remove_perm : forall perm (l : aset) i, 0 <= i < zlen l -> i < zlen perm -> 0 <= getn 0 perm i ->
  In (getn (-1, d0) l i) (a_remove_perm perm l).
Proof.
  induction perm as [|p pr IH]; intros [|e r] i Hi Hp Hg; try (unfold zlen in *; cbn in *; lia).
  cbn [a_remove_perm]. rewrite zlen_cons in Hi. rewrite zlen_cons in Hp. destruct (Z.eq_dec i 0) as [->|Hi0].
  - cbn in Hg. replace (0 <=? p) with true by lia. now left.
  - rewrite getn_cons_pos in Hg by lia. rewrite getn_cons_pos by lia.
    assert (In (getn (-1, d0) r (i - 1)) (a_remove_perm pr r)) by (apply IH; [lia|lia|exact Hg]).
    destruct (0 <=? p); [now right|assumption].
Qed.

Lemma key_at_in (l : aset) i : 0 <= i < zlen l -> getn (-1, d0) l i = (a_key_at d0 l i, snd (getn (-1, d0) l i)).
Proof. intros H. unfold a_key_at. now destruct (getn (-1, d0) l i). Qed.

Lemma in_a_set (l : aset) n x k v : In (k, v) l -> (0 <= n < zlen l -> k <> a_key_at d0 l n) -> In (k, v) (a_set d0 n x l).
Proof.
  intros Hin Hne. unfold a_set.
  destruct ((0 <=? n) && (n <? zlen l)) eqn:Hr; [|exact Hin].
  apply andb_true_iff in Hr as (H1 & H2). apply Z.leb_le in H1. apply Z.ltb_lt in H2.
  specialize (Hne (conj H1 H2)).
  apply (in_getn (-1, d0)) in Hin as (i & Hi & He).
  assert (i <> n). { intros ->. apply Hne. unfold a_key_at. now rewrite He. }
  rewrite <- He. rewrite <- (getn_setn_other (-1, d0) l n i (fst (getn (0, d0) l n), x)) by assumption.
  apply getn_in. rewrite zlen_setn. lia.
Qed.

Theorem astep_keeps (l : aset) o r k v :
  In (k, v) l -> ~ In k (a_removed d0 l o) -> ~ In k (a_written d0 l o) -> In (k, v) (astep d0 l o r).
Proof.
  intros Hin Hrm Hwr.
  pose proof Hin as Hin0. apply (in_getn (-1, d0)) in Hin0 as (i & Hi & He).
  assert (Hki : a_key_at d0 l i = k) by (unfold a_key_at; now rewrite He).
  assert (Hperm : forall perm, zlen perm = zlen l -> 0 <= getn 0 perm i -> In (k, v) (a_remove_perm perm l)).
  { intros perm Hl Hp. rewrite <- He. apply in_a_remove_perm; auto; lia. }
  pose proof (zlen_nonneg l) as Hl0.
  destruct o; cbn [astep a_removed a_written] in *.
  - destruct r; auto. apply in_or_app; now left.
  - destruct r; auto. apply in_or_app; now left.
  - assert (Hgoal : In (k, v) (a_remove n l)).
    { apply in_a_remove; auto. intros Hn Heq. apply Hrm.
      replace (0 <=? n) with true by lia. replace (n <? zlen l) with true by lia. left.
      unfold a_key_at. now rewrite <- Heq. }
    destruct r; auto.
  - assert (Hgoal : In (k, v) (match a_number l k0 0 with Some n => a_remove n l | None => l end)).
    { destruct (a_number l k0 0) as [n|] eqn:Hn; [|exact Hin].
      apply a_number_inv in Hn as (Hn1 & Hn2). replace (n - 0) with n in Hn2 by lia.
      apply in_a_remove; auto. intros _ Heq. apply Hrm. left. rewrite <- Heq in Hn2. cbn in Hn2. auto. }
    destruct r; auto.
  - assert (Hgoal : In (k, v) (a_remove_perm (map (fun k1 => getn 0 p k1) (zrange (zlen l))) l)).
    { apply Hperm; [rewrite zlen_map, zlen_zrange; lia|].
      rewrite (getn_map _ 0) by (rewrite zlen_zrange; lia). rewrite getn_zrange by lia.
      destruct (Z.leb_spec 0 (getn 0 p i)); [assumption|]. exfalso. apply Hrm.
      rewrite <- Hki. apply in_map. apply filter_In. split; [apply in_zrange; lia|apply Z.ltb_lt; lia]. }
    destruct r; auto.
  - assert (Hgoal : In (k, v) (a_remove_perm (mark_perm (zrange (zlen l)) ns) l)).
    { apply Hperm; [rewrite zlen_mark_perm, zlen_zrange; lia|].
      rewrite getn_mark_perm by (rewrite zlen_zrange; lia). rewrite getn_zrange by lia.
      destruct (existsb (Z.eqb i) ns) eqn:Hex; [|lia]. exfalso. apply Hrm.
      apply existsb_exists in Hex as (n & Hn & Heq). apply Z.eqb_eq in Heq. subst n. rewrite <- Hki. now apply in_map. }
    destruct r; auto.
  - assert (Hgoal : In (k, v) (a_remove_perm (mark_perm (zrange (zlen l))
              (map (fun k1 => match a_number l k1 0 with Some n => n | None => -1 end) ks)) l)).
    { apply Hperm; [rewrite zlen_mark_perm, zlen_zrange; lia|].
      rewrite getn_mark_perm by (rewrite zlen_zrange; lia). rewrite getn_zrange by lia.
      match goal with |- 0 <= (if ?b then _ else _) => destruct b eqn:Hex end; [|lia]. exfalso. apply Hrm.
      apply existsb_exists in Hex as (n & Hn & Heq). apply Z.eqb_eq in Heq. subst n.
      apply in_map_iff in Hn as (k' & Hk' & Hink').
      destruct (a_number l k' 0) as [n|] eqn:Hn; [|lia]. subst n.
      apply a_number_inv in Hn as (_ & Hn2). replace (i - 0) with i in Hn2 by lia.
      rewrite He in Hn2. cbn in Hn2. now subst k'. }
    destruct r; auto.
  - exfalso. apply Hrm. unfold a_keys. change k with (fst (k, v)). now apply in_map.
  - destruct r; auto.
  - assert (Hgoal : In (k, v) (a_set d0 n x l)).
    { apply in_a_set; auto. intros Hn Heq. apply Hwr.
      replace (0 <=? n) with true by lia. replace (n <? zlen l) with true by lia. now left. }
    destruct r; auto.
  - destruct r; auto.
  - destruct r; auto.
Qed.

End DSStep.

(* ======================================================================== part 7 *)
Section DSRefine.
Variable D : Type.
Variable d0 : D.
Notation ds := (ds D).
Notation aset := (list (Z * D)).

(* every slot below size() is either in use or on the free list *)
Lemma slot_cases (s : ds) k : ds_inv s -> 0 <= k < thesize s ->
  (exists n, 0 <= n < thenum s /\ getn (-1) (keys s) n = k) \/ getn 0 (info s) k < 0.
Proof.
  intros Hinv Hk. destruct (keys_facts D s Hinv) as (HKl & Hsplit & HKg & HKin & HKnd).
  set (K := firstn (Z.to_nat (thenum s)) (keys s)) in *.
  destruct Hinv as [Hmax Hld Hli Hlk Hb Hkk (fl & Hc & Hnd & Hlen)].
  assert (Hneg : forall y, In y fl -> getn 0 (info s) y < 0) by (eapply chain_info_neg; [|exact Hc]; lia).
  assert (Hflr : forall y, In y fl -> 0 <= y < thesize s) by (eapply chain_in_range; exact Hc).
  assert (Hall : NoDup (K ++ fl)).
  { apply nodup_app_intro; auto. intros x Hx Hf. specialize (Hneg x Hf). destruct (HKin x Hx) as (_ & ? & _). lia. }
  assert (Hincl : incl (zrange (thesize s)) (K ++ fl)).
  { apply NoDup_length_incl; auto.
    - rewrite zrange_length, app_length. unfold zlen in *. lia.
    - intros x Hx. apply in_zrange. apply in_app_or in Hx as [Hx|Hx]; [destruct (HKin x Hx); lia|auto]. }
  assert (Hin : In k (K ++ fl)) by (apply Hincl; apply in_zrange; lia).
  apply in_app_or in Hin as [Hin|Hin]; [left|right; auto].
  apply (in_getn (-1)) in Hin as (n & Hn & Hg). exists n. rewrite HKl in Hn. split; [lia|]. rewrite <- HKg by lia. exact Hg.
Qed.

Lemma key_at_abs (s : ds) n : 0 <= n < thenum s -> a_key_at d0 (ds_abs d0 s) n = ds_key s n.
Proof. intros H. unfold a_key_at. now rewrite getn_abs by lia. Qed.

Lemma a_number_abs (s : ds) n : ds_inv s -> 0 <= n < thenum s -> a_number (ds_abs d0 s) (ds_key s n) 0 = Some n.
Proof.
  intros Hinv Hn. rewrite (a_number_some D d0 _ _ 0 n); [f_equal; lia|now apply abs_keys_nodup| |].
  - rewrite zlen_abs; lia.
  - now rewrite getn_abs by lia.
Qed.

Lemma a_number_abs_none (s : ds) k : ds_inv s -> (forall n, 0 <= n < thenum s -> ds_key s n <> k) ->
  a_number (ds_abs d0 s) k 0 = None.
Proof.
  intros Hinv H. apply a_number_none. unfold a_keys. rewrite in_map_iff. intros ((k', v) & Hk & Hin). cbn in Hk. subst k'.
  apply in_abs in Hin as (n & Hn & Hkn & _); auto. exact (H n Hn Hkn).
Qed.

(* ------------------------------------------------------------------ one step: invariant, refinement, outputs *)
Definition out_ok (l : aset) (r : out) : Prop :=
  match r with
  | RKey k => ~ In k (a_keys l)
  | RKeys ks => NoDup (a_keys l ++ ks)
  | _ => True
  end.

Theorem ds_step_spec (s : ds) (o : op D) : ds_inv s ->
  ds_inv (fst (ds_step d0 s o)) /\
  ds_abs d0 (fst (ds_step d0 s o)) = astep d0 (ds_abs d0 s) o (snd (ds_step d0 s o)) /\
  out_ok (ds_abs d0 s) (snd (ds_step d0 s o)).
Proof.
  intros Hinv. pose proof Hinv as [Hmax Hld Hli Hlk Hb Hk Hf].
  assert (Hzl : zlen (ds_abs d0 s) = thenum s) by (apply zlen_abs; lia).
  destruct o; cbn [ds_step].
  - (* add *)
    destruct (Z.ltb_spec (thenum s) (themax s)); [|cbn; auto].
    destruct (ds_add_spec D d0 s x Hinv) as (H1 & H2 & H3 & _); [lia|].
    destruct (ds_add s x) as (s', k). cbn [fst snd astep out_ok] in *. auto.
  - (* add many *)
    destruct (Z.leb_spec (thenum s + zlen xs) (themax s)); [|cbn; auto].
    destruct (ds_add_many_spec D d0 xs s Hinv) as (H1 & H2 & H3 & H4 & _); [lia|].
    destruct (ds_add_many s xs) as (s', ks). cbn [fst snd astep out_ok] in *. auto.
  - (* remove(int) *)
    cbn [fst snd astep out_ok]. split; [now apply ds_remove_num_inv|]. split; [now apply ds_remove_num_abs|exact I].
  - (* remove(DataKey) *)
    unfold ds_remove_key, ds_number.
    destruct ((k <? 0) || (thesize s <=? k)) eqn:Hr; cbn [fst snd astep out_ok].
    + split; [exact Hinv|]. split; [|exact I]. rewrite a_number_abs_none; auto.
      intros n Hn Hkn. destruct (Hk n Hn) as (Hr1 & _). unfold ds_key in Hkn. rewrite Hkn in Hr1.
      apply orb_true_iff in Hr as [Hr|Hr]; [apply Z.ltb_lt in Hr|apply Z.leb_le in Hr]; lia.
    + apply orb_false_iff in Hr as (Hr1 & Hr2). apply Z.ltb_ge in Hr1. apply Z.leb_gt in Hr2.
      split; [now apply ds_remove_num_inv|]. split; [|exact I].
      rewrite ds_remove_num_abs by assumption.
      destruct (slot_cases s k Hinv) as [(n & Hn & Hkn)|Hneg]; [lia| |].
      * destruct (Hk n Hn) as (_ & Hin). rewrite Hkn in Hin. rewrite Hin.
        replace k with (ds_key s n) by exact Hkn. now rewrite a_number_abs.
      * rewrite a_number_abs_none; auto.
        -- unfold a_remove. rewrite Hzl. replace (0 <=? getn 0 (info s) k) with false by lia. reflexivity.
        -- intros n Hn Hkn. destruct (Hk n Hn) as (_ & Hin). unfold ds_key in Hkn. rewrite Hkn in Hin. lia.
  - (* remove(perm) *)
    assert (Hlp : zlen (pad_perm s p) = thenum s) by (unfold pad_perm; rewrite zlen_map, zlen_zrange; lia).
    destruct (ds_remove_perm_spec D d0 s (pad_perm s p) Hinv Hlp) as (H1 & H2 & H3 & _).
    destruct (ds_remove_perm s (pad_perm s p)) as (s', p'). cbn [fst snd astep out_ok] in *.
    split; [exact H1|]. split; [|exact I]. rewrite H3, Hzl. reflexivity.
  - (* remove(nums) *)
    destruct (forallb (ds_has_num s) ns) eqn:Hg; [|cbn; auto].
    unfold ds_remove_nums.
    assert (Hlp : zlen (mark_perm (zrange (thenum s)) ns) = thenum s) by (rewrite zlen_mark_perm, zlen_zrange; lia).
    destruct (ds_remove_perm_spec D d0 s _ Hinv Hlp) as (H1 & H2 & H3 & _).
    destruct (ds_remove_perm s (mark_perm (zrange (thenum s)) ns)) as (s', p'). cbn [fst snd astep out_ok] in *.
    split; [exact H1|]. split; [|exact I]. rewrite H3, Hzl. reflexivity.
  - (* remove(keys) *)
    destruct (forallb _ ks) eqn:Hg; [|cbn; auto].
    unfold ds_remove_keys.
    assert (Hlp : zlen (mark_perm (zrange (thenum s)) (map (fun k => getn 0 (info s) k) ks)) = thenum s)
      by (rewrite zlen_mark_perm, zlen_zrange; lia).
    destruct (ds_remove_perm_spec D d0 s _ Hinv Hlp) as (H1 & H2 & H3 & _).
    destruct (ds_remove_perm s _) as (s', p'). cbn [fst snd astep out_ok] in *.
    split; [exact H1|]. split; [|exact I]. rewrite H3, Hzl. f_equal. f_equal.
    apply map_ext_in. intros k Hkin. rewrite forallb_forall in Hg. specialize (Hg k Hkin).
    apply andb_true_iff in Hg as (Hg & Hg3). apply andb_true_iff in Hg as (Hg1 & Hg2).
    apply Z.leb_le in Hg1. apply Z.ltb_lt in Hg2. unfold ds_has_key in Hg3. apply Z.leb_le in Hg3.
    destruct (slot_cases s k Hinv) as [(n & Hn & Hkn)|Hneg]; [lia| |lia].
    destruct (Hk n Hn) as (_ & Hin). rewrite Hkn in Hin. rewrite Hin.
    replace k with (ds_key s n) by exact Hkn. now rewrite a_number_abs.
  - (* clear *)
    cbn [fst snd astep out_ok]. destruct (ds_clear_spec D d0 s Hinv). auto.
  - (* reMax *)
    cbn [fst snd astep out_ok]. destruct (ds_remax_spec D d0 s m Hinv) as (H1 & H2 & _). auto.
  - (* element write *)
    cbn [fst snd astep out_ok]. destruct (ds_set_num_spec D d0 s n x Hinv). auto.
  - (* copy constructor *)
    cbn [fst snd astep out_ok]. auto.
  - (* assignment to a fresh set *)
    cbn [fst snd astep out_ok]. destruct (ds_assign_spec D d0 (ds_init d0 m) s (ds_init_inv D d0 m) Hinv) as (H1 & H2 & _). auto.
Qed.

Theorem ds_run_inv (s : ds) ops : ds_inv s -> ds_inv (ds_run d0 s ops).
Proof.
  revert s. induction ops as [|o r IH]; intros s H; cbn; [assumption|]. apply IH. now apply ds_step_spec.
Qed.

Theorem ds_reachable_inv pmax ops : ds_inv (ds_run d0 (ds_init d0 pmax) ops).
Proof. apply ds_run_inv. apply ds_init_inv. Qed.

(* ------------------------------------------------------------------ key stability *)
Theorem ds_key_stable_step (s : ds) (o : op D) k v : ds_inv s ->
  In (k, v) (ds_abs d0 s) -> ~ In k (a_removed d0 (ds_abs d0 s) o) -> ~ In k (a_written d0 (ds_abs d0 s) o) ->
  In (k, v) (ds_abs d0 (fst (ds_step d0 s o))).
Proof.
  intros Hinv Hin Hr Hw. destruct (ds_step_spec s o Hinv) as (_ & -> & _). now apply astep_keeps.
Qed.

Fixpoint never_removed (s : ds) (ops : list (op D)) (k : Z) : Prop :=
  match ops with
  | [] => True
  | o :: r => ~ In k (a_removed d0 (ds_abs d0 s) o) /\ ~ In k (a_written d0 (ds_abs d0 s) o) /\
              never_removed (fst (ds_step d0 s o)) r k
  end.

Theorem ds_key_stable (s : ds) ops k v : ds_inv s ->
  In (k, v) (ds_abs d0 s) -> never_removed s ops k -> In (k, v) (ds_abs d0 (ds_run d0 s ops)).
Proof.
  revert s. induction ops as [|o r IH]; intros s Hinv Hin Hnr; cbn in *; [assumption|].
  destruct Hnr as (H1 & H2 & H3). apply IH; auto; [now apply ds_step_spec|now apply ds_key_stable_step].
Qed.

(* lookups through a key agree with the abstraction *)
Theorem ds_lookup (s : ds) k v : ds_inv s ->
  (In (k, v) (ds_abs d0 s) <->
   0 <= k < thesize s /\ ds_has_key s k = true /\ ds_elem_key d0 s k = v /\
   exists n, ds_number s k = Some n /\ 0 <= n < thenum s /\ ds_key s n = k).
Proof.
  intros Hinv. rewrite in_abs by assumption. pose proof Hinv as [Hmax Hld Hli Hlk Hb Hk Hf].
  unfold ds_has_key, ds_elem_key, ds_number, ds_key. split.
  - intros (n & Hn & Hkn & Hv). destruct (Hk n Hn) as (Hr & Hi). unfold ds_key in Hkn. rewrite Hkn in *.
    split; [lia|]. split; [apply Z.leb_le; lia|]. split; [assumption|]. exists n.
    replace (k <? 0) with false by lia. replace (thesize s <=? k) with false by lia. cbn. rewrite Hi. auto.
  - intros (Hr & Hh & Hv & n & Hnum & Hn & Hkn). exists n. auto.
Qed.

(* dense numbering and the key <-> number bijection, stated on the observable functions *)
Theorem ds_dense (s : ds) : ds_inv s ->
  zlen (ds_abs d0 s) = thenum s /\ NoDup (a_keys (ds_abs d0 s)) /\
  (forall n, 0 <= n < thenum s -> ds_number s (ds_key s n) = Some n) /\
  (forall k n, ds_number s k = Some n -> 0 <= n -> 0 <= n < thenum s /\ ds_key s n = k).
Proof.
  intros Hinv. pose proof Hinv as [Hmax Hld Hli Hlk Hb Hk Hf].
  split; [apply zlen_abs; lia|]. split; [now apply abs_keys_nodup|]. split.
  - intros n Hn. destruct (Hk n Hn) as (Hr & Hi). unfold ds_number, ds_key.
    replace (getn (-1) (keys s) n <? 0) with false by lia. replace (thesize s <=? getn (-1) (keys s) n) with false by lia.
    cbn. now rewrite Hi.
  - intros k n Hnum Hn0. unfold ds_number in Hnum.
    destruct ((k <? 0) || (thesize s <=? k)) eqn:Hr; [discriminate|]. inversion Hnum as [Hi].
    apply orb_false_iff in Hr as (Hr1 & Hr2). apply Z.ltb_ge in Hr1. apply Z.leb_gt in Hr2.
    destruct (slot_cases s k Hinv) as [(m & Hm & Hkm)|Hneg]; [lia| |lia].
    destruct (Hk m Hm) as (_ & Him). rewrite Hkm in Him. unfold ds_key. rewrite Him in *. subst. auto.
Qed.

End DSRefine.

(* ======================================================================== part 8 *)
(* ------------------------------------------------------------------ what the rewritten permutation says *)
Section PermReport.
Variable D : Type.
Variable d0 : D.
Notation aset := (list (Z * D)).

Lemma getn_cons_0 {A} (d x : A) l : getn d (x :: l) 0 = x.
Proof. reflexivity. Qed.

(* removed entries stay negative, survivors get consecutive numbers starting at j, in their old order, and the
   element with old number i is found at its new number *)
Lemma a_perm_out_spec : forall perm (l : aset) j, zlen perm = zlen l ->
  zlen (a_perm_out perm j) = zlen perm /\
  (forall i, 0 <= i < zlen l -> getn 0 perm i < 0 -> getn 0 (a_perm_out perm j) i = getn 0 perm i) /\
  (forall i, 0 <= i < zlen l -> 0 <= getn 0 perm i ->
     j <= getn 0 (a_perm_out perm j) i < j + zlen (a_remove_perm perm l) /\
     getn (-1, d0) (a_remove_perm perm l) (getn 0 (a_perm_out perm j) i - j) = getn (-1, d0) l i) /\
  (forall i i', 0 <= i < i' -> i' < zlen l -> 0 <= getn 0 perm i -> 0 <= getn 0 perm i' ->
     getn 0 (a_perm_out perm j) i < getn 0 (a_perm_out perm j) i').
Proof.
  induction perm as [|p pr IH]; intros [|e r] j Hl; try (unfold zlen in Hl; cbn in Hl; lia).
  - unfold zlen; cbn. repeat split; intros; lia.
  - rewrite !zlen_cons in Hl. destruct (IH r (if 0 <=? p then j + 1 else j)) as (H1 & H2 & H3 & H4); [lia|].
    cbn [a_perm_out a_remove_perm]. pose proof (zlen_nonneg r) as Hr0.
    destruct (Z.leb_spec 0 p) as [Hp|Hp]; rewrite !zlen_cons.
    + split; [rewrite H1; lia|]. split; [|split].
      * intros i Hi Hn. destruct (Z.eq_dec i 0) as [->|Hi0]; [cbn in Hn; lia|].
        rewrite getn_cons_pos in Hn by lia. rewrite !(getn_cons_pos 0) by lia. apply H2; [lia|assumption].
      * intros i Hi Hn. destruct (Z.eq_dec i 0) as [->|Hi0].
        -- rewrite !getn_cons_0.
           pose proof (zlen_nonneg (a_remove_perm pr r)). split; [lia|]. replace (j - j) with 0 by lia. now rewrite getn_cons_0.
        -- rewrite getn_cons_pos in Hn by lia. rewrite (getn_cons_pos 0 j _ i) by lia.
           destruct (H3 (i - 1)) as (Ha & Hb); [lia|assumption|].
           rewrite (getn_cons_pos (-1, d0) e r i) by lia. split; [lia|].
           rewrite getn_cons_pos by lia. replace (getn 0 (a_perm_out pr (j + 1)) (i - 1) - j - 1) with (getn 0 (a_perm_out pr (j + 1)) (i - 1) - (j + 1)) by lia.
           exact Hb.
      * intros i i' Hi Hi' Hn Hn'. rewrite (getn_cons_pos 0 j _ i') by lia. rewrite (getn_cons_pos 0 p _ i') in Hn' by lia.
        destruct (Z.eq_dec i 0) as [->|Hi0].
        -- rewrite getn_cons_0.
           destruct (H3 (i' - 1)) as (Ha & _); [lia|assumption|]. lia.
        -- rewrite (getn_cons_pos 0 p _ i) in Hn by lia. rewrite (getn_cons_pos 0 j _ i) by lia. apply H4; auto; lia.
    + split; [rewrite H1; lia|]. split; [|split].
      * intros i Hi Hn. destruct (Z.eq_dec i 0) as [->|Hi0]; [reflexivity|].
        rewrite getn_cons_pos in Hn by lia. rewrite !(getn_cons_pos 0) by lia. apply H2; [lia|assumption].
      * intros i Hi Hn. destruct (Z.eq_dec i 0) as [->|Hi0]; [cbn in Hn; lia|].
        rewrite getn_cons_pos in Hn by lia. rewrite (getn_cons_pos 0 p _ i) by lia. rewrite (getn_cons_pos (-1, d0) e r i) by lia.
        apply H3; [lia|assumption].
      * intros i i' Hi Hi' Hn Hn'. destruct (Z.eq_dec i 0) as [->|Hi0]; [cbn in Hn; lia|].
        rewrite (getn_cons_pos 0 p _ i') by lia. rewrite (getn_cons_pos 0 p _ i') in Hn' by lia.
        rewrite (getn_cons_pos 0 p _ i) in Hn by lia. rewrite (getn_cons_pos 0 p _ i) by lia. apply H4; auto; lia.
Qed.
End PermReport.

(* ------------------------------------------------------------------ the free list *)
Section FreeList.
Variable D : Type.
Variable d0 : D.
Notation ds := (ds D).

Theorem ds_free_spec (s : ds) : ds_inv s ->
  NoDup (ds_free s) /\ zlen (ds_free s) = thesize s - thenum s /\
  (forall x, In x (ds_free s) -> 0 <= x < thesize s /\ ds_has_key s x = false) /\
  (forall n, 0 <= n < thenum s -> ~ In (ds_key s n) (ds_free s)).
Proof.
  intros [Hmax Hld Hli Hlk Hb Hk (fl & Hc & Hnd & Hlen)].
  assert (Hfree : ds_free s = fl).
  { unfold ds_free. apply free_list_chain with (size := thesize s); auto; [lia|]. unfold zlen in Hlen. lia. }
  rewrite Hfree.
  assert (Hneg : forall y, In y fl -> getn 0 (info s) y < 0) by (eapply chain_info_neg; [|exact Hc]; lia).
  split; [assumption|]. split; [assumption|]. split.
  - intros x Hx. split; [eapply chain_in_range; eauto|]. unfold ds_has_key. specialize (Hneg x Hx). apply Z.leb_gt. lia.
  - intros n Hn Hin. destruct (Hk n Hn) as (_ & Hi). specialize (Hneg _ Hin). unfold ds_key in Hneg. lia.
Qed.

(* reMax keeps everything and gives the requested capacity (never below size()) *)
Theorem ds_remax_preserves (s : ds) m : ds_inv s ->
  ds_inv (ds_remax d0 s m) /\ ds_abs d0 (ds_remax d0 s m) = ds_abs d0 s /\
  themax (ds_remax d0 s m) = Z.max m (thesize s) /\
  (forall k v, In (k, v) (ds_abs d0 s) -> ds_elem_key d0 (ds_remax d0 s m) k = v /\ ds_has_key (ds_remax d0 s m) k = true).
Proof.
  intros Hinv. destruct (ds_remax_spec D d0 s m Hinv) as (H1 & H2 & H3 & H4 & H5).
  split; [assumption|]. split; [assumption|]. split; [assumption|].
  intros k v Hin. rewrite <- H2 in Hin. apply (ds_lookup D d0 _ k v H1) in Hin as (_ & Hh & Hv & _). auto.
Qed.

End FreeList.

