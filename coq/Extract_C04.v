(* Extraction of the basis descriptor / BAS file model (C04, C14). *)
From Coq Require Extraction.
From Coq Require Import ExtrOcamlBasic QArith List String.
From SV Require Import BasisModel BasisFileModel BasisChangeModel.

Extraction "../extract/C04/model.ml" isBasisValid_rep isBasisValid isDescValid loadDesc loadDesc_rowrep initialDesc
  setBasis getBasis mark_fixed zero_only_free
  sp_setBasis sp_hasBasis sp_getBasis sp_rowStatus sp_colStatus sp_getBasisInd
  writeBasis writeBasisOutside readBasis readBasisFile readBasisFile_intended writeBasisFile writeBasisFileOutside
  default_names accum_names free_ok removed_rows removed_cols added_rows added_cols removed_row removed_col.
