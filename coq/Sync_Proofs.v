(* C07 - lemmas about SyncModel: every call of SPxLPBase<R> is parametric in the number type (two LPs that are
   related entry by entry stay related when they receive related calls), adjacency of a double and a rational, the
   maintenance of the type arrays, and from these: SYNCMODE_AUTO preserves "in sync", the explicit sync calls
   establish it, the copy before an exact solve is exact; refutation witnesses for the statements the model violates. *)
From Coq Require Import ZArith QArith Qabs List Bool Arith Lia Lqa.
From SV Require Import SyncModel.
Import ListNotations.
Local Open Scope nat_scope.

(* ====================================================================================================== lists *)
Lemma setn_length {A} k (x : A) l : length (setn k x l) = length l.
Proof. revert k; induction l as [|y t IH]; intros [|k]; simpl; auto. Qed.

Lemma nth_setn_eq {A} k (x : A) l d : k < length l -> nth k (setn k x l) d = x.
Proof. revert k; induction l as [|y t IH]; intros [|k] H; simpl in *; try lia; auto. apply IH; lia. Qed.

Lemma nth_setn_neq {A} k j (x : A) l d : k <> j -> nth j (setn k x l) d = nth j l d.
Proof. revert k j; induction l as [|y t IH]; intros [|k] [|j] H; simpl; auto; try lia. Qed.

Lemma setn_oob {A} k (x : A) l : length l <= k -> setn k x l = l.
Proof. revert k; induction l as [|y t IH]; intros [|k] H; simpl in *; auto; try lia. f_equal; apply IH; lia. Qed.

Lemma firstn_setn {A} n k (x : A) l : k < n -> firstn n (setn k x l) = setn k x (firstn n l).
Proof.
  revert n k; induction l as [|y t IH]; intros [|n] [|k] H; simpl; auto; try lia.
  f_equal. apply IH; lia.
Qed.

Lemma map2_length {A B C} (f : A -> B -> C) l r : length l = length r -> length (map2 f l r) = length l.
Proof. revert r; induction l as [|x t IH]; intros [|y s] H; simpl in *; auto; try lia. Qed.

Lemma map2_app {A B C} (f : A -> B -> C) a a' b b' :
  length a = length b -> map2 f (a ++ a') (b ++ b') = map2 f a b ++ map2 f a' b'.
Proof. revert b; induction a as [|x t IH]; intros [|y s] H; simpl in *; try lia; auto. f_equal; apply IH; lia. Qed.

Lemma map2_setn {A B C} (f : A -> B -> C) i a b l r :
  length l = length r ->
  map2 f (setn i a l) (setn i b r) = setn i (f a b) (map2 f l r).
Proof.
  revert i r; induction l as [|x t IH]; intros [|i] [|y s] H; simpl in *; try lia; auto. f_equal; apply IH; lia.
Qed.

Lemma map2_setn_l {A B C} (f : A -> B -> C) i a l r db :
  length l = length r -> map2 f (setn i a l) r = setn i (f a (nth i r db)) (map2 f l r).
Proof.
  revert i r; induction l as [|x t IH]; intros [|i] [|y s] H; simpl in *; try lia; auto. f_equal; apply IH; lia.
Qed.

Lemma map2_setn_r {A B C} (f : A -> B -> C) i b l r da :
  length l = length r -> map2 f l (setn i b r) = setn i (f (nth i l da) b) (map2 f l r).
Proof.
  revert i r; induction l as [|x t IH]; intros [|i] [|y s] H; simpl in *; try lia; auto. f_equal; apply IH; lia.
Qed.

Lemma nth_map2 {A B C} (f : A -> B -> C) i l r da db dc :
  i < length l -> length l = length r -> nth i (map2 f l r) dc = f (nth i l da) (nth i r db).
Proof.
  revert i r; induction l as [|x t IH]; intros [|i] [|y s] H1 H2; simpl in *; try lia; auto. apply IH; lia.
Qed.

Lemma map2_firstn {A B C} (f : A -> B -> C) n l r : firstn n (map2 f l r) = map2 f (firstn n l) (firstn n r).
Proof. revert l r; induction n as [|n IH]; intros [|x t] [|y s]; simpl; auto. f_equal; apply IH. Qed.

Lemma map2_nil_r {A B C} (f : A -> B -> C) l : map2 f l [] = [].
Proof. destruct l; reflexivity. Qed.

Lemma map2_skipn {A B C} (f : A -> B -> C) n l r : skipn n (map2 f l r) = map2 f (skipn n l) (skipn n r).
Proof.
  revert l r; induction n as [|n IH]; intros l r; [reflexivity|].
  destruct l as [|x t]; [reflexivity|]. destruct r as [|y s]; simpl.
  - now rewrite map2_nil_r.
  - apply IH.
Qed.

Lemma map2_keepm {A B C} (f : A -> B -> C) mask l r :
  length l = length r -> keepm mask (map2 f l r) = map2 f (keepm mask l) (keepm mask r).
Proof.
  revert l r; induction mask as [|b t IH]; intros [|x l] [|y r] H; simpl in *; try lia; auto.
  destruct b; simpl; [f_equal|]; apply IH; lia.
Qed.

Lemma keepm_length_eq {A B} mask (l : list A) (r : list B) :
  length l = length r -> length (keepm mask l) = length (keepm mask r).
Proof.
  revert l r; induction mask as [|b t IH]; intros [|x l] [|y r] H; simpl in *; try lia; auto.
  destruct b; simpl; [f_equal|]; apply IH; lia.
Qed.

Lemma move_last_length_eq {A B} (d : A) (e : B) k l r :
  length l = length r -> length (move_last d k l) = length (move_last e k r).
Proof.
  intros H. unfold move_last. rewrite <- H. destruct (k =? length l - 1).
  - rewrite !firstn_length. lia.
  - rewrite !setn_length, !firstn_length. lia.
Qed.

Lemma map2_move_last {A B C} (f : A -> B -> C) da db k l r :
  length l = length r ->
  map2 f (move_last da k l) (move_last db k r) = move_last (f da db) k (map2 f l r).
Proof.
  intros H. unfold move_last. rewrite map2_length by auto. rewrite <- H.
  destruct (k =? length l - 1) eqn:E.
  - now rewrite map2_firstn.
  - rewrite map2_firstn. apply Nat.eqb_neq in E.
    destruct (Nat.lt_ge_cases (length l - 1) (length l)) as [Hlt|Hge].
    + rewrite (nth_map2 f (length l - 1) l r da db) by auto.
      apply map2_setn. rewrite !firstn_length. lia.
    + assert (length l = 0) by lia. destruct l; simpl in *; try lia. destruct r; simpl in *; try lia.
      destruct k; reflexivity.
Qed.

(* ---------- Forall2 ---------- *)
Lemma Forall2_length' {A B} (R : A -> B -> Prop) l r : Forall2 R l r -> length l = length r.
Proof. induction 1; simpl; auto. Qed.

Lemma Forall2_setn {A B} (R : A -> B -> Prop) k x y l r :
  R x y -> Forall2 R l r -> Forall2 R (setn k x l) (setn k y r).
Proof. intros Hx H. revert k. induction H; intros [|k]; simpl; auto. Qed.

Lemma Forall2_nth {A B} (R : A -> B -> Prop) k l r d e : R d e -> Forall2 R l r -> R (nth k l d) (nth k r e).
Proof. intros Hd H. revert k. induction H; intros [|k]; simpl; auto. Qed.

Lemma Forall2_firstn {A B} (R : A -> B -> Prop) n l r : Forall2 R l r -> Forall2 R (firstn n l) (firstn n r).
Proof. intros H. revert n. induction H; intros [|n]; simpl; auto. Qed.

Lemma Forall2_skipn {A B} (R : A -> B -> Prop) n l r : Forall2 R l r -> Forall2 R (skipn n l) (skipn n r).
Proof. intros H. revert n. induction H; intros [|n]; simpl; auto. Qed.

Lemma Forall2_repeat {A B} (R : A -> B -> Prop) x y n : R x y -> Forall2 R (repeat x n) (repeat y n).
Proof. intros H. induction n; simpl; auto. Qed.

Lemma Forall2_keepm {A B} (R : A -> B -> Prop) mask l r : Forall2 R l r -> Forall2 R (keepm mask l) (keepm mask r).
Proof.
  intros H. revert mask. induction H; intros [|b t]; simpl; auto. destruct b; auto.
Qed.

Lemma Forall2_move_last {A B} (R : A -> B -> Prop) d e k l r :
  R d e -> Forall2 R l r -> Forall2 R (move_last d k l) (move_last e k r).
Proof.
  intros Hd H. unfold move_last. rewrite <- (Forall2_length' _ _ _ H).
  destruct (k =? length l - 1).
  - now apply Forall2_firstn.
  - apply Forall2_setn. { now apply Forall2_nth. } now apply Forall2_firstn.
Qed.

Lemma Forall2_map2 {A A' B B' C C'} (R1 : A -> A' -> Prop) (R2 : B -> B' -> Prop) (R3 : C -> C' -> Prop)
      (f : A -> B -> C) (f' : A' -> B' -> C') a a' b b' :
  (forall x x' y y', R1 x x' -> R2 y y' -> R3 (f x y) (f' x' y')) ->
  Forall2 R1 a a' -> Forall2 R2 b b' -> Forall2 R3 (map2 f a b) (map2 f' a' b').
Proof.
  intros Hf H. revert b b'. induction H; intros b b' Hb; simpl; auto.
  destruct Hb; simpl; auto.
Qed.

Lemma Forall2_map_both {A A' B B'} (R : A -> A' -> Prop) (S : B -> B' -> Prop) (f : A -> B) (f' : A' -> B') l l' :
  (forall x x', R x x' -> S (f x) (f' x')) -> Forall2 R l l' -> Forall2 S (map f l) (map f' l').
Proof. intros Hf H. induction H; simpl; auto. Qed.

Lemma Forall2_map_same {A B B'} (S : B -> B' -> Prop) (f : A -> B) (f' : A -> B') l :
  (forall x, In x l -> S (f x) (f' x)) -> Forall2 S (map f l) (map f' l).
Proof. intros Hf. induction l; simpl; constructor; auto. apply Hf; simpl; auto. apply IHl; intros; apply Hf; simpl; auto. Qed.

Lemma Forall2_map_l {A B} (R : A -> B -> Prop) (f : B -> A) l : (forall x, In x l -> R (f x) x) -> Forall2 R (map f l) l.
Proof. intros Hf. induction l; simpl; constructor; auto. apply Hf; simpl; auto. apply IHl; intros; apply Hf; simpl; auto. Qed.

Lemma Forall2_map_r {A B} (R : A -> B -> Prop) (f : A -> B) l : (forall x, In x l -> R x (f x)) -> Forall2 R l (map f l).
Proof. intros Hf. induction l; simpl; constructor; auto. apply Hf; simpl; auto. apply IHl; intros; apply Hf; simpl; auto. Qed.

Lemma Forall2_refl_in {A} (R : A -> A -> Prop) l : (forall x, In x l -> R x x) -> Forall2 R l l.
Proof. intros Hf. induction l; constructor; auto. apply Hf; simpl; auto. apply IHl; intros; apply Hf; simpl; auto. Qed.

(* ====================================================================================== relating two LPs *)
Section Rel.
  Context {A B : Type}.
  Variable R : A -> B -> Prop.

  Variables (tz : A) (tz' : B).
  (* two sparse vectors denote related dense vectors *)
  Definition sv_rel (v : svec A) (v' : svec B) : Prop := forall j, R (sget tz j v) (sget tz' j v').

  Record lp_rel (l : lp A) (l' : lp B) : Prop := mkRel {
    r_lhs : Forall2 R (lhs l) (lhs l'); r_rhs : Forall2 R (rhs l) (rhs l');
    r_mobj : Forall2 R (mobj l) (mobj l'); r_lo : Forall2 R (lo l) (lo l'); r_up : Forall2 R (up l) (up l');
    r_mat : Forall2 (Forall2 R) (mat l) (mat l');
    r_lmax : lmax l = lmax l'; r_off : R (off l) (off l')
  }.

  Variables (nz : A -> bool) (nz' : B -> bool).

  Definition rs_rel (r : rowspec A) (r' : rowspec B) : Prop :=
    let '(a, b, v) := r in let '(a', b', v') := r' in R a a' /\ R b b' /\ sv_rel v v'.
  Definition cs_rel (c : colspec A) (c' : colspec B) : Prop :=
    let '(o, a, b, v) := c in let '(o', a', b', v') := c' in R o o' /\ R a a' /\ R b b' /\ sv_rel v v'.

  (* related calls; an add must in addition ask for the same number of implicitly created columns / rows *)
  Inductive prim_rel : prim A -> prim B -> Prop :=
  | RAddRowR r r' : rs_rel r r' -> vdim nz (snd r) = vdim nz' (snd r') -> prim_rel (PAddRow r) (PAddRow r')
  | RAddColR c c' : cs_rel c c' -> vdim nz (snd c) = vdim nz' (snd c') -> prim_rel (PAddCol c) (PAddCol c')
  | RChgRowR i r r' : rs_rel r r' -> prim_rel (PChgRow i r) (PChgRow i r')
  | RChgColR j c c' : cs_rel c c' -> prim_rel (PChgCol j c) (PChgCol j c')
  | RLhsR i x y : R x y -> prim_rel (PLhs i x) (PLhs i y)
  | RRhsR i x y : R x y -> prim_rel (PRhs i x) (PRhs i y)
  | RLoR i x y : R x y -> prim_rel (PLo i x) (PLo i y)
  | RUpR i x y : R x y -> prim_rel (PUp i x) (PUp i y)
  | RObjR i x y : R x y -> prim_rel (PObj i x) (PObj i y)
  | RLhsVR xs ys : Forall2 R xs ys -> prim_rel (PLhsV xs) (PLhsV ys)
  | RRhsVR xs ys : Forall2 R xs ys -> prim_rel (PRhsV xs) (PRhsV ys)
  | RLoVR xs ys : Forall2 R xs ys -> prim_rel (PLoV xs) (PLoV ys)
  | RUpVR xs ys : Forall2 R xs ys -> prim_rel (PUpV xs) (PUpV ys)
  | RObjVR xs ys : Forall2 R xs ys -> prim_rel (PObjV xs) (PObjV ys)
  | RElemR i j x y : R x y -> prim_rel (PElem i j x) (PElem i j y)
  | RRemRowR i : prim_rel (PRemRow i) (PRemRow i)
  | RRemColR j : prim_rel (PRemCol j) (PRemCol j)
  | RRemRowsR m : prim_rel (PRemRows m) (PRemRows m)
  | RRemColsR m : prim_rel (PRemCols m) (PRemCols m)
  | RClearR : prim_rel PClear PClear
  | RSenseR mx : prim_rel (PSense mx) (PSense mx)
  | ROffR x y : R x y -> prim_rel (POff x) (POff y).

  Variables (tneg : A -> A) (tneg' : B -> B) (tinf : A) (tinf' : B).
  Hypothesis Hz : R tz tz'.
  Hypothesis Hneg : forall x y, R x y -> R (tneg x) (tneg' y).
  Hypothesis Hinf : R tinf tinf'.

  Lemma dense_rel n v v' : sv_rel v v' -> Forall2 R (dense tz n v) (dense tz' n v').
  Proof. intros H. unfold dense. apply Forall2_map_same. intros; apply H. Qed.

  Lemma sgn_rel mx x y : R x y -> R (sgn tneg mx x) (sgn tneg' mx y).
  Proof. destruct mx; simpl; auto. Qed.

  Lemma nrows_rel l l' : lp_rel l l' -> nrows l = nrows l'.
  Proof. intros H. unfold nrows. apply (Forall2_length' _ _ _ (r_lhs _ _ H)). Qed.
  Lemma ncols_rel l l' : lp_rel l l' -> ncols l = ncols l'.
  Proof. intros H. unfold ncols. apply (Forall2_length' _ _ _ (r_lo _ _ H)). Qed.

  Lemma empty_rel : lp_rel (empty_lp tz) (empty_lp tz').
  Proof. constructor; simpl; auto. Qed.

  Theorem papply_rel p p' l l' :
    prim_rel p p' -> lp_rel l l' ->
    lp_rel (papply tz tneg nz tinf p l) (papply tz' tneg' nz' tinf' p' l').
  Proof.
    intros Hp H. pose proof (nrows_rel _ _ H) as Hm. pose proof (ncols_rel _ _ H) as Hn.
    destruct H as [Hlhs Hrhs Hobj Hlo Hup Hmat Hmax Hoff].
    destruct Hp as [r r' Hr Hd|c c' Hc Hd|i r r' Hr|j c c' Hc|i x y Hx|i x y Hx|i x y Hx|i x y Hx|i x y Hx
                    |xs ys Hxs|xs ys Hxs|xs ys Hxs|xs ys Hxs|xs ys Hxs|i j x y Hx|i|j|m|m| |mx|x y Hx]; simpl.
    - destruct r as [[a b] v], r' as [[a' b'] v']. simpl in Hr, Hd. destruct Hr as (Ha & Hb & Hv).
      simpl. rewrite Hd, Hn. constructor; simpl; auto.
      + apply Forall2_app; auto.
      + apply Forall2_app; auto.
      + apply Forall2_app; auto. now apply Forall2_repeat.
      + apply Forall2_app; auto. now apply Forall2_repeat.
      + apply Forall2_app; auto. now apply Forall2_repeat.
      + apply Forall2_app.
        * eapply Forall2_map_both; [|exact Hmat]. intros x x' Hx. apply Forall2_app; auto. now apply Forall2_repeat.
        * constructor; auto. now apply dense_rel.
    - destruct c as [[[o a] b] v], c' as [[[o' a'] b'] v']. simpl in Hc, Hd. destruct Hc as (Ho & Ha & Hb & Hv).
      simpl. rewrite Hd, Hm, Hn, Hmax. constructor; simpl; auto.
      + apply Forall2_app; auto. now apply Forall2_repeat.
      + apply Forall2_app; auto. now apply Forall2_repeat.
      + apply Forall2_app; auto. constructor; auto. now apply sgn_rel.
      + apply Forall2_app; auto.
      + apply Forall2_app; auto.
      + apply (Forall2_map2 (Forall2 R) R (Forall2 R)).
        * intros x x' y y' Hx Hy. apply Forall2_app; auto.
        * apply Forall2_app; auto. apply Forall2_repeat. now apply Forall2_repeat.
        * now apply dense_rel.
    - destruct r as [[a b] v], r' as [[a' b'] v']. simpl in Hr. destruct Hr as (Ha & Hb & Hv).
      simpl. rewrite Hn. constructor; simpl; auto using Forall2_setn.
      apply Forall2_setn; auto. now apply dense_rel.
    - destruct c as [[[o a] b] v], c' as [[[o' a'] b'] v']. simpl in Hc. destruct Hc as (Ho & Ha & Hb & Hv).
      simpl. rewrite Hm, Hmax. constructor; simpl; auto using Forall2_setn.
      + apply Forall2_setn; auto. now apply sgn_rel.
      + apply (Forall2_map2 (Forall2 R) R (Forall2 R)); auto.
        * intros x x' y y' Hx Hy. now apply Forall2_setn.
        * now apply dense_rel.
    - constructor; simpl; auto using Forall2_setn.
    - constructor; simpl; auto using Forall2_setn.
    - constructor; simpl; auto using Forall2_setn.
    - constructor; simpl; auto using Forall2_setn.
    - rewrite Hmax. constructor; simpl; auto. apply Forall2_setn; auto. now apply sgn_rel.
    - constructor; simpl; auto.
    - constructor; simpl; auto.
    - constructor; simpl; auto.
    - constructor; simpl; auto.
    - rewrite Hmax. constructor; simpl; auto. eapply Forall2_map_both; [|exact Hxs]. intros; now apply sgn_rel.
    - constructor; simpl; auto. apply Forall2_setn; auto. apply Forall2_setn; auto. apply Forall2_nth; auto.
    - constructor; simpl; auto using Forall2_move_last.
    - constructor; simpl; auto using Forall2_move_last.
      eapply Forall2_map_both; [|exact Hmat]. intros; now apply Forall2_move_last.
    - constructor; simpl; auto using Forall2_keepm.
    - constructor; simpl; auto using Forall2_keepm.
      eapply Forall2_map_both; [|exact Hmat]. intros; now apply Forall2_keepm.
    - apply empty_rel.
    - rewrite Hmax. constructor; simpl; auto. destruct (Bool.eqb mx (lmax l')); auto.
      eapply Forall2_map_both; [|exact Hobj]. auto.
    - constructor; simpl; auto.
  Qed.

  Lemma applys_rel ps ps' l l' :
    Forall2 prim_rel ps ps' -> lp_rel l l' ->
    lp_rel (applys (papply tz tneg nz tinf) ps l) (applys (papply tz' tneg' nz' tinf') ps' l').
  Proof.
    intros H. revert l l'. unfold applys. induction H as [|p p' ps ps' Hp _ IH]; intros l l' Hl; simpl; auto.
    apply IH. now apply papply_rel.
  Qed.
End Rel.

(* ================================================================================ doubles and adjacency *)
Definition is_double (d : dy) : Prop := is_doubleb d = true.

(* d is q, or the largest double below q, or the smallest double above q: no double lies beyond d in the direction
   of q up to and including q *)
Definition adj (d : dy) (q : Q) : Prop :=
  is_double d /\
  forall d', is_double d' ->
    ~ (d2q d < d2q d' /\ d2q d' <= q)%Q /\ ~ (q <= d2q d' /\ d2q d' < d2q d)%Q.

Lemma adj_exact d : is_double d -> adj d (d2q d).
Proof. intros H. split; auto. intros d' _. split; intros [H1 H2]; lra. Qed.

Lemma adj_Qeq d q q' : (q == q')%Q -> adj d q -> adj d q'.
Proof.
  intros E [H1 H2]. split; auto. intros d' Hd'. destruct (H2 d' Hd') as [A B].
  split; intros [X Y]; [apply A|apply B]; split; lra.
Qed.

Lemma d2q_dneg d : (d2q (dneg d) == - d2q d)%Q.
Proof.
  destruct d as [m e]. unfold dneg, d2q. cbn [fst snd]. destruct (0 <=? e)%Z.
  - unfold Qeq, inject_Z. simpl. lia.
  - reflexivity.
Qed.

Lemma is_double_dneg d : is_double d -> is_double (dneg d).
Proof. destruct d as [m e]. unfold is_double, is_doubleb, dneg. cbn [fst snd]. now rewrite Z.abs_opp. Qed.

Lemma dneg_invol d : dneg (dneg d) = d.
Proof. destruct d as [m e]. unfold dneg. cbn [fst snd]. now rewrite Z.opp_involutive. Qed.

Lemma adj_neg d q : adj d q -> adj (dneg d) (- q)%Q.
Proof.
  intros [H1 H2]. split. { now apply is_double_dneg. }
  intros d' Hd'. destruct (H2 (dneg d') (is_double_dneg _ Hd')) as [A B].
  pose proof (d2q_dneg d) as E1. pose proof (d2q_dneg d') as E2.
  split; intros [X Y]; [apply B|apply A]; split; lra.
Qed.

Lemma is_double_zero : is_double dzero.
Proof. reflexivity. Qed.
Lemma is_double_inf : is_double dinf.
Proof. reflexivity. Qed.
Lemma adj_zero : adj dzero qzero.
Proof. apply (adj_exact dzero). reflexivity. Qed.
Lemma adj_inf : adj dinf (d2q dinf).
Proof. apply adj_exact. reflexivity. Qed.

Lemma dnz_d2q d : dnz d = qnz (d2q d).
Proof.
  destruct d as [m e]. unfold dnz, qnz, d2q. cbn [fst]. destruct (0 <=? e)%Z eqn:E.
  - simpl. apply Z.leb_le in E. f_equal.
    assert (0 < 2 ^ e)%Z as P by (apply Z.pow_pos_nonneg; lia).
    destruct (Z.eqb_spec m 0) as [->|N]; [reflexivity|].
    symmetry. apply Z.eqb_neq. intros C. apply Z.mul_eq_0 in C. lia.
  - reflexivity.
Qed.

Lemma sgn_adj mx d q : adj d q -> adj (sgn dneg mx d) (sgn Qopp mx q).
Proof. destruct mx; simpl; auto. apply adj_neg. Qed.

(* a witness that a double is not adjacent *)
Lemma not_adj_between d q d' : is_double d' -> (d2q d < d2q d' /\ d2q d' <= q)%Q -> ~ adj d q.
Proof. intros Hd' H [_ A]. destruct (A d' Hd') as [X _]. now apply X. Qed.

(* ============================================================================== the type arrays *)
Definition WF2 {T} (q : lp T) : Prop := length (lhs q) = length (rhs q) /\ length (lo q) = length (up q).

Lemma complete_prefix full tys rest : full = tys ++ rest -> complete full tys = full.
Proof. intros ->. unfold complete. now rewrite skipn_app, skipn_all, Nat.sub_diag. Qed.

Lemma complete_same x : complete x x = x.
Proof. apply (complete_prefix x x []). now rewrite app_nil_r. Qed.

Lemma overwrite_same_length full tys : length tys = length full -> overwrite full tys = full.
Proof. intros H. unfold overwrite. rewrite <- H, skipn_all. apply app_nil_r. Qed.

Lemma map2_repeat {A B C} (f : A -> B -> C) x y n : map2 f (repeat x n) (repeat y n) = repeat (f x y) n.
Proof. induction n; simpl; auto. now rewrite IHn. Qed.

Lemma setn_self_nth {A} i (l : list A) v d : nth i (setn i v l) d = v \/ length l <= i.
Proof. destruct (Nat.lt_ge_cases i (length l)); [left; now apply nth_setn_eq|right; auto]. Qed.

Lemma setn_nth_setn {A} i (l : list A) v d : setn i (nth i (setn i v l) d) l = setn i v l.
Proof.
  destruct (Nat.lt_ge_cases i (length l)) as [H|H].
  - now rewrite nth_setn_eq.
  - now rewrite !setn_oob by (rewrite ?setn_length; auto).
Qed.

Lemma ty_remove_move_last i (l : list rtype) : i < length l -> ty_remove i (length l - 1) l = move_last TFree i l.
Proof.
  intros H. unfold ty_remove, move_last.
  destruct (Nat.eqb_spec i (length l - 1)) as [E|N].
  - rewrite E. now rewrite Nat.ltb_irrefl.
  - assert (i < length l - 1) as L by lia. apply Nat.ltb_lt in L as L'. rewrite L'.
    now apply firstn_setn.
Qed.

Lemma move_last_length {A} (d : A) i l : i < length l -> length (move_last d i l) = length l - 1.
Proof.
  intros H. unfold move_last. destruct (i =? length l - 1).
  - rewrite firstn_length. lia.
  - rewrite setn_length, firstn_length. lia.
Qed.

Section Types.
  Variable inf : Q.
  Notation cr := (class_rows inf).
  Notation cc := (class_cols inf).
  Notation qap := (papply qzero Qopp).

  Lemma cr_len (q : qlp) : WF2 q -> length (cr q) = nrows q.
  Proof. intros [H _]. unfold class_rows, nrows. now apply map2_length. Qed.
  Lemma cc_len (q : qlp) : WF2 q -> length (cc q) = ncols q.
  Proof. intros [_ H]. unfold class_cols, ncols. now apply map2_length. Qed.

  (* effect of one call on the classification from scratch, and on well-formedness *)
  Lemma WF2_papply nz ti p (q : qlp) : WF2 q -> prim_ok (nrows q) (ncols q) p = true -> WF2 (qap nz ti p q).
  Proof.
    intros [H1 H2] Hok. unfold WF2, nrows, ncols in *.
    destruct p as [[[a b] v]|[[[o a] b] v]|i [[a b] v]|j [[[o a] b] v]|i x|i x|j x|j x|j x|xs|xs|xs|xs|xs|i j x|i|j|m|m| |mx|x];
      simpl in *; rewrite ?app_length, ?repeat_length, ?setn_length; simpl; auto; try lia.
    - apply Nat.eqb_eq in Hok. split; lia.
    - apply Nat.eqb_eq in Hok. split; lia.
    - apply Nat.eqb_eq in Hok. split; lia.
    - apply Nat.eqb_eq in Hok. split; lia.
    - split; auto. now apply move_last_length_eq.
    - split; auto. now apply move_last_length_eq.
    - split; auto. now apply keepm_length_eq.
    - split; auto. now apply keepm_length_eq.
  Qed.

  Lemma cr_addrow nz ti a b v (q : qlp) : WF2 q ->
    cr (qap nz ti (PAddRow (a, b, v)) q) = cr q ++ [classQ inf a b] /\
    exists rest, cc (qap nz ti (PAddRow (a, b, v)) q) = cc q ++ rest.
  Proof.
    intros [H1 H2]. unfold class_rows, class_cols. simpl. split.
    - now rewrite map2_app.
    - eexists. now rewrite map2_app.
  Qed.

  Lemma cr_addcol nz ti o a b v (q : qlp) : WF2 q ->
    cc (qap nz ti (PAddCol (o, a, b, v)) q) = cc q ++ [classQ inf a b] /\
    exists rest, cr (qap nz ti (PAddCol (o, a, b, v)) q) = cr q ++ rest.
  Proof.
    intros [H1 H2]. unfold class_rows, class_cols. simpl. split.
    - now rewrite map2_app.
    - eexists. now rewrite map2_app.
  Qed.

  Definition is_add (p : prim Q) : bool := match p with PAddRow _ | PAddCol _ => true | _ => false end.

  Lemma adds_prefix nz ti ps : forallb is_add ps = true -> forall q : qlp, WF2 q ->
    prims_ok (qap nz ti) ps q = true ->
    WF2 (applys (qap nz ti) ps q) /\
    (exists r1, cr (applys (qap nz ti) ps q) = cr q ++ r1) /\ (exists r2, cc (applys (qap nz ti) ps q) = cc q ++ r2).
  Proof.
    induction ps as [|p ps IH]; intros Ha q Hq Hok.
    - simpl. split; auto. split; exists []; now rewrite app_nil_r.
    - simpl in Ha, Hok. apply andb_prop in Ha as [Hp Ha]. apply andb_prop in Hok as [Hok1 Hok2].
      assert (WF2 (qap nz ti p q)) as Hq' by (now apply WF2_papply).
      destruct (IH Ha _ Hq' Hok2) as (W & [r1 E1] & [r2 E2]).
      unfold applys in *. simpl. split; auto.
      destruct p as [[[a b] v]|[[[o a] b] v]| | | | | | | | | | | | | | | | | | | | ]; try discriminate Hp.
      + destruct (cr_addrow nz ti a b v q Hq) as [F1 [rest F2]]. rewrite E1, E2, F1, F2.
        split; eexists; rewrite <- app_assoc; reflexivity.
      + destruct (cr_addcol nz ti o a b v q Hq) as [F1 [rest F2]]. rewrite E1, E2, F1, F2.
        split; eexists; rewrite <- app_assoc; reflexivity.
  Qed.
End Types.

Section Types2.
  Variable inf : Q.
  Notation cr := (class_rows inf).
  Notation cc := (class_cols inf).
  Notation qap := (papply qzero Qopp).

  Lemma WF2_applys nz ti ps : forall q : qlp, WF2 q -> prims_ok (qap nz ti) ps q = true -> WF2 (applys (qap nz ti) ps q).
  Proof.
    induction ps as [|p ps IH]; intros q Hq Hok; simpl; auto.
    simpl in Hok. apply andb_prop in Hok as [H1 H2]. unfold applys in *. simpl. apply IH; auto. now apply WF2_papply.
  Qed.

  (* the shapes of ty_apply that occur, in terms of the classification before (r, c) and after (r', c') the call *)
  Lemma ty_none q' r c : cr q' = r -> cc q' = c -> ty_apply inf q' TNone (r, c) = (cr q', cc q').
  Proof. intros <- <-. reflexivity. Qed.

  Lemma ty_complete q' r c r1 r2 : cr q' = r ++ r1 -> cc q' = c ++ r2 -> ty_apply inf q' TComplete (r, c) = (cr q', cc q').
  Proof. intros E1 E2. simpl. f_equal; eapply complete_prefix; eauto. Qed.

  Lemma ty_rowset q' r c i t : cr q' = setn i t r -> cc q' = c -> ty_apply inf q' (TRowSet i t) (r, c) = (cr q', cc q').
  Proof. intros E1 E2. simpl. rewrite E1, E2. now rewrite !complete_same. Qed.
  Lemma ty_colset q' r c j t : cr q' = r -> cc q' = setn j t c -> ty_apply inf q' (TColSet j t) (r, c) = (cr q', cc q').
  Proof. intros E1 E2. simpl. rewrite E1, E2. now rewrite !complete_same. Qed.

  Lemma ty_rowat q' r c i v : cr q' = setn i v r -> cc q' = c -> ty_apply inf q' (TRowAt i) (r, c) = (cr q', cc q').
  Proof. intros E1 E2. simpl. rewrite E1, E2. now rewrite setn_nth_setn. Qed.
  Lemma ty_colat q' r c j v : cr q' = r -> cc q' = setn j v c -> ty_apply inf q' (TColAt j) (r, c) = (cr q', cc q').
  Proof. intros E1 E2. simpl. rewrite E1, E2. now rewrite setn_nth_setn. Qed.

  Lemma ty_rowsall q' r c : length r = length (cr q') -> cc q' = c -> ty_apply inf q' TRowsAll (r, c) = (cr q', cc q').
  Proof. intros E1 E2. simpl. rewrite E2. now rewrite overwrite_same_length. Qed.
  Lemma ty_colsall q' r c : cr q' = r -> length c = length (cc q') -> ty_apply inf q' TColsAll (r, c) = (cr q', cc q').
  Proof. intros E1 E2. simpl. rewrite E1. now rewrite overwrite_same_length. Qed.

  Lemma ty_rowatc q' r c i v : cr q' = setn i v r -> cc q' = c -> ty_apply inf q' (TRowAtC i) (r, c) = (cr q', cc q').
  Proof. intros E1 E2. simpl. rewrite E1, E2. rewrite setn_nth_setn. now rewrite !complete_same. Qed.
  Lemma ty_colatc q' r c j v : cr q' = r -> cc q' = setn j v c -> ty_apply inf q' (TColAtC j) (r, c) = (cr q', cc q').
  Proof. intros E1 E2. simpl. rewrite E1, E2. rewrite setn_nth_setn. now rewrite !complete_same. Qed.

  Lemma ty_rowsprefix q' r c k : skipn k (cr q') = skipn k r -> k <= length (cr q') -> cc q' = c ->
    ty_apply inf q' (TRowsPrefix k) (r, c) = (cr q', cc q').
  Proof.
    intros E1 Hk E2. simpl. rewrite E2. f_equal. unfold overwrite. rewrite firstn_length, Nat.min_l by auto.
    rewrite <- E1. apply firstn_skipn.
  Qed.

  Lemma ty_remrow q' r c i : i < length r -> nrows q' = length r - 1 -> cr q' = move_last TFree i r -> cc q' = c ->
    ty_apply inf q' (TRemRow i) (r, c) = (cr q', cc q').
  Proof. intros Hi Hm E1 E2. simpl. rewrite E1, E2, Hm. now rewrite ty_remove_move_last. Qed.
  Lemma ty_remcol q' r c j : j < length c -> ncols q' = length c - 1 -> cr q' = r -> cc q' = move_last TFree j c ->
    ty_apply inf q' (TRemCol j) (r, c) = (cr q', cc q').
  Proof. intros Hi Hm E1 E2. simpl. rewrite E1, E2, Hm. now rewrite ty_remove_move_last. Qed.

  Lemma ty_remrows q' r c mask : cr q' = keepm mask r -> cc q' = c -> ty_apply inf q' (TRemRows mask) (r, c) = (cr q', cc q').
  Proof. intros E1 E2. simpl. now rewrite E1, E2. Qed.
  Lemma ty_remcols q' r c mask : cr q' = r -> cc q' = keepm mask c -> ty_apply inf q' (TRemCols mask) (r, c) = (cr q', cc q').
  Proof. intros E1 E2. simpl. now rewrite E1, E2. Qed.

  (* classification after each call that touches sides or bounds *)
  Lemma cr_lhs nz ti i x (q : qlp) : WF2 q -> cr (qap nz ti (PLhs i x) q) = setn i (classQ inf x (nth i (rhs q) qzero)) (cr q).
  Proof. intros [H _]. unfold class_rows. simpl. now apply map2_setn_l. Qed.
  Lemma cr_rhs nz ti i x (q : qlp) : WF2 q -> cr (qap nz ti (PRhs i x) q) = setn i (classQ inf (nth i (lhs q) qzero) x) (cr q).
  Proof. intros [H _]. unfold class_rows. simpl. now apply map2_setn_r. Qed.
  Lemma cc_lo nz ti j x (q : qlp) : WF2 q -> cc (qap nz ti (PLo j x) q) = setn j (classQ inf x (nth j (up q) qzero)) (cc q).
  Proof. intros [_ H]. unfold class_cols. simpl. now apply map2_setn_l. Qed.
  Lemma cc_up nz ti j x (q : qlp) : WF2 q -> cc (qap nz ti (PUp j x) q) = setn j (classQ inf (nth j (lo q) qzero) x) (cc q).
  Proof. intros [_ H]. unfold class_cols. simpl. now apply map2_setn_r. Qed.

  Lemma setn_setn {A} i (x y : A) l : setn i y (setn i x l) = setn i y l.
  Proof. revert i; induction l; intros [|i]; simpl; auto. now rewrite IHl. Qed.

  Lemma cr_range nz ti i a b (q : qlp) : WF2 q ->
    cr (qap nz ti (PRhs i b) (qap nz ti (PLhs i a) q)) = setn i (classQ inf a b) (cr q) /\
    cc (qap nz ti (PRhs i b) (qap nz ti (PLhs i a) q)) = cc q.
  Proof.
    intros [H H']. unfold class_rows, class_cols. simpl. split; auto.
    now apply map2_setn.
  Qed.
  Lemma cc_bnd nz ti j a b (q : qlp) : WF2 q ->
    cc (qap nz ti (PUp j b) (qap nz ti (PLo j a) q)) = setn j (classQ inf a b) (cc q) /\
    cr (qap nz ti (PUp j b) (qap nz ti (PLo j a) q)) = cr q.
  Proof.
    intros [H H']. unfold class_rows, class_cols. simpl. split; auto.
    now apply map2_setn.
  Qed.
End Types2.

Lemma move_last_default {A} (d d' : A) k l : l <> [] -> move_last d k l = move_last d' k l.
Proof.
  intros H. unfold move_last. destruct (k =? length l - 1); auto.
  f_equal. apply nth_indep. destruct l; [congruence|simpl; lia].
Qed.

Lemma forallb_is_add_rows (rs : list (rowspec Q)) : forallb is_add (map PAddRow rs) = true.
Proof. induction rs; simpl; auto. Qed.
Lemma forallb_is_add_cols (cs : list (colspec Q)) : forallb is_add (map PAddCol cs) = true.
Proof. induction cs; simpl; auto. Qed.

Section Types3.
  Variable rnd : rkind -> Q -> dy.
  Variable inf : Q.
  Notation cr := (class_rows inf).
  Notation cc := (class_cols inf).
  Notation qap := (papply qzero Qopp).

  Lemma cr_remrow nz ti i (q : qlp) : WF2 q -> i < nrows q ->
    cr (qap nz ti (PRemRow i) q) = move_last TFree i (cr q) /\ cc (qap nz ti (PRemRow i) q) = cc q /\
    nrows (qap nz ti (PRemRow i) q) = length (cr q) - 1.
  Proof.
    intros [H H'] Hi. unfold class_rows, class_cols, nrows in *. simpl. split; [|split]; auto.
    - rewrite map2_move_last by auto. apply move_last_default.
      destruct (lhs q); simpl in *; [lia|]. destruct (rhs q); simpl in *; [lia|discriminate].
    - rewrite move_last_length by auto. now rewrite map2_length.
  Qed.
  Lemma cc_remcol nz ti j (q : qlp) : WF2 q -> j < ncols q ->
    cc (qap nz ti (PRemCol j) q) = move_last TFree j (cc q) /\ cr (qap nz ti (PRemCol j) q) = cr q /\
    ncols (qap nz ti (PRemCol j) q) = length (cc q) - 1.
  Proof.
    intros [H H'] Hi. unfold class_rows, class_cols, ncols in *. simpl. split; [|split]; auto.
    - rewrite map2_move_last by auto. apply move_last_default.
      destruct (lo q); simpl in *; [lia|]. destruct (up q); simpl in *; [lia|discriminate].
    - rewrite move_last_length by auto. now rewrite map2_length.
  Qed.

  Ltac wf := match goal with H : WF2 _ |- _ => destruct H as [?W1 ?W2] end.
  Ltac okb H := repeat (apply andb_prop in H; let H1 := fresh H in destruct H as [H1 H]);
                repeat match goal with X : (_ =? _) = true |- _ => apply Nat.eqb_eq in X
                                  | X : (_ <? _) = true |- _ => apply Nat.ltb_lt in X
                                  | X : (_ <=? _) = true |- _ => apply Nat.leb_le in X end.

  (* the rational interface (any mode that has a rational LP) *)
  Lemma Q_types e pm (qo : qop) (q : qlp) :
    WF2 q ->
    prims_ok (qap_of qo) (qprims e pm (nrows q) (ncols q) q qo) q = true ->
    let q' := applys (qap_of qo) (qprims e pm (nrows q) (ncols q) q qo) q in
    ty_apply inf q' (qtyupd inf (nrows q) (ncols q) qo) (cr q, cc q) = (cr q', cc q') /\ WF2 q'.
  Proof.
    intros Hq Hok q'.
    assert (WF2 q') as Hq'.
    { unfold q'. destruct qo; repeat match goal with g : bool |- _ => destruct g end;
        cbn [qap_of] in *; apply WF2_applys; auto. }
    split; auto. unfold q'. clear q' Hq'.
    destruct qo as [g r|g rs|g c|g cs|i [[a b] v]|j [[[o a] b] v]|i x|xs|i x|xs|xs|i a b|a b|j x|xs|j x|xs|j a b|a b|j x|xs|g i j x
                    |i|j|perm|perm|idx|idx|a b|a b| ]; cbn [qprims qtyupd qap_of].
    - (* QAddRow *)
      destruct g; destruct (adds_prefix inf _ _ [PAddRow r] eq_refl q Hq Hok) as (_ & [r1 E1] & [r2 E2]);
        eapply ty_complete; eauto.
    - destruct (adds_prefix inf _ _ (map PAddRow rs) (forallb_is_add_rows rs) q Hq Hok) as (_ & [r1 E1] & [r2 E2]).
      eapply ty_complete; eauto.
    - destruct g; destruct (adds_prefix inf _ _ [PAddCol c] eq_refl q Hq Hok) as (_ & [r1 E1] & [r2 E2]);
        eapply ty_complete; eauto.
    - destruct (adds_prefix inf _ _ (map PAddCol cs) (forallb_is_add_cols cs) q Hq Hok) as (_ & [r1 E1] & [r2 E2]).
      eapply ty_complete; eauto.
    - (* QChgRow *) wf. apply ty_rowset; [|reflexivity]. unfold class_rows, applys. simpl. now apply map2_setn.
    - wf. apply ty_colset; [reflexivity|]. unfold class_cols, applys. simpl. now apply map2_setn.
    - (* QLhs *) eapply ty_rowat; [apply cr_lhs; auto|reflexivity].
    - (* QLhsV *) wf. simpl in Hok. okb Hok. apply ty_rowsall; [|reflexivity].
      unfold class_rows, applys, nrows in *. simpl. rewrite !map2_length; auto; lia.
    - eapply ty_rowat; [apply cr_rhs; auto|reflexivity].
    - wf. simpl in Hok. okb Hok. apply ty_rowsall; [|reflexivity].
      unfold class_rows, applys, nrows in *. simpl. rewrite !map2_length; auto; lia.
    - (* GRhsV *) wf. simpl in Hok. okb Hok. unfold nrows in *.
      rewrite app_length, skipn_length in Hok0.
      apply ty_rowsprefix; [| |reflexivity]; unfold class_rows, applys; simpl.
      + rewrite !map2_skipn. f_equal. rewrite skipn_app, skipn_all, Nat.sub_diag. reflexivity.
      + rewrite map2_length; [lia|]. rewrite app_length, skipn_length. lia.
    - (* QRange *) destruct (cr_range inf qnz (d2q dinf) i a b q Hq) as [E1 E2]. eapply ty_rowat; eauto.
    - (* QRangeV *) wf. simpl in Hok. okb Hok. apply ty_rowsall; [|reflexivity].
      unfold class_rows, applys, nrows in *. simpl in *. rewrite !map2_length; auto; lia.
    - eapply ty_colat; [reflexivity|apply cc_lo; auto].
    - wf. simpl in Hok. okb Hok. apply ty_colsall; [reflexivity|].
      unfold class_cols, applys, ncols in *. simpl. rewrite !map2_length; auto; lia.
    - eapply ty_colat; [reflexivity|apply cc_up; auto].
    - wf. simpl in Hok. okb Hok. apply ty_colsall; [reflexivity|].
      unfold class_cols, applys, ncols in *. simpl. rewrite !map2_length; auto; lia.
    - destruct (cc_bnd inf qnz (d2q dinf) j a b q Hq) as [E1 E2]. eapply ty_colat; eauto.
    - wf. simpl in Hok. okb Hok. apply ty_colsall; [reflexivity|].
      unfold class_cols, applys, ncols in *. simpl in *. rewrite !map2_length; auto; lia.
    - apply ty_none; reflexivity.
    - apply ty_none; reflexivity.
    - apply ty_none; reflexivity.
    - (* QRemRow *) simpl in Hok. okb Hok.
      destruct (cr_remrow qnz (d2q dinf) i q Hq Hok0) as (E1 & E2 & E3).
      apply ty_remrow; auto. rewrite cr_len; auto.
    - simpl in Hok. okb Hok.
      destruct (cc_remcol qnz (d2q dinf) j q Hq Hok0) as (E1 & E2 & E3).
      apply ty_remcol; auto. rewrite cc_len; auto.
    - wf. apply ty_remrows; [|reflexivity]. unfold class_rows, applys. simpl. symmetry. now apply map2_keepm.
    - wf. apply ty_remcols; [reflexivity|]. unfold class_cols, applys. simpl. symmetry. now apply map2_keepm.
    - wf. apply ty_remrows; [|reflexivity]. unfold class_rows, applys. simpl. symmetry. now apply map2_keepm.
    - wf. apply ty_remcols; [reflexivity|]. unfold class_cols, applys. simpl. symmetry. now apply map2_keepm.
    - wf. apply ty_remrows; [|reflexivity]. unfold class_rows, applys. simpl. symmetry. now apply map2_keepm.
    - wf. apply ty_remcols; [reflexivity|]. unfold class_cols, applys. simpl. symmetry. now apply map2_keepm.
    - reflexivity.
  Qed.
End Types3.

Lemma forallb_is_add_rows_d (rs : list (rowspec dy)) : forallb is_add (map (prim_map d2q) (map PAddRow rs)) = true.
Proof. induction rs as [|[[a b] v] rs IH]; simpl; auto. Qed.
Lemma forallb_is_add_cols_d (cs : list (colspec dy)) : forallb is_add (map (prim_map d2q) (map PAddCol cs)) = true.
Proof. induction cs as [|[[[o a] b] v] cs IH]; simpl; auto. Qed.

Section Types4.
  Variable inf : Q.
  Notation cr := (class_rows inf).
  Notation cc := (class_cols inf).
  Notation qap := (papply qzero Qopp).

  Ltac wf := match goal with H : WF2 _ |- _ => destruct H as [?W1 ?W2] end.
  Ltac okb H := repeat (apply andb_prop in H; let H1 := fresh H in destruct H as [H1 H]);
                repeat match goal with X : (_ =? _) = true |- _ => apply Nat.eqb_eq in X
                                  | X : (_ <? _) = true |- _ => apply Nat.ltb_lt in X
                                  | X : (_ <=? _) = true |- _ => apply Nat.leb_le in X end.

  (* the real interface in SYNCMODE_AUTO *)
  Lemma R_types e pm m n (ro : rop) (q : qlp) :
    WF2 q ->
    prims_ok qapply (map (prim_map d2q) (rprims e pm m n ro)) q = true ->
    let q' := applys qapply (map (prim_map d2q) (rprims e pm m n ro)) q in
    ty_apply inf q' (rtyupd m n ro) (cr q, cc q) = (cr q', cc q') /\ WF2 q'.
  Proof.
    intros Hq Hok q'.
    assert (WF2 q') as Hq' by (unfold q', qapply; apply WF2_applys; auto).
    split; auto. unfold q'. clear q' Hq'. unfold qapply in *.
    destruct ro as [[[a b] v]|rs|[[[o a] b] v]|cs|i [[a b] v]|j [[[o a] b] v]|i x|xs|i x|xs|i a b|a b|j x|xs|j x|xs|j a b|a b|j x|xs|i j x
                    |i|j|perm|perm|idx|idx|a b|a b| ]; cbn [rprims rtyupd map prim_map] in *.
    - destruct (adds_prefix inf _ _ [PAddRow (d2q a, d2q b, svec_map d2q v)] eq_refl q Hq Hok) as (_ & [r1 E1] & [r2 E2]).
      eapply ty_complete; eauto.
    - destruct (adds_prefix inf _ _ _ (forallb_is_add_rows_d rs) q Hq Hok) as (_ & [r1 E1] & [r2 E2]).
      eapply ty_complete; eauto.
    - destruct (adds_prefix inf _ _ [PAddCol (d2q o, d2q a, d2q b, svec_map d2q v)] eq_refl q Hq Hok) as (_ & [r1 E1] & [r2 E2]).
      eapply ty_complete; eauto.
    - destruct (adds_prefix inf _ _ _ (forallb_is_add_cols_d cs) q Hq Hok) as (_ & [r1 E1] & [r2 E2]).
      eapply ty_complete; eauto.
    - wf. eapply ty_rowatc; [|reflexivity]. unfold class_rows, applys. simpl. now apply map2_setn.
    - wf. eapply ty_colatc; [reflexivity|]. unfold class_cols, applys. simpl. now apply map2_setn.
    - eapply ty_rowat; [apply cr_lhs; auto|reflexivity].
    - wf. simpl in Hok. okb Hok. apply ty_rowsall; [|reflexivity].
      unfold class_rows, applys, nrows in *. simpl. rewrite !map2_length; auto; lia.
    - eapply ty_rowat; [apply cr_rhs; auto|reflexivity].
    - wf. simpl in Hok. okb Hok. apply ty_rowsall; [|reflexivity].
      unfold class_rows, applys, nrows in *. simpl. rewrite !map2_length; auto; lia.
    - destruct (cr_range inf qnz (d2q dinf) i (d2q a) (d2q b) q Hq) as [E1 E2]. eapply ty_rowat; eauto.
    - wf. simpl in Hok. okb Hok. apply ty_rowsall; [|reflexivity].
      unfold class_rows, applys, nrows in *. simpl in *. rewrite !map2_length; auto; lia.
    - eapply ty_colat; [reflexivity|apply cc_lo; auto].
    - wf. simpl in Hok. okb Hok. apply ty_colsall; [reflexivity|].
      unfold class_cols, applys, ncols in *. simpl. rewrite !map2_length; auto; lia.
    - eapply ty_colat; [reflexivity|apply cc_up; auto].
    - wf. simpl in Hok. okb Hok. apply ty_colsall; [reflexivity|].
      unfold class_cols, applys, ncols in *. simpl. rewrite !map2_length; auto; lia.
    - destruct (cc_bnd inf qnz (d2q dinf) j (d2q a) (d2q b) q Hq) as [E1 E2]. eapply ty_colat; eauto.
    - wf. simpl in Hok. okb Hok. apply ty_colsall; [reflexivity|].
      unfold class_cols, applys, ncols in *. simpl in *. rewrite !map2_length; auto; lia.
    - apply ty_none; reflexivity.
    - apply ty_none; reflexivity.
    - apply ty_none; reflexivity.
    - simpl in Hok. okb Hok.
      destruct (cr_remrow inf qnz (d2q dinf) i q Hq Hok0) as (E1 & E2 & E3).
      apply ty_remrow; auto. rewrite cr_len; auto.
    - simpl in Hok. okb Hok.
      destruct (cc_remcol inf qnz (d2q dinf) j q Hq Hok0) as (E1 & E2 & E3).
      apply ty_remcol; auto. rewrite cc_len; auto.
    - wf. apply ty_remrows; [|reflexivity]. unfold class_rows, applys. simpl. symmetry. now apply map2_keepm.
    - wf. apply ty_remcols; [reflexivity|]. unfold class_cols, applys. simpl. symmetry. now apply map2_keepm.
    - wf. apply ty_remrows; [|reflexivity]. unfold class_rows, applys. simpl. symmetry. now apply map2_keepm.
    - wf. apply ty_remcols; [reflexivity|]. unfold class_cols, applys. simpl. symmetry. now apply map2_keepm.
    - wf. apply ty_remrows; [|reflexivity]. unfold class_rows, applys. simpl. symmetry. now apply map2_keepm.
    - wf. apply ty_remcols; [reflexivity|]. unfold class_cols, applys. simpl. symmetry. now apply map2_keepm.
    - reflexivity.
  Qed.
End Types4.

(* ============================================================================ sparse vectors under conversion *)
Lemma sget_svec_map {A B} (tz' : B) (f : A -> B) j (v : svec A) :
  sget tz' j (svec_map f v) = match find (fun p => fst p =? j) v with Some p => f (snd p) | None => tz' end.
Proof. unfold sget, svec_map. induction v as [|p v IH]; simpl; auto. destruct (fst p =? j); auto. Qed.

Lemma vdim_map_d2q v : vdim dnz v = vdim qnz (svec_map d2q v).
Proof. induction v as [|p v IH]; simpl; auto. now rewrite dnz_d2q, IH. Qed.

Lemma svec_dy_ok_find v j p : svec_dy_ok v = true -> find (fun p => fst p =? j) v = Some p -> is_double (snd p).
Proof.
  intros H F. apply find_some in F as [F _]. unfold svec_dy_ok in H. rewrite forallb_forall in H. now apply H.
Qed.

Lemma nodupb_not_in x l : nodupb (x :: l) = true -> ~ In x l.
Proof.
  simpl. intros H C. apply andb_prop in H as [H _]. apply negb_true_iff in H.
  assert (existsb (Nat.eqb x) l = true) as E. { apply existsb_exists. exists x. split; auto. apply Nat.eqb_refl. }
  congruence.
Qed.

Lemma find_none_not_in {A} (v : svec A) j : ~ In j (map fst v) -> forall P, find (fun p => fst p =? j) (filter P v) = None.
Proof.
  intros H P. induction v as [|a v IH]; simpl; auto. simpl in H.
  destruct (P a); simpl.
  - destruct (Nat.eqb_spec (fst a) j) as [E|N]; [exfalso; apply H; auto|]. apply IH. tauto.
  - apply IH. tauto.
Qed.

Lemma find_filter_nodup {A} (v : svec A) j P : nodupb (map fst v) = true ->
  find (fun p => fst p =? j) (filter P v) =
  match find (fun p => fst p =? j) v with Some p => if P p then Some p else None | None => None end.
Proof.
  induction v as [|a v IH]; intros H; simpl; auto.
  simpl in H. pose proof (nodupb_not_in _ _ H) as Hn. apply andb_prop in H as [_ H].
  destruct (Nat.eqb_spec (fst a) j) as [E|N].
  - destruct (P a); simpl.
    + rewrite E, Nat.eqb_refl. reflexivity.
    + apply find_none_not_in. now rewrite <- E.
  - destruct (P a); simpl.
    + destruct (Nat.eqb_spec (fst a) j); [contradiction|]. now apply IH.
    + now apply IH.
Qed.

(* the index set of the nonzeros does not change when the zeros are dropped first *)
Lemma vdim_all_clean (f : Q -> dy) v : vdim (fun _ => true) (svec_map f (sclean_q v)) = vdim qnz v.
Proof.
  unfold sclean_q. induction v as [|p v IH]; simpl; auto.
  destruct (qnz (snd p)); simpl; now rewrite IH.
Qed.

Lemma qnz_false_zero q : qnz q = false -> (q == 0)%Q.
Proof. unfold qnz. intros H. apply negb_false_iff in H. apply Z.eqb_eq in H. unfold Qeq. simpl. lia. Qed.

(* ============================================================================ all entries of the real LP are doubles *)
Definition dbl_rel (d : dy) (_ : dy) : Prop := is_double d.
Definition RealOK (l : rlp) : Prop := lp_rel dbl_rel l l.

Lemma Forall2_diag {A} (P : A -> Prop) l : Forall2 (fun x _ => P x) l l <-> Forall P l.
Proof.
  split.
  - induction l; intros H; inversion H; subst; constructor; auto.
  - induction 1; constructor; auto.
Qed.

Lemma forallb_Forall2_dbl xs : forallb dy_ok xs = true -> Forall2 dbl_rel xs xs.
Proof.
  intros H. unfold dbl_rel. apply (proj2 (Forall2_diag is_double xs)). apply Forall_forall.
  rewrite forallb_forall in H. exact H.
Qed.

Lemma sv_dbl v : svec_dy_ok v = true -> sv_rel dbl_rel dzero dzero v v.
Proof.
  intros H j. unfold dbl_rel, sget. destruct (find _ v) eqn:F; [|reflexivity]. eapply svec_dy_ok_find; eauto.
Qed.

Lemma prim_dbl nz p : prim_dy_ok p = true -> prim_rel dbl_rel dzero dzero nz nz p p.
Proof.
  unfold dy_ok in *.
  destruct p as [[[a b] v]|[[[o a] b] v]|i [[a b] v]|j [[[o a] b] v]|i x|i x|j x|j x|j x|xs|xs|xs|xs|xs|i j x|i|j|m|m| |mx|x];
    simpl; intros H; repeat match goal with X : _ && _ = true |- _ => apply andb_prop in X; destruct X end;
    constructor; unfold rs_rel, cs_rel, dbl_rel; simpl; repeat match goal with |- _ /\ _ => split end; auto using sv_dbl, forallb_Forall2_dbl.
Qed.

Lemma rapply_RealOK nz p l : prim_dy_ok p = true -> RealOK l -> RealOK (papply dzero dneg nz dinf p l).
Proof.
  intros Hp Hl. unfold RealOK. eapply papply_rel; eauto.
  - reflexivity.
  - intros x y Hx. now apply is_double_dneg.
  - reflexivity.
  - now apply prim_dbl.
Qed.

Lemma applys_RealOK nz ps : forallb prim_dy_ok ps = true -> forall l, RealOK l ->
  RealOK (applys (papply dzero dneg nz dinf) ps l).
Proof.
  induction ps as [|p ps IH]; intros H l Hl; simpl; auto.
  simpl in H. apply andb_prop in H as [H1 H2]. unfold applys in *. simpl. apply IH; auto. now apply rapply_RealOK.
Qed.

Lemma RealOK_empty : RealOK (empty_lp dzero).
Proof. constructor; simpl; auto. reflexivity. Qed.

(* ============================================================================ the real interface in SYNCMODE_AUTO *)
Lemma sv_d2q v : svec_dy_ok v = true -> sv_rel adj dzero qzero v (svec_map d2q v).
Proof.
  intros H j. rewrite sget_svec_map. unfold sget. destruct (find _ v) eqn:F.
  - apply adj_exact. eapply svec_dy_ok_find; eauto.
  - apply adj_zero.
Qed.

Lemma Forall2_adj_d2q xs : forallb dy_ok xs = true -> Forall2 adj xs (map d2q xs).
Proof. intros H. apply Forall2_map_r. intros x Hx. apply adj_exact. rewrite forallb_forall in H. now apply H. Qed.

Lemma prim_d2q p : prim_dy_ok p = true -> prim_rel adj dzero qzero dnz qnz p (prim_map d2q p).
Proof.
  unfold dy_ok in *.
  destruct p as [[[a b] v]|[[[o a] b] v]|i [[a b] v]|j [[[o a] b] v]|i x|i x|j x|j x|j x|xs|xs|xs|xs|xs|i j x|i|j|m|m| |mx|x];
    simpl; intros H; repeat match goal with X : _ && _ = true |- _ => apply andb_prop in X; destruct X end;
    constructor; unfold rs_rel, cs_rel; simpl; repeat match goal with |- _ /\ _ => split end; auto using sv_d2q, Forall2_adj_d2q, adj_exact, vdim_map_d2q.
Qed.

Lemma prims_d2q ps : forallb prim_dy_ok ps = true -> Forall2 (prim_rel adj dzero qzero dnz qnz) ps (map (prim_map d2q) ps).
Proof.
  induction ps as [|p ps IH]; simpl; intros H; constructor.
  - apply andb_prop in H as [H _]. now apply prim_d2q.
  - apply andb_prop in H as [_ H]. now apply IH.
Qed.

Lemma adj_applys nzr nzq ps ps' l l' :
  Forall2 (prim_rel adj dzero qzero nzr nzq) ps ps' -> lp_rel adj l l' ->
  lp_rel adj (applys (papply dzero dneg nzr dinf) ps l) (applys (papply qzero Qopp nzq (d2q dinf)) ps' l').
Proof. intros. eapply applys_rel; eauto using adj_zero, adj_neg, adj_inf. Qed.

(* which zero test decides about implicit columns / rows in the two LPs for a call of the rational interface *)
Definition nzr_of (o : qop) : dy -> bool :=
  match o with QAddRow true _ | QAddCol true _ => fun _ => true | _ => dnz end.
Definition nzq_of (o : qop) : Q -> bool := qnz.
Lemma rap_of_eq o : rap_of o = papply dzero dneg (nzr_of o) dinf.
Proof. destruct o; try reflexivity; destruct g; reflexivity. Qed.
Lemma vdim_all_map {A B} (f : A -> B) (v : svec A) : vdim (fun _ => true) (svec_map f v) = vdim (fun _ => true) v.
Proof. induction v as [|p v IH]; simpl; auto. now rewrite IH. Qed.
Lemma qap_of_eq o : qap_of o = papply qzero Qopp (nzq_of o) (d2q dinf).
Proof. reflexivity. Qed.

Lemma prims_ok_rows_nodup {T} (ap : prim T -> lp T -> lp T) (rs : list (rowspec T)) : forall q,
  prims_ok ap (map PAddRow rs) q = true -> Forall (fun r => nodupb (map fst (snd r)) = true) rs.
Proof.
  induction rs as [|[[a b] v] rs IH]; intros q H; constructor.
  - simpl in H. apply andb_prop in H as [H _]. unfold svec_ok in H. apply andb_prop in H as [H _]. exact H.
  - simpl in H. apply andb_prop in H as [_ H]. eapply IH; eauto.
Qed.
Lemma prims_ok_cols_nodup {T} (ap : prim T -> lp T -> lp T) (cs : list (colspec T)) : forall q,
  prims_ok ap (map PAddCol cs) q = true -> Forall (fun c => nodupb (map fst (snd c)) = true) cs.
Proof.
  induction cs as [|[[[o a] b] v] cs IH]; intros q H; constructor.
  - simpl in H. apply andb_prop in H as [H _]. unfold svec_ok in H. apply andb_prop in H as [H _]. exact H.
  - simpl in H. apply andb_prop in H as [_ H]. eapply IH; eauto.
Qed.

Lemma Forall2_map_same_in {A B B'} (S : B -> B' -> Prop) (P : A -> Prop) (f : A -> B) (f' : A -> B') l :
  Forall P l -> (forall x, P x -> S (f x) (f' x)) -> Forall2 S (map f l) (map f' l).
Proof. intros H Hf. induction H; simpl; constructor; auto. Qed.

Section Sync.
  Variable rnd : rkind -> Q -> dy.
  Hypothesis rnd_adj : forall k q, adj (rnd k q) q.

  Lemma rnd_double k q : is_double (rnd k q).
  Proof. apply rnd_adj. Qed.

  Lemma sv_rnd v : sv_rel adj dzero qzero (svec_map (rnd RConv) v) v.
  Proof.
    intros j. rewrite sget_svec_map. unfold sget. destruct (find _ v); [apply rnd_adj|apply adj_zero].
  Qed.

  Lemma sv_rnd_clean v : nodupb (map fst v) = true -> sv_rel adj dzero qzero (svec_map (rnd RConv) (sclean_q v)) v.
  Proof.
    intros H j. rewrite sget_svec_map. unfold sclean_q. rewrite find_filter_nodup by auto. unfold sget.
    destruct (find _ v) as [p|]; [|apply adj_zero]. destruct (qnz (snd p)) eqn:E; [apply rnd_adj|].
    apply (adj_Qeq dzero qzero); [symmetry; now apply qnz_false_zero|apply adj_zero].
  Qed.

  Lemma Forall2_rnd xs : Forall2 adj (map (rnd RConv) xs) xs.
  Proof. apply Forall2_map_l. intros; apply rnd_adj. Qed.

  (* the calls of the rational interface for which the two LPs provably stay related *)
  Definition vd_ok (v : svec Q) : Prop := vdim dnz (svec_map (rnd RConv) v) = vdim qnz v.
  Definition benign_q (s : state) (q : qlp) (qo : qop) : Prop :=
    match qo with
    | QAddRow false (_, _, v) => vd_ok v
    | QAddRows _ rs => Forall (fun r => vd_ok (snd r)) rs
    | QAddCol false (_, _, _, v) => vd_ok v
    | QAddCol true _ => pmax s = lmax q
    | QAddCols false cs => Forall (fun c => vd_ok (snd c)) cs
    | QAddCols true cs => Forall (fun c => vd_ok (snd c)) cs /\ pmax s = lmax q
    | QElem false _ _ x => keep_q (eps s) x = keep_r (eps s) (rnd RConv x)
    | QElem true _ _ x => qnz x = keep_r (eps s) (rnd RGetD x)
    | _ => True
    end.

  Lemma obj_g_adj pm o : adj (sgn dneg pm (rnd RConv (sgn Qopp pm o))) o.
  Proof.
    destruct pm; simpl; [apply rnd_adj|].
    apply (adj_Qeq _ (- - o)%Q); [ring|]. apply adj_neg. apply rnd_adj.
  Qed.

  Lemma rs_rnd_rel a b v : rs_rel adj dzero qzero (rnd RConv a, rnd RConv b, svec_map (rnd RConv) v) (a, b, v).
  Proof. simpl. split; [apply rnd_adj|split; [apply rnd_adj|apply sv_rnd]]. Qed.
  Lemma rs_rnd_clean_rel a b v : nodupb (map fst v) = true ->
    rs_rel adj dzero qzero (rnd RConv a, rnd RConv b, svec_map (rnd RConv) (sclean_q v)) (a, b, v).
  Proof. intros H. simpl. split; [apply rnd_adj|split; [apply rnd_adj|now apply sv_rnd_clean]]. Qed.
  Lemma cs_rnd_rel o a b v : cs_rel adj dzero qzero (rnd RConv o, rnd RConv a, rnd RConv b, svec_map (rnd RConv) v) (o, a, b, v).
  Proof. simpl. split; [apply rnd_adj|split; [apply rnd_adj|split; [apply rnd_adj|apply sv_rnd]]]. Qed.
  Lemma cs_rnd_clean_rel o a b v : nodupb (map fst v) = true ->
    cs_rel adj dzero qzero (rnd RConv o, rnd RConv a, rnd RConv b, svec_map (rnd RConv) (sclean_q v)) (o, a, b, v).
  Proof. intros H. simpl. split; [apply rnd_adj|split; [apply rnd_adj|split; [apply rnd_adj|now apply sv_rnd_clean]]]. Qed.

  Lemma lmax_qap_addcols nz ti (cs : list (colspec Q)) : forall q : qlp,
    lmax (applys (papply qzero Qopp nz ti) (map PAddCol cs) q) = lmax q.
  Proof.
    induction cs as [|[[[o a] b] v] cs IH]; intros q; simpl; auto. unfold applys in *. simpl. rewrite IH. reflexivity.
  Qed.

  Lemma qprims_rel s q qo :
    prims_ok (qap_of qo) (qprims (eps s) (pmax s) (nrows q) (ncols q) q qo) q = true ->
    benign_q s q qo ->
    Forall2 (prim_rel adj dzero qzero (nzr_of qo) (nzq_of qo))
            (qrprims rnd (eps s) (nrows q) (ncols q) (applys (qap_of qo) (qprims (eps s) (pmax s) (nrows q) (ncols q) q qo) q) (pmax s) qo)
            (qprims (eps s) (pmax s) (nrows q) (ncols q) q qo).
  Proof.
    intros Hok Hb.
    destruct qo as [g [[a b] v]|g rs|g [[[o a] b] v]|g cs|i [[a b] v]|j [[[o a] b] v]|i x|xs|i x|xs|xs|i a b|a b|j x|xs|j x|xs|j a b|a b|j x|xs|g i j x
                    |i|j|perm|perm|idx|idx|a b|a b| ]; cbn [qprims qrprims].
    - (* QAddRow *) destruct g.
      + pose proof (prims_ok_rows_nodup _ [(a, b, v)] _ Hok) as Hn. inversion Hn as [|? ? Hn1 _]; subst. simpl in Hn1.
        constructor; [|constructor]. constructor; [now apply rs_rnd_clean_rel|apply vdim_all_clean].
      + constructor; [|constructor]. constructor; [apply rs_rnd_rel|exact Hb].
    - (* QAddRows *) simpl in Hb. eapply Forall2_map_same_in; [exact Hb|]. intros [[a b] v] Hv.
      destruct g; (constructor; [apply rs_rnd_rel|exact Hv]).
    - (* QAddCol *) destruct g.
      + pose proof (prims_ok_cols_nodup _ [(o, a, b, v)] _ Hok) as Hn. inversion Hn as [|? ? Hn1 _]; subst. simpl in Hn1.
        simpl in Hb. constructor; [|constructor]. constructor; [|apply vdim_all_clean].
        simpl. split; [|split; [apply rnd_adj|split; [apply rnd_adj|now apply sv_rnd_clean]]].
        unfold applys. simpl. rewrite Hb. apply obj_g_adj.
      + constructor; [|constructor]. constructor; [apply cs_rnd_rel|exact Hb].
    - (* QAddCols *) destruct g.
      + simpl in Hb. destruct Hb as [Hv Hs].
        rewrite qap_of_eq. rewrite lmax_qap_addcols. rewrite Hs.
        eapply Forall2_map_same_in; [exact Hv|]. intros [[[o a] b] v] Hv'. constructor; [|exact Hv'].
        simpl. split; [apply obj_g_adj|split; [apply rnd_adj|split; [apply rnd_adj|apply sv_rnd]]].
      + simpl in Hb. eapply Forall2_map_same_in; [exact Hb|]. intros [[[o a] b] v] Hv.
        constructor; [apply cs_rnd_rel|exact Hv].
    - constructor; [|constructor]. constructor. apply rs_rnd_rel.
    - constructor; [|constructor]. constructor. apply cs_rnd_rel.
    - constructor; [constructor; apply rnd_adj|constructor].
    - constructor; [constructor; apply Forall2_rnd|constructor].
    - constructor; [constructor; apply rnd_adj|constructor].
    - constructor; [constructor; apply Forall2_rnd|constructor].
    - (* GRhsV *) constructor; [constructor; unfold applys; simpl; apply Forall2_rnd|constructor].
    - constructor; [constructor; apply rnd_adj|constructor; [constructor; apply rnd_adj|constructor]].
    - constructor; [constructor; apply Forall2_rnd|constructor; [constructor; apply Forall2_rnd|constructor]].
    - constructor; [constructor; apply rnd_adj|constructor].
    - constructor; [constructor; apply Forall2_rnd|constructor].
    - constructor; [constructor; apply rnd_adj|constructor].
    - constructor; [constructor; apply Forall2_rnd|constructor].
    - constructor; [constructor; apply rnd_adj|constructor; [constructor; apply rnd_adj|constructor]].
    - constructor; [constructor; apply Forall2_rnd|constructor; [constructor; apply Forall2_rnd|constructor]].
    - constructor; [constructor; apply rnd_adj|constructor].
    - constructor; [constructor; apply Forall2_rnd|constructor].
    - (* QElem *) constructor; [|constructor]. constructor. simpl in Hb. unfold elem_r, elem_q. destruct g.
      + rewrite <- Hb. destruct (qnz x) eqn:E; [apply rnd_adj|].
        apply (adj_Qeq dzero qzero); [|apply adj_zero]. reflexivity.
      + rewrite <- Hb. destruct (keep_q (eps s) x); [apply rnd_adj|apply adj_zero].
    - repeat constructor.
    - repeat constructor.
    - repeat constructor.
    - repeat constructor.
    - repeat constructor.
    - repeat constructor.
    - repeat constructor.
    - repeat constructor.
    - repeat constructor.
  Qed.
End Sync.

(* ================================================================================ the statements about [step] *)
Definition types_ok (s : state) (q : qlp) : Prop :=
  rty s = class_rows (d2q (pinf s)) q /\ cty s = class_cols (d2q (pinf s)) q.

(* the rational LP exists, the real LP is its coefficient-wise floating-point image (same dimensions, sense; offset
   adjacent), and the type arrays are the classification of the rational bounds with threshold INFTY *)
Definition InSync (s : state) : Prop :=
  exists q, ql s = Some q /\ lp_rel adj (rl s) q /\ types_ok s q /\ WF2 q.

Definition stays_auto (o : op) : Prop :=
  match o with SetMode Auto => True | SetMode _ => False | _ => True end.

Lemma Forall2_same {A} (S : A -> A -> Prop) l : Forall2 S l l -> Forall (fun x => S x x) l.
Proof. induction l; intros H; inversion H; subst; constructor; auto. Qed.

Lemma lp_rel_map_d2q (l : rlp) : RealOK l -> lp_rel adj l (lp_map d2q l).
Proof.
  intros [H1 H2 H3 H4 H5 H6 H7 H8]. unfold dbl_rel in *.
  assert (forall xs, Forall2 (fun d _ : dy => is_double d) xs xs -> Forall2 adj xs (map d2q xs)) as F.
  { intros xs H. apply Forall2_map_r. intros x Hx. apply adj_exact.
    apply (proj1 (Forall2_diag is_double xs)) in H. rewrite Forall_forall in H. now apply H. }
  constructor; simpl; auto.
  - apply Forall2_map_r. intros r Hr. apply F.
    apply Forall2_same in H6. rewrite Forall_forall in H6. now apply H6.
  - now apply adj_exact.
Qed.

Lemma WF2_map_d2q (l : rlp) : WF2 l -> WF2 (lp_map d2q l).
Proof. intros [A B]. unfold WF2. simpl. now rewrite !map_length. Qed.

Lemma WF2_rapply nz p (l : rlp) : WF2 l -> prim_ok (nrows l) (ncols l) p = true -> WF2 (papply dzero dneg nz dinf p l).
Proof.
  intros [H1 H2] Hok. unfold WF2, nrows, ncols in *.
  destruct p as [[[a b] v]|[[[o a] b] v]|i [[a b] v]|j [[[o a] b] v]|i x|i x|j x|j x|j x|xs|xs|xs|xs|xs|i j x|i|j|m|m| |mx|x];
    simpl in *; rewrite ?app_length, ?repeat_length, ?setn_length; simpl; auto; try lia.
  - apply Nat.eqb_eq in Hok. split; lia.
  - apply Nat.eqb_eq in Hok. split; lia.
  - apply Nat.eqb_eq in Hok. split; lia.
  - apply Nat.eqb_eq in Hok. split; lia.
  - split; auto. now apply move_last_length_eq.
  - split; auto. now apply move_last_length_eq.
  - split; auto. now apply keepm_length_eq.
  - split; auto. now apply keepm_length_eq.
Qed.

Lemma WF2_rapplys nz ps : forall l : rlp, WF2 l -> prims_ok (papply dzero dneg nz dinf) ps l = true ->
  WF2 (applys (papply dzero dneg nz dinf) ps l).
Proof.
  induction ps as [|p ps IH]; intros l Hl Hok; simpl; auto.
  simpl in Hok. apply andb_prop in Hok as [H1 H2]. unfold applys in *. simpl. apply IH; auto. now apply WF2_rapply.
Qed.

Section Main.
  Variable rnd : rkind -> Q -> dy.
  Hypothesis rnd_adj : forall k q, adj (rnd k q) q.

  Definition benign (s : state) (o : op) : Prop :=
    match o with
    | OR ro => True
    | OQ qo => match ql s with Some q => benign_q rnd s q qo | None => True end
    | _ => True
    end.

  Lemma step_OR_auto s ro q :
    mode s = Auto -> ql s = Some q -> lp_rel adj (rl s) q -> types_ok s q -> WF2 q ->
    valid_op rnd s (OR ro) = true ->
    InSync (step rnd s (OR ro)).
  Proof.
    intros Hm Hq Hrel [Ht1 Ht2] Hwf Hv.
    unfold valid_op in Hv. rewrite Hm, Hq in Hv.
    apply andb_prop in Hv as [Hv Hv4]. apply andb_prop in Hv as [Hv Hv3]. apply andb_prop in Hv as [Hv1 Hv2].
    unfold step. cbv zeta. rewrite Hm, Hq.
    set (ps := rprims (eps s) (pmax s) (nrows (rl s)) (ncols (rl s)) ro) in *.
    destruct (R_types (d2q (pinf s)) (eps s) (pmax s) (nrows (rl s)) (ncols (rl s)) ro q Hwf Hv4) as [E W].
    exists (qapplys (map (prim_map d2q) ps) q). split; [reflexivity|]. split; [|split].
    - unfold with_lps. cbn [rl]. apply adj_applys; auto. now apply prims_d2q.
    - unfold types_ok, with_lps. cbn [rty cty pinf]. rewrite Ht1, Ht2. fold ps in E. unfold qapplys. rewrite E. split; reflexivity.
    - exact W.
  Qed.

  Lemma step_OQ_auto s qo q :
    mode s = Auto -> ql s = Some q -> lp_rel adj (rl s) q -> types_ok s q -> WF2 q ->
    valid_op rnd s (OQ qo) = true -> benign_q rnd s q qo ->
    InSync (step rnd s (OQ qo)).
  Proof.
    intros Hm Hq Hrel [Ht1 Ht2] Hwf Hv Hb.
    unfold valid_op in Hv. rewrite Hm, Hq in Hv.
    apply andb_prop in Hv as [Hv Hv3]. apply andb_prop in Hv as [Hv1 Hv2].
    unfold step. cbv zeta. rewrite Hm, Hq.
    destruct (Q_types (d2q (pinf s)) (eps s) (pmax s) qo q Hwf Hv1) as [E W].
    eexists. split; [reflexivity|]. split; [|split].
    - unfold with_lps. cbn [rl]. rewrite rap_of_eq, qap_of_eq. apply adj_applys; auto.
      rewrite <- qap_of_eq. now apply qprims_rel.
    - unfold types_ok, with_lps. cbn [rty cty pinf]. rewrite Ht1, Ht2. rewrite E. split; reflexivity.
    - exact W.
  Qed.
End Main.

(* ------------------------------------------------------------------- invariant of every reachable state *)
Definition Inv (s : state) : Prop :=
  RealOK (rl s) /\ WF2 (rl s) /\ (forall q, ql s = Some q -> WF2 q) /\ (mode s <> OnlyReal -> ql s <> None).

Lemma WF2_lp_map {A B} (f : A -> B) (l : lp A) : WF2 l -> WF2 (lp_map f l).
Proof. intros [A1 B1]. unfold WF2. simpl. now rewrite !map_length. Qed.

Lemma WF2_empty {T} (z : T) : WF2 (empty_lp z).
Proof. split; reflexivity. Qed.

Section Main2.
  Variable rnd : rkind -> Q -> dy.
  Hypothesis rnd_adj : forall k q, adj (rnd k q) q.

  Lemma dy_ok_rnd k q : dy_ok (rnd k q) = true.
  Proof. apply (rnd_double rnd rnd_adj). Qed.
  Lemma dy_ok_list xs : forallb dy_ok (map (rnd RConv) xs) = true.
  Proof. induction xs; simpl; auto. now rewrite dy_ok_rnd. Qed.
  Lemma dy_ok_svec v : svec_dy_ok (svec_map (rnd RConv) v) = true.
  Proof. unfold svec_dy_ok, svec_map. induction v; simpl; auto. now rewrite dy_ok_rnd. Qed.
  Lemma dy_ok_dneg d : dy_ok d = true -> dy_ok (dneg d) = true.
  Proof. apply is_double_dneg. Qed.
  Lemma dy_ok_sgn mx d : dy_ok d = true -> dy_ok (sgn dneg mx d) = true.
  Proof. destruct mx; unfold sgn; auto using dy_ok_dneg. Qed.
  Lemma dy_ok_elem e d : dy_ok d = true -> dy_ok (elem_r e d) = true.
  Proof. unfold elem_r. destruct (keep_r e d); auto. Qed.

  Lemma qrprims_dy_ok e m n q' pm qo : forallb prim_dy_ok (qrprims rnd e m n q' pm qo) = true.
  Proof.
    destruct qo as [g [[a b] v]|g rs|g [[[o a] b] v]|g cs|i [[a b] v]|j [[[o a] b] v]|i x|xs|i x|xs|xs|i a b|a b|j x|xs|j x|xs|j a b|a b|j x|xs|g i j x
                    |i|j|perm|perm|idx|idx|a b|a b| ]; cbn [qrprims]; try reflexivity; try destruct g;
      try (simpl; rewrite ?dy_ok_rnd, ?dy_ok_list, ?dy_ok_svec; reflexivity).
    - induction rs as [|[[a b] v] rs IH]; simpl; auto; rewrite ?dy_ok_rnd, ?dy_ok_svec; auto.
    - induction rs as [|[[a b] v] rs IH]; simpl; auto; rewrite ?dy_ok_rnd, ?dy_ok_svec; auto.
    - simpl; rewrite ?dy_ok_rnd, ?dy_ok_svec, ?dy_ok_sgn; auto using dy_ok_rnd.
    - induction cs as [|[[[o a] b] v] cs IH]; simpl; auto; rewrite ?dy_ok_rnd, ?dy_ok_svec, ?dy_ok_sgn; auto using dy_ok_rnd.
    - induction cs as [|[[[o a] b] v] cs IH]; simpl; auto; rewrite ?dy_ok_rnd, ?dy_ok_svec, ?dy_ok_sgn; auto using dy_ok_rnd.
    - simpl. rewrite dy_ok_elem; auto using dy_ok_rnd.
    - simpl. rewrite dy_ok_elem; auto using dy_ok_rnd.
  Qed.

  Lemma RealOK_map_rnd (q : qlp) : RealOK (lp_map (rnd RConv) q).
  Proof.
    assert (forall xs : list Q, Forall2 dbl_rel (map (rnd RConv) xs) (map (rnd RConv) xs)) as F.
    { intros xs. apply forallb_Forall2_dbl. apply dy_ok_list. }
    constructor; simpl; auto.
    - induction (mat q); simpl; constructor; auto.
    - apply (rnd_double rnd rnd_adj).
  Qed.

  Ltac inv4 := unfold Inv; split; [|split; [|split]].

  Lemma sync_rat_Inv s : Inv s -> Inv (sync_rat s).
  Proof.
    intros (A & B & C & D). unfold sync_rat. inv4; cbn [rl ql mode]; auto.
    - intros q E. injection E as <-. now apply WF2_lp_map.
    - discriminate.
  Qed.

  Lemma Inv_same_lps s s' : rl s' = rl s -> ql s' = ql s -> (mode s' <> OnlyReal -> mode s <> OnlyReal) -> Inv s -> Inv s'.
  Proof. intros E1 E2 E3 (A & B & C & D). inv4; rewrite ?E1, ?E2; auto. Qed.

  Theorem step_Inv s o : Inv s -> valid_op rnd s o = true -> Inv (step rnd s o).
  Proof.
    intros HI Hv. pose proof HI as (A & B & C & D). destruct o as [ro|qo| | | |md|v|mx|v].
    - (* real interface *)
      unfold valid_op in Hv. apply andb_prop in Hv as [Hv Hv4]. apply andb_prop in Hv as [Hv Hv3].
      apply andb_prop in Hv as [Hv1 Hv2].
      assert (RealOK (rapplys (rprims (eps s) (pmax s) (nrows (rl s)) (ncols (rl s)) ro) (rl s))) as A'
        by (apply applys_RealOK; auto).
      assert (WF2 (rapplys (rprims (eps s) (pmax s) (nrows (rl s)) (ncols (rl s)) ro) (rl s))) as B'
        by (apply WF2_rapplys; auto).
      unfold step. cbv zeta.
      destruct (mode s) eqn:Hm; destruct (ql s) as [q|] eqn:Hq; try discriminate Hv4;
        unfold with_lps; inv4; cbn [rl ql mode fst snd]; auto; rewrite ?Hm; try discriminate; try congruence.
      + intros ? E. injection E as <-. unfold qapplys, qapply. apply WF2_applys; auto.
      + intros X. apply D in X. congruence.
    - (* rational interface *)
      unfold valid_op in Hv. unfold step. cbv zeta.
      destruct (mode s) eqn:Hm; destruct (ql s) as [q|] eqn:Hq; try discriminate Hv.
      + destruct qo; try exact HI.
        unfold with_lps; inv4; cbn [rl ql mode fst snd]; auto.
        intros ? E. injection E as <-. split; reflexivity.
      + apply andb_prop in Hv as [Hv Hv3]. apply andb_prop in Hv as [Hv1 Hv2].
        unfold with_lps; inv4; cbn [rl ql mode fst snd]; rewrite ?rap_of_eq in *.
        * apply applys_RealOK; auto. apply qrprims_dy_ok.
        * apply WF2_rapplys; auto.
        * intros ? E. injection E as <-. rewrite qap_of_eq in *. apply WF2_applys; auto.
        * discriminate.
      + apply andb_prop in Hv as [Hv Hv3]. apply andb_prop in Hv as [Hv1 Hv2].
        unfold with_lps; inv4; cbn [rl ql mode fst snd]; auto.
        * intros ? E. injection E as <-. rewrite qap_of_eq in *. apply WF2_applys; auto.
        * discriminate.
    - (* syncLPReal *)
      unfold step. destruct (mode s) eqn:Hm; try exact HI.
      unfold sync_real. destruct (ql s) as [q|] eqn:Hq; [|exact HI].
      inv4; cbn [rl ql mode]; rewrite ?Hq; auto.
      * apply RealOK_map_rnd.
      * apply WF2_lp_map. now apply C.
      * discriminate.
    - unfold step. destruct (mode s) eqn:Hm; try exact HI. now apply sync_rat_Inv.
    - unfold step. destruct (mode s) eqn:Hm; try exact HI. now apply sync_rat_Inv.
    - (* setIntParam(SYNCMODE) *)
      unfold step. destruct md.
      + inv4; cbn [rl ql mode]; auto; try discriminate.
      + destruct (mode s) eqn:Hm.
        * destruct (sync_rat_Inv s HI) as (A' & B' & C' & D').
          inv4; cbn [rl ql mode] in *; auto; try discriminate.
        * inv4; cbn [rl ql mode]; auto; try (intros _; apply D; congruence).
        * inv4; cbn [rl ql mode]; auto; try (intros _; apply D; congruence).
      + inv4; cbn [rl ql mode]; auto; try discriminate.
        intros q E. injection E as <-.
        assert (WF2 (match ql s with Some q => q | None => empty_lp qzero end)) as W
          by (destruct (ql s) eqn:Hq; [now apply C|apply WF2_empty]).
        destruct W as [W1 W2]. split; simpl; auto.
    - (* INFTY *)
      unfold step. destruct (_ && _); [|exact HI].
      destruct (mode s) eqn:Hm; destruct (ql s) as [q|] eqn:Hq;
        (eapply Inv_same_lps; [| | |exact HI]; cbn [rl ql mode]; auto; rewrite ?Hm; auto).
    - (* OBJSENSE *)
      unfold step. inv4; cbn [rl ql mode].
      + apply rapply_RealOK; auto.
      + apply WF2_rapply; auto.
      + intros q E. destruct (ql s) as [q0|] eqn:Hq; simpl in E; [|discriminate]. injection E as <-.
        destruct (C q0 eq_refl) as [W1 W2]. split; simpl; auto.
      + intros Hm. specialize (D Hm). destruct (ql s); simpl; congruence.
    - (* OBJ_OFFSET *)
      unfold step. destruct (_ && _); [|exact HI].
      simpl in Hv. inv4; cbn [rl ql mode].
      + apply rapply_RealOK; auto.
      + apply WF2_rapply; auto.
      + intros q E. destruct (ql s) as [q0|] eqn:Hq; simpl in E; [|discriminate]. injection E as <-.
        destruct (C q0 eq_refl) as [W1 W2]. split; simpl; auto.
      + intros Hm. specialize (D Hm). destruct (ql s); simpl; congruence.
  Qed.
End Main2.

Section Main3.
  Variable rnd : rkind -> Q -> dy.
  Hypothesis rnd_adj : forall k q, adj (rnd k q) q.

  Lemma InSync_same s s' : rl s' = rl s -> ql s' = ql s -> rty s' = rty s -> cty s' = cty s -> pinf s' = pinf s ->
    InSync s -> InSync s'.
  Proof.
    intros E1 E2 E3 E4 E5 (q & Hq & Hrel & [T1 T2] & W). exists q. rewrite E1, E2. repeat (split; auto).
    - now rewrite E3, E5.
    - now rewrite E4, E5.
  Qed.

  Lemma sense_rel mx (r : rlp) (q : qlp) : lp_rel adj r q -> lp_rel adj (rapply (PSense mx) r) (qapply (PSense mx) q).
  Proof.
    intros H. unfold rapply, qapply. eapply papply_rel; eauto using adj_zero, adj_neg, adj_inf. constructor.
  Qed.

  (* ---- every call made in SYNCMODE_AUTO (other than leaving the mode towards ONLYREAL) keeps the LPs in sync *)
  Theorem auto_step_preserves s o :
    mode s = Auto -> InSync s -> valid_op rnd s o = true -> benign rnd s o -> o <> SetMode OnlyReal ->
    InSync (step rnd s o).
  Proof.
    intros Hm HS Hv Hb Hne. pose proof HS as (q & Hq & Hrel & Ht & W).
    destruct o as [ro|qo| | | |md|v|mx|v].
    - eapply step_OR_auto; eauto.
    - simpl in Hb. rewrite Hq in Hb. eapply step_OQ_auto; eauto.
    - unfold step. now rewrite Hm.
    - unfold step. now rewrite Hm.
    - unfold step. now rewrite Hm.
    - destruct md; [congruence| |].
      + unfold step. rewrite Hm. eapply InSync_same; [| | | | |exact HS]; reflexivity.
      + unfold step. cbv zeta. rewrite Hq, Hm. exists (qapply (PSense (lmax (rl s))) q). cbn [rl ql rty cty pinf fst snd].
        split; [reflexivity|]. destruct Ht as [T1 T2]. destruct W as [W1 W2]. split; [|split; [split|split]]; auto.
        destruct Hrel as [H1 H2 H3 H4 H5 H6 H7 H8]. constructor; simpl; auto.
        rewrite H7, eqb_reflx. exact H3.
    - unfold step. destruct (_ && _); [|exact HS]. rewrite Hm, Hq.
      exists q. cbn [rl ql rty cty pinf]. repeat (split; auto).
    - unfold step. exists (qapply (PSense mx) q). cbn [rl ql rty cty pinf]. rewrite Hq. simpl.
      split; [reflexivity|]. destruct Ht as [T1 T2]. destruct W as [W1 W2]. split; [|split; [split|split]]; auto.
      now apply sense_rel.
    - unfold step. destruct (_ && _); [|exact HS]. simpl in Hv.
      exists (qapply (POff (d2q v)) q). cbn [rl ql rty cty pinf]. rewrite Hq. simpl.
      split; [reflexivity|]. destruct Ht as [T1 T2]. destruct W as [W1 W2]. split; [|split; [split|split]]; auto.
      destruct Hrel as [H1 H2 H3 H4 H5 H6 H7 H8]. constructor; simpl; auto. now apply adj_exact.
  Qed.

  Lemma mode_with_lps s r q t : mode (with_lps s r q t) = mode s.
  Proof. reflexivity. Qed.

  Lemma mode_step s o : mode s = Auto -> stays_auto o -> mode (step rnd s o) = Auto.
  Proof.
    intros Hm Hs. destruct o as [ro|qo| | | |md|v|mx|v]; unfold step; cbv zeta; rewrite ?Hm; auto.
    - destruct (ql s); rewrite mode_with_lps; auto.
    - destruct (ql s); rewrite ?mode_with_lps; auto.
    - destruct md; simpl in Hs; try contradiction. reflexivity.
    - destruct (_ && _); auto. destruct (ql s); auto.
    - destruct (_ && _); auto.
  Qed.

  (* histories of calls that are valid and benign when they are made and that stay in SYNCMODE_AUTO *)
  Fixpoint hist_ok (s : state) (ops : list op) : Prop :=
    match ops with
    | [] => True
    | o :: t => valid_op rnd s o = true /\ benign rnd s o /\ stays_auto o /\ hist_ok (step rnd s o) t
    end.

  Theorem auto_history ops : forall s, mode s = Auto -> InSync s -> hist_ok s ops ->
    InSync (run rnd s ops) /\ mode (run rnd s ops) = Auto.
  Proof.
    induction ops as [|o t IH]; intros s Hm HS H; simpl; auto.
    destruct H as (Hv & Hb & Hs & Ht). apply IH; auto.
    - now apply mode_step.
    - apply auto_step_preserves; auto. intros ->. exact Hs.
  Qed.

  (* ---- _syncLPRational: the rational LP becomes the exact image of the real LP, and everything is in sync *)
  Lemma sync_rat_spec s : RealOK (rl s) -> WF2 (rl s) ->
    ql (sync_rat s) = Some (lp_map d2q (rl s)) /\ rl (sync_rat s) = rl s /\ InSync (sync_rat s).
  Proof.
    intros A B. unfold sync_rat. cbn [rl ql]. repeat (split; auto).
    exists (lp_map d2q (rl s)). cbn [rl ql rty cty pinf]. split; [reflexivity|]. split; [|split; [split|]]; auto.
    - now apply lp_rel_map_d2q.
    - now apply WF2_lp_map.
  Qed.

  Theorem manual_syncLPRational s : mode s = Manual -> Inv s ->
    ql (step rnd s SyncRat) = Some (lp_map d2q (rl s)) /\ rl (step rnd s SyncRat) = rl s /\ InSync (step rnd s SyncRat).
  Proof. intros Hm (A & B & _). unfold step. rewrite Hm. now apply sync_rat_spec. Qed.

  Theorem onlyreal_exact_solve_copy s : mode s = OnlyReal -> Inv s ->
    ql (step rnd s ExactSolveSync) = Some (lp_map d2q (rl s)) /\ rl (step rnd s ExactSolveSync) = rl s /\
    InSync (step rnd s ExactSolveSync).
  Proof. intros Hm (A & B & _). unfold step. rewrite Hm. now apply sync_rat_spec. Qed.

  Theorem onlyreal_to_auto_copy s : mode s = OnlyReal -> Inv s ->
    ql (step rnd s (SetMode Auto)) = Some (lp_map d2q (rl s)) /\ rl (step rnd s (SetMode Auto)) = rl s /\
    InSync (step rnd s (SetMode Auto)) /\ mode (step rnd s (SetMode Auto)) = Auto.
  Proof.
    intros Hm (A & B & _). unfold step. rewrite Hm. destruct (sync_rat_spec s A B) as (E1 & E2 & E3).
    cbn [rl ql mode]. split; [exact E1|split; [exact E2|split; [|reflexivity]]].
    eapply InSync_same; [| | | | |exact E3]; reflexivity.
  Qed.

  (* ---- _syncLPReal: the real LP becomes the rounded image of the rational LP; in sync if the types were right *)
  Theorem manual_syncLPReal s q : mode s = Manual -> ql s = Some q -> types_ok s q -> WF2 q ->
    rl (step rnd s SyncReal) = lp_map (rnd RConv) q /\ ql (step rnd s SyncReal) = Some q /\ InSync (step rnd s SyncReal).
  Proof.
    intros Hm Hq Ht W. unfold step. rewrite Hm. unfold sync_real. rewrite Hq. cbn [rl ql]. repeat (split; auto).
    exists q. cbn [rl ql rty cty pinf]. split; auto. split; [|split]; auto.
    assert (forall xs, Forall2 adj (map (rnd RConv) xs) xs) as F by (intros; apply Forall2_map_l; intros; apply rnd_adj).
    constructor; simpl; auto.
    induction (mat q); simpl; constructor; auto.
  Qed.

  (* ---- the type arrays: every call of the rational interface keeps them equal to the classification of the
     rational bounds (in SYNCMODE_MANUAL as well), the real interface does not touch them outside SYNCMODE_AUTO *)
  Definition TypesOK (s : state) : Prop := match ql s with Some q => types_ok s q | None => True end.

  Theorem types_step_rational s qo : mode s <> OnlyReal -> Inv s -> TypesOK s -> valid_op rnd s (OQ qo) = true ->
    TypesOK (step rnd s (OQ qo)).
  Proof.
    intros Hm (_ & _ & C & _) HT Hv. unfold TypesOK in *. unfold valid_op in Hv. unfold step. cbv zeta.
    destruct (mode s) eqn:Em; [congruence| |]; destruct (ql s) as [q|] eqn:Hq; try discriminate Hv.
    - apply andb_prop in Hv as [Hv Hv3]. apply andb_prop in Hv as [Hv1 Hv2]. destruct HT as [T1 T2].
      destruct (Q_types (d2q (pinf s)) (eps s) (pmax s) qo q (C q eq_refl) Hv1) as [E W].
      unfold with_lps. cbn [ql]. unfold types_ok. cbn [rty cty pinf]. rewrite T1, T2, E. split; reflexivity.
    - apply andb_prop in Hv as [Hv Hv3]. apply andb_prop in Hv as [Hv1 Hv2]. destruct HT as [T1 T2].
      destruct (Q_types (d2q (pinf s)) (eps s) (pmax s) qo q (C q eq_refl) Hv1) as [E W].
      unfold with_lps. cbn [ql]. unfold types_ok. cbn [rty cty pinf]. rewrite T1, T2, E. split; reflexivity.
  Qed.

  Theorem types_step_real_not_auto s ro : mode s <> Auto -> TypesOK s -> TypesOK (step rnd s (OR ro)).
  Proof.
    intros Hm HT. unfold TypesOK, step in *. cbv zeta. destruct (mode s); [|congruence|]; destruct (ql s); exact HT.
  Qed.
End Main3.

(* ================================================== "the rational LP holds exactly the numbers that were entered" *)
(* the denotation of a call on a rational LP alone: no mode, no real LP, no rounding, no epsilon, no type arrays;
   a double argument stands for its exact value *)
Definition rprims_ideal (pm : bool) (m n : nat) (o : rop) : list (prim dy) :=
  match o with RElem i j x => [PElem i j x] | _ => rprims dzero pm m n o end.
Definition qprims_ideal (pm : bool) (m n : nat) (q : qlp) (o : qop) : list (prim Q) :=
  match o with QElem _ i j x => [PElem i j x] | _ => qprims dzero pm m n q o end.
(* [pm]: the OBJSENSE parameter (clearLP re-applies it) *)
Definition spec_step (pm : bool) (q : qlp) (o : op) : qlp :=
  match o with
  | OR ro => qapplys (map (prim_map d2q) (rprims_ideal pm (nrows q) (ncols q) ro)) q
  | OQ qo => applys (qap_of qo) (qprims_ideal pm (nrows q) (ncols q) q qo) q
  | SetSense mx => qapply (PSense mx) q
  | SetOffset v => if qleb (- d2q dinf) (d2q v) && qleb (d2q v) (d2q dinf) then qapply (POff (d2q v)) q else q
  | _ => q
  end.
Definition spec_pm (pm : bool) (o : op) : bool := match o with SetSense mx => mx | _ => pm end.
Fixpoint spec_run (pm : bool) (q : qlp) (ops : list op) : qlp :=
  match ops with [] => q | o :: t => spec_run (spec_pm pm o) (spec_step pm q o) t end.

Section Exact.
  Variable rnd : rkind -> Q -> dy.

  (* changeElement stores the value (it is not below epsilon; through the GMP entry point: it is not 0) *)
  Definition elem_kept (s : state) (o : op) : Prop :=
    match o with
    | OR (RElem _ _ x) => keep_r (eps s) x = true
    | OQ (QElem false _ _ x) => keep_q (eps s) x = true
    | OQ (QElem true _ _ x) => qnz x = true
    | _ => True
    end.

  Theorem exact_step s o q :
    mode s = Auto -> ql s = Some q -> nrows (rl s) = nrows q -> ncols (rl s) = ncols q ->
    elem_kept s o -> stays_auto o ->
    ql (step rnd s o) = Some (spec_step (pmax s) q o) /\ pmax (step rnd s o) = spec_pm (pmax s) o.
  Proof.
    intros Hm Hq Em En Hk Hs. split.
    - destruct o as [ro|qo| | | |md|v|mx|v]; unfold step; cbv zeta; rewrite ?Hm, ?Hq.
      + unfold with_lps. cbn [ql]. f_equal. unfold spec_step. rewrite Em, En.
        destruct ro; try reflexivity. simpl in Hk. cbn [rprims rprims_ideal]. unfold elem_r. now rewrite Hk.
      + unfold with_lps. cbn [ql]. f_equal. unfold spec_step.
        destruct qo; try reflexivity. cbn [qprims qprims_ideal]. unfold elem_q. destruct g; simpl in Hk; now rewrite Hk.
      + first [exact Hq|reflexivity].
      + first [exact Hq|reflexivity].
      + first [exact Hq|reflexivity].
      + destruct md; simpl in Hs; try contradiction. cbn [ql]. first [exact Hq|reflexivity].
      + destruct (_ && _); first [exact Hq|reflexivity].
      + reflexivity.
      + unfold spec_step. destruct (_ && _); first [exact Hq|reflexivity].
    - destruct o as [ro|qo| | | |md|v|mx|v]; unfold step; cbv zeta; rewrite ?Hm, ?Hq; try reflexivity.
      + destruct md; simpl in Hs; try contradiction. reflexivity.
      + destruct (_ && _); reflexivity.
      + destruct (_ && _); reflexivity.
  Qed.

  Hypothesis rnd_adj : forall k q, adj (rnd k q) q.

  Fixpoint hist_kept (s : state) (ops : list op) : Prop :=
    match ops with [] => True | o :: t => elem_kept s o /\ hist_kept (step rnd s o) t end.

  Theorem exact_history ops : forall s q, mode s = Auto -> InSync s -> ql s = Some q ->
    hist_ok rnd s ops -> hist_kept s ops ->
    ql (run rnd s ops) = Some (spec_run (pmax s) q ops).
  Proof.
    induction ops as [|o t IH]; intros s q Hm HS Hq H K; simpl; auto.
    destruct H as (Hv & Hb & Hs & Ht). destruct K as [K1 K2].
    pose proof HS as (q0 & Hq0 & Hrel & _). rewrite Hq in Hq0. injection Hq0 as <-.
    destruct (exact_step s o q Hm Hq (nrows_rel _ _ _ Hrel) (ncols_rel _ _ _ Hrel) K1 Hs) as [E1 E2].
    rewrite <- E2. apply IH; auto.
    - now apply mode_step.
    - apply auto_step_preserves; auto. intros ->. exact Hs.
  Qed.
End Exact.

(* ================================================================== sufficient conditions for "benign" *)
(* every call of the real interface is benign (since changeRow/Col/Range/BoundsReal classify with the INFTY parameter) *)
Lemma benign_real rnd s ro : benign rnd s (OR ro).
Proof. exact I. Qed.

(* no nonzero entry of the vector underflows to 0.0 *)
Lemma vd_ok_no_underflow rnd v :
  (forall p, In p v -> qnz (snd p) = dnz (rnd RConv (snd p))) -> vd_ok rnd v.
Proof.
  unfold vd_ok. induction v as [|p v IH]; intros H; simpl; auto.
  rewrite <- (H p) by (simpl; auto). rewrite IH; auto. intros; apply H; simpl; auto.
Qed.

(* ====================================================== the type arrays match the rational bounds in every reachable state *)
(* outside SYNCMODE_ONLYREAL (where the arrays are not maintained and every way out recomputes them) *)
Definition TypesInv (s : state) : Prop := mode s <> OnlyReal -> TypesOK s.

Lemma TypesInv_init : TypesInv init.
Proof. intros H. now elim H. Qed.

Lemma TypesOK_same s s' : ql s' = ql s -> rty s' = rty s -> cty s' = cty s -> pinf s' = pinf s -> TypesOK s -> TypesOK s'.
Proof. intros E1 E2 E3 E4. unfold TypesOK, types_ok. rewrite E1, E2, E3, E4. auto. Qed.

Lemma TypesOK_sync_rat s : TypesOK (sync_rat s).
Proof. unfold TypesOK, types_ok, sync_rat. cbn [ql rty cty pinf]. split; reflexivity. Qed.

Section TypesAlways.
  Variable rnd : rkind -> Q -> dy.

  Lemma mode_step_OR s ro : mode (step rnd s (OR ro)) = mode s.
  Proof. unfold step. cbv zeta. destruct (mode s) eqn:E; destruct (ql s); unfold with_lps; cbn [mode]; auto. Qed.
  Lemma mode_step_OQ s qo : mode (step rnd s (OQ qo)) = mode s.
  Proof.
    unfold step. cbv zeta. destruct (mode s) eqn:E; destruct (ql s); auto; try destruct qo; unfold with_lps; cbn [mode]; auto.
  Qed.

  Lemma types_step_real_auto s ro : mode s = Auto -> Inv s -> TypesOK s -> valid_op rnd s (OR ro) = true ->
    TypesOK (step rnd s (OR ro)).
  Proof.
    intros Hm (_ & _ & C & _) HT Hv. unfold valid_op in Hv. rewrite Hm in Hv. unfold TypesOK in *.
    unfold step. cbv zeta. rewrite Hm. destruct (ql s) as [q|] eqn:Hq.
    - apply andb_prop in Hv as [Hv Hv4]. destruct HT as [T1 T2].
      destruct (R_types (d2q (pinf s)) (eps s) (pmax s) (nrows (rl s)) (ncols (rl s)) ro q (C q eq_refl) Hv4) as [E W].
      unfold with_lps. cbn [ql]. unfold types_ok. cbn [rty cty pinf]. rewrite T1, T2. unfold qapplys. rewrite E. split; reflexivity.
    - apply andb_prop in Hv as [_ Hv]. discriminate Hv.
  Qed.

  Theorem types_always s o : Inv s -> TypesInv s -> valid_op rnd s o = true -> TypesInv (step rnd s o).
  Proof.
    intros HI HT Hv Hm'. pose proof HI as (A & B & C & D). destruct o as [ro|qo| | | |md|v|mx|v].
    - rewrite mode_step_OR in Hm'. destruct (mode s) eqn:Hm; [congruence| |].
      + apply types_step_real_auto; auto. apply HT. congruence.
      + apply types_step_real_not_auto; [congruence|]. apply HT. congruence.
    - rewrite mode_step_OQ in Hm'. apply types_step_rational; auto.
    - unfold step in *. destruct (mode s) eqn:Hm; try (apply HT; congruence).
      unfold sync_real in *. destruct (ql s) as [q|] eqn:Hq; [|apply HT; congruence].
      eapply TypesOK_same; [| | | |apply HT; congruence]; cbn [ql rty cty pinf]; auto.
    - unfold step in *. destruct (mode s) eqn:Hm; try (apply HT; congruence). apply TypesOK_sync_rat.
    - unfold step in *. destruct (mode s) eqn:Hm; try (apply HT; congruence). apply TypesOK_sync_rat.
    - unfold step in *. cbv zeta in *. destruct md.
      + cbn [mode] in Hm'. now elim Hm'.
      + destruct (mode s) eqn:Hm.
        * unfold TypesOK, types_ok, sync_rat. cbn [ql rty cty pinf]. split; reflexivity.
        * eapply TypesOK_same; [| | | |apply HT; congruence]; reflexivity.
        * eapply TypesOK_same; [| | | |apply HT; congruence]; reflexivity.
      + destruct (mode s) eqn:Hm.
        * unfold TypesOK, types_ok. cbn [ql rty cty pinf fst snd]. split; reflexivity.
        * assert (TypesOK s) as T by (apply HT; congruence). destruct (ql s) as [q|] eqn:Hq; [|elim D; congruence].
          unfold TypesOK, types_ok in *. rewrite Hq in T. cbn [ql rty cty pinf fst snd]. exact T.
        * assert (TypesOK s) as T by (apply HT; congruence). destruct (ql s) as [q|] eqn:Hq; [|elim D; congruence].
          unfold TypesOK, types_ok in *. rewrite Hq in T. cbn [ql rty cty pinf fst snd]. exact T.
    - unfold step in *. destruct (_ && _); [|now apply HT].
      destruct (mode s) eqn:Hm; destruct (ql s) as [q|] eqn:Hq; cbn [mode] in Hm'; try congruence;
        unfold TypesOK, types_ok; cbn [ql rty cty pinf]; rewrite ?Hq; auto; split; reflexivity.
    - unfold step in *. cbn [mode] in Hm'. specialize (HT Hm'). unfold TypesOK, types_ok in *. cbn [ql rty cty pinf].
      destruct (ql s) as [q|]; simpl; auto.
    - unfold step in *. destruct (_ && _); [|now apply HT]. cbn [mode] in Hm'. specialize (HT Hm').
      unfold TypesOK, types_ok in *. cbn [ql rty cty pinf]. destruct (ql s) as [q|]; simpl; auto.
  Qed.

  Lemma onlyreal_to_manual_types s : mode s = OnlyReal -> TypesOK (step rnd s (SetMode Manual)).
  Proof.
    intros Hm. unfold step. cbv zeta. rewrite Hm. unfold TypesOK, types_ok. cbn [ql rty cty pinf fst snd]. split; reflexivity.
  Qed.
End TypesAlways.

(* ====================================================================== statements the faithful model refutes *)
Definition dI (z : Z) : dy := (z, 0%Z).
Definition d1e20 : dy := (95367431640625%Z, 20%Z).
Definition dm1e30 : dy := ((-3552713678800501)%Z, 48%Z).
Definition d1em20 : dy := (6646139978924579%Z, (-119)%Z).
(* one column 0 <= x0 < infinity with objective 1, one row 0 <= x0 <= 5 *)
Definition base_lp : list op :=
  [OR (RAddCol (dI 1, dI 0, dinf, [])); OR (RAddRow (dI 0, dI 5, [(0, dI 1)]))].

(* (1) INFTY below 1e100 (formerly refuted: changeRangeReal classified with _rangeTypeReal; the row is now UPPER) *)
Definition hist_gap : list op := SetMode Auto :: base_lp ++ [SetInfty d1e20; OR (RRange 0 dm1e30 (dI 1))].
Lemma gap_types_ok rnd :
  valid_run rnd init hist_gap = true /\ mode (run rnd init hist_gap) = Auto /\ TypesOK (run rnd init hist_gap) /\
  rty (run rnd init hist_gap) = [TUpper].
Proof.
  split; [vm_compute; reflexivity|]. split; [vm_compute; reflexivity|].
  unfold TypesOK, types_ok. vm_compute. repeat split; reflexivity.
Qed.

(* (2) ONLYREAL -> MANUAL (formerly refuted: the type arrays of the freed rational LP were kept; the row is now FIXED) *)
Definition hist_stale : list op :=
  SetMode Auto :: base_lp ++ [SetMode OnlyReal; SetMode Manual; OQ (QAddRow false (1%Q, 1%Q, [(0, 2%Q)]))].
Lemma stale_types_ok rnd :
  valid_run rnd init hist_stale = true /\ mode (run rnd init hist_stale) = Manual /\ TypesOK (run rnd init hist_stale) /\
  rty (run rnd init hist_stale) = [TFixed].
Proof.
  split; [vm_compute; reflexivity|]. split; [vm_compute; reflexivity|].
  unfold TypesOK, types_ok. vm_compute. repeat split; reflexivity.
Qed.

(* (3) MANUAL -> AUTO does not synchronise *)
Definition hist_manual_auto : list op := [SetMode Manual; OR (RAddCol (dI 1, dI 0, dinf, [])); SetMode Auto].
Lemma manual_auto_refutes rnd :
  valid_run rnd init hist_manual_auto = true /\ mode (run rnd init hist_manual_auto) = Auto /\
  ~ InSync (run rnd init hist_manual_auto).
Proof.
  split; [vm_compute; reflexivity|]. split; [vm_compute; reflexivity|].
  intros (q & Hq & Hrel & _). apply ncols_rel in Hrel.
  assert (option_map (@ncols Q) (ql (run rnd init hist_manual_auto)) = Some 0) as E by (vm_compute; reflexivity).
  rewrite Hq in E. simpl in E. injection E as E.
  assert (ncols (rl (run rnd init hist_manual_auto)) = 1) as E' by (vm_compute; reflexivity).
  rewrite E, E' in Hrel. discriminate Hrel.
Qed.

(* (4) changeElementReal / changeElementRational with 0 < |value| <= epsilon: the rational LP does not hold the number *)
Definition hist_elem_eps : list op := SetMode Auto :: base_lp ++ [OQ (QElem false 0 0 (1 # 100000000000000000000)%Q)].
Lemma elem_eps_refutes rnd :
  valid_run rnd init hist_elem_eps = true /\
  exists q, ql (run rnd init hist_elem_eps) = Some q /\ ~ (nth 0 (nth 0 (mat q) []) qzero == 1 # 100000000000000000000)%Q.
Proof.
  split; [vm_compute; reflexivity|].
  eexists. split; [vm_compute; reflexivity|]. vm_compute. discriminate.
Qed.
Definition hist_elem_eps_real : list op := SetMode Auto :: base_lp ++ [OR (RElem 0 0 d1em20)].
Lemma elem_eps_real_refutes rnd :
  valid_run rnd init hist_elem_eps_real = true /\
  exists q, ql (run rnd init hist_elem_eps_real) = Some q /\ ~ (nth 0 (nth 0 (mat q) []) qzero == d2q d1em20)%Q.
Proof.
  split; [vm_compute; reflexivity|].
  eexists. split; [vm_compute; reflexivity|]. vm_compute. discriminate.
Qed.

(* (4') changeElementRational(i, j, const mpq_t pointer) with a nonzero value below the double range (formerly dropped from
   the rational LP because the test was on mpq_get_d): the rational LP holds the number *)
Definition hist_elem_gmp_tiny : list op := SetMode Auto :: base_lp ++ [OQ (QElem true 0 0 (Qmake 1 (10 ^ 330)))].
Lemma elem_gmp_tiny_kept rnd :
  valid_run rnd init hist_elem_gmp_tiny = true /\
  exists q, ql (run rnd init hist_elem_gmp_tiny) = Some q /\ nth 0 (nth 0 (mat q) []) qzero = Qmake 1 (10 ^ 330).
Proof.
  split; [vm_compute; reflexivity|].
  eexists. split; [vm_compute; reflexivity|]. vm_compute. reflexivity.
Qed.

(* the remaining witnesses depend on what the conversions return: they are stated for [rnd_impl] *)
Lemma not_adj_zero q d' : is_double d' -> (0 < d2q d' /\ d2q d' <= q)%Q -> ~ adj dzero q.
Proof. intros H [H1 H2]. apply (not_adj_between dzero q d'); auto. Qed.

Definition dmin : dy := (1%Z, (-1074)%Z).       (* the smallest positive double *)

(* (5) changeElementRational(i, j, const mpq_t pointer) with 2^-1074 <= |value| <= epsilon: kept in the rational LP,
   deleted from the real LP *)
Definition hist_elem_gmp : list op := SetMode Auto :: base_lp ++ [OQ (QElem true 0 0 (1 # 100000000000000000000)%Q)].
Lemma elem_gmp_refutes :
  valid_run rnd_impl init hist_elem_gmp = true /\ mode (run rnd_impl init hist_elem_gmp) = Auto /\
  ~ InSync (run rnd_impl init hist_elem_gmp).
Proof.
  split; [vm_compute; reflexivity|]. split; [vm_compute; reflexivity|].
  intros (q & Hq & Hrel & _).
  assert (option_map (@mat Q) (ql (run rnd_impl init hist_elem_gmp)) = Some [[(1 # 100000000000000000000)%Q]]) as E
    by (vm_compute; reflexivity).
  rewrite Hq in E. cbn [option_map] in E. injection E as E.
  assert (mat (rl (run rnd_impl init hist_elem_gmp)) = [[dzero]]) as E' by (vm_compute; reflexivity).
  destruct Hrel as [_ _ _ _ _ Hm _ _]. rewrite E, E' in Hm.
  inversion Hm as [|? ? ? ? H1 _]; subst. inversion H1 as [|? ? ? ? H2 _]; subst.
  revert H2. apply (not_adj_zero _ dmin); [reflexivity|]. split; vm_compute; [reflexivity|discriminate].
Qed.

(* (6) a row whose only entry beyond the current columns underflows: columns are created in the rational LP only *)
Definition hist_underflow : list op :=
  [SetMode Auto; OR (RAddCol (dI 1, dI 0, dinf, []));
   OQ (QAddRow false (0%Q, 1%Q, [(0, (1 # 3)%Q); (3, Qmake 1 (10 ^ 400))]))].
Lemma underflow_refutes :
  valid_run rnd_impl init hist_underflow = true /\ mode (run rnd_impl init hist_underflow) = Auto /\
  ~ InSync (run rnd_impl init hist_underflow).
Proof.
  split; [vm_compute; reflexivity|]. split; [vm_compute; reflexivity|].
  intros (q & Hq & Hrel & _). apply ncols_rel in Hrel.
  assert (option_map (@ncols Q) (ql (run rnd_impl init hist_underflow)) = Some 4) as E by (vm_compute; reflexivity).
  rewrite Hq in E. simpl in E. injection E as E.
  assert (ncols (rl (run rnd_impl init hist_underflow)) = 1) as E' by (vm_compute; reflexivity).
  rewrite E, E' in Hrel. discriminate Hrel.
Qed.

(* ============================================ the sense of both LPs is the OBJSENSE parameter in every reachable state *)
Definition keeps_sense {T} (p : prim T) : bool := match p with PClear | PSense _ => false | _ => true end.

Lemma lmax_papply_keep {T} (tz : T) tneg tnz tinf (p : prim T) l :
  keeps_sense p = true -> lmax (papply tz tneg tnz tinf p l) = lmax l.
Proof.
  destruct p as [[[a b] v]|[[[o a] b] v]|i [[a b] v]|j [[[o a] b] v]|i x|i x|j x|j x|j x|xs|xs|xs|xs|xs|i j x|i|j|m|m| |mx|x];
    simpl; intros H; try discriminate; reflexivity.
Qed.

Lemma lmax_applys_keep {T} (tz : T) tneg tnz tinf ps : forall l,
  forallb keeps_sense ps = true -> lmax (applys (papply tz tneg tnz tinf) ps l) = lmax l.
Proof.
  induction ps as [|p ps IH]; intros l H; simpl; auto.
  simpl in H. apply andb_prop in H as [H1 H2]. unfold applys in *. simpl. rewrite IH; auto. now apply lmax_papply_keep.
Qed.

Lemma lmax_clear_sense {T} (tz : T) tneg tnz tinf pm l :
  lmax (applys (papply tz tneg tnz tinf) [PClear; PSense pm] l) = pm.
Proof. reflexivity. Qed.

Lemma keeps_map {A B} (f : A -> prim B) l : (forall x, keeps_sense (f x) = true) -> forallb keeps_sense (map f l) = true.
Proof. intros H. induction l; simpl; auto. now rewrite H. Qed.

Lemma keeps_prim_map {A B} (f : A -> B) p : keeps_sense (prim_map f p) = keeps_sense p.
Proof.
  destruct p as [[[a b] v]|[[[o a] b] v]|i [[a b] v]|j [[[o a] b] v]|i x|i x|j x|j x|j x|xs|xs|xs|xs|xs|i j x|i|j|m|m| |mx|x]; reflexivity.
Qed.

Lemma keeps_map_prim_map {A B} (f : A -> B) ps : forallb keeps_sense (map (prim_map f) ps) = forallb keeps_sense ps.
Proof. induction ps; simpl; auto. now rewrite keeps_prim_map, IHps. Qed.

Lemma rprims_sense e pm m n ro (ap : prim dy -> rlp -> rlp) :
  (exists nz, ap = papply dzero dneg nz dinf) -> forall l, lmax l = pm -> lmax (applys ap (rprims e pm m n ro) l) = pm.
Proof.
  intros [nz ->] l H. destruct ro; try reflexivity;
    (rewrite lmax_applys_keep; [exact H|]; cbn [rprims forallb keeps_sense andb]; try reflexivity).
  - apply keeps_map. reflexivity.
  - apply keeps_map. reflexivity.
Qed.

Lemma rprims_sense_q e pm m n ro : forall q : qlp, lmax q = pm ->
  lmax (qapplys (map (prim_map d2q) (rprims e pm m n ro)) q) = pm.
Proof.
  intros q H. unfold qapplys, qapply. destruct ro; try reflexivity;
    (rewrite lmax_applys_keep; [exact H|]; rewrite keeps_map_prim_map; cbn [rprims forallb keeps_sense andb]; try reflexivity).
  - apply keeps_map. reflexivity.
  - apply keeps_map. reflexivity.
Qed.

Lemma qprims_sense e pm (q0 : qlp) qo : forall q : qlp, lmax q = pm ->
  lmax (applys (qap_of qo) (qprims e pm (nrows q0) (ncols q0) q0 qo) q) = pm.
Proof.
  intros q H. rewrite qap_of_eq. destruct qo; try reflexivity;
    (rewrite lmax_applys_keep; [exact H|]; cbn [qprims forallb keeps_sense andb]; try reflexivity).
  - apply keeps_map. reflexivity.
  - apply keeps_map. reflexivity.
Qed.

Lemma qrprims_sense rnd e pm m n q' qo : forall l : rlp, lmax l = pm ->
  lmax (applys (rap_of qo) (qrprims rnd e m n q' pm qo) l) = pm.
Proof.
  intros l H. rewrite rap_of_eq. destruct qo; try destruct g; try reflexivity;
    (rewrite lmax_applys_keep; [exact H|]; cbn [qrprims forallb keeps_sense andb]; try reflexivity).
  all: apply keeps_map; intros; reflexivity.
Qed.

Definition SenseOK (s : state) : Prop := lmax (rl s) = pmax s /\ forall q, ql s = Some q -> lmax q = pmax s.

Lemma SenseOK_init : SenseOK init.
Proof. split; [reflexivity|discriminate]. Qed.

Theorem step_SenseOK rnd s o : SenseOK s -> SenseOK (step rnd s o).
Proof.
  intros HS. pose proof HS as [A B]. destruct o as [ro|qo| | | |md|v|mx|v]; unfold step; cbv zeta.
  - assert (lmax (rapplys (rprims (eps s) (pmax s) (nrows (rl s)) (ncols (rl s)) ro) (rl s)) = pmax s) as A'.
    { apply rprims_sense; auto. exists dnz. reflexivity. }
    destruct (mode s); destruct (ql s) as [q|] eqn:Hq; unfold with_lps; split; cbn [rl ql pmax]; auto; try discriminate.
    intros ? E. injection E as <-. apply rprims_sense_q. now apply B.
  - destruct (mode s); destruct (ql s) as [q|] eqn:Hq; try exact HS.
    + destruct qo; try exact HS. unfold with_lps; split; cbn [rl ql pmax]; auto.
      intros ? E. injection E as <-. reflexivity.
    + unfold with_lps; split; cbn [rl ql pmax].
      * now apply qrprims_sense.
      * intros ? E. injection E as <-. apply qprims_sense. now apply B.
    + unfold with_lps; split; cbn [rl ql pmax]; auto.
      intros ? E. injection E as <-. apply qprims_sense. now apply B.
  - destruct (mode s); try exact HS. unfold sync_real. destruct (ql s) as [q|] eqn:Hq; [|exact HS].
    split; cbn [rl ql pmax]; auto. simpl. now apply B.
  - destruct (mode s); try exact HS. unfold sync_rat. split; cbn [rl ql pmax]; auto.
    intros ? E. injection E as <-. simpl. exact A.
  - destruct (mode s); try exact HS. unfold sync_rat. split; cbn [rl ql pmax]; auto.
    intros ? E. injection E as <-. simpl. exact A.
  - destruct md.
    + split; cbn [rl ql pmax]; auto. discriminate.
    + destruct (mode s); unfold sync_rat; split; cbn [rl ql pmax]; auto.
      intros ? E. injection E as <-. simpl. exact A.
    + split; cbn [rl ql pmax]; auto. intros ? E. injection E as <-. simpl. exact A.
  - destruct (_ && _); [|exact HS].
    destruct (mode s); destruct (ql s) as [q|] eqn:Hq; split; cbn [rl ql pmax]; auto; try discriminate;
      intros ? E; rewrite <- E in *; auto.
  - split; cbn [rl ql pmax]; [reflexivity|]. intros q E. destruct (ql s); simpl in E; [|discriminate].
    injection E as <-. reflexivity.
  - destruct (_ && _); [|exact HS]. split; cbn [rl ql pmax]; auto.
    intros q E. destruct (ql s) as [q0|] eqn:Hq; simpl in E; [|discriminate]. injection E as <-. simpl. now apply B.
Qed.

(* ====================================================== an oracle that satisfies the adjacency hypothesis *)
(* truncation towards zero, saturating at the largest double; computed on the integer grid 2^-1074 *)
Local Open Scope Z_scope.
Definition scale (d : dy) : Z := fst d * 2 ^ (snd d + 1074).
Definition trunc_pos (n : Z) (dp : positive) : dy :=
  let N := (n * 2 ^ 1074) / Zpos dp in
  let s := Z.max 0 (Z.log2 N - 52) in
  if s <=? 2045 then (N / 2 ^ s, s - 1074) else (2 ^ 53 - 1, 971).
Definition rnd_sat (k : rkind) (q : Q) : dy :=
  if 0 <=? Qnum q then trunc_pos (Qnum q) (Qden q) else dneg (trunc_pos (- Qnum q) (Qden q)).

Lemma d2q_scale d : -1074 <= snd d -> (d2q d * inject_Z (2 ^ 1074) == inject_Z (scale d))%Q.
Proof.
  destruct d as [m e]. unfold d2q, scale. cbn [fst snd]. intros He. destruct (Z.leb_spec 0 e) as [H|H].
  - rewrite <- inject_Z_mult. rewrite Z.pow_add_r by lia. rewrite Z.mul_assoc. reflexivity.
  - unfold Qeq, Qmult, inject_Z. cbn [Qnum Qden]. rewrite Pos.mul_1_r.
    assert (0 < 2 ^ (- e)) as P by (apply Z.pow_pos_nonneg; lia).
    rewrite Z2Pos.id by exact P. rewrite Z.mul_1_r. rewrite <- Z.mul_assoc. f_equal.
    rewrite <- Z.pow_add_r by lia. f_equal. lia.
Qed.

Lemma pow1074_pos : (0 < inject_Z (2 ^ 1074))%Q.
Proof. unfold Qlt, inject_Z. simpl. lia. Qed.

Lemma scale_lt a b : -1074 <= snd a -> -1074 <= snd b -> (d2q a < d2q b)%Q -> scale a < scale b.
Proof.
  intros Ha Hb H. pose proof (d2q_scale a Ha) as Ea. pose proof (d2q_scale b Hb) as Eb.
  pose proof pow1074_pos as P.
  assert (inject_Z (scale a) < inject_Z (scale b))%Q as L.
  { rewrite <- Ea, <- Eb. apply Qmult_lt_compat_r; auto. }
  rewrite <- Zlt_Qlt in L. exact L.
Qed.

Lemma scale_le_floor d n dp : -1074 <= snd d -> (d2q d <= n # dp)%Q -> scale d <= (n * 2 ^ 1074) / Zpos dp.
Proof.
  intros Hd H. pose proof (d2q_scale d Hd) as E. pose proof pow1074_pos as P.
  assert (inject_Z (scale d) <= (n # dp) * inject_Z (2 ^ 1074))%Q as L.
  { rewrite <- E. apply Qmult_le_compat_r; auto. apply Qlt_le_weak; auto. }
  unfold Qle, Qmult, inject_Z in L. cbn [Qnum Qden] in L. rewrite Pos.mul_1_r, Z.mul_1_r in L.
  apply Z.div_le_lower_bound; lia.
Qed.

Lemma floor_le_q d n dp : -1074 <= snd d -> scale d <= (n * 2 ^ 1074) / Zpos dp -> (d2q d <= n # dp)%Q.
Proof.
  intros Hd H. pose proof (d2q_scale d Hd) as E. pose proof pow1074_pos as P.
  assert (inject_Z (scale d) <= (n # dp) * inject_Z (2 ^ 1074))%Q as L.
  { unfold Qle, Qmult, inject_Z. cbn [Qnum Qden]. rewrite Pos.mul_1_r, Z.mul_1_r.
    pose proof (Z.mul_div_le (n * 2 ^ 1074) (Zpos dp) ltac:(lia)) as M. nia. }
  rewrite <- E in L. apply Qmult_le_r in L; auto.
Qed.

(* no double lies strictly between the truncation of N to 53 significant bits and N (on the grid 2^-1074) *)
Lemma trunc_core N m' k : 0 <= N -> Z.abs m' < 2 ^ 53 -> 0 <= k ->
  let s := Z.max 0 (Z.log2 N - 52) in
  ~ ((N / 2 ^ s) * 2 ^ s < m' * 2 ^ k /\ m' * 2 ^ k <= N).
Proof.
  intros HN Hm Hk s [H1 H2].
  assert (0 <= s) as Hs by (unfold s; lia).
  assert (0 < 2 ^ s) as Ps by (apply Z.pow_pos_nonneg; lia).
  destruct (Z.le_gt_cases s k) as [C|C].
  - replace k with ((k - s) + s) in H1, H2 by lia. rewrite Z.pow_add_r in H1, H2 by lia.
    rewrite Z.mul_assoc in H1, H2. set (x := m' * 2 ^ (k - s)) in *.
    assert (x <= N / 2 ^ s) as L by (apply Z.div_le_lower_bound; lia). nia.
  - assert (s = Z.log2 N - 52) as Es by (unfold s in *; lia).
    assert (0 < N) as PN. { destruct (Z.eq_dec N 0) as [->|]; [simpl in Es; lia|lia]. }
    pose proof (Z.log2_spec N PN) as [L1 L2].
    assert (2 ^ 52 * 2 ^ s <= N) as B. { rewrite <- Z.pow_add_r by lia. replace (52 + s) with (Z.log2 N) by lia. exact L1. }
    assert (2 ^ 52 <= N / 2 ^ s) as B' by (apply Z.div_le_lower_bound; lia).
    assert (2 ^ k <= 2 ^ (s - 1)) as Pk by (apply Z.pow_le_mono_r; lia).
    assert (2 ^ s = 2 * 2 ^ (s - 1)) as E2. { replace s with (1 + (s - 1)) at 1 by lia. rewrite Z.pow_add_r by lia. reflexivity. }
    assert (0 < 2 ^ k) as Pk' by (apply Z.pow_pos_nonneg; lia).
    assert (m' < 2 ^ 53) as Hm' by lia.
    assert (m' * 2 ^ k <= 2 ^ 52 * 2 ^ s) as U.
    { destruct (Z.le_gt_cases m' 0) as [Q|Q]; [nia|].
      apply Z.le_trans with (2 ^ 53 * 2 ^ (s - 1)); [nia|]. rewrite E2. change (2 ^ 53) with (2 * 2 ^ 52). lia. }
    nia.
Qed.

Lemma trunc_small N : 0 <= N -> let s := Z.max 0 (Z.log2 N - 52) in 0 <= N / 2 ^ s < 2 ^ 53.
Proof.
  intros HN s. assert (0 <= s) as Hs by (unfold s; lia).
  assert (0 < 2 ^ s) as Ps by (apply Z.pow_pos_nonneg; lia).
  split. { apply Z.div_pos; lia. }
  destruct (Z.eq_dec N 0) as [->|NZ]. { rewrite Z.div_0_l by lia. reflexivity. }
  pose proof (Z.log2_spec N ltac:(lia)) as [L1 L2].
  apply Z.div_lt_upper_bound; [lia|].
  rewrite <- Z.pow_add_r by lia.
  apply Z.lt_le_trans with (2 ^ Z.succ (Z.log2 N)); auto.
  apply Z.pow_le_mono_r; unfold s; lia.
Qed.

Lemma trunc_pos_adj n dp : 0 <= n -> adj (trunc_pos n dp) (n # dp).
Proof.
  intros Hn. unfold trunc_pos.
  set (N := (n * 2 ^ 1074) / Zpos dp). set (s := Z.max 0 (Z.log2 N - 52)).
  assert (0 <= N) as HN by (unfold N; apply Z.div_pos; lia).
  assert (0 <= s) as Hs by (unfold s; lia).
  assert (0 < 2 ^ s) as Ps by (apply Z.pow_pos_nonneg; lia).
  destruct (Z.leb_spec s 2045) as [C|C].
  - pose proof (trunc_small N HN) as T. fold s in T.
    assert (is_double (N / 2 ^ s, s - 1074)) as D.
    { unfold is_double, is_doubleb. destruct T as [T1 T2]. rewrite Z.abs_eq by exact T1.
      rewrite (proj2 (Z.ltb_lt _ _) T2).
      assert (-1074 <=? s - 1074 = true) as A1 by (apply Z.leb_le; lia).
      assert (s - 1074 <=? 971 = true) as A2 by (apply Z.leb_le; lia).
      rewrite A1, A2. reflexivity. }
    assert (scale (N / 2 ^ s, s - 1074) = (N / 2 ^ s) * 2 ^ s) as Esc.
    { unfold scale. cbn [fst snd]. f_equal. f_equal. lia. }
    assert (d2q (N / 2 ^ s, s - 1074)%Z <= n # dp)%Q as Le.
    { apply floor_le_q; [cbn [snd]; lia|]. rewrite Esc. fold N. rewrite Z.mul_comm. apply Z.mul_div_le. lia. }
    split; auto. intros [m' e'] Hd'. unfold is_double, is_doubleb in Hd'.
    apply andb_prop in Hd' as [Hd' H3]. apply andb_prop in Hd' as [H1 H2].
    apply Z.ltb_lt in H1. apply Z.leb_le in H2. apply Z.leb_le in H3.
    split; intros [X Y].
    + apply scale_lt in X; [|cbn [snd]; lia|cbn [snd]; lia].
      apply scale_le_floor in Y; [|cbn [snd]; lia]. fold N in Y. rewrite Esc in X.
      unfold scale in X, Y. cbn [fst snd] in X, Y.
      apply (trunc_core N m' (e' + 1074)); auto; try lia.
    + lra.
  - (* saturation *)
    assert (is_double (2 ^ 53 - 1, 971)) as D by reflexivity.
    assert (Z.log2 N > 2097) as LN by (unfold s in C; lia).
    assert (0 < N) as PN. { destruct (Z.eq_dec N 0) as [E|]; [rewrite E in LN; simpl in LN; lia|lia]. }
    pose proof (Z.log2_spec N PN) as [L1 L2].
    assert (2 ^ 2098 <= N) as Big. { apply Z.le_trans with (2 ^ Z.log2 N); auto. apply Z.pow_le_mono_r; lia. }
    assert (scale (2 ^ 53 - 1, 971) = (2 ^ 53 - 1) * 2 ^ 2045) as Esc by reflexivity.
    assert (d2q (2 ^ 53 - 1, 971)%Z <= n # dp)%Q as Le.
    { apply floor_le_q; [cbn [snd]; lia|]. rewrite Esc. fold N.
      apply Z.le_trans with (2 ^ 2098); auto. change (2 ^ 2098) with (2 ^ 53 * 2 ^ 2045).
      assert (0 < 2 ^ 2045) by (apply Z.pow_pos_nonneg; lia). nia. }
    split; auto. intros [m' e'] Hd'. unfold is_double, is_doubleb in Hd'.
    apply andb_prop in Hd' as [Hd' H3]. apply andb_prop in Hd' as [H1 H2].
    apply Z.ltb_lt in H1. apply Z.leb_le in H2. apply Z.leb_le in H3.
    split; intros [X Y].
    + apply scale_lt in X; [|cbn [snd]; lia|cbn [snd]; lia]. rewrite Esc in X.
      unfold scale in X. cbn [fst snd] in X.
      assert (2 ^ (e' + 1074) <= 2 ^ 2045) as Pk by (apply Z.pow_le_mono_r; lia).
      assert (0 < 2 ^ (e' + 1074)) as Pk' by (apply Z.pow_pos_nonneg; lia).
      assert (m' <= 2 ^ 53 - 1) by lia.
      destruct (Z.le_gt_cases m' 0) as [Q|Q]; [nia|].
      assert (m' * 2 ^ (e' + 1074) <= (2 ^ 53 - 1) * 2 ^ 2045) by (apply Z.mul_le_mono_nonneg; lia). lia.
    + lra.
Qed.

Theorem rnd_sat_adj : forall k q, adj (rnd_sat k q) q.
Proof.
  intros k [n dp]. unfold rnd_sat. cbn [Qnum Qden]. destruct (Z.leb_spec 0 n) as [H|H].
  - now apply trunc_pos_adj.
  - apply (adj_Qeq _ (- (- n # dp))%Q).
    + unfold Qeq, Qopp. cbn [Qnum Qden]. lia.
    + apply adj_neg. apply trunc_pos_adj. lia.
Qed.
