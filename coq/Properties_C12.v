(* C12 - LP/MPS files round-trip to an equivalent LP; numeric literals are read exactly.
   Property theorems only; each is closed by [exact] of a lemma proved in Literal_Proofs.v / LPFile_Proofs.v.

   What is proved here is about the models (LiteralModel.v: grammar, denotation, the intended and the coded
   ratFromString, correctly rounded doubles, the rational printer; LPFileModel.v: the writers' normalisations).  The
   models are tied to /repo by checks/C12.py on every run (bounded-exhaustive literals, random round trips). *)
From Coq Require Import ZArith QArith Qabs Bool List Ascii Lia.
From SV Require Import Dbl LiteralModel Literal_Proofs Rounding_Proofs LPFileModel LPFile_Proofs DualModel Dual_Proofs.
Import ListNotations.
Local Open Scope Q_scope.

(* ------------------------------------------------------------------ numeric literals *)

(* Positional semantics of the grammar: the literal  sign? d1..dk (. f1..fm)? ([eE] sign? x1..xn)?  with at least one
   mantissa digit is accepted by [denote] and denotes  +-(sum d_i 10^(k-i) + sum f_j 10^-j) * 10^(+-x), for digit
   lists of every length. *)
Theorem C12_denote_decimal :
  forall s ip f e,
    all_digits ip -> match f with Some fp => all_digits fp | None => True end -> exp_wf e ->
    ip ++ frac_digits f <> [] ->
    exists q, denote (lit_chars s ip f e) = Some q /\ q == lit_value s ip f e.
Proof. exact denote_decimal_lemma. Qed.
Print Assumptions C12_denote_decimal.

(* ... and  sign? n1..nk / d1..dm  denotes the quotient of the two integers. *)
Theorem C12_denote_fraction :
  forall s np dp,
    all_digits np -> all_digits dp -> np <> [] -> dp <> [] -> int_part dp <> 0%Z ->
    denote (sign_chars s ++ render np ++ "/"%char :: render dp) =
    Some (apply_sign (sign_neg s) (int_part np # Z.to_pos (int_part dp))).
Proof. exact denote_fraction_lemma. Qed.
Print Assumptions C12_denote_fraction.

(* The rational printer (num or num/den, what writeFileRational emits through operator<<) is read back to the same
   rational: exact round trip of every value of a rational LP. *)
Theorem C12_print_parse_rational :
  forall q, exists q', denote (print_q q) = Some q' /\ q' == q.
Proof. exact print_parse_rational_lemma. Qed.
Print Assumptions C12_print_parse_rational.

(* The symbolic form (sign, numerator, denominator, decimal exponent) that the model runner uses for long exponents
   accepts exactly the strings [denote] accepts and names the same rational. *)
Theorem C12_denote_sci_agrees :
  forall s, match denote_sci s, denote s with
            | Some t, Some q => q == sci_val t
            | None, None => True
            | _, _ => False
            end.
Proof. exact denote_sci_spec. Qed.
Print Assumptions C12_denote_sci_agrees.

(* Two correctly rounded doubles of the same rational are equal, or the rational lies exactly half way between
   them (and then ties-to-even selects one: see nearest_double). *)
Theorem C12_nearest_double_unique_up_to_tie :
  forall q m1 e1 m2 e2,
    closest q m1 e1 -> closest q m2 e2 ->
    dyadic_val m1 e1 == dyadic_val m2 e2 \/
    (dyadic_val m1 e1 + dyadic_val m2 e2 == 2 * q /\ Qabs (q - dyadic_val m1 e1) == Qabs (q - dyadic_val m2 e2)).
Proof. exact closest_unique_up_to_tie. Qed.
Print Assumptions C12_nearest_double_unique_up_to_tie.

(* The executable rounding check used by the correspondence (extracted) is sound: what it accepts is a closest
   double among all finite binary64 numbers. *)
Theorem C12_nearest_doubleb_sound :
  forall q m0 e0, nearest_doubleb q m0 e0 = true ->
    exists m e, dyadic_val m e == dyadic_val m0 e0 /\ closest q m e.
Proof. exact nearest_doubleb_sound. Qed.
Print Assumptions C12_nearest_doubleb_sound.

(* ... and so is the underflow shortcut: |q| <= 2^-1075 rounds to zero. *)
Theorem C12_underflowsb_sound :
  forall q, underflowsb q = true -> closest q 0 (-1074).
Proof. exact underflowsb_sound. Qed.
Print Assumptions C12_underflowsb_sound.

(* "In rational read mode every literal becomes exactly the rational it denotes" is REFUTED for ratFromString as it
   is coded (model rat_code, tied to src/soplex/rational.h by the correspondence): whatever finite double the C
   library returns for pow(10,-1), the literal 1e-1 is stored as a dyadic rational, never as 1/10. *)
Theorem C12_ratFromString_exact_refuted :
  forall pw : Z -> dbl, (exists m e, pw (-1)%Z = DFin m e) ->
  exists lit q, denote lit = Some q /\ exists a, outcome_val (rat_code pw lit) = Some a /\ ~ a == q.
Proof. exact ratFromString_exact_refuted_lemma. Qed.
Print Assumptions C12_ratFromString_exact_refuted.

(* Three more witnesses on the code model, each replayed on the implementation by the check:
   "-0.0" throws (the LP reader then silently keeps the value 1), "1e400" converts +infinity to a Rational (SIGFPE),
   "1e23" is off by 8388608. *)
Theorem C12_ratFromString_neg_zero_refuted :
  forall pw, rat_code pw lit_m0p0 = OThrow /\ lpf_value pw lit_m0p0 = OVal 1 1 /\
             exists q, denote lit_m0p0 = Some q /\ q == 0.
Proof. exact rat_code_neg_zero. Qed.
Print Assumptions C12_ratFromString_neg_zero_refuted.

Theorem C12_ratFromString_overflow_refuted :
  forall pw, pw 400%Z = DPInf -> rat_code pw lit_1e400 = OCrash /\ exists q, denote lit_1e400 = Some q.
Proof. exact rat_code_overflow. Qed.
Print Assumptions C12_ratFromString_overflow_refuted.

Theorem C12_ratFromString_1e23_refuted :
  forall pw, pw 23%Z = DFin 5960464477539063 24 ->
    rat_code pw lit_1e23 = OVal 100000000000000008388608 1 /\
    exists q, denote lit_1e23 = Some q /\ q == inject_Z (10 ^ 23).
Proof. exact rat_code_1e23. Qed.
Print Assumptions C12_ratFromString_1e23_refuted.

(* ------------------------------------------------------------------ writer normalisations *)

(* LP format: splitting every ranged row into  name_1 (>= lhs)  and  name_2 (<= rhs)  gives an equivalent LP
   (same sense, same feasible set, same objective function), for LPs of every size. *)
Theorem C12_split_ranges_equiv : forall p, equiv_lp (split_ranges p) p.
Proof. exact split_ranges_equiv. Qed.
Print Assumptions C12_split_ranges_equiv.

(* MPS format: a maximisation problem is written as the minimisation of the negated objective: same feasible set,
   negated objective, hence the same optimal solutions. *)
Theorem C12_mps_max_to_min_equiv :
  forall p,
    l_sense (mps_max_to_min p) = Min /\
    (forall x, feasible (mps_max_to_min p) x <-> feasible p x) /\
    (forall x, objective (mps_max_to_min p) x == match l_sense p with Min => objective p x | Max => - objective p x end) /\
    (forall x, optimal (mps_max_to_min p) x <-> optimal p x).
Proof. exact mps_max_to_min_equiv. Qed.
Print Assumptions C12_mps_max_to_min_equiv.

(* Neither format stores the objective offset: the objective of the re-read LP differs by that constant, the
   feasible set and the optimal solutions are the same. *)
Theorem C12_drop_offset_same_optimal :
  forall p x, (feasible (drop_offset p) x <-> feasible p x) /\
              objective (drop_offset p) x == objective p x - l_offset p /\
              (optimal (drop_offset p) x <-> optimal p x).
Proof. intros p x. exact (conj (drop_offset_feasible p x) (conj (drop_offset_objective p x) (drop_offset_optimal p x))). Qed.
Print Assumptions C12_drop_offset_same_optimal.

(* Without writeZeroObjective a column with zero cost and no row entry is not written.  Restricting a feasible point
   to the written columns is feasible for the reduced LP with the same objective value ... *)
Theorem C12_drop_unused_project :
  forall p x, feasible p x ->
    feasible (drop_unused p) (mask (used_mask p) x) /\
    objective (drop_unused p) (mask (used_mask p) x) == objective p x.
Proof. exact drop_unused_project. Qed.
Print Assumptions C12_drop_unused_project.

(* ... and every feasible point of the reduced LP extends to one of the original LP with the same objective value,
   provided the bounds of the dropped columns are not contradictory. *)
Theorem C12_drop_unused_extend :
  forall p x',
    (forall j c, nth j (used_mask p) true = false -> nth_error (l_cols p) j = Some c -> bounds_nonempty c) ->
    feasible (drop_unused p) x' ->
    let x := unmask (used_mask p) (l_cols p) x' in
    feasible p x /\ objective p x == objective (drop_unused p) x' /\ mask (used_mask p) x = x'.
Proof. exact drop_unused_extend. Qed.
Print Assumptions C12_drop_unused_extend.

(* Composition for the files as written with writeZeroObjective: the LP-format image and the MPS image have exactly
   the optimal solutions of the LP that was written. *)
Theorem C12_file_images_same_optimal :
  forall p x, (optimal (lpf_image true p) x <-> optimal p x) /\ (optimal (mps_image true p) x <-> optimal p x).
Proof. exact file_images_same_optimal. Qed.
Print Assumptions C12_file_images_same_optimal.

(* ------------------------------------------------------------------ non-vacuity *)

Definition ex_ip : list Z := [1; 2]%Z.
Definition ex_fp : list Z := [5; 0]%Z.
Definition ex_ed : list Z := [0; 3]%Z.

Example C12_ex_literal :
  denote (lit_chars (Some true) ex_ip (Some ex_fp) (Some (true, Some true, ex_ed))) = Some (- ((1250 # 100) * (1 # 1000))) /\
  lit_chars (Some true) ex_ip (Some ex_fp) (Some (true, Some true, ex_ed)) =
  ["-"; "1"; "2"; "."; "5"; "0"; "E"; "-"; "0"; "3"]%char /\
  all_digits ex_ip /\ all_digits ex_fp /\ exp_wf (Some (true, Some true, ex_ed)).
Proof.
  split; [vm_compute; reflexivity|]. split; [vm_compute; reflexivity|].
  unfold all_digits, exp_wf, ex_ip, ex_fp, ex_ed. repeat split; repeat constructor; try discriminate.
Qed.

Example C12_ex_print : print_q (-(30 # 4)) = ["-"; "1"; "5"; "/"; "2"]%char /\ print_q (12 # 4) = ["3"]%char.
Proof. split; vm_compute; reflexivity. Qed.

Example C12_ex_nearest :
  nearest_doubleb (1 # 10) 3602879701896397 (-55) = true /\ nearest_doubleb (1 # 10) 3602879701896398 (-55) = false /\
  nearest_doubleb (inject_Z (2 ^ 53 + 1)) (2 ^ 52) 1 = true /\ nearest_doubleb (inject_Z (2 ^ 53 + 1)) (2 ^ 52 + 1) 1 = false.
Proof. repeat split; vm_compute; reflexivity. Qed.

Definition ex_lp : lp :=
  mkLP Max 3 [mkCol 1 (Some 0) None; mkCol (-(3 # 2)) None None; mkCol 0 (Some 1) (Some 5)]
       [mkRow (Some 1) [1; 2; 0] None; mkRow (Some 1) [1; 0; 0] (Some 4); mkRow None [0; 0; 0] (Some 5)].

Example C12_ex_split : length (l_rows (split_ranges ex_lp)) = 4%nat /\ feasible ex_lp [1; 0; 2].
Proof.
  split; [reflexivity|]. unfold feasible, ex_lp; cbn. split.
  - repeat constructor; unfold col_ok, lo_ok, up_ok; cbn; try split; auto; try discriminate.
  - repeat constructor; unfold row_ok, lo_ok, up_ok; cbn; try split; auto; try discriminate.
Qed.

Example C12_ex_drop : used_mask ex_lp = [true; true; false] /\ length (l_cols (lpf_image false ex_lp)) = 2%nat.
Proof. split; vm_compute; reflexivity. Qed.

(* ------------------------------------------------------------------ the dual writer *)

(* The LP that writeDualFileReal writes is built by buildDualProblem, modelled as [dual_of] (DualModel.v) and compared with the
   code exactly on every run.  It is a dual in the sense that matters: for every LP (any mix of free / one-sided / boxed / fixed
   columns, with zero or non-zero bounds; free, one-sided, equality and ranged rows; min and max) every feasible point of the
   dual LP bounds every feasible point of the primal LP ... *)
Theorem C12_dual_writer_weak_duality :
  forall p x z, feasible p x -> feasible (dual_of p) z ->
    sle (l_sense p) (objective (dual_of p) z) (objective p x - l_offset p).
Proof. exact dual_weak_duality. Qed.
Print Assumptions C12_dual_writer_weak_duality.

(* ... so that equal values - what every run observes on the solved pair - certify that both points are optimal. *)
Theorem C12_dual_writer_equal_values_optimal :
  forall p x z, feasible p x -> feasible (dual_of p) z -> objective (dual_of p) z == objective p x - l_offset p ->
    optimal p x /\ optimal (dual_of p) z.
Proof. exact dual_equal_values_optimal. Qed.
Print Assumptions C12_dual_writer_equal_values_optimal.

(* non-vacuity: min 2x + 3y, x + y >= 2, x in [1, 4], y >= 0: dual max 2u + v - 4w with u + v + w <= 2 ... ; values agree at 4 *)
Definition ex_dp : lp := mkLP Min 0 [mkCol 2 (Some 1) (Some 4); mkCol 3 (Some 0) None] [mkRow (Some 2) [1; 1] None].
Example C12_ex_dual :
  length (l_cols (dual_of ex_dp)) = 3%nat /\ length (l_rows (dual_of ex_dp)) = 2%nat /\ l_sense (dual_of ex_dp) = Max /\
  objective (dual_of ex_dp) [0; 0; 2] == 4 /\ objective ex_dp [2; 0] == 4.
Proof. repeat split; vm_compute; reflexivity. Qed.
Example C12_ex_dual_feasible : feasible ex_dp [2; 0] /\ feasible (dual_of ex_dp) [0; 0; 2].
Proof.
  unfold feasible. vm_compute. repeat split; repeat constructor; cbn; unfold Qle; cbn; try lia; try discriminate.
Qed.
