(* C19 - lemmas about ContainersModel.v: IdxSet (no duplicates, stable prefix on removal), NameSet (lookup returns
   the registered number / key, removed names are gone), SVSet growth, DataHashTable.  Qed-closed, no axioms. *)
From Coq Require Import List ZArith Bool Lia Permutation.
From SV Require Import DataSetModel DataSet_Proofs ContainersModel.
Import ListNotations.
Local Open Scope Z_scope.

(* ------------------------------------------------------------------ small helpers *)
Lemma andb_range_true n m : 0 <= n < m -> (0 <=? n) && (n <? m) = true.
Proof. intros H. apply andb_true_iff. split; [apply Z.leb_le | apply Z.ltb_lt]; lia. Qed.

Lemma andb_range_false n m : ~ (0 <= n < m) -> (0 <=? n) && (n <? m) = false.
Proof.
  intros H. destruct ((0 <=? n) && (n <? m)) eqn:E; [|reflexivity].
  apply andb_true_iff in E. destruct E as [E1 E2]. apply Z.leb_le in E1. apply Z.ltb_lt in E2. lia.
Qed.

Lemma zlen_length {A} (l : list A) : Z.to_nat (zlen l) = length l.
Proof. unfold zlen. apply Nat2Z.id. Qed.

Lemma zlen_nil {A} : zlen (@nil A) = 0.
Proof. reflexivity. Qed.

Lemma list_rev_case {A} (l : list A) : l = [] \/ exists l' a, l = l' ++ [a].
Proof. induction l as [|x l _] using rev_ind; [left; reflexivity | right; exists l, x; reflexivity]. Qed.

Lemma NoDup_snoc {A} (l : list A) a : ~ In a l -> NoDup l -> NoDup (l ++ [a]).
Proof.
  intros Hn Hd. apply (Permutation_NoDup (l := a :: l)); [apply Permutation_cons_append | constructor; assumption].
Qed.

(* ------------------------------------------------------------------ remove(n): the last entry fills the hole *)
Definition g_remove_pos {A} (l : list A) (n : Z) : list A :=
  if (0 <=? n) && (n <? zlen l) then
    match rev l with
    | [] => l
    | lst :: _ => if n =? zlen l - 1 then removelast l else setn (removelast l) n lst
    end
  else l.

Lemma is_remove_pos_g l n : is_remove_pos l n = g_remove_pos l n.
Proof. reflexivity. Qed.

Lemma a_remove_g {D} n (a : list (Z * D)) : a_remove n a = g_remove_pos a n.
Proof. reflexivity. Qed.

Lemma g_remove_pos_last {A} (l1 : list A) e : g_remove_pos (l1 ++ [e]) (zlen l1) = l1.
Proof.
  unfold g_remove_pos. pose proof (zlen_nonneg l1). rewrite zlen_app. change (zlen [e]) with 1.
  rewrite andb_range_true by lia. rewrite rev_app_distr. cbn [rev app].
  replace (zlen l1 =? zlen l1 + 1 - 1) with true by (symmetry; apply Z.eqb_eq; lia).
  apply removelast_last.
Qed.

Lemma g_remove_pos_mid {A} (l1 : list A) e l2 lst :
  g_remove_pos (l1 ++ e :: l2 ++ [lst]) (zlen l1) = l1 ++ lst :: l2.
Proof.
  unfold g_remove_pos. pose proof (zlen_nonneg l1). pose proof (zlen_nonneg l2).
  replace (l1 ++ e :: l2 ++ [lst]) with ((l1 ++ e :: l2) ++ [lst]) by (rewrite <- app_assoc; reflexivity).
  rewrite !zlen_app, zlen_cons. change (zlen [lst]) with 1.
  rewrite andb_range_true by lia. rewrite rev_app_distr. cbn [rev app]. rewrite removelast_last.
  replace (zlen l1 =? zlen l1 + (zlen l2 + 1) + 1 - 1) with false by (symmetry; apply Z.eqb_neq; lia).
  apply setn_app_mid.
Qed.

Lemma g_remove_pos_oob {A} (l : list A) n : ~ (0 <= n < zlen l) -> g_remove_pos l n = l.
Proof. intros H. unfold g_remove_pos. rewrite andb_range_false by exact H. reflexivity. Qed.

Lemma g_remove_pos_split {A} (d : A) l n : 0 <= n < zlen l ->
  exists l1 e l2, l = l1 ++ e :: l2 /\ zlen l1 = n /\ getn d l n = e /\
    ((l2 = [] /\ g_remove_pos l n = l1) \/
     (exists l2' lst, l2 = l2' ++ [lst] /\ g_remove_pos l n = l1 ++ lst :: l2')).
Proof.
  intros Hn. assert (Hlt : (Z.to_nat n < length l)%nat) by (unfold zlen in Hn; lia).
  destruct (nth_split l d Hlt) as (l1 & l2 & El & Hl).
  rewrite <- (getn_nth d l n) in El by lia.
  exists l1, (getn d l n), l2. split; [exact El|]. assert (Hz : zlen l1 = n) by (unfold zlen; lia).
  split; [exact Hz|]. split; [reflexivity|]. set (e := getn d l n) in *. clearbody e. subst n. subst l.
  destruct (list_rev_case l2) as [E|(l2' & a & E)]; subst l2.
  - left. split; [reflexivity | apply g_remove_pos_last].
  - right. exists l2', a. split; [reflexivity | apply g_remove_pos_mid].
Qed.

Lemma g_remove_pos_perm {A} (d : A) l n : 0 <= n < zlen l -> Permutation (getn d l n :: g_remove_pos l n) l.
Proof.
  intros Hn. destruct (g_remove_pos_split d l n Hn) as (l1 & e & l2 & El & Hz & He & [[E2 Er]|(l2' & lst & E2 & Er)]);
    rewrite Er, He; subst l l2.
  - apply Permutation_cons_append.
  - transitivity (e :: l1 ++ l2' ++ [lst]).
    + constructor. apply Permutation_app_head. apply Permutation_cons_append.
    + apply Permutation_middle.
Qed.

Lemma g_remove_pos_zlen {A} (l : list A) n : 0 <= n < zlen l -> zlen (g_remove_pos l n) = zlen l - 1.
Proof.
  intros Hn. destruct l as [|x l']; [cbn in Hn; lia|].
  pose proof (g_remove_pos_perm x (x :: l') n Hn) as Hp. apply Permutation_length in Hp. cbn [length] in Hp.
  unfold zlen in *. cbn [length]. lia.
Qed.

Lemma g_remove_pos_prefix {A} (d : A) l n i : 0 <= n < zlen l -> 0 <= i < n ->
  getn d (g_remove_pos l n) i = getn d l i.
Proof.
  intros Hn Hi. destruct (g_remove_pos_split d l n Hn) as (l1 & e & l2 & El & Hz & He & [[E2 Er]|(l2' & lst & E2 & Er)]);
    rewrite Er; subst l.
  - rewrite getn_app_l by lia. reflexivity.
  - rewrite !getn_app_l by lia. reflexivity.
Qed.

Lemma g_remove_pos_map {A B} (f : A -> B) (l : list A) n : map f (g_remove_pos l n) = g_remove_pos (map f l) n.
Proof.
  destruct (Z_lt_le_dec n 0) as [Hneg|Hpos].
  { rewrite !g_remove_pos_oob by (rewrite ?zlen_map; lia). reflexivity. }
  destruct (Z_lt_le_dec n (zlen l)) as [Hlt|Hge].
  2:{ rewrite !g_remove_pos_oob by (rewrite ?zlen_map; lia). reflexivity. }
  destruct l as [|x0 l0]; [cbn in Hlt; lia|].
  destruct (g_remove_pos_split x0 (x0 :: l0) n (conj Hpos Hlt))
    as (l1 & e & l2 & El & Hz & He & [[E2 Er]|(l2' & lst & E2 & Er)]); rewrite Er, El; subst l2.
  - rewrite map_app. cbn [map].
    rewrite <- Hz. rewrite <- (zlen_map f l1). rewrite g_remove_pos_last. reflexivity.
  - rewrite !map_app. cbn [map]. rewrite map_app. cbn [map].
    rewrite <- Hz. rewrite <- (zlen_map f l1). rewrite g_remove_pos_mid. reflexivity.
Qed.

Lemma g_remove_pos_in {A} (l : list A) n x : In x (g_remove_pos l n) -> In x l.
Proof.
  intros H. destruct (Z_lt_le_dec n 0) as [Hneg|Hpos]; [rewrite g_remove_pos_oob in H by lia; exact H|].
  destruct (Z_lt_le_dec n (zlen l)) as [Hlt|Hge]; [|rewrite g_remove_pos_oob in H by lia; exact H].
  apply (Permutation_in _ (g_remove_pos_perm x l n (conj Hpos Hlt))). right. exact H.
Qed.

Lemma g_remove_pos_nodup {A} (l : list A) n : NoDup l -> NoDup (g_remove_pos l n).
Proof.
  intros Hnd. destruct (Z_lt_le_dec n 0) as [Hneg|Hpos]; [rewrite g_remove_pos_oob by lia; exact Hnd|].
  destruct (Z_lt_le_dec n (zlen l)) as [Hlt|Hge]; [|rewrite g_remove_pos_oob by lia; exact Hnd].
  destruct l as [|x l']; [cbn in Hlt; lia|].
  pose proof (g_remove_pos_perm x (x :: l') n (conj Hpos Hlt)) as Hp. apply Permutation_sym in Hp.
  apply (Permutation_NoDup Hp) in Hnd. inversion Hnd; assumption.
Qed.

(* the removed element is gone when there are no duplicates *)
Lemma g_remove_pos_notin {A} (d : A) l n : NoDup l -> 0 <= n < zlen l -> ~ In (getn d l n) (g_remove_pos l n).
Proof.
  intros Hnd Hn. pose proof (g_remove_pos_perm d l n Hn) as Hp. apply Permutation_sym in Hp.
  apply (Permutation_NoDup Hp) in Hnd. inversion Hnd; assumption.
Qed.

Lemma g_remove_pos_in_other {A} (d : A) l n x : 0 <= n < zlen l -> In x l -> x <> getn d l n -> In x (g_remove_pos l n).
Proof.
  intros Hn Hx Hne. pose proof (g_remove_pos_perm d l n Hn) as Hp. apply Permutation_sym in Hp.
  apply (Permutation_in _ Hp) in Hx. destruct Hx as [Hx|Hx]; [congruence | exact Hx].
Qed.

(* ================================================================== A. IdxSet *)
Lemma is_add_nodup : forall l i, NoDup l -> ~ In i l -> NoDup (is_add l i).
Proof. intros l i Hnd Hi. unfold is_add. apply NoDup_snoc; assumption. Qed.

Lemma is_add_list_nodup : forall l is, NoDup (l ++ is) -> NoDup (is_add_list l is).
Proof. intros l is H. exact H. Qed.

Lemma is_remove_pos_spec : forall l n, 0 <= n < zlen l ->
  Permutation (getn 0 l n :: is_remove_pos l n) l /\ zlen (is_remove_pos l n) = zlen l - 1 /\
  (forall i, 0 <= i < n -> getn 0 (is_remove_pos l n) i = getn 0 l i).
Proof.
  intros l n Hn. rewrite is_remove_pos_g. split; [apply g_remove_pos_perm; exact Hn|].
  split; [apply g_remove_pos_zlen; exact Hn|]. intros i Hi. apply g_remove_pos_prefix; assumption.
Qed.

Lemma is_remove_pos_nodup : forall l n, NoDup l -> NoDup (is_remove_pos l n).
Proof. intros l n. rewrite is_remove_pos_g. apply g_remove_pos_nodup. Qed.

Lemma is_remove_pos_oob : forall l n, ~ (0 <= n < zlen l) -> is_remove_pos l n = l.
Proof. intros l n. rewrite is_remove_pos_g. apply g_remove_pos_oob. Qed.

(* pos *)
Lemma is_pos_from_spec : forall l i p,
  (is_pos_from l i p = -1 \/ p <= is_pos_from l i p) /\
  (0 <= p -> (is_pos_from l i p = -1 <-> ~ In i l)) /\
  (0 <= p -> p <= is_pos_from l i p ->
     is_pos_from l i p < p + zlen l /\ getn 0 l (is_pos_from l i p - p) = i /\
     forall q, p <= q < is_pos_from l i p -> getn 0 l (q - p) <> i).
Proof.
  induction l as [|x r IH]; intros i p; cbn [is_pos_from].
  - split; [left; reflexivity|]. split.
    + intros _. split; [intros _ [] | reflexivity].
    + intros Hp H. lia.
  - destruct (Z.eqb_spec x i) as [E|E].
    + subst x. split; [right; lia|]. split.
      * intros Hp. split; [lia | intros H; exfalso; apply H; left; reflexivity].
      * intros Hp _. rewrite zlen_cons. pose proof (zlen_nonneg r). rewrite Z.sub_diag.
        split; [lia|]. split; [reflexivity | intros q Hq; lia].
    + destruct (IH i (p + 1)) as (H1 & H2 & H3). split; [destruct H1; [left; assumption | right; lia]|]. split.
      * intros Hp. rewrite (H2 ltac:(lia)). split.
        -- intros Hn [C|C]; [contradiction | exact (Hn C)].
        -- intros Hn C. apply Hn. right. exact C.
      * intros Hp Hle. assert (Hle' : p + 1 <= is_pos_from r i (p + 1)) by (destruct H1 as [H1|H1]; lia).
        destruct (H3 ltac:(lia) Hle') as (G1 & G2 & G3). rewrite zlen_cons. split; [lia|]. split.
        -- rewrite getn_cons_pos by lia. replace (is_pos_from r i (p + 1) - p - 1) with (is_pos_from r i (p + 1) - (p + 1)) by lia.
           exact G2.
        -- intros q Hq. destruct (Z.eq_dec q p) as [Eq|Eq].
           ++ subst q. rewrite Z.sub_diag. cbn. exact E.
           ++ rewrite getn_cons_pos by lia. replace (q - p - 1) with (q - (p + 1)) by lia. apply G3. lia.
Qed.

Lemma is_pos_range : forall l i, -1 <= is_pos l i < zlen l.
Proof.
  intros l i. unfold is_pos. destruct (is_pos_from_spec l i 0) as (H1 & _ & H3). pose proof (zlen_nonneg l).
  destruct H1 as [H1|H1]; [lia|]. destruct (H3 ltac:(lia) H1) as (G & _). lia.
Qed.

Lemma is_pos_spec : forall l i,
  (is_pos l i = -1 <-> ~ In i l) /\
  (0 <= is_pos l i -> is_pos l i < zlen l /\ getn 0 l (is_pos l i) = i /\
                      forall q, 0 <= q < is_pos l i -> getn 0 l q <> i).
Proof.
  intros l i. unfold is_pos. destruct (is_pos_from_spec l i 0) as (H1 & H2 & H3).
  split; [apply H2; lia|]. intros Hp. destruct (H3 ltac:(lia) Hp) as (G1 & G2 & G3).
  rewrite Z.sub_0_r in G2. split; [lia|]. split; [exact G2|]. intros q Hq. specialize (G3 q Hq).
  rewrite Z.sub_0_r in G3. exact G3.
Qed.

Lemma is_pos_nonneg_in l i : 0 <= is_pos l i <-> In i l.
Proof.
  destruct (is_pos_spec l i) as [H1 H2]. pose proof (is_pos_range l i). split.
  - intros Hp. destruct (H2 Hp) as (G1 & G2 & _). rewrite <- G2. apply getn_in. lia.
  - intros Hin. destruct (Z.eq_dec (is_pos l i) (-1)) as [E|E]; [apply H1 in E; contradiction | lia].
Qed.

(* with distinct entries pos inverts getn *)
Lemma is_pos_getn l n : NoDup l -> 0 <= n < zlen l -> is_pos l (getn 0 l n) = n.
Proof.
  intros Hnd Hn. set (i := getn 0 l n). destruct (is_pos_spec l i) as [H1 H2].
  assert (Hin : In i l) by (apply getn_in; exact Hn). apply is_pos_nonneg_in in Hin.
  destruct (H2 Hin) as (G1 & G2 & G3). set (p := is_pos l i) in *.
  destruct (Z.eq_dec p n) as [E|E]; [exact E|]. exfalso.
  (* two different positions with the same value *)
  revert Hnd Hn G1 G2 Hin E. subst i. generalize p. clear. intros p Hnd Hn G1 G2 Hp E.
  rewrite !getn_nth in G2 by lia.
  assert (Hq : Z.to_nat p = Z.to_nat n).
  { apply (proj1 (NoDup_nth l 0) Hnd); [unfold zlen in *; lia | unfold zlen in *; lia | exact G2]. }
  lia.
Qed.

(* remove(n, m) *)
Lemma skipn_app_len {A} (a r : list A) k : skipn (length a + k) (a ++ r) = skipn k r.
Proof. induction a as [|x a IH]; cbn; auto. Qed.

Lemma is_remove_range_app (A B C : list Z) :
  is_remove_range (A ++ B ++ C) (zlen A) (zlen A + zlen B - 1) =
  A ++ (if zlen B <=? zlen C then skipn (length C - length B) C ++ firstn (length C - length B) C else C).
Proof.
  unfold is_remove_range. cbv zeta.
  pose proof (zlen_nonneg A). pose proof (zlen_nonneg B). pose proof (zlen_nonneg C).
  rewrite !zlen_app.
  replace (zlen A + zlen B - 1 + 1 - zlen A) with (zlen B) by lia.
  replace (zlen A + (zlen B + zlen C) - (zlen A + zlen B - 1 + 1)) with (zlen C) by lia.
  rewrite zlen_length, firstn_app_len. f_equal. unfold lastn. rewrite !app_length.
  destruct (Z.leb_spec (zlen B) (zlen C)) as [Hle|Hgt].
  - rewrite zlen_length.
    replace (length A + (length B + length C) - length B)%nat
      with (length A + (length B + (length C - length B)))%nat by (unfold zlen in *; lia).
    rewrite !skipn_app_len. f_equal.
    replace (Z.to_nat (zlen A + zlen B)) with (length A + (length B + 0))%nat by (unfold zlen; lia).
    rewrite !skipn_app_len. cbn [skipn]. f_equal. unfold zlen in *. lia.
  - rewrite zlen_length.
    replace (length A + (length B + length C) - length C)%nat
      with (length A + (length B + 0))%nat by (unfold zlen in *; lia).
    rewrite !skipn_app_len. cbn [skipn].
    replace (Z.to_nat (zlen A + (zlen B + zlen C) - zlen B - zlen A - zlen C)) with 0%nat by lia.
    cbn [firstn]. apply app_nil_r.
Qed.

Lemma is_remove_range_abc (A B C : list Z) :
  let l := A ++ B ++ C in
  let r := is_remove_range l (zlen A) (zlen A + zlen B - 1) in
  Permutation (r ++ B) l /\ zlen r = zlen l - zlen B /\
  (forall i, 0 <= i < zlen A -> getn 0 r i = getn 0 l i) /\ (NoDup l -> NoDup r).
Proof.
  intros l r. unfold r, l. rewrite is_remove_range_app.
  set (X := if zlen B <=? zlen C then skipn (length C - length B) C ++ firstn (length C - length B) C else C).
  assert (HX : Permutation X C).
  { unfold X. destruct (zlen B <=? zlen C); [|reflexivity].
    rewrite Permutation_app_comm. rewrite firstn_skipn. reflexivity. }
  assert (HP : Permutation ((A ++ X) ++ B) (A ++ B ++ C)).
  { rewrite <- app_assoc. apply Permutation_app_head. rewrite HX. apply Permutation_app_comm. }
  split; [exact HP|]. split; [|split].
  - apply Permutation_length in HP. rewrite !app_length in HP. rewrite !zlen_app. unfold zlen. lia.
  - intros i Hi. rewrite !getn_app_l by lia. reflexivity.
  - intros Hnd. apply Permutation_sym in HP. apply (Permutation_NoDup HP) in Hnd.
    apply nodup_app_inv in Hnd. tauto.
Qed.

Lemma range_split (l : list Z) n m : 0 <= n <= m -> m < zlen l ->
  let A := firstn (Z.to_nat n) l in
  let B := firstn (Z.to_nat (m + 1 - n)) (skipn (Z.to_nat n) l) in
  let C := skipn (Z.to_nat (m + 1 - n)) (skipn (Z.to_nat n) l) in
  l = A ++ B ++ C /\ zlen A = n /\ zlen B = m + 1 - n.
Proof.
  intros Hn Hm A B C. split; [|split].
  - unfold A, B, C. rewrite firstn_skipn. rewrite firstn_skipn. reflexivity.
  - unfold A, zlen in *. rewrite firstn_length. lia.
  - unfold B, zlen in *. rewrite firstn_length, skipn_length. lia.
Qed.

Lemma is_remove_range_spec : forall l n m, 0 <= n <= m -> m < zlen l ->
  Permutation (is_remove_range l n m ++ firstn (Z.to_nat (m + 1 - n)) (skipn (Z.to_nat n) l)) l /\
  zlen (is_remove_range l n m) = zlen l - (m + 1 - n) /\
  (forall i, 0 <= i < n -> getn 0 (is_remove_range l n m) i = getn 0 l i).
Proof.
  intros l n m Hn Hm. destruct (range_split l n m Hn Hm) as (El & HA & HB).
  set (A := firstn (Z.to_nat n) l) in *. set (B := firstn (Z.to_nat (m + 1 - n)) (skipn (Z.to_nat n) l)) in *.
  set (C := skipn (Z.to_nat (m + 1 - n)) (skipn (Z.to_nat n) l)) in *.
  destruct (is_remove_range_abc A B C) as (P1 & P2 & P3 & _).
  replace (zlen A + zlen B - 1) with m in * by lia. rewrite HA in *. rewrite <- El in *. rewrite HB in P2.
  split; [exact P1|]. split; [exact P2 | exact P3].
Qed.

Lemma is_remove_range_nodup : forall l n m, 0 <= n <= m -> m < zlen l -> NoDup l -> NoDup (is_remove_range l n m).
Proof.
  intros l n m Hn Hm Hnd. destruct (range_split l n m Hn Hm) as (El & HA & HB).
  set (A := firstn (Z.to_nat n) l) in *. set (B := firstn (Z.to_nat (m + 1 - n)) (skipn (Z.to_nat n) l)) in *.
  set (C := skipn (Z.to_nat (m + 1 - n)) (skipn (Z.to_nat n) l)) in *.
  destruct (is_remove_range_abc A B C) as (_ & _ & _ & P4).
  replace (zlen A + zlen B - 1) with m in * by lia. rewrite HA in *. rewrite <- El in *. apply P4. exact Hnd.
Qed.

(* more on pos *)
Lemma is_pos_from_app_in : forall l r i p, In i l -> is_pos_from (l ++ r) i p = is_pos_from l i p.
Proof.
  induction l as [|x l IH]; intros r i p Hin; [contradiction|]. cbn [app is_pos_from].
  destruct (Z.eqb_spec x i) as [E|E]; [reflexivity|]. apply IH. destruct Hin as [H|H]; [contradiction | exact H].
Qed.

Lemma is_pos_from_app_notin : forall l r i p, ~ In i l -> is_pos_from (l ++ r) i p = is_pos_from r i (p + zlen l).
Proof.
  induction l as [|x l IH]; intros r i p Hn; cbn [app is_pos_from].
  - rewrite zlen_nil, Z.add_0_r. reflexivity.
  - destruct (Z.eqb_spec x i) as [E|E]; [exfalso; apply Hn; left; exact E|].
    rewrite IH by (intros C; apply Hn; right; exact C). rewrite zlen_cons. f_equal. lia.
Qed.

Lemma is_pos_app_in l r i : In i l -> is_pos (l ++ r) i = is_pos l i.
Proof. apply is_pos_from_app_in. Qed.

Lemma is_pos_snoc_new l i : ~ In i l -> is_pos (l ++ [i]) i = zlen l.
Proof.
  intros Hn. unfold is_pos. rewrite is_pos_from_app_notin by exact Hn. cbn [is_pos_from]. rewrite Z.eqb_refl. lia.
Qed.

Lemma bool_eq_iff (a b : bool) : (a = true <-> b = true) -> a = b.
Proof. destruct a, b; intros [H1 H2]; try reflexivity; [symmetry; apply H1 | apply H2]; reflexivity. Qed.

(* ================================================================== B. NameSet *)
Definition ns_inv (s : nset) : Prop := ds_inv s /\ NoDup (ns_names s).

(* the same notions on the abstract list of (key, name) *)
Definition an_number (a : list (Z * Z)) (name : Z) : Z := is_pos (map snd a) name.
Definition an_key (a : list (Z * Z)) (name : Z) : Z :=
  let n := an_number a name in if 0 <=? n then a_key_at 0 a n else -1.

Lemma ns_names_len s : ds_inv s -> zlen (ns_names s) = thenum s.
Proof.
  intros Hi. unfold ns_names. rewrite zlen_map. apply zlen_abs. destruct (inv_bounds _ s Hi). lia.
Qed.

Lemma ns_number_range s name : ds_inv s -> -1 <= ns_number s name < thenum s.
Proof. intros Hi. rewrite <- (ns_names_len s Hi). apply is_pos_range. Qed.

Lemma ns_key_abs s name : ds_inv s -> ns_key s name = an_key (ds_abs 0 s) name.
Proof.
  intros Hi. unfold ns_key, an_key. change (an_number (ds_abs 0 s) name) with (ns_number s name).
  destruct (Z.leb_spec 0 (ns_number s name)) as [H|H]; [|reflexivity].
  pose proof (ns_number_range s name Hi). symmetry. apply key_at_abs. lia.
Qed.

Lemma ns_has_in s name : ns_has s name = true <-> In name (ns_names s).
Proof. unfold ns_has, ns_number. rewrite Z.leb_le. apply is_pos_nonneg_in. Qed.

Lemma ns_lookup_absent : forall s name, ns_has s name = false <-> ~ In name (ns_names s).
Proof.
  intros s name. rewrite <- ns_has_in. destruct (ns_has s name); split; intros H.
  - discriminate.
  - exfalso. apply H. reflexivity.
  - intros C. discriminate.
  - reflexivity.
Qed.

Lemma ns_key_absent s name : ns_has s name = false -> ns_key s name = -1.
Proof. unfold ns_has, ns_key. intros H. rewrite H. reflexivity. Qed.

Lemma an_key_in (a : list (Z * Z)) k name : NoDup (map snd a) -> In (k, name) a ->
  an_key a name = k /\ 0 <= an_number a name < zlen a.
Proof.
  intros Hnd Hin. destruct (in_getn (-1, 0) a (k, name) Hin) as (i & Hi & Hg).
  assert (Hn : getn 0 (map snd a) i = name) by (rewrite (getn_map snd (-1, 0) 0) by exact Hi; rewrite Hg; reflexivity).
  assert (Hp : an_number a name = i).
  { unfold an_number. rewrite <- Hn. apply is_pos_getn; [exact Hnd | rewrite zlen_map; exact Hi]. }
  unfold an_key. rewrite Hp. replace (0 <=? i) with true by (symmetry; apply Z.leb_le; lia).
  unfold a_key_at. rewrite Hg. split; [reflexivity | exact Hi].
Qed.

Lemma ns_lookup : forall s name, ns_inv s -> ns_has s name = true ->
  0 <= ns_number s name < thenum s /\ getn 0 (ns_names s) (ns_number s name) = name /\
  ds_key s (ns_number s name) = ns_key s name /\ In (ns_key s name, name) (ds_abs 0 s).
Proof.
  intros s name [Hi Hnd] Hh. pose proof (ns_number_range s name Hi) as Hr.
  assert (H0 : 0 <= ns_number s name) by (apply Z.leb_le; exact Hh).
  destruct (is_pos_spec (ns_names s) name) as [_ Hsp]. destruct (Hsp H0) as (_ & Hg & _).
  fold (ns_number s name) in Hg.
  assert (Hk : ds_key s (ns_number s name) = ns_key s name) by (unfold ns_key; fold (ns_has s name); rewrite Hh; reflexivity).
  split; [lia|]. split; [exact Hg|]. split; [exact Hk|].
  rewrite <- Hk. set (n := ns_number s name) in *.
  assert (Hga : getn (-1, 0) (ds_abs 0 s) n = (ds_key s n, name)).
  { rewrite getn_abs by lia. f_equal. unfold ns_names in Hg.
    rewrite (getn_map snd (-1, 0) 0) in Hg by (rewrite zlen_abs; lia). rewrite getn_abs in Hg by lia. exact Hg. }
  rewrite <- Hga. apply getn_in. rewrite zlen_abs; lia.
Qed.

(* every (key, name) of the set is found by the lookup *)
Lemma ns_key_of_in s k name : ns_inv s -> In (k, name) (ds_abs 0 s) -> ns_key s name = k /\ ns_has s name = true.
Proof.
  intros [Hi Hnd] Hin. rewrite (ns_key_abs s name Hi). destruct (an_key_in _ k name Hnd Hin) as [H1 H2].
  split; [exact H1|]. apply Z.leb_le. change (ns_number s name) with (an_number (ds_abs 0 s) name). lia.
Qed.

(* ---- add *)
Lemma ns_add_existing : forall s name, ns_has s name = true -> ns_add s name = (s, None).
Proof. intros s name H. unfold ns_add. rewrite H. reflexivity. Qed.

Lemma ns_add_new : forall s name, ns_inv s -> ns_has s name = false ->
  let s' := fst (ns_add s name) in
  exists k, snd (ns_add s name) = Some k /\ ns_inv s' /\ ds_abs 0 s' = ds_abs 0 s ++ [(k, name)] /\
    ~ In k (a_keys (ds_abs 0 s)) /\ ns_number s' name = thenum s /\ ns_key s' name = k /\
    (forall other, ns_has s other = true ->
       ns_number s' other = ns_number s other /\ ns_key s' other = ns_key s other).
Proof.
  intros s name Hinv Hh. pose proof Hinv as [Hi Hnd]. unfold ns_add. rewrite Hh.
  set (s1 := if 7 * themax s <? 10 * (thesize s + 1) then ds_remax 0 s (2 * themax s + 8) else s).
  destruct (inv_bounds _ s Hi) as [Hb1 Hb2]. pose proof (inv_max _ s Hi) as Hm.
  assert (H1 : ds_inv s1 /\ ds_abs 0 s1 = ds_abs 0 s /\ thenum s1 = thenum s /\ thenum s1 < themax s1).
  { unfold s1. destruct (Z.ltb_spec (7 * themax s) (10 * (thesize s + 1))) as [Hg|Hg].
    - destruct (ds_remax_spec Z 0 s (2 * themax s + 8) Hi) as (R1 & R2 & R3 & R4 & R5).
      split; [exact R1|]. split; [exact R2|]. split; [exact R5|]. rewrite R3, R5. lia.
    - split; [exact Hi|]. split; [reflexivity|]. split; [reflexivity|]. lia. }
  destruct H1 as (Hi1 & Ha1 & Hn1 & Hlt1).
  pose proof (ds_add_spec Z 0 s1 name Hi1 Hlt1) as Hadd. cbv zeta in Hadd.
  destruct (ds_add s1 name) as [s2 k] eqn:Eadd. cbn [fst snd] in Hadd |- *.
  destruct Hadd as (Hi2 & Ha2 & Hk & _ & Hn2). rewrite Ha1 in Ha2, Hk.
  assert (Hnin : ~ In name (ns_names s)) by (apply ns_lookup_absent; exact Hh).
  assert (Hnames : ns_names s2 = ns_names s ++ [name]) by (unfold ns_names; rewrite Ha2, map_app; reflexivity).
  assert (Hinv2 : ns_inv s2) by (split; [exact Hi2 | rewrite Hnames; apply NoDup_snoc; assumption]).
  exists k. split; [reflexivity|]. split; [exact Hinv2|]. split; [exact Ha2|]. split; [exact Hk|]. split; [|split].
  - unfold ns_number. rewrite Hnames, is_pos_snoc_new by exact Hnin. apply ns_names_len. exact Hi.
  - apply (ns_key_of_in s2 k name Hinv2). rewrite Ha2. apply in_or_app. right. left. reflexivity.
  - intros other Ho. split.
    + unfold ns_number. rewrite Hnames. apply is_pos_app_in. apply ns_has_in. exact Ho.
    + destruct (ns_lookup s other Hinv Ho) as (_ & _ & _ & Hin).
      apply (ns_key_of_in s2 _ other Hinv2). rewrite Ha2. apply in_or_app. left. exact Hin.
Qed.

(* ---- remove by name *)
Lemma ns_remove_name_absent : forall s name, ns_has s name = false -> ns_remove_name s name = s.
Proof. intros s name H. unfold ns_remove_name. fold (ns_has s name). rewrite H. reflexivity. Qed.

Lemma ns_names_remove_num s n : ds_inv s -> ns_names (ds_remove_num s n) = g_remove_pos (ns_names s) n.
Proof.
  intros Hi. unfold ns_names. rewrite (ds_remove_num_abs Z 0 s n Hi), a_remove_g. apply g_remove_pos_map.
Qed.

Lemma ns_remove_name_spec : forall s name, ns_inv s -> ns_has s name = true ->
  let s' := ns_remove_name s name in
  ns_inv s' /\ ns_has s' name = false /\
  (forall other, other <> name -> ns_has s' other = ns_has s other /\ ns_key s' other = ns_key s other) /\
  ds_abs 0 s' = a_remove (ns_number s name) (ds_abs 0 s).
Proof.
  intros s name Hinv Hh. pose proof Hinv as [Hi Hnd]. cbv zeta.
  destruct (ns_lookup s name Hinv Hh) as (Hr & Hg & Hk & Hin).
  unfold ns_remove_name. fold (ns_has s name). rewrite Hh. set (n := ns_number s name) in *.
  assert (Hrn : 0 <= n < zlen (ns_names s)) by (rewrite ns_names_len by exact Hi; exact Hr).
  pose proof (ns_names_remove_num s n Hi) as Hnames.
  assert (Hinv' : ns_inv (ds_remove_num s n)).
  { split; [apply ds_remove_num_inv; exact Hi | rewrite Hnames; apply g_remove_pos_nodup; exact Hnd]. }
  split; [exact Hinv'|]. split; [|split].
  - apply ns_lookup_absent. rewrite Hnames. rewrite <- Hg. apply g_remove_pos_notin; assumption.
  - intros other Hne.
    assert (Hhas : ns_has (ds_remove_num s n) other = ns_has s other).
    { apply bool_eq_iff. rewrite !ns_has_in, Hnames. split.
      - apply g_remove_pos_in.
      - intros Ho. apply (g_remove_pos_in_other 0); [exact Hrn | exact Ho | rewrite Hg; exact Hne]. }
    split; [exact Hhas|]. destruct (ns_has s other) eqn:Ho.
    + destruct (ns_lookup s other Hinv Ho) as (Hro & _ & _ & Hino).
      apply (ns_key_of_in _ _ other Hinv'). rewrite (ds_remove_num_abs Z 0 s n Hi), a_remove_g.
      apply (g_remove_pos_in_other (-1, 0)); [rewrite zlen_abs; lia | exact Hino |].
      intros C. rewrite getn_abs in C by lia.
      assert (Hsnd : other = ds_elem_num 0 s n) by (inversion C; reflexivity).
      unfold ns_names in Hg. rewrite (getn_map snd (-1, 0) 0) in Hg by (rewrite zlen_abs; lia).
      rewrite getn_abs in Hg by lia. cbn [snd] in Hg. congruence.
    + rewrite !ns_key_absent by assumption. reflexivity.
  - apply ds_remove_num_abs. exact Hi.
Qed.

(* ---- remove by key(s) *)
Definition ns_remove_key1 (s : nset) (k : Z) : nset :=
  match ds_number s k with Some n => ds_remove_num s n | None => s end.

Lemma ds_remove_num_oob {D} (s : ds D) n : ~ (0 <= n < thenum s) -> ds_remove_num s n = s.
Proof.
  intros H. unfold ds_remove_num, ds_has_num. rewrite andb_range_false by exact H. reflexivity.
Qed.

Lemma ns_key_inj (s : nset) n n' : ds_inv s -> 0 <= n < thenum s -> 0 <= n' < thenum s -> ds_key s n = ds_key s n' -> n = n'.
Proof.
  intros Hi Hn Hn' E. destruct (ds_dense Z 0 s Hi) as (_ & _ & Hd & _).
  pose proof (Hd n Hn) as E1. pose proof (Hd n' Hn') as E2. rewrite E in E1. congruence.
Qed.

Lemma ns_remove_key1_spec s k : ns_inv s ->
  ns_inv (ns_remove_key1 s k) /\
  (forall name, ns_has (ns_remove_key1 s k) name = ns_has s name && negb (ns_key s name =? k)) /\
  (forall name, ns_has (ns_remove_key1 s k) name = true -> ns_key (ns_remove_key1 s k) name = ns_key s name).
Proof.
  intros Hinv. pose proof Hinv as [Hi Hnd]. destruct (ds_dense Z 0 s Hi) as (_ & _ & Hd3 & Hd4).
  assert (Hunused : (forall n, 0 <= n < thenum s -> ds_key s n <> k) -> ns_remove_key1 s k = s ->
            ns_inv (ns_remove_key1 s k) /\
            (forall name, ns_has (ns_remove_key1 s k) name = ns_has s name && negb (ns_key s name =? k)) /\
            (forall name, ns_has (ns_remove_key1 s k) name = true -> ns_key (ns_remove_key1 s k) name = ns_key s name)).
  { intros Hno Es. rewrite Es. split; [exact Hinv|]. split; [|intros; reflexivity].
    intros name. destruct (ns_has s name) eqn:Hh; [|reflexivity].
    destruct (ns_lookup s name Hinv Hh) as (Hr & _ & Hk & _).
    destruct (Z.eqb_spec (ns_key s name) k) as [E|E]; [|reflexivity].
    exfalso. apply (Hno _ Hr). congruence. }
  unfold ns_remove_key1 in *. destruct (ds_number s k) as [n|] eqn:En.
  - destruct (Z_lt_le_dec n 0) as [Hneg|Hpos].
    + apply Hunused; [|apply ds_remove_num_oob; lia].
      intros n' Hn' E. pose proof (Hd3 n' Hn') as E'. rewrite E in E'. assert (n = n') by congruence. lia.
    + destruct (Hd4 k n En Hpos) as [Hr Hk]. set (nm0 := getn 0 (ns_names s) n).
      assert (Hrn : 0 <= n < zlen (ns_names s)) by (rewrite ns_names_len by exact Hi; exact Hr).
      assert (Hnum : ns_number s nm0 = n) by (apply is_pos_getn; assumption).
      assert (Hh0 : ns_has s nm0 = true) by (unfold ns_has; rewrite Hnum; apply Z.leb_le; lia).
      assert (Es : ds_remove_num s n = ns_remove_name s nm0).
      { unfold ns_remove_name. rewrite Hnum. replace (0 <=? n) with true by (symmetry; apply Z.leb_le; lia). reflexivity. }
      rewrite Es. destruct (ns_remove_name_spec s nm0 Hinv Hh0) as (S1 & S2 & S3 & _).
      split; [exact S1|]. split.
      * intros name. destruct (Z.eq_dec name nm0) as [E|E].
        -- subst name. rewrite S2, Hh0. destruct (ns_lookup s nm0 Hinv Hh0) as (_ & _ & Hk0 & _).
           rewrite <- Hk0, Hnum, Hk, Z.eqb_refl. reflexivity.
        -- destruct (S3 name E) as [S3a _]. rewrite S3a. destruct (ns_has s name) eqn:Hh; [|reflexivity].
           destruct (ns_lookup s name Hinv Hh) as (Hrn' & Hg' & Hk' & _).
           destruct (Z.eqb_spec (ns_key s name) k) as [Ek|Ek]; [|reflexivity].
           exfalso. apply E. rewrite <- Hg'. unfold nm0. f_equal.
           apply (ns_key_inj s _ _ Hi Hrn' Hr). congruence.
      * intros name Hh1. destruct (Z.eq_dec name nm0) as [E|E]; [subst name; congruence|].
        apply (S3 name E).
  - apply Hunused; [|reflexivity]. intros n' Hn' E. pose proof (Hd3 n' Hn') as E'. rewrite E in E'. congruence.
Qed.

Lemma ns_remove_keys_spec : forall ks s, ns_inv s ->
  ns_inv (ns_remove_keys s ks) /\
  (forall name, ns_has (ns_remove_keys s ks) name
                = ns_has s name && negb (existsb (Z.eqb (ns_key s name)) ks)) /\
  (forall name, ns_has (ns_remove_keys s ks) name = true -> ns_key (ns_remove_keys s ks) name = ns_key s name).
Proof.
  induction ks as [|k ks IH]; intros s Hinv.
  - cbn. split; [exact Hinv|]. split; [intros; rewrite andb_true_r; reflexivity | intros; reflexivity].
  - change (ns_remove_keys s (k :: ks)) with (ns_remove_keys (ns_remove_key1 s k) ks).
    destruct (ns_remove_key1_spec s k Hinv) as (A1 & A2 & A3).
    destruct (IH _ A1) as (B1 & B2 & B3). split; [exact B1|]. split.
    + intros name. rewrite B2, A2. cbn [existsb]. destruct (ns_has s name) eqn:Hh; [|reflexivity].
      cbn [andb]. destruct (ns_key s name =? k) eqn:Ek; cbn [negb orb andb]; [reflexivity|].
      rewrite A3; [reflexivity|]. rewrite A2, Hh, Ek. reflexivity.
    + intros name Hh. rewrite (B3 name Hh). apply A3. rewrite B2 in Hh. apply andb_true_iff in Hh. tauto.
Qed.

Lemma ns_remove_nums_spec : forall s nums, ns_inv s -> (forall n, In n nums -> 0 <= n < thenum s) ->
  ns_inv (ns_remove_nums s nums) /\
  (forall name, ns_has (ns_remove_nums s nums) name
                = ns_has s name && negb (existsb (Z.eqb (ns_number s name)) nums)) /\
  (forall name, ns_has (ns_remove_nums s nums) name = true -> ns_key (ns_remove_nums s nums) name = ns_key s name).
Proof.
  intros s nums Hinv Hr. unfold ns_remove_nums.
  destruct (ns_remove_keys_spec (map (ds_key s) nums) s Hinv) as (A1 & A2 & A3).
  split; [exact A1|]. split; [|exact A3]. intros name. rewrite A2.
  destruct (ns_has s name) eqn:Hh; [|reflexivity]. cbn [andb]. f_equal.
  destruct (ns_lookup s name Hinv Hh) as (Hrn & _ & Hk & _). destruct Hinv as [Hi _].
  clear A1 A2 A3. induction nums as [|n nums IH]; [reflexivity|]. cbn [map existsb].
  rewrite IH by (intros n' Hn'; apply Hr; right; exact Hn'). f_equal.
  assert (Hn : 0 <= n < thenum s) by (apply Hr; left; reflexivity).
  destruct (Z.eqb_spec (ns_number s name) n) as [E|E].
  - apply Z.eqb_eq. rewrite <- Hk, E. reflexivity.
  - apply Z.eqb_neq. intros C. apply E. apply (ns_key_inj s _ _ Hi Hrn Hn). congruence.
Qed.

(* ---- remove(dstat[]), clear, reMax *)
Lemma map_snd_remove_perm : forall perm (a : list (Z * Z)),
  map snd (a_remove_perm perm a) = surv_keys perm (map snd a).
Proof.
  induction perm as [|p perm IH]; intros [|e a]; cbn [a_remove_perm surv_keys map]; try reflexivity.
  destruct (0 <=? p); cbn [map]; rewrite IH; reflexivity.
Qed.

Lemma surv_keys_in : forall perm l x, In x (surv_keys perm l) -> In x l.
Proof.
  induction perm as [|p perm IH]; intros [|e l] x; cbn [surv_keys]; try (intros []).
  destruct (0 <=? p); [intros [H|H]; [left; exact H | right; apply IH; exact H] | intros H; right; apply IH; exact H].
Qed.

Lemma surv_keys_nodup : forall perm l, NoDup l -> NoDup (surv_keys perm l).
Proof.
  induction perm as [|p perm IH]; intros [|e l] Hnd; cbn [surv_keys]; try constructor.
  inversion Hnd as [|? ? Hn Hd]; subst. destruct (0 <=? p); [|apply IH; exact Hd].
  constructor; [|apply IH; exact Hd]. intros C. apply Hn. apply surv_keys_in in C. exact C.
Qed.

Lemma a_remove_perm_in : forall perm (a : list (Z * Z)) e, In e (a_remove_perm perm a) -> In e a.
Proof.
  induction perm as [|p perm IH]; intros [|x a] e; cbn [a_remove_perm]; try (intros []).
  destruct (0 <=? p); [intros [H|H]; [left; exact H | right; apply IH; exact H] | intros H; right; apply IH; exact H].
Qed.

Lemma ns_remove_perm_spec : forall s perm, ns_inv s -> zlen perm = thenum s ->
  let s' := fst (ns_remove_perm s perm) in
  ns_inv s' /\ snd (ns_remove_perm s perm) = a_perm_out perm 0 /\
  ds_abs 0 s' = a_remove_perm perm (ds_abs 0 s) /\
  ns_names s' = surv_keys perm (ns_names s) /\
  (forall name, ns_has s' name = true -> ns_has s name = true /\ ns_key s' name = ns_key s name).
Proof.
  intros s perm Hinv Hl. pose proof Hinv as [Hi Hnd]. cbv zeta. unfold ns_remove_perm.
  destruct (ds_remove_perm_spec Z 0 s perm Hi Hl) as (P1 & P2 & P3 & _).
  assert (Hnames : ns_names (fst (ds_remove_perm s perm)) = surv_keys perm (ns_names s)).
  { unfold ns_names. rewrite P3. apply map_snd_remove_perm. }
  assert (Hinv' : ns_inv (fst (ds_remove_perm s perm))).
  { split; [exact P1 | rewrite Hnames; apply surv_keys_nodup; exact Hnd]. }
  split; [exact Hinv'|]. split; [exact P2|]. split; [exact P3|]. split; [exact Hnames|].
  intros name Hh. destruct (ns_lookup _ name Hinv' Hh) as (_ & _ & _ & Hin).
  rewrite P3 in Hin. apply a_remove_perm_in in Hin.
  destruct (ns_key_of_in s _ name Hinv Hin) as [E1 E2]. split; [exact E2 | symmetry; exact E1].
Qed.

Lemma ns_clear_spec : forall s, ns_inv s ->
  ns_inv (ns_clear s) /\ ns_names (ns_clear s) = [] /\ (forall name, ns_has (ns_clear s) name = false).
Proof.
  intros s [Hi _]. unfold ns_clear. destruct (ds_clear_spec Z 0 s Hi) as [C1 C2].
  assert (Hn : ns_names (ds_clear s) = []) by (unfold ns_names; rewrite C2; reflexivity).
  split; [split; [exact C1 | rewrite Hn; constructor]|]. split; [exact Hn|].
  intros name. apply ns_lookup_absent. rewrite Hn. intros [].
Qed.

Lemma ns_remax_spec : forall s m, ns_inv s ->
  ns_inv (ns_remax s m) /\ ds_abs 0 (ns_remax s m) = ds_abs 0 s /\
  (forall name, ns_has (ns_remax s m) name = ns_has s name /\ ns_number (ns_remax s m) name = ns_number s name /\
                ns_key (ns_remax s m) name = ns_key s name).
Proof.
  intros s m [Hi Hnd]. unfold ns_remax. destruct (ds_remax_spec Z 0 s m Hi) as (R1 & R2 & _).
  assert (Hn : ns_names (ds_remax 0 s m) = ns_names s) by (unfold ns_names; rewrite R2; reflexivity).
  split; [split; [exact R1 | rewrite Hn; exact Hnd]|]. split; [exact R2|].
  intros name. assert (Hnum : ns_number (ds_remax 0 s m) name = ns_number s name) by (unfold ns_number; rewrite Hn; reflexivity).
  split; [unfold ns_has; rewrite Hnum; reflexivity|]. split; [exact Hnum|].
  rewrite !ns_key_abs by assumption. rewrite R2. reflexivity.
Qed.

(* ================================================================== C. SVSet growth, DataHashTable *)
Lemma svs_ensure_spec : forall D d0 (s : ds D) n, ds_inv s -> 0 <= n ->
  ds_inv (svs_ensure d0 s n) /\ ds_abs d0 (svs_ensure d0 s n) = ds_abs d0 s /\
  thenum (svs_ensure d0 s n) + n <= themax (svs_ensure d0 s n).
Proof.
  intros D d0 s n Hi Hn. unfold svs_ensure. destruct (Z.ltb_spec (themax s) (thenum s + n)) as [Hlt|Hge].
  - destruct (ds_remax_spec D d0 s (11 * themax s / 10 + 8 + n) Hi) as (R1 & R2 & R3 & _ & R5).
    split; [exact R1|]. split; [exact R2|]. rewrite R3, R5.
    destruct (inv_bounds _ s Hi) as [Hb1 Hb2]. pose proof (inv_max _ s Hi) as Hm.
    assert (themax s <= 11 * themax s / 10) by (apply Z.div_le_lower_bound; lia). lia.
  - split; [exact Hi|]. split; [reflexivity | lia].
Qed.

Lemma svs_ensure_num D d0 (s : ds D) n : ds_inv s -> thenum (svs_ensure d0 s n) = thenum s.
Proof.
  intros Hi. unfold svs_ensure. destruct (themax s <? thenum s + n); [|reflexivity].
  apply (ds_remax_spec D d0 s _ Hi).
Qed.

Lemma svs_add_spec : forall D d0 (s : ds D) x, ds_inv s ->
  let s' := fst (svs_add d0 s x) in let k := snd (svs_add d0 s x) in
  ds_inv s' /\ ds_abs d0 s' = ds_abs d0 s ++ [(k, x)] /\ ~ In k (a_keys (ds_abs d0 s)) /\
  thenum s' = thenum s + 1.
Proof.
  intros D d0 s x Hi. cbv zeta. unfold svs_add.
  destruct (svs_ensure_spec D d0 s 1 Hi ltac:(lia)) as (E1 & E2 & E3).
  pose proof (ds_add_spec D d0 (svs_ensure d0 s 1) x E1 ltac:(lia)) as Hadd. cbv zeta in Hadd.
  destruct Hadd as (A1 & A2 & A3 & _ & A5). rewrite E2 in A2, A3. rewrite (svs_ensure_num D d0 s 1 Hi) in A5.
  split; [exact A1|]. split; [exact A2|]. split; [exact A3 | exact A5].
Qed.

(* DataHashTable *)
Lemma ht_get_app t r k : ht_get (t ++ r) k = match ht_get t k with Some v => Some v | None => ht_get r k end.
Proof.
  induction t as [|[k' v] t IH]; cbn [app ht_get]; [reflexivity|]. destruct (k' =? k); [reflexivity | exact IH].
Qed.

Lemma ht_add_get : forall t k v k', ht_has t k = false ->
  ht_get (ht_add t k v) k' = if k' =? k then Some v else ht_get t k'.
Proof.
  intros t k v k' Hh. unfold ht_add. rewrite ht_get_app. cbn [ht_get]. rewrite (Z.eqb_sym k k').
  destruct (Z.eqb_spec k' k) as [E|E].
  - subst k'. unfold ht_has in Hh. destruct (ht_get t k); [discriminate | reflexivity].
  - destruct (ht_get t k'); reflexivity.
Qed.

Lemma ht_remove_get : forall t k k', ht_get (ht_remove t k) k' = if k' =? k then None else ht_get t k'.
Proof.
  intros t k k'. unfold ht_remove. induction t as [|[k0 v] t IH]; cbn [filter ht_get fst].
  - destruct (k' =? k); reflexivity.
  - destruct (Z.eqb_spec k0 k) as [E|E]; cbn [negb].
    + rewrite IH. subst k0. rewrite (Z.eqb_sym k k'). destruct (k' =? k); reflexivity.
    + cbn [ht_get]. destruct (Z.eqb_spec k0 k') as [E'|E']; [|exact IH].
      subst k0. replace (k' =? k) with false by (symmetry; apply Z.eqb_neq; exact E). reflexivity.
Qed.

Lemma ht_add_has : forall t k v, ht_has t k = false -> ht_has (ht_add t k v) k = true.
Proof. intros t k v H. unfold ht_has. rewrite ht_add_get by exact H. rewrite Z.eqb_refl. reflexivity. Qed.

Lemma ht_remove_has : forall t k, ht_has (ht_remove t k) k = false.
Proof. intros t k. unfold ht_has. rewrite ht_remove_get, Z.eqb_refl. reflexivity. Qed.

(* ================================================================== D. NameSet: the string memory *)
(* "memory operations change no observable": every name of the set reads back as its own string before and after
   memPack / memRemax / add / removals *)
Definition region {A} (mem : list A) (o k : nat) : list A := firstn k (skipn o mem).

Lemma region_app_l {A} (a y : list A) o k : (o + k <= length a)%nat -> region (a ++ y) o k = region a o k.
Proof.
  intros H. unfold region. rewrite skipn_app. replace (o - length a)%nat with 0%nat by lia. cbn [skipn].
  rewrite firstn_app, skipn_length. replace (k - (length a - o))%nat with 0%nat by lia. cbn [firstn]. apply app_nil_r.
Qed.

Lemma region_firstn {A} (b : list A) m o k : (o + k <= m)%nat -> region (firstn m b) o k = region b o k.
Proof. intros H. unfold region. rewrite skipn_firstn_comm, firstn_firstn. f_equal. lia. Qed.

Lemma region_prefix {A} (b y : list A) m o k : (o + k <= m)%nat -> (o + k <= length b)%nat ->
  region (firstn m b ++ y) o k = region b o k.
Proof.
  intros H1 H2. rewrite region_app_l by (rewrite firstn_length; lia). apply region_firstn. exact H1.
Qed.

Lemma write_at_zlen mem off s : 0 <= off -> off + zlen s <= zlen mem -> zlen (write_at mem off s) = zlen mem.
Proof. unfold write_at, zlen. intros H1 H2. rewrite !app_length, firstn_length, skipn_length. lia. Qed.

Lemma write_at_same mem off s : 0 <= off -> off <= zlen mem ->
  region (write_at mem off s) (Z.to_nat off) (length s) = s.
Proof.
  unfold write_at, region. intros H1 H2.
  assert (Hl : length (firstn (Z.to_nat off) mem) = Z.to_nat off) by (rewrite firstn_length; unfold zlen in *; lia).
  rewrite skipn_app, Hl, Nat.sub_diag. rewrite skipn_all2 by lia. cbn [skipn app]. apply firstn_app_len.
Qed.

Lemma write_at_other mem off s o k : 0 <= off -> off <= zlen mem -> (o + k <= Z.to_nat off)%nat ->
  region (write_at mem off s) o k = region mem o k.
Proof.
  unfold write_at. intros H1 H2 H3. apply region_prefix; [exact H3 | unfold zlen in *; lia].
Qed.

Lemma cstr_of_app s r : Forall (fun c => c <> 0) s -> cstr_of (s ++ 0 :: r) = s.
Proof.
  induction 1 as [|c s Hc Hs IH]; cbn [app cstr_of]; [reflexivity|].
  destruct (Z.eqb_spec c 0) as [E|E]; [contradiction|]. rewrite IH. reflexivity.
Qed.

Lemma nstr_nonzero id : Forall (fun c => c <> 0) (nstr id).
Proof.
  unfold nstr. apply Forall_forall. intros c Hc. apply repeat_spec in Hc. subst c.
  pose proof (Z.mod_pos_bound id 3 ltac:(lia)). lia.
Qed.

Definition nm_size (id : Z) : Z := zlen (nstr id) + 1.
Definition nm_stored (mem : list Z) (o id : Z) : Prop :=
  region mem (Z.to_nat o) (length (nstr id) + 1) = nstr id ++ [0].

Lemma nm_size_pos id : 1 <= nm_size id.
Proof. unfold nm_size. pose proof (zlen_nonneg (nstr id)). lia. Qed.

Lemma cstr_stored mem o id : nm_stored mem o id -> cstr mem o = nstr id.
Proof.
  unfold cstr, nm_stored, region. intros H.
  rewrite <- (firstn_skipn (length (nstr id) + 1) (skipn (Z.to_nat o) mem)). rewrite H.
  rewrite <- app_assoc. cbn [app]. apply cstr_of_app, nstr_nonzero.
Qed.

Lemma nm_lookup_in offs id : In id (map fst offs) -> exists o, nm_lookup offs id = Some o /\ In (id, o) offs.
Proof.
  induction offs as [|[i o] r IH]; cbn [map fst nm_lookup In]; [intros []|]. intros H.
  destruct (Z.eqb_spec i id) as [E|E].
  - subst i. exists o. split; [reflexivity | left; reflexivity].
  - destruct H as [H|H]; [contradiction|]. destruct (IH H) as (o' & H1 & H2). exists o'. split; [exact H1 | right; exact H2].
Qed.

Definition offs_size (offs : list (Z * Z)) : Z := fold_right (fun e a => nm_size (fst e) + a) 0 offs.
Definition order_size (order : list Z) : Z := fold_right (fun id a => zlen (nstr id) + 1 + a) 0 order.

(* well-formedness: order = the identifiers of the names of the set, in any order *)
Record nm_wf (order : list Z) (st : nmem) : Prop := mk_nm_wf {
  wf_len : zlen (nm_mem st) = nm_max st;
  wf_used : 0 <= nm_used st <= nm_max st;
  wf_order : NoDup order;
  wf_nonneg : forall id, In id order -> 0 <= id;
  wf_ids : NoDup (map fst (nm_off st));
  wf_same : forall id, In id order <-> In id (map fst (nm_off st));
  wf_stored : forall id o, In (id, o) (nm_off st) ->
                0 <= o /\ o + nm_size id <= nm_used st /\ nm_stored (nm_mem st) o id;
  wf_sum : offs_size (nm_off st) <= nm_used st     (* the stored strings do not overlap: their sizes add up *)
}.

(* 1 *)
Lemma nm_name_wf : forall order st id, nm_wf order st -> In id order -> nm_name st id = nstr id.
Proof.
  intros order st id Hwf Hin. apply (wf_same _ _ Hwf) in Hin.
  destruct (nm_lookup_in _ _ Hin) as (o & Hl & Ho). unfold nm_name. rewrite Hl.
  apply cstr_stored. apply (wf_stored _ _ Hwf id o Ho).
Qed.

(* 2 *)
Lemma nm_init_wf : forall setmax mmax, 0 <= setmax -> nm_wf [] (nm_init setmax mmax).
Proof.
  intros setmax mmax Hs. unfold nm_init. set (m := if mmax <? 1 then 8 * setmax + 1 else mmax).
  assert (Hm : 0 <= m) by (unfold m; destruct (Z.ltb_spec mmax 1); lia).
  constructor; cbn [nm_mem nm_used nm_max nm_off map].
  - rewrite zlen_repeat. lia.
  - lia.
  - constructor.
  - intros id [].
  - constructor.
  - intros id. split; intros [].
  - intros id o [].
  - cbn. lia.
Qed.

Lemma offs_size_app a b : offs_size (a ++ b) = offs_size a + offs_size b.
Proof. unfold offs_size. induction a as [|e a IH]; cbn [app fold_right]; [lia | rewrite IH; lia]. Qed.

Lemma offs_size_order offs : offs_size offs = order_size (map fst offs).
Proof. unfold offs_size, order_size, nm_size. induction offs as [|e r IH]; cbn [map fold_right]; [reflexivity | rewrite IH; reflexivity]. Qed.

Lemma order_size_perm a b : Permutation a b -> order_size a = order_size b.
Proof. unfold order_size. induction 1; cbn [fold_right]; lia. Qed.

Lemma order_size_app a b : order_size (a ++ b) = order_size a + order_size b.
Proof. unfold order_size. induction a as [|e a IH]; cbn [app fold_right]; [lia | rewrite IH; lia]. Qed.

Lemma order_size_nonneg a : 0 <= order_size a.
Proof. unfold order_size. induction a as [|e a IH]; cbn [fold_right]; [lia|]. pose proof (zlen_nonneg (nstr e)). lia. Qed.

Lemma nm_wf_order_size order st : nm_wf order st -> order_size order = offs_size (nm_off st).
Proof.
  intros Hwf. rewrite offs_size_order. apply order_size_perm.
  apply NoDup_Permutation; [apply (wf_order _ _ Hwf) | apply (wf_ids _ _ Hwf) | apply (wf_same _ _ Hwf)].
Qed.

(* 3: memPack *)
Lemma nm_pack_fold old : forall todo buf last offs,
  (forall id, In id todo -> nm_name old id = nstr id) ->
  0 <= last -> last + order_size todo <= zlen buf ->
  (forall id o, In (id, o) offs -> 0 <= o /\ o + nm_size id <= last /\ nm_stored buf o id) ->
  exists buf' offs',
    fold_left (nm_pack_step old) todo (buf, last, offs) = (buf', last + order_size todo, offs') /\
    zlen buf' = zlen buf /\ map fst offs' = map fst offs ++ todo /\
    offs_size offs' = offs_size offs + order_size todo /\
    (forall id o, In (id, o) offs' -> 0 <= o /\ o + nm_size id <= last + order_size todo /\ nm_stored buf' o id).
Proof.
  induction todo as [|id todo IH]; intros buf last offs Hn Hl Hfit Hst.
  - exists buf, offs. cbn [fold_left]. change (order_size (@nil Z)) with 0.
    rewrite !Z.add_0_r, app_nil_r. split; [reflexivity|]. split; [reflexivity|]. split; [reflexivity|]. split; [reflexivity | exact Hst].
  - cbn [fold_left]. unfold nm_pack_step at 2. rewrite (Hn id (or_introl eq_refl)).
    change (order_size (id :: todo)) with (zlen (nstr id) + 1 + order_size todo) in *.
    pose proof (order_size_nonneg todo) as Hnn. pose proof (zlen_nonneg (nstr id)) as Hz.
    set (buf1 := write_at buf last (nstr id ++ [0])).
    assert (Hlen1 : zlen buf1 = zlen buf).
    { apply write_at_zlen; [exact Hl|]. rewrite zlen_app. change (zlen [0]) with 1. lia. }
    destruct (IH buf1 (last + zlen (nstr id) + 1) (offs ++ [(id, last)])) as (buf' & offs' & E & H1 & H2 & H3 & H4).
    + intros i Hi. apply Hn. right. exact Hi.
    + lia.
    + rewrite Hlen1. lia.
    + intros i o Hio. apply in_app_or in Hio. destruct Hio as [Hio|[Hio|[]]].
      * destruct (Hst i o Hio) as (A1 & A2 & A3). split; [exact A1|]. split; [lia|].
        unfold nm_stored, buf1. rewrite write_at_other; [exact A3 | exact Hl | lia |].
        unfold nm_size, zlen in *. lia.
      * inversion Hio; subst i o. split; [exact Hl|]. split; [unfold nm_size; lia|].
        unfold nm_stored, buf1. replace (length (nstr id) + 1)%nat with (length (nstr id ++ [0])) by (rewrite app_length; reflexivity).
        apply write_at_same; [exact Hl | lia].
    + exists buf', offs'. replace (last + (zlen (nstr id) + 1 + order_size todo)) with (last + zlen (nstr id) + 1 + order_size todo) by lia.
      split; [exact E|]. split; [rewrite H1; exact Hlen1|]. split.
      { rewrite H2, map_app. cbn [map fst]. rewrite <- app_assoc. reflexivity. }
      split; [rewrite H3, offs_size_app; unfold offs_size at 2; cbn [fold_right fst]; unfold nm_size; lia | exact H4].
Qed.

Lemma nm_pack_spec : forall order st, nm_wf order st ->
  nm_wf order (nm_pack order st) /\
  (forall id, In id order -> nm_name (nm_pack order st) id = nm_name st id) /\
  nm_used (nm_pack order st) <= nm_used st /\ nm_max (nm_pack order st) = nm_max st /\
  nm_used (nm_pack order st) = fold_right (fun id a => zlen (nstr id) + 1 + a) 0 order.
Proof.
  intros order st Hwf. pose proof (wf_used _ _ Hwf) as Hu. pose proof (wf_len _ _ Hwf) as Hlen.
  assert (Hsum : order_size order <= nm_used st) by (rewrite (nm_wf_order_size _ _ Hwf); apply (wf_sum _ _ Hwf)).
  destruct (nm_pack_fold st order (repeat 0 (Z.to_nat (nm_used st))) 0 [])
    as (buf' & offs' & E & H1 & H2 & H3 & H4).
  { intros id Hid. apply (nm_name_wf order); assumption. }
  { lia. }
  { rewrite zlen_repeat. lia. }
  { intros id o []. }
  rewrite zlen_repeat in H1. rewrite Z.add_0_l in *. cbn [map app] in H2. change (offs_size []) with 0 in H3.
  pose proof (order_size_nonneg order) as Hnn.
  assert (Hwf' : nm_wf order (nm_pack order st)).
  { unfold nm_pack. rewrite E. constructor; cbn [nm_mem nm_used nm_max nm_off].
    - rewrite zlen_copy_prefix by lia. exact Hlen.
    - lia.
    - apply (wf_order _ _ Hwf).
    - apply (wf_nonneg _ _ Hwf).
    - rewrite H2. apply (wf_order _ _ Hwf).
    - intros id. rewrite H2. reflexivity.
    - intros id o Hio. destruct (H4 id o Hio) as (A1 & A2 & A3). split; [exact A1|]. split; [exact A2|].
      unfold nm_stored, copy_prefix in *. rewrite region_prefix; [exact A3 | | ]; unfold nm_size, zlen in *; lia.
    - lia. }
  split; [exact Hwf'|]. split.
  { intros id Hid. rewrite (nm_name_wf order _ id Hwf' Hid), (nm_name_wf order _ id Hwf Hid). reflexivity. }
  unfold nm_pack. rewrite E. cbn [nm_used nm_max]. split; [exact Hsum|]. split; reflexivity.
Qed.

(* 4: memRemax *)
Lemma nm_remax_spec : forall order st m, nm_wf order st ->
  nm_wf order (nm_remax st m) /\
  (forall id, In id order -> nm_name (nm_remax st m) id = nm_name st id) /\
  nm_used (nm_remax st m) = nm_used st /\ nm_max (nm_remax st m) = Z.max m (nm_used st).
Proof.
  intros order st m Hwf. pose proof (wf_used _ _ Hwf) as Hu. pose proof (wf_len _ _ Hwf) as Hlen.
  assert (Hm : (if m <? nm_used st then nm_used st else m) = Z.max m (nm_used st)) by (destruct (Z.ltb_spec m (nm_used st)); lia).
  assert (Hwf' : nm_wf order (nm_remax st m)).
  { unfold nm_remax. rewrite Hm. constructor; cbn [nm_mem nm_used nm_max nm_off].
    - apply zlen_resize. lia.
    - lia.
    - apply (wf_order _ _ Hwf).
    - apply (wf_nonneg _ _ Hwf).
    - apply (wf_ids _ _ Hwf).
    - apply (wf_same _ _ Hwf).
    - intros id o Hio. destruct (wf_stored _ _ Hwf id o Hio) as (A1 & A2 & A3). split; [exact A1|]. split; [exact A2|].
      unfold nm_stored, resize in *. rewrite region_prefix; [exact A3 | | ]; unfold nm_size, zlen in *; lia.
    - apply (wf_sum _ _ Hwf). }
  split; [exact Hwf'|]. split.
  { intros id Hid. rewrite (nm_name_wf order _ id Hwf' Hid), (nm_name_wf order _ id Hwf Hid). reflexivity. }
  unfold nm_remax. cbn [nm_used nm_max]. split; [reflexivity | exact Hm].
Qed.

(* 5: add *)
Lemma nm_add_spec : forall order st id, nm_wf order st -> 0 <= id -> ~ In id order ->
  nm_wf (order ++ [id]) (nm_add order st id) /\ nm_name (nm_add order st id) id = nstr id /\
  (forall other, In other order -> nm_name (nm_add order st id) other = nm_name st other).
Proof.
  intros order st id Hwf Hid Hnin. unfold nm_add. cbv zeta.
  set (len := zlen (nstr id)). pose proof (zlen_nonneg (nstr id)) as Hlen0. fold len in Hlen0.
  set (st1 := if nm_max st <=? nm_used st + len
              then (if nm_max (nm_pack order st) <=? nm_used (nm_pack order st) + len
                    then nm_remax (nm_pack order st) (2 * nm_max (nm_pack order st) + 9 + len)
                    else nm_pack order st)
              else st).
  assert (H1 : nm_wf order st1 /\ nm_used st1 + len + 1 <= nm_max st1).
  { unfold st1. destruct (Z.leb_spec (nm_max st) (nm_used st + len)) as [Hfull|Hfree]; [|split; [exact Hwf | lia]].
    destruct (nm_pack_spec order st Hwf) as (P1 & _ & _ & _ & _).
    destruct (Z.leb_spec (nm_max (nm_pack order st)) (nm_used (nm_pack order st) + len)) as [Hfull2|Hfree2];
      [|split; [exact P1 | lia]].
    destruct (nm_remax_spec order _ (2 * nm_max (nm_pack order st) + 9 + len) P1) as (R1 & _ & R3 & R4).
    split; [exact R1|]. rewrite R3, R4. pose proof (wf_used _ _ P1). lia. }
  destruct H1 as [Hwf1 Hfit]. clearbody st1.
  pose proof (wf_used _ _ Hwf1) as Hu. pose proof (wf_len _ _ Hwf1) as Hl.
  assert (Hs : zlen (nstr id ++ [0]) = len + 1) by (rewrite zlen_app; reflexivity).
  assert (Hwf' : nm_wf (order ++ [id])
                   (mkNM (write_at (nm_mem st1) (nm_used st1) (nstr id ++ [0])) (nm_used st1 + len + 1) (nm_max st1)
                         (nm_off st1 ++ [(id, nm_used st1)]))).
  { constructor; cbn [nm_mem nm_used nm_max nm_off].
    - rewrite write_at_zlen by lia. exact Hl.
    - lia.
    - apply NoDup_snoc; [exact Hnin | apply (wf_order _ _ Hwf1)].
    - intros i Hi. apply in_app_or in Hi. destruct Hi as [Hi|[Hi|[]]]; [apply (wf_nonneg _ _ Hwf1); exact Hi | lia].
    - rewrite map_app. cbn [map fst]. apply NoDup_snoc; [|apply (wf_ids _ _ Hwf1)].
      intros C. apply Hnin. apply (wf_same _ _ Hwf1). exact C.
    - intros i. rewrite map_app, !in_app_iff. cbn [map fst]. rewrite (wf_same _ _ Hwf1 i). reflexivity.
    - intros i o Hio. apply in_app_or in Hio. destruct Hio as [Hio|[Hio|[]]].
      + destruct (wf_stored _ _ Hwf1 i o Hio) as (A1 & A2 & A3). split; [exact A1|]. split; [lia|].
        unfold nm_stored. rewrite write_at_other; [exact A3 | lia | lia |]. unfold nm_size, zlen in *. lia.
      + inversion Hio; subst i o. split; [lia|]. split; [unfold nm_size; fold len; lia|].
        unfold nm_stored. replace (length (nstr id) + 1)%nat with (length (nstr id ++ [0])) by (rewrite app_length; reflexivity).
        apply write_at_same; lia.
    - rewrite offs_size_app. unfold offs_size at 2. cbn [fold_right fst]. unfold nm_size. fold len.
      pose proof (wf_sum _ _ Hwf1). lia. }
  split; [exact Hwf'|]. split.
  - apply (nm_name_wf (order ++ [id])); [exact Hwf' | apply in_or_app; right; left; reflexivity].
  - intros other Ho. rewrite (nm_name_wf order st other Hwf Ho).
    apply (nm_name_wf (order ++ [id])); [exact Hwf' | apply in_or_app; left; exact Ho].
Qed.

(* 6: removals and clear *)
Lemma NoDup_map_filter {A B} (f : A -> B) (p : A -> bool) l : NoDup (map f l) -> NoDup (map f (filter p l)).
Proof.
  induction l as [|a l IH]; cbn [map filter]; intros H; [constructor|]. inversion H as [|? ? Hn Hd]; subst.
  destruct (p a); cbn [map]; [|apply IH; exact Hd]. constructor; [|apply IH; exact Hd].
  intros C. apply Hn. apply in_map_iff in C. destruct C as (x & Ex & Hx). apply filter_In in Hx.
  apply in_map_iff. exists x. tauto.
Qed.

Lemma offs_size_filter p offs : offs_size (filter p offs) <= offs_size offs.
Proof.
  unfold offs_size. induction offs as [|e r IH]; cbn [filter fold_right]; [lia|].
  pose proof (nm_size_pos (fst e)). destruct (p e); cbn [fold_right]; lia.
Qed.

Lemma nm_keep_spec : forall order st rem, nm_wf order st -> NoDup rem -> (forall id, In id rem -> In id order) ->
  nm_wf rem (nm_keep rem st) /\ (forall id, In id rem -> nm_name (nm_keep rem st) id = nm_name st id).
Proof.
  intros order st rem Hwf Hnd Hsub.
  assert (Hwf' : nm_wf rem (nm_keep rem st)).
  { unfold nm_keep. constructor; cbn [nm_mem nm_used nm_max nm_off].
    - apply (wf_len _ _ Hwf).
    - apply (wf_used _ _ Hwf).
    - exact Hnd.
    - intros id Hid. apply (wf_nonneg _ _ Hwf). apply Hsub. exact Hid.
    - apply NoDup_map_filter. apply (wf_ids _ _ Hwf).
    - intros id. split.
      + intros Hid. pose proof (Hsub id Hid) as Ho. apply (wf_same _ _ Hwf) in Ho.
        apply in_map_iff in Ho. destruct Ho as ([i o] & Ei & Hio). cbn [fst] in Ei. subst i.
        apply in_map_iff. exists (id, o). split; [reflexivity|]. apply filter_In. split; [exact Hio|].
        cbn [fst]. apply existsb_exists. exists id. split; [exact Hid | apply Z.eqb_refl].
      + intros Hid. apply in_map_iff in Hid. destruct Hid as ([i o] & Ei & Hio). cbn [fst] in Ei. subst i.
        apply filter_In in Hio. destruct Hio as [_ Hex]. apply existsb_exists in Hex.
        destruct Hex as (x & Hx & Ex). cbn [fst] in Ex. apply Z.eqb_eq in Ex. subst x. exact Hx.
    - intros id o Hio. apply filter_In in Hio. apply (wf_stored _ _ Hwf id o). tauto.
    - pose proof (offs_size_filter (fun e => existsb (Z.eqb (fst e)) rem) (nm_off st)). pose proof (wf_sum _ _ Hwf). lia. }
  split; [exact Hwf'|]. intros id Hid.
  rewrite (nm_name_wf rem _ id Hwf' Hid), (nm_name_wf order _ id Hwf (Hsub id Hid)). reflexivity.
Qed.

Lemma nm_clear_wf : forall order st, nm_wf order st -> nm_wf [] (nm_clear st).
Proof.
  intros order st Hwf. pose proof (wf_used _ _ Hwf). unfold nm_clear. constructor; cbn [nm_mem nm_used nm_max nm_off map].
  - apply (wf_len _ _ Hwf).
  - lia.
  - constructor.
  - intros id [].
  - constructor.
  - intros id. split; intros [].
  - intros id o [].
  - cbn. lia.
Qed.
