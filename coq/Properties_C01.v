(* C01 - OPTIMAL is backed by a primal-dual certificate in the user's problem space.
   The floating-point simplex, presolve and scaling are untrusted witness producers.  These theorems say what an
   accepted witness implies for the LP exactly as the user stated it, for LPs of every size. *)
From Coq Require Import QArith Qabs List Bool.
From SV Require Import Vec LP Cert Cert_Proofs DriverModel Driver_Proofs Driver_Honest RatGateModel SolveGateModel SolveGate_Proofs.
Import ListNotations.
Local Open Scope Q_scope.

(* Weak duality: the dual objective of ANY row multipliers bounds the objective of EVERY feasible point. *)
Theorem C01_weak_duality :
  forall p y x b, dual_bound p y = Some b -> feasible p x -> no_worse p b (objective p x).
Proof. exact weak_duality. Qed.
Print Assumptions C01_weak_duality.

(* An exact primal-dual pair accepted by the checker is optimal: feasible, and no feasible point is better. *)
Theorem C01_exact_certificate_optimal :
  forall p x y, check_opt_exact p x y = true -> optimal p x.
Proof. exact opt_cert_sound. Qed.
Print Assumptions C01_exact_certificate_optimal.

(* What an accepted floating-point answer states, clause by clause (the clause list of the property): bounds and
   sides within tp, slack = row activity within tp, reduced cost = objective - dual-weighted column within td, dual sign
   conditions beyond td only at a bound/side that is tight within tc, reported value = c.x + offset within tv(1+|v|);
   hence the primal vector is feasible within 2 tp. *)
Theorem C01_accepted_answer_satisfies_clauses :
  forall t p x s y d v, 0 <= tp t -> check_opt_tol t p x s y d v = true ->
    opt_tol_clauses t p x s y d v /\ feasible_tol (tp t + tp t) p x.
Proof. exact check_opt_tol_spec. Qed.
Print Assumptions C01_accepted_answer_satisfies_clauses.

(* The transposition identity (y^T A) z = y^T (A z) on which the above rests, for matrices and vectors of any size. *)
Theorem C01_transposition :
  forall A y z, dot (tmat_vec A y) z == dot y (mat_vec A z).
Proof. exact dot_tmat_vec. Qed.
Print Assumptions C01_transposition.

(* No LP has two different verdicts. *)
Theorem C01_verdicts_exclusive :
  forall p, (forall x, optimal p x -> ~ infeasible p) /\ (forall x, optimal p x -> ~ unbounded p) /\ (unbounded p -> ~ infeasible p).
Proof. exact verdicts_exclusive. Qed.
Print Assumptions C01_verdicts_exclusive.

(* ---- the solve driver (solvereal.hpp: _optimize, _preprocessAndSolveReal, _evaluateSolutionReal, _storeSolutionReal,
   _verifySolutionReal, ...), modelled in DriverModel.v and tied to the code by replaying every recorded control trace.
   The simplifier, the scalers and the simplex engine are oracles: the theorems hold for EVERY sequence of answers. ---- *)

(* The OPTIMAL gate: whatever the simplifier, the scaler and the engine answer, optimize() ends with status OPTIMAL only
   with a stored solution that was computed on the user's LP itself (not simplified, not scaled) or that passed
   _verifySolutionReal in the user's problem space (all four violations below their tolerance). *)
Theorem C01_optimal_is_gated :
  forall P orc oscaled s0 r, optimize P orc oscaled FUEL s0 = Done r -> DriverModel.status r = DriverModel.OPTIMAL -> sol_ok r = true.
Proof. exact optimal_is_gated. Qed.
Print Assumptions C01_optimal_is_gated.

(* Exactly the undo maps that separate the solver's LP from the user's LP are applied (internal unscaling, unsimplify,
   persistent unscaling): a gated solution, a ray and a Farkas vector are always handed out in the user's problem space. *)
Theorem C01_stored_solution_in_user_space :
  forall P orc oscaled s0 r, optimize P orc oscaled FUEL s0 = Done r ->
    (sol_ok r || has_ray r || has_farkas r) = true -> is_user_space (sol_space r) = true.
Proof. exact offered_solution_in_user_space. Qed.
Print Assumptions C01_stored_solution_in_user_space.

(* The driver's re-solve recursion (failed verification, polishing pass, singular basis, cycling, exception in unsimplify,
   ENSURERAY) always ends: at most FUEL = 5 nested calls of _preprocessAndSolveReal, for every oracle. *)
Theorem C01_driver_terminates :
  forall P orc oscaled s0, optimize P orc oscaled FUEL s0 <> OutOfFuel.
Proof. exact driver_terminates. Qed.
Print Assumptions C01_driver_terminates.

(* ---- the in-tree verification gate (soplex.hpp getBoundViolation / getRowViolation / getDualViolation / getRedCostViolation and
   the comparison of _verifySolutionReal), modelled in SolveGateModel.v and compared with the code on injected solutions. ---- *)

(* Each of the four bits is exactly the statement "some entry violates by the tolerance or more": the violation functions are
   sound and complete for what they look at (bounds; sides of the row ACTIVITY; multiplier signs against the BASIS STATUS). *)
Theorem C01_gate_bits_characterised :
  forall tf t_o p x y d rst cst, 0 < tf -> 0 < t_o ->
    (Qle_bool tf (fst (bound_violation p x)) = false <->
       forall j, (j < ncols p)%nat -> range_ok tf (c_lo (colj p j)) (c_up (colj p j)) (vnth x j)) /\
    (Qle_bool tf (fst (row_violation p x)) = false <->
       forall i, (i < nrows p)%nat -> range_ok tf (r_lhs (rowi p i)) (r_rhs (rowi p i)) (activity p i x)) /\
    (Qle_bool t_o (fst (dual_violation p rst y)) = false <->
       forall i, (i < nrows p)%nat -> sign_ok t_o (maximize p) (stat rst i) (vnth y i)) /\
    (Qle_bool t_o (fst (redcost_violation p cst d)) = false <->
       forall j, (j < ncols p)%nat -> sign_ok t_o (maximize p) (stat cst j) (vnth d j)).
Proof. exact gate_bits_spec. Qed.
Print Assumptions C01_gate_bits_characterised.

(* A passed gate, TOGETHER WITH the three things it does not look at (slack = activity, reduced cost = c - A^T y, every non-basic
   status names a bound the value sits at) and the objective clause, gives a certificate accepted by check_opt_tol: all clauses
   of the property hold for the user's LP with the tolerances (feastol + es, opttol + ed, tc, tv). *)
Theorem C01_gate_implies_certificate :
  forall tf t_o es ed tcc tvv p x s y d v rst cst,
    0 < tf -> 0 < t_o -> 0 <= es -> 0 <= ed ->
    length x = ncols p -> length d = ncols p -> length s = nrows p -> length y = nrows p ->
    gate_passes tf t_o p x y d rst cst = true ->
    (forall i, (i < nrows p)%nat -> Qabs_le (vnth s i - activity p i x) es = true) ->
    (forall j, (j < ncols p)%nat -> Qabs_le (vnth d j - redcost p y j) ed = true) ->
    (forall j, (j < ncols p)%nat -> status_consistent tcc (stat cst j) (c_lo (colj p j)) (c_up (colj p j)) (vnth x j) = true) ->
    (forall i, (i < nrows p)%nat -> status_consistent tcc (stat rst i) (r_lhs (rowi p i)) (r_rhs (rowi p i)) (vnth s i) = true) ->
    Qabs_le (v - objective p x) (tvv * (1 + Qabs v)) = true ->
    check_opt_tol {| tp := tf + es; td := t_o + ed; tc := tcc; tv := tvv |} p x s y d v = true.
Proof. exact gate_implies_cert. Qed.
Print Assumptions C01_gate_implies_certificate.

(* The gate never lets a primal violation of the tolerance or more pass. *)
Theorem C01_gate_rejects_primal_violation :
  forall tf t_o p x y d rst cst, 0 < tf ->
    (exists j l, (j < ncols p)%nat /\ c_lo (colj p j) = Some l /\ tf <= l - vnth x j) \/
    (exists j u, (j < ncols p)%nat /\ c_up (colj p j) = Some u /\ tf <= vnth x j - u) \/
    (exists i l, (i < nrows p)%nat /\ r_lhs (rowi p i) = Some l /\ tf <= l - activity p i x) \/
    (exists i u, (i < nrows p)%nat /\ r_rhs (rowi p i) = Some u /\ tf <= activity p i x - u) ->
    gate_passes tf t_o p x y d rst cst = false.
Proof. exact gate_rejects_primal_violation. Qed.
Print Assumptions C01_gate_rejects_primal_violation.

(* The gate alone is NOT the certificate: it trusts the basis statuses.  min x, 0 <= x <= 10 with x = 5 reported ON_LOWER and
   reduced cost 1 passes the gate although x is not optimal; the independent checker rejects it (sign condition without a
   tight bound).  This is why every OPTIMAL answer is judged by check_opt_tol and not by the code's own gate. *)
Theorem C01_gate_alone_is_not_a_certificate_refuted :
  gate_passes (1 # 1000000) (1 # 1000000) ex_gate_lp [5] [] [1] [] [ON_LOWER] = true /\
  check_opt_tol {| tp := 1 # 1000000; td := 1 # 1000000; tc := 1 # 10000; tv := 1 # 10000000 |} ex_gate_lp [5] [] [] [1] 5 = false /\
  ~ optimal ex_gate_lp [5].
Proof. exact gate_alone_is_not_a_certificate. Qed.
Print Assumptions C01_gate_alone_is_not_a_certificate_refuted.

(* ---- non-vacuity ---- *)
(* the status the driver ends with is what its last pass shows (Driver_Honest.v): OPTIMAL is the status of the last inner
   solve (or cycling resolved to it, or the simplifier made the LP vanish), never a left-over of an earlier pass *)
Theorem C01_optimal_is_last_pass : forall P orc oscaled fuel s0 s',
  optimize P orc oscaled fuel s0 = Done s' -> DriverModel.status s' = DriverModel.OPTIMAL ->
  exists f, frame s' = S f /\
    (o_status (orc f) = DriverModel.OPTIMAL \/ (o_status (orc f) = DriverModel.ABORT_CYCLING /\ o_cycstatus (orc f) = DriverModel.OPTIMAL) \/
     (p_simp P = true /\ o_simp (orc f) = S_VANISHED)).
Proof. exact optimal_not_claimed_after_limit. Qed.
Print Assumptions C01_optimal_is_last_pass.

Definition ex_orec (t : st) (vfail : bool) : orec :=
  {| o_simp := S_OKAY; o_scaled := true; o_status := t; o_throw := false; o_vbits := (false, vfail, false, false);
     o_dualfeas := true; o_cycstatus := ABORT_CYCLING; o_resbasis := true |}.
Definition ex_params : dparams :=
  {| p_simp := true; p_scaler := true; p_persist := true; p_ensureray := false; p_objlim := false |}.
Definition ex_state : dstate :=
  {| simp_on := false; scaler_on := true; loaded := true; scaled := false; sol_scaled := false; intl := false;
     has_basis := false; DriverModel.status := OTHER 0; has_sol := false; has_ray := false; has_farkas := false; apply_pol := false;
     objlim_en := true; opt_calls := 0; unsc_calls := 0; sol_space := user_space; sol_ok := false; frame := O; trace := [] |}.
(* presolved + persistently and internally scaled solve; the row violation fails the verification once, the LP is unscaled
   and solved again without preprocessing: two inner solves, OPTIMAL with a gated solution in user space *)
Example C01_ex_driver_run :
  match optimize ex_params (fun k => ex_orec DriverModel.OPTIMAL (Nat.eqb k 0)) true FUEL ex_state with
  | Done r => DriverModel.status r = DriverModel.OPTIMAL /\ sol_ok r = true /\ frame r = 2%nat /\ scaled r = false /\ is_user_space (sol_space r) = true
  | _ => False
  end.
Proof. vm_compute. repeat split. Qed.

Definition ex_lp : lp :=
  {| maximize := false; offset := 3;
     cols := [ {| c_obj := 1; c_lo := Some 0; c_up := Some 4 |}; {| c_obj := 2; c_lo := Some 0; c_up := None |} ];
     rows := [ {| r_lhs := Some 2; r_coef := [1; 1]; r_rhs := None |} ] |}.
Example C01_ex_certificate_accepted : check_opt_exact ex_lp [2; 0] [1] = true.
Proof. vm_compute. reflexivity. Qed.
Example C01_ex_optimal : optimal ex_lp [2; 0].
Proof. apply C01_exact_certificate_optimal with (y := [1]). vm_compute. reflexivity. Qed.
Example C01_ex_dual_bound : dual_bound ex_lp [1] = Some (5 # 1) \/ exists b, dual_bound ex_lp [1] = Some b /\ b == 5.
Proof. right. eexists. split. vm_compute. reflexivity. reflexivity. Qed.
(* a vertex with consistent statuses passes the gate and the theorem's conclusion holds *)
Example C01_ex_gate :
  gate_passes (1 # 1000000) (1 # 1000000) ex_lp [2; 0] [1] [0; 1] [ON_LOWER] [BASIC; ON_LOWER] = true /\
  check_opt_tol {| tp := (1 # 1000000) + 0; td := (1 # 1000000) + 0; tc := 0; tv := 0 |} ex_lp [2; 0] [2] [1] [0; 1] 5 = true.
Proof. split; vm_compute; reflexivity. Qed.

