(* C01 - OPTIMAL is backed by a primal-dual certificate in the user's problem space.
   The floating-point simplex, presolve and scaling are untrusted witness producers.  These theorems say what an
   accepted witness implies for the LP exactly as the user stated it, for LPs of every size. *)
From Coq Require Import QArith Qabs List Bool.
From SV Require Import Vec LP Cert Cert_Proofs.
Import ListNotations.
Local Open Scope Q_scope.

(* Weak duality: the dual objective of ANY row multipliers bounds the objective of EVERY feasible point. *)
Theorem C01_weak_duality :
  forall p y x b, dual_bound p y = Some b -> feasible p x -> no_worse p b (objective p x).
Proof. exact weak_duality. Qed.
Print Assumptions C01_weak_duality.

(* An exact primal-dual pair accepted by the checker is optimal: feasible, and no feasible point is better. *)
Theorem C01_exact_certificate_optimal :
  forall p x y, check_opt_exact p x y = true -> optimal p x.
Proof. exact opt_cert_sound. Qed.
Print Assumptions C01_exact_certificate_optimal.

(* What an accepted floating-point answer states, clause by clause (the clause list of the property): bounds and
   sides within tp, slack = row activity within tp, reduced cost = objective - dual-weighted column within td, dual sign
   conditions beyond td only at a bound/side that is tight within tc, reported value = c.x + offset within tv(1+|v|);
   hence the primal vector is feasible within 2 tp. *)
Theorem C01_accepted_answer_satisfies_clauses :
  forall t p x s y d v, 0 <= tp t -> check_opt_tol t p x s y d v = true ->
    opt_tol_clauses t p x s y d v /\ feasible_tol (tp t + tp t) p x.
Proof. exact check_opt_tol_spec. Qed.
Print Assumptions C01_accepted_answer_satisfies_clauses.

(* The transposition identity (y^T A) z = y^T (A z) on which the above rests, for matrices and vectors of any size. *)
Theorem C01_transposition :
  forall A y z, dot (tmat_vec A y) z == dot y (mat_vec A z).
Proof. exact dot_tmat_vec. Qed.
Print Assumptions C01_transposition.

(* No LP has two different verdicts. *)
Theorem C01_verdicts_exclusive :
  forall p, (forall x, optimal p x -> ~ infeasible p) /\ (forall x, optimal p x -> ~ unbounded p) /\ (unbounded p -> ~ infeasible p).
Proof. exact verdicts_exclusive. Qed.
Print Assumptions C01_verdicts_exclusive.

(* ---- non-vacuity ---- *)
Definition ex_lp : lp :=
  {| maximize := false; offset := 3;
     cols := [ {| c_obj := 1; c_lo := Some 0; c_up := Some 4 |}; {| c_obj := 2; c_lo := Some 0; c_up := None |} ];
     rows := [ {| r_lhs := Some 2; r_coef := [1; 1]; r_rhs := None |} ] |}.
Example C01_ex_certificate_accepted : check_opt_exact ex_lp [2; 0] [1] = true.
Proof. vm_compute. reflexivity. Qed.
Example C01_ex_optimal : optimal ex_lp [2; 0].
Proof. apply C01_exact_certificate_optimal with (y := [1]). vm_compute. reflexivity. Qed.
Example C01_ex_dual_bound : dual_bound ex_lp [1] = Some (5 # 1) \/ exists b, dual_bound ex_lp [1] = Some b /\ b == 5.
Proof. right. eexists. split. vm_compute. reflexivity. reflexivity. Qed.
