(* C08 - RowSingletonPS::execute (coq/PostsolveModel.v, exec_RowSingleton): whatever branch the comparisons select, the
   restored point satisfies  slack = A x  and  redcost = c - A^T y  for the LP with the singleton row put back. *)
From Coq Require Import QArith Qabs List Bool Arith Lia Lqa Setoid.
From SV Require Import Vec LP Cert Cert_Proofs PostsolveModel Postsolve_Proofs.
Import ListNotations.
Local Open Scope Q_scope.

Lemma sget_app u v i : sget (u ++ v) i = if existsb (fun p => Nat.eqb (fst p) i) u then sget u i else sget v i.
Proof.
  induction u as [|[k a] u IH]; simpl; [reflexivity|].
  destruct (Nat.eqb k i); simpl; [reflexivity|exact IH].
Qed.

Lemma sget_sp_of_beyond f i : forall len b, (i < b)%nat ->
  sget (flat_map (fun k => if Qeq_bool (f k) 0 then [] else [(k, f k)]) (seq b len)) i = 0.
Proof.
  induction len as [|l IHl]; intros b Hb; [reflexivity|]. simpl seq. simpl flat_map. rewrite sget_app.
  destruct (Qeq_bool (f b) 0); simpl.
  - apply IHl. lia.
  - destruct (Nat.eqb_spec b i); [lia|]. simpl. apply IHl. lia.
Qed.

Lemma sget_sp_of f : forall len a i, (a <= i < a + len)%nat ->
  sget (flat_map (fun k => if Qeq_bool (f k) 0 then [] else [(k, f k)]) (seq a len)) i == f i.
Proof.
  induction len as [|len IH]; intros a i Hi; [lia|].
  simpl seq. simpl flat_map. rewrite sget_app.
  destruct (Nat.eq_dec a i) as [->|Hne].
  - destruct (Qeq_bool (f i) 0) eqn:E; simpl.
    + apply Qeq_bool_iff in E. rewrite E. rewrite sget_sp_of_beyond by lia. reflexivity.
    + rewrite Nat.eqb_refl. simpl. try rewrite Nat.eqb_refl. reflexivity.
  - destruct (Qeq_bool (f a) 0); simpl.
    + apply IH. lia.
    + destruct (Nat.eqb_spec a i); [congruence|]. simpl. apply IH. lia.
Qed.

Lemma sget_sp_col P j i : (i < nrows P)%nat -> sget (sp_col P j) i == coef P i j.
Proof. intros Hi. unfold sp_col, sp_of. apply (sget_sp_of (fun k => coef P k j) (nrows P) 0%nat i). lia. Qed.

(* the three shapes of the result *)
Definition rs_out (t : st) (i oi j : nat) (v yv : Q) (r' : list Q) (cs' rs' : list vstat) : st :=
  mkst (sx t) (unswap (sy t) i oi yv) (unswap (ss t) i oi v) r' cs' rs'.

Definition singleton_row (P : lp) (i j : nat) : Prop := forall k, k <> j -> coef P i k == 0.

Section RowSingleton.
  Variable P : lp.
  Variables i j : nat.
  Hypothesis W : wf_lp P.
  Hypothesis Hi : (i < nrows P)%nat.
  Hypothesis Hj : (j < ncols P)%nat.
  Hypothesis Hs : singleton_row P i j.
  Hypothesis Ha : ~ coef P i j == 0.
  Let P' := red_remove_row P i.
  Let m1 := (nrows P - 1)%nat.
  Let aij := coef P i j.

  (* the value the step computes from the stored column: c_j minus the multipliers of the OTHER rows *)
  Definition rs_val (t : st) : Q := c_obj (colj P j) - sdot_skip (sp_col P j) i (sy (fix_row_idx t i m1)).

  Lemma sy_fix_row t : forall k, k <> i -> vnth (sy (fix_row_idx t i m1)) k = vnth (unswap (sy t) i m1 0) k.
  Proof.
    intros k Hk. rewrite vnth_unswap. unfold fix_row_idx.
    destruct (Nat.eqb_spec i m1) as [E|E].
    - destruct (Nat.eqb_spec k i); [congruence|]. destruct (Nat.eqb_spec k m1); [congruence|]. reflexivity.
    - cbn [set_rs set_y set_s sy]. unfold gy.
      destruct (Nat.eqb_spec k i); [congruence|].
      destruct (Nat.eqb_spec k m1) as [->|Hkm]; [apply vnth_qupd_same|].
      now rewrite vnth_qupd_other by congruence.
  Qed.

  (* under the dual identity of the reduced LP this value is the reduced cost of column j in the reduced LP *)
  Lemma rs_val_is_redcost t : dual_ident P' t -> rs_val t == gr t j.
  Proof.
    intros H. specialize (H j Hj). rewrite H. unfold rs_val.
    unfold P' at 1. cbn [red_remove_row colj cols]. change (colj (red_remove_row P i) j) with (colj P j).
    apply Qplus_comp; [reflexivity|]. apply Qopp_comp.
    unfold sp_col. rewrite sdot_skip_sp_of.
    pose proof (tmat_vec_unswap (matrix P) (sy t) i 0 j) as U. rewrite matrix_length in U. specialize (U Hi).
    unfold P'. rewrite matrix_remove_row.
    assert (E : vnth (tmat_vec (swap_remove [] i (matrix P)) (sy t)) j == vnth (tmat_vec (matrix P) (unswap (sy t) i (nrows P - 1) 0)) j)
      by (rewrite U; ring).
    rewrite E, tvec_sumn. apply sumn_ext. intros k Hk. cbv beta.
    destruct (Nat.eqb_spec k i) as [->|Hki].
    - rewrite vnth_unswap, Nat.eqb_refl. ring.
    - fold m1. rewrite <- sy_fix_row by assumption. ring.
  Qed.

  (* every shape with  r'_j == r_j - a_ij * y_i  and the other reduced costs unchanged satisfies both identities *)
  Lemma rs_out_identities t v yv r' cs' rs' :
    prim_ident P' t -> dual_ident P' t -> v == aij * gx t j ->
    (forall k, k <> j -> vnth r' k == gr t k) -> vnth r' j == gr t j - aij * yv ->
    let t' := rs_out t i m1 j v yv r' cs' rs' in prim_ident P t' /\ dual_ident P t'.
  Proof.
    intros H1 H2 Hv0 Hr Hrj t'. split.
    - (* rows: the same argument as for restore_row; the value of row i is a_ij x_j *)
      assert (Hv : v == activity P i (sx t)).
      { rewrite Hv0, activity_sumn by auto.
        rewrite (sumn_change_one (ncols P) _ (fun _ => 0) j Hj).
        - rewrite sumn_zero by (intros; reflexivity). unfold aij, gx. ring.
        - intros k Hk Hkj. cbv beta. rewrite (Hs k Hkj). ring. }
      pose proof (restore_row_prim P i Hi v t Hv H1) as R.
      intros k Hk. specialize (R k Hk). unfold gs, restore_row in R; cbn [ss sx] in R.
      unfold t', rs_out, gs; cbn [ss sx]. exact R.
    - intros k Hk. unfold t', rs_out, gr; cbn [sr sy].
      pose proof (tmat_vec_unswap (matrix P) (sy t) i yv k) as U. rewrite matrix_length in U. specialize (U Hi).
      fold m1 in U. rewrite U. rewrite nth_matrix.
      specialize (H2 k Hk). unfold gr in H2. unfold P' in H2. rewrite matrix_remove_row in H2.
      change (colj (red_remove_row P i) k) with (colj P k) in H2.
      destruct (Nat.eq_dec k j) as [->|Hkj].
      + rewrite Hrj. unfold gr. rewrite H2. unfold aij, coef. ring.
      + rewrite (Hr k Hkj). unfold gr. rewrite H2. pose proof (Hs k Hkj) as Z. unfold coef in Z. rewrite Z. ring.
  Qed.
End RowSingleton.

(* ---- the result of the decision has one of three shapes, whatever the comparisons answer ---- *)
Section Shape.
  Variables (i j : nat) (val a : Q).
  (* t0: the state the decision starts from; t': its result *)
  Definition RS (t0 t' : st) : Prop :=
    sx t' = sx t0 /\ ss t' = ss t0 /\ (forall k, k <> j -> vnth (sr t') k = vnth (sr t0) k) /\
    exists yv, sy t' = qupd (sy t0) i yv /\
      ((yv = 0 /\ (vnth (sr t') j = vnth (sr t0) j \/ vnth (sr t') j = val \/ (gcs t0 j = BASIC /\ vnth (sr t') j = 0))) \/
       (yv = val / a /\ vnth (sr t') j = 0)).

  Lemma RS_slack t0 keep cst : RS t0 (rs_slack_basic t0 i j 0 val keep cst).
  Proof.
    destruct t0 as [x y s r cs rs]. unfold RS, rs_slack_basic, set_y, set_rs, set_r, set_cs.
    destruct keep, cst; cbn [sx sy ss sr scs srs];
      (split; [reflexivity|]; split; [reflexivity|]; split;
       [intros k Hk; try (rewrite vnth_qupd_other by congruence); reflexivity|];
       exists 0; split; [reflexivity|]; left; split; [reflexivity|];
       first [left; reflexivity | right; left; apply vnth_qupd_same]).
  Qed.

  Lemma RS_col t0 on_lhs : RS t0 (rs_col_basic t0 i j val a on_lhs).
  Proof.
    destruct t0 as [x y s r cs rs]. unfold RS, rs_col_basic, set_y, set_rs, set_r, set_cs. cbn [sx sy ss sr scs srs].
    split; [reflexivity|]; split; [reflexivity|]; split;
      [intros k Hk; rewrite vnth_qupd_other by congruence; reflexivity|].
    exists (val / a). split; [reflexivity|]. right. split; [reflexivity|apply vnth_qupd_same].
  Qed.

  Lemma RS_both t0 : gcs t0 j = BASIC -> RS t0 (rs_both_basic t0 i j 0).
  Proof.
    intros Hb. destruct t0 as [x y s r cs rs]. unfold RS, rs_both_basic, set_y, set_rs, set_r. cbn [sx sy ss sr scs srs].
    split; [reflexivity|]; split; [reflexivity|]; split;
      [intros k Hk; rewrite vnth_qupd_other by congruence; reflexivity|].
    exists 0. split; [reflexivity|]. left. split; [reflexivity|]. right. right. split; [exact Hb|apply vnth_qupd_same].
  Qed.

  Lemma RS_decide c t0 lhs rhs oldLo oldUp : gcs t0 j <> UNDEFINED ->
    RS t0 (rs_decide c t0 i j lhs rhs a val oldLo oldUp 0).
  Proof.
    intros Hu. unfold rs_decide. cbv zeta.
    destruct (gcs t0 j) eqn:Ecs; try congruence;
      repeat match goal with |- context [if ?b then _ else _] => destruct b end;
      first [apply RS_slack | apply RS_col | apply RS_both; exact Ecs].
  Qed.
End Shape.

(* ---- RowSingletonPS: both identities survive, for every comparison record and every recorded side / bound ---- *)
Lemma idents_by_fields P t' t'' : sx t' = sx t'' -> sy t' = sy t'' -> ss t' = ss t'' -> sr t' = sr t'' ->
  prim_ident P t'' /\ dual_ident P t'' -> prim_ident P t' /\ dual_ident P t'.
Proof.
  intros Ex Ey Es Er [H1 H2]. split.
  - intros k Hk. specialize (H1 k Hk). unfold gs in *. rewrite Es, Ex. exact H1.
  - intros k Hk. specialize (H2 k Hk). unfold gr in *. rewrite Er, Ey. exact H2.
Qed.

Lemma RowSingleton_identities P i j c lhs rhs oldLo oldUp t :
  wf_lp P -> (i < nrows P)%nat -> (j < ncols P)%nat -> singleton_row P i j -> ~ coef P i j == 0 ->
  gcs t j <> UNDEFINED -> (gcs t j = BASIC -> gr t j == 0) ->
  prim_ident (red_remove_row P i) t /\ dual_ident (red_remove_row P i) t ->
  let t' := exec_RowSingleton c i (nrows P - 1) j lhs rhs (c_obj (colj P j)) (sp_col P j) oldLo oldUp 0 t in
  prim_ident P t' /\ dual_ident P t'.
Proof.
  intros W Hi Hj Hs Ha Hu Hb [H1 H2] t'.
  set (m1 := (nrows P - 1)%nat) in *.
  set (T0 := set_s (fix_row_idx t i m1) i (sget (sp_col P j) i * gx (fix_row_idx t i m1) j)).
  set (val := c_obj (colj P j) - sdot_skip (sp_col P j) i (sy T0)).
  assert (Et : t' = rs_decide c T0 i j lhs rhs (sget (sp_col P j) i) val oldLo oldUp 0) by reflexivity.
  (* facts about the starting state of the decision *)
  assert (Fx : sx T0 = sx t) by (unfold T0, fix_row_idx; destruct (Nat.eqb i m1); reflexivity).
  assert (Fr : sr T0 = sr t) by (unfold T0, fix_row_idx; destruct (Nat.eqb i m1); reflexivity).
  assert (Fc : gcs T0 j = gcs t j) by (unfold T0, fix_row_idx, gcs; destruct (Nat.eqb i m1); reflexivity).
  assert (Fg : gx (fix_row_idx t i m1) j = gx t j) by (unfold fix_row_idx, gx; destruct (Nat.eqb i m1); reflexivity).
  assert (Fs : ss T0 = unswap (ss t) i m1 (sget (sp_col P j) i * gx t j)).
  { unfold T0. rewrite Fg. unfold fix_row_idx, unswap, set_s, set_y, set_rs, gs. destruct (Nat.eqb i m1); reflexivity. }
  assert (Fy : forall yv, qupd (sy T0) i yv = unswap (sy t) i m1 yv).
  { intros yv. unfold T0, fix_row_idx, unswap, set_s, set_y, set_rs, gy. destruct (Nat.eqb i m1); reflexivity. }
  assert (Fv : val = rs_val P i j t) by (unfold val, rs_val, T0, set_s; reflexivity).
  pose proof (RS_decide i j val (sget (sp_col P j) i) c T0 lhs rhs oldLo oldUp) as D.
  rewrite Fc in D. specialize (D Hu). rewrite <- Et in D.
  destruct D as (Dx & Ds & Dr & yv & Dy & Dcase).
  pose proof (rs_val_is_redcost P i j Hi Hj t H2) as Vr. fold m1 in Vr. rewrite <- Fv in Vr.
  pose proof (sget_sp_col P j i Hi) as Ga.
  apply (idents_by_fields P t' (rs_out t i m1 j (sget (sp_col P j) i * gx t j) yv (sr t') [] [])).
  - rewrite Dx. exact Fx.
  - rewrite Dy. apply Fy.
  - rewrite Ds. exact Fs.
  - reflexivity.
  - apply (rs_out_identities P i j W Hi Hj Hs t (sget (sp_col P j) i * gx t j) yv (sr t') [] [] H1 H2).
    + rewrite Ga. reflexivity.
    + intros k Hk. rewrite (Dr k Hk), Fr. reflexivity.
    + rewrite Fr in Dcase. rewrite Fc in Dcase. unfold gr.
      destruct Dcase as [[-> [E|[E|[Eb E]]]]|[-> E]]; rewrite E.
      * ring.
      * rewrite Vr. unfold gr. ring.
      * rewrite (Hb Eb). ring.
      * rewrite Vr, Ga. unfold gr. field. exact Ha.
Qed.
