(* C18: shared state of the library.  Two solver objects own disjoint state (C17); what remains shared between threads
   are the objects with static storage duration.  Each is const, thread-local, or lives in a writable section. *)
From Coq Require Import List String Bool.
Import ListNotations.

Inductive gkind := KConst | KThreadLocal | KMutableSection | KOther.

(* a global is harmless for concurrent use of distinct solver objects if no thread can write it after start-up *)
Definition harmless (e : string * gkind * bool) : bool :=
  match snd (fst e) with
  | KConst | KThreadLocal => true
  | KMutableSection => snd e          (* whitelisted as written only during (thread-safe) initialisation *)
  | KOther => false
  end.

Definition globals_harmless (t : list (string * gkind * bool)) : bool := forallb harmless t.

(* --- interleaving model: a step of thread i reads/writes only cells owned by object i or harmless globals --- *)
Inductive cellid := Own (o : nat) (k : nat) | Glob (g : nat).
Definition mem := cellid -> nat.
Record step := { actor : nat; target : cellid; value : nat }.

(* a step is well-scoped if it writes a cell owned by its actor (never a global, never another object's cell) *)
Definition well_scoped (s : step) : Prop := match target s with Own o _ => o = actor s | Glob _ => False end.

Definition cell_eqb (a b : cellid) : bool :=
  match a, b with
  | Own o k, Own o' k' => Nat.eqb o o' && Nat.eqb k k'
  | Glob g, Glob g' => Nat.eqb g g'
  | _, _ => false
  end.

Definition apply (m : mem) (s : step) : mem := fun c => if cell_eqb c (target s) then value s else m c.
Definition run (m : mem) (l : list step) : mem := fold_left apply l m.
