(* Byte-level model of the tokeniser shared by SoPlexBase<R>::_parseSettingsLine and
   parseSettingsString (soplex.hpp), and of the libc/libstdc++ number conversions they call
   (strtol with base 4/5, std::stoi, std::stoul).  A line is a list of byte codes; the C string ends at
   the first NUL, which [cstr] makes explicit.  std::stod is not modelled: it enters the parser as an oracle. *)
From Coq Require Import ZArith NArith Bool List Ascii String.
Import ListNotations.
Local Open Scope Z_scope.

Definition codes (s : string) : list Z := map (fun a => Z.of_N (N_of_ascii a)) (list_ascii_of_string s).

(* a C string stops at the first NUL *)
Fixpoint cstr (l : list Z) : list Z :=
  match l with [] => [] | c :: r => if c =? 0 then [] else c :: cstr r end.

Definition is_blank (c : Z) : bool := (c =? 32) || (c =? 9) || (c =? 13).
Definition is_eol (c : Z) : bool := (c =? 10) || (c =? 35).   (* '\n' or '#'; NUL = end of list *)

Fixpoint skipws (l : list Z) : list Z :=
  match l with c :: r => if is_blank c then skipws r else l | [] => [] end.

Definition at_end (l : list Z) : bool :=
  match l with [] => true | c :: _ => is_eol c end.

(* characters up to (not including) the first blank, '\n', '#', NUL or [sep] *)
Fixpoint span_tok (sep : Z) (l : list Z) : list Z * list Z :=
  match l with
  | [] => ([], [])
  | c :: r => if is_blank c || is_eol c || (c =? sep) then ([], l)
              else let (t, rest) := span_tok sep r in (c :: t, rest)
  end.

(* after a token: either the separator follows directly, or the terminating character is overwritten by NUL,
   skipped, blanks are skipped and the separator must follow.  With a token that ends the string the real code
   steps one past the terminator (the harness pads the buffer with NULs, so it reads NUL there). *)
Definition expect_sep (sep : Z) (rest : list Z) : option (list Z) :=
  match rest with
  | [] => None
  | c :: r => if c =? sep then Some r
              else match skipws r with
                   | c' :: r' => if c' =? sep then Some r' else None
                   | [] => None
                   end
  end.

Inductive tokres :=
| TBlank                                   (* empty or comment line: success, nothing happens *)
| TError                                   (* syntax error: parser returns false *)
| TOk (ty name val : list Z).

Definition tokenise (line : list Z) : tokres :=
  let l0 := skipws (cstr line) in
  if at_end l0 then TBlank else
  let (ty, r1) := span_tok 58 l0 in
  match expect_sep 58 r1 with
  | None => TError
  | Some r2 =>
    let l1 := skipws r2 in
    if at_end l1 then TError else
    let (name, r3) := span_tok 61 l1 in
    match expect_sep 61 r3 with
    | None => TError
    | Some r4 =>
      let l2 := skipws r4 in
      if at_end l2 then TError else
      (* the value token has no separator of its own: use an impossible code *)
      let (val, r5) := span_tok (-1) l2 in
      match r5 with
      | [] => TOk ty name val
      | _ :: r6 => if at_end (skipws r6) then TOk ty name val else TError
      end
    end
  end.

(* strncmp(s, p, length p) == 0 *)
Fixpoint has_prefix (p s : list Z) : bool :=
  match p, s with
  | [], _ => true
  | a :: p', b :: s' => (a =? b) && has_prefix p' s'
  | _ :: _, [] => false
  end.

Fixpoint list_eqb (a b : list Z) : bool :=
  match a, b with
  | [], [] => true
  | x :: a', y :: b' => (x =? y) && list_eqb a' b'
  | _, _ => false
  end.

Definition lower (c : Z) : Z := if (65 <=? c) && (c <=? 90) then c + 32 else c.

(* strncasecmp(s, p, n) == 0 where n >= length p + 1 : exact match ignoring case *)
Definition ieq (p s : list Z) : bool := list_eqb (map lower p) (map lower s).
(* strncasecmp(s, p, length p) == 0 : prefix match ignoring case *)
Definition iprefix (p s : list Z) : bool := has_prefix (map lower p) (map lower s).

(* ---- strtol family ---- *)
Definition is_space (c : Z) : bool := (c =? 32) || ((9 <=? c) && (c <=? 13)).
Fixpoint skipsp (l : list Z) : list Z :=
  match l with c :: r => if is_space c then skipsp r else l | [] => [] end.

Definition digit_val (base c : Z) : option Z :=
  if (48 <=? c) && (c <=? 57) then (if c - 48 <? base then Some (c - 48) else None)
  else if (97 <=? c) && (c <=? 122) then (if c - 87 <? base then Some (c - 87) else None)
  else if (65 <=? c) && (c <=? 90) then (if c - 55 <? base then Some (c - 55) else None)
  else None.

(* value of the maximal digit prefix and the number of digits consumed *)
Fixpoint digits (base : Z) (acc : Z) (n : nat) (l : list Z) : Z * nat :=
  match l with
  | c :: r => match digit_val base c with Some d => digits base (acc * base + d) (S n) r | None => (acc, n) end
  | [] => (acc, n)
  end.

(* (negative?, magnitude, number of digits) of the longest numeric prefix *)
Definition scan_int (base : Z) (l : list Z) : bool * Z * nat :=
  let l1 := skipsp l in
  let '(neg, l2) := match l1 with
                    | 45 :: r => (true, r)
                    | 43 :: r => (false, r)
                    | _ => (false, l1)
                    end in
  let '(v, n) := digits base 0 0 l2 in (neg, v, n).

Definition LONG_MAX := 9223372036854775807.
Definition ULONG_MAX := 18446744073709551615.
Definition INT_MAX := 2147483647.
Definition INT_MIN := -2147483648.
Definition UINT_MAX := 4294967295.

(* strtol(s, nullptr, base) for base in {4,5,10}: 0 when there is no digit, saturating *)
Definition strtol (base : Z) (l : list Z) : Z :=
  let '(neg, v, n) := scan_int base l in
  match n with
  | O => 0
  | _ => if neg then (if v >? LONG_MAX + 1 then - (LONG_MAX + 1) else - v)
         else (if v >? LONG_MAX then LONG_MAX else v)
  end.

(* std::stoi: None = throws std::invalid_argument (no digits) or std::out_of_range *)
Definition stoi (l : list Z) : option Z :=
  let '(neg, v, n) := scan_int 10 l in
  match n with
  | O => None
  | _ => let x := if neg then - v else v in
         if (INT_MIN <=? x) && (x <=? INT_MAX) then Some x else None
  end.

(* std::stoul: a leading '-' negates modulo 2^64 as strtoul does; None = exception *)
Definition stoul (l : list Z) : option Z :=
  let '(neg, v, n) := scan_int 10 l in
  match n with
  | O => None
  | _ => if v >? ULONG_MAX then None
         else Some (if neg then (if v =? 0 then 0 else ULONG_MAX + 1 - v) else v)
  end.

(* value of a bool parameter string: Some true / Some false / None = rejected *)
Definition bool_value (v : list Z) : option bool :=
  if iprefix (codes "true") v || ieq (codes "t") v || (strtol 4 v =? 1) then Some true
  else if iprefix (codes "false") v || ieq (codes "f") v || (strtol 5 v =? 0) then Some false
  else None.
