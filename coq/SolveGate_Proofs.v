(* Proofs about the in-tree verification gate (SolveGateModel.v): what a passed gate implies, what it leaves open. *)
From Coq Require Import QArith Qabs List Bool Lia Lqa.
From SV Require Import Vec LP Cert Cert_Proofs RatGateModel SolveGateModel.
Import ListNotations.
Local Open Scope Q_scope.

Lemma add_viol_lt t a v : 0 < t -> (fst (add_viol a v) < t <-> fst a < t /\ v < t).
Proof.
  intros Ht. unfold add_viol. destruct (Qltb 0 v) eqn:E0.
  - apply Qltb_lt in E0. cbn. destruct (Qltb (fst a) v) eqn:E1.
    + apply Qltb_lt in E1. split; [intros H; split; lra | intros [_ H]; exact H].
    + apply Qltb_false in E1. split; [intros H; split; lra | intros [H _]; exact H].
  - apply Qltb_false in E0. split; [intros H; split; lra | intros [H _]; exact H].
Qed.

Lemma fold_lt {A} (step : Q * Q -> A -> Q * Q) (ok : A -> Prop) t :
  (forall a i, fst (step a i) < t <-> fst a < t /\ ok i) ->
  forall L a, fst (fold_left step L a) < t <-> fst a < t /\ Forall ok L.
Proof.
  intros Hs. induction L as [|i L IH]; intros a; cbn.
  - split; [intros H; split; [exact H | constructor] | intros [H _]; exact H].
  - rewrite IH, Hs. split.
    + intros [[H1 H2] H3]. split; [exact H1 | constructor; assumption].
    + intros [H1 H2]. inversion H2; subst. repeat split; assumption.
Qed.

Lemma In_down n i : In i (down n) <-> (i < n)%nat.
Proof. unfold down. rewrite <- in_rev, in_seq. lia. Qed.

Lemma Forall_down n (P : nat -> Prop) : Forall P (down n) <-> forall i, (i < n)%nat -> P i.
Proof. rewrite Forall_forall. split; intros H i Hi; apply H; apply In_down; exact Hi. Qed.

Definition range_ok (t : Q) (lo up : option Q) (v : Q) : Prop :=
  match lo with Some l => l - v < t | None => True end /\ match up with Some u => v - u < t | None => True end.

Lemma range_step_lt t lo up v a : 0 < t -> (fst (range_step lo up v a) < t <-> fst a < t /\ range_ok t lo up v).
Proof.
  intros Ht. unfold range_step, range_ok. destruct lo as [l|], up as [u|]; rewrite ?add_viol_lt by exact Ht; tauto.
Qed.

Definition sign_ok (t : Q) (maxi : bool) (st : VarStatus) (v : Q) : Prop :=
  let k := if maxi then - v else v in
  (allows_neg st = false -> - k < t) /\ (allows_pos st = false -> k < t).

Lemma sign_step_lt t maxi st v a : 0 < t -> (fst (sign_step maxi st v a) < t <-> fst a < t /\ sign_ok t maxi st v).
Proof.
  intros Ht. unfold sign_step, sign_ok. cbv zeta.
  destruct (allows_neg st), (allows_pos st); rewrite ?add_viol_lt by exact Ht; intuition congruence.
Qed.

Lemma Qle_bool_false a b : Qle_bool a b = false <-> b < a.
Proof.
  split; intros H.
  - destruct (Qlt_le_dec b a) as [L | L]; [exact L | apply Qle_bool_iff in L; congruence].
  - destruct (Qle_bool a b) eqn:E; [apply Qle_bool_iff in E; lra | reflexivity].
Qed.

(* ---- the meaning of each bit: exact characterisations (soundness AND completeness of each violation function) ---- *)
Theorem bound_bit_spec tf p x : 0 < tf ->
  (Qle_bool tf (fst (bound_violation p x)) = false <->
   forall j, (j < ncols p)%nat -> range_ok tf (c_lo (colj p j)) (c_up (colj p j)) (vnth x j)).
Proof.
  intros Ht. rewrite Qle_bool_false. unfold bound_violation.
  rewrite (fold_lt (bound_step p x) (fun j => range_ok tf (c_lo (colj p j)) (c_up (colj p j)) (vnth x j))).
  - rewrite Forall_down. cbn. intuition.
  - intros a j. apply range_step_lt. exact Ht.
Qed.

Theorem row_bit_spec tf p x : 0 < tf ->
  (Qle_bool tf (fst (row_violation p x)) = false <->
   forall i, (i < nrows p)%nat -> range_ok tf (r_lhs (rowi p i)) (r_rhs (rowi p i)) (activity p i x)).
Proof.
  intros Ht. rewrite Qle_bool_false. unfold row_violation.
  rewrite (fold_lt (row_step p x) (fun i => range_ok tf (r_lhs (rowi p i)) (r_rhs (rowi p i)) (activity p i x))).
  - rewrite Forall_down. cbn. intuition.
  - intros a i. apply range_step_lt. exact Ht.
Qed.

Theorem dual_bit_spec t_o p rst y : 0 < t_o ->
  (Qle_bool t_o (fst (dual_violation p rst y)) = false <->
   forall i, (i < nrows p)%nat -> sign_ok t_o (maximize p) (stat rst i) (vnth y i)).
Proof.
  intros Ht. rewrite Qle_bool_false. unfold dual_violation.
  rewrite (fold_lt _ (fun i => sign_ok t_o (maximize p) (stat rst i) (vnth y i))).
  - rewrite Forall_down. cbn. intuition.
  - intros a i. apply sign_step_lt. exact Ht.
Qed.

Theorem redcost_bit_spec t_o p cst d : 0 < t_o ->
  (Qle_bool t_o (fst (redcost_violation p cst d)) = false <->
   forall j, (j < ncols p)%nat -> sign_ok t_o (maximize p) (stat cst j) (vnth d j)).
Proof.
  intros Ht. rewrite Qle_bool_false. unfold redcost_violation.
  rewrite (fold_lt _ (fun j => sign_ok t_o (maximize p) (stat cst j) (vnth d j))).
  - rewrite Forall_down. cbn. intuition.
  - intros a j. apply sign_step_lt. exact Ht.
Qed.

(* ---- what a passed gate implies for the certificate of C01 ---- *)
Lemma Qabs_le_iff a e : Qabs_le a e = true <-> - e <= a /\ a <= e.
Proof. unfold Qabs_le. rewrite andb_true_iff, !Qle_bool_iff. tauto. Qed.

Lemma sgn_mul p v : sgn p * v == (if maximize p then - v else v).
Proof. unfold sgn. destruct (maximize p); ring. Qed.

Lemma cs_from_sign t_o ed tcc p st lo up v m :
  0 <= ed -> sign_ok t_o (maximize p) st m -> status_consistent tcc st lo up v = true ->
  cs_tol (t_o + ed) tcc (sgn p * m) lo up v = true.
Proof.
  intros Hed [Hn Hp] Hc. unfold cs_tol. pose proof (sgn_mul p m) as E. cbv zeta in Hn, Hp.
  apply andb_true_iff. split.
  - destruct (Qltb (t_o + ed) (sgn p * m)) eqn:L; [|reflexivity]. apply Qltb_lt in L.
    destruct (allows_pos st) eqn:A.
    + unfold allows_pos in A. destruct st; cbn in A; try discriminate; cbn in Hc; [exact Hc|].
      apply andb_true_iff in Hc. tauto.
    + specialize (Hp eq_refl). rewrite <- E in Hp. lra.
  - destruct (Qltb (sgn p * m) (- (t_o + ed))) eqn:L; [|reflexivity]. apply Qltb_lt in L.
    destruct (allows_neg st) eqn:A.
    + unfold allows_neg in A. destruct st; cbn in A; try discriminate; cbn in Hc; [exact Hc|].
      apply andb_true_iff in Hc. tauto.
    + specialize (Hn eq_refl). rewrite <- E in Hn. lra.
Qed.

Lemma in_lo_tol_from t e lo v w : 0 <= e -> match lo with Some l => l - w < t | None => True end ->
  - e <= v - w -> in_lo_tol (t + e) lo v = true.
Proof. intros He H Hd. destruct lo as [l|]; cbn; [apply Qle_bool_iff; lra | reflexivity]. Qed.
Lemma in_up_tol_from t e up v w : 0 <= e -> match up with Some u => w - u < t | None => True end ->
  v - w <= e -> in_up_tol (t + e) up v = true.
Proof. intros He H Hd. destruct up as [u|]; cbn; [apply Qle_bool_iff; lra | reflexivity]. Qed.

(* If the gate of _verifySolutionReal passes (all four violations below their tolerance) and, in addition, the three things
   it does NOT check hold - the slack vector is the row activity up to es, the reduced-cost vector is c - A^T y up to ed, every
   non-basic status names a bound the value sits at within tc - and the reported objective is c.x + offset up to tv(1+|v|),
   then the answer is a certificate accepted by check_opt_tol with tolerances (tf + es, to + ed, tc, tv): every clause of
   property C01 holds for the LP as the user entered it. *)
Theorem gate_implies_cert tf t_o es ed tcc tvv p x s y d v rst cst :
  0 < tf -> 0 < t_o -> 0 <= es -> 0 <= ed ->
  length x = ncols p -> length d = ncols p -> length s = nrows p -> length y = nrows p ->
  gate_passes tf t_o p x y d rst cst = true ->
  (forall i, (i < nrows p)%nat -> Qabs_le (vnth s i - activity p i x) es = true) ->
  (forall j, (j < ncols p)%nat -> Qabs_le (vnth d j - redcost p y j) ed = true) ->
  (forall j, (j < ncols p)%nat -> status_consistent tcc (stat cst j) (c_lo (colj p j)) (c_up (colj p j)) (vnth x j) = true) ->
  (forall i, (i < nrows p)%nat -> status_consistent tcc (stat rst i) (r_lhs (rowi p i)) (r_rhs (rowi p i)) (vnth s i) = true) ->
  Qabs_le (v - objective p x) (tvv * (1 + Qabs v)) = true ->
  check_opt_tol {| tp := tf + es; td := t_o + ed; tc := tcc; tv := tvv |} p x s y d v = true.
Proof.
  intros Htf Hto Hes Hed Lx Ld Ls Ly Hg Hs Hd Hcc Hcr Hv.
  unfold gate_passes, verify_bits in Hg.
  apply negb_true_iff in Hg. apply orb_false_iff in Hg as [Hg Hb4]. apply orb_false_iff in Hg as [Hg Hb3].
  apply orb_false_iff in Hg as [Hb1 Hb2].
  pose proof (proj1 (bound_bit_spec tf p x Htf) Hb1) as B1. pose proof (proj1 (row_bit_spec tf p x Htf) Hb2) as B2.
  pose proof (proj1 (dual_bit_spec t_o p rst y Hto) Hb3) as B3. pose proof (proj1 (redcost_bit_spec t_o p cst d Hto) Hb4) as B4.
  clear Hb1 Hb2 Hb3 Hb4. rename B1 into Hb1. rename B2 into Hb2. rename B3 into Hb3. rename B4 into Hb4.
  unfold check_opt_tol. cbn [tp td tc tv].
  apply andb_true_iff. split; [| exact Hv].
  repeat (apply andb_true_iff; split); try (apply Nat.eqb_eq; assumption);
    apply forall_lt_iff; intros k Hk.
  - (* bounds *)
    destruct (Hb1 k Hk) as [H1 H2]. apply andb_true_iff. split.
    + apply (in_lo_tol_from tf es _ _ (vnth x k)); auto. lra.
    + apply (in_up_tol_from tf es _ _ (vnth x k)); auto. lra.
  - (* sides, judged on the slack vector *)
    destruct (Hb2 k Hk) as [H1 H2]. specialize (Hs k Hk). apply Qabs_le_iff in Hs.
    apply andb_true_iff. split.
    + apply (in_lo_tol_from tf es _ _ (activity p k x)); auto. tauto.
    + apply (in_up_tol_from tf es _ _ (activity p k x)); auto. tauto.
  - (* slack = activity *)
    specialize (Hs k Hk). apply Qabs_le_iff in Hs. apply Qabs_le_iff. lra.
  - (* stationarity *)
    specialize (Hd k Hk). apply Qabs_le_iff in Hd. apply Qabs_le_iff. lra.
  - (* sign conditions of the reduced costs *)
    apply cs_from_sign with (st := stat cst k); auto.
  - (* sign conditions of the duals *)
    apply cs_from_sign with (st := stat rst k); auto.
Qed.

(* The converse on the primal side: the gate rejects every point that violates a bound or a side by the tolerance or more
   (so no such point is ever stored as OPTIMAL after a verified store). *)
Theorem gate_rejects_primal_violation tf t_o p x y d rst cst :
  0 < tf ->
  (exists j l, (j < ncols p)%nat /\ c_lo (colj p j) = Some l /\ tf <= l - vnth x j) \/
  (exists j u, (j < ncols p)%nat /\ c_up (colj p j) = Some u /\ tf <= vnth x j - u) \/
  (exists i l, (i < nrows p)%nat /\ r_lhs (rowi p i) = Some l /\ tf <= l - activity p i x) \/
  (exists i u, (i < nrows p)%nat /\ r_rhs (rowi p i) = Some u /\ tf <= activity p i x - u) ->
  gate_passes tf t_o p x y d rst cst = false.
Proof.
  intros Htf H. unfold gate_passes, verify_bits. apply negb_false_iff.
  destruct (Qle_bool tf (fst (bound_violation p x))) eqn:B1; [reflexivity|].
  destruct (Qle_bool tf (fst (row_violation p x))) eqn:B2; [cbn; reflexivity|].
  exfalso. pose proof (proj1 (bound_bit_spec tf p x Htf) B1) as C1. pose proof (proj1 (row_bit_spec tf p x Htf) B2) as C2.
  clear B1 B2. rename C1 into B1. rename C2 into B2.
  destruct H as [(j & l & Hj & E & V) | [(j & u & Hj & E & V) | [(i & l & Hi & E & V) | (i & u & Hi & E & V)]]].
  - destruct (B1 j Hj) as [H1 _]. rewrite E in H1. lra.
  - destruct (B1 j Hj) as [_ H1]. rewrite E in H1. lra.
  - destruct (B2 i Hi) as [H1 _]. rewrite E in H1. lra.
  - destruct (B2 i Hi) as [_ H1]. rewrite E in H1. lra.
Qed.

Theorem gate_bits_spec tf t_o p x y d rst cst : 0 < tf -> 0 < t_o ->
    (Qle_bool tf (fst (bound_violation p x)) = false <->
       forall j, (j < ncols p)%nat -> range_ok tf (c_lo (colj p j)) (c_up (colj p j)) (vnth x j)) /\
    (Qle_bool tf (fst (row_violation p x)) = false <->
       forall i, (i < nrows p)%nat -> range_ok tf (r_lhs (rowi p i)) (r_rhs (rowi p i)) (activity p i x)) /\
    (Qle_bool t_o (fst (dual_violation p rst y)) = false <->
       forall i, (i < nrows p)%nat -> sign_ok t_o (maximize p) (stat rst i) (vnth y i)) /\
    (Qle_bool t_o (fst (redcost_violation p cst d)) = false <->
       forall j, (j < ncols p)%nat -> sign_ok t_o (maximize p) (stat cst j) (vnth d j)).
Proof.
  intros H1 H2. split; [|split; [|split]].
  - apply (bound_bit_spec tf p x H1).
  - apply (row_bit_spec tf p x H1).
  - apply (dual_bit_spec t_o p rst y H2).
  - apply (redcost_bit_spec t_o p cst d H2).
Qed.

(* the gate is not the certificate: it trusts the basis statuses *)
Definition ex_gate_lp : lp :=
  {| maximize := false; offset := 0; cols := [ {| c_obj := 1; c_lo := Some 0; c_up := Some 10 |} ]; rows := [] |}.
Theorem gate_alone_is_not_a_certificate :
  gate_passes (1 # 1000000) (1 # 1000000) ex_gate_lp [5] [] [1] [] [ON_LOWER] = true /\
  check_opt_tol {| tp := 1 # 1000000; td := 1 # 1000000; tc := 1 # 10000; tv := 1 # 10000000 |} ex_gate_lp [5] [] [] [1] 5 = false /\
  ~ optimal ex_gate_lp [5].
Proof.
  split; [vm_compute; reflexivity | split; [vm_compute; reflexivity |]].
  intros [_ H]. specialize (H [0]). assert (F : feasible ex_gate_lp [0]).
  { apply feasible_b_iff. vm_compute. reflexivity. }
  specialize (H F). vm_compute in H. apply H. reflexivity.
Qed.
