(* C17 - facts about the generator model (RandomModel.v). *)
From Coq Require Import NArith ZArith QArith List Lia Lqa Znumtheory.
From SV Require Import RandomModel.
Import ListNotations.

Local Open Scope N_scope.

(* ---------- re-seeding forgets the history: the stream is a function of the seed alone ---------- *)
Lemma rrun_app r a b : rrun r (a ++ b) = let (r1, o1) := rrun r a in let (r2, o2) := rrun r1 b in (r2, o1 ++ o2).
Proof.
  revert r. induction a as [|o a IH]; intros r; simpl.
  - destruct (rrun r b); reflexivity.
  - destruct (rstep r o) as [r1 o1]. rewrite IH. destruct (rrun r1 a) as [r2 o2]. destruct (rrun r2 b) as [r3 o3].
    now rewrite app_assoc.
Qed.

Lemma reseed_forgets_history r1 r2 h1 h2 s ops :
  let (ra, _) := rrun r1 h1 in let (rb, _) := rrun r2 h2 in
  rrun ra (RSeed s :: ops) = rrun rb (RSeed s :: ops).
Proof. destruct (rrun r1 h1) as [ra oa], (rrun r2 h2) as [rb ob]. reflexivity. Qed.

Lemma stream_function_of_seed r1 r2 h1 h2 s ops :
  snd (rrun r1 (h1 ++ RSeed s :: ops)) = snd (rrun r1 h1) ++ snd (rrun (set_seed s) ops) /\
  fst (rrun r1 (h1 ++ RSeed s :: ops)) = fst (rrun r2 (h2 ++ RSeed s :: ops)).
Proof.
  rewrite !rrun_app. destruct (rrun r1 h1) as [ra oa], (rrun r2 h2) as [rb ob]. simpl.
  destruct (rrun (set_seed s) ops) as [rc oc]. simpl. split; reflexivity.
Qed.

(* ---------- ranges ---------- *)
Lemma M32_pow : M32 = 2 ^ 32. Proof. reflexivity. Qed.

Lemma lxor_lt a b n : a < 2 ^ n -> b < 2 ^ n -> N.lxor a b < 2 ^ n.
Proof.
  intros Ha Hb.
  destruct (N.eq_dec (N.lxor a b) 0) as [E|E]; [rewrite E; apply N.neq_0_lt_0, N.pow_nonzero; discriminate|].
  apply N.log2_lt_pow2; [lia|].
  eapply N.le_lt_trans; [apply N.log2_lxor|].
  destruct (N.eq_dec a 0) as [->|Ha0]; destruct (N.eq_dec b 0) as [->|Hb0].
  - rewrite N.lxor_0_l in E. congruence.
  - simpl N.log2 at 1. rewrite N.max_r by lia. apply N.log2_lt_pow2; lia.
  - simpl N.log2 at 2. rewrite N.max_l by lia. apply N.log2_lt_pow2; lia.
  - apply N.max_lub_lt; apply N.log2_lt_pow2; lia.
Qed.

Lemma shiftr_le x k : N.shiftr x k <= x.
Proof. rewrite N.shiftr_div_pow2. apply N.div_le_upper_bound; [apply N.pow_nonzero; discriminate|].
  pose proof (N.pow_nonzero 2 k ltac:(discriminate)). nia. Qed.

Lemma mod_M32_lt x : x mod M32 < M32.
Proof. apply N.mod_lt. discriminate. Qed.

Lemma xorshift_lt x : x < M32 -> xorshift x < M32.
Proof.
  intros H. unfold xorshift, xs3, xs2, xs1. rewrite M32_pow in *.
  assert (H1 : N.lxor x (N.shiftl x 13 mod 2 ^ 32) < 2 ^ 32) by (apply lxor_lt; [exact H|apply N.mod_lt; discriminate]).
  set (a := N.lxor x (N.shiftl x 13 mod 2 ^ 32)) in *.
  assert (H2 : N.lxor a (N.shiftr a 17) < 2 ^ 32).
  { apply lxor_lt; [exact H1|]. eapply N.le_lt_trans; [apply shiftr_le|exact H1]. }
  set (b := N.lxor a (N.shiftr a 17)) in *.
  apply lxor_lt; [exact H2|apply N.mod_lt; discriminate].
Qed.

Lemma next_random_wf r : rng_wf r -> rng_wf (fst (next_random r)) /\ snd (next_random r) < M32.
Proof.
  intros (Hs & Hl & Hx & Hm & Hc). unfold next_random. cbn [fst snd]. unfold rng_wf. cbn [seedshift lin_seed xor_seed mwc_seed cst_seed].
  repeat split; try apply mod_M32_lt; try assumption.
  - now apply xorshift_lt.
  - rewrite N.shiftr_div_pow2. apply N.div_lt_upper_bound; [discriminate|].
    unfold M32 in *. change (2 ^ 32) with 4294967296. nia.
Qed.

Lemma at_least_one_lt v : v < M32 -> at_least_one v < M32.
Proof. unfold at_least_one. destruct (N.eqb v 0); [reflexivity|auto]. Qed.

Lemma set_seed_wf s : s < M32 -> rng_wf (set_seed s).
Proof.
  intros H. unfold set_seed. apply next_random_wf. unfold rng_wf. cbn [seedshift lin_seed xor_seed mwc_seed cst_seed].
  repeat split; try (apply at_least_one_lt); try apply mod_M32_lt; assumption.
Qed.

Lemma rrun_wf ops : forall r, rng_wf r -> (forall s, In (RSeed s) ops -> s < M32) ->
  rng_wf (fst (rrun r ops)) /\ Forall (fun v => v < M32) (snd (rrun r ops)).
Proof.
  induction ops as [|o ops IH]; intros r W Hs; simpl; [split; [exact W|constructor]|].
  destruct o as [s|]; cbn [rstep].
  - specialize (IH (set_seed s) (set_seed_wf s (Hs s (or_introl eq_refl))) (fun s' H' => Hs s' (or_intror H'))).
    destruct (rrun (set_seed s) ops) as [r2 o2]. exact IH.
  - destruct (next_random_wf r W) as [W1 V]. destruct (next_random r) as [r1 v]. cbn [fst snd] in *.
    specialize (IH r1 W1 (fun s' H' => Hs s' (or_intror H'))).
    destruct (rrun r1 ops) as [r2 o2]. cbn [fst snd] in *. destruct IH as [A B]. split; [exact A|]. constructor; assumption.
Qed.

(* ---------- the xorshift component never reaches its absorbing state 0 ---------- *)
Lemma odd_multiple_mod x k : x < M32 -> x = (x * 2 ^ k) mod M32 -> Z.gcd (Z.of_N (2 ^ k - 1)) (Z.of_N M32) = 1%Z -> 1 <= k -> x = 0.
Proof.
  intros Hx E G Hk.
  assert (P1 : 1 <= 2 ^ k) by (pose proof (N.pow_nonzero 2 k ltac:(discriminate)); lia).
  (* M32 divides x * (2^k - 1) *)
  assert (D : (Z.of_N M32 | Z.of_N (2 ^ k - 1) * Z.of_N x)%Z).
  { pose proof (N.div_mod (x * 2 ^ k) M32 ltac:(discriminate)) as DM. rewrite <- E in DM.
    exists (Z.of_N ((x * 2 ^ k) / M32)). nia. }
  apply Z.gauss in D; [|rewrite Z.gcd_comm; exact G].
  destruct D as [q Hq]. unfold M32 in *. destruct (Z.eq_dec q 0) as [->|Hq0]; [lia|]. nia.
Qed.

Lemma xs_shl_nonzero x k : x < M32 -> x <> 0 -> Z.gcd (Z.of_N (2 ^ k - 1)) (Z.of_N M32) = 1%Z -> 1 <= k ->
  N.lxor x (N.shiftl x k mod M32) <> 0.
Proof.
  intros Hx Hn G Hk E. apply N.lxor_eq in E. rewrite N.shiftl_mul_pow2 in E.
  apply Hn. now apply (odd_multiple_mod x k).
Qed.

Lemma xs2_nonzero x : x <> 0 -> xs2 x <> 0.
Proof.
  intros Hn E. unfold xs2 in E. apply N.lxor_eq in E. rewrite N.shiftr_div_pow2 in E.
  apply Hn. change (2 ^ 17) with 131072 in E.
  pose proof (N.div_mod x 131072 ltac:(discriminate)) as DM. pose proof (N.mod_lt x 131072 ltac:(discriminate)) as ML.
  set (q := x / 131072) in *. set (m := x mod 131072) in *. clearbody q m. lia.
Qed.

Lemma xorshift_nonzero x : x < M32 -> x <> 0 -> xorshift x <> 0.
Proof.
  intros Hx Hn. unfold xorshift.
  assert (H1 : xs1 x <> 0) by (apply xs_shl_nonzero; [assumption|assumption|vm_compute; reflexivity|lia]).
  assert (L1 : xs1 x < M32) by (unfold xs1; rewrite M32_pow in *; apply lxor_lt; [assumption|apply N.mod_lt; discriminate]).
  assert (H2 : xs2 (xs1 x) <> 0) by now apply xs2_nonzero.
  assert (L2 : xs2 (xs1 x) < M32).
  { unfold xs2. rewrite M32_pow in *. apply lxor_lt; [assumption|]. eapply N.le_lt_trans; [apply shiftr_le|assumption]. }
  unfold xs3. apply xs_shl_nonzero; [assumption|assumption|vm_compute; reflexivity|lia].
Qed.

Lemma at_least_one_nonzero v : at_least_one v <> 0.
Proof. unfold at_least_one. destruct (N.eqb_spec v 0); [discriminate|assumption]. Qed.

Lemma xor_state_nonzero ops : forall r, rng_wf r -> xor_seed r <> 0 -> (forall s, In (RSeed s) ops -> s < M32) ->
  xor_seed (fst (rrun r ops)) <> 0.
Proof.
  induction ops as [|o ops IH]; intros r W Hx Hs; simpl; [exact Hx|].
  assert (Step : forall r0, rng_wf r0 -> xor_seed r0 <> 0 -> xor_seed (fst (next_random r0)) <> 0).
  { intros r0 (_ & _ & Lx & _) N0. unfold next_random. cbn [fst xor_seed]. now apply xorshift_nonzero. }
  destruct o as [s|]; cbn [rstep].
  - assert (Ws := set_seed_wf s (Hs s (or_introl eq_refl))).
    assert (Ns : xor_seed (set_seed s) <> 0).
    { unfold set_seed. apply Step.
      - unfold rng_wf. cbn [seedshift lin_seed xor_seed mwc_seed cst_seed].
        pose proof (Hs s (or_introl eq_refl)).
        repeat split; try (apply at_least_one_lt); try apply mod_M32_lt; assumption.
      - cbn [xor_seed]. apply at_least_one_nonzero. }
    specialize (IH (set_seed s) Ws Ns (fun s' H' => Hs s' (or_intror H'))).
    destruct (rrun (set_seed s) ops) as [r2 o2]. exact IH.
  - pose proof (Step r W Hx) as N1. destruct (next_random_wf r W) as [W1 _].
    destruct (next_random r) as [r1 v]. cbn [fst] in *.
    specialize (IH r1 W1 N1 (fun s' H' => Hs s' (or_intror H'))).
    destruct (rrun r1 ops) as [r2 o2]. exact IH.
Qed.

(* ---------- the returned value and next(minimum, maximum), in exact arithmetic ---------- *)
Local Open Scope Q_scope.

Definition qval (v : N) : Q := Z.of_N v # 4294967295.       (* numerator / UINT32_MAX *)

Lemma qval_unit v : (v < M32)%N -> 0 <= qval v /\ qval v <= 1.
Proof.
  intros H. unfold qval, Qle; simpl. unfold M32 in H. split; lia.
Qed.

(* next(minimum, maximum) = minimum * (1 - r) + maximum * r *)
Definition qnext (mn mx r : Q) : Q := mn * (1 - r) + mx * r.

Lemma qnext_in_range mn mx r : mn <= mx -> 0 <= r -> r <= 1 -> mn <= qnext mn mx r /\ qnext mn mx r <= mx.
Proof. intros H H0 H1. unfold qnext. split; nra. Qed.
