(* C19 - Containers and sparse vectors behave as their abstract data types.
   Property theorems only; each is closed by [exact] of a lemma proved in DataSet_Proofs.v / SparseVec_Proofs.v.

   Part 1: DataSet / ClassSet (also the key management of SVSet, LPRowSet, LPColSet, NameSet), for an arbitrary
   element type D.  The model (DataSetModel.v) mirrors the arrays theitem[].info, thekey[] and the free list of the
   code; ds_abs is the set as its user sees it: the list of (key, element) in number order.
   Part 2: sparse / dense / semi-sparse vector algebra over Q (SparseVecModel.v).
   Part 3: index sets, name sets, the growth of SVSet / LPRowSet / LPColSet, hash table (ContainersModel.v). *)
From Coq Require Import List ZArith QArith Qabs Bool Permutation Sorted.
From SV Require Import DataSetModel DataSet_Proofs SparseVecModel SparseVec_Proofs ContainersModel Containers_Proofs.
Import ListNotations.

(* ====================================================================================================== *)
(* Part 1                                                                                                 *)
(* ====================================================================================================== *)
Local Open Scope Z_scope.

(* The representation invariant (0 <= num <= size <= max; thekey/theitem.info form a bijection between the numbers
   0..num-1 and the used slots; the free list is a duplicate-free chain through exactly size-num slots below size, each
   marked unused) holds in every state reachable from a constructor by any sequence of operations: add, add-many,
   remove by number / key / permutation / number list / key list, clear, reMax, element write, copy, assignment. *)
Theorem C19_dataset_inv :
  forall (D : Type) (d0 : D) (pmax : Z) (ops : list (op D)), ds_inv (ds_run d0 (ds_init d0 pmax) ops).
Proof. exact ds_reachable_inv. Qed.
Print Assumptions C19_dataset_inv.

Example C19_dataset_inv_witness :
  let s := ds_run 0 (ds_init 0 3) [OAdd 10; OAdd 11; OAdd 12; ORemove 0; ORemovePerm [0; -1]; OAdd 13; OReMax 7; OAssign 2] in
  ds_abs 0 s = [(2, 12); (1, 13)] /\ ds_free s = [0] /\ themax s = 3.
Proof. vm_compute. repeat split. Qed.

(* One concrete step commutes with the abstraction: the new abstract list is the abstract step applied to the old one
   (single removal = the last element takes the hole, multiple removal = stable compaction, reMax / copy / assignment
   = identity, ...), and keys handed out are fresh and pairwise distinct. *)
Theorem C19_refines_spec :
  forall (D : Type) (d0 : D) (s : ds D) (o : op D), ds_inv s ->
    ds_inv (fst (ds_step d0 s o)) /\
    ds_abs d0 (fst (ds_step d0 s o)) = astep d0 (ds_abs d0 s) o (snd (ds_step d0 s o)) /\
    out_ok D (ds_abs d0 s) (snd (ds_step d0 s o)).
Proof. exact ds_step_spec. Qed.
Print Assumptions C19_refines_spec.

(* Elements are numbered densely 0..num-1, keys are pairwise distinct, number(key(n)) = n, and a key whose number is
   non-negative is the key of that number. *)
Theorem C19_dense_numbering :
  forall (D : Type) (d0 : D) (s : ds D), ds_inv s ->
    zlen (ds_abs d0 s) = thenum s /\ NoDup (a_keys (ds_abs d0 s)) /\
    (forall n, 0 <= n < thenum s -> ds_number s (ds_key s n) = Some n) /\
    (forall k n, ds_number s k = Some n -> 0 <= n -> 0 <= n < thenum s /\ ds_key s n = k).
Proof. exact ds_dense. Qed.
Print Assumptions C19_dense_numbering.

(* (key, element) is in the set iff the lookups through the key say so: has(key), operator[](key) = element,
   number(key) = n with key(n) = key. *)
Theorem C19_lookup_by_key :
  forall (D : Type) (d0 : D) (s : ds D) (k : Z) (v : D), ds_inv s ->
    (In (k, v) (ds_abs d0 s) <->
     0 <= k < thesize s /\ ds_has_key s k = true /\ ds_elem_key d0 s k = v /\
     exists n, ds_number s k = Some n /\ 0 <= n < thenum s /\ ds_key s n = k).
Proof. exact ds_lookup. Qed.
Print Assumptions C19_lookup_by_key.

(* A key handed out on insertion identifies its element until that element is removed: over any operation sequence in
   which no operation removes k (or overwrites its element), (k, v) stays in the set. *)
Theorem C19_key_stable :
  forall (D : Type) (d0 : D) (s : ds D) (ops : list (op D)) (k : Z) (v : D), ds_inv s ->
    In (k, v) (ds_abs d0 s) -> never_removed D d0 s ops k -> In (k, v) (ds_abs d0 (ds_run d0 s ops)).
Proof. exact ds_key_stable. Qed.
Print Assumptions C19_key_stable.

Example C19_key_stable_witness :
  let s := ds_run 0 (ds_init 0 4) [OAdd 10; OAdd 11; OAdd 12] in
  let ops := [ORemove 0; OAdd 13; OReMax 9; ORemovePerm [0; -1; 0]; OAssign 1] in
  In (2, 12) (ds_abs 0 s) /\ never_removed Z 0 s ops 2 /\ ds_abs 0 (ds_run 0 s ops) = [(2, 12); (0, 13)].
Proof.
  vm_compute. split; [tauto|]. split; [|reflexivity].
  repeat split; intros H; repeat (destruct H as [H|H]; try discriminate); assumption.
Qed.

(* Removal by permutation: the invariant is kept, the returned array is a_perm_out perm, the set is the stable
   compaction of the survivors, capacity / size / element storage are untouched. *)
Theorem C19_remove_perm_spec :
  forall (D : Type) (d0 : D) (s : ds D) (perm : list Z), ds_inv s -> zlen perm = thenum s ->
    ds_inv (fst (ds_remove_perm s perm)) /\
    snd (ds_remove_perm s perm) = a_perm_out perm 0 /\
    ds_abs d0 (fst (ds_remove_perm s perm)) = a_remove_perm perm (ds_abs d0 s) /\
    themax (fst (ds_remove_perm s perm)) = themax s /\ thesize (fst (ds_remove_perm s perm)) = thesize s /\
    data (fst (ds_remove_perm s perm)) = data s /\
    thenum (fst (ds_remove_perm s perm)) = zlen (surv_keys perm (firstn (Z.to_nat (thenum s)) (keys s))).
Proof. exact ds_remove_perm_spec. Qed.
Print Assumptions C19_remove_perm_spec.

(* ... and the returned permutation reports where each survivor moved: removed entries stay negative, the survivor
   with old number i is found at new number perm'[i], survivors keep their relative order. *)
Theorem C19_perm_reports_moves :
  forall (D : Type) (d0 : D) (perm : list Z) (l : list (Z * D)) (j : Z), zlen perm = zlen l ->
    zlen (a_perm_out perm j) = zlen perm /\
    (forall i, 0 <= i < zlen l -> getn 0 perm i < 0 -> getn 0 (a_perm_out perm j) i = getn 0 perm i) /\
    (forall i, 0 <= i < zlen l -> 0 <= getn 0 perm i ->
       j <= getn 0 (a_perm_out perm j) i < j + zlen (a_remove_perm perm l) /\
       getn (-1, d0) (a_remove_perm perm l) (getn 0 (a_perm_out perm j) i - j) = getn (-1, d0) l i) /\
    (forall i i', 0 <= i < i' -> i' < zlen l -> 0 <= getn 0 perm i -> 0 <= getn 0 perm i' ->
       getn 0 (a_perm_out perm j) i < getn 0 (a_perm_out perm j) i').
Proof. exact a_perm_out_spec. Qed.
Print Assumptions C19_perm_reports_moves.

(* Growing (or shrinking down to size()) the capacity loses nothing: same (key, element) list, every key still valid
   with the same element, max() = max(newmax, size()). *)
Theorem C19_remax_preserves :
  forall (D : Type) (d0 : D) (s : ds D) (m : Z), ds_inv s ->
    ds_inv (ds_remax d0 s m) /\ ds_abs d0 (ds_remax d0 s m) = ds_abs d0 s /\
    themax (ds_remax d0 s m) = Z.max m (thesize s) /\
    (forall k v, In (k, v) (ds_abs d0 s) -> ds_elem_key d0 (ds_remax d0 s m) k = v /\ ds_has_key (ds_remax d0 s m) k = true).
Proof. exact ds_remax_preserves. Qed.
Print Assumptions C19_remax_preserves.

(* Assignment: the left-hand side becomes a consistent set with the same keys and elements, grown if necessary. *)
Theorem C19_assign_copies :
  forall (D : Type) (d0 : D) (lhs rhs : ds D), ds_inv lhs -> ds_inv rhs ->
    ds_inv (ds_assign d0 lhs rhs) /\ ds_abs d0 (ds_assign d0 lhs rhs) = ds_abs d0 rhs /\
    thenum (ds_assign d0 lhs rhs) = thenum rhs /\ thesize (ds_assign d0 lhs rhs) = thesize rhs /\
    themax (ds_assign d0 lhs rhs) = Z.max (themax lhs) (thesize rhs).
Proof. exact ds_assign_spec. Qed.
Print Assumptions C19_assign_copies.

(* The free list has no duplicates, holds exactly size-num slots, all of them unused, none of them the slot of an
   element. *)
Theorem C19_free_list_disjoint :
  forall (D : Type) (s : ds D), ds_inv s ->
    NoDup (ds_free s) /\ zlen (ds_free s) = thesize s - thenum s /\
    (forall x, In x (ds_free s) -> 0 <= x < thesize s /\ ds_has_key s x = false) /\
    (forall n, 0 <= n < thenum s -> ~ In (ds_key s n) (ds_free s)).
Proof. exact ds_free_spec. Qed.
Print Assumptions C19_free_list_disjoint.

(* What an abstract step keeps: an element whose key is neither removed nor overwritten by the operation is still in
   the set, whatever keys the implementation hands out. *)
Theorem C19_abstract_step_keeps :
  forall (D : Type) (d0 : D) (l : list (Z * D)) (o : op D) (r : out) (k : Z) (v : D),
    In (k, v) l -> ~ In k (a_removed d0 l o) -> ~ In k (a_written d0 l o) -> In (k, v) (astep d0 l o r).
Proof. exact astep_keeps. Qed.
Print Assumptions C19_abstract_step_keeps.

(* ====================================================================================================== *)
(* Part 3: index sets, name sets, vector sets, hash table                                                  *)
(* ====================================================================================================== *)

(* Index sets contain no duplicates: adding an index that is not in the set, removing a position and removing a range
   of positions keep the set duplicate-free; removal removes exactly the addressed entries and the entries in front of
   the first removed position keep their number. *)
Theorem C19_idxset_nodup :
  (forall l i, NoDup l -> ~ In i l -> NoDup (is_add l i)) /\
  (forall l n, NoDup l -> NoDup (is_remove_pos l n)) /\
  (forall l n m, 0 <= n <= m -> m < zlen l -> NoDup l -> NoDup (is_remove_range l n m)).
Proof. exact (conj is_add_nodup (conj is_remove_pos_nodup is_remove_range_nodup)). Qed.
Print Assumptions C19_idxset_nodup.

Theorem C19_idxset_remove_pos :
  forall l n, 0 <= n < zlen l ->
    Permutation (getn 0 l n :: is_remove_pos l n) l /\ zlen (is_remove_pos l n) = zlen l - 1 /\
    (forall i, 0 <= i < n -> getn 0 (is_remove_pos l n) i = getn 0 l i).
Proof. exact is_remove_pos_spec. Qed.
Print Assumptions C19_idxset_remove_pos.

Theorem C19_idxset_remove_range :
  forall l n m, 0 <= n <= m -> m < zlen l ->
    Permutation (is_remove_range l n m ++ firstn (Z.to_nat (m + 1 - n)) (skipn (Z.to_nat n) l)) l /\
    zlen (is_remove_range l n m) = zlen l - (m + 1 - n) /\
    (forall i, 0 <= i < n -> getn 0 (is_remove_range l n m) i = getn 0 l i).
Proof. exact is_remove_range_spec. Qed.
Print Assumptions C19_idxset_remove_range.

Theorem C19_idxset_pos :
  forall l i, (is_pos l i = -1 <-> ~ In i l) /\
    (0 <= is_pos l i -> is_pos l i < zlen l /\ getn 0 l (is_pos l i) = i /\ forall q, 0 <= q < is_pos l i -> getn 0 l q <> i).
Proof. exact is_pos_spec. Qed.
Print Assumptions C19_idxset_pos.

Example C19_idxset_witness :
  is_remove_range [5; 6; 7; 8; 9] 1 2 = [5; 8; 9] /\ is_remove_range [5; 6; 7] 1 2 = [5] /\ is_remove_pos [5; 6; 7] 0 = [7; 6].
Proof. vm_compute. repeat split. Qed.

(* Name lookup returns the index the name was registered under: a name that is in the set is found at its number,
   under its key, and the key leads back to the name. *)
Theorem C19_nameset_lookup :
  forall s name, ns_inv s -> ns_has s name = true ->
    0 <= ns_number s name < thenum s /\ getn 0 (ns_names s) (ns_number s name) = name /\
    ds_key s (ns_number s name) = ns_key s name /\ In (ns_key s name, name) (ds_abs 0 s).
Proof. exact ns_lookup. Qed.
Print Assumptions C19_nameset_lookup.

(* Registration: a new name gets a fresh key and the next number, all other names keep number and key; a name
   that is already present is ignored. *)
Theorem C19_nameset_add :
  forall s name, ns_inv s -> ns_has s name = false ->
    let s' := fst (ns_add s name) in
    exists k, snd (ns_add s name) = Some k /\ ns_inv s' /\ ds_abs 0 s' = ds_abs 0 s ++ [(k, name)] /\
      ~ In k (a_keys (ds_abs 0 s)) /\ ns_number s' name = thenum s /\ ns_key s' name = k /\
      (forall other, ns_has s other = true -> ns_number s' other = ns_number s other /\ ns_key s' other = ns_key s other).
Proof. exact ns_add_new. Qed.
Print Assumptions C19_nameset_add.

Theorem C19_nameset_add_existing :
  forall s name, ns_has s name = true -> ns_add s name = (s, None).
Proof. exact ns_add_existing. Qed.
Print Assumptions C19_nameset_add_existing.

(* ... and fails for removed names: after removing a name the lookup does not find it, every other name is still found
   under its old key. *)
Theorem C19_nameset_remove :
  forall s name, ns_inv s -> ns_has s name = true ->
    let s' := ns_remove_name s name in
    ns_inv s' /\ ns_has s' name = false /\
    (forall other, other <> name -> ns_has s' other = ns_has s other /\ ns_key s' other = ns_key s other) /\
    ds_abs 0 s' = a_remove (ns_number s name) (ds_abs 0 s).
Proof. exact ns_remove_name_spec. Qed.
Print Assumptions C19_nameset_remove.

(* removal of several names by their numbers (as they are when the call is made) or by their keys: exactly those names
   disappear, the others keep their keys *)
Theorem C19_nameset_remove_nums :
  forall s nums, ns_inv s -> (forall n, In n nums -> 0 <= n < thenum s) ->
    ns_inv (ns_remove_nums s nums) /\
    (forall name, ns_has (ns_remove_nums s nums) name = ns_has s name && negb (existsb (Z.eqb (ns_number s name)) nums)) /\
    (forall name, ns_has (ns_remove_nums s nums) name = true -> ns_key (ns_remove_nums s nums) name = ns_key s name).
Proof. exact ns_remove_nums_spec. Qed.
Print Assumptions C19_nameset_remove_nums.

Theorem C19_nameset_remove_keys :
  forall ks s, ns_inv s ->
    ns_inv (ns_remove_keys s ks) /\
    (forall name, ns_has (ns_remove_keys s ks) name = ns_has s name && negb (existsb (Z.eqb (ns_key s name)) ks)) /\
    (forall name, ns_has (ns_remove_keys s ks) name = true -> ns_key (ns_remove_keys s ks) name = ns_key s name).
Proof. exact ns_remove_keys_spec. Qed.
Print Assumptions C19_nameset_remove_keys.

Example C19_nameset_witness :
  let s := fst (ns_add (fst (ns_add (fst (ns_add (ds_init 0 2) 7)) 8)) 9) in
  ns_number s 8 = 1 /\ ns_key s 9 = 2 /\ themax s = 12 /\
  ns_has (ns_remove_name s 7) 7 = false /\ ns_number (ns_remove_name s 7) 9 = 0 /\ ns_key (ns_remove_name s 7) 9 = 2 /\
  ns_names (ns_remove_nums s [0; 1]) = [9].
Proof. vm_compute. repeat split. Qed.

(* The string memory of a NameSet (all names zero-terminated in one char array, the DataSet element of a name is its
   offset).  Memory operations change no observable: memPack() - which rewrites the names in NUMBER order, an order
   that differs from their order in memory after removals - and memRemax() leave the memory well formed and every name
   reads back unchanged; memPack() leaves exactly the bytes of the live names in use. *)
Theorem C19_nameset_mempack_invisible :
  forall (order : list Z) (st : nmem), nm_wf order st ->
    nm_wf order (nm_pack order st) /\
    (forall id, In id order -> nm_name (nm_pack order st) id = nm_name st id) /\
    nm_used (nm_pack order st) <= nm_used st /\ nm_max (nm_pack order st) = nm_max st /\
    nm_used (nm_pack order st) = fold_right (fun id a => zlen (nstr id) + 1 + a) 0 order.
Proof. exact nm_pack_spec. Qed.
Print Assumptions C19_nameset_mempack_invisible.

Theorem C19_nameset_memremax_invisible :
  forall (order : list Z) (st : nmem) (m : Z), nm_wf order st ->
    nm_wf order (nm_remax st m) /\ (forall id, In id order -> nm_name (nm_remax st m) id = nm_name st id) /\
    nm_used (nm_remax st m) = nm_used st /\ nm_max (nm_remax st m) = Z.max m (nm_used st).
Proof. exact nm_remax_spec. Qed.
Print Assumptions C19_nameset_memremax_invisible.

(* every name of a well-formed memory reads back as its own characters; add() (which packs and grows the memory by
   itself when the name does not fit) stores the new name and changes no other; removals only forget names *)
Theorem C19_nameset_strings :
  (forall order st id, nm_wf order st -> In id order -> nm_name st id = nstr id) /\
  (forall setmax mmax, 0 <= setmax -> nm_wf [] (nm_init setmax mmax)) /\
  (forall order st id, nm_wf order st -> 0 <= id -> ~ In id order ->
     nm_wf (order ++ [id]) (nm_add order st id) /\ nm_name (nm_add order st id) id = nstr id /\
     (forall other, In other order -> nm_name (nm_add order st id) other = nm_name st other)) /\
  (forall order st rem, nm_wf order st -> NoDup rem -> (forall id, In id rem -> In id order) ->
     nm_wf rem (nm_keep rem st) /\ (forall id, In id rem -> nm_name (nm_keep rem st) id = nm_name st id)).
Proof. exact (conj nm_name_wf (conj nm_init_wf (conj nm_add_spec nm_keep_spec))). Qed.
Print Assumptions C19_nameset_strings.

(* the situation of the seeded in-place memPack: names a, bb, ccc, aaaaaaaaaa; the first one removed (the long last
   name takes number 0); packing in number order *)
Example C19_nameset_mempack_witness :
  let st0 := nm_init 2 64 in
  let st := nm_keep [9; 1; 2] (nm_add [0; 1; 2] (nm_add [0; 1] (nm_add [0] (nm_add [] st0 0) 1) 2) 9) in
  let p := nm_pack [9; 1; 2] st in
  nm_used st = 20 /\ nm_used p = 18 /\ nm_off p = [(9, 0); (1, 11); (2, 14)] /\
  nm_name p 9 = nstr 9 /\ nm_name p 1 = nstr 1 /\ nm_name p 2 = nstr 2.
Proof. vm_compute. repeat split. Qed.

(* SVSet / LPRowSet / LPColSet grow by themselves: ensurePSVec makes room without changing the set, so an insertion
   always succeeds and behaves like DataSet::add *)
Theorem C19_svset_add :
  forall (D : Type) (d0 : D) (s : ds D) (x : D), ds_inv s ->
    let s' := fst (svs_add d0 s x) in let k := snd (svs_add d0 s x) in
    ds_inv s' /\ ds_abs d0 s' = ds_abs d0 s ++ [(k, x)] /\ ~ In k (a_keys (ds_abs d0 s)) /\ thenum s' = thenum s + 1.
Proof. exact svs_add_spec. Qed.
Print Assumptions C19_svset_add.

(* hash table: a map from items to infos *)
Theorem C19_hashtable_map :
  (forall t k v k', ht_has t k = false -> ht_get (ht_add t k v) k' = if k' =? k then Some v else ht_get t k') /\
  (forall t k k', ht_get (ht_remove t k) k' = if k' =? k then None else ht_get t k').
Proof. exact (conj ht_add_get ht_remove_get). Qed.
Print Assumptions C19_hashtable_map.

Close Scope Z_scope.

(* ====================================================================================================== *)
(* Part 2: sparse, dynamic sparse, semi-sparse and dense vectors give the same values as dense arithmetic  *)
(* ====================================================================================================== *)
Local Open Scope Q_scope.

(* scaling: dense (a * v) = a * dense v *)
Theorem C19_scale_dense :
  forall (n : nat) (a : Q) (v : svec), dv_eq (expand n (sv_scale a v)) (dv_scale a (expand n v)).
Proof. exact expand_scale. Qed.
Print Assumptions C19_scale_dense.

(* adding a non-zero with a fresh index / removing a position / assignment (which drops stored zeros) *)
Theorem C19_add_entry :
  forall (j : nat) (x : Q) (v : svec) (i : nat), ~ In j (sv_indices v) ->
    sv_get (sv_add j x v) i == (if Nat.eqb j i then x else sv_get v i).
Proof. exact sv_add_get. Qed.
Print Assumptions C19_add_entry.

Theorem C19_remove_entry :
  forall (p : nat) (v : svec) (i : nat), sv_nodup v -> (p < length v)%nat ->
    sv_get (sv_remove p v) i == (if Nat.eqb (fst (nth p v (0%nat, 0))) i then 0 else sv_get v i).
Proof. exact sv_remove_get. Qed.
Print Assumptions C19_remove_entry.

Theorem C19_assign_preserves_dense :
  forall (v : svec) (i : nat), sv_nodup v -> sv_get (sv_assign v) i == sv_get v i.
Proof. exact sv_assign_get. Qed.
Print Assumptions C19_assign_preserves_dense.

(* addition: dense (d + v) = d + dense v, and multiply-add, for a sparse operand without duplicate indices *)
Theorem C19_add_dense :
  forall (v : svec) (d : dvec) (i : nat), sv_nodup v -> sv_in_dim (length d) v ->
    dv_get (dv_add_sv v d) i == dv_get d i + sv_get v i.
Proof. exact dv_add_sv_get. Qed.
Print Assumptions C19_add_dense.

Theorem C19_multadd_dense :
  forall (x : Q) (v : svec) (d : dvec) (i : nat), sv_nodup v -> sv_in_dim (length d) v ->
    dv_get (dv_multadd_sv x v d) i == dv_get d i + x * sv_get v i.
Proof. exact dv_multadd_sv_get. Qed.
Print Assumptions C19_multadd_dense.

Theorem C19_assign_to_dense :
  forall (v : svec) (d : dvec), sv_nodup v -> sv_in_dim (length d) v -> dv_eq (dv_set_sv v d) (expand (length d) v).
Proof. exact dv_set_sv_expand. Qed.
Print Assumptions C19_assign_to_dense.

Theorem C19_dense_to_sparse :
  forall (d : dvec), dv_eq (expand (length d) (sv_of_dv d)) d.
Proof. exact sv_of_dv_expand. Qed.
Print Assumptions C19_dense_to_sparse.

(* scalar products: sparse * dense is the sum of products when the sparse operand has no duplicate index;
   sparse * sparse (the merge loop) is the scalar product of the dense expansions when both are sorted by index *)
Theorem C19_dot_sparse_dense :
  forall (n : nat) (v : svec) (d : dvec), sv_nodup v -> sv_in_dim n v -> length d = n ->
    sv_dot_dv v d == dv_dot (expand n v) d.
Proof. exact sv_dot_dv_spec. Qed.
Print Assumptions C19_dot_sparse_dense.

Theorem C19_dot_sparse_sparse :
  forall (n : nat) (u v : svec), sv_sorted u -> sv_sorted v -> sv_in_dim n u -> sv_in_dim n v ->
    sv_dot_sv u v == dv_dot (expand n u) (expand n v).
Proof. exact sv_dot_sv_spec. Qed.
Print Assumptions C19_dot_sparse_sparse.

Example C19_dot_witness :
  let u := [(0%nat, 2); (3%nat, 1 # 2)] in let v := [(1%nat, 5); (3%nat, 4)] in
  sv_sorted u /\ sv_sorted v /\ sv_dot_sv u v == 2 /\ dv_dot (expand 4 u) (expand 4 v) == 2.
Proof.
  split; [repeat constructor|]. split; [repeat constructor|]. split; vm_compute; reflexivity.
Qed.

(* the duplicate-free hypothesis is needed: with a repeated index the sparse product differs from the dense one *)
Example C19_dot_needs_nodup :
  let v := [(0%nat, 1); (0%nat, 1)] in ~ sv_dot_dv v [1] == dv_dot (expand 1 v) [1].
Proof. vm_compute. discriminate. Qed.

(* sorting gives a sorted permutation with the same dense values *)
Theorem C19_sort_sorted :
  forall (v : svec), StronglySorted (fun a b => (fst a <= fst b)%nat) (sv_sort v) /\ Permutation (sv_sort v) v.
Proof. exact (fun v => conj (sv_sort_sorted v) (sv_sort_perm v)). Qed.
Print Assumptions C19_sort_sorted.

Theorem C19_sort_preserves_dense :
  forall (v : svec) (i : nat), sv_nodup v -> sv_get (sv_sort v) i == sv_get v i.
Proof. exact sv_sort_get. Qed.
Print Assumptions C19_sort_preserves_dense.

(* setup (compress) of a semi-sparse vector: with epsilon 0 the values are unchanged and the index list is exactly the
   ascending list of positions holding a non-zero; with epsilon > 0 entries of magnitude <= epsilon become 0 *)
Theorem C19_setup_preserves_dense :
  forall (s : ssvec), dv_eq (ss_val (ss_setup_force 0 s)) (ss_val s).
Proof. exact ss_setup_force_val0. Qed.
Print Assumptions C19_setup_preserves_dense.

Theorem C19_setup_values :
  forall (eps : Q) (s : ssvec) (i : nat), 0 <= eps ->
    dv_get (ss_val (ss_setup_force eps s)) i ==
    (if Qle_bool (Qabs (dv_get (ss_val s) i)) eps then 0 else dv_get (ss_val s) i).
Proof. exact ss_setup_force_val. Qed.
Print Assumptions C19_setup_values.

Theorem C19_setup_indices :
  forall (eps : Q) (s : ssvec) (i : nat), 0 <= eps ->
    (In i (ss_idx (ss_setup_force eps s)) <-> (i < ss_dim s)%nat /\ ~ Qabs (dv_get (ss_val s) i) <= eps).
Proof. exact ss_setup_force_idx. Qed.
Print Assumptions C19_setup_indices.

Theorem C19_setup_consistent :
  forall (eps : Q) (s : ssvec), 0 <= eps ->
    ss_ok eps (ss_setup_force eps s) /\ StronglySorted lt (ss_idx (ss_setup_force eps s)).
Proof. exact (fun eps s H => conj (ss_setup_force_ok eps s H) (ss_setup_force_sorted eps s)). Qed.
Print Assumptions C19_setup_consistent.

(* semi-sparse arithmetic: += sparse, multAdd, assignment from sparse, scaling, scalar product *)
Theorem C19_ss_add_sparse :
  forall (v : svec) (s : ssvec) (i : nat), ss_ok 0 s -> sv_nodup v -> sv_in_dim (ss_dim s) v ->
    dv_get (ss_val (ss_add_sv 0 v s)) i == dv_get (ss_val s) i + sv_get v i.
Proof. exact ss_add_sv_val0. Qed.
Print Assumptions C19_ss_add_sparse.

Theorem C19_ss_multadd_sparse :
  forall (x : Q) (v : svec) (s : ssvec) (i : nat), ss_ok 0 s -> sv_nodup v -> sv_in_dim (ss_dim s) v ->
    dv_get (ss_val (ss_multadd_sv 0 x v s)) i == dv_get (ss_val s) i + x * sv_get v i.
Proof. exact ss_multadd_sv_val0. Qed.
Print Assumptions C19_ss_multadd_sparse.

Theorem C19_ss_assign_sparse :
  forall (v : svec) (s : ssvec), ss_ok 0 s -> sv_nodup v -> sv_in_dim (ss_dim s) v ->
    dv_eq (ss_val (ss_set_sv 0 v s)) (expand (ss_dim s) v) /\ ss_ok 0 (ss_set_sv 0 v s).
Proof. exact (fun v s H1 H2 H3 => conj (ss_set_sv_val0 v s H1 H2 H3) (ss_set_sv_ok 0 v s H1 H2 H3)). Qed.
Print Assumptions C19_ss_assign_sparse.

Theorem C19_ss_scale :
  forall (x : Q) (s : ssvec) (i : nat), ss_ok 0 s -> ss_setup s = true ->
    dv_get (ss_val (ss_scale x s)) i == dv_get (ss_val s) i * x.
Proof. exact ss_scale_val0. Qed.
Print Assumptions C19_ss_scale.

Theorem C19_ss_dot :
  forall (a b : ssvec), ss_ok 0 a -> ss_setup a = true -> ss_dim a = ss_dim b ->
    ss_dot_ss a b == dv_dot (ss_val a) (ss_val b).
Proof. exact ss_dot_ss_spec. Qed.
Print Assumptions C19_ss_dot.

(* the index-merging scalar product of two semi-sparse vectors equals the scalar product when both index lists
   are ascending (as setup() leaves them) *)
Theorem C19_ss_dot_merge :
  forall (a b : ssvec), ss_ok 0 a -> ss_ok 0 b -> ss_setup a = true -> ss_setup b = true ->
    StronglySorted lt (ss_idx a) -> StronglySorted lt (ss_idx b) -> ss_dim a = ss_dim b ->
    ss_dot_merge a b == ss_dot_ss a b.
Proof. exact ss_dot_merge_spec. Qed.
Print Assumptions C19_ss_dot_merge.

(* ... and does not when an index list is out of order (setValue / add append indices in call order) *)
Example C19_ss_dot_merge_needs_sorted :
  let a := mkSS [1; 1] [1%nat; 0%nat] true in let b := mkSS [1; 1] [0%nat; 1%nat] true in
  ss_dot_ss a b == 2 /\ ss_dot_merge a b == 1.
Proof. split; vm_compute; reflexivity. Qed.

(* compress: the sparse copy of a set-up semi-sparse vector has the same dense values *)
Theorem C19_compress_preserves_dense :
  forall (w : ssvec), ss_ok 0 w -> ss_setup w = true -> dv_eq (expand (ss_dim w) (sv_of_ss w)) (ss_val w).
Proof. exact sv_of_ss_expand. Qed.
Print Assumptions C19_compress_preserves_dense.

(* removal of a range of non-zeros removes exactly the positions n..m *)
Theorem C19_remove_range :
  forall (n m : nat) (v : svec), (n <= m)%nat -> (m < length v)%nat ->
    Permutation (sv_remove_range n m v ++ firstn (m + 1 - n) (skipn n v)) v /\
    length (sv_remove_range n m v) = (length v - (m + 1 - n))%nat.
Proof. exact sv_remove_range_spec. Qed.
Print Assumptions C19_remove_range.

(* assignment between semi-sparse vectors and re-dimensioning keep the values and the consistency of the index list *)
Theorem C19_ss_assign_ss :
  forall (rhs this : ssvec), ss_ok 0 rhs -> ss_ok 0 this ->
    dv_eq (ss_val (ss_assign_ss 0 rhs this)) (ss_val rhs) /\ ss_ok 0 (ss_assign_ss 0 rhs this).
Proof. exact (fun rhs this H1 H2 => conj (ss_assign_ss_val0 rhs this H1 H2) (ss_assign_ss_ok 0 rhs this H1 H2)). Qed.
Print Assumptions C19_ss_assign_ss.

Theorem C19_ss_redim :
  forall (eps : Q) (n : nat) (s : ssvec) (i : nat), ss_ok eps s ->
    ss_ok eps (ss_redim n s) /\ dv_get (ss_val (ss_redim n s)) i = (if Nat.ltb i n then dv_get (ss_val s) i else 0) /\
    Permutation (ss_idx (ss_redim n s)) (filter (fun k => Nat.ltb k n) (ss_idx s)).
Proof. exact (fun eps n s i H => conj (ss_redim_ok eps n s H) (conj (ss_redim_val n s i) (ss_redim_idx_perm n s))). Qed.
Print Assumptions C19_ss_redim.

(* x^T A over a set of sparse rows *)
Theorem C19_rows_product :
  forall (n : nat) (x : dvec) (rows : list svec) (j : nat),
    (forall r, In r rows -> sv_nodup r /\ sv_in_dim n r) ->
    dv_get (rows_tmul n x rows) j == rows_sum x rows j.
Proof. exact rows_tmul_get. Qed.
Print Assumptions C19_rows_product.

(* multAdd keeps a set-up semi-sparse vector consistent (every non-zero indexed, every indexed value non-zero,
   no duplicate index), for every epsilon *)
Theorem C19_ss_multadd_consistent :
  forall (eps x : Q) (v : svec) (s : ssvec), 0 <= eps -> ss_ok 0 s -> ss_setup s = true -> ss_idx_nonzero s ->
    sv_nodup v -> sv_in_dim (ss_dim s) v ->
    ss_ok 0 (ss_multadd_sv eps x v s) /\ ss_idx_nonzero (ss_multadd_sv eps x v s).
Proof.
  exact (fun eps x v s H0 H1 H2 H3 H4 H5 =>
           conj (ss_multadd_sv_ok0 eps x v s H0 H1 H3 H4 H5) (ss_multadd_sv_idx_nonzero eps x v s H0 H1 H2 H3 H4 H5)).
Qed.
Print Assumptions C19_ss_multadd_consistent.
