(* Soundness of the certificate checkers of Cert.v: weak duality, exact optimality certificates, Farkas certificates,
   improving rays, mutual exclusion of verdicts, and what the tolerance checkers guarantee. *)
From Coq Require Import QArith Qabs List Lia Lqa Bool.
From SV Require Import Vec LP Cert.
Import ListNotations.
Local Open Scope Q_scope.

(* ---------- sums over index lists ---------- *)
Fixpoint sumseq (g : nat -> Q) (l : list nat) : Q :=
  match l with [] => 0 | j :: r => g j + sumseq g r end.

Lemma sumseq_le g h l : (forall j, In j l -> g j <= h j) -> sumseq g l <= sumseq h l.
Proof.
  induction l as [|j l IH]; intros H; simpl; try lra.
  assert (g j <= h j) by (apply H; now left).
  assert (sumseq g l <= sumseq h l) by (apply IH; intros; apply H; now right). lra.
Qed.

Lemma sumseq_eq g h l : (forall j, In j l -> g j == h j) -> sumseq g l == sumseq h l.
Proof.
  induction l as [|j l IH]; intros H; simpl; try reflexivity.
  rewrite (H j) by now left. rewrite IH; [reflexivity|]. intros; apply H; now right.
Qed.

Lemma sumseq_plus g h l : sumseq (fun j => g j + h j) l == sumseq g l + sumseq h l.
Proof. induction l as [|j l IH]; simpl; try ring. rewrite IH. ring. Qed.

Lemma sumseq_scale c g l : sumseq (fun j => c * g j) l == c * sumseq g l.
Proof. induction l as [|j l IH]; simpl; try ring. rewrite IH. ring. Qed.

Lemma sumseq_map_S g l : sumseq g (map S l) = sumseq (fun j => g (S j)) l.
Proof. induction l as [|j l IH]; simpl; congruence. Qed.

Lemma sumseq_zero g l : (forall j, In j l -> g j == 0) -> sumseq g l == 0.
Proof. induction l as [|j l IH]; intros H; simpl; try reflexivity. rewrite (H j) by now left. rewrite IH; [ring|]. intros; apply H; now right. Qed.

Lemma vnth_nil i : vnth [] i = 0.
Proof. destruct i; reflexivity. Qed.

(* dot product as an index sum, for a right operand of known length *)
Lemma dot_sumseq : forall v u, dot u v == sumseq (fun j => vnth u j * vnth v j) (seq 0 (length v)).
Proof.
  induction v as [|b v IH]; intros u.
  - simpl. now rewrite dot_nil_r.
  - destruct u as [|a u].
    + cbn [dot]. symmetry. apply sumseq_zero. intros j _. rewrite vnth_nil. ring.
    + cbn [length seq sumseq dot vnth]. rewrite <- seq_shift, sumseq_map_S. cbn [vnth]. rewrite IH. reflexivity.
Qed.

Lemma osum_le f g l a :
  osum (map f l) = Some a -> (forall j t, In j l -> f j = Some t -> t <= g j) -> a <= sumseq g l.
Proof.
  revert a; induction l as [|j l IH]; intros a H Hf; simpl in *.
  - injection H as <-. lra.
  - destruct (f j) as [t|] eqn:E; try discriminate.
    destruct (osum (map f l)) as [b|] eqn:Eo; try discriminate. injection H as <-.
    assert (t <= g j) by (apply (Hf j t); auto).
    assert (b <= sumseq g l) by (apply IH; auto; intros; eapply Hf; eauto). lra.
Qed.

(* ---------- bounds of a single term ---------- *)
Lemma lower_term_sound k lo up v t :
  lower_term k lo up = Some t -> in_lo lo v -> in_up up v -> t <= k * v.
Proof.
  unfold lower_term. intros H Hl Hu.
  destruct (Qltb 0 k) eqn:E1.
  - apply Qltb_lt in E1. destruct lo as [l|]; simpl in *; try discriminate. injection H as <-. nra.
  - apply Qltb_false in E1. destruct (Qltb k 0) eqn:E2.
    + apply Qltb_lt in E2. destruct up as [u|]; simpl in *; try discriminate. injection H as <-. nra.
    + apply Qltb_false in E2. injection H as <-. assert (k == 0) by lra. nra.
Qed.

(* ---------- the Lagrangian identity ---------- *)
Lemma vnth_map_seq (f : nat -> Q) n j : (j < n)%nat -> vnth (map f (seq 0 n)) j = f j.
Proof.
  assert (forall s n j, (j < n)%nat -> vnth (map f (seq s n)) j = f (s + j)%nat) as G.
  { intros s n0; revert s; induction n0 as [|n0 IH]; intros s [|i] H; simpl; try lia.
    - now rewrite Nat.add_0_r.
    - rewrite IH by lia. f_equal. lia. }
  intros H. now rewrite G.
Qed.

Lemma nth_objvec p j : vnth (objvec p) j = c_obj (colj p j).
Proof.
  unfold objvec, colj. revert j. induction (cols p) as [|c l IH]; intros [|j]; simpl; auto.
Qed.

Lemma lagrange p y x : length x = ncols p ->
  dot (objvec p) x == dot (dvec p y) x + dot y (mat_vec (matrix p) x).
Proof.
  intros Hx. rewrite <- (dot_tmat_vec (matrix p) y x). fold (tvec p y).
  rewrite !(dot_sumseq x). rewrite <- sumseq_plus. apply sumseq_eq.
  intros j Hj. apply in_seq in Hj. rewrite Hx in Hj.
  unfold dvec. rewrite vnth_map_seq by lia. rewrite nth_objvec. unfold redcost. ring.
Qed.

Lemma activity_vnth p x i : (i < nrows p)%nat -> vnth (mat_vec (matrix p) x) i == activity p i x.
Proof.
  intros H. unfold activity, rowi, matrix, nrows in *.
  rewrite vnth_map_dot by (now rewrite map_length).
  replace (nth i (map r_coef (rows p)) []) with (r_coef (nth i (rows p) drow)); [reflexivity|].
  change (@nil Q) with (r_coef drow). now rewrite map_nth.
Qed.

(* s * c.x written as two index sums *)
Lemma lagrange_sums p y x : length x = ncols p -> length y = nrows p ->
  sgn p * dot (objvec p) x ==
  sumseq (fun j => (sgn p * redcost p y j) * vnth x j) (seq 0 (ncols p))
  + sumseq (fun i => (sgn p * vnth y i) * activity p i x) (seq 0 (nrows p)).
Proof.
  intros Hx Hy. rewrite (lagrange p y x Hx).
  rewrite (dot_sumseq x (dvec p y)), Hx.
  rewrite (dot_sumseq (mat_vec (matrix p) x) y), mat_vec_length.
  replace (length (matrix p)) with (nrows p) by (unfold matrix, nrows; now rewrite map_length).
  rewrite Qmult_plus_distr_r, <- !sumseq_scale.
  apply Qplus_comp; apply sumseq_eq; intros j Hj; apply in_seq in Hj.
  - unfold dvec. rewrite vnth_map_seq by lia. ring.
  - rewrite activity_vnth by lia. ring.
Qed.

(* ---------- weak duality ---------- *)
Theorem weak_duality p y x b :
  dual_bound p y = Some b -> feasible p x -> no_worse p b (objective p x).
Proof.
  unfold dual_bound. intros H (Hx & Hc & Hr).
  destruct (Nat.eqb (length y) (nrows p)) eqn:Ey; simpl in H; try discriminate.
  apply Nat.eqb_eq in Ey.
  destruct (osum (col_terms p y)) as [a|] eqn:Ea; try discriminate.
  destruct (osum (row_terms p y)) as [c|] eqn:Ec; try discriminate. injection H as <-.
  apply no_worse_sgn. unfold objective.
  pose proof (lagrange_sums p y x Hx Ey) as L.
  assert (a <= sumseq (fun j => (sgn p * redcost p y j) * vnth x j) (seq 0 (ncols p))) as A.
  { apply (osum_le _ _ _ _ Ea). intros j t Hj Ht. apply in_seq in Hj.
    destruct (Hc j ltac:(lia)). eapply lower_term_sound; eauto. }
  assert (c <= sumseq (fun i => (sgn p * vnth y i) * activity p i x) (seq 0 (nrows p))) as C.
  { apply (osum_le _ _ _ _ Ec). intros i t Hi Ht. apply in_seq in Hi.
    destruct (Hr i ltac:(lia)). eapply lower_term_sound; eauto. }
  unfold sgn in *. destruct (maximize p); lra.
Qed.

(* ---------- exact optimality certificate ---------- *)
Lemma Qeq_bool_eq a b : Qeq_bool a b = true -> a == b.
Proof. apply Qeq_bool_iff. Qed.

Lemma cs_ok_term k lo up v v' :
  cs_ok k lo up v = true -> in_lo lo v' -> in_up up v' -> k * v <= k * v'.
Proof.
  unfold cs_ok. intros H Hl Hu. apply andb_true_iff in H as [H1 H2].
  destruct (Qltb 0 k) eqn:E1.
  - apply Qltb_lt in E1. destruct lo as [l|]; simpl in *; try discriminate. apply Qeq_bool_eq in H1. nra.
  - apply Qltb_false in E1. destruct (Qltb k 0) eqn:E2.
    + apply Qltb_lt in E2. destruct up as [u|]; simpl in *; try discriminate. apply Qeq_bool_eq in H2. nra.
    + apply Qltb_false in E2. assert (k == 0) by lra. nra.
Qed.

Theorem opt_cert_sound p x y : check_opt_exact p x y = true -> optimal p x.
Proof.
  unfold check_opt_exact. rewrite !andb_true_iff. intros [[[Hf Hy] Hc] Hr].
  apply feasible_b_iff in Hf. apply Nat.eqb_eq in Hy.
  rewrite forall_lt_iff in Hc, Hr.
  split; auto. intros x' (Hx' & Hc' & Hr').
  apply no_worse_sgn. unfold objective.
  destruct Hf as (Hx & _ & _).
  pose proof (lagrange_sums p y x Hx Hy) as L. pose proof (lagrange_sums p y x' Hx' Hy) as L'.
  assert (sumseq (fun j => (sgn p * redcost p y j) * vnth x j) (seq 0 (ncols p))
          <= sumseq (fun j => (sgn p * redcost p y j) * vnth x' j) (seq 0 (ncols p))) as A.
  { apply sumseq_le. intros j Hj. apply in_seq in Hj. destruct (Hc' j ltac:(lia)).
    eapply cs_ok_term; eauto. apply Hc. lia. }
  assert (sumseq (fun i => (sgn p * vnth y i) * activity p i x) (seq 0 (nrows p))
          <= sumseq (fun i => (sgn p * vnth y i) * activity p i x') (seq 0 (nrows p))) as C.
  { apply sumseq_le. intros i Hi. apply in_seq in Hi. destruct (Hr' i ltac:(lia)).
    eapply cs_ok_term; eauto. apply Hr. lia. }
  lra.
Qed.

(* ---------- Farkas ---------- *)
Theorem farkas_sound p y : check_farkas p y = true -> infeasible p.
Proof.
  unfold check_farkas. intros H x (Hx & Hc & Hr).
  apply andb_true_iff in H as [Hy H]. apply Nat.eqb_eq in Hy.
  destruct (farkas_L p y) as [l|] eqn:El; try discriminate.
  destruct (farkas_negU p y) as [nu|] eqn:Eu; try discriminate.
  apply Qltb_lt in H.
  assert (l <= sumseq (fun i => vnth y i * activity p i x) (seq 0 (nrows p))) as A.
  { apply (osum_le _ _ _ _ El). intros i t Hi Ht. apply in_seq in Hi. destruct (Hr i ltac:(lia)).
    eapply lower_term_sound; eauto. }
  assert (nu <= sumseq (fun j => (- vnth (tvec p y) j) * vnth x j) (seq 0 (ncols p))) as B.
  { apply (osum_le _ _ _ _ Eu). intros j t Hj Ht. apply in_seq in Hj. destruct (Hc j ltac:(lia)).
    eapply lower_term_sound; eauto. }
  pose proof (dot_tmat_vec (matrix p) y x) as T. fold (tvec p y) in T.
  rewrite (dot_sumseq x (tvec p y)), Hx in T.
  rewrite (dot_sumseq (mat_vec (matrix p) x) y), mat_vec_length in T.
  replace (length (matrix p)) with (nrows p) in T by (unfold matrix, nrows; now rewrite map_length).
  assert (sumseq (fun i => vnth y i * vnth (mat_vec (matrix p) x) i) (seq 0 (nrows p))
          == sumseq (fun i => vnth y i * activity p i x) (seq 0 (nrows p))) as E1.
  { apply sumseq_eq. intros i Hi. apply in_seq in Hi. rewrite activity_vnth by lia. reflexivity. }
  assert (sumseq (fun j => (- vnth (tvec p y) j) * vnth x j) (seq 0 (ncols p))
          == - sumseq (fun j => vnth (tvec p y) j * vnth x j) (seq 0 (ncols p))) as E2.
  { transitivity ((-1) * sumseq (fun j => vnth (tvec p y) j * vnth x j) (seq 0 (ncols p))); [|ring].
    rewrite <- sumseq_scale. apply sumseq_eq. intros; ring. }
  lra.
Qed.

Lemma box_ncols M p : ncols (box M p) = ncols p.
Proof. unfold ncols, box; simpl. apply map_length. Qed.

Lemma box_colj M p j : (j < ncols p)%nat -> colj (box M p) j = box_col M (colj p j).
Proof.
  intros H. unfold colj, box; simpl. rewrite (nth_indep _ dcol (box_col M dcol)) by (now rewrite map_length).
  apply map_nth.
Qed.

Lemma box_feasible M p x :
  feasible p x -> (forall j, (j < ncols p)%nat -> - M <= vnth x j /\ vnth x j <= M) -> feasible (box M p) x.
Proof.
  intros (Hx & Hc & Hr) HM. split; [now rewrite box_ncols|]. split.
  - intros j Hj. rewrite box_ncols in Hj. rewrite box_colj by auto. destruct (Hc j Hj) as [A B]. destruct (HM j Hj).
    unfold box_col; simpl. split.
    + destruct (c_lo (colj p j)); simpl in *; auto.
    + destruct (c_up (colj p j)); simpl in *; auto.
  - intros i Hi. apply (Hr i Hi).
Qed.

(* a Farkas vector accepted for the M-box of the LP excludes every feasible point with |x_j| <= M *)
Theorem farkas_box_sound M p y :
  check_farkas (box M p) y = true ->
  forall x, feasible p x -> ~ (forall j, (j < ncols p)%nat -> - M <= vnth x j /\ vnth x j <= M).
Proof.
  intros H x Hf HM. apply (farkas_sound _ _ H x). now apply box_feasible.
Qed.

(* ---------- improving rays ---------- *)
Lemma vadd_length u v : length u = length v -> length (vadd u v) = length u.
Proof. revert v; induction u as [|a u IH]; intros [|b v] H; simpl in *; try discriminate; auto. Qed.

Lemma dir_ok_step lo up v r t :
  dir_ok lo up r = true -> 0 <= t -> in_lo lo v -> in_up up v -> in_lo lo (v + t * r) /\ in_up up (v + t * r).
Proof.
  unfold dir_ok. intros H Ht Hl Hu. apply andb_true_iff in H as [H1 H2]. split.
  - destruct lo as [l|]; simpl in *; auto. apply Qle_bool_iff in H1. nra.
  - destruct up as [u|]; simpl in *; auto. apply Qle_bool_iff in H2. nra.
Qed.

Definition along (x r : list Q) (t : Q) : list Q := vadd x (vscale t r).

Lemma activity_along p i x r t : activity p i (along x r t) == activity p i x + t * activity p i r.
Proof. unfold activity, along. now rewrite dot_vadd_r, dot_vscale_r. Qed.

Theorem ray_sound p x0 r :
  feasible p x0 -> check_ray p r = true ->
  forall t, 0 <= t ->
    feasible p (along x0 r t) /\
    objective p (along x0 r t) == objective p x0 + t * dot (objvec p) r /\
    (0 < t -> strictly_better p (objective p (along x0 r t)) (objective p x0)).
Proof.
  intros (Hx & Hc & Hr) H t Ht. unfold check_ray in H. rewrite !andb_true_iff in H.
  destruct H as [[[Hl Hcr] Hrr] Hobj]. apply Nat.eqb_eq in Hl. rewrite forall_lt_iff in Hcr, Hrr. apply Qltb_lt in Hobj.
  assert (objective p (along x0 r t) == objective p x0 + t * dot (objvec p) r) as Eobj.
  { unfold objective, along. rewrite dot_vadd_r, dot_vscale_r. ring. }
  split; [|split; auto].
  - split.
    + unfold along. rewrite vadd_length; auto. unfold vscale. rewrite map_length. congruence.
    + split.
      * intros j Hj. unfold along. destruct (Hc j Hj).
        assert (vnth (vadd x0 (vscale t r)) j == vnth x0 j + t * vnth r j) as E by (now rewrite vnth_vadd, vnth_vscale).
        destruct (dir_ok_step _ _ (vnth x0 j) _ t (Hcr j Hj) Ht H H0) as [A B].
        split.
        -- destruct (c_lo (colj p j)); simpl in *; auto. rewrite E. exact A.
        -- destruct (c_up (colj p j)); simpl in *; auto. rewrite E. exact B.
      * intros i Hi. destruct (Hr i Hi).
        destruct (dir_ok_step _ _ (activity p i x0) _ t (Hrr i Hi) Ht H H0) as [A B].
        pose proof (activity_along p i x0 r t) as E.
        split.
        -- destruct (r_lhs (rowi p i)); simpl in *; auto. rewrite E. exact A.
        -- destruct (r_rhs (rowi p i)); simpl in *; auto. rewrite E. exact B.
  - intros Hpos. apply strictly_better_sgn. rewrite Eobj. nra.
Qed.

Theorem ray_unbounded p x0 r : feasible p x0 -> check_ray p r = true -> unbounded p.
Proof.
  intros Hf Hr. split; [now exists x0|].
  intros x Hx. exists (along x r 1).
  destruct (ray_sound p x r Hx Hr 1 ltac:(lra)) as (A & _ & C). split; auto. apply C. lra.
Qed.

(* ---------- verdicts exclude each other ---------- *)
Theorem verdicts_exclusive p :
  (forall x, optimal p x -> ~ infeasible p) /\
  (forall x, optimal p x -> ~ unbounded p) /\
  (unbounded p -> ~ infeasible p).
Proof.
  repeat split.
  - intros x [Hf _] Hi. exact (Hi x Hf).
  - intros x [Hf Ho] [_ Hu]. destruct (Hu x Hf) as (x' & Hf' & Hb).
    specialize (Ho x' Hf'). apply no_worse_sgn in Ho. apply strictly_better_sgn in Hb. lra.
  - intros [[x Hf] _] Hi. exact (Hi x Hf).
Qed.

Corollary certificates_exclusive p x y yf x0 r :
  (check_opt_exact p x y = true -> check_farkas p yf = true -> False) /\
  (check_opt_exact p x y = true -> feasible p x0 -> check_ray p r = true -> False) /\
  (check_farkas p yf = true -> feasible p x0 -> False).
Proof.
  destruct (verdicts_exclusive p) as (A & B & C). repeat split.
  - intros H1 H2. exact (A x (opt_cert_sound _ _ _ H1) (farkas_sound _ _ H2)).
  - intros H1 H2 H3. exact (B x (opt_cert_sound _ _ _ H1) (ray_unbounded _ _ _ H2 H3)).
  - intros H1 H2. exact (farkas_sound _ _ H1 x0 H2).
Qed.

(* ---------- tolerance checkers ---------- *)
Lemma Qabs_le_iff a e : Qabs_le a e = true <-> - e <= a /\ a <= e.
Proof. unfold Qabs_le. rewrite andb_true_iff, !Qle_bool_iff. tauto. Qed.

Lemma in_lo_tol_iff e lo v : in_lo_tol e lo v = true <-> match lo with None => True | Some l => l - e <= v end.
Proof. destruct lo; simpl; [apply Qle_bool_iff | tauto]. Qed.
Lemma in_up_tol_iff e up v : in_up_tol e up v = true <-> match up with None => True | Some u => v <= u + e end.
Proof. destruct up; simpl; [apply Qle_bool_iff | tauto]. Qed.

(* what an accepted floating-point optimality certificate states, clause by clause *)
Record opt_tol_clauses (t : tols) (p : lp) (x s y d : list Q) (v : Q) : Prop := {
  otc_bounds : forall j, (j < ncols p)%nat ->
      in_lo_tol (tp t) (c_lo (colj p j)) (vnth x j) = true /\ in_up_tol (tp t) (c_up (colj p j)) (vnth x j) = true;
  otc_sides : forall i, (i < nrows p)%nat ->
      in_lo_tol (tp t) (r_lhs (rowi p i)) (vnth s i) = true /\ in_up_tol (tp t) (r_rhs (rowi p i)) (vnth s i) = true;
  otc_slack : forall i, (i < nrows p)%nat -> - tp t <= vnth s i - activity p i x <= tp t;
  otc_station : forall j, (j < ncols p)%nat -> - td t <= vnth d j - redcost p y j <= td t;
  otc_sign_cols : forall j, (j < ncols p)%nat ->
      cs_tol (td t) (tc t) (sgn p * vnth d j) (c_lo (colj p j)) (c_up (colj p j)) (vnth x j) = true;
  otc_sign_rows : forall i, (i < nrows p)%nat ->
      cs_tol (td t) (tc t) (sgn p * vnth y i) (r_lhs (rowi p i)) (r_rhs (rowi p i)) (vnth s i) = true;
  otc_value : - (tv t * (1 + Qabs v)) <= v - objective p x <= tv t * (1 + Qabs v)
}.

Theorem check_opt_tol_spec t p x s y d v :
  0 <= tp t ->
  check_opt_tol t p x s y d v = true -> opt_tol_clauses t p x s y d v /\ feasible_tol (tp t + tp t) p x.
Proof.
  intros Hpos. unfold check_opt_tol. rewrite !andb_true_iff, !forall_lt_iff.
  intros [[[[[[[[[[Lx Ld] Ls] Ly] Hb] Hs] Hsl] Hst] Hsc] Hsr] Hv].
  apply Nat.eqb_eq in Lx.
  assert (forall i, (i < nrows p)%nat -> - tp t <= vnth s i - activity p i x <= tp t) as SL.
  { intros i Hi. specialize (Hsl i Hi). apply Qabs_le_iff in Hsl. tauto. }
  split.
  - constructor; auto.
    + intros j Hj. specialize (Hb j Hj). now apply andb_true_iff in Hb.
    + intros i Hi. specialize (Hs i Hi). now apply andb_true_iff in Hs.
    + intros j Hj. specialize (Hst j Hj). apply Qabs_le_iff in Hst. tauto.
    + apply Qabs_le_iff in Hv. tauto.
  - split; auto. split.
    + intros j Hj. specialize (Hb j Hj). apply andb_true_iff in Hb as [A B].
      apply in_lo_tol_iff in A. apply in_up_tol_iff in B.
      split; [apply in_lo_tol_iff | apply in_up_tol_iff].
      * destruct (c_lo (colj p j)); auto. lra.
      * destruct (c_up (colj p j)); auto. lra.
    + intros i Hi. specialize (Hs i Hi). apply andb_true_iff in Hs as [A B].
      apply in_lo_tol_iff in A. apply in_up_tol_iff in B. specialize (SL i Hi).
      split; [apply in_lo_tol_iff | apply in_up_tol_iff].
      * destruct (r_lhs (rowi p i)); auto. lra.
      * destruct (r_rhs (rowi p i)); auto. lra.
Qed.

Theorem ray_tol_sound e0 e p x0 r :
  feasible_tol e0 p x0 -> check_ray_tol e p r = true ->
  forall t, 0 <= t ->
    feasible_tol (e0 + t * e) p (along x0 r t) /\
    objective p (along x0 r t) == objective p x0 + t * dot (objvec p) r /\
    (0 < t -> strictly_better p (objective p (along x0 r t)) (objective p x0)).
Proof.
  intros (Hx & Hc & Hr) H t Ht. unfold check_ray_tol in H. rewrite !andb_true_iff in H.
  destruct H as [[[Hl Hcr] Hrr] Hobj]. apply Nat.eqb_eq in Hl. rewrite forall_lt_iff in Hcr, Hrr. apply Qltb_lt in Hobj.
  assert (objective p (along x0 r t) == objective p x0 + t * dot (objvec p) r) as Eobj.
  { unfold objective, along. rewrite dot_vadd_r, dot_vscale_r. ring. }
  split; [|split; auto].
  - split.
    + unfold along. rewrite vadd_length; auto. unfold vscale. rewrite map_length. congruence.
    + split.
      * intros j Hj. destruct (Hc j Hj) as [A B]. specialize (Hcr j Hj). apply andb_true_iff in Hcr as [C D].
        assert (vnth (along x0 r t) j == vnth x0 j + t * vnth r j) as E by (unfold along; now rewrite vnth_vadd, vnth_vscale).
        apply in_lo_tol_iff in A. apply in_up_tol_iff in B.
        split; [apply in_lo_tol_iff | apply in_up_tol_iff].
        -- destruct (c_lo (colj p j)); auto. apply Qle_bool_iff in C. rewrite E. nra.
        -- destruct (c_up (colj p j)); auto. apply Qle_bool_iff in D. rewrite E. nra.
      * intros i Hi. destruct (Hr i Hi) as [A B]. specialize (Hrr i Hi). apply andb_true_iff in Hrr as [C D].
        pose proof (activity_along p i x0 r t) as E.
        apply in_lo_tol_iff in A. apply in_up_tol_iff in B.
        split; [apply in_lo_tol_iff | apply in_up_tol_iff].
        -- destruct (r_lhs (rowi p i)); auto. apply Qle_bool_iff in C. rewrite E. nra.
        -- destruct (r_rhs (rowi p i)); auto. apply Qle_bool_iff in D. rewrite E. nra.
  - intros Hpos. apply strictly_better_sgn. rewrite Eobj. nra.
Qed.
