(* C08 - property theorems (statements only; proofs in Postsolve_Proofs.v) *)
From Coq Require Import QArith List.
From SV Require Import Vec LP Cert PostsolveModel Postsolve_Proofs.

Theorem C08_placeholder_snth_supd : forall l i v, snth (supd l i v) i = v.
Proof. exact snth_supd_same. Qed.
Print Assumptions C08_placeholder_snth_supd.
