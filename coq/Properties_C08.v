(* C08 - Presolve verdicts are true; postsolve maps optimal solutions to optimal ones.

   What is proved here (statements only; proofs in Postsolve_Proofs RowSingleton_Proofs RowSingleton_Signs FreeColSingleton_Proofs Doubleton_Proofs.v): for the post-solve steps of SPxMainSM, modelled in
   PostsolveModel.v case split by case split (the model is replayed against `PostStep::execute` on every run of the
   check), and for LPs / vectors of EVERY dimension:
     - identities:   if  s = A'x  and  r = c' - A'^T y  hold for the LP after the reduction, then after `execute` they hold
                     for the LP before it;
     - feasibility and signs: bounds, sides and the complementary-slackness sign conditions carry over;
     - basis count:  the number of BASIC entries stays equal to the number of rows;
   and that these invariants, once they hold for the original LP at the end of the walk, make the unsimplified vectors an
   exact optimality certificate (C08_invariants_give_optimality, through the proved checker of Cert.v).
   The order of the reductions and which of them fire is the simplifier's choice and is not modelled; steps without a
   general theorem here are covered per run by the composite validation (check_opt_tol on the original LP).
   The simplifier works in minimisation form; comparisons are the exact instance of the model (`exact_cmps`) wherever a
   theorem depends on them, most statements hold for every comparison record `c`. *)
From Coq Require Import QArith Qabs List Bool Lia.
From SV Require Import Vec LP Cert Cert_Proofs PostsolveModel Postsolve_Proofs RowSingleton_Proofs RowSingleton_Signs FreeColSingleton_Proofs Doubleton_Proofs.
Import ListNotations.
Local Open Scope Q_scope.

(* ---------------------------------------------------------------------------------------------------------------- *)
(* the goal of the invariants *)
Theorem C08_invariants_give_optimality : forall (P : lp) (t : st),
  maximize P = false -> wf_lp P -> (ncols P <= length (sx t))%nat -> (nrows P <= length (sy t))%nat ->
  prim_ident P t -> dual_ident P t -> prim_feas P t -> dual_signs P t ->
  check_opt_exact P (firstn (ncols P) (sx t)) (firstn (nrows P) (sy t)) = true /\ optimal P (firstn (ncols P) (sx t)).
Proof. exact invariants_give_optimality. Qed.
Print Assumptions C08_invariants_give_optimality.

(* ---------------------------------------------------------------------------------------------------------------- *)
(* FreeConstraintPS *)
Theorem C08_FreeConstraint_preserves_identities : forall P i t, wf_lp P -> (i < nrows P)%nat ->
  prim_ident (red_remove_row P i) t /\ dual_ident (red_remove_row P i) t ->
  let t' := exec_FreeConstraint i (nrows P - 1) (sp_row P i) 0 t in prim_ident P t' /\ dual_ident P t'.
Proof. exact FreeConstraint_identities. Qed.
Print Assumptions C08_FreeConstraint_preserves_identities.

Theorem C08_FreeConstraint_preserves_feasibility_and_signs : forall P i t, (i < nrows P)%nat ->
  r_lhs (rowi P i) = None -> r_rhs (rowi P i) = None ->
  prim_feas (red_remove_row P i) t /\ dual_signs (red_remove_row P i) t ->
  let t' := exec_FreeConstraint i (nrows P - 1) (sp_row P i) 0 t in prim_feas P t' /\ dual_signs P t'.
Proof. exact FreeConstraint_feasibility_and_signs. Qed.
Print Assumptions C08_FreeConstraint_preserves_feasibility_and_signs.

Theorem C08_FreeConstraint_basis_count : forall P i t, (i < nrows P)%nat ->
  basis_count (red_remove_row P i) t -> basis_count P (exec_FreeConstraint i (nrows P - 1) (sp_row P i) 0 t).
Proof. exact FreeConstraint_basis_count. Qed.
Print Assumptions C08_FreeConstraint_basis_count.

(* EmptyConstraintPS *)
Theorem C08_EmptyConstraint_preserves_identities : forall P i t, wf_lp P -> (i < nrows P)%nat -> empty_row P i ->
  prim_ident (red_remove_row P i) t /\ dual_ident (red_remove_row P i) t ->
  let t' := exec_EmptyConstraint i (nrows P - 1) 0 t in prim_ident P t' /\ dual_ident P t'.
Proof. exact EmptyConstraint_identities. Qed.
Print Assumptions C08_EmptyConstraint_preserves_identities.

Theorem C08_EmptyConstraint_preserves_feasibility_and_signs : forall P i t, (i < nrows P)%nat ->
  in_bounds (r_lhs (rowi P i)) (r_rhs (rowi P i)) 0 ->
  prim_feas (red_remove_row P i) t /\ dual_signs (red_remove_row P i) t ->
  let t' := exec_EmptyConstraint i (nrows P - 1) 0 t in prim_feas P t' /\ dual_signs P t'.
Proof. exact EmptyConstraint_feasibility_and_signs. Qed.
Print Assumptions C08_EmptyConstraint_preserves_feasibility_and_signs.

Theorem C08_EmptyConstraint_basis_count : forall P i t, (i < nrows P)%nat ->
  basis_count (red_remove_row P i) t -> basis_count P (exec_EmptyConstraint i (nrows P - 1) 0 t).
Proof. exact EmptyConstraint_basis_count. Qed.
Print Assumptions C08_EmptyConstraint_basis_count.

(* FixVariablePS (for every comparison record c and every recorded lower/upper: they only select the non-basic status) *)
Theorem C08_FixVariable_preserves_identities : forall P j val, wf_lp P -> (j < ncols P)%nat -> forall c lower upper t,
  prim_ident (red_FixVariable P j val) t /\ dual_ident (red_FixVariable P j val) t ->
  let t' := exec_FixVariable c j (ncols P - 1) val (c_obj (colj P j)) lower upper true (sp_col P j) t in
  prim_ident P t' /\ dual_ident P t'.
Proof. intros P j val W Hj c lo up t [H1 H2]. split; [now apply FixVariable_prim|now apply FixVariable_dual]. Qed.
Print Assumptions C08_FixVariable_preserves_identities.

Theorem C08_FixVariable_preserves_feasibility_and_signs : forall P j val, wf_lp P -> (j < ncols P)%nat -> forall c lower upper t,
  in_bounds (c_lo (colj P j)) (c_up (colj P j)) val -> fix_justified P j val ->
  prim_feas (red_FixVariable P j val) t /\ dual_signs (red_FixVariable P j val) t ->
  let t' := exec_FixVariable c j (ncols P - 1) val (c_obj (colj P j)) lower upper true (sp_col P j) t in
  prim_feas P t' /\ dual_signs P t'.
Proof. intros P j val W Hj c lo up t Hb Hju [H1 H2]. split; [now apply FixVariable_feas|now apply FixVariable_signs]. Qed.
Print Assumptions C08_FixVariable_preserves_feasibility_and_signs.

Theorem C08_FixVariable_basis_count : forall P j val, (j < ncols P)%nat -> forall c lower upper t,
  basis_count (red_FixVariable P j val) t ->
  basis_count P (exec_FixVariable c j (ncols P - 1) val (c_obj (colj P j)) lower upper true (sp_col P j) t).
Proof. intros P j val Hj c lo up t H. now apply FixVariable_count. Qed.
Print Assumptions C08_FixVariable_basis_count.

(* same objective value: the objective offset of the reduced LP carries c_j * val *)
Theorem C08_FixVariable_same_objective : forall P j val, (j < ncols P)%nat -> forall c lower upper t,
  objective P (sx (exec_FixVariable c j (ncols P - 1) val (c_obj (colj P j)) lower upper true (sp_col P j) t))
  == objective (red_FixVariable P j val) (sx t).
Proof. intros P j val Hj c lo up t. now apply FixVariable_objective. Qed.
Print Assumptions C08_FixVariable_same_objective.

(* FixBoundsPS *)
Theorem C08_FixBounds_preserves_identities : forall P j val, (j < ncols P)%nat -> forall s t,
  prim_ident (red_FixBounds P j val) t /\ dual_ident (red_FixBounds P j val) t ->
  prim_ident P (exec_FixBounds j s t) /\ dual_ident P (exec_FixBounds j s t).
Proof. intros P j val Hj s t. now apply FixBounds_identities. Qed.
Print Assumptions C08_FixBounds_preserves_identities.

Theorem C08_FixBounds_preserves_feasibility_and_signs : forall P j val, (j < ncols P)%nat -> forall s t,
  in_bounds (c_lo (colj P j)) (c_up (colj P j)) val -> dominated_up P j val \/ dominated_lo P j val ->
  prim_feas (red_FixBounds P j val) t -> dual_ident (red_FixBounds P j val) t -> dual_signs (red_FixBounds P j val) t ->
  prim_feas P (exec_FixBounds j s t) /\ dual_signs P (exec_FixBounds j s t).
Proof. intros P j val Hj s t Hb Hd F I S. split; [now apply (FixBounds_feas P j val Hj)|now apply (FixBounds_signs P j val Hj)]. Qed.
Print Assumptions C08_FixBounds_preserves_feasibility_and_signs.

Theorem C08_FixBounds_basis_count : forall P j val, (j < ncols P)%nat -> forall s t,
  is_basic (gcs t j) = false -> is_basic s = false ->
  basis_count (red_FixBounds P j val) t -> basis_count P (exec_FixBounds j s t).
Proof. intros P j val Hj s t. now apply FixBounds_count. Qed.
Print Assumptions C08_FixBounds_basis_count.

(* RowObjPS (the row objective has no counterpart in LP.v: the sign condition of the restored row is not stated) *)
Theorem C08_RowObj_preserves_identities : forall P i w, wf_lp P -> (i < nrows P)%nat -> forall t,
  prim_ident (red_RowObj P i w) t /\ dual_ident (red_RowObj P i w) t ->
  prim_ident P (exec_RowObj i (ncols P) t) /\ dual_ident P (exec_RowObj i (ncols P) t).
Proof. intros P i w W Hi t. now apply RowObj_identities. Qed.
Print Assumptions C08_RowObj_preserves_identities.

Theorem C08_RowObj_preserves_feasibility_partial : forall P i w, (i < nrows P)%nat -> forall t,
  prim_feas (red_RowObj P i w) t -> prim_feas P (exec_RowObj i (ncols P) t).
Proof. intros P i w Hi t. now apply RowObj_feasibility_partial. Qed.
Print Assumptions C08_RowObj_preserves_feasibility_partial.

Theorem C08_RowObj_basis_count : forall P i w, (i < nrows P)%nat -> forall t,
  ~ (is_basic (grs t i) = true /\ is_basic (gcs t (ncols P)) = true) ->
  basis_count (red_RowObj P i w) t -> basis_count P (exec_RowObj i (ncols P) t).
Proof. intros P i w Hi t. now apply RowObj_count. Qed.
Print Assumptions C08_RowObj_basis_count.

(* RowSingletonPS: row i has its only entry a_ij in column j and was removed (its sides became bounds of x_j).  For EVERY
   comparison record, every recorded side and bound and every branch the comparisons select (slack basic with the
   reduced cost kept or recomputed, x_j basic with y_i = val / a_ij, both basic) the restored point satisfies both
   identities; the premise "a basic column of the reduced solution has reduced cost 0" is what the both-basic branch
   uses when it writes r_j = 0. *)
Theorem C08_RowSingleton_preserves_identities : forall P i j c lhs rhs oldLo oldUp t,
  wf_lp P -> (i < nrows P)%nat -> (j < ncols P)%nat -> singleton_row P i j -> ~ coef P i j == 0 ->
  gcs t j <> UNDEFINED -> (gcs t j = BASIC -> gr t j == 0) ->
  prim_ident (red_remove_row P i) t /\ dual_ident (red_remove_row P i) t ->
  let t' := exec_RowSingleton c i (nrows P - 1) j lhs rhs (c_obj (colj P j)) (sp_col P j) oldLo oldUp 0 t in
  prim_ident P t' /\ dual_ident P t'.
Proof. exact RowSingleton_identities. Qed.
Print Assumptions C08_RowSingleton_preserves_identities.

(* the decision of RowSingletonPS ends in one of three shapes: only y_i and r_j are written besides the statuses *)
Theorem C08_RowSingleton_decision_shapes : forall i j val a c t0 lhs rhs oldLo oldUp, gcs t0 j <> UNDEFINED ->
  RS i j val a t0 (rs_decide c t0 i j lhs rhs a val oldLo oldUp 0).
Proof. exact RS_decide. Qed.
Print Assumptions C08_RowSingleton_decision_shapes.

(* the premises are satisfiable: min x0 + 2 x1, row 0: x0 + x1 >= 1, row 1 (singleton): 2 x1 <= 6; reduced solution x = (1, 0) *)
Example C08_RowSingleton_example :
  let P := {| maximize := false; offset := 0;
              cols := [{| c_obj := 1; c_lo := Some 0; c_up := None |}; {| c_obj := 2; c_lo := Some 0; c_up := None |}];
              rows := [{| r_lhs := Some 1; r_coef := [1; 1]; r_rhs := None |}; {| r_lhs := None; r_coef := [0; 2]; r_rhs := Some 6 |}] |} in
  let t := mkst [1; 0] [1] [1] [0; 1] [BASIC; ON_LOWER] [ON_LOWER] in
  let t' := exec_RowSingleton (exact_cmps (inject_Z (10 ^ 100))) 1 1 1 (-(inject_Z (10 ^ 100))) 6 2 (sp_col P 1) 0 (inject_Z (10 ^ 100)) 0 t in
  prim_ident_b (red_remove_row P 1) t && dual_ident_b (red_remove_row P 1) t && prim_ident_b P t' && dual_ident_b P t'
  && vstat_eqb (grs t' 1) BASIC = true.
Proof. vm_compute. reflexivity. Qed.

(* RowSingletonPS, branch "the upper bound the singleton row implies equals the variable's own LOWER bound" (x_j is pinned at it;
   exact comparisons): the sign of the reduced cost decides.  Negative: the row holds x_j down - the column becomes basic and the row gets
   the multiplier val / a_ij, negative with the row's upper side tight for a_ij > 0, positive with its lower side tight for a_ij < 0.
   Otherwise the own bound holds it: the row is basic with multiplier 0 and x_j stays non-basic at its lower bound with a non-negative
   reduced cost.  In both cases the multipliers have the signs complementary slackness needs. *)
Theorem C08_RowSingleton_opposite_bound_signs : forall inf i j lhs rhs aij val oldLo oldUp t0,
  let newLo := if Qltb' 0 aij then lhs / aij else rhs / aij in
  let newUp := if Qltb' 0 aij then rhs / aij else lhs / aij in
  gcs t0 j = FIXED -> (Qleb newLo oldLo && Qleb oldUp newUp) = false -> Qeq_bool newLo newUp = false -> Qeq_bool newLo oldUp = false ->
  Qeq_bool newUp oldLo = true -> ~ aij == 0 -> gx t0 j == oldLo -> val == gr t0 j ->
  let t' := rs_decide (exact_cmps inf) t0 i j lhs rhs aij val oldLo oldUp 0 in
  (gy t' i < 0 -> rhs == aij * gx t' j) /\ (0 < gy t' i -> lhs == aij * gx t' j) /\
  (0 < gr t' j -> oldLo == gx t' j) /\ ~ gr t' j < 0.
Proof. exact upper_meets_lower_signs. Qed.
Print Assumptions C08_RowSingleton_opposite_bound_signs.

(* the mirrored branch: the LOWER bound the row implies equals the variable's own UPPER bound *)
Theorem C08_RowSingleton_opposite_bound_signs_upper : forall inf i j lhs rhs aij val oldLo oldUp t0,
  let newLo := if Qltb' 0 aij then lhs / aij else rhs / aij in
  let newUp := if Qltb' 0 aij then rhs / aij else lhs / aij in
  gcs t0 j = FIXED -> (Qleb newLo oldLo && Qleb oldUp newUp) = false -> Qeq_bool newLo newUp = false -> Qeq_bool newLo oldUp = true ->
  ~ aij == 0 -> gx t0 j == oldUp -> val == gr t0 j ->
  let t' := rs_decide (exact_cmps inf) t0 i j lhs rhs aij val oldLo oldUp 0 in
  (gy t' i < 0 -> rhs == aij * gx t' j) /\ (0 < gy t' i -> lhs == aij * gx t' j) /\
  (gr t' j < 0 -> oldUp == gx t' j) /\ ~ 0 < gr t' j.
Proof. exact lower_meets_upper_signs. Qed.
Print Assumptions C08_RowSingleton_opposite_bound_signs_upper.

(* the hypotheses are satisfiable: 0 <= x_0 <= 10 with the singleton row x_0 <= 0 (lhs -100 stands for a remote side), reduced cost -2 *)
Example C08_RowSingleton_opposite_bound_example :
  let t0 := mkst [0] [0] [0] [-2] [FIXED] [UNDEFINED] in
  let t' := rs_decide (exact_cmps (inject_Z (10 ^ 100))) t0 0 0 (-100) 0 1 (-2) 0 10 0 in
  Qeq_bool (gy t' 0) (-2) && Qeq_bool (gr t' 0) 0 && vstat_eqb (gcs t' 0) BASIC && vstat_eqb (grs t' 0) ON_UPPER = true.
Proof. vm_compute. reflexivity. Qed.

(* FreeColSingletonPS: column j occurs in row i only (a_ij <> 0) and was free: row i and column j were removed and the
   cost of x_j moved onto the other columns of the row, c_k - (c_j / a_ij) a_ik.  With the row and the column put back
   (x_j from the row's side lRhs, y_i = c_j / a_ij, r_j = 0) both identities hold for the original LP; stated for the
   exact-comparison instance (the tolerance instance rounds x_j's numerator to 0 below epsilon). *)
Theorem C08_FreeColSingleton_preserves_identities : forall P i j, wf_lp P -> (i < nrows P)%nat -> (j < ncols P)%nat ->
  (forall l, l <> i -> coef P l j == 0) -> ~ coef P i j == 0 ->
  forall inf lRhs onLhs eqCons t,
  let R := red_FreeColSingleton P i j (c_obj (colj P j) / coef P i j) in
  prim_ident R t /\ dual_ident R t ->
  let t' := exec_FreeColSingleton (exact_cmps inf) j i (ncols P - 1) (nrows P - 1) (c_obj (colj P j)) lRhs onLhs eqCons (sp_row P i) t in
  prim_ident P t' /\ dual_ident P t'.
Proof. exact FreeColSingleton_identities. Qed.
Print Assumptions C08_FreeColSingleton_preserves_identities.

(* non-vacuity: min x0 + 2 x1 + 3 x2, row 0: x0 + x1 >= 1, row 1: x1 + 2 x2 = 4 with x2 free, a singleton in row 1.
   Reduced LP: min x0 + 1/2 x1, row 0 only; its solution x = (1, 0), y = (1), r = (0, -1/2) is restored to x2 = 2, y1 = 3/2 *)
Example C08_FreeColSingleton_example :
  let P := {| maximize := false; offset := 0;
              cols := [{| c_obj := 1; c_lo := Some 0; c_up := None |}; {| c_obj := 2; c_lo := Some 0; c_up := None |};
                       {| c_obj := 3; c_lo := None; c_up := None |}];
              rows := [{| r_lhs := Some 1; r_coef := [1; 1; 0]; r_rhs := None |}; {| r_lhs := Some 4; r_coef := [0; 1; 2]; r_rhs := Some 4 |}] |} in
  let R := red_FreeColSingleton P 1 2 (3 / 2) in
  let t := mkst [1; 0] [1] [1] [0; -(1 # 2)] [BASIC; ON_LOWER] [ON_LOWER] in
  let t' := exec_FreeColSingleton (exact_cmps (inject_Z (10 ^ 100))) 2 1 2 1 3 4 true true (sp_row P 1) t in
  prim_ident_b R t && dual_ident_b R t && prim_ident_b P t' && dual_ident_b P t' && Qeq_bool (gx t' 2) 2 && Qeq_bool (gy t' 1) (3 # 2) = true.
Proof. vm_compute. reflexivity. Qed.

(* DoubletonEquationPS: when the step fires (the transferred bound of x_k is active) it chooses the multiplier of the equation row
   i so that column k gets reduced cost 0, and prices the singleton column j with its own coefficient a_ij: both dual identities
   hold for the two columns, nothing else is touched.  For every comparison record and every recorded datum. *)
Theorem C08_DoubletonEquation_dual_update : forall c j k i ms jf jObj kObj aij slo sup loj col t,
  dbl_fires c j k ms slo sup t = true -> j <> k -> ~ sget col i == 0 ->
  let t' := exec_DoubletonEquation c j k i ms jf jObj kObj aij slo sup loj col t in
  gr t' k == kObj - (sdot_skip col i (sy t') + sget col i * gy t' i) /\
  gr t' j == jObj - aij * gy t' i /\
  (forall l, l <> i -> gy t' l = gy t l) /\ (forall q, q <> j -> q <> k -> gr t' q = gr t q).
Proof. exact DoubletonEquation_dual_update. Qed.
Print Assumptions C08_DoubletonEquation_dual_update.

Example C08_DoubletonEquation_example :
  let t := mkst [0; 2] [0; 0] [0; 0] [5; 1] [ON_LOWER; ON_LOWER] [BASIC; BASIC] in
  dbl_fires (exact_cmps (inject_Z (10 ^ 100))) 0 1 false true false t = true /\
  let t' := exec_DoubletonEquation (exact_cmps (inject_Z (10 ^ 100))) 0 1 0 false false 5 1 3 true false 0 [(0%nat, 2); (1%nat, 1)] t in
  Qeq_bool (gy t' 0) (1 # 2) && Qeq_bool (gr t' 1) 0 && Qeq_bool (gr t' 0) (7 # 2) && vstat_eqb (gcs t' 1) BASIC = true.
Proof. vm_compute. split; reflexivity. Qed.

(* ---------------------------------------------------------------------------------------------------------------- *)
(* basis count of further steps (dimensions n1, m1 of the reduced LP) *)
Theorem C08_FreeColSingleton_basis_count : forall c j i n1 m1 obj lRhs onLhs eqCons row t, (j <= n1)%nat -> (i <= m1)%nat ->
  (cntb (scs t) n1 + cntb (srs t) m1 = m1)%nat ->
  let t' := exec_FreeColSingleton c j i n1 m1 obj lRhs onLhs eqCons row t in
  (cntb (scs t') (S n1) + cntb (srs t') (S m1) = S m1)%nat.
Proof. exact FreeColSingleton_count. Qed.
Print Assumptions C08_FreeColSingleton_basis_count.

Theorem C08_MultiAggregation_basis_count : forall c j i n1 m1 obj cst onLhs eqCons row col t, (j <= n1)%nat -> (i <= m1)%nat ->
  (cntb (scs t) n1 + cntb (srs t) m1 = m1)%nat ->
  let t' := exec_MultiAggregation c j i n1 m1 obj cst onLhs eqCons row col t in
  (cntb (scs t') (S n1) + cntb (srs t') (S m1) = S m1)%nat.
Proof. exact MultiAggregation_count. Qed.
Print Assumptions C08_MultiAggregation_basis_count.

Theorem C08_DoubletonEquation_basis_count : forall c j k i ms jf jo ko aij slo sup loj col t n m, (j < n)%nat -> (k < n)%nat -> j <> k ->
  (is_basic (gcs t k) = false -> is_basic (gcs t j) = true) ->
  let t' := exec_DoubletonEquation c j k i ms jf jo ko aij slo sup loj col t in
  (cntb (scs t') n + cntb (srs t') m = cntb (scs t) n + cntb (srs t) m)%nat.
Proof. exact DoubletonEquation_count. Qed.
Print Assumptions C08_DoubletonEquation_basis_count.

(* TightenBoundsPS touches only the column statuses ... *)
Theorem C08_TightenBounds_keeps_values : forall c j ou ol t,
  let t' := exec_TightenBounds c j ou ol t in sx t' = sx t /\ sy t' = sy t /\ ss t' = ss t /\ sr t' = sr t /\ srs t' = srs t.
Proof. exact TightenBounds_values. Qed.
Print Assumptions C08_TightenBounds_keeps_values.

(* ... and does NOT preserve the basis count in general: a non-basic column sitting at a tightened bound that is strictly
   inside its original bounds becomes BASIC without any row or column leaving the basis (witness: 1 column, 1 row) *)
Theorem C08_TightenBounds_basis_count_refuted :
  exists c j ou ol t, (cntb (scs t) 1 + cntb (srs t) 1 = 1)%nat /\
    let t' := exec_TightenBounds c j ou ol t in (cntb (scs t') 1 + cntb (srs t') 1 = 2)%nat.
Proof. exact TightenBounds_count_refuted. Qed.
Print Assumptions C08_TightenBounds_basis_count_refuted.

(* ---------------------------------------------------------------------------------------------------------------- *)
(* AggregationPS: the defect that was found with this model and its repair (commit 506310f) *)

(* OLD rule: from an optimal basic solution of the reduced LP satisfying all five invariants the step produced duals that
   violate r = c - A^T y for the LP before the aggregation *)
Theorem C08_aggregation_dual_refuted :
  prim_ident agg_P' agg_t /\ dual_ident agg_P' agg_t /\ prim_feas agg_P' agg_t /\ dual_signs agg_P' agg_t /\ basis_count agg_P' agg_t /\
  exists t', agg_old = Some t' /\ prim_ident agg_P t' /\ ~ dual_ident agg_P t'.
Proof. exact aggregation_dual_refuted_old_rule. Qed.
Print Assumptions C08_aggregation_dual_refuted.

(* NEW rule on the same witness: all invariants hold, hence (C08_invariants_give_optimality) the result is optimal *)
Theorem C08_aggregation_fixed_on_witness :
  exists t', agg_new = Some t' /\ prim_ident agg_P t' /\ dual_ident agg_P t' /\ prim_feas agg_P t' /\ dual_signs agg_P t' /\ basis_count agg_P t'.
Proof. exact aggregation_fixed_on_witness. Qed.
Print Assumptions C08_aggregation_fixed_on_witness.

(* the algebra of the new rule, for all coefficients *)
Theorem C08_aggregation_dual_update_correct : forall aij aik Rj Rk, ~ aij == 0 -> ~ aik == 0 ->
  let r'k := Rk + (- (aik / aij)) * Rj in
  let yi := Rj / aij + r'k / aik in
  Rk - aik * yi == 0 /\ Rj - aij * yi == - (aij / aik) * r'k.
Proof. exact aggregation_dual_update. Qed.
Print Assumptions C08_aggregation_dual_update_correct.

Theorem C08_aggregation_dual_sign_correct : forall aij aik r'k, ~ aij == 0 -> ~ aik == 0 ->
  let coef := - (aik / aij) in
  let rj := - (aij / aik) * r'k in
  (0 < coef -> (0 <= r'k -> 0 <= rj) /\ (r'k <= 0 -> rj <= 0)) /\
  (coef < 0 -> (0 <= r'k -> rj <= 0) /\ (r'k <= 0 -> 0 <= rj)).
Proof. exact aggregation_dual_sign. Qed.
Print Assumptions C08_aggregation_dual_sign_correct.

(* MultiAggregationPS: the second defect (slacks) and its repair (commit aa39d1d) *)
Theorem C08_multiaggregation_slack_refuted :
  prim_ident magg_P' magg_t /\ dual_ident magg_P' magg_t /\ prim_feas magg_P' magg_t /\ dual_signs magg_P' magg_t /\ basis_count magg_P' magg_t /\
  dual_ident magg_P magg_old /\ ~ prim_ident magg_P magg_old.
Proof. exact multiaggregation_slack_refuted_old_rule. Qed.
Print Assumptions C08_multiaggregation_slack_refuted.

Theorem C08_multiaggregation_fixed_on_witness :
  prim_ident magg_P magg_new /\ dual_ident magg_P magg_new /\ prim_feas magg_P magg_new /\ dual_signs magg_P magg_new /\ basis_count magg_P magg_new.
Proof. exact multiaggregation_fixed_on_witness. Qed.
Print Assumptions C08_multiaggregation_fixed_on_witness.

(* ---------------------------------------------------------------------------------------------------------------- *)
(* non-vacuity: concrete LPs and optimal basic solutions of their reductions that satisfy the hypotheses; the conclusions
   are re-checked by computation *)
Definition X := exact_cmps (inject_Z (10 ^ 100)).

(* fixed column 0 (swap with the last column): min 3 x0 + x1, x0 = 2, x1 in [0,4], x0 + x1 >= 3 *)
Definition ex_fv : lp := {| maximize := false; offset := 0; cols := [mkcol 3 (Some 2) (Some 2); mkcol 1 (Some 0) (Some 4)];
                            rows := [mkrow (Some 3) [1; 1] None] |}.
Definition ex_fv_t : st := mkst [1; 0] [1] [1] [0; 0] [BASIC; UNDEFINED] [ON_LOWER].
Example C08_ex_FixVariable :
  wf_lp ex_fv /\ fix_justified ex_fv 0 2 /\ all_inv_b (red_FixVariable ex_fv 0 2) ex_fv_t = true /\
  all_inv_b ex_fv (exec_FixVariable X 0 1 2 3 2 2 true (sp_col ex_fv 0) ex_fv_t) = true /\
  optimal ex_fv [2; 1].
Proof.
  assert (W : wf_lp ex_fv) by (intros i Hi; unfold nrows in Hi; simpl in Hi; destruct i; [reflexivity|lia]).
  split; [exact W|]. split; [left; exists 2, 2; repeat split; reflexivity|].
  split; [vm_compute; reflexivity|]. split; [vm_compute; reflexivity|].
  assert (Hall : all_inv_b ex_fv (exec_FixVariable X 0 1 2 3 2 2 true (sp_col ex_fv 0) ex_fv_t) = true) by (vm_compute; reflexivity).
  apply all_inv_b_ok in Hall. destruct Hall as (A & B & C & D & _).
  assert (L1 : (ncols ex_fv <= length (sx (exec_FixVariable X 0 1 2 3 2 2 true (sp_col ex_fv 0) ex_fv_t)))%nat) by (vm_compute; lia).
  assert (L2 : (nrows ex_fv <= length (sy (exec_FixVariable X 0 1 2 3 2 2 true (sp_col ex_fv 0) ex_fv_t)))%nat) by (vm_compute; lia).
  destruct (C08_invariants_give_optimality ex_fv _ eq_refl W L1 L2 A B C D) as [_ O].
  vm_compute firstn in O. exact O.
Qed.

(* free row 0 (swap with the last row): min x0, x0 in [0,4], free row, x0 >= 1 *)
Definition ex_fc : lp := {| maximize := false; offset := 0; cols := [mkcol 1 (Some 0) (Some 4)];
                            rows := [mkrow None [1] None; mkrow (Some 1) [1] None] |}.
Definition ex_fc_t : st := mkst [1] [1; 0] [1; 0] [0] [BASIC] [ON_LOWER; UNDEFINED].
Example C08_ex_FreeConstraint :
  all_inv_b (red_remove_row ex_fc 0) ex_fc_t = true /\ all_inv_b ex_fc (exec_FreeConstraint 0 1 (sp_row ex_fc 0) 0 ex_fc_t) = true.
Proof. split; vm_compute; reflexivity. Qed.

Definition ex_ec : lp := {| maximize := false; offset := 0; cols := [mkcol 1 (Some 0) (Some 4)];
                            rows := [mkrow None [0] (Some 1); mkrow (Some 1) [1] None] |}.
Example C08_ex_EmptyConstraint :
  empty_row ex_ec 0 /\ all_inv_b (red_remove_row ex_ec 0) ex_fc_t = true /\ all_inv_b ex_ec (exec_EmptyConstraint 0 1 0 ex_fc_t) = true.
Proof. split; [intros [|[|j]]; reflexivity|]. split; vm_compute; reflexivity. Qed.

(* dominated column fixed at its upper bound: min -x0, x0 in [0,4], x0 >= 1 *)
Definition ex_fb : lp := {| maximize := false; offset := 0; cols := [mkcol (-1) (Some 0) (Some 4)]; rows := [mkrow (Some 1) [1] None] |}.
Definition ex_fb_t : st := mkst [4] [0] [4] [-1] [FIXED] [BASIC].
Example C08_ex_FixBounds :
  dominated_up ex_fb 0 4 /\ all_inv_b (red_FixBounds ex_fb 0 4) ex_fb_t = true /\ all_inv_b ex_fb (exec_FixBounds 0 ON_UPPER ex_fb_t) = true.
Proof.
  split; [|split; vm_compute; reflexivity].
  split; [reflexivity|]. split; [reflexivity|]. intros i Hi; unfold nrows in Hi; simpl in Hi; destruct i; [|lia].
  split; [reflexivity|]. intros H. vm_compute in H. discriminate.
Qed.

(* row objective 2 on the row x0 >= 1: slack column with cost 2 in (-inf,-1], row x0 + slack = 0 *)
Definition ex_ro : lp := {| maximize := false; offset := 0; cols := [mkcol 1 (Some 0) (Some 4)]; rows := [mkrow (Some 1) [1] None] |}.
Definition ex_ro_t : st := mkst [4; -4] [2] [0] [-1; 0] [ON_UPPER; BASIC] [FIXED].
Example C08_ex_RowObj :
  all_inv_b (red_RowObj ex_ro 0 2) ex_ro_t = true /\
  let t' := exec_RowObj 0 1 ex_ro_t in
  (prim_ident_b ex_ro t' && dual_ident_b ex_ro t' && prim_feas_b ex_ro t' && basis_count_b ex_ro t')%bool = true.
Proof. split; vm_compute; reflexivity. Qed.
