(* C13 - lemmas about the lexer models of LexersModel.v (and SettingsLexer.tokenise). *)
From Coq Require Import ZArith Bool List Arith Lia.
From SV Require Import SettingsLexer LexersModel.
Import ListNotations.
Local Open Scope Z_scope.

(* ====================================================================================================== *)
(** * generic facts about C strings *)

Definition nz (l : list Z) : Prop := Forall (fun c => c <> 0) l.

Lemma cstr_nz l : nz (cstr l).
Proof.
  induction l as [|c r IH]; cbn [cstr]; [constructor|].
  destruct (c =? 0) eqn:E; [constructor|]. constructor; [|exact IH]. apply Z.eqb_neq. exact E.
Qed.

Lemma cstr_len l : (List.length (cstr l) <= List.length l)%nat.
Proof.
  induction l as [|c r IH]; cbn [cstr]; [lia|]. destruct (c =? 0); cbn [List.length]; lia.
Qed.

(* the buffer [line ++ [0]] is its C string, the terminator, and whatever follows *)
Lemma cstr_split l : exists tail, l ++ [0] = cstr l ++ 0 :: tail.
Proof.
  induction l as [|c r [tail IH]]; cbn [cstr app].
  - exists []. reflexivity.
  - destruct (c =? 0) eqn:E.
    + apply Z.eqb_eq in E. subst c. exists (r ++ [0]). reflexivity.
    + exists tail. cbn [app]. now rewrite IH.
Qed.

Lemma cstr_app_nz t rest : nz t -> cstr (t ++ 0 :: rest) = t.
Proof.
  induction 1 as [|c r Hc _ IH]; cbn [app cstr].
  - reflexivity.
  - apply Z.eqb_neq in Hc. rewrite Hc. now rewrite IH.
Qed.

Lemma nz_app a b : nz (a ++ b) -> nz a /\ nz b.
Proof. unfold nz. rewrite Forall_app. tauto. Qed.

(* ====================================================================================================== *)
(** * (a) the settings tokeniser: structure of the tokens *)

Lemma skipws_len l : (List.length (skipws l) <= List.length l)%nat.
Proof. induction l as [|c r IH]; cbn [skipws List.length]; [lia|]. destruct (is_blank c); cbn [List.length]; lia. Qed.

Lemma skipws_split l : exists a, l = a ++ skipws l.
Proof.
  induction l as [|c r [a IH]]; cbn [skipws].
  - exists []. reflexivity.
  - destruct (is_blank c).
    + exists (c :: a). cbn [app]. now rewrite <- IH.
    + exists []. reflexivity.
Qed.

Lemma nz_skipws l : nz l -> nz (skipws l).
Proof. intros H. destruct (skipws_split l) as [a E]. rewrite E in H. now apply nz_app in H. Qed.

(* a token: no blank, no end-of-line character, no separator, no NUL (inside a C string) *)
Definition clean_tok (t : list Z) : Prop := Forall (fun c => is_blank c = false /\ is_eol c = false) t.

Lemma span_tok_app sep l : l = fst (span_tok sep l) ++ snd (span_tok sep l).
Proof.
  induction l as [|c r IH]; cbn [span_tok]; [reflexivity|].
  destruct (is_blank c || is_eol c || (c =? sep)); [reflexivity|].
  destruct (span_tok sep r) as [t rest]. cbn [fst snd app] in *. now rewrite <- IH.
Qed.

Lemma span_tok_clean sep l : clean_tok (fst (span_tok sep l)).
Proof.
  induction l as [|c r IH]; cbn [span_tok]; [constructor|].
  destruct (is_blank c || is_eol c || (c =? sep)) eqn:E; [constructor|].
  destruct (span_tok sep r) as [t rest]. cbn [fst] in *. constructor; [|exact IH].
  apply orb_false_iff in E. destruct E as [E _]. apply orb_false_iff in E. exact E.
Qed.

Lemma nz_span_snd sep l : nz l -> nz (snd (span_tok sep l)).
Proof. intros H. rewrite (span_tok_app sep l) in H. now apply nz_app in H. Qed.

Lemma expect_sep_suffix sep r r' : expect_sep sep r = Some r' -> exists b, r = b ++ r' /\ (0 < List.length b)%nat.
Proof.
  unfold expect_sep. destruct r as [|c r0]; [discriminate|].
  destruct (c =? sep).
  - intros [= <-]. exists [c]. split; [reflexivity|cbn; lia].
  - destruct (skipws_split r0) as [a Ea]. destruct (skipws r0) as [|c' r1] eqn:Es; [discriminate|].
    destruct (c' =? sep); [|discriminate]. intros [= <-].
    exists (c :: a ++ [c']). split; [|cbn; lia]. cbn [app]. rewrite <- app_assoc. cbn [app]. now rewrite <- Ea.
Qed.

Lemma nz_expect sep r r' : nz r -> expect_sep sep r = Some r' -> nz r'.
Proof. intros H E. apply expect_sep_suffix in E. destruct E as (b & -> & _). now apply nz_app in H. Qed.

(* the body of [tokenise] as a function of the C string *)
Lemma tokenise_tokens line ty name val :
  tokenise line = TOk ty name val ->
  exists a b c d, cstr line = a ++ ty ++ b ++ name ++ c ++ val ++ d /\
                  clean_tok ty /\ clean_tok name /\ clean_tok val /\ nz ty /\ nz name /\ nz val.
Proof.
  unfold tokenise. pose proof (cstr_nz line) as NZ. set (s := cstr line) in *. clearbody s.
  destruct (skipws_split s) as [a Ea]. set (l0 := skipws s) in *.
  assert (nz l0) as NZ0 by (apply nz_skipws; exact NZ). clearbody l0.
  destruct (at_end l0); [discriminate|].
  pose proof (span_tok_app 58 l0) as E1. pose proof (span_tok_clean 58 l0) as C1.
  pose proof (nz_span_snd 58 l0 NZ0) as NZ1.
  destruct (span_tok 58 l0) as [ty' r1]. cbn [fst snd] in *.
  destruct (expect_sep 58 r1) as [r2|] eqn:X1; [|discriminate].
  pose proof (nz_expect _ _ _ NZ1 X1) as NZ2. apply expect_sep_suffix in X1. destruct X1 as (b1 & Eb1 & _).
  destruct (skipws_split r2) as [b2 Eb2]. set (l1 := skipws r2) in *.
  assert (nz l1) as NZl1 by (apply nz_skipws; exact NZ2). clearbody l1.
  destruct (at_end l1); [discriminate|].
  pose proof (span_tok_app 61 l1) as E2. pose proof (span_tok_clean 61 l1) as C2.
  pose proof (nz_span_snd 61 l1 NZl1) as NZ3.
  destruct (span_tok 61 l1) as [name' r3]. cbn [fst snd] in *.
  destruct (expect_sep 61 r3) as [r4|] eqn:X2; [|discriminate].
  pose proof (nz_expect _ _ _ NZ3 X2) as NZ4. apply expect_sep_suffix in X2. destruct X2 as (c1 & Ec1 & _).
  destruct (skipws_split r4) as [c2 Ec2]. set (l2 := skipws r4) in *.
  assert (nz l2) as NZl2 by (apply nz_skipws; exact NZ4). clearbody l2.
  destruct (at_end l2); [discriminate|].
  pose proof (span_tok_app (-1) l2) as E3. pose proof (span_tok_clean (-1) l2) as C3.
  destruct (span_tok (-1) l2) as [val' r5]. cbn [fst snd] in *.
  assert (TOk ty' name' val' = TOk ty name val -> ty' = ty /\ name' = name /\ val' = val) as Inj
      by (intros [= -> -> ->]; auto).
  intros H.
  assert (ty' = ty /\ name' = name /\ val' = val) as (-> & -> & ->).
  { destruct r5 as [|c5 r6]; [now apply Inj|]. destruct (at_end (skipws r6)); [now apply Inj|discriminate]. }
  clear H. exists a, (b1 ++ b2), (c1 ++ c2), r5.
  split.
  { rewrite Ea, E1, Eb1, Eb2, E2, Ec1, Ec2, E3. now rewrite <- !app_assoc. }
  rewrite E1 in NZ0. apply nz_app in NZ0. rewrite E2 in NZl1. apply nz_app in NZl1.
  rewrite E3 in NZl2. apply nz_app in NZl2. tauto.
Qed.

Lemma tokens_len line ty name val :
  tokenise line = TOk ty name val ->
  (List.length ty + List.length name + List.length val <= List.length line)%nat.
Proof.
  intros H. apply tokenise_tokens in H. destruct H as (a & b & c & d & E & _).
  pose proof (cstr_len line) as L. rewrite E in L. rewrite !app_length in L. lia.
Qed.

(* ====================================================================================================== *)
(** * (a) the cursor machine computes [tokenise] and stays at or before the terminator *)

Lemma blank_nz c : is_blank c = true -> c <> 0.
Proof. unfold is_blank. intros H ->. discriminate. Qed.

Lemma c_skipws_buf r tail i : nz r ->
  c_skipws (r ++ 0 :: tail) i = Ok (skipws r ++ 0 :: tail, (i + (List.length r - List.length (skipws r)))%nat).
Proof.
  intros H. revert i. induction H as [|c r0 Hc _ IH]; intros i; cbn [app c_skipws skipws].
  - change (is_blank 0) with false. cbn [List.length]. do 2 f_equal. lia.
  - destruct (is_blank c) eqn:B.
    + rewrite IH. pose proof (skipws_len r0). cbn [List.length]. do 2 f_equal. lia.
    + cbn [List.length]. do 2 f_equal. lia.
Qed.

Lemma c_span_buf sep r tail i : nz r ->
  c_span sep (r ++ 0 :: tail) i =
  Ok (fst (span_tok sep r), (snd (span_tok sep r) ++ 0 :: tail, (i + List.length (fst (span_tok sep r)))%nat)).
Proof.
  intros H. revert i. induction H as [|c r0 Hc _ IH]; intros i; cbn [app c_span span_tok].
  - change (is_blank 0 || is_eol 0 || (0 =? 0) || (0 =? sep)) with true. cbn [fst snd List.length app]. do 3 f_equal. lia.
  - apply Z.eqb_neq in Hc. rewrite Hc, orb_false_r.
    destruct (is_blank c || is_eol c || (c =? sep)).
    + cbn [fst snd List.length app]. do 3 f_equal. lia.
    + rewrite IH. destruct (span_tok sep r0) as [t rest]. cbn [fst snd List.length]. do 3 f_equal. lia.
Qed.

Lemma c_at_end_buf r tail : nz r -> c_at_end (r ++ 0 :: tail) = Ok (at_end r).
Proof.
  intros H. destruct H as [|c r0 Hc _]; cbn [app c_at_end at_end]; [reflexivity|].
  apply Z.eqb_neq in Hc. now rewrite Hc.
Qed.

Lemma expect_sep_len sep r r' : expect_sep sep r = Some r' -> (List.length r' < List.length r)%nat.
Proof. intros E. apply expect_sep_suffix in E. destruct E as (b & -> & L). rewrite app_length. lia. Qed.

Lemma c_expect_sep_buf sep r tail i : nz r -> sep <> 0 ->
  exists i', c_expect_sep false sep (r ++ 0 :: tail, i) =
             Ok (match expect_sep sep r with None => None | Some r' => Some (r' ++ 0 :: tail) end, i') /\
             (i' + match expect_sep sep r with None => 0 | Some r' => List.length r' end <= i + List.length r)%nat.
Proof.
  intros H Hs. unfold c_expect_sep, expect_sep. destruct H as [|c r0 Hc Hr]; cbn [app].
  - apply Z.eqb_neq in Hs. rewrite Z.eqb_sym in Hs. rewrite Hs. change (0 =? 0) with true. cbn [orb negb fst snd c_skipws].
    change (is_blank 0) with false. cbn iota. rewrite Hs. eexists. split; [reflexivity|]. cbn [List.length]. lia.
  - destruct (c =? sep).
    + eexists. split; [reflexivity|]. cbn [List.length]. lia.
    + apply Z.eqb_neq in Hc. rewrite Hc. cbn [orb negb fst snd].
      rewrite (c_skipws_buf r0 tail (S i) Hr). pose proof (skipws_len r0) as L.
      destruct (skipws r0) as [|c' r1]; cbn [app].
      * apply Z.eqb_neq in Hs. rewrite Z.eqb_sym in Hs. rewrite Hs. eexists. split; [reflexivity|]. cbn [List.length] in *. lia.
      * destruct (c' =? sep); (eexists; split; [reflexivity|]); cbn [List.length] in *; lia.
Qed.

Lemma span_tok_lens sep l : (List.length (fst (span_tok sep l)) + List.length (snd (span_tok sep l)) = List.length l)%nat.
Proof. rewrite (span_tok_app sep l) at 3. now rewrite app_length. Qed.

(* main refinement: on a NUL-terminated buffer the repaired cursor machine never reads out of bounds, returns exactly
   what [tokenise] returns, and its final cursor is not behind the terminator *)
Lemma c_parse_buf s tail : nz s ->
  exists i, c_parse false (s ++ 0 :: tail) = Ok (tokenise s, i) /\ (i <= List.length s)%nat.
Proof.
  intros NZ. unfold c_parse, tokenise.
  assert (cstr s = s) as -> by (rewrite <- (app_nil_r s) at 1; clear -NZ; induction NZ as [|c r Hc _ IH]; cbn [app cstr];
                                 [reflexivity | apply Z.eqb_neq in Hc; rewrite Hc; now rewrite IH]).
  rewrite (c_skipws_buf s tail 0 NZ). pose proof (skipws_len s) as L0.
  assert (nz (skipws s)) as NZ0 by (now apply nz_skipws). set (l0 := skipws s) in *. clearbody l0.
  rewrite (c_at_end_buf l0 tail NZ0). destruct (at_end l0).
  { eexists. split; [reflexivity|]. lia. }
  rewrite (c_span_buf 58 l0 tail _ NZ0). pose proof (span_tok_lens 58 l0) as L1.
  pose proof (nz_span_snd 58 l0 NZ0) as NZ1. destruct (span_tok 58 l0) as [ty r1]. cbn [fst snd] in *.
  destruct (c_expect_sep_buf 58 r1 tail (0 + (List.length s - List.length l0) + List.length ty) NZ1 ltac:(discriminate)) as (j1 & -> & J1).
  destruct (expect_sep 58 r1) as [r2|] eqn:X1.
  2:{ eexists. split; [reflexivity|]. lia. }
  pose proof (expect_sep_len _ _ _ X1) as L2. pose proof (nz_expect _ _ _ NZ1 X1) as NZ2.
  rewrite (c_skipws_buf r2 tail _ NZ2). pose proof (skipws_len r2) as L3.
  assert (nz (skipws r2)) as NZ3 by (now apply nz_skipws). set (l1 := skipws r2) in *. clearbody l1.
  rewrite (c_at_end_buf l1 tail NZ3). destruct (at_end l1).
  { eexists. split; [reflexivity|]. lia. }
  rewrite (c_span_buf 61 l1 tail _ NZ3). pose proof (span_tok_lens 61 l1) as L4.
  pose proof (nz_span_snd 61 l1 NZ3) as NZ4. destruct (span_tok 61 l1) as [name r3]. cbn [fst snd] in *.
  match goal with |- context [c_expect_sep false 61 (_, ?k)] =>
    destruct (c_expect_sep_buf 61 r3 tail k NZ4 ltac:(discriminate)) as (j2 & -> & J2) end.
  destruct (expect_sep 61 r3) as [r4|] eqn:X2.
  2:{ eexists. split; [reflexivity|]. lia. }
  pose proof (expect_sep_len _ _ _ X2) as L5. pose proof (nz_expect _ _ _ NZ4 X2) as NZ5.
  rewrite (c_skipws_buf r4 tail _ NZ5). pose proof (skipws_len r4) as L6.
  assert (nz (skipws r4)) as NZ6 by (now apply nz_skipws). set (l2 := skipws r4) in *. clearbody l2.
  rewrite (c_at_end_buf l2 tail NZ6). destruct (at_end l2).
  { eexists. split; [reflexivity|]. lia. }
  rewrite (c_span_buf (-1) l2 tail _ NZ6). pose proof (span_tok_lens (-1) l2) as L7.
  pose proof (nz_span_snd (-1) l2 NZ6) as NZ7. destruct (span_tok (-1) l2) as [val r5]. cbn [fst snd] in *.
  destruct NZ7 as [|c5 r6 Hc5 NZ8]; cbn [app].
  { change (0 =? 0) with true. cbn iota. eexists. split; [reflexivity|]. cbn [List.length] in *. lia. }
  apply Z.eqb_neq in Hc5. rewrite Hc5.
  rewrite (c_skipws_buf r6 tail _ NZ8). pose proof (skipws_len r6) as L8.
  assert (nz (skipws r6)) as NZ9 by (now apply nz_skipws).
  rewrite (c_at_end_buf (skipws r6) tail NZ9).
  eexists. split; [reflexivity|]. cbn [List.length] in *. lia.
Qed.

Lemma tokenise_cstr line : tokenise (cstr line) = tokenise line.
Proof.
  unfold tokenise. f_equal.
  assert (cstr (cstr line) = cstr line) as E.
  { pose proof (cstr_nz line) as H. rewrite <- (app_nil_r (cstr line)) at 1.
    induction H as [|c r Hc _ IH]; cbn [app cstr]; [reflexivity|]. apply Z.eqb_neq in Hc. rewrite Hc. now rewrite IH. }
  now rewrite E.
Qed.

Lemma settings_cursor_in_bounds_lemma line :
  exists i, c_parse false (line ++ [0]) = Ok (tokenise line, i) /\ (i <= term_pos line)%nat.
Proof.
  destruct (cstr_split line) as [tail E]. rewrite E.
  destruct (c_parse_buf (cstr line) tail (cstr_nz line)) as (i & P & B).
  exists i. rewrite tokenise_cstr in P. split; [exact P|exact B].
Qed.

(* ====================================================================================================== *)
(** * (b) MPSInput::readLine *)

Lemma scan_line_delim n l cs r : scan_line n l = (cs, r, HDelim) -> (List.length r < List.length l)%nat.
Proof.
  revert l cs r. induction n as [|n IH]; intros l cs r; destruct l as [|c l0]; cbn [scan_line]; try discriminate.
  - destruct (c =? 10); [|discriminate]. intros [= _ <-]. cbn [List.length]. lia.
  - destruct (c =? 10).
    + intros [= _ <-]. cbn [List.length]. lia.
    + destruct (scan_line n l0) as [[cs' r'] h'] eqn:E. intros [= _ <- ->].
      apply IH in E. cbn [List.length]. lia.
Qed.

(* a getline call that leaves failbit clear strictly decreases the measure *)
Lemma getline_decreases n st cs st' :
  getline n st = (cs, st') -> s_fail st' = false -> (stream_measure st' < stream_measure st)%nat.
Proof.
  unfold getline. destruct (s_eof st || s_fail st) eqn:F.
  - intros [= _ <-]. cbn [s_fail]. discriminate.
  - apply orb_false_iff in F. destruct F as [Fe Ff].
    destruct (scan_line n (s_rest st)) as [[cs' r] h] eqn:E. destruct h.
    + intros [= _ <-] _. apply scan_line_delim in E. unfold stream_measure. cbn [s_fail s_eof s_rest]. rewrite Fe, Ff. lia.
    + intros [= _ <-]. cbn [s_fail]. intros Hf. unfold stream_measure. cbn [s_fail s_eof s_rest]. rewrite Hf, Fe, Ff. lia.
    + intros [= _ <-]. cbn [s_fail]. discriminate.
Qed.

Lemma readLine_terminates_lemma fuel : forall st ps,
  (stream_measure st < fuel)%nat -> readLine true fuel st ps <> OutOfFuel.
Proof.
  induction fuel as [|fuel IH]; intros st ps M; [lia|].
  cbn [readLine]. destruct (getline BUFCAP st) as [cs st'] eqn:G.
  unfold gives_up. destruct (s_fail st') eqn:F; [discriminate|].
  pose proof (getline_decreases _ _ _ _ G F) as D.
  destruct (starts_star (cstr cs) || all_blank (cstr cs)).
  - apply IH. lia.
  - destruct (split_line _ (cstr cs)) as [[f ps''] marker]. destruct marker; [|discriminate].
    apply IH. lia.
Qed.

(* more fuel never changes a result that was reached *)
Lemma readLine_fuel_mono eofcheck fuel : forall st ps fuel',
  (fuel <= fuel')%nat -> readLine eofcheck fuel st ps <> OutOfFuel ->
  readLine eofcheck fuel' st ps = readLine eofcheck fuel st ps.
Proof.
  induction fuel as [|fuel IH]; intros st ps fuel' L H; [cbn in H; congruence|].
  destruct fuel' as [|fuel']; [lia|]. cbn [readLine] in *.
  destruct (getline BUFCAP st) as [cs st']. destruct (gives_up eofcheck st'); [reflexivity|].
  destruct (starts_star (cstr cs) || all_blank (cstr cs)).
  - apply IH; [lia|exact H].
  - destruct (split_line _ (cstr cs)) as [[f ps''] marker]. destruct marker; [|reflexivity].
    apply IH; [lia|exact H].
Qed.

(* the original condition: once eofbit and failbit are both set the loop never ends *)
Lemma readLine_stuck fuel : forall ps, readLine false fuel (mkStream [] true true) ps = OutOfFuel.
Proof.
  induction fuel as [|fuel IH]; intros ps; [reflexivity|].
  cbn [readLine getline s_eof s_fail s_rest orb]. cbn [gives_up s_eof s_fail orb negb andb cstr starts_star all_blank forallb].
  apply IH.
Qed.

Lemma readLine_refuted_lemma : forall fuel ps, readLine false fuel (fresh_stream []) ps = OutOfFuel.
Proof.
  intros [|fuel] ps; [reflexivity|].
  unfold fresh_stream. cbn [readLine getline s_eof s_fail s_rest orb scan_line BUFCAP].
  cbn [gives_up s_eof s_fail orb negb andb cstr starts_star all_blank forallb].
  apply readLine_stuck.
Qed.

(* any stream whose remaining bytes are only blank lines and comment lines hangs: truncated files in particular *)
Lemma readLine_old_hangs_after_last_line fuel : forall ps,
  readLine false fuel (mkStream [] true false) ps = OutOfFuel.
Proof.
  intros ps. destruct fuel as [|fuel]; [reflexivity|].
  cbn [readLine getline s_eof s_fail s_rest orb]. cbn [gives_up s_eof s_fail orb negb andb cstr starts_star all_blank forallb].
  apply readLine_stuck.
Qed.

(* ====================================================================================================== *)
(** * (c) copy loops *)

Lemma copy_loop_none_iff cap tok : forall buf i,
  copy_loop cap buf i tok = None <-> (cap <= i + List.length tok)%nat.
Proof.
  induction tok as [|c r IH]; intros buf i; cbn [copy_loop List.length].
  - unfold write. destruct (i <? cap)%nat eqn:E.
    + apply Nat.ltb_lt in E. split; [discriminate|lia].
    + apply Nat.ltb_ge in E. split; [lia|reflexivity].
  - unfold write. destruct (i <? cap)%nat eqn:E.
    + apply Nat.ltb_lt in E. rewrite IH. lia.
    + apply Nat.ltb_ge in E. split; [lia|reflexivity].
Qed.

Lemma copy_loop_content cap tok : forall buf i,
  List.length buf = cap -> (i + List.length tok < cap)%nat ->
  exists rest, copy_loop cap buf i tok = Some (firstn i buf ++ tok ++ 0 :: rest).
Proof.
  induction tok as [|c r IH]; intros buf i Lb Lt; cbn [copy_loop List.length] in *.
  - unfold write. assert ((i <? cap)%nat = true) as -> by (apply Nat.ltb_lt; lia).
    eexists. reflexivity.
  - unfold write. assert ((i <? cap)%nat = true) as -> by (apply Nat.ltb_lt; lia).
    set (buf' := firstn i buf ++ c :: skipn (S i) buf).
    assert (List.length buf' = cap) as Lb'.
    { unfold buf'. rewrite app_length. cbn [List.length]. rewrite firstn_length, skipn_length. lia. }
    destruct (IH buf' (S i) Lb' ltac:(lia)) as [rest E]. exists rest. rewrite E. f_equal.
    assert (firstn (S i) buf' = firstn i buf ++ [c]) as ->.
    { unfold buf'. rewrite firstn_app, firstn_firstn, firstn_length.
      replace (Nat.min (S i) i) with i by lia. replace (Nat.min i (List.length buf)) with i by lia.
      replace (S i - i)%nat with 1%nat by lia. reflexivity. }
    rewrite <- app_assoc. reflexivity.
Qed.

Lemma fresh_array_len cap : List.length (fresh_array cap) = cap.
Proof. apply repeat_length. Qed.

(* when the token fits, the array holds exactly the token as a C string *)
Lemma copy_loop_cstr cap tok : nz tok -> (List.length tok < cap)%nat ->
  exists arr, copy_loop cap (fresh_array cap) 0 tok = Some arr /\ cstr arr = tok.
Proof.
  intros N L. destruct (copy_loop_content cap tok (fresh_array cap) 0 (fresh_array_len cap) ltac:(lia)) as [rest E].
  eexists. split; [exact E|]. cbn [firstn app]. now apply cstr_app_nz.
Qed.

Lemma span_digits_app l : l = fst (span_digits l) ++ snd (span_digits l).
Proof.
  induction l as [|c r IH]; cbn [span_digits]; [reflexivity|].
  destruct (is_dig c); [|reflexivity]. destruct (span_digits r) as [d rest]. cbn [fst snd app] in *. now rewrite <- IH.
Qed.

Lemma opt_char_app p l : l = fst (opt_char p l) ++ snd (opt_char p l).
Proof. unfold opt_char. destruct l as [|c r]; [reflexivity|]. destruct (p c); reflexivity. Qed.

Lemma scan_value_app rational l : l = fst (fst (scan_value rational l)) ++ snd (fst (scan_value rational l)).
Proof.
  unfold scan_value.
  pose proof (opt_char_app is_sign l) as E0. destruct (opt_char is_sign l) as [sg l1]. cbn [fst snd] in E0.
  pose proof (span_digits_app l1) as E1. destruct (span_digits l1) as [d1 l2]. cbn [fst snd] in E1.
  assert (exists frac l3, (match l2 with
                           | 46 :: r => let (d2, r') := span_digits r in (46 :: d2, r')
                           | _ => ([], l2)
                           end) = (frac, l3) /\ l2 = frac ++ l3) as (frac & l3 & -> & E2).
  { destruct l2 as [|c r]; [exists [], []; auto|].
    destruct (Z.eq_dec c 46) as [->|Hn].
    - pose proof (span_digits_app r) as E. destruct (span_digits r) as [d2 r']. cbn [fst snd] in E.
      exists (46 :: d2), r'. split; [reflexivity|]. cbn [app]. now rewrite <- E.
    - exists [], (c :: r). split; [|reflexivity].
      destruct c as [|p|p]; try reflexivity. do 6 (destruct p; try reflexivity). congruence. }
  assert (exists ex l4, (match l3 with
                         | c :: r => if is_e c then
                                       let (sg2, r1) := opt_char is_sign r in
                                       let (d3, r2) := span_digits r1 in (c :: sg2 ++ d3, r2)
                                     else ([], l3)
                         | [] => ([], l3)
                         end) = (ex, l4) /\ l3 = ex ++ l4) as (ex & l4 & -> & E3).
  { destruct l3 as [|c r]; [exists [], []; auto|]. destruct (is_e c).
    - pose proof (opt_char_app is_sign r) as Ea. destruct (opt_char is_sign r) as [sg2 r1]. cbn [fst snd] in Ea.
      pose proof (span_digits_app r1) as Eb. destruct (span_digits r1) as [d3 r2]. cbn [fst snd] in Eb.
      exists (c :: sg2 ++ d3), r2. split; [reflexivity|]. cbn [app]. rewrite <- app_assoc, <- Eb, <- Ea. reflexivity.
    - exists [], (c :: r). auto. }
  assert (exists dv l5, (if rational then
                           match l4 with
                           | 47 :: r => let (d4, r') := span_digits r in (47 :: d4, r')
                           | _ => ([], l4)
                           end
                         else ([], l4)) = (dv, l5) /\ l4 = dv ++ l5) as (dv & l5 & -> & E4).
  { destruct rational; [|exists [], l4; auto].
    destruct l4 as [|c r]; [exists [], []; auto|].
    destruct (Z.eq_dec c 47) as [->|Hn].
    - pose proof (span_digits_app r) as E. destruct (span_digits r) as [d4 r']. cbn [fst snd] in E.
      exists (47 :: d4), r'. split; [reflexivity|]. cbn [app]. now rewrite <- E.
    - exists [], (c :: r). split; [|reflexivity].
      destruct c as [|p|p]; try reflexivity. do 6 (destruct p; try reflexivity). congruence. }
  cbn [fst snd]. rewrite E0, E1, E2, E3, E4. now rewrite <- !app_assoc.
Qed.

Lemma scan_value_len rational l :
  (List.length (fst (fst (scan_value rational l))) <= List.length l)%nat.
Proof. rewrite (scan_value_app rational l) at 2. rewrite app_length. lia. Qed.

Lemma span_name_app l : l = fst (span_name l) ++ snd (span_name l).
Proof.
  induction l as [|c r IH]; cbn [span_name]; [reflexivity|].
  destruct (ends_name c); [reflexivity|]. destruct (span_name r) as [t rest]. cbn [fst snd app] in *. now rewrite <- IH.
Qed.

Lemma sub_len l a b : (List.length (sub l a b) <= List.length l)%nat.
Proof. unfold sub. rewrite firstn_length, skipn_length. lia. Qed.

Lemma lpf_read_value_overflow_iff cap rational l :
  lpf_read_value cap rational l = Overflow <->
  snd (scan_value rational l) = true /\ (cap <= List.length (fst (fst (scan_value rational l))))%nat.
Proof.
  unfold lpf_read_value. destruct (scan_value rational l) as [[tok rest] hd]. cbn [fst snd].
  destruct hd.
  - destruct (copy_loop cap (fresh_array cap) 0 tok) eqn:E.
    + split; [discriminate|]. intros [_ L]. apply (copy_loop_none_iff cap tok (fresh_array cap) 0) in L. congruence.
    + apply copy_loop_none_iff in E. split; [intros _; split; [reflexivity|lia]|reflexivity].
  - split; [discriminate|]. intros [H _]. discriminate.
Qed.

Lemma lpf_read_colname_overflow_iff cap l :
  lpf_read_colname cap l = Overflow <-> (cap <= List.length (fst (span_name l)))%nat.
Proof.
  unfold lpf_read_colname. destruct (span_name l) as [tok rest]. cbn [fst].
  destruct (copy_loop cap (fresh_array cap) 0 tok) eqn:E.
  - split; [discriminate|]. intros L. apply (copy_loop_none_iff cap tok (fresh_array cap) 0) in L. congruence.
  - apply copy_loop_none_iff in E. split; [intros _; lia|reflexivity].
Qed.

(* every line shorter than the array is safe, for all three functions *)
Lemma lpf_short_lines_safe cap rational l : (List.length l < cap)%nat ->
  lpf_read_value cap rational l <> Overflow /\ lpf_read_colname cap l <> Overflow /\ lpf_has_rowname cap l <> Overflow.
Proof.
  intros L. split; [|split].
  - rewrite lpf_read_value_overflow_iff. intros [_ H]. pose proof (scan_value_len rational l). lia.
  - rewrite lpf_read_colname_overflow_iff. intros H.
    pose proof (span_name_app l) as E. apply (f_equal (@List.length Z)) in E. rewrite app_length in E. lia.
  - unfold lpf_has_rowname. destruct (find_colon l 0) as [[|d']|]; try discriminate.
    destruct (scan_down _ l d') as [e|]; [|discriminate].
    match goal with |- context [copy_loop cap ?b 0 ?t] => destruct (copy_loop cap b 0 t) eqn:E end; [discriminate|].
    apply copy_loop_none_iff in E. match type of E with (_ <= 0 + List.length (sub ?l' ?a ?b))%nat => pose proof (sub_len l' a b) end. lia.
Qed.
