(* C08 - FreeColSingletonPS::execute (coq/PostsolveModel.v, exec_FreeColSingleton): column j occurs in row i only and is
   free (or implied free); the reduction removes row i and column j and moves the cost of x_j onto the other columns of
   the row (c_k - (c_j / a_ij) a_ik).  With the row and the column put back, slack = A x and redcost = c - A^T y hold
   for the original LP. *)
From Coq Require Import QArith Qabs List Bool Arith Lia Lqa Setoid.
From SV Require Import Vec LP Cert Cert_Proofs PostsolveModel Postsolve_Proofs RowSingleton_Proofs.
Import ListNotations.
Local Open Scope Q_scope.

(* the LP after the reduction (offset and the side of the removed row do not matter for the identities) *)
Definition red_FreeColSingleton (P : lp) (i j : nat) (q : Q) : lp :=
  {| maximize := maximize P; offset := offset P;
     cols := swap_remove dcol j
               (map (fun k => {| c_obj := c_obj (colj P k) - q * coef P i k; c_lo := c_lo (colj P k); c_up := c_up (colj P k) |})
                    (seq 0 (ncols P)));
     rows := swap_remove drow i
               (map (fun rw => {| r_lhs := r_lhs rw; r_coef := swap_remove 0 j (r_coef rw); r_rhs := r_rhs rw |}) (rows P)) |}.

Lemma scaled_diff_exact inf a b : scaled_diff (exact_cmps inf) a b == a - b.
Proof.
  unfold scaled_diff. cbn [zero_e exact_cmps].
  set (sc := if Qltb' (maxabs a b) 1 then 1 else maxabs a b).
  assert (Hsc : ~ sc == 0).
  { unfold sc. destruct (Qltb' (maxabs a b) 1) eqn:E; [discriminate|].
    unfold Qltb' in E. apply negb_false_iff in E. apply Qle_bool_iff in E. intros Z. rewrite Z in E. lra. }
  destruct (Qeq_bool (a / sc - b / sc) 0) eqn:E.
  - apply Qeq_bool_iff in E. assert (a - b == (a / sc - b / sc) * sc) by (field; exact Hsc). rewrite H, E. ring.
  - field. exact Hsc.
Qed.

(* the four vectors exec_FreeColSingleton writes, for abstract recorded data *)
Lemma exec_FreeColSingleton_fields c j i oj oi obj lRhs onLhs eqCons row t :
  let t' := exec_FreeColSingleton c j i oj oi obj lRhs onLhs eqCons row t in
  sx t' = unswap (sx t) j oj (scaled_diff c lRhs (sdot_skip row j (if Nat.eqb j oj then sx t else qupd (sx t) oj (vnth (sx t) j))) / sget row j) /\
  sy t' = unswap (sy t) i oi (obj / sget row j) /\ ss t' = unswap (ss t) i oi lRhs /\ sr t' = unswap (sr t) j oj 0.
Proof.
  destruct t as [x y s r cs rs].
  unfold exec_FreeColSingleton, fix_row_idx, fix_col_idx, unswap.
  (* call by value: every setter is applied to an explicit record (unfolding the setters first would copy the state
     once per field and per nesting level) *)
  destruct (Nat.eqb i oi), (Nat.eqb j oj);
    cbv beta iota zeta delta [set_x set_y set_s set_r set_cs set_rs gx gy gs gr gcs grs sx sy ss sr scs srs];
    repeat split; reflexivity.
Qed.

Section FreeColSingleton.
  Variable P : lp.
  Variables i j : nat.
  Hypothesis W : wf_lp P.
  Hypothesis Hi : (i < nrows P)%nat.
  Hypothesis Hj : (j < ncols P)%nat.
  Hypothesis Hs : forall l, l <> i -> coef P l j == 0.       (* column singleton *)
  Hypothesis Ha : ~ coef P i j == 0.
  Let m1 := (nrows P - 1)%nat.
  Let n1 := (ncols P - 1)%nat.
  Let q := c_obj (colj P j) / coef P i j.
  Let R := red_FreeColSingleton P i j q.
  Let rmap l := if Nat.eqb l i then m1 else l.
  Let cmap k := if Nat.eqb k j then n1 else k.

  Lemma nrows_R : nrows R = m1.
  Proof. unfold R, nrows, red_FreeColSingleton; cbn [rows]. rewrite swap_remove_length, map_length. reflexivity. Qed.

  Lemma ncols_R : ncols R = n1.
  Proof. unfold R, ncols, red_FreeColSingleton; cbn [cols]. rewrite swap_remove_length, map_length, seq_length. reflexivity. Qed.

  Lemma rowi_R l : (l < m1)%nat -> r_coef (rowi R l) = swap_remove 0 j (r_coef (rowi P (rmap l))).
  Proof.
    intros Hl. unfold R, rowi, red_FreeColSingleton; cbn [rows].
    set (f := fun rw => {| r_lhs := r_lhs rw; r_coef := swap_remove 0 j (r_coef rw); r_rhs := r_rhs rw |}).
    rewrite nth_swap_remove by (rewrite map_length; exact Hl). rewrite map_length. fold (nrows P). fold m1. unfold rmap.
    change drow with (f drow) at 1 2.
    destruct (Nat.eqb l i); rewrite map_nth; reflexivity.
  Qed.

  Lemma coef_R l k : (l < m1)%nat -> (k < n1)%nat -> coef R l k = coef P (rmap l) (cmap k).
  Proof.
    intros Hl Hk. unfold coef at 1. rewrite rowi_R by exact Hl.
    assert (Hr : (rmap l < nrows P)%nat) by (unfold rmap, m1 in *; destruct (Nat.eqb l i); lia).
    rewrite vnth_swap_remove by (rewrite W by exact Hr; exact Hk). rewrite W by exact Hr. fold n1. unfold cmap, coef.
    destruct (Nat.eqb k j); reflexivity.
  Qed.

  Lemma obj_R k : (k < n1)%nat -> c_obj (colj R k) = c_obj (colj P (cmap k)) - q * coef P i (cmap k).
  Proof.
    intros Hk. unfold R, colj at 1, red_FreeColSingleton; cbn [cols].
    rewrite nth_swap_remove by (rewrite map_length, seq_length; exact Hk). rewrite map_length, seq_length. fold n1. unfold cmap.
    destruct (Nat.eqb k j).
    - rewrite nth_map_seq by (unfold n1; lia). reflexivity.
    - rewrite nth_map_seq by (unfold n1 in *; lia). reflexivity.
  Qed.

  (* the reduced identities as sums over the reduced index ranges *)
  Lemma prim_R t l : prim_ident R t -> (l < m1)%nat ->
    gs t l == sumn n1 (fun k => coef P (rmap l) (cmap k) * vnth (sx t) k).
  Proof.
    intros H Hl. assert (Hl' : (l < nrows R)%nat) by (rewrite nrows_R; exact Hl).
    rewrite (H l Hl'). unfold activity. rewrite rowi_R by exact Hl.
    assert (Hr : (rmap l < nrows P)%nat) by (unfold rmap, m1 in *; destruct (Nat.eqb l i); lia).
    rewrite dot_sumn, swap_remove_length, W by exact Hr. fold n1.
    apply sumn_ext. intros k Hk. cbv beta.
    rewrite vnth_swap_remove by (rewrite W by exact Hr; exact Hk). rewrite W by exact Hr. fold n1. unfold cmap, coef.
    destruct (Nat.eqb k j); reflexivity.
  Qed.

  Lemma dual_R t k : dual_ident R t -> (k < n1)%nat ->
    gr t k == c_obj (colj P (cmap k)) - q * coef P i (cmap k) - sumn m1 (fun l => vnth (sy t) l * coef P (rmap l) (cmap k)).
  Proof.
    intros H Hk. assert (Hk' : (k < ncols R)%nat) by (rewrite ncols_R; exact Hk).
    rewrite (H k Hk'). rewrite obj_R by exact Hk. rewrite tvec_sumn, nrows_R.
    apply Qplus_comp; [reflexivity|]. apply Qopp_comp. apply sumn_ext. intros l Hl. cbv beta.
    rewrite coef_R by assumption. reflexivity.
  Qed.

  (* the restored point: only these four vectors matter *)
  Definition fcs_x (t : st) (xj : Q) : list Q := unswap (sx t) j n1 xj.
  Definition fcs_val (t : st) : Q := sumn (ncols P) (fun k => if Nat.eqb k j then 0 else coef P i k * vnth (fcs_x t 0) k).

  Lemma fcs_val_red t : fcs_val t == sumn n1 (fun k => coef P i (cmap k) * vnth (sx t) k).
  Proof.
    unfold fcs_val.
    assert (E : ncols P = S n1) by (unfold n1; lia). rewrite E.
    rewrite (sumn_ext (S n1) _ (fun k => coef P i k * (if Nat.eqb k j then 0 else if Nat.eqb k n1 then vnth (sx t) j else vnth (sx t) k))).
    - rewrite (sumn_swap n1 (coef P i) (vnth (sx t)) j 0) by (unfold n1; lia).
      rewrite Qmult_0_r, Qplus_0_r. apply sumn_ext. intros k Hk. cbv beta. unfold cmap. destruct (Nat.eqb k j); reflexivity.
    - intros k Hk. cbv beta. unfold fcs_x. rewrite vnth_unswap. destruct (Nat.eqb k j); ring.
  Qed.

  Lemma FreeColSingleton_fields t x' y' s' r' lRhs :
    prim_ident R t -> dual_ident R t ->
    (forall k, vnth x' k == vnth (fcs_x t ((lRhs - fcs_val t) / coef P i j)) k) ->
    (forall l, vnth y' l == vnth (unswap (sy t) i m1 q) l) ->
    (forall l, vnth s' l == vnth (unswap (ss t) i m1 lRhs) l) ->
    (forall k, vnth r' k == vnth (unswap (sr t) j n1 0) k) ->
    forall cs rs, prim_ident P (mkst x' y' s' r' cs rs) /\ dual_ident P (mkst x' y' s' r' cs rs).
  Proof.
    intros H1 H2 Ex Ey Es Er cs rs.
    set (xj := (lRhs - fcs_val t) / coef P i j).
    assert (En : ncols P = S n1) by (unfold n1; lia).
    assert (Em : nrows P = S m1) by (unfold m1; lia).
    split.
    - intros l Hl. unfold gs; cbn [ss sx]. rewrite Es, vnth_unswap.
      rewrite activity_sumn by assumption. rewrite En.
      rewrite (sumn_ext (S n1) _ (fun k => coef P l k * (if Nat.eqb k j then xj else if Nat.eqb k n1 then vnth (sx t) j else vnth (sx t) k))).
      2:{ intros k Hk. cbv beta. rewrite Ex. unfold fcs_x. rewrite vnth_unswap. reflexivity. }
      rewrite (sumn_swap n1 (coef P l) (vnth (sx t)) j xj) by (unfold n1; lia).
      destruct (Nat.eqb_spec l i) as [->|Hli].
      + (* the restored row: its activity is lRhs by the choice of x_j *)
        pose proof (fcs_val_red t) as V. unfold cmap in V.
        assert (V' : sumn n1 (fun k => (if Nat.eqb k j then coef P i n1 else coef P i k) * vnth (sx t) k) == fcs_val t).
        { rewrite V. apply sumn_ext. intros k Hk. cbv beta. destruct (Nat.eqb k j); reflexivity. }
        rewrite V'. unfold xj. field. exact Ha.
      + (* another row: the column is a singleton, x_j does not enter *)
        rewrite (Hs l Hli), Qmult_0_l, Qplus_0_r.
        set (l' := if Nat.eqb l m1 then i else l).
        assert (Hl' : (l' < m1)%nat) by (unfold l', m1 in *; destruct (Nat.eqb_spec l (nrows P - 1)); lia).
        assert (Hrm : rmap l' = l).
        { unfold rmap, l'. destruct (Nat.eqb_spec l m1) as [->|Hlm].
          - rewrite Nat.eqb_refl. reflexivity.
          - destruct (Nat.eqb_spec l i); [lia|]. reflexivity. }
        transitivity (gs t l').
        { unfold gs, l'. destruct (Nat.eqb l m1); reflexivity. }
        rewrite (prim_R t l' H1 Hl'), Hrm. apply sumn_ext. intros k Hk. cbv beta. unfold cmap. destruct (Nat.eqb k j); reflexivity.
    - intros k Hk. unfold gr; cbn [sr sy]. rewrite Er, vnth_unswap.
      rewrite tvec_sumn. rewrite Em.
      rewrite (sumn_ext (S m1) _ (fun l => coef P l k * (if Nat.eqb l i then q else if Nat.eqb l m1 then vnth (sy t) i else vnth (sy t) l))).
      2:{ intros l Hl. cbv beta. rewrite Ey, vnth_unswap. ring. }
      rewrite (sumn_swap m1 (fun l => coef P l k) (vnth (sy t)) i q) by (unfold m1; lia).
      destruct (Nat.eqb_spec k j) as [->|Hkj].
      + (* the restored column: reduced cost 0 *)
        rewrite sumn_zero.
        * unfold q. field. exact Ha.
        * intros l Hl. cbv beta. destruct (Nat.eqb_spec l i) as [->|Hli].
          -- destruct (Nat.eq_dec m1 i) as [E|E]; [rewrite E; rewrite <- E at 1|].
             ++ (* i = m1: the sum runs below m1, so l = i < m1 is impossible *) unfold m1 in *. lia.
             ++ rewrite (Hs m1 E). ring.
          -- rewrite (Hs l Hli). ring.
      + set (k' := if Nat.eqb k n1 then j else k).
        assert (Hk' : (k' < n1)%nat) by (unfold k', n1 in *; destruct (Nat.eqb_spec k (ncols P - 1)); lia).
        assert (Hcm : cmap k' = k).
        { unfold cmap, k'. destruct (Nat.eqb_spec k n1) as [->|Hkn].
          - rewrite Nat.eqb_refl. reflexivity.
          - destruct (Nat.eqb_spec k j); [lia|]. reflexivity. }
        transitivity (gr t k').
        { unfold gr, k'. destruct (Nat.eqb k n1); reflexivity. }
        rewrite (dual_R t k' H2 Hk'), Hcm.
        assert (S1 : sumn m1 (fun l => vnth (sy t) l * coef P (rmap l) k) == sumn m1 (fun l => (if Nat.eqb l i then coef P m1 k else coef P l k) * vnth (sy t) l)).
        { apply sumn_ext. intros l Hl. cbv beta. unfold rmap. destruct (Nat.eqb l i); ring. }
        rewrite S1. ring.
  Qed.

  (* the state exec_FreeColSingleton computes has these vectors (exact comparisons) *)
  Lemma sget_row_a : sget (sp_row P i) j == coef P i j.
  Proof. unfold sp_row, sp_of. apply (sget_sp_of (fun k0 => coef P i k0) (ncols P) 0%nat j). lia. Qed.

  Lemma skip_val t : sdot_skip (sp_row P i) j (if Nat.eqb j n1 then sx t else qupd (sx t) n1 (vnth (sx t) j)) == fcs_val t.
  Proof.
    unfold sp_row. rewrite sdot_skip_sp_of. unfold fcs_val. apply sumn_ext. intros k0 Hk0. cbv beta.
    destruct (Nat.eqb_spec k0 j) as [E|E]; [reflexivity|]. unfold fcs_x. rewrite vnth_unswap.
    destruct (Nat.eqb_spec k0 j); [contradiction|].
    destruct (Nat.eqb_spec j n1) as [Ej|Ej].
    - destruct (Nat.eqb_spec k0 n1); [congruence|reflexivity].
    - destruct (Nat.eqb_spec k0 n1) as [->|Ek]; [rewrite vnth_qupd_same; reflexivity|].
      rewrite vnth_qupd_other by congruence. reflexivity.
  Qed.

  Lemma FreeColSingleton_identities inf lRhs onLhs eqCons t :
    prim_ident R t /\ dual_ident R t ->
    let t' := exec_FreeColSingleton (exact_cmps inf) j i n1 m1 (c_obj (colj P j)) lRhs onLhs eqCons (sp_row P i) t in
    prim_ident P t' /\ dual_ident P t'.
  Proof.
    intros [H1 H2] t'.
    destruct (exec_FreeColSingleton_fields (exact_cmps inf) j i n1 m1 (c_obj (colj P j)) lRhs onLhs eqCons (sp_row P i) t)
      as (Fx & Fy & Fs & Fr). fold t' in Fx, Fy, Fs, Fr.
    apply (idents_by_fields P t' (mkst (sx t') (sy t') (ss t') (sr t') [] [])); try reflexivity.
    apply (FreeColSingleton_fields t _ _ _ _ lRhs H1 H2); intros k.
    - rewrite Fx, !vnth_unswap. unfold fcs_x. rewrite !vnth_unswap.
      destruct (Nat.eqb k j); [|reflexivity].
      rewrite scaled_diff_exact, sget_row_a, skip_val. reflexivity.
    - rewrite Fy, !vnth_unswap. destruct (Nat.eqb k i); [|reflexivity].
      unfold q. rewrite sget_row_a. reflexivity.
    - rewrite Fs. reflexivity.
    - rewrite Fr. reflexivity.
  Qed.
End FreeColSingleton.
