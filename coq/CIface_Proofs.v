(* C20 - lemmas about the C interface model (CIfaceModel.v). *)
From Coq Require Import ZArith QArith Qreduction List Bool String Lia Sorted.
From SV Require Import CIfaceModel.
Import ListNotations.
Local Open Scope nat_scope.

(* ------------------------------------------------------------------------------------------------------------- *)
(* dense -> sparse                                                                                                *)
(* ------------------------------------------------------------------------------------------------------------- *)
Section DenseProofs.
  Variable A : Type.
  Variable isz : A -> bool.
  Let keep := fun p : nat * A => negb (isz (snd p)).

  Lemma d2s_loop_spec : forall fuel arr i acc,
      d2s_loop isz arr i fuel acc = acc ++ filter keep (combine (seq i fuel) arr).
  Proof.
    induction fuel as [|f IH]; intros arr i acc.
    - cbn. now rewrite app_nil_r.
    - destruct arr as [|x tl].
      + cbn. now rewrite app_nil_r.
      + cbn [d2s_loop seq combine filter]. rewrite IH. unfold keep at 2. cbn [snd].
        destruct (isz x); cbn [negb].
        * reflexivity.
        * now rewrite <- app_assoc.
  Qed.

  Lemma dense_to_sparse_gen_eq : forall arr size, dense_to_sparse_gen isz arr size = sparse_of_dense isz arr size.
  Proof. intros. unfold dense_to_sparse_gen, sparse_of_dense. now rewrite d2s_loop_spec. Qed.

  Lemma in_combine_seq : forall n a (l : list A) i v,
      In (i, v) (combine (seq a n) l) <-> (a <= i < a + n /\ nth_error l (i - a) = Some v).
  Proof.
    induction n as [|n IH]; intros a l i v.
    - cbn. split; [tauto | lia].
    - destruct l as [|x tl].
      + cbn. split; [tauto|]. intros [_ H]. destruct (i - a); discriminate.
      + cbn [seq combine In]. rewrite IH. split.
        * intros [H | [H1 H2]].
          -- inversion H; subst. split; [lia|]. now rewrite Nat.sub_diag.
          -- split; [lia|]. replace (i - a) with (S (i - S a)) by lia. exact H2.
        * intros [H1 H2]. destruct (Nat.eq_dec i a) as [->|Hne].
          -- left. rewrite Nat.sub_diag in H2. cbn in H2. now inversion H2.
          -- right. split; [lia|]. replace (i - a) with (S (i - S a)) in H2 by lia. exact H2.
  Qed.

  Lemma in_sparse_of_dense : forall arr size i v,
      In (i, v) (sparse_of_dense isz arr size) <-> (i < size /\ nth_error arr i = Some v /\ isz v = false).
  Proof.
    intros. unfold sparse_of_dense. rewrite filter_In, in_combine_seq. cbn [snd]. rewrite Nat.sub_0_r, negb_true_iff.
    split; [intros [[H1 H2] H3] | intros [H1 [H2 H3]]]; repeat split; auto; lia.
  Qed.

  Lemma sorted_filter_combine_seq : forall n a (l : list A) (f : nat * A -> bool),
      StronglySorted lt (map fst (filter f (combine (seq a n) l))).
  Proof.
    induction n as [|n IH]; intros a l f.
    - cbn. constructor.
    - destruct l as [|x tl]; [cbn; constructor|].
      cbn [seq combine filter]. destruct (f (a, x)).
      + cbn [map fst]. constructor; [apply IH|].
        apply Forall_forall. intros j Hj. apply in_map_iff in Hj. destruct Hj as [[j' v] [Hj1 Hj2]]. cbn in Hj1. subst j'.
        apply filter_In in Hj2. destruct Hj2 as [Hj2 _]. apply in_combine_seq in Hj2. lia.
      + apply IH.
  Qed.

  Lemma sparse_of_dense_sorted : forall arr size, StronglySorted lt (map fst (sparse_of_dense isz arr size)).
  Proof. intros. apply sorted_filter_combine_seq. Qed.

  Lemma find_sorted_in : forall (v : svec A) i x,
      StronglySorted lt (map fst v) -> In (i, x) v -> find (fun p => Nat.eqb (fst p) i) v = Some (i, x).
  Proof.
    induction v as [|[j y] tl IH]; intros i x Hs Hin; [destruct Hin|].
    cbn [map fst] in Hs. inversion Hs as [|? ? Hs' Hall]; subst.
    cbn [find fst]. destruct Hin as [Heq | Hin].
    - inversion Heq; subst. now rewrite Nat.eqb_refl.
    - assert (j < i) as Hlt.
      { rewrite Forall_forall in Hall. apply Hall. apply in_map_iff. exists (i, x). auto. }
      destruct (Nat.eqb_spec j i); [lia|]. now apply IH.
  Qed.

  Lemma find_none_notin : forall (v : svec A) i,
      (forall x, ~ In (i, x) v) -> find (fun p => Nat.eqb (fst p) i) v = None.
  Proof.
    induction v as [|[j y] tl IH]; intros i H; [reflexivity|].
    cbn [find fst]. destruct (Nat.eqb_spec j i) as [->|Hne].
    - exfalso. apply (H y). now left.
    - apply IH. intros x Hx. apply (H x). now right.
  Qed.
End DenseProofs.

Lemma Qis0_true : forall q, Qis0 q = true <-> q == 0.
Proof. intros [n d]. unfold Qis0, Qeq. cbn. rewrite Z.eqb_eq. lia. Qed.

Lemma Qis0_false : forall q, Qis0 q = false <-> ~ q == 0.
Proof. intros q. rewrite <- Qis0_true. destruct (Qis0 q); split; intros; try discriminate; auto. now exfalso. Qed.

Lemma dense_to_sparse_eq : forall arr size, dense_to_sparse arr size = sparse_of_dense Qis0 arr size.
Proof. intros. apply dense_to_sparse_gen_eq. Qed.

(* the five clauses of the specification *)
Lemma dense_to_sparse_entries : forall arr size i v,
    In (i, v) (dense_to_sparse arr size) <-> (i < size /\ nth_error arr i = Some v /\ ~ v == 0).
Proof. intros. rewrite dense_to_sparse_eq, in_sparse_of_dense, Qis0_false. tauto. Qed.

Lemma dense_to_sparse_expand : forall arr size i,
    i < size -> i < List.length arr -> sv_get 0%Q (dense_to_sparse arr size) i == nth i arr 0%Q.
Proof.
  intros arr size i Hs Hl. unfold sv_get.
  destruct (nth_error arr i) as [x|] eqn:Hn; [|apply nth_error_None in Hn; lia].
  rewrite (nth_error_nth _ _ _ Hn).
  destruct (Qis0 x) eqn:Hz.
  - rewrite find_none_notin.
    + symmetry. now apply Qis0_true.
    + intros y Hy. apply dense_to_sparse_entries in Hy. destruct Hy as [_ [Hy1 Hy2]].
      rewrite Hn in Hy1. inversion Hy1; subst. apply Hy2. now apply Qis0_true.
  - rewrite (find_sorted_in _ _ i x).
    + reflexivity.
    + rewrite dense_to_sparse_eq. apply sparse_of_dense_sorted.
    + apply dense_to_sparse_entries. repeat split; auto. now apply Qis0_false.
Qed.

Lemma dense_to_sparse_beyond : forall arr size i,
    (size <= i \/ List.length arr <= i) -> sv_get 0%Q (dense_to_sparse arr size) i = 0%Q.
Proof.
  intros arr size i H. unfold sv_get. rewrite find_none_notin; [reflexivity|].
  intros y Hy. apply dense_to_sparse_entries in Hy. destruct Hy as [H1 [H2 _]].
  destruct H as [H|H]; [lia|]. apply nth_error_None in H. rewrite H in H2. discriminate.
Qed.

Lemma dense_to_sparse_nonzero : forall arr size, Forall (fun p => ~ snd p == 0) (dense_to_sparse arr size).
Proof.
  intros. apply Forall_forall. intros [i v] H. apply dense_to_sparse_entries in H. cbn. tauto.
Qed.

Lemma dense_to_sparse_sorted : forall arr size, StronglySorted lt (map fst (dense_to_sparse arr size)).
Proof. intros. rewrite dense_to_sparse_eq. apply sparse_of_dense_sorted. Qed.

(* ------------------------------------------------------------------------------------------------------------- *)
(* (long, long) -> Rational                                                                                       *)
(* ------------------------------------------------------------------------------------------------------------- *)
Definition raw_pair (num den : Z) : Q :=
  if Z.ltb den 0 then Qmake (- num) (Z.to_pos (- den)) else Qmake num (Z.to_pos den).

Lemma raw_pair_div : forall num den, den <> 0%Z -> raw_pair num den == inject_Z num / inject_Z den.
Proof.
  intros num den Hd. unfold raw_pair. destruct den as [|p|p]; [congruence| |].
  - cbn. unfold Qdiv, Qinv, Qmult, Qeq, inject_Z. cbn. lia.
  - cbn. unfold Qdiv, Qinv, Qmult, Qeq, inject_Z. cbn. lia.
Qed.

Lemma pair_to_Q_eq_rat_of_pair : forall num den, pair_to_Q num den = rat_of_pair num den.
Proof.
  intros. unfold pair_to_Q, rat_of_pair. destruct (Z.eqb_spec den 0); [reflexivity|].
  f_equal. apply Qred_complete. now apply raw_pair_div.
Qed.

Lemma Qred_num_sign : forall q, Z.sgn (Qnum (Qred q)) = Z.sgn (Qnum q).
Proof.
  intros q. pose proof (Qred_correct q) as H. unfold Qeq in H.
  destruct (Qred q) as [n d], q as [n' d']. cbn in *. nia.
Qed.

Lemma Qred_int : forall n, Qred (n # 1) = n # 1.
Proof.
  intros n. unfold Qred.
  pose proof (Z.ggcd_gcd n 1) as Hg. pose proof (Z.ggcd_correct_divisors n 1) as Hd.
  destruct (Z.ggcd n 1) as [g [aa bb]]. cbn in *. rewrite Z.gcd_1_r in Hg. subst g. destruct Hd as [H1 H2].
  rewrite Z.mul_1_l in *. subst. reflexivity.
Qed.

Lemma pair_to_Q_spec_lemma : forall num den, den <> 0%Z ->
    exists q, pair_to_Q num den = Some q
              /\ q == inject_Z num / inject_Z den
              /\ Qred q = q
              /\ Z.sgn (Qnum q) = (Z.sgn num * Z.sgn den)%Z
              /\ (den = 1%Z -> q = inject_Z num).
Proof.
  intros num den Hd. exists (Qred (raw_pair num den)). unfold pair_to_Q.
  destruct (Z.eqb_spec den 0); [congruence|]. fold (raw_pair num den). split; [reflexivity|]. split; [|split; [|split]].
  - rewrite Qred_correct. now apply raw_pair_div.
  - apply Qred_complete. apply Qred_correct.
  - rewrite Qred_num_sign. unfold raw_pair. destruct den as [|p|p]; [congruence| |]; cbn; lia.
  - intros ->. unfold raw_pair. cbn. unfold inject_Z. apply Qred_int.
Qed.

Lemma to_long_id : forall z, (LONG_MIN <= z <= LONG_MAX)%Z -> to_long z = z.
Proof.
  intros z [H1 H2]. unfold to_long. destruct (Z.ltb_spec LONG_MAX z); [lia|]. destruct (Z.ltb_spec z LONG_MIN); [lia|reflexivity].
Qed.

(* the rational getters hand back the exact value when numerator and denominator fit in a long *)
Lemma Q_to_pair_roundtrip : forall q, Qred q = q ->
    (LONG_MIN <= Qnum q <= LONG_MAX)%Z -> (Zpos (Qden q) <= LONG_MAX)%Z ->
    pair_to_Q (fst (Q_to_pair q)) (snd (Q_to_pair q)) = Some q.
Proof.
  intros q Hr Hn Hd. unfold Q_to_pair. cbn [fst snd]. rewrite (to_long_id (Qnum q)) by exact Hn.
  rewrite (to_long_id (Zpos (Qden q))) by (unfold LONG_MIN; lia).
  destruct q as [n d]. unfold pair_to_Q. cbn [Qnum Qden Z.eqb Z.ltb Z.compare Z.to_pos]. now rewrite Hr.
Qed.

(* ------------------------------------------------------------------------------------------------------------- *)
(* rational dense -> sparse, dense rational vectors                                                               *)
(* ------------------------------------------------------------------------------------------------------------- *)
Definition rat_entry (p : nat * (Z * Z)) : option (nat * Q) :=
  match rat_of_pair (fst (snd p)) (snd (snd p)) with Some q => Some (fst p, q) | None => None end.
Definition rat_keep (p : nat * (Z * Z)) : bool := negb (Zis0 (fst (snd p))).

Lemma d2s_rat_loop_spec : forall fuel nums dens i acc,
    d2s_rat_loop nums dens i fuel acc =
    match opt_all (map rat_entry (filter rat_keep (combine (seq i fuel) (combine nums dens)))) with
    | Some l => Some (acc ++ l) | None => None end.
Proof.
  induction fuel as [|f IH]; intros nums dens i acc.
  - cbn. now rewrite app_nil_r.
  - destruct nums as [|n nt]; [cbn; now rewrite app_nil_r|].
    destruct dens as [|d dt]; [cbn; now rewrite app_nil_r|].
    cbn [d2s_rat_loop seq combine filter]. unfold rat_keep at 1. cbn [fst snd].
    destruct (Zis0 n); cbn [negb].
    + apply IH.
    + cbn [map opt_all]. unfold rat_entry at 1. cbn [fst snd]. rewrite pair_to_Q_eq_rat_of_pair.
      destruct (rat_of_pair n d) as [q|]; [|reflexivity].
      rewrite IH. destruct (opt_all _) as [l|]; [|reflexivity]. now rewrite <- app_assoc.
Qed.

Lemma dense_to_sparse_rat_eq : forall nums dens size,
    dense_to_sparse_rat nums dens size = sparse_of_dense_rat nums dens size.
Proof.
  intros. unfold dense_to_sparse_rat, sparse_of_dense_rat. rewrite d2s_rat_loop_spec.
  fold rat_keep. change (fun p : nat * (Z * Z) => match rat_of_pair (fst (snd p)) (snd (snd p)) with
                                                   | Some q => Some (fst p, q) | None => None end) with rat_entry.
  destruct (opt_all _); reflexivity.
Qed.

Lemma dense_rat_eq : forall nums dens dim, dense_rat nums dens dim = dense_rat_spec nums dens dim.
Proof.
  intros. unfold dense_rat, dense_rat_spec. f_equal. apply map_ext. intros. apply pair_to_Q_eq_rat_of_pair.
Qed.

(* definedness under valid arguments *)
Lemma pair_to_Q_some : forall n d, Zis0 d = false -> exists q, pair_to_Q n d = Some q.
Proof. intros n d H. unfold pair_to_Q, Zis0 in *. rewrite H. eauto. Qed.

Lemma d2s_rat_loop_some : forall fuel nums dens i acc,
    forallb (fun p => Zis0 (fst p) || negb (Zis0 (snd p))) (firstn fuel (combine nums dens)) = true ->
    exists v, d2s_rat_loop nums dens i fuel acc = Some v.
Proof.
  induction fuel as [|f IH]; intros nums dens i acc H; [cbn; eauto|].
  destruct nums as [|n nt]; [cbn; eauto|]. destruct dens as [|d dt]; [cbn; eauto|].
  cbn [combine firstn forallb fst snd] in H. apply andb_true_iff in H. destruct H as [H1 H2].
  cbn [d2s_rat_loop]. destruct (Zis0 n) eqn:Hn.
  - now apply IH.
  - cbn in H1. apply negb_true_iff in H1. destruct (pair_to_Q_some n d H1) as [q Hq]. rewrite Hq. now apply IH.
Qed.

Lemma opt_all_some : forall (A : Type) (l : list (option A)), (forall x, In x l -> x <> None) -> exists r, opt_all l = Some r.
Proof.
  induction l as [|[x|] tl IH]; intros H.
  - cbn. eauto.
  - cbn. destruct IH as [r Hr]; [intros y Hy; apply H; now right|]. rewrite Hr. eauto.
  - exfalso. apply (H None); [now left | reflexivity].
Qed.

Lemma dense_rat_some : forall nums dens dim,
    dim <= List.length nums -> dens_ok_dense dens dim = true -> exists v, dense_rat nums dens dim = Some v.
Proof.
  intros nums dens dim Hl H. unfold dense_rat. apply opt_all_some. intros x Hx. apply in_map_iff in Hx.
  destruct Hx as [[n d] [Hx1 Hx2]]. cbn in Hx1. subst x.
  assert (In d (firstn dim dens)) as Hd.
  { clear - Hx2. revert nums dens Hx2. induction dim as [|k IH]; intros nums dens H; [destruct H|].
    destruct nums as [|a nt]; [destruct H|]. destruct dens as [|b dt]; [destruct H|].
    cbn in H. destruct H as [H|H]; [inversion H; now left | right; eapply IH; eauto]. }
  unfold dens_ok_dense in H. rewrite forallb_forall in H. apply H in Hd. apply negb_true_iff in Hd.
  destruct (pair_to_Q_some n d Hd) as [q Hq]. rewrite Hq. discriminate.
Qed.

(* ------------------------------------------------------------------------------------------------------------- *)
(* the wrapper layer refines the mirrored C++ session                                                             *)
(* ------------------------------------------------------------------------------------------------------------- *)
Section Refinement.
  Variable RC : rational_codes.

  Lemma wrapper_calls_eq_intended : forall c, wrapper_calls RC c = intended_calls RC c.
  Proof.
    intros c. unfold wrapper_calls, intended_calls.
    destruct c; cbn [calls code_convs spec_convs cv_sp cv_sprat cv_drat cv_pair];
      rewrite ?dense_to_sparse_eq, ?dense_to_sparse_rat_eq, ?dense_rat_eq, ?pair_to_Q_eq_rat_of_pair; reflexivity.
  Qed.

  Variable St : Type.
  Variable xstep : St -> cpp_op -> St * cpp_out.

  Lemma c_run_refines : forall cs s,
      c_run RC St xstep s cs =
      match mirror_run RC St xstep s cs with
      | Some (s', rss) => Some (s', results cs rss)
      | None => None
      end.
  Proof.
    induction cs as [|c tl IH]; intros s; [reflexivity|].
    cbn [c_run mirror_run]. unfold c_step. rewrite wrapper_calls_eq_intended.
    destruct (intended_calls RC c) as [ops|]; [|reflexivity].
    destruct (x_run St xstep s ops) as [s1 rs]. rewrite IH.
    destruct (mirror_run RC St xstep s1 tl) as [[s2 rss]|]; reflexivity.
  Qed.

  Lemma valid_call_defined : forall c, valid_call c = true -> exists ops, wrapper_calls RC c = Some ops.
  Proof.
    intros c H. unfold wrapper_calls.
    destruct c; cbn [calls code_convs cv_sp cv_sprat cv_drat cv_pair]; try (eexists; reflexivity);
      cbn [valid_call] in H; repeat (apply andb_true_iff in H; destruct H as [H ?]);
        repeat match goal with Hx : negb (Zis0 _) = true |- _ => apply negb_true_iff in Hx end.
    - (* addColRational *)
      destruct (pair_to_Q_some lbn lbd) as [q1 ->]; [assumption|].
      destruct (pair_to_Q_some ubn ubd) as [q2 ->]; [assumption|].
      destruct (pair_to_Q_some objn objd) as [q3 ->]; [assumption|].
      unfold dense_to_sparse_rat. destruct (d2s_rat_loop_some size nums dens 0 []) as [v ->]; [assumption|]. eauto.
    - (* addRowRational *)
      destruct (pair_to_Q_some lbn lbd) as [q1 ->]; [assumption|].
      destruct (pair_to_Q_some ubn ubd) as [q2 ->]; [assumption|].
      unfold dense_to_sparse_rat. destruct (d2s_rat_loop_some size nums dens 0 []) as [v ->]; [assumption|]. eauto.
    - destruct (dense_rat_some nums dens dim) as [v ->]; [now apply Nat.leb_le | assumption | cbn; eauto].
    - destruct (dense_rat_some nums dens dim) as [v ->]; [now apply Nat.leb_le | assumption | cbn; eauto].
    - destruct (dense_rat_some nums dens dim) as [v ->]; [now apply Nat.leb_le | assumption | cbn; eauto].
    - destruct (pair_to_Q_some lbn lbd) as [q1 ->]; [assumption|].
      destruct (pair_to_Q_some ubn ubd) as [q2 ->]; [assumption|]. cbn. eauto.
  Qed.

  Lemma valid_run_defined : forall cs s, forallb valid_call cs = true -> exists r, c_run RC St xstep s cs = Some r.
  Proof.
    induction cs as [|c tl IH]; intros s H; [cbn; eauto|].
    cbn [forallb] in H. apply andb_true_iff in H. destruct H as [H1 H2].
    cbn [c_run]. unfold c_step. destruct (valid_call_defined c H1) as [ops ->].
    destruct (x_run St xstep s ops) as [s1 rs]. destruct (IH s1 H2) as [[s2 os] ->]. eauto.
  Qed.
End Refinement.

(* getters through a temporary: when the C++ vector has the caller's dimension the caller receives it unchanged *)
Lemma vec_getter_faithful : forall dim ok v, List.length v = dim ->
    wrapper_result (CGetLowerReal dim) [RVec ok v] = KArr v
    /\ wrapper_result (CGetUpperReal dim) [RVec ok v] = KArr v
    /\ wrapper_result (CGetObjReal dim) [RVec ok v] = KArr v
    /\ wrapper_result (CGetPrimalRationalString dim) [RVec ok v] = KStr v.
Proof. intros dim ok v H. cbn. subst dim. now rewrite firstn_all. Qed.

(* ------------------------------------------------------------------------------------------------------------- *)
(* footprints                                                                                                     *)
(* ------------------------------------------------------------------------------------------------------------- *)
Lemma upto_within : forall m n, forallb (fun i => i <? n) (upto m) = (m <=? n).
Proof.
  intros m n. unfold upto. destruct (Nat.leb_spec m n) as [H|H].
  - apply forallb_forall. intros i Hi. apply in_seq in Hi. apply Nat.ltb_lt. lia.
  - apply not_true_is_false. intros Hf. rewrite forallb_forall in Hf.
    assert (In n (seq 0 m)) as Hi by (apply in_seq; lia). apply Hf in Hi. apply Nat.ltb_lt in Hi. lia.
Qed.

Lemma nz_positions_within : forall nums size, forallb (fun i => i <? size) (nz_positions nums size) = true.
Proof.
  intros. apply forallb_forall. intros i Hi. unfold nz_positions in Hi. apply in_map_iff in Hi.
  destruct Hi as [[j v] [H1 H2]]. cbn in H1. subst j. rewrite dense_to_sparse_gen_eq in H2.
  apply in_sparse_of_dense in H2. apply Nat.ltb_lt. tauto.
Qed.

Lemma footprint_within : forall c d, dims_ok c d = true -> footprint_ok c d = true.
Proof.
  intros c d H. unfold footprint_ok.
  destruct c; cbn [footprint forallb]; try reflexivity; cbn [dims_ok] in H;
    repeat match goal with
           | |- context [if ?b then _ else _] => let E := fresh "E" in destruct b eqn:E
           end;
    cbn [forallb app access_ok a_buf a_idx rd wr buf_len tmp_dim_vecgetter tmp_dim_primalstring];
    unfold tmp_dim_vecgetter, tmp_dim_primalstring;
    rewrite ?upto_within, ?nz_positions_within, ?Nat.leb_refl; cbn [andb forallb Nat.ltb Nat.leb];
    try reflexivity;
    repeat match goal with
           | Hx : _ && _ = true |- _ => apply andb_true_iff in Hx; destruct Hx
           | Hx : _ && _ = false |- _ => apply andb_false_iff in Hx
           | Hx : negb _ = true |- _ => apply negb_true_iff in Hx
           end;
    repeat match goal with
           | Hx : ?b = true |- context [if ?b then _ else _] => rewrite Hx
           | Hx : ?b = false |- context [if ?b then _ else _] => rewrite Hx
           | Hx : ?b = true |- context [?b] => rewrite Hx
           end;
    cbn [andb]; rewrite ?upto_within, ?Nat.leb_refl; cbn [andb]; try reflexivity; try assumption.
  - (* getPrimalRationalString: the temporary keeps dimension dim unless the getter assigns the solution *)
    destruct (d_hasrat d && d_hassol d) eqn:E1; destruct (d_ratcols d <=? dim) eqn:E2; cbn [andb];
      rewrite ?Nat.leb_refl; try reflexivity.
    destruct H as [H|H]; [discriminate|]. apply Nat.ltb_ge in H. apply Nat.leb_le in H. now rewrite H.
  - (* getRowVectorRational: only an empty row is copied without a write through the null element pointer *)
    apply Nat.eqb_eq in H. rewrite H. reflexivity.
Qed.
