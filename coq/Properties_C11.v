(* C11 - The rational LU factorization is exact.
   Property theorems only; each is closed by [exact] of a lemma proved in LU_Proofs.v (shared with C10).

   Certifying-oracle reading: the exact Gaussian elimination of CLUFactorRational is a witness producer and is NOT
   modelled.  Every rational solve and every verdict of the implementation is passed on every run through the
   extracted checkers below with exact (==) comparison (checks/C11.py); the theorems say what acceptance means
   for matrices of every dimension. *)
From Coq Require Import List QArith Qabs Bool Arith ZArith.
From SV Require Import LUModel LU_Proofs.
Import ListNotations.
Local Open Scope Q_scope.

(* the checkers accept exactly the coefficient-wise exact solutions *)
Theorem C11_check_solve_right_exact :
  forall n B x b, check_solve_right n B x b = true <->
  (wf_mat n B = true /\ length x = n /\ length b = n /\
   forall i, (i < n)%nat -> nth i (mat_vec n B x) 0 == nth i b 0).
Proof. exact check_solve_right_sound_lemma. Qed.
Print Assumptions C11_check_solve_right_exact.

Theorem C11_check_solve_left_exact :
  forall n B x b, check_solve_left n B x b = true <->
  (wf_mat n B = true /\ length x = n /\ length b = n /\
   forall j, (j < n)%nat -> dot x (nth j B []) == nth j b 0).
Proof. exact check_solve_left_sound_lemma. Qed.
Print Assumptions C11_check_solve_left_exact.

(* for a certified nonsingular matrix an accepted answer is THE solution: it equals Binv b (resp. b^T Binv) *)
Theorem C11_accepted_solution_is_the_solution :
  forall n B Binv, regular_cert n B Binv = true ->
  (forall x y b, check_solve_right n B x b = true -> check_solve_right n B y b = true -> Forall2 Qeq x y) /\
  (forall b, length b = n -> check_solve_right n B (mat_vec n Binv b) b = true) /\
  (forall x y b, check_solve_left n B x b = true -> check_solve_left n B y b = true -> Forall2 Qeq x y) /\
  (forall b, length b = n -> check_solve_left n B (vec_mat b Binv) b = true).
Proof. exact regular_cert_unique_solution_lemma. Qed.
Print Assumptions C11_accepted_solution_is_the_solution.

(* "singular exactly when the determinant is zero", certificate form.  Proved: the two certificates exclude each
   other, so a SINGULAR verdict backed by a kernel vector and an OK verdict backed by an inverse are never both
   possible.  NOT proved in Coq (hence _partial): that every square matrix has one of the two certificates; on
   every run the untrusted exact reference elimination produces one of them for each generated matrix and the
   extracted checker validates it, so the verdict of the implementation is decided case by case. *)
Theorem C11_singular_verdict_exclusive_partial :
  forall n B v, singular_cert n B v = true -> forall Binv, regular_cert n B Binv = false.
Proof. exact singular_cert_no_inverse_lemma. Qed.
Print Assumptions C11_singular_verdict_exclusive_partial.

(* basis-inverse column / row queries: accepted answers are the column / row of the certified inverse *)
Theorem C11_inverse_col_exact :
  forall n B Binv c v, regular_cert n B Binv = true ->
  check_inverse_col n B c v = true -> Forall2 Qeq v (nth c Binv (vzero n)).
Proof. exact inverse_col_exact_lemma. Qed.
Print Assumptions C11_inverse_col_exact.

Theorem C11_inverse_row_exact :
  forall n B Binv r v, regular_cert n B Binv = true ->
  check_inverse_row n B r v = true ->
  length v = n /\ forall j, (j < n)%nat -> nth j v 0 == nth r (nth j Binv []) 0.
Proof. exact inverse_row_exact_lemma. Qed.
Print Assumptions C11_inverse_row_exact.

(* the basis matrix assembled from the rational LP: position i holds LP column bind_i, or the unit vector of row
   -1-bind_i for a slack *)
Theorem C11_basis_matrix_spec :
  forall m cols bind M, basis_matrix m cols bind = Some M ->
  length M = length bind /\
  forall i b, nth_error bind i = Some b -> exists c, basis_col m cols b = Some c /\ nth_error M i = Some c.
Proof. exact basis_matrix_spec_lemma. Qed.
Print Assumptions C11_basis_matrix_spec.

Theorem C11_basis_col_meaning :
  forall m cols, (forall j, basis_col m cols (Z.of_nat j) = nth_error cols j) /\
                 (forall r, (r < m)%nat -> basis_col m cols (- 1 - Z.of_nat r)%Z = Some (unit_vec m r)).
Proof. exact basis_col_meaning_lemma. Qed.
Print Assumptions C11_basis_col_meaning.

(* the certificate in the form the check uses it (inverse = integer matrix N over a common denominator d) *)
Theorem C11_regular_cert_scaled_sound :
  forall n B N d, regular_cert_scaled n B N d = true -> regular_cert n B (mscale (/ d) N) = true.
Proof. exact regular_cert_scaled_sound_lemma. Qed.
Print Assumptions C11_regular_cert_scaled_sound.

(* Homogeneity: the check clears denominators by scaling the matrix by s and the solution by t (s, t non-zero; the
   right-hand side by s t); the verdicts of the exact checkers do not change. *)
Theorem C11_exact_check_scale_invariant :
  forall n B x b s t, ~ s == 0 -> ~ t == 0 ->
  check_solve_right n (mscale s B) (vscale t x) (vscale (s * t) b) = check_solve_right n B x b /\
  check_solve_left n (mscale s B) (vscale t x) (vscale (s * t) b) = check_solve_left n B x b.
Proof. exact exact_check_scale_invariant_lemma. Qed.
Print Assumptions C11_exact_check_scale_invariant.

(* ---- satisfiable, non-trivial instances ---- *)
Definition exB : mat := [[2#3; 1; 0]; [1; 1; 0]; [0; 3; 1#2]].
Definition exBinv : mat := [[-3; 3; 0]; [3; -2; 0]; [-18; 12; 2]].
Example ex_regular_scaled : regular_cert_scaled 3 exB (mscale 5 exBinv) 5 = true.
Proof. vm_compute. reflexivity. Qed.
Example ex_regular : regular_cert 3 exB exBinv = true.
Proof. vm_compute. reflexivity. Qed.
Example ex_inverse_col : check_inverse_col 3 exB 2 [-18; 12; 2] = true.
Proof. vm_compute. reflexivity. Qed.
Example ex_inverse_row : check_inverse_row 3 exB 1 [3; -2; 12] = true.
Proof. vm_compute. reflexivity. Qed.
(* a matrix that is singular although its rounding to doubles is not: 1/3 and 2/3 are not representable *)
Example ex_singular : singular_cert 2 [[1#3; 2#3]; [1#2; 1]] [3; -2] = true.
Proof. vm_compute. reflexivity. Qed.
Example ex_basis : basis_matrix 2 [[1; 2]; [3; 4]; [5; 6]] [2; -2]%Z = Some [[5; 6]; [0; 1]].
Proof. reflexivity. Qed.
Example ex_scale : check_solve_right 3 exB [1; 2; 4] [8#3; 15; 2] = true /\
                   check_solve_right 3 (mscale 6 exB) (vscale 5 [1; 2; 4]) (vscale 30 [8#3; 15; 2]) = true.
Proof. vm_compute. split; reflexivity. Qed.
