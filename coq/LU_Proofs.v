(* LU_Proofs - lemmas about the specification model LUModel (linear algebra over Q on list vectors,
   certificates, checkers, column replacement, residual bounds).  Everything is Qed; no axioms. *)
From Coq Require Import List QArith Qabs Bool Arith ZArith Lia Lqa Setoid Morphisms.
From SV Require Import LUModel.
Import ListNotations.
Local Open Scope Q_scope.

(* ------------------------------------------------------------------ *)
(* coefficient-wise equality                                           *)
(* ------------------------------------------------------------------ *)
Definition veq : vec -> vec -> Prop := Forall2 Qeq.
Definition meq : mat -> mat -> Prop := Forall2 veq.
Definition cols_len (n : nat) (B : mat) : Prop := Forall (fun c => length c = n) B.

Lemma qmul_eq : forall a b, qmul a b = a * b.
Proof.
  intros [an ad] [bn bd]. unfold qmul, Qmult, zmul_s, pmul_s. simpl.
  destruct (Z.log2 (Z.abs an) <=? Z.log2 (Z.abs bn))%Z; destruct (Pos.size_nat ad <=? Pos.size_nat bd)%nat;
    f_equal; auto using Z.mul_comm, Pos.mul_comm.
Qed.

Ltac inv_cols H Hc Ht :=
  pose proof (Forall_inv H) as Hc; pose proof (Forall_inv_tail H) as Ht; simpl in Hc.

Lemma veq_refl : forall x, veq x x.
Proof. induction x; constructor; auto. reflexivity. Qed.

Lemma veq_sym : forall x y, veq x y -> veq y x.
Proof. induction 1; constructor; auto. symmetry; auto. Qed.

Lemma veq_trans : forall x y z, veq x y -> veq y z -> veq x z.
Proof.
  intros x y z H; revert z. induction H; intros z Hz; inversion Hz; subst; constructor.
  - etransitivity; eauto.
  - apply IHForall2; auto.
Qed.

#[export] Instance veq_Equivalence : Equivalence veq.
Proof. split; [exact veq_refl | exact veq_sym | exact veq_trans]. Qed.

Lemma meq_refl : forall A, meq A A.
Proof. induction A; constructor; auto. apply veq_refl. Qed.

Lemma veq_length : forall x y, veq x y -> length x = length y.
Proof. induction 1; simpl; auto. Qed.

Lemma veqb_iff : forall x y, veqb x y = true <-> veq x y.
Proof.
  induction x as [|a x IH]; destruct y as [|b y]; simpl; split; intro H; try discriminate; try constructor;
    try (inversion H; fail).
  - apply andb_true_iff in H. destruct H as [H1 H2]. apply Qeq_bool_iff; auto.
  - apply andb_true_iff in H. destruct H as [H1 H2]. apply IH; auto.
  - inversion H; subst. apply andb_true_iff; split. apply Qeq_bool_iff; auto. apply IH; auto.
Qed.

Lemma meqb_iff : forall A B, meqb A B = true <-> meq A B.
Proof.
  induction A as [|a A IH]; destruct B as [|b B]; simpl; split; intro H; try discriminate; try constructor;
    try (inversion H; fail).
  - apply andb_true_iff in H. destruct H as [H1 H2]. apply veqb_iff; auto.
  - apply andb_true_iff in H. destruct H as [H1 H2]. apply IH; auto.
  - inversion H; subst. apply andb_true_iff; split. apply veqb_iff; auto. apply IH; auto.
Qed.

Lemma veq_nth : forall x y, veq x y -> forall i, nth i x 0 == nth i y 0.
Proof. induction 1; intros [|i]; simpl; auto; reflexivity. Qed.

Lemma veq_of_nth : forall x y, length x = length y ->
  (forall i, (i < length x)%nat -> nth i x 0 == nth i y 0) -> veq x y.
Proof.
  induction x as [|a x IH]; destruct y as [|b y]; simpl; intros HL H; try discriminate; constructor.
  - apply (H 0%nat). lia.
  - apply IH. lia. intros i Hi. apply (H (S i)). lia.
Qed.

(* ------------------------------------------------------------------ *)
(* shapes                                                              *)
(* ------------------------------------------------------------------ *)
Lemma wf_vec_iff : forall n v, wf_vec n v = true <-> length v = n.
Proof. intros; unfold wf_vec. apply Nat.eqb_eq. Qed.

Lemma wf_mat_iff : forall n B, wf_mat n B = true <-> length B = n /\ cols_len n B.
Proof.
  intros n B; unfold wf_mat, cols_len. rewrite andb_true_iff, Nat.eqb_eq, forallb_forall, Forall_forall.
  split; intros [H1 H2]; split; auto; intros c Hc; apply wf_vec_iff; auto.
Qed.

Lemma length_vzero : forall n, length (vzero n) = n.
Proof. intros; apply repeat_length. Qed.

Lemma length_vscale : forall a v, length (vscale a v) = length v.
Proof. intros; apply map_length. Qed.

Lemma length_vadd : forall x y, length x = length y -> length (vadd x y) = length x.
Proof. induction x; destruct y; simpl; intros; try discriminate; auto; try (f_equal; apply IHx; lia). Qed.

Lemma length_vsub : forall x y, length x = length y -> length (vsub x y) = length x.
Proof. induction x; destruct y; simpl; intros; try discriminate; auto; try (f_equal; apply IHx; lia). Qed.

Lemma length_mat_vec : forall n B x, cols_len n B -> length (mat_vec n B x) = n.
Proof.
  induction B as [|c B IH]; intros x HB; simpl. apply length_vzero.
  destruct x as [|a x]. apply length_vzero.
  inv_cols HB Hc HB'. rewrite length_vadd; rewrite length_vscale; auto. rewrite IH; auto.
Qed.

Lemma length_vec_mat : forall x B, length (vec_mat x B) = length B.
Proof. intros; apply map_length. Qed.

Lemma length_unit_vec : forall n k, length (unit_vec n k) = n.
Proof. induction n; intros [|k]; simpl; auto. rewrite length_vzero; auto. Qed.

Lemma cols_len_ident : forall n, cols_len n (ident n).
Proof.
  induction n; simpl; constructor. simpl. rewrite length_vzero; auto.
  unfold cols_len in *. rewrite Forall_forall in *. intros c Hc. apply in_map_iff in Hc.
  destruct Hc as [c' [E Hc']]. subst. simpl. f_equal. auto.
Qed.

Lemma length_ident : forall n, length (ident n) = n.
Proof. induction n; simpl; auto. rewrite map_length. auto. Qed.

(* ------------------------------------------------------------------ *)
(* congruence                                                          *)
(* ------------------------------------------------------------------ *)
Lemma vadd_veq : forall x x' y y', veq x x' -> veq y y' -> veq (vadd x y) (vadd x' y').
Proof.
  intros x x' y y' H; revert y y'. induction H; intros y0 y0' Hy; simpl. constructor.
  inversion Hy; subst; constructor. rewrite H, H1. reflexivity. apply IHForall2; auto.
Qed.

Lemma vsub_veq : forall x x' y y', veq x x' -> veq y y' -> veq (vsub x y) (vsub x' y').
Proof.
  intros x x' y y' H; revert y y'. induction H; intros y0 y0' Hy; simpl. constructor.
  inversion Hy; subst; constructor. rewrite H, H1. reflexivity. apply IHForall2; auto.
Qed.

Lemma vscale_veq : forall a a' v v', a == a' -> veq v v' -> veq (vscale a v) (vscale a' v').
Proof. intros a a' v v' Ha H. induction H; simpl; constructor; auto. rewrite !qmul_eq, Ha, H. reflexivity. Qed.

Lemma dot_veq : forall x x' y y', veq x x' -> veq y y' -> dot x y == dot x' y'.
Proof.
  intros x x' y y' H; revert y y'. induction H; intros y0 y0' Hy; simpl. reflexivity.
  inversion Hy; subst. reflexivity. rewrite !qmul_eq, H, H1, (IHForall2 _ _ H2). reflexivity.
Qed.

Lemma mat_vec_veq : forall n B x x', veq x x' -> veq (mat_vec n B x) (mat_vec n B x').
Proof.
  induction B as [|c B IH]; intros x x' H; simpl. apply veq_refl.
  inversion H; subst. apply veq_refl.
  apply vadd_veq. apply vscale_veq; auto. apply veq_refl. apply IH; auto.
Qed.

Lemma mat_vec_meq : forall n A A' x, meq A A' -> veq (mat_vec n A x) (mat_vec n A' x).
Proof.
  intros n A A' x H; revert x. induction H; intros x0; simpl. apply veq_refl.
  destruct x0. apply veq_refl. apply vadd_veq. apply vscale_veq; auto. reflexivity. apply IHForall2.
Qed.

Lemma map_veq : forall (f g : vec -> Q) l, (forall c, f c == g c) -> veq (map f l) (map g l).
Proof. induction l; intros; simpl; constructor; auto. apply IHl; auto. Qed.

Lemma vec_mat_veq : forall x x' B, veq x x' -> veq (vec_mat x B) (vec_mat x' B).
Proof. intros. apply map_veq. intros c. apply dot_veq; auto. apply veq_refl. Qed.

Lemma vec_mat_meq : forall x B B', meq B B' -> veq (vec_mat x B) (vec_mat x B').
Proof. intros x B B' H. induction H; simpl; constructor; auto. apply dot_veq; auto. apply veq_refl. Qed.

(* ------------------------------------------------------------------ *)
(* vector algebra                                                      *)
(* ------------------------------------------------------------------ *)
Lemma vzero_S : forall n, vzero (S n) = 0 :: vzero n.
Proof. reflexivity. Qed.

Lemma vadd_zero_r : forall x n, length x = n -> veq (vadd x (vzero n)) x.
Proof.
  induction x; intros n H; destruct n; simpl in *; try discriminate; constructor. rewrite ?qmul_eq; ring. apply IHx. lia.
Qed.

Lemma vadd_zero_l : forall x n, length x = n -> veq (vadd (vzero n) x) x.
Proof.
  induction x; intros n H; destruct n; simpl in *; try discriminate; constructor. rewrite ?qmul_eq; ring. apply IHx. lia.
Qed.

Lemma vadd_interchange : forall p q r s, veq (vadd (vadd p q) (vadd r s)) (vadd (vadd p r) (vadd q s)).
Proof.
  induction p; intros q r s; simpl. constructor.
  destruct q; simpl. destruct r; simpl; constructor.
  destruct r; simpl. constructor. destruct s; simpl. constructor.
  constructor. rewrite ?qmul_eq; ring. apply IHp.
Qed.

Lemma vscale_vadd : forall a x y, veq (vscale a (vadd x y)) (vadd (vscale a x) (vscale a y)).
Proof. induction x; destruct y; simpl; constructor. rewrite ?qmul_eq; ring. apply IHx. Qed.

Lemma vscale_plus : forall a b x, veq (vscale (a + b) x) (vadd (vscale a x) (vscale b x)).
Proof. induction x; simpl; constructor. rewrite ?qmul_eq; ring. auto. Qed.

Lemma vscale_vscale : forall a b x, veq (vscale (a * b) x) (vscale a (vscale b x)).
Proof. induction x; simpl; constructor. rewrite ?qmul_eq; ring. auto. Qed.

Lemma vscale_vzero : forall a n, veq (vscale a (vzero n)) (vzero n).
Proof. induction n; simpl; constructor. rewrite ?qmul_eq; ring. auto. Qed.

Lemma vscale_0 : forall x, veq (vscale 0 x) (vzero (length x)).
Proof. induction x; simpl; constructor. rewrite ?qmul_eq; ring. auto. Qed.

Lemma vscale_1 : forall x, veq (vscale 1 x) x.
Proof. induction x; simpl; constructor. rewrite ?qmul_eq; ring. auto. Qed.

(* ------------------------------------------------------------------ *)
(* linearity of mat_vec, associativity, identity                       *)
(* ------------------------------------------------------------------ *)
Lemma mat_vec_vadd : forall n B x y, cols_len n B -> length x = length y ->
  veq (mat_vec n B (vadd x y)) (vadd (mat_vec n B x) (mat_vec n B y)).
Proof.
  induction B as [|c B IH]; intros x y HB HL; simpl.
  - apply veq_sym. apply vadd_zero_r. apply length_vzero.
  - destruct x as [|a x]; destruct y as [|b y]; simpl in *; try discriminate.
    + apply veq_sym. apply vadd_zero_r. apply length_vzero.
    + inv_cols HB Hc HB'.
      eapply veq_trans; [| apply vadd_interchange].
      apply vadd_veq. apply vscale_plus. apply IH; auto.
Qed.

Lemma mat_vec_vscale : forall n B a x, veq (mat_vec n B (vscale a x)) (vscale a (mat_vec n B x)).
Proof.
  induction B as [|c B IH]; intros a x; simpl.
  - apply veq_sym. apply vscale_vzero.
  - destruct x as [|b x]; simpl.
    + apply veq_sym. apply vscale_vzero.
    + eapply veq_trans; [| apply veq_sym; apply vscale_vadd].
      apply vadd_veq. rewrite qmul_eq. apply vscale_vscale. apply IH.
Qed.

Lemma mat_vec_vzero : forall n A m, cols_len n A -> veq (mat_vec n A (vzero m)) (vzero n).
Proof.
  induction A as [|c A IH]; intros m HA; simpl. apply veq_refl.
  destruct m; simpl. apply veq_refl. inv_cols HA Hc HA'.
  assert (E0 : veq (vscale 0 c) (vzero n)) by (rewrite <- Hc; apply vscale_0).
  eapply veq_trans. apply vadd_veq. exact E0. apply IH; auto.
  apply vadd_zero_r. apply length_vzero.
Qed.

Lemma mat_vec_assoc : forall n A B x, cols_len n A -> cols_len n B ->
  veq (mat_vec n (mat_mul n A B) x) (mat_vec n A (mat_vec n B x)).
Proof.
  intros n A B; induction B as [|c B IH]; intros x HA HB; simpl.
  - apply veq_sym. apply mat_vec_vzero; auto.
  - destruct x as [|a x].
    + apply veq_sym. apply mat_vec_vzero; auto.
    + inv_cols HB Hc HB'.
      eapply veq_trans; [| apply veq_sym; apply mat_vec_vadd; auto].
      * apply vadd_veq. apply veq_sym. apply mat_vec_vscale. apply IH; auto.
      * rewrite length_vscale, length_mat_vec; auto.
Qed.

Lemma mat_vec_cons0 : forall n M x, veq (mat_vec (S n) (map (cons 0) M) x) (0 :: mat_vec n M x).
Proof.
  induction M as [|c M IH]; intros x. simpl. apply veq_refl.
  destruct x as [|a x]. simpl. apply veq_refl.
  change (mat_vec (S n) (map (cons 0) (c :: M)) (a :: x))
    with (vadd (vscale a (0 :: c)) (mat_vec (S n) (map (cons 0) M) x)).
  change (mat_vec n (c :: M) (a :: x)) with (vadd (vscale a c) (mat_vec n M x)).
  eapply veq_trans. apply vadd_veq. apply veq_refl. apply IH.
  simpl. constructor. rewrite ?qmul_eq; ring. apply veq_refl.
Qed.

Lemma mat_vec_ident : forall n x, length x = n -> veq (mat_vec n (ident n) x) x.
Proof.
  induction n; intros x H; destruct x as [|a x]; simpl in H; try discriminate. constructor.
  change (mat_vec (S n) (ident (S n)) (a :: x))
    with (vadd (vscale a (1 :: vzero n)) (mat_vec (S n) (map (cons 0) (ident n)) x)).
  eapply veq_trans. apply vadd_veq. apply veq_refl. apply mat_vec_cons0.
  simpl. constructor. rewrite ?qmul_eq; ring.
  eapply veq_trans. apply vadd_veq. apply vscale_vzero. apply IHn. lia.
  apply vadd_zero_l. lia.
Qed.

(* ------------------------------------------------------------------ *)
(* the transposed side                                                 *)
(* ------------------------------------------------------------------ *)
Lemma dot_vzero_r : forall x n, dot x (vzero n) == 0.
Proof. induction x; intros [|n]; simpl; try reflexivity. rewrite IHx. rewrite ?qmul_eq; ring. Qed.

Lemma dot_vadd_r : forall x y z, length y = length z -> dot x (vadd y z) == dot x y + dot x z.
Proof.
  induction x; intros y z H; destruct y; destruct z; simpl in *; try discriminate; try (rewrite ?qmul_eq; ring).
  rewrite IHx. rewrite ?qmul_eq; ring. lia.
Qed.

Lemma dot_vscale_r : forall a x y, dot x (vscale a y) == a * dot x y.
Proof. induction x; destruct y; simpl; try (rewrite ?qmul_eq; ring). rewrite IHx. rewrite ?qmul_eq; ring. Qed.

Lemma dot_vec_mat : forall n B x c, cols_len n B -> dot (vec_mat x B) c == dot x (mat_vec n B c).
Proof.
  induction B as [|b B IH]; intros x c HB; simpl.
  - rewrite dot_vzero_r. reflexivity.
  - destruct c as [|c0 c]. rewrite dot_vzero_r. reflexivity.
    inv_cols HB Hc HB'. rewrite dot_vadd_r. rewrite dot_vscale_r. unfold vec_mat in IH. rewrite (IH x c); auto. rewrite ?qmul_eq; ring.
    rewrite length_vscale, length_mat_vec; auto.
Qed.

Lemma vec_mat_assoc : forall n A B x, cols_len n A ->
  veq (vec_mat (vec_mat x A) B) (vec_mat x (mat_mul n A B)).
Proof.
  intros n A B x HA. unfold mat_mul. induction B; simpl; constructor; auto.
  apply dot_vec_mat; auto.
Qed.

Lemma vec_mat_ident : forall n x, length x = n -> veq (vec_mat x (ident n)) x.
Proof.
  induction n; intros x H; destruct x as [|a x]; simpl in *; try discriminate. constructor.
  constructor. rewrite dot_vzero_r. rewrite ?qmul_eq; ring.
  unfold vec_mat in *. rewrite map_map.
  eapply veq_trans; [| apply (IHn x); lia].
  apply map_veq. intros c. simpl. rewrite ?qmul_eq; ring.
Qed.

(* ------------------------------------------------------------------ *)
(* certificates                                                        *)
(* ------------------------------------------------------------------ *)
Lemma regular_cert_unpack : forall n B Binv, regular_cert n B Binv = true ->
  length B = n /\ cols_len n B /\ length Binv = n /\ cols_len n Binv /\
  meq (mat_mul n Binv B) (ident n) /\ meq (mat_mul n B Binv) (ident n).
Proof.
  intros n B Binv H. unfold regular_cert in H.
  rewrite !andb_true_iff in H. destruct H as (((H1 & H2) & H3) & H4).
  apply wf_mat_iff in H1. apply wf_mat_iff in H2. apply meqb_iff in H3. apply meqb_iff in H4. tauto.
Qed.

(* left inverse => the right system has at most one solution, and it is Binv b *)
Lemma left_inverse_solution : forall n B Binv x b,
  cols_len n B -> cols_len n Binv -> meq (mat_mul n Binv B) (ident n) ->
  length x = n -> veq (mat_vec n B x) b -> veq x (mat_vec n Binv b).
Proof.
  intros n B Binv x b HB HI HM Hx Hs.
  apply veq_trans with (mat_vec n (ident n) x). apply veq_sym. apply mat_vec_ident; auto.
  apply veq_trans with (mat_vec n (mat_mul n Binv B) x). apply veq_sym. apply mat_vec_meq. exact HM.
  eapply veq_trans. apply mat_vec_assoc; auto.
  apply mat_vec_veq. auto.
Qed.

Lemma right_inverse_solves : forall n B Binv b,
  cols_len n B -> cols_len n Binv -> meq (mat_mul n B Binv) (ident n) ->
  length b = n -> veq (mat_vec n B (mat_vec n Binv b)) b.
Proof.
  intros n B Binv b HB HI HM Hb.
  apply veq_trans with (mat_vec n (mat_mul n B Binv) b). apply veq_sym. apply mat_vec_assoc; auto.
  apply veq_trans with (mat_vec n (ident n) b). apply mat_vec_meq. exact HM.
  apply mat_vec_ident; auto.
Qed.

(* right inverse => the left system has at most one solution, and it is b^T Binv *)
Lemma right_inverse_left_solution : forall n B Binv x b,
  cols_len n B -> meq (mat_mul n B Binv) (ident n) ->
  length x = n -> veq (vec_mat x B) b -> veq x (vec_mat b Binv).
Proof.
  intros n B Binv x b HB HM Hx Hs.
  apply veq_trans with (vec_mat x (ident n)). apply veq_sym. apply vec_mat_ident; auto.
  apply veq_trans with (vec_mat x (mat_mul n B Binv)). apply veq_sym. apply vec_mat_meq. exact HM.
  apply veq_trans with (vec_mat (vec_mat x B) Binv). apply veq_sym. apply vec_mat_assoc; auto.
  apply vec_mat_veq. auto.
Qed.

Lemma left_inverse_left_solves : forall n B Binv b,
  cols_len n Binv -> meq (mat_mul n Binv B) (ident n) ->
  length b = n -> veq (vec_mat (vec_mat b Binv) B) b.
Proof.
  intros n B Binv b HI HM Hb.
  apply veq_trans with (vec_mat b (mat_mul n Binv B)). apply vec_mat_assoc; auto.
  apply veq_trans with (vec_mat b (ident n)). apply vec_mat_meq. exact HM.
  apply vec_mat_ident; auto.
Qed.

Lemma check_solve_right_unpack : forall n B x b, check_solve_right n B x b = true <->
  length B = n /\ cols_len n B /\ length x = n /\ veq (mat_vec n B x) b.
Proof.
  intros. unfold check_solve_right. rewrite !andb_true_iff, wf_mat_iff, wf_vec_iff, veqb_iff. tauto.
Qed.

Lemma check_solve_left_unpack : forall n B x b, check_solve_left n B x b = true <->
  length B = n /\ cols_len n B /\ length x = n /\ veq (vec_mat x B) b.
Proof.
  intros. unfold check_solve_left. rewrite !andb_true_iff, wf_mat_iff, wf_vec_iff, veqb_iff. tauto.
Qed.

(* the statement used by C10/C11 *)
Lemma regular_cert_unique_solution_lemma : forall n B Binv, regular_cert n B Binv = true ->
  (forall x y b, check_solve_right n B x b = true -> check_solve_right n B y b = true -> Forall2 Qeq x y) /\
  (forall b, length b = n -> check_solve_right n B (mat_vec n Binv b) b = true) /\
  (forall x y b, check_solve_left n B x b = true -> check_solve_left n B y b = true -> Forall2 Qeq x y) /\
  (forall b, length b = n -> check_solve_left n B (vec_mat b Binv) b = true).
Proof.
  intros n B Binv H. apply regular_cert_unpack in H. destruct H as (LB & CB & LI & CI & ML & MR).
  repeat split.
  - intros x y b Hx Hy. apply check_solve_right_unpack in Hx. apply check_solve_right_unpack in Hy.
    destruct Hx as (_ & _ & Lx & Sx). destruct Hy as (_ & _ & Ly & Sy).
    apply veq_trans with (mat_vec n Binv b). apply (left_inverse_solution n B Binv x b); auto.
    apply veq_sym. apply (left_inverse_solution n B Binv y b); auto.
  - intros b Hb. apply check_solve_right_unpack. repeat split; auto.
    apply length_mat_vec; auto. apply right_inverse_solves; auto.
  - intros x y b Hx Hy. apply check_solve_left_unpack in Hx. apply check_solve_left_unpack in Hy.
    destruct Hx as (_ & _ & Lx & Sx). destruct Hy as (_ & _ & Ly & Sy).
    apply veq_trans with (vec_mat b Binv). apply (right_inverse_left_solution n B Binv x b); auto.
    apply veq_sym. apply (right_inverse_left_solution n B Binv y b); auto.
  - intros b Hb. apply check_solve_left_unpack. repeat split; auto.
    rewrite length_vec_mat; auto. apply (left_inverse_left_solves n B Binv b); auto.
Qed.

Lemma singular_cert_unpack : forall n B v, singular_cert n B v = true ->
  length B = n /\ cols_len n B /\ length v = n /\ ~ veq v (vzero n) /\ veq (mat_vec n B v) (vzero n).
Proof.
  intros n B v H. unfold singular_cert in H.
  rewrite !andb_true_iff in H. destruct H as (((H1 & H2) & H3) & H4).
  apply wf_mat_iff in H1. apply wf_vec_iff in H2. apply veqb_iff in H4.
  apply negb_true_iff in H3. repeat split; try tauto.
  intro E. apply veqb_iff in E. congruence.
Qed.

Lemma singular_cert_no_inverse_lemma : forall n B v, singular_cert n B v = true ->
  forall Binv, regular_cert n B Binv = false.
Proof.
  intros n B v HS Binv. destruct (regular_cert n B Binv) eqn:HR; auto. exfalso.
  apply singular_cert_unpack in HS. destruct HS as (LB & CB & Lv & NZ & KV).
  apply regular_cert_unpack in HR. destruct HR as (_ & _ & LI & CI & ML & MR).
  apply NZ.
  apply veq_trans with (mat_vec n Binv (vzero n)). apply (left_inverse_solution n B Binv v (vzero n)); auto.
  apply mat_vec_vzero; auto.
Qed.

(* with a kernel vector no solution is unique: x + v is another, different, solution *)
Lemma vadd_cancel_zero : forall x v, length x = length v -> veq (vadd x v) x -> veq v (vzero (length v)).
Proof.
  induction x; destruct v; simpl; intros HL H; try discriminate. constructor.
  inversion H; subst. constructor. lra. apply IHx; auto.
Qed.

Lemma singular_cert_not_unique_lemma : forall n B v, singular_cert n B v = true ->
  forall x b, check_solve_right n B x b = true ->
    check_solve_right n B (vadd x v) b = true /\ ~ Forall2 Qeq (vadd x v) x.
Proof.
  intros n B v HS x b Hx.
  apply singular_cert_unpack in HS. destruct HS as (LB & CB & Lv & NZ & KV).
  apply check_solve_right_unpack in Hx. destruct Hx as (_ & _ & Lx & Sx).
  split.
  - apply check_solve_right_unpack. repeat split; auto.
    rewrite length_vadd; lia.
    eapply veq_trans. apply mat_vec_vadd; auto. lia.
    eapply veq_trans. apply vadd_veq. exact Sx. exact KV.
    apply vadd_zero_r. apply veq_length in Sx. rewrite <- Sx. apply length_mat_vec; auto.
  - intro E. apply NZ. rewrite <- Lv. apply (vadd_cancel_zero x v); auto. lia.
Qed.

(* ------------------------------------------------------------------ *)
(* column replacement                                                  *)
(* ------------------------------------------------------------------ *)
Lemma replace_col_length : forall B k v, length (replace_col B k v) = length B.
Proof. induction B; intros [|k] v; simpl; auto. Qed.

Lemma replace_col_nth_same : forall B k v, (k < length B)%nat -> nth_error (replace_col B k v) k = Some v.
Proof. induction B; intros [|k] v H; simpl in *; try lia; auto. apply IHB. lia. Qed.

Lemma replace_col_nth_other : forall B k v j, j <> k -> nth_error (replace_col B k v) j = nth_error B j.
Proof.
  induction B; intros [|k] v [|j] H; simpl; auto; try congruence; try (apply IHB; congruence).
Qed.

Lemma replace_col_cols_len : forall n B k v, cols_len n B -> length v = n -> cols_len n (replace_col B k v).
Proof.
  induction B; intros [|k] v HB Hv; simpl; auto; inv_cols HB Hc HB'; constructor; auto.
  apply IHB; auto.
Qed.

Lemma replace_col_wf : forall n B k v, wf_mat n B = true -> wf_vec n v = true -> wf_mat n (replace_col B k v) = true.
Proof.
  intros n B k v HB Hv. apply wf_mat_iff in HB. destruct HB. apply wf_vec_iff in Hv. apply wf_mat_iff. split.
  rewrite replace_col_length; auto. apply replace_col_cols_len; auto.
Qed.

Lemma replace_col_spec_lemma : forall n B k v, wf_mat n B = true -> wf_vec n v = true -> (k < n)%nat ->
  wf_mat n (replace_col B k v) = true /\
  nth_error (replace_col B k v) k = Some v /\
  (forall j, j <> k -> nth_error (replace_col B k v) j = nth_error B j).
Proof.
  intros n B k v HB Hv Hk. split. apply replace_col_wf; auto. split.
  apply replace_col_nth_same. apply wf_mat_iff in HB. destruct HB. lia.
  intros. apply replace_col_nth_other; auto.
Qed.

Lemma lu_run_wf_lemma : forall n ops B, wf_mat n B = true -> forallb (wf_op n) ops = true ->
  wf_mat n (lu_run B ops) = true.
Proof.
  induction ops as [|o ops IH]; intros B HB H; simpl in *; auto.
  apply andb_true_iff in H. destruct H as [Ho H]. apply IH; auto.
  destruct o; simpl in *; auto. apply andb_true_iff in Ho. destruct Ho. apply replace_col_wf; auto.
Qed.

(* meaning of a replaced column for the product:  B' x = B (x with x_k := 0) + x_k v *)
Fixpoint set_nth (x : vec) (k : nat) (a : Q) : vec :=
  match x, k with
  | [], _ => []
  | _ :: x', O => a :: x'
  | b :: x', S k' => b :: set_nth x' k' a
  end.

Lemma length_set_nth : forall x k a, length (set_nth x k a) = length x.
Proof. induction x; intros [|k] a0; simpl; auto. Qed.

Lemma vadd_comm : forall p q, veq (vadd p q) (vadd q p).
Proof. induction p; destruct q; simpl; constructor. rewrite ?qmul_eq; ring. apply IHp. Qed.

Lemma vadd_assoc : forall p q r, veq (vadd p (vadd q r)) (vadd (vadd p q) r).
Proof. induction p; destruct q; destruct r; simpl; constructor. rewrite ?qmul_eq; ring. apply IHp. Qed.

Lemma replace_col_mat_vec : forall n B k v x, cols_len n B -> length v = n -> length x = length B -> (k < length B)%nat ->
  veq (mat_vec n (replace_col B k v) x) (vadd (mat_vec n B (set_nth x k 0)) (vscale (nth k x 0) v)).
Proof.
  induction B as [|c B IH]; intros k v x HB Hv Hx Hk. simpl in Hk. lia.
  destruct x as [|a x]. simpl in Hx. discriminate.
  inv_cols HB Hc HB'. simpl in Hx, Hk.
  destruct k as [|k]; cbn [replace_col mat_vec set_nth nth].
  - apply veq_trans with (vadd (mat_vec n B x) (vscale a v)). apply vadd_comm.
    apply vadd_veq; [| apply veq_refl]. apply veq_sym.
    assert (E0 : veq (vscale 0 c) (vzero n)) by (rewrite <- Hc; apply vscale_0).
    apply veq_trans with (vadd (vzero n) (mat_vec n B x)).
    apply vadd_veq. exact E0. apply veq_refl.
    apply vadd_zero_l. apply length_mat_vec; auto.
  - eapply veq_trans. apply vadd_veq. apply veq_refl. apply IH; auto; lia.
    apply vadd_assoc.
Qed.

(* product-form (eta) update, algebraic core: if w solves B w = v (w is the eta column) then the matrix with
   column k replaced by v acts like B after the eta matrix E = I with column k replaced by w:
      B' x = B (E x),   E x = (x with x_k := 0) + x_k w  *)
Definition eta_apply (k : nat) (w x : vec) : vec := vadd (set_nth x k 0) (vscale (nth k x 0) w).

Lemma eta_update_correct_lemma : forall n B k v w x,
  wf_mat n B = true -> check_solve_right n B w v = true -> length x = n -> (k < n)%nat ->
  Forall2 Qeq (mat_vec n (replace_col B k v) x) (mat_vec n B (eta_apply k w x)).
Proof.
  intros n B k v w x HB Hw Hx Hk.
  apply check_solve_right_unpack in Hw. destruct Hw as (LB & CB & Lw & Sw).
  assert (Lv : length v = n). { apply veq_length in Sw. rewrite <- Sw. apply length_mat_vec; auto. }
  eapply veq_trans. apply replace_col_mat_vec; auto; lia.
  unfold eta_apply. apply veq_sym.
  eapply veq_trans. apply mat_vec_vadd; auto. rewrite length_set_nth, length_vscale. lia.
  apply vadd_veq. apply veq_refl.
  eapply veq_trans. apply mat_vec_vscale. apply vscale_veq. reflexivity. auto.
Qed.

(* ------------------------------------------------------------------ *)
(* soundness of the exact checkers, coefficient-wise                   *)
(* ------------------------------------------------------------------ *)
Lemma check_solve_right_sound_lemma : forall n B x b,
  check_solve_right n B x b = true <->
  (wf_mat n B = true /\ length x = n /\ length b = n /\
   forall i, (i < n)%nat -> nth i (mat_vec n B x) 0 == nth i b 0).
Proof.
  intros n B x b. rewrite check_solve_right_unpack. rewrite wf_mat_iff. split.
  - intros (LB & CB & Lx & S). repeat split; auto.
    apply veq_length in S. rewrite <- S. apply length_mat_vec; auto.
    intros i _. apply veq_nth; auto.
  - intros ((LB & CB) & Lx & Lb & S). repeat split; auto.
    apply veq_of_nth. rewrite length_mat_vec; auto. rewrite length_mat_vec; auto.
Qed.

Lemma nth_vec_mat : forall x B i, (i < length B)%nat -> nth i (vec_mat x B) 0 = dot x (nth i B []).
Proof.
  intros x B. unfold vec_mat. induction B; intros [|i] H; simpl in *; try lia; auto. apply IHB. lia.
Qed.

Lemma check_solve_left_sound_lemma : forall n B x b,
  check_solve_left n B x b = true <->
  (wf_mat n B = true /\ length x = n /\ length b = n /\
   forall j, (j < n)%nat -> dot x (nth j B []) == nth j b 0).
Proof.
  intros n B x b. rewrite check_solve_left_unpack. rewrite wf_mat_iff. split.
  - intros (LB & CB & Lx & S). repeat split; auto.
    apply veq_length in S. rewrite <- S. rewrite length_vec_mat; auto.
    intros j Hj. rewrite <- nth_vec_mat by lia. apply veq_nth; auto.
  - intros ((LB & CB) & Lx & Lb & S). repeat split; auto.
    apply veq_of_nth. rewrite length_vec_mat; lia. rewrite length_vec_mat. intros j Hj.
    rewrite nth_vec_mat by lia. apply S. lia.
Qed.

(* ------------------------------------------------------------------ *)
(* multi right-hand sides                                              *)
(* ------------------------------------------------------------------ *)
Lemma multi_rhs_spec_lemma : forall n B x y z b d e,
  (solve2_right_spec n B x y b d = true <-> check_solve_right n B x b = true /\ check_solve_right n B y d = true) /\
  (solve3_right_spec n B x y z b d e = true <->
     check_solve_right n B x b = true /\ check_solve_right n B y d = true /\ check_solve_right n B z e = true) /\
  (solve2_left_spec n B x y b d = true <-> check_solve_left n B x b = true /\ check_solve_left n B y d = true) /\
  (solve3_left_spec n B x y z b d e = true <->
     check_solve_left n B x b = true /\ check_solve_left n B y d = true /\ check_solve_left n B z e = true).
Proof.
  intros. unfold solve2_right_spec, solve3_right_spec, solve2_left_spec, solve3_left_spec.
  rewrite !andb_true_iff. tauto.
Qed.

Lemma multi_rhs_equals_single_lemma : forall n B Binv x y z b d e x1 y1 z1,
  regular_cert n B Binv = true ->
  solve3_right_spec n B x y z b d e = true ->
  check_solve_right n B x1 b = true -> check_solve_right n B y1 d = true -> check_solve_right n B z1 e = true ->
  Forall2 Qeq x x1 /\ Forall2 Qeq y y1 /\ Forall2 Qeq z z1.
Proof.
  intros n B Binv x y z b d e x1 y1 z1 HR H3 H1 H2 H4.
  destruct (regular_cert_unique_solution_lemma n B Binv HR) as (U & _).
  unfold solve3_right_spec in H3. rewrite !andb_true_iff in H3. destruct H3 as ((A & A2) & A3).
  repeat split; eapply U; eauto.
Qed.

Lemma multi_lhs_equals_single_lemma : forall n B Binv x y z b d e x1 y1 z1,
  regular_cert n B Binv = true ->
  solve3_left_spec n B x y z b d e = true ->
  check_solve_left n B x1 b = true -> check_solve_left n B y1 d = true -> check_solve_left n B z1 e = true ->
  Forall2 Qeq x x1 /\ Forall2 Qeq y y1 /\ Forall2 Qeq z z1.
Proof.
  intros n B Binv x y z b d e x1 y1 z1 HR H3 H1 H2 H4.
  destruct (regular_cert_unique_solution_lemma n B Binv HR) as (_ & _ & U & _).
  unfold solve3_left_spec in H3. rewrite !andb_true_iff in H3. destruct H3 as ((A & A2) & A3).
  repeat split; eapply U; eauto.
Qed.

(* ------------------------------------------------------------------ *)
(* basis-inverse queries                                               *)
(* ------------------------------------------------------------------ *)
Lemma dot_unit_vec : forall n k x, length x = n -> dot (unit_vec n k) x == nth k x 0.
Proof.
  induction n; intros k x H; destruct x as [|a x]; simpl in *; try discriminate.
  - destruct k; reflexivity.
  - destruct k; simpl.
    + assert (E : dot (vzero n) x == 0).
      { clear. revert x. induction n; destruct x; simpl; try reflexivity. rewrite IHn. rewrite ?qmul_eq; ring. }
      rewrite E. rewrite ?qmul_eq; ring.
    + rewrite IHn by lia. rewrite ?qmul_eq; ring.
Qed.

Lemma mat_vec_unit_vec_gen : forall n M m k, cols_len n M -> length M = m -> (k < m)%nat ->
  veq (mat_vec n M (unit_vec m k)) (nth k M (vzero n)).
Proof.
  induction M as [|c M IH]; intros m k HM HL Hk. simpl in HL. lia.
  inv_cols HM Hc HM'. simpl in HL. destruct m as [|m]. lia.
  destruct k as [|k]; cbn [unit_vec mat_vec nth].
  - eapply veq_trans. apply vadd_veq. apply vscale_1. apply mat_vec_vzero; auto.
    apply vadd_zero_r; auto.
  - assert (E0 : veq (vscale 0 c) (vzero n)) by (rewrite <- Hc; apply vscale_0).
    eapply veq_trans. apply vadd_veq. exact E0. apply (IH m k); auto; lia.
    apply vadd_zero_l.
    destruct (nth_in_or_default k M (vzero n)) as [Hin | E].
    + unfold cols_len in HM'. rewrite Forall_forall in HM'. apply HM'; auto.
    + rewrite E. apply length_vzero.
Qed.

Lemma mat_vec_unit_vec : forall n M k, cols_len n M -> length M = n -> (k < n)%nat ->
  veq (mat_vec n M (unit_vec n k)) (nth k M (vzero n)).
Proof. intros. apply mat_vec_unit_vec_gen; auto. Qed.

Lemma inverse_col_exact_lemma : forall n B Binv c v, regular_cert n B Binv = true ->
  check_inverse_col n B c v = true -> Forall2 Qeq v (nth c Binv (vzero n)).
Proof.
  intros n B Binv c v HR H. unfold check_inverse_col in H. apply andb_true_iff in H. destruct H as [Hc H].
  apply Nat.ltb_lt in Hc.
  pose proof (regular_cert_unpack _ _ _ HR) as (LB & CB & LI & CI & ML & MR).
  apply check_solve_right_unpack in H. destruct H as (_ & _ & Lv & S).
  apply veq_trans with (mat_vec n Binv (unit_vec n c)). apply (left_inverse_solution n B Binv v (unit_vec n c)); auto.
  apply mat_vec_unit_vec; auto.
Qed.

Lemma inverse_row_exact_lemma : forall n B Binv r v, regular_cert n B Binv = true ->
  check_inverse_row n B r v = true ->
  length v = n /\ forall j, (j < n)%nat -> nth j v 0 == nth r (nth j Binv []) 0.
Proof.
  intros n B Binv r v HR H. unfold check_inverse_row in H. apply andb_true_iff in H. destruct H as [Hr H].
  apply Nat.ltb_lt in Hr.
  pose proof (regular_cert_unpack _ _ _ HR) as (LB & CB & LI & CI & ML & MR).
  apply check_solve_left_unpack in H. destruct H as (_ & _ & Lv & S).
  split; auto. intros j Hj.
  assert (E : veq v (vec_mat (unit_vec n r) Binv)). { apply (right_inverse_left_solution n B Binv v (unit_vec n r)); auto. }
  rewrite (veq_nth _ _ E j). rewrite nth_vec_mat by lia.
  apply dot_unit_vec.
  unfold cols_len in CI. rewrite Forall_forall in CI. apply CI. apply nth_In. lia.
Qed.

(* ------------------------------------------------------------------ *)
(* tolerance version                                                   *)
(* ------------------------------------------------------------------ *)
Lemma qmax_ge_l : forall a b, a <= qmax a b.
Proof. intros. unfold qmax. destruct (Qle_bool a b) eqn:E. apply Qle_bool_iff; auto. lra. Qed.

Lemma qmax_ge_r : forall a b, b <= qmax a b.
Proof.
  intros. unfold qmax. destruct (Qle_bool a b) eqn:E. lra.
  assert (~ a <= b). { intro H. apply Qle_bool_iff in H. congruence. } lra.
Qed.

Lemma norm_inf_nonneg : forall v, 0 <= norm_inf v.
Proof. induction v; simpl. lra. eapply Qle_trans. apply IHv. apply qmax_ge_r. Qed.

Lemma norm_inf_bound : forall v i, (i < length v)%nat -> Qabs (nth i v 0) <= norm_inf v.
Proof.
  induction v; intros [|i] H; simpl in *; try lia.
  - apply qmax_ge_l.
  - eapply Qle_trans. apply IHv. lia. apply qmax_ge_r.
Qed.

Lemma nth_vsub : forall x y i, length x = length y -> (i < length x)%nat ->
  nth i (vsub x y) 0 == nth i x 0 - nth i y 0.
Proof.
  induction x; destruct y; intros [|i] HL H; simpl in *; try lia; try reflexivity. apply IHx; lia.
Qed.

Lemma residual_bound_right_lemma : forall n B x b eps, check_residual_right n B x b eps = true ->
  forall i, (i < n)%nat -> Qabs (nth i (mat_vec n B x) 0 - nth i b 0) <= tol_right n B x b eps.
Proof.
  intros n B x b eps H i Hi. unfold check_residual_right in H.
  rewrite !andb_true_iff in H. destruct H as (((H1 & H2) & H3) & H4).
  apply wf_mat_iff in H1. destruct H1 as [LB CB]. apply wf_vec_iff in H2, H3. apply Qle_bool_iff in H4.
  eapply Qle_trans; [| exact H4]. unfold residual_right.
  assert (L : length (mat_vec n B x) = length b) by (rewrite length_mat_vec; auto).
  rewrite <- nth_vsub; auto. apply norm_inf_bound. rewrite length_vsub; auto.
  rewrite length_mat_vec; auto. rewrite length_mat_vec; auto.
Qed.

Lemma residual_bound_left_lemma : forall n B x b eps, check_residual_left n B x b eps = true ->
  forall j, (j < n)%nat -> Qabs (dot x (nth j B []) - nth j b 0) <= tol_left B x b eps.
Proof.
  intros n B x b eps H j Hj. unfold check_residual_left in H.
  rewrite !andb_true_iff in H. destruct H as (((H1 & H2) & H3) & H4).
  apply wf_mat_iff in H1. destruct H1 as [LB CB]. apply wf_vec_iff in H2, H3. apply Qle_bool_iff in H4.
  eapply Qle_trans; [| exact H4]. unfold residual_left.
  assert (L : length (vec_mat x B) = length b) by (rewrite length_vec_mat; lia).
  rewrite <- nth_vec_mat by lia.
  rewrite <- nth_vsub; auto. apply norm_inf_bound. rewrite length_vsub; auto.
  rewrite length_vec_mat; lia. rewrite length_vec_mat; lia.
Qed.

(* an exact solution passes the tolerance check for every eps >= 0, so the tolerance check is not vacuous *)
Lemma qmax_zero : forall a b, a == 0 -> b == 0 -> qmax a b == 0.
Proof. intros a b Ha Hb. unfold qmax. destruct (Qle_bool a b); auto. Qed.

Lemma vsub_self_zero : forall x y, veq x y -> norm_inf (vsub x y) == 0.
Proof.
  induction 1. reflexivity.
  cbn [vsub norm_inf fold_right]. apply qmax_zero.
  - assert (E : x - y == 0) by lra. rewrite E. reflexivity.
  - exact IHForall2.
Qed.

Lemma norm_inf_mat_nonneg : forall n B, 0 <= norm_inf_mat n B.
Proof. intros. apply norm_inf_nonneg. Qed.

Lemma exact_passes_residual_lemma : forall n B x b eps, 0 <= eps -> length b = n ->
  check_solve_right n B x b = true -> check_residual_right n B x b eps = true.
Proof.
  intros n B x b eps He Lb H. apply check_solve_right_unpack in H. destruct H as (LB & CB & Lx & S).
  unfold check_residual_right. rewrite !andb_true_iff. repeat split.
  apply wf_mat_iff; auto. apply wf_vec_iff; auto. apply wf_vec_iff; auto.
  apply Qle_bool_iff. unfold residual_right. rewrite (vsub_self_zero _ _ S). unfold tol_right.
  pose proof (norm_inf_mat_nonneg n B) as P1. pose proof (norm_inf_nonneg x) as P2. pose proof (norm_inf_nonneg b) as P3.
  assert (P4 : 0 <= norm_inf_mat n B * norm_inf x) by (apply Qmult_le_0_compat; auto).
  apply Qmult_le_0_compat; lra.
Qed.

(* forward error: the error of an approximate solution is the certified inverse applied to its residual *)
Lemma vsub_vadd_cancel : forall p q, length p = length q -> veq (vadd q (vsub p q)) p.
Proof. induction p; destruct q; simpl; intros; try discriminate; constructor. rewrite ?qmul_eq; ring. apply IHp. lia. Qed.

Lemma forward_error_lemma : forall n B Binv x b, regular_cert n B Binv = true -> length x = n -> length b = n ->
  Forall2 Qeq x (vadd (mat_vec n Binv b) (mat_vec n Binv (residual_right n B x b))).
Proof.
  intros n B Binv x b HR Lx Lb.
  pose proof (regular_cert_unpack _ _ _ HR) as (LB & CB & LI & CI & ML & MR).
  unfold residual_right.
  assert (Lm : length (mat_vec n B x) = n) by (apply length_mat_vec; auto).
  apply veq_trans with (mat_vec n Binv (mat_vec n B x)).
  apply (left_inverse_solution n B Binv x (mat_vec n B x)); auto. apply veq_refl.
  eapply veq_trans; [| apply mat_vec_vadd; auto].
  apply mat_vec_veq. apply veq_sym. apply vsub_vadd_cancel. lia.
  rewrite length_vsub; lia.
Qed.

(* ------------------------------------------------------------------ *)
(* basis matrix assembled from an LP and a basis index vector          *)
(* ------------------------------------------------------------------ *)
Lemma basis_matrix_spec_lemma : forall m cols bind M, basis_matrix m cols bind = Some M ->
  length M = length bind /\
  forall i b, nth_error bind i = Some b -> exists c, basis_col m cols b = Some c /\ nth_error M i = Some c.
Proof.
  induction bind as [|b0 bs IH]; intros M H; simpl in H.
  - inversion H; subst. split; auto. intros [|i] b Hb; simpl in Hb; discriminate.
  - destruct (basis_col m cols b0) as [c0|] eqn:E0; try discriminate.
    destruct (basis_matrix m cols bs) as [M'|] eqn:E1; try discriminate.
    inversion H; subst. destruct (IH M' eq_refl) as [L N]. split. simpl; congruence.
    intros [|i] b Hb; simpl in Hb.
    + inversion Hb; subst. exists c0. split; auto.
    + apply N; auto.
Qed.

Lemma basis_col_slack : forall m cols r, (r < m)%nat ->
  basis_col m cols (- 1 - Z.of_nat r)%Z = Some (unit_vec m r).
Proof.
  intros m cols r H. unfold basis_col.
  destruct (0 <=? -1 - Z.of_nat r)%Z eqn:E. apply Z.leb_le in E. lia.
  replace (Z.to_nat (-1 - (-1 - Z.of_nat r))) with r by lia.
  apply Nat.ltb_lt in H. rewrite H. reflexivity.
Qed.

Lemma basis_col_structural : forall m cols j, basis_col m cols (Z.of_nat j) = nth_error cols j.
Proof.
  intros. unfold basis_col. destruct (0 <=? Z.of_nat j)%Z eqn:E.
  rewrite Nat2Z.id. reflexivity. apply Z.leb_gt in E. lia.
Qed.

Lemma basis_col_meaning_lemma :
  forall m cols, (forall j, basis_col m cols (Z.of_nat j) = nth_error cols j) /\
                 (forall r, (r < m)%nat -> basis_col m cols (- 1 - Z.of_nat r)%Z = Some (unit_vec m r)).
Proof. intros m cols. split. exact (basis_col_structural m cols). exact (basis_col_slack m cols). Qed.

(* ------------------------------------------------------------------ *)
(* the scaled form of the regular certificate (Binv = N / d)           *)
(* ------------------------------------------------------------------ *)
Lemma mat_vec_mscale : forall n a A x, veq (mat_vec n (mscale a A) x) (vscale a (mat_vec n A x)).
Proof.
  induction A as [|c A IH]; intros x; simpl.
  - apply veq_sym. apply vscale_vzero.
  - destruct x as [|b x].
    + apply veq_sym. apply vscale_vzero.
    + eapply veq_trans; [| apply veq_sym; apply vscale_vadd].
      apply vadd_veq; [| apply IH].
      clear. induction c; simpl; constructor. rewrite ?qmul_eq; ring. auto.
Qed.

Lemma vscale_inv_cancel : forall d v, ~ d == 0 -> veq (vscale (/ d) (vscale d v)) v.
Proof. intros d v Hd. induction v; simpl; constructor; auto. rewrite ?qmul_eq. field. auto. Qed.

Lemma cols_len_mscale : forall n a A, cols_len n A -> cols_len n (mscale a A).
Proof.
  intros n a A H. unfold cols_len, mscale in *. rewrite Forall_forall in *. intros c Hc.
  apply in_map_iff in Hc. destruct Hc as [c' [E Hc']]. subst. rewrite length_vscale. auto.
Qed.

Lemma meq_scaled_gen : forall d M I, ~ d == 0 -> meq M (mscale d I) -> meq (mscale (/ d) M) I.
Proof.
  intros d M. induction M as [|c M IH]; intros I Hd H; destruct I as [|e I]; simpl in *; inversion H; subst.
  - constructor.
  - constructor.
    + eapply veq_trans. apply vscale_veq. reflexivity. eassumption. apply vscale_inv_cancel; auto.
    + apply IH; auto.
Qed.

Lemma meq_scaled_ident : forall n d M, ~ d == 0 -> meq M (mscale d (ident n)) -> meq (mscale (/ d) M) (ident n).
Proof. intros. apply meq_scaled_gen; auto. Qed.

Lemma meq_trans : forall X Y Z, meq X Y -> meq Y Z -> meq X Z.
Proof.
  intros X Y Z E. revert Z. induction E; intros Z H0; inversion H0; subst; constructor.
  eapply veq_trans; eauto. apply IHE; auto.
Qed.

Lemma regular_cert_scaled_sound_lemma : forall n B N d,
  regular_cert_scaled n B N d = true -> regular_cert n B (mscale (/ d) N) = true.
Proof.
  intros n B N d H. unfold regular_cert_scaled in H.
  rewrite !andb_true_iff in H. destruct H as ((((H0 & H1) & H2) & H3) & H4).
  apply negb_true_iff in H0.
  assert (Hd : ~ d == 0). { intro E. apply Qeq_bool_iff in E. congruence. }
  pose proof H1 as W1. pose proof H2 as W2.
  apply wf_mat_iff in H1. apply wf_mat_iff in H2. destruct H1 as [LB CB]. destruct H2 as [LN CN].
  apply meqb_iff in H3. apply meqb_iff in H4.
  unfold regular_cert. rewrite !andb_true_iff. repeat split; auto.
  - apply wf_mat_iff. split. unfold mscale. rewrite map_length. auto. apply cols_len_mscale; auto.
  - apply meqb_iff.
    (* (N/d) B = (N B)/d *)
    assert (E : meq (mat_mul n (mscale (/ d) N) B) (mscale (/ d) (mat_mul n N B))).
    { unfold mat_mul, mscale at 2. clear. induction B; simpl; constructor; auto. apply mat_vec_mscale. }
    apply meq_scaled_ident in H3; auto. eapply meq_trans; eauto.
  - apply meqb_iff.
    assert (E : meq (mat_mul n B (mscale (/ d) N)) (mscale (/ d) (mat_mul n B N))).
    { unfold mat_mul, mscale. clear. induction N; simpl; constructor; auto. apply mat_vec_vscale. }
    apply meq_scaled_ident in H4; auto. eapply meq_trans; eauto.
Qed.

(* ------------------------------------------------------------------ *)
(* homogeneity: the checks scale the data of a query to integers       *)
(* ------------------------------------------------------------------ *)
Lemma vscale_cancel : forall c u v, ~ c == 0 -> veq (vscale c u) (vscale c v) -> veq u v.
Proof.
  intros c u. induction u as [|a u IH]; intros v Hc H; destruct v as [|b v]; simpl in H; inversion H; subst; constructor.
  - rewrite !qmul_eq in H3. apply (Qmult_inj_l a b c Hc). exact H3.
  - apply IH; auto.
Qed.

Lemma length_mscale : forall a A, length (mscale a A) = length A.
Proof. intros. unfold mscale. apply map_length. Qed.

Lemma cols_len_mscale_inv : forall n a A, cols_len n (mscale a A) -> cols_len n A.
Proof.
  intros n a A H. unfold cols_len, mscale in *. rewrite Forall_forall in *. intros c Hc.
  rewrite <- (length_vscale a c). apply H. apply in_map. auto.
Qed.

Lemma mat_vec_scaled : forall n B x s t,
  veq (mat_vec n (mscale s B) (vscale t x)) (vscale (s * t) (mat_vec n B x)).
Proof.
  intros. eapply veq_trans. apply mat_vec_mscale.
  eapply veq_trans. apply vscale_veq. reflexivity. apply mat_vec_vscale.
  apply veq_sym. apply vscale_vscale.
Qed.

Lemma check_solve_right_scale_lemma : forall n B x b s t, ~ s == 0 -> ~ t == 0 ->
  check_solve_right n (mscale s B) (vscale t x) (vscale (s * t) b) = check_solve_right n B x b.
Proof.
  intros n B x b s t Hs Ht. apply eq_true_iff_eq. rewrite !check_solve_right_unpack.
  rewrite length_mscale, length_vscale.
  assert (Hst : ~ s * t == 0). { intro E. apply Qmult_integral in E. tauto. }
  split; intros (L & C & Lx & S); repeat split; auto.
  - apply cols_len_mscale_inv in C; auto.
  - apply (vscale_cancel (s * t)); auto. eapply veq_trans; [| exact S]. apply veq_sym. apply mat_vec_scaled.
  - apply cols_len_mscale; auto.
  - eapply veq_trans. apply mat_vec_scaled. apply vscale_veq. reflexivity. auto.
Qed.

Lemma dot_vscale_l : forall a x y, dot (vscale a x) y == a * dot x y.
Proof. induction x; destruct y; simpl; try (rewrite ?qmul_eq; ring). rewrite IHx. rewrite ?qmul_eq; ring. Qed.

Lemma vec_mat_scaled : forall B x s t,
  veq (vec_mat (vscale t x) (mscale s B)) (vscale (s * t) (vec_mat x B)).
Proof.
  intros. unfold vec_mat, mscale. induction B as [|c B IH]; simpl; constructor; auto.
  rewrite dot_vscale_l, dot_vscale_r. rewrite ?qmul_eq; ring.
Qed.

Lemma check_solve_left_scale_lemma : forall n B x b s t, ~ s == 0 -> ~ t == 0 ->
  check_solve_left n (mscale s B) (vscale t x) (vscale (s * t) b) = check_solve_left n B x b.
Proof.
  intros n B x b s t Hs Ht. apply eq_true_iff_eq. rewrite !check_solve_left_unpack.
  rewrite length_mscale, length_vscale.
  assert (Hst : ~ s * t == 0). { intro E. apply Qmult_integral in E. tauto. }
  split; intros (L & C & Lx & S); repeat split; auto.
  - apply cols_len_mscale_inv in C; auto.
  - apply (vscale_cancel (s * t)); auto. eapply veq_trans; [| exact S]. apply veq_sym. apply vec_mat_scaled.
  - apply cols_len_mscale; auto.
  - eapply veq_trans. apply vec_mat_scaled. apply vscale_veq. reflexivity. auto.
Qed.

(* ---- tolerance version ---- *)
Lemma qmax_comp : forall a a' b b', a == a' -> b == b' -> qmax a b == qmax a' b'.
Proof.
  intros a a' b b' Ha Hb. unfold qmax.
  destruct (Qle_bool a b) eqn:E1; destruct (Qle_bool a' b') eqn:E2; auto.
  - apply Qle_bool_iff in E1. assert (~ a' <= b') by (intro K; apply Qle_bool_iff in K; congruence). lra.
  - apply Qle_bool_iff in E2. assert (~ a <= b) by (intro K; apply Qle_bool_iff in K; congruence). lra.
Qed.

Lemma norm_inf_veq : forall u v, veq u v -> norm_inf u == norm_inf v.
Proof. induction 1; simpl. reflexivity. apply qmax_comp; auto. rewrite H. reflexivity. Qed.

Lemma qmax_scale : forall c a b, 0 <= c -> qmax (c * a) (c * b) == c * qmax a b.
Proof.
  intros c a b Hc. unfold qmax.
  destruct (Qle_bool (c * a) (c * b)) eqn:E1; destruct (Qle_bool a b) eqn:E2; try reflexivity.
  - apply Qle_bool_iff in E1. assert (~ a <= b) by (intro K; apply Qle_bool_iff in K; congruence). nra.
  - apply Qle_bool_iff in E2. assert (~ c * a <= c * b) by (intro K; apply Qle_bool_iff in K; congruence). nra.
Qed.

Lemma norm_inf_vscale : forall c v, norm_inf (vscale c v) == Qabs c * norm_inf v.
Proof.
  induction v. simpl. ring.
  unfold vscale in *. cbn [map norm_inf fold_right] in *.
  rewrite qmul_eq. eapply Qeq_trans. apply qmax_comp. apply Qabs_Qmult. exact IHv.
  apply qmax_scale. apply Qabs_nonneg.
Qed.

Lemma vsub_vscale : forall c u v, veq (vsub (vscale c u) (vscale c v)) (vscale c (vsub u v)).
Proof. induction u; destruct v; simpl; constructor. rewrite !qmul_eq. ring. apply IHu. Qed.

Lemma abs_mat_mscale : forall s B, meq (abs_mat (mscale s B)) (mscale (Qabs s) (abs_mat B)).
Proof.
  intros. unfold abs_mat, mscale. induction B as [|c B IH]; simpl; constructor; auto.
  clear. unfold vscale. induction c as [|a c IHc]. constructor.
  cbn [map]. constructor; auto. rewrite !qmul_eq. apply Qabs_Qmult.
Qed.

Lemma Qabs_Qabs : forall a, Qabs (Qabs a) == Qabs a.
Proof. intros. apply Qabs_pos. apply Qabs_nonneg. Qed.

Lemma norm_inf_mat_mscale : forall n s B, norm_inf_mat n (mscale s B) == Qabs s * norm_inf_mat n B.
Proof.
  intros. unfold norm_inf_mat. rewrite length_mscale.
  eapply Qeq_trans. apply norm_inf_veq. eapply veq_trans. apply mat_vec_meq. apply abs_mat_mscale. apply mat_vec_mscale.
  rewrite norm_inf_vscale. rewrite Qabs_Qabs. reflexivity.
Qed.

Lemma vsum_abs_vscale : forall s c, vsum_abs (vscale s c) == Qabs s * vsum_abs c.
Proof.
  intros s c. unfold vscale. induction c as [|a c IHc]. simpl. ring.
  change (Qabs (qmul s a) + vsum_abs (map (fun c0 => qmul s c0) c) == Qabs s * (Qabs a + vsum_abs c)).
  rewrite qmul_eq, Qabs_Qmult, IHc. ring.
Qed.

Lemma norm_one_mat_mscale : forall s B, norm_one_mat (mscale s B) == Qabs s * norm_one_mat B.
Proof.
  intros. unfold norm_one_mat.
  assert (E : veq (map vsum_abs (mscale s B)) (vscale (Qabs s) (map vsum_abs B))).
  { unfold mscale. induction B; simpl; constructor; auto. rewrite qmul_eq. apply vsum_abs_vscale. }
  rewrite (norm_inf_veq _ _ E). rewrite norm_inf_vscale, Qabs_Qabs. reflexivity.
Qed.

Lemma wf_mat_mscale : forall n s B, wf_mat n (mscale s B) = wf_mat n B.
Proof.
  intros. apply eq_true_iff_eq. rewrite !wf_mat_iff, length_mscale. split; intros [L C]; split; auto.
  apply cols_len_mscale_inv in C; auto. apply cols_len_mscale; auto.
Qed.

Lemma wf_vec_vscale : forall n t x, wf_vec n (vscale t x) = wf_vec n x.
Proof. intros. unfold wf_vec. rewrite length_vscale. reflexivity. Qed.

Lemma Qle_bool_scale : forall c a b a' b', 0 < c -> a' == c * a -> b' == c * b -> Qle_bool a' b' = Qle_bool a b.
Proof.
  intros c a b a' b' Hc Ha Hb. apply eq_true_iff_eq. rewrite !Qle_bool_iff. rewrite Ha, Hb.
  apply Qmult_le_l. auto.
Qed.

Lemma check_residual_right_scale_lemma : forall n B x b eps s t, 0 < s -> 0 < t ->
  check_residual_right n (mscale s B) (vscale t x) (vscale (s * t) b) eps = check_residual_right n B x b eps.
Proof.
  intros n B x b eps s t Hs Ht. unfold check_residual_right.
  rewrite wf_mat_mscale, !wf_vec_vscale. f_equal.
  assert (Hst : 0 < s * t) by nra.
  assert (As : Qabs s == s) by (apply Qabs_pos; lra).
  assert (At : Qabs t == t) by (apply Qabs_pos; lra).
  assert (Ast : Qabs (s * t) == s * t) by (apply Qabs_pos; lra).
  apply (Qle_bool_scale (s * t)); auto.
  - unfold residual_right.
    rewrite (norm_inf_veq _ (vscale (s * t) (vsub (mat_vec n B x) b))).
    + rewrite norm_inf_vscale, Ast. reflexivity.
    + eapply veq_trans. apply vsub_veq. apply mat_vec_scaled. apply veq_refl. apply vsub_vscale.
  - unfold tol_right. rewrite norm_inf_mat_mscale, !norm_inf_vscale, As, At, Ast. ring.
Qed.

Lemma check_residual_left_scale_lemma : forall n B x b eps s t, 0 < s -> 0 < t ->
  check_residual_left n (mscale s B) (vscale t x) (vscale (s * t) b) eps = check_residual_left n B x b eps.
Proof.
  intros n B x b eps s t Hs Ht. unfold check_residual_left.
  rewrite wf_mat_mscale, !wf_vec_vscale. f_equal.
  assert (Hst : 0 < s * t) by nra.
  assert (As : Qabs s == s) by (apply Qabs_pos; lra).
  assert (At : Qabs t == t) by (apply Qabs_pos; lra).
  assert (Ast : Qabs (s * t) == s * t) by (apply Qabs_pos; lra).
  apply (Qle_bool_scale (s * t)); auto.
  - unfold residual_left.
    rewrite (norm_inf_veq _ (vscale (s * t) (vsub (vec_mat x B) b))).
    + rewrite norm_inf_vscale, Ast. reflexivity.
    + eapply veq_trans. apply vsub_veq. apply vec_mat_scaled. apply veq_refl. apply vsub_vscale.
  - unfold tol_left. rewrite norm_one_mat_mscale, !norm_inf_vscale, As, At, Ast. ring.
Qed.

Lemma check_close_scale_lemma : forall x y eps t, 0 < t ->
  check_close (vscale t x) (vscale t y) eps = check_close x y eps.
Proof.
  intros x y eps t Ht. unfold check_close. rewrite !length_vscale. f_equal.
  assert (At : Qabs t == t) by (apply Qabs_pos; lra).
  apply (Qle_bool_scale t); auto.
  - rewrite (norm_inf_veq _ _ (vsub_vscale t x y)). rewrite norm_inf_vscale, At. reflexivity.
  - rewrite !norm_inf_vscale, At. ring.
Qed.

Lemma residual_check_scale_invariant_lemma :
  forall n B x b eps s t, 0 < s -> 0 < t ->
  check_residual_right n (mscale s B) (vscale t x) (vscale (s * t) b) eps = check_residual_right n B x b eps /\
  check_residual_left n (mscale s B) (vscale t x) (vscale (s * t) b) eps = check_residual_left n B x b eps.
Proof. intros. split. apply check_residual_right_scale_lemma; auto. apply check_residual_left_scale_lemma; auto. Qed.

Lemma exact_check_scale_invariant_lemma :
  forall n B x b s t, ~ s == 0 -> ~ t == 0 ->
  check_solve_right n (mscale s B) (vscale t x) (vscale (s * t) b) = check_solve_right n B x b /\
  check_solve_left n (mscale s B) (vscale t x) (vscale (s * t) b) = check_solve_left n B x b.
Proof. intros. split. apply check_solve_right_scale_lemma; auto. apply check_solve_left_scale_lemma; auto. Qed.

(* ---------- the update protocol ---------- *)
Definition prep_current (s : pstate) : Prop := match p_prep s with Some (B, _) => B = p_mat s | None => True end.

Lemma p_step_prep_current s o : prep_current s -> prep_current (p_step s o).
Proof. destruct o; unfold prep_current; cbn; auto. Qed.

Lemma p_run_prep_current : forall ops s, prep_current s -> prep_current (p_run s ops).
Proof. induction ops as [|o ops IH]; intros s H; cbn; auto. apply IH. apply p_step_prep_current. exact H. Qed.

(* whatever the history, a change that relies on the prepared vector gets the vector prepared for the CURRENT matrix *)
Lemma change_uses_current_lemma : forall ops B0 o B v,
  change_uses (p_run {| p_mat := B0; p_prep := None |} ops) o = Some (B, v) ->
  B = p_mat (p_run {| p_mat := B0; p_prep := None |} ops).
Proof.
  intros ops B0 o B v H. pose proof (p_run_prep_current ops {| p_mat := B0; p_prep := None |} I) as P.
  unfold prep_current in P. destruct o as [| | |k w e]; cbn in H; try discriminate. destruct e; try discriminate.
  rewrite H in P. exact P.
Qed.

(* the protocol state follows the matrix of the specification state machine *)
Definition p_erase (o : p_op) : list lu_op :=
  match o with PLoad B => [OpLoad B] | PChange k v _ => [OpChange k v] | _ => [] end.

Lemma p_run_matrix_lemma : forall ops s, p_mat (p_run s ops) = lu_run (p_mat s) (flat_map p_erase ops).
Proof.
  induction ops as [|o ops IH]; intros s; [reflexivity|].
  change (p_run s (o :: ops)) with (p_run (p_step s o) ops). rewrite IH. unfold lu_run.
  cbn [flat_map]. rewrite fold_left_app. destruct o; cbn; reflexivity.
Qed.

Lemma usetup_after_lemma s o : usetup (p_step s o) = match o with PPrep _ => true | PSolve => usetup s | _ => false end.
Proof. destruct o; reflexivity. Qed.

(* if load() kept the prepared vector, a later change would use a vector prepared for another matrix *)
Lemma stale_load_refuted_lemma :
  exists ops o B v, let s := fold_left p_step_stale ops {| p_mat := [[1; 0]; [0; 1]]; p_prep := None |} in
    change_uses s o = Some (B, v) /\ B <> p_mat s.
Proof.
  exists [PPrep [1; 1]; PLoad [[2; 0]; [0; 1]]], (PChange 0 [3; 1] false), [[1; 0]; [0; 1]], [1; 1].
  cbn. split; [reflexivity | discriminate].
Qed.
