(* Extraction of the C06 model (ExtrOcamlBasic only: bool, option, unit, list, prod mapped to OCaml's;
   nat, positive, Z stay the extracted inductive types). *)
From Coq Require Extraction.
From Coq Require Import ExtrOcamlBasic ZArith List.
From SV Require Import Dbl LPOpsModel.

Extraction "../extract/C06/model.ml" init step modifies valid_op nrows ncols nnz uobj.
