(* C09 - model of SPxScaler (src/soplex/spxscaler.hpp) and of the scaling-aware parts of SPxLPBase.
   Two levels share one generic LP record and one generic "apply per-entry functions indexed by the
   row/column exponent" combinator:

   * the exact level: numbers are rationals (Q, setoid equality ==), infinite sides/bounds are the tags
     NInf / PInf of [ext]; multiplication by 2^k is exact for every integer k.  The property theorems that
     quantify over ALL LPs and ALL integer exponent vectors are stated here.
   * the binary64 level: numbers are the exchange type [dbl] of Dbl.v (mantissa * 2^exponent, +-inf, NaN),
     [ldexp_ieee] is ldexp on IEEE-754 binary64 (exact unless bits are shifted out below 2^-1074 - then round
     to nearest even - or the result reaches 2^1024 - then +-inf), "infinite" is what the code tests:
     [x < infinity] / [x > -infinity] with infinity = the double 1e100.  These functions are extracted and
     predict the stored LP bit for bit from (user LP, exponents read from the implementation).

   Conventions mirrored from the code (r_i row exponent, c_j column exponent):
     applyScaling: a_ij * 2^(c_j + r_i), maxRowObj_i * 2^r_i, rhs_i * 2^r_i if rhs_i < infinity,
                   lhs_i * 2^r_i if lhs_i > -infinity, maxObj_j * 2^c_j, upper_j * 2^-c_j if upper_j < infinity,
                   lower_j * 2^-c_j if lower_j > -infinity
     unscale:      the same with all exponents negated
     unscalePrimal / unscalePrimalray x_j * 2^c_j ; unscaleSlacks s_i * 2^-r_i ;
     unscaleDual / unscaleDualray y_i * 2^r_i ; unscaleRedCost d_j * 2^-c_j
     scaleObj v * 2^c_j ; scaleElement v * 2^(c_j + r_i) ; scaleLower / scaleUpper v * 2^-c_j ;
     scaleLhs / scaleRhs v * 2^r_i  (no infinity test inside; the single-index change* callers test, the
     vector change* callers and the vector get*Unscaled getters do not).
   The objective is modelled as stored (maxObj: the user's objective negated for MINIMIZE); negation commutes
   with multiplication by a power of two exactly.  The matrix is dense (list of rows): a structural zero stays
   zero under ldexp, so the sparse row file and column file of the code are two views of this matrix.
   No proofs in this file. *)
From Coq Require Import ZArith QArith List Bool.
From SV Require Import Dbl.
Import ListNotations.
Local Open Scope Z_scope.

(* ------------------------------------------------------------------------------------------------ *)
(* generic LP and exponent-indexed maps                                                              *)
(* ------------------------------------------------------------------------------------------------ *)

Record lpT (V B : Type) : Type := mkLP {
  obj  : list V;          (* maxObj, one per column *)
  lo   : list B;          (* lower bounds *)
  up   : list B;          (* upper bounds *)
  lhs  : list B;          (* left-hand sides, one per row *)
  rhs  : list B;          (* right-hand sides *)
  robj : list V;          (* maxRowObj *)
  mat  : list (list V)    (* rows of the constraint matrix *)
}.
Arguments mkLP {V B}.
Arguments obj {V B}. Arguments lo {V B}. Arguments up {V B}. Arguments lhs {V B}.
Arguments rhs {V B}. Arguments robj {V B}. Arguments mat {V B}.

(* entry k of the result is [f e_k x_k] with e_k the k-th exponent (0 when the exponent list is shorter) *)
Fixpoint map_exp {T : Type} (f : Z -> T -> T) (es : list Z) (v : list T) : list T :=
  match v with
  | [] => []
  | x :: v' => f (hd 0 es) x :: map_exp f (tl es) v'
  end.

Definition map_lp {V B : Type}
    (fobj : Z -> V -> V) (flo fup : Z -> B -> B) (flhs frhs : Z -> B -> B) (frobj : Z -> V -> V)
    (fa : Z -> Z -> V -> V) (r c : list Z) (p : lpT V B) : lpT V B :=
  mkLP (map_exp fobj c (obj p)) (map_exp flo c (lo p)) (map_exp fup c (up p))
       (map_exp flhs r (lhs p)) (map_exp frhs r (rhs p)) (map_exp frobj r (robj p))
       (map_exp (fun ri row => map_exp (fun cj a => fa ri cj a) c row) r (mat p)).

(* "every entry satisfies P with its exponent" *)
Fixpoint all_exp {T : Type} (P : Z -> T -> Prop) (es : list Z) (v : list T) : Prop :=
  match v with
  | [] => True
  | x :: v' => P (hd 0 es) x /\ all_exp P (tl es) v'
  end.

Definition lp_all {V B : Type}
    (pobj : Z -> V -> Prop) (plo pup : Z -> B -> Prop) (plhs prhs : Z -> B -> Prop) (probj : Z -> V -> Prop)
    (pa : Z -> Z -> V -> Prop) (r c : list Z) (p : lpT V B) : Prop :=
  all_exp pobj c (obj p) /\ all_exp plo c (lo p) /\ all_exp pup c (up p) /\
  all_exp plhs r (lhs p) /\ all_exp prhs r (rhs p) /\ all_exp probj r (robj p) /\
  all_exp (fun ri row => all_exp (fun cj a => pa ri cj a) c row) r (mat p).

(* entrywise relation between two LPs *)
Definition lp_rel {V B V' B' : Type} (RV : V -> V' -> Prop) (RB : B -> B' -> Prop) (p : lpT V B) (q : lpT V' B') : Prop :=
  Forall2 RV (obj p) (obj q) /\ Forall2 RB (lo p) (lo q) /\ Forall2 RB (up p) (up q) /\
  Forall2 RB (lhs p) (lhs q) /\ Forall2 RB (rhs p) (rhs q) /\ Forall2 RV (robj p) (robj q) /\
  Forall2 (Forall2 RV) (mat p) (mat q).

(* edits of an LP (the user's view of changeLower ... addRow / addCol) *)
Fixpoint set_nth {T : Type} (n : nat) (x : T) (l : list T) : list T :=
  match l, n with
  | [], _ => []
  | _ :: l', O => x :: l'
  | y :: l', S n' => y :: set_nth n' x l'
  end.

Definition set_obj {V B} (j : nat) (v : V) (p : lpT V B) :=
  mkLP (set_nth j v (obj p)) (lo p) (up p) (lhs p) (rhs p) (robj p) (mat p).
Definition set_lower {V B} (j : nat) (v : B) (p : lpT V B) :=
  mkLP (obj p) (set_nth j v (lo p)) (up p) (lhs p) (rhs p) (robj p) (mat p).
Definition set_upper {V B} (j : nat) (v : B) (p : lpT V B) :=
  mkLP (obj p) (lo p) (set_nth j v (up p)) (lhs p) (rhs p) (robj p) (mat p).
Definition set_lhs {V B} (i : nat) (v : B) (p : lpT V B) :=
  mkLP (obj p) (lo p) (up p) (set_nth i v (lhs p)) (rhs p) (robj p) (mat p).
Definition set_rhs {V B} (i : nat) (v : B) (p : lpT V B) :=
  mkLP (obj p) (lo p) (up p) (lhs p) (set_nth i v (rhs p)) (robj p) (mat p).
Definition set_elem {V B} (i j : nat) (v : V) (p : lpT V B) :=
  mkLP (obj p) (lo p) (up p) (lhs p) (rhs p) (robj p)
       (set_nth i (set_nth j v (nth i (mat p) [])) (mat p)).
(* whole vectors at once (the VectorBase overloads) *)
Definition set_lower_vec {V B} (v : list B) (p : lpT V B) :=
  mkLP (obj p) v (up p) (lhs p) (rhs p) (robj p) (mat p).
Definition set_upper_vec {V B} (v : list B) (p : lpT V B) :=
  mkLP (obj p) (lo p) v (lhs p) (rhs p) (robj p) (mat p).
Definition set_lhs_vec {V B} (v : list B) (p : lpT V B) :=
  mkLP (obj p) (lo p) (up p) v (rhs p) (robj p) (mat p).
Definition set_rhs_vec {V B} (v : list B) (p : lpT V B) :=
  mkLP (obj p) (lo p) (up p) (lhs p) v (robj p) (mat p).
Definition set_obj_vec {V B} (v : list V) (p : lpT V B) :=
  mkLP v (lo p) (up p) (lhs p) (rhs p) (robj p) (mat p).

Definition add_row {V B} (l u : B) (ro : V) (row : list V) (p : lpT V B) :=
  mkLP (obj p) (lo p) (up p) (lhs p ++ [l]) (rhs p ++ [u]) (robj p ++ [ro]) (mat p ++ [row]).

(* append one entry to every row; a missing entry of the new column is the given zero *)
Fixpoint snoc_col {V} (z : V) (rows : list (list V)) (col : list V) : list (list V) :=
  match rows with
  | [] => []
  | row :: rows' => (row ++ [hd z col]) :: snoc_col z rows' (tl col)
  end.
Definition add_col {V B} (z : V) (o : V) (l u : B) (col : list V) (p : lpT V B) :=
  mkLP (obj p ++ [o]) (lo p ++ [l]) (up p ++ [u]) (lhs p) (rhs p) (robj p) (snoc_col z (mat p) col).

(* dimensions agree with the exponent vectors *)
Definition lp_wf {V B} (r c : list Z) (p : lpT V B) : Prop :=
  length (obj p) = length c /\ length (lo p) = length c /\ length (up p) = length c /\
  length (lhs p) = length r /\ length (rhs p) = length r /\ length (robj p) = length r /\
  length (mat p) = length r /\ Forall (fun row => length row = length c) (mat p).

(* ------------------------------------------------------------------------------------------------ *)
(* exact level: Q and extended bounds                                                                *)
(* ------------------------------------------------------------------------------------------------ *)

Definition pow2 (k : Z) : Q := Qpower (2 # 1) k.
Definition qldexp (x : Q) (k : Z) : Q := (x * pow2 k)%Q.

Inductive ext : Type := NInf | Fin (q : Q) | PInf.

Definition ext_eq (a b : ext) : Prop :=
  match a, b with
  | NInf, NInf => True
  | PInf, PInf => True
  | Fin x, Fin y => (x == y)%Q
  | _, _ => False
  end.

(* infinite sides and bounds are left untouched *)
Definition ext_ldexp (x : ext) (k : Z) : ext :=
  match x with Fin q => Fin (qldexp q k) | _ => x end.

Definition lpQ := lpT Q ext.
Definition lp_eq (p q : lpQ) : Prop := lp_rel Qeq ext_eq p q.

Definition apply_scaling (r c : list Z) (p : lpQ) : lpQ :=
  map_lp (fun cj o => qldexp o cj)
         (fun cj l => ext_ldexp l (- cj)) (fun cj u => ext_ldexp u (- cj))
         (fun ri l => ext_ldexp l ri) (fun ri u => ext_ldexp u ri)
         (fun ri o => qldexp o ri)
         (fun ri cj a => qldexp a (cj + ri)) r c p.

Definition unscale (r c : list Z) (p : lpQ) : lpQ :=
  map_lp (fun cj o => qldexp o (- cj))
         (fun cj l => ext_ldexp l cj) (fun cj u => ext_ldexp u cj)
         (fun ri l => ext_ldexp l (- ri)) (fun ri u => ext_ldexp u (- ri))
         (fun ri o => qldexp o (- ri))
         (fun ri cj a => qldexp a (- cj - ri)) r c p.

(* the scale* functions applied to one new datum *)
Definition scaleObj (c : list Z) (j : nat) (v : Q) : Q := qldexp v (nth j c 0).
Definition scaleElement (r c : list Z) (i j : nat) (v : Q) : Q := qldexp v (nth j c 0 + nth i r 0).
Definition scaleLower (c : list Z) (j : nat) (v : ext) : ext := ext_ldexp v (- nth j c 0).
Definition scaleUpper (c : list Z) (j : nat) (v : ext) : ext := ext_ldexp v (- nth j c 0).
Definition scaleLhs (r : list Z) (i : nat) (v : ext) : ext := ext_ldexp v (nth i r 0).
Definition scaleRhs (r : list Z) (i : nat) (v : ext) : ext := ext_ldexp v (nth i r 0).
Definition scale_row (e : Z) (c : list Z) (row : list Q) : list Q := map_exp (fun cj a => qldexp a (cj + e)) c row.
Definition scale_col (e : Z) (r : list Z) (col : list Q) : list Q := map_exp (fun ri a => qldexp a (e + ri)) r col.

(* the *Unscaled getters on a stored (scaled) LP [s] *)
Definition coef {B} (s : lpT Q B) (i j : nat) : Q := nth j (nth i (mat s) []) 0%Q.
Definition coefUnscaled (r c : list Z) (s : lpQ) (i j : nat) : Q := qldexp (coef s i j) (- nth i r 0 - nth j c 0).
Definition maxObjUnscaled (c : list Z) (s : lpQ) (j : nat) : Q := qldexp (nth j (obj s) 0%Q) (- nth j c 0).
Definition lowerUnscaled (c : list Z) (s : lpQ) (j : nat) : ext := ext_ldexp (nth j (lo s) NInf) (nth j c 0).
Definition upperUnscaled (c : list Z) (s : lpQ) (j : nat) : ext := ext_ldexp (nth j (up s) PInf) (nth j c 0).
Definition lhsUnscaled (r : list Z) (s : lpQ) (i : nat) : ext := ext_ldexp (nth i (lhs s) NInf) (- nth i r 0).
Definition rhsUnscaled (r : list Z) (s : lpQ) (i : nat) : ext := ext_ldexp (nth i (rhs s) PInf) (- nth i r 0).
Definition getRowUnscaled (r c : list Z) (s : lpQ) (i : nat) : list Q :=
  map_exp (fun cj a => qldexp a (- cj - nth i r 0)) c (nth i (mat s) []).
Definition getColUnscaled (r c : list Z) (s : lpQ) (j : nat) : list Q :=
  map_exp (fun ri a => qldexp a (- ri - nth j c 0)) r (map (fun row => nth j row 0%Q) (mat s)).

(* solution unscale maps *)
Definition unscalePrimal (c : list Z) (x : list Q) : list Q := map_exp (fun cj v => qldexp v cj) c x.
Definition unscaleSlacks (r : list Z) (s : list Q) : list Q := map_exp (fun ri v => qldexp v (- ri)) r s.
Definition unscaleDual (r : list Z) (y : list Q) : list Q := map_exp (fun ri v => qldexp v ri) r y.
Definition unscaleRedCost (c : list Z) (d : list Q) : list Q := map_exp (fun cj v => qldexp v (- cj)) c d.
Definition unscalePrimalray (c : list Z) (x : list Q) : list Q := map_exp (fun cj v => qldexp v cj) c x.
Definition unscaleDualray (r : list Z) (y : list Q) : list Q := map_exp (fun ri v => qldexp v ri) r y.

(* linear algebra and feasibility over Q *)
Fixpoint dot (a x : list Q) : Q :=
  match a, x with
  | a0 :: a', x0 :: x' => (a0 * x0 + dot a' x')%Q
  | _, _ => 0%Q
  end.
Definition mat_vec (A : list (list Q)) (x : list Q) : list Q := map (fun row => dot row x) A.
(* (A^T y)_j *)
Definition col_dot (A : list (list Q)) (y : list Q) (j : nat) : Q := dot (map (fun row => nth j row 0%Q) A) y.

Definition within (l u : ext) (v : Q) : Prop :=
  match l with NInf => True | Fin q => (q <= v)%Q | PInf => False end /\
  match u with PInf => True | Fin q => (v <= q)%Q | NInf => False end.

Fixpoint all_within (ls us : list ext) (vs : list Q) : Prop :=
  match ls, us, vs with
  | l :: ls', u :: us', v :: vs' => within l u v /\ all_within ls' us' vs'
  | [], [], [] => True
  | _, _, _ => False
  end.

Definition feasible (p : lpQ) (x : list Q) : Prop :=
  all_within (lo p) (up p) x /\ all_within (lhs p) (rhs p) (mat_vec (mat p) x).

(* ------------------------------------------------------------------------------------------------ *)
(* binary64 level                                                                                    *)
(* ------------------------------------------------------------------------------------------------ *)

Definition EMIN : Z := -1074.          (* exponent of the smallest subnormal *)
Definition EOVER : Z := 1024.          (* 2^1024 overflows *)
Definition PREC : Z := 53.

(* m * 2^e (e < EMIN) rounded to a multiple of 2^EMIN, ties to even: the new mantissa *)
Definition round_to_grid (m e : Z) : Z :=
  let s := EMIN - e in
  let q := m / 2 ^ s in
  let rem := m mod 2 ^ s in
  let half := 2 ^ (s - 1) in
  if rem <? half then q
  else if half <? rem then q + 1
  else if Z.even q then q else q + 1.

(* ldexp on binary64; the argument is a double, i.e. |m| < 2^53 after normalisation.  The first two tests only keep
   the computation small for absurd exponents (the implementation can hand over garbage exponents): for
   e' >= 1024 the value m * 2^e' (m <> 0) overflows, and for e' < -1074 - log2|m| - 2 it is below a quarter of the
   smallest subnormal and rounds to zero; they agree with the general case (ldexp_shortcuts_agree in Scaling_Proofs.v). *)
Definition ldexp_ieee (x : dbl) (k : Z) : dbl :=
  match x with
  | DFin m e =>
    if m =? 0 then x
    else
      let e' := e + k in
      if EOVER <=? e' then (if 0 <? m then DPInf else DNInf)
      else if e' <? EMIN - Z.log2_up (Z.abs m) - 2 then DFin 0 EMIN
      else if e' <? EMIN then DFin (round_to_grid m e') EMIN
      else if 2 ^ (EOVER - EMIN) <=? Z.abs m * 2 ^ (e' - EMIN) then (if 0 <? m then DPInf else DNInf)
      else DFin m e'
  | _ => x
  end.

(* the same without the two shortcuts *)
Definition ldexp_ieee_plain (x : dbl) (k : Z) : dbl :=
  match x with
  | DFin m e =>
    if m =? 0 then x
    else
      let e' := e + k in
      if e' <? EMIN then DFin (round_to_grid m e') EMIN
      else if 2 ^ (EOVER - EMIN) <=? Z.abs m * 2 ^ (e' - EMIN) then (if 0 <? m then DPInf else DNInf)
      else DFin m e'
  | _ => x
  end.

(* the pair (m, e) denotes a binary64 value *)
Definition representable (m e : Z) : Prop :=
  m = 0 \/ (Z.abs m < 2 ^ PREC /\ EMIN <= e /\ Z.abs m * 2 ^ (e - EMIN) < 2 ^ (EOVER - EMIN)).

(* soplex::infinity = the double 1e100 *)
Definition INF_M : Z := 5147557589468029.
Definition INF_E : Z := 280.
Definition dinf : dbl := DFin INF_M INF_E.
Definition dninf : dbl := DFin (- INF_M) INF_E.

(* "if(v < infinity) v = ldexp(v, k)" and "if(v > -infinity) v = ldexp(v, k)" *)
Definition dl_upper (x : dbl) (k : Z) : dbl := if dlt x dinf then ldexp_ieee x k else x.
Definition dl_lower (x : dbl) (k : Z) : dbl := if dlt dninf x then ldexp_ieee x k else x.

Definition lpD := lpT dbl dbl.

Definition d_apply_scaling (r c : list Z) (p : lpD) : lpD :=
  map_lp (fun cj o => ldexp_ieee o cj)
         (fun cj l => dl_lower l (- cj)) (fun cj u => dl_upper u (- cj))
         (fun ri l => dl_lower l ri) (fun ri u => dl_upper u ri)
         (fun ri o => ldexp_ieee o ri)
         (fun ri cj a => ldexp_ieee a (cj + ri)) r c p.

Definition d_unscale (r c : list Z) (p : lpD) : lpD :=
  map_lp (fun cj o => ldexp_ieee o (- cj))
         (fun cj l => dl_lower l cj) (fun cj u => dl_upper u cj)
         (fun ri l => dl_lower l (- ri)) (fun ri u => dl_upper u (- ri))
         (fun ri o => ldexp_ieee o (- ri))
         (fun ri cj a => ldexp_ieee a (- cj - ri)) r c p.

(* single-index getters (test for infinity) *)
Definition d_lowerUnscaled (c : list Z) (s : lpD) (j : nat) : dbl := dl_lower (nth j (lo s) DNaN) (nth j c 0).
Definition d_upperUnscaled (c : list Z) (s : lpD) (j : nat) : dbl := dl_upper (nth j (up s) DNaN) (nth j c 0).
Definition d_lhsUnscaled (r : list Z) (s : lpD) (i : nat) : dbl := dl_lower (nth i (lhs s) DNaN) (- nth i r 0).
Definition d_rhsUnscaled (r : list Z) (s : lpD) (i : nat) : dbl := dl_upper (nth i (rhs s) DNaN) (- nth i r 0).
Definition d_maxObjUnscaled (c : list Z) (s : lpD) (j : nat) : dbl := ldexp_ieee (nth j (obj s) DNaN) (- nth j c 0).
Definition d_coefUnscaled (r c : list Z) (s : lpD) (i j : nat) : dbl :=
  ldexp_ieee (nth j (nth i (mat s) []) (DFin 0 0)) (- nth i r 0 - nth j c 0).
(* vector getters as written in the code: ldexp on every entry, no test for infinity *)
Definition d_getLowerUnscaled (c : list Z) (s : lpD) : list dbl := map_exp (fun cj v => ldexp_ieee v cj) c (lo s).
Definition d_getUpperUnscaled (c : list Z) (s : lpD) : list dbl := map_exp (fun cj v => ldexp_ieee v cj) c (up s).
Definition d_getLhsUnscaled (r : list Z) (s : lpD) : list dbl := map_exp (fun ri v => ldexp_ieee v (- ri)) r (lhs s).
Definition d_getRhsUnscaled (r : list Z) (s : lpD) : list dbl := map_exp (fun ri v => ldexp_ieee v (- ri)) r (rhs s).
Definition d_getMaxObjUnscaled (c : list Z) (s : lpD) : list dbl := map_exp (fun cj v => ldexp_ieee v (- cj)) c (obj s).
(* the getters as they should behave (test for infinity on every entry) *)
Definition d_getLowerUnscaled_guarded (c : list Z) (s : lpD) : list dbl := map_exp (fun cj v => dl_lower v cj) c (lo s).
Definition d_getUpperUnscaled_guarded (c : list Z) (s : lpD) : list dbl := map_exp (fun cj v => dl_upper v cj) c (up s).
Definition d_getLhsUnscaled_guarded (r : list Z) (s : lpD) : list dbl := map_exp (fun ri v => dl_lower v (- ri)) r (lhs s).
Definition d_getRhsUnscaled_guarded (r : list Z) (s : lpD) : list dbl := map_exp (fun ri v => dl_upper v (- ri)) r (rhs s).

(* scale* of one datum: plain ldexp (spxscaler.hpp); the single-index change* functions of SPxLPBase test for
   infinity before calling them, the vector change* functions do not *)
Definition d_scaleObj (c : list Z) (j : nat) (v : dbl) : dbl := ldexp_ieee v (nth j c 0).
Definition d_scaleElement (r c : list Z) (i j : nat) (v : dbl) : dbl := ldexp_ieee v (nth j c 0 + nth i r 0).
Definition d_scaleLower (c : list Z) (j : nat) (v : dbl) : dbl := ldexp_ieee v (- nth j c 0).
Definition d_scaleUpper (c : list Z) (j : nat) (v : dbl) : dbl := ldexp_ieee v (- nth j c 0).
Definition d_scaleLhs (r : list Z) (i : nat) (v : dbl) : dbl := ldexp_ieee v (nth i r 0).
Definition d_scaleRhs (r : list Z) (i : nat) (v : dbl) : dbl := ldexp_ieee v (nth i r 0).
Definition d_changeLower1 (c : list Z) (j : nat) (v : dbl) : dbl := dl_lower v (- nth j c 0).
Definition d_changeUpper1 (c : list Z) (j : nat) (v : dbl) : dbl := dl_upper v (- nth j c 0).
Definition d_changeLhs1 (r : list Z) (i : nat) (v : dbl) : dbl := dl_lower v (nth i r 0).
Definition d_changeRhs1 (r : list Z) (i : nat) (v : dbl) : dbl := dl_upper v (nth i r 0).
Definition d_changeLower_vec (c : list Z) (v : list dbl) : list dbl := map_exp (fun cj x => ldexp_ieee x (- cj)) c v.
Definition d_changeUpper_vec (c : list Z) (v : list dbl) : list dbl := map_exp (fun cj x => ldexp_ieee x (- cj)) c v.
Definition d_changeLhs_vec (r : list Z) (v : list dbl) : list dbl := map_exp (fun ri x => ldexp_ieee x ri) r v.
Definition d_changeRhs_vec (r : list Z) (v : list dbl) : list dbl := map_exp (fun ri x => ldexp_ieee x ri) r v.

(* solution unscale maps *)
Definition d_unscalePrimal (c : list Z) (x : list dbl) : list dbl := map_exp (fun cj v => ldexp_ieee v cj) c x.
Definition d_unscaleSlacks (r : list Z) (s : list dbl) : list dbl := map_exp (fun ri v => ldexp_ieee v (- ri)) r s.
Definition d_unscaleDual (r : list Z) (y : list dbl) : list dbl := map_exp (fun ri v => ldexp_ieee v ri) r y.
Definition d_unscaleRedCost (c : list Z) (d : list dbl) : list dbl := map_exp (fun cj v => ldexp_ieee v (- cj)) c d.
Definition d_unscalePrimalray (c : list Z) (x : list dbl) : list dbl := map_exp (fun cj v => ldexp_ieee v cj) c x.
Definition d_unscaleDualray (r : list Z) (y : list dbl) : list dbl := map_exp (fun ri v => ldexp_ieee v ri) r y.

(* guards of the bit-for-bit round trip: the datum is a double, and scaling by k shifts no bit out, does not
   overflow and does not move the datum across the infinity threshold *)
Definition fin_ok (m e k : Z) : Prop :=
  m = 0 \/ (EMIN <= e /\ EMIN <= e + k /\
            Z.abs m * 2 ^ (e - EMIN) < 2 ^ (EOVER - EMIN) /\ Z.abs m * 2 ^ (e + k - EMIN) < 2 ^ (EOVER - EMIN)).
Definition val_ok (x : dbl) (k : Z) : Prop :=
  match x with DFin m e => fin_ok m e k | _ => True end.
Definition upper_ok (x : dbl) (k : Z) : Prop :=
  match x with
  | DFin m e => fin_ok m e k /\ (dlt x dinf = true -> dlt (DFin m (e + k)) dinf = true)
  | _ => True
  end.
Definition lower_ok (x : dbl) (k : Z) : Prop :=
  match x with
  | DFin m e => fin_ok m e k /\ (dlt dninf x = true -> dlt dninf (DFin m (e + k)) = true)
  | _ => True
  end.

Definition d_in_range (r c : list Z) (p : lpD) : Prop :=
  lp_all (fun cj o => val_ok o cj)
         (fun cj l => lower_ok l (- cj)) (fun cj u => upper_ok u (- cj))
         (fun ri l => lower_ok l ri) (fun ri u => upper_ok u ri)
         (fun ri o => val_ok o ri)
         (fun ri cj a => val_ok a (cj + ri)) r c p.

(* denotation of a double LP at the exact level *)
Definition d2q (x : dbl) : Q :=
  match x with DFin m e => (inject_Z m * pow2 e)%Q | _ => 0%Q end.
Definition abs_upper (x : dbl) : ext :=
  match x with
  | DFin _ _ => if dlt x dinf then Fin (d2q x) else PInf
  | DNInf => NInf
  | _ => PInf
  end.
Definition abs_lower (x : dbl) : ext :=
  match x with
  | DFin _ _ => if dlt dninf x then Fin (d2q x) else NInf
  | DPInf => PInf
  | _ => NInf
  end.
Definition abs_lp (p : lpD) : lpQ :=
  mkLP (map d2q (obj p)) (map abs_lower (lo p)) (map abs_upper (up p))
       (map abs_lower (lhs p)) (map abs_upper (rhs p)) (map d2q (robj p)) (map (map d2q) (mat p)).
(* the result of scaling is a normal double: 2^-1022 <= |m * 2^e| (2^negative = 0 in Z, so the test is void for e > -1022) *)
Definition normal (m e : Z) : Prop := 2 ^ (-1022 - e) <= Z.abs m.
