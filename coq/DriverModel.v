(* The floating-point solve DRIVER of SoPlexBase<R> (model only; proofs in Driver_Proofs.v).

   Written from src/soplex/solvereal.hpp and src/soplex.hpp:
     _optimize, _reapplyPersistentScaling, _preprocessAndSolveReal, _evaluateSolutionReal, _resolveWithoutPreprocessing,
     _verifySolutionReal, _verifyObjLimitReal, _storeSolutionReal, _storeSolutionRealFromPresol, _loadRealLP,
     _unscaleSolutionReal, _enableSimplifierAndScaler, _disableSimplifierAndScaler.

   This is the code between the user's optimize() and the simplex engine: it decides whether the LP is copied, simplified,
   scaled, which of the undo maps (internal unscaling, unsimplify, persistent unscaling) are applied to the solver's answer,
   whether the answer is re-verified in the user's problem space, when the LP is solved again without preprocessing, and
   which proofs (ray / Farkas) are offered with the final status.  The simplifier, the scalers and the simplex engine are
   ORACLES: each inner solve reads one record [orec] (simplifier result, solver status, exceptions, verification bits).

   Every control decision emits the same record (code, a, b, c, d) that the guarded hook SOPLEX_VERIF_DRIVER_TRACE emits
   in the code; the correspondence check replays the oracle values observed in a real trace through this model and
   compares the two traces record by record. *)
From Coq Require Import ZArith List Bool.
Import ListNotations.
Local Open Scope Z_scope.

Inductive simp := S_OKAY | S_INFEASIBLE | S_DUAL_INFEASIBLE | S_UNBOUNDED | S_VANISHED.

Definition simp_code (s : simp) : Z :=
  match s with S_OKAY => 0 | S_INFEASIBLE => 1 | S_DUAL_INFEASIBLE => 2 | S_UNBOUNDED => 3 | S_VANISHED => 4 end.
Definition simp_of_code (z : Z) : simp :=
  if z =? 1 then S_INFEASIBLE else if z =? 2 then S_DUAL_INFEASIBLE else if z =? 3 then S_UNBOUNDED
  else if z =? 4 then S_VANISHED else S_OKAY.

(* SPxSolverBase<R>::Status; everything the driver does not distinguish is OTHER (ERROR, NO_PROBLEM, UNKNOWN, ...) *)
Inductive st :=
| OPTIMAL | UNBOUNDED | INFEASIBLE | INForUNBD | OPT_UNSCALED_VIOL
| SINGULAR | ABORT_VALUE | ABORT_CYCLING | ABORT_TIME | ABORT_ITER | REGULAR | RUNNING
| OTHER (code : Z).

Definition st_code (s : st) : Z :=
  match s with
  | OPTIMAL => 1 | UNBOUNDED => 2 | INFEASIBLE => 3 | INForUNBD => 4 | OPT_UNSCALED_VIOL => 5
  | SINGULAR => -4 | ABORT_VALUE => -5 | ABORT_CYCLING => -8 | ABORT_TIME => -7 | ABORT_ITER => -6
  | REGULAR => -2 | RUNNING => -1 | OTHER c => c
  end.
Definition st_of_code (z : Z) : st :=
  if z =? 1 then OPTIMAL else if z =? 2 then UNBOUNDED else if z =? 3 then INFEASIBLE else if z =? 4 then INForUNBD
  else if z =? 5 then OPT_UNSCALED_VIOL else if z =? -4 then SINGULAR else if z =? -5 then ABORT_VALUE
  else if z =? -8 then ABORT_CYCLING else if z =? -7 then ABORT_TIME else if z =? -6 then ABORT_ITER
  else if z =? -2 then REGULAR else if z =? -1 then RUNNING else OTHER z.

(* the parameters the driver reads *)
Record dparams := {
  p_simp      : bool;    (* intParam(SIMPLIFIER) != SIMPLIFIER_OFF *)
  p_scaler    : bool;    (* intParam(SCALER) != SCALER_OFF *)
  p_persist   : bool;    (* boolParam(PERSISTENTSCALING) *)
  p_ensureray : bool;    (* boolParam(ENSURERAY) *)
  p_objlim    : bool     (* OBJLIMIT_LOWER > -INFTY or OBJLIMIT_UPPER < INFTY *)
}.

(* what the oracles answer during ONE call of _preprocessAndSolveReal *)
Record orec := {
  o_simp      : simp;    (* result of _simplifier->simplify (read only when the simplifier is on) *)
  o_scaled    : bool;    (* _solver.isScaled() after _scaler->scale(_solver, false) (a scaler may decide not to scale) *)
  o_status    : st;      (* _solver.status() after the inner solve *)
  o_throw     : bool;    (* _simplifier->unsimplify throws *)
  o_vbits     : bool * bool * bool * bool;   (* bound / row / dual / reduced-cost violation >= tolerance *)
  o_dualfeas  : bool;    (* _verifyObjLimitReal: both violation getters succeeded *)
  o_cycstatus : st;      (* ABORT_CYCLING on the loaded unscaled LP: status after the primal/dual feasibility test *)
  o_resbasis  : bool     (* _resolveWithoutPreprocessing: unsimplify of the basis succeeded *)
}.

(* which transformations separate the LP in the simplex engine from the user's LP / the stored solution from user space *)
Record layers := { l_simp : bool; l_int : bool; l_pers : bool }.
Definition user_space : layers := {| l_simp := false; l_int := false; l_pers := false |}.
Definition is_user_space (l : layers) : bool := negb (l_simp l) && negb (l_int l) && negb (l_pers l).

Definition tev := (Z * Z * Z * Z * Z)%type.
Definition zb (b : bool) : Z := if b then 1 else 0.

Record dstate := {
  simp_on     : bool;    (* _simplifier != nullptr *)
  scaler_on   : bool;    (* _scaler != nullptr *)
  loaded      : bool;    (* _isRealLPLoaded *)
  scaled      : bool;    (* _isRealLPScaled ( = _realLP->isScaled() ) *)
  sol_scaled  : bool;    (* _solver.isScaled() *)
  intl        : bool;    (* ghost: the LP in the solver carries an internal scaling on top of _realLP *)
  has_basis   : bool;    (* _hasBasis *)
  status      : st;      (* _status *)
  has_sol     : bool;    (* _hasSolReal *)
  has_ray     : bool;    (* _solReal._hasPrimalRay *)
  has_farkas  : bool;    (* _solReal._hasDualFarkas *)
  apply_pol   : bool;    (* _applyPolishing *)
  objlim_en   : bool;    (* _solver.isTerminationValueEnabled() *)
  opt_calls   : Z;       (* _optimizeCalls *)
  unsc_calls  : Z;       (* _unscaleCalls *)
  sol_space   : layers;  (* ghost: the space the stored solution vectors live in *)
  sol_ok      : bool;    (* ghost: stored solution was computed on the user's LP itself or passed _verifySolutionReal *)
  frame       : nat;     (* number of _preprocessAndSolveReal calls so far in this optimize() *)
  trace       : list tev (* reversed *)
}.

Definition emit (c a b d e : Z) (s : dstate) : dstate :=
  {| simp_on := simp_on s; scaler_on := scaler_on s; loaded := loaded s; scaled := scaled s; sol_scaled := sol_scaled s;
     intl := intl s; has_basis := has_basis s; status := status s; has_sol := has_sol s; has_ray := has_ray s;
     has_farkas := has_farkas s; apply_pol := apply_pol s; objlim_en := objlim_en s; opt_calls := opt_calls s;
     unsc_calls := unsc_calls s; sol_space := sol_space s; sol_ok := sol_ok s; frame := frame s;
     trace := (c, a, b, d, e) :: trace s |}.

(* conditional record: the condition sits inside the field so that projections of the result always reduce *)
Definition emit_if (cnd : bool) (c a b d e : Z) (s : dstate) : dstate :=
  {| simp_on := simp_on s; scaler_on := scaler_on s; loaded := loaded s; scaled := scaled s; sol_scaled := sol_scaled s;
     intl := intl s; has_basis := has_basis s; status := status s; has_sol := has_sol s; has_ray := has_ray s;
     has_farkas := has_farkas s; apply_pol := apply_pol s; objlim_en := objlim_en s; opt_calls := opt_calls s;
     unsc_calls := unsc_calls s; sol_space := sol_space s; sol_ok := sol_ok s; frame := frame s;
     trace := if cnd then (c, a, b, d, e) :: trace s else trace s |}.

(* field updates (records are rebuilt explicitly so that the file needs no library beyond the standard one) *)
Definition set_tools (sm sc : bool) (s : dstate) : dstate :=
  {| simp_on := sm; scaler_on := sc; loaded := loaded s; scaled := scaled s; sol_scaled := sol_scaled s;
     intl := intl s; has_basis := has_basis s; status := status s; has_sol := has_sol s; has_ray := has_ray s;
     has_farkas := has_farkas s; apply_pol := apply_pol s; objlim_en := objlim_en s; opt_calls := opt_calls s;
     unsc_calls := unsc_calls s; sol_space := sol_space s; sol_ok := sol_ok s; frame := frame s; trace := trace s |}.
Definition set_lp (ld sc ss il : bool) (s : dstate) : dstate :=
  {| simp_on := simp_on s; scaler_on := scaler_on s; loaded := ld; scaled := sc; sol_scaled := ss;
     intl := il; has_basis := has_basis s; status := status s; has_sol := has_sol s; has_ray := has_ray s;
     has_farkas := has_farkas s; apply_pol := apply_pol s; objlim_en := objlim_en s; opt_calls := opt_calls s;
     unsc_calls := unsc_calls s; sol_space := sol_space s; sol_ok := sol_ok s; frame := frame s; trace := trace s |}.
Definition set_basis (b : bool) (s : dstate) : dstate :=
  {| simp_on := simp_on s; scaler_on := scaler_on s; loaded := loaded s; scaled := scaled s; sol_scaled := sol_scaled s;
     intl := intl s; has_basis := b; status := status s; has_sol := has_sol s; has_ray := has_ray s;
     has_farkas := has_farkas s; apply_pol := apply_pol s; objlim_en := objlim_en s; opt_calls := opt_calls s;
     unsc_calls := unsc_calls s; sol_space := sol_space s; sol_ok := sol_ok s; frame := frame s; trace := trace s |}.
Definition set_status (t : st) (s : dstate) : dstate :=
  {| simp_on := simp_on s; scaler_on := scaler_on s; loaded := loaded s; scaled := scaled s; sol_scaled := sol_scaled s;
     intl := intl s; has_basis := has_basis s; status := t; has_sol := has_sol s; has_ray := has_ray s;
     has_farkas := has_farkas s; apply_pol := apply_pol s; objlim_en := objlim_en s; opt_calls := opt_calls s;
     unsc_calls := unsc_calls s; sol_space := sol_space s; sol_ok := sol_ok s; frame := frame s; trace := trace s |}.
Definition set_sol (hs hr hf : bool) (sp : layers) (ok : bool) (s : dstate) : dstate :=
  {| simp_on := simp_on s; scaler_on := scaler_on s; loaded := loaded s; scaled := scaled s; sol_scaled := sol_scaled s;
     intl := intl s; has_basis := has_basis s; status := status s; has_sol := hs; has_ray := hr;
     has_farkas := hf; apply_pol := apply_pol s; objlim_en := objlim_en s; opt_calls := opt_calls s;
     unsc_calls := unsc_calls s; sol_space := sp; sol_ok := ok; frame := frame s; trace := trace s |}.
Definition set_flags (ap ol : bool) (s : dstate) : dstate :=
  {| simp_on := simp_on s; scaler_on := scaler_on s; loaded := loaded s; scaled := scaled s; sol_scaled := sol_scaled s;
     intl := intl s; has_basis := has_basis s; status := status s; has_sol := has_sol s; has_ray := has_ray s;
     has_farkas := has_farkas s; apply_pol := ap; objlim_en := ol; opt_calls := opt_calls s;
     unsc_calls := unsc_calls s; sol_space := sol_space s; sol_ok := sol_ok s; frame := frame s; trace := trace s |}.
Definition set_counts (oc uc : Z) (fr : nat) (s : dstate) : dstate :=
  {| simp_on := simp_on s; scaler_on := scaler_on s; loaded := loaded s; scaled := scaled s; sol_scaled := sol_scaled s;
     intl := intl s; has_basis := has_basis s; status := status s; has_sol := has_sol s; has_ray := has_ray s;
     has_farkas := has_farkas s; apply_pol := apply_pol s; objlim_en := objlim_en s; opt_calls := oc;
     unsc_calls := uc; sol_space := sol_space s; sol_ok := sol_ok s; frame := fr; trace := trace s |}.

Inductive res :=
| Done (s : dstate)
| OutOfFuel
| Impossible (s : dstate).   (* the oracle answered ABORT_VALUE although the objective limit was switched off for that solve *)

Definition bind (r : res) (k : dstate -> res) : res := match r with Done s => k s | other => other end.

Section Driver.
Variable P : dparams.
Variable orc : nat -> orec.

(* the recursive call _preprocessAndSolveReal(applySimplifier) *)
Variable rec : bool -> dstate -> res.

(* _loadRealLP(initBasis): afterwards the solver holds _realLP itself *)
Definition load_real (init : bool) (s : dstate) : dstate :=
  let s := emit 35 (zb init) 0 0 0 s in
  set_lp true (scaled s) (scaled s) false s.

(* _solver.unscaleLPandReloadBasis(); _isRealLPScaled = false; ++_unscaleCalls   (the LP is loaded at these places) *)
Definition unscale_lp (s : dstate) : dstate :=
  let s := set_lp (loaded s) false (if loaded s then false else sol_scaled s) (intl s) s in
  set_counts (opt_calls s) (unsc_calls s + 1) (frame s) s.

Definition load_real_if (cnd init : bool) (s : dstate) : dstate :=
  let s := emit_if cnd 35 (zb init) 0 0 0 s in
  set_lp (if cnd then true else loaded s) (scaled s) (if cnd then scaled s else sol_scaled s) (if cnd then false else intl s) s.

Definition unscale_lp_if (cnd : bool) (s : dstate) : dstate :=
  let s := set_lp (loaded s) (if cnd then false else scaled s)
                  (if cnd then (if loaded s then false else sol_scaled s) else sol_scaled s) (intl s) s in
  set_counts (opt_calls s) (if cnd then unsc_calls s + 1 else unsc_calls s) (frame s) s.

Definition any_viol (v : bool * bool * bool * bool) : bool :=
  match v with (a, b, c, d) => a || b || c || d end.

(* _verifySolutionReal *)
Definition verify_sol (o : orec) (s : dstate) : res :=
  match o_vbits o with (b1, b2, b3, b4) =>
    let s := emit 40 (zb b1) (zb b2) (zb b3) (zb b4) s in
    if any_viol (o_vbits o) then
      let s := emit 41 (zb (scaled s)) 0 0 0 s in
      rec false (unscale_lp_if (scaled s) s)
    else Done (set_sol (has_sol s) (has_ray s) (has_farkas s) (sol_space s) true s)
  end.

(* _verifyObjLimitReal *)
Definition verify_obj (o : orec) (s : dstate) : res :=
  match o_vbits o with (_, _, b3, b4) =>
    let s := emit 42 (zb (o_dualfeas o)) (zb b3) (zb b4) (zb (scaled s)) s in
    if negb (o_dualfeas o) || b3 || b4 then
      let tog := negb (scaler_on s) && negb (simp_on s) in
      let s := set_flags (apply_pol s) (if tog then false else objlim_en s) (emit_if tog 43 0 0 0 0 s) in
      rec false (unscale_lp_if (negb tog && scaled s) s)
    else Done s
  end.

(* _storeSolutionReal(verify) *)
Definition store (o : orec) (verify : bool) (s : dstate) : res :=
  let s := emit 30 (zb verify) (zb (loaded s)) (zb (scaled s)) (zb (sol_scaled s)) s in
  let ray := match status s with UNBOUNDED => loaded s | _ => false end in
  let far := match status s with INFEASIBLE => loaded s | _ => false end in
  let s := emit 31 (zb ray) (zb far) (zb (simp_on s)) (zb (negb (loaded s))) s in
  (* the solver's answer lives in the space of the LP in the solver *)
  let sp0 := {| l_simp := simp_on s; l_int := intl s; l_pers := scaled s |} in
  let direct := is_user_space sp0 in
  let s := set_basis true (set_sol true ray far sp0 false s) in
  (* internal unscaling *)
  let do_int := sol_scaled s && negb (loaded s) in
  let s := emit_if do_int 34 0 0 0 0 s in
  let sp1 := {| l_simp := l_simp sp0; l_int := if do_int then false else l_int sp0; l_pers := l_pers sp0 |} in
  if simp_on s && o_throw o then
    rec false (set_basis false (emit 32 0 0 0 0 (set_sol true ray far sp1 false s)))
  else
    let sp2 := {| l_simp := false; l_int := l_int sp1; l_pers := l_pers sp1 |} in
    let s := load_real_if (simp_on s || negb (loaded s)) false s in
    let s := emit 33 (zb (loaded s)) (zb (scaled s)) (zb (has_basis s)) 0 s in
    let s := emit_if (scaled s) 34 1 0 0 0 s in
    let sp3 := {| l_simp := l_simp sp2; l_int := l_int sp2; l_pers := false |} in
    let s := set_sol true ray far sp3 direct s in
    if verify then
      match status s with ABORT_VALUE => verify_obj o s | _ => verify_sol o s end
    else Done s.

(* _storeSolutionRealFromPresol *)
Definition store_from_presol (o : orec) (s : dstate) : res :=
  let s := emit 60 0 0 0 0 s in
  let s := load_real true s in
  if o_throw o then rec false (emit 61 0 0 0 0 s)
  else
    let s := emit_if (scaled s) 34 1 0 0 0 s in
    let s := set_basis true (set_sol true (has_ray s) (has_farkas s) user_space false s) in
    verify_sol o s.

(* _resolveWithoutPreprocessing *)
Definition resolve (o : orec) (s : dstate) : res :=
  let s := emit 50 (zb (simp_on s)) (zb (scaler_on s)) 0 0 s in
  let s := set_basis (if simp_on s then o_resbasis o else if scaler_on s then true else has_basis s) s in
  let s := emit 51 (zb (has_basis s)) 0 0 0 s in
  rec false s.

(* _evaluateSolutionReal(simplificationStatus); [en] = was the objective limit enabled for the inner solve *)
Definition evaluate (o : orec) (sres : simp) (en : bool) (s : dstate) : res :=
  let s := emit 20 (simp_code sres) (st_code (o_status o)) (zb (loaded s)) (zb (scaled s)) s in
  match sres with
  | S_INFEASIBLE | S_DUAL_INFEASIBLE | S_UNBOUNDED =>
    let s := set_basis false s in
    if p_ensureray P then rec false (emit 21 0 0 0 0 s)
    else
      let t := match sres with S_INFEASIBLE => INFEASIBLE | S_UNBOUNDED => UNBOUNDED | _ => INForUNBD end in
      let s := set_status t s in
      Done (load_real false (emit 22 (st_code t) 0 0 0 s))
  | S_VANISHED =>
    store_from_presol o (set_status OPTIMAL (emit 23 0 0 0 0 s))
  | S_OKAY =>
    let s := set_status (o_status o) s in
    match o_status o with
    | OPTIMAL =>
      bind (store o (negb (loaded s) || scaled s) s)
           (fun s' => if apply_pol s' then rec false (emit 24 0 0 0 0 s') else Done s')
    | UNBOUNDED | INFEASIBLE | INForUNBD =>
      if negb (loaded s) && p_ensureray P then resolve o (emit 25 0 0 0 0 s)
      else store o false s
    | SINGULAR =>
      if negb (loaded s) then rec false (emit 26 0 0 0 0 s) else Done (set_basis false s)
    | ABORT_VALUE =>
      if en then store o true s else Impossible s
    | ABORT_CYCLING =>
      if negb (loaded s) || scaled s then store o true (emit 27 0 0 0 0 s)
      else
        let s := set_status (o_cycstatus o) s in
        store o false (emit 28 (st_code (o_cycstatus o)) 0 0 0 s)
    | ABORT_TIME | ABORT_ITER | REGULAR | RUNNING => store o false s
    | OPT_UNSCALED_VIOL | OTHER _ => Done (set_basis false s)
    end
  end.

(* _preprocessAndSolveReal(applySimplifier), up to the call of _evaluateSolutionReal: a straight-line state update.
   [o] = the oracle record of this call. *)
Definition is_okay (r : simp) : bool := match r with S_OKAY => true | _ => false end.

Definition pas_sres (apply : bool) (o : orec) : simp := if apply && p_simp P then o_simp o else S_OKAY.

Definition pas_setup (apply : bool) (o : orec) (s : dstate) : dstate :=
  let s := emit 10 (zb apply) (zb (loaded s)) (zb (scaled s)) (zb (has_basis s)) s in
  let s := set_counts (opt_calls s) (unsc_calls s) (S (frame s)) s in
  let s := set_flags false (objlim_en s) s in
  (* _enableSimplifierAndScaler / _disableSimplifierAndScaler *)
  let s := set_tools (apply && p_simp P)
                     (if apply then p_scaler P else if scaled s then scaler_on s else false) s in
  let copyLP := simp_on s || (scaler_on s && negb (scaled s)) in
  let s := emit 11 (zb (simp_on s)) (zb (scaler_on s)) (zb copyLP) (zb (objlim_en s)) s in
  let s := set_flags (apply_pol s) true s in
  (* afterwards the solver holds _realLP itself (loaded) or a copy of it *)
  let s := set_lp (negb copyLP) (scaled s) (scaled s) false s in
  let sres := pas_sres apply o in
  let s := emit_if (simp_on s) 12 (simp_code sres) 0 0 0 s in
  let s := set_lp (loaded s) (scaled s) (if simp_on s then false else sol_scaled s) (intl s) s in
  let s := set_flags (simp_on s) (objlim_en s) s in
  (* run the simplex method only if the simplifier has not decided the LP *)
  let sc := is_okay sres && scaler_on s && negb (sol_scaled s) in
  let s := set_lp (loaded s) (scaled s) (if sc then o_scaled o else sol_scaled s) (if sc then o_scaled o else false) s in
  emit_if (is_okay sres) 14 (zb (sol_scaled s)) (zb (loaded s)) 0 0 s.

Definition pas_body (apply : bool) (s : dstate) : res :=
  let o := orc (frame s) in
  evaluate o (pas_sres apply o) (objlim_en s) (pas_setup apply o s).

End Driver.

Fixpoint pas (P : dparams) (orc : nat -> orec) (fuel : nat) (apply : bool) (s : dstate) : res :=
  match fuel with
  | O => OutOfFuel
  | S f => pas_body P orc (pas P orc f) apply s
  end.

(* _reapplyPersistentScaling:  !(_unscaleCalls > _optimizeCalls * 0.1 && _optimizeCalls > 10) *)
Definition reapply (s : dstate) : bool := negb ((opt_calls s <? unsc_calls s * 10) && (10 <? opt_calls s)).

(* _optimize; [oscaled] = _realLP->isScaled() after _scaler->scale( * _realLP, true) *)
Definition optimize (P : dparams) (orc : nat -> orec) (oscaled : bool) (fuel : nat) (s0 : dstate) : res :=
  let s := set_sol false false false user_space false s0 in
  let s := set_counts (opt_calls s + 1) (unsc_calls s) O s in
  let s := emit 1 (zb (scaled s)) (zb (scaler_on s)) (zb (p_persist P)) (zb (has_basis s)) s in
  let s := emit 4 (opt_calls s) (unsc_calls s) (zb (loaded s)) (zb (scaled s)) s in
  let uns := scaled s && (negb (scaler_on s) || negb (p_persist P)) in
  let rsc := negb uns && p_persist P && scaler_on s && negb (scaled s) && reapply s in
  let s := unscale_lp_if uns (emit_if uns 2 0 0 0 0 s) in
  let s := set_lp (loaded s) (if rsc then oscaled else scaled s)
                  (if rsc then (if loaded s then oscaled else sol_scaled s) else sol_scaled s) (intl s) s in
  let s := emit_if rsc 3 (zb oscaled) 0 0 0 s in
  let s := emit 5 (zb (loaded s)) (zb (scaled s)) (zb (scaler_on s)) (zb (has_basis s)) s in
  pas P orc fuel (negb (has_basis s) && negb (p_objlim P)) s.

(* enough fuel for every oracle (Driver_Proofs.driver_terminates) *)
Definition FUEL : nat := 5.
