(* C12 - record-level LP and the normalisations the LP / MPS writers apply.

   An LP is a sense, an objective offset, columns (objective, lower, upper) and rows (lhs, dense coefficient list,
   rhs); an absent side ([None]) is infinite.  [feasible], [objective], [optimal], [equiv_lp].
   Writer normalisations (src/soplex/spxlpbase_real.hpp / spxlpbase_rational.hpp):
     [split_ranges]     LPFwriteRows: a ranged row (both sides finite, lhs <> rhs) becomes  name_1 (>= lhs), name_2 (<= rhs);
     [mps_max_to_min]   writeMPS always writes "N MINIMIZE" with -maxObj: a maximisation problem is written negated;
     [drop_offset]      neither writer emits the objective offset;
     [drop_unused]      without writeZeroObjective a column with zero cost and no row entry appears nowhere in the
                        COLUMNS section / objective / rows, and its Bounds lines are ignored by the readers.
   No proofs in this file. *)
From Coq Require Import ZArith QArith Bool List.
Import ListNotations.
Local Open Scope Q_scope.

Inductive sense := Min | Max.

Record col := mkCol { c_obj : Q; c_lo : option Q; c_up : option Q }.       (* None: -infinity resp. +infinity *)
Record row := mkRow { r_lhs : option Q; r_coefs : list Q; r_rhs : option Q }.
Record lp := mkLP { l_sense : sense; l_offset : Q; l_cols : list col; l_rows : list row }.

Fixpoint dot (a x : list Q) : Q :=
  match a, x with
  | c :: a', v :: x' => c * v + dot a' x'
  | _, _ => 0
  end.

Definition lo_ok (lo : option Q) (v : Q) : Prop := match lo with None => True | Some l => l <= v end.
Definition up_ok (up : option Q) (v : Q) : Prop := match up with None => True | Some u => v <= u end.

Definition col_ok (c : col) (v : Q) : Prop := lo_ok (c_lo c) v /\ up_ok (c_up c) v.
Definition row_ok (x : list Q) (r : row) : Prop :=
  lo_ok (r_lhs r) (dot (r_coefs r) x) /\ up_ok (r_rhs r) (dot (r_coefs r) x).

Definition feasible (p : lp) (x : list Q) : Prop :=
  Forall2 col_ok (l_cols p) x /\ Forall (row_ok x) (l_rows p).

Definition objective (p : lp) (x : list Q) : Q := l_offset p + dot (map c_obj (l_cols p)) x.

Definition better (s : sense) (a b : Q) : Prop := match s with Min => a <= b | Max => b <= a end.

Definition optimal (p : lp) (x : list Q) : Prop :=
  feasible p x /\ forall y, feasible p y -> better (l_sense p) (objective p x) (objective p y).

(* same sense, same feasible set, same objective function *)
Definition equiv_lp (a b : lp) : Prop :=
  l_sense a = l_sense b /\ (forall x, feasible a x <-> feasible b x) /\ (forall x, objective a x == objective b x).

(* ---------------------------------------------------------------- LP format: ranged rows are split *)

Definition is_ranged (r : row) : bool :=
  match r_lhs r, r_rhs r with
  | Some l, Some u => negb (Qeq_bool l u)
  | _, _ => false
  end.

Definition split_row (r : row) : list row :=
  if is_ranged r then [mkRow (r_lhs r) (r_coefs r) None; mkRow None (r_coefs r) (r_rhs r)] else [r].

Definition split_ranges (p : lp) : lp :=
  mkLP (l_sense p) (l_offset p) (l_cols p) (flat_map split_row (l_rows p)).

(* ---------------------------------------------------------------- MPS format: always a minimisation problem *)

Definition neg_col (c : col) : col := mkCol (- c_obj c) (c_lo c) (c_up c).

Definition mps_max_to_min (p : lp) : lp :=
  match l_sense p with
  | Min => p
  | Max => mkLP Min (- l_offset p) (map neg_col (l_cols p)) (l_rows p)
  end.

(* ---------------------------------------------------------------- both formats: the offset is not written *)

Definition drop_offset (p : lp) : lp := mkLP (l_sense p) 0 (l_cols p) (l_rows p).

(* ---------------------------------------------------------------- columns that appear nowhere are lost *)

Fixpoint mask {A} (keep : list bool) (l : list A) : list A :=
  match keep, l with
  | k :: keep', a :: l' => if k then a :: mask keep' l' else mask keep' l'
  | _, _ => []
  end.

Fixpoint nth_zero (j : nat) (a : list Q) : bool :=
  match j, a with
  | O, c :: _ => Qeq_bool c 0
  | S j', _ :: a' => nth_zero j' a'
  | _, [] => true
  end.

(* column j is used: non-zero cost or an entry in some row *)
Definition col_used (p : lp) (j : nat) (c : col) : bool :=
  negb (Qeq_bool (c_obj c) 0) || existsb (fun r => negb (nth_zero j (r_coefs r))) (l_rows p).

Fixpoint used_from (p : lp) (j : nat) (cs : list col) : list bool :=
  match cs with
  | [] => []
  | c :: cs' => col_used p j c :: used_from p (S j) cs'
  end.

Definition used_mask (p : lp) : list bool := used_from p O (l_cols p).

Definition drop_cols (keep : list bool) (p : lp) : lp :=
  mkLP (l_sense p) (l_offset p) (mask keep (l_cols p))
       (map (fun r => mkRow (r_lhs r) (mask keep (r_coefs r)) (r_rhs r)) (l_rows p)).

Definition drop_unused (p : lp) : lp := drop_cols (used_mask p) p.

(* ---------------------------------------------------------------- what a re-read file contains *)

(* writeLPF then readLPF; [wzo] = writeZeroObjective *)
Definition lpf_image (wzo : bool) (p : lp) : lp :=
  let q := drop_offset (split_ranges p) in if wzo then q else drop_unused q.

(* writeMPS then readMPS *)
Definition mps_image (wzo : bool) (p : lp) : lp :=
  let q := drop_offset (mps_max_to_min p) in if wzo then q else drop_unused q.

(* bounds of the dropped columns allow a value: needed to extend a point of the reduced LP *)
Definition bounds_nonempty (c : col) : Prop :=
  match c_lo c, c_up c with Some l, Some u => l <= u | _, _ => True end.

Definition pick (c : col) : Q :=
  match c_lo c, c_up c with Some l, _ => l | None, Some u => u | None, None => 0 end.

(* re-insert values for dropped columns *)
Fixpoint unmask (keep : list bool) (cs : list col) (x : list Q) : list Q :=
  match keep, cs with
  | k :: keep', c :: cs' =>
      if k then match x with v :: x' => v :: unmask keep' cs' x' | [] => pick c :: unmask keep' cs' [] end
      else pick c :: unmask keep' cs' x
  | _, _ => []
  end.
