(* C12 - model of SPxLPBase<R>::buildDualProblem (src/soplex/spxlpbase_real.hpp), the LP that writeDualFileReal writes.
   Definitions only; proofs in Dual_Proofs.v.

   The dual LP has one ROW per primal column and the following COLUMNS, in this order:
     - for every primal column with a bound that is neither infinite nor zero: one column per such bound ("variable-bound
       columns", in the order of the primal columns; a fixed variable gets two), with the unit vector of the column's row;
     - for every primal row: one column (two for a ranged row), with the row's coefficient vector.
   The sense is flipped; the objective offset is not carried over. *)
From Coq Require Import ZArith QArith Bool List.
From SV Require Import LPFileModel.
Import ListNotations.
Local Open Scope Q_scope.

Definition flip (s : sense) : sense := match s with Min => Max | Max => Min end.

Definition qz (q : Q) : bool := Qeq_bool q 0.

(* a dual column before its coefficient vector is known: (objective, lower, upper) *)
Definition dcol := (Q * option Q * option Q)%type.
Definition nonneg (b : Q) : dcol := (b, Some 0, None).
Definition nonpos (b : Q) : dcol := (b, None, Some 0).

(* for one primal column: the sides of its dual row and its variable-bound columns *)
Definition col_dual (s : sense) (c : col) : (option Q * option Q) * list dcol :=
  let o := c_obj c in
  match c_lo c, c_up c with
  | None, None => ((Some o, Some o), [])
  | None, Some u =>
    if qz u then (match s with Min => (Some o, None) | Max => (None, Some o) end, [])
    else ((Some o, Some o), [match s with Min => nonpos u | Max => nonneg u end])
  | Some l, None =>
    if qz l then (match s with Min => (None, Some o) | Max => (Some o, None) end, [])
    else ((Some o, Some o), [match s with Min => nonneg l | Max => nonpos l end])
  | Some l, Some u =>
    if negb (Qeq_bool l u) then
      if qz l then (match s with Min => (None, Some o) | Max => (Some o, None) end,
                    [match s with Min => nonpos u | Max => nonneg u end])
      else if qz u then (match s with Min => (Some o, None) | Max => (None, Some o) end,
                         [match s with Min => nonneg l | Max => nonpos l end])
      else ((Some o, Some o),
            match s with Min => [nonneg l; nonpos u] | Max => [nonpos l; nonneg u] end)
    else ((Some o, Some o), [nonneg l; nonpos l])
  end.

(* for one primal row: its dual columns (all with the row's coefficient vector) *)
Definition row_dual (s : sense) (r : row) : list dcol :=
  match r_lhs r, r_rhs r with
  | None, None => [(0, Some 0, Some 0)]                                  (* free row: multiplier fixed at zero *)
  | Some l, None => [match s with Min => nonneg l | Max => nonpos l end]  (* GREATER_EQUAL *)
  | None, Some u => [match s with Min => nonpos u | Max => nonneg u end]  (* LESS_EQUAL *)
  | Some l, Some u =>
    if Qeq_bool l u then [(u, None, None)]                               (* EQUAL *)
    else match s with Min => [nonneg l; nonpos u] | Max => [nonpos l; nonneg u] end   (* RANGE *)
  end.

Definition mk (d : dcol) : col := match d with (o, lo, up) => mkCol o lo up end.

Fixpoint nthq (j : nat) (a : list Q) : Q :=
  match j, a with
  | O, c :: _ => c
  | S j', _ :: a' => nthq j' a'
  | _, [] => 0
  end.

(* number of variable-bound columns of a primal column, of a list of primal columns *)
Definition cnt (s : sense) (c : col) : nat := length (snd (col_dual s c)).
Definition total (s : sense) (cs : list col) : nat := length (flat_map (fun c => snd (col_dual s c)) cs).

(* the entries of dual row j in the row columns: a_ij once per dual column of primal row i *)
Definition row_entries (s : sense) (j : nat) (rs : list row) : list Q :=
  flat_map (fun r => repeat (nthq j (r_coefs r)) (length (row_dual s r))) rs.

(* dual row of primal column j: ones in its own variable-bound columns ([pre] such columns belong to earlier primal columns),
   then the coefficients a_ij in the row columns *)
Fixpoint dual_rows (s : sense) (rs : list row) (pre j : nat) (cs : list col) : list row :=
  match cs with
  | [] => []
  | c :: rest =>
    let sides := fst (col_dual s c) in
    mkRow (fst sides) ((repeat 0 pre ++ repeat 1 (cnt s c) ++ repeat 0 (total s rest)) ++ row_entries s j rs) (snd sides)
    :: dual_rows s rs (pre + cnt s c) (S j) rest
  end.

Definition dual_of (p : lp) : lp :=
  let s := l_sense p in
  mkLP (flip s) 0
       (map mk (flat_map (fun c => snd (col_dual s c)) (l_cols p) ++ flat_map (row_dual s) (l_rows p)))
       (dual_rows s (l_rows p) O O (l_cols p)).
