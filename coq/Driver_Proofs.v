(* Proofs about the solve-driver model (DriverModel.v): termination for every oracle, the OPTIMAL gate, proofs offered
   with ENSURERAY, stored solutions live in the user's problem space. *)
From Coq Require Import ZArith List Bool Lia.
From SV Require Import DriverModel.
Import ListNotations.
Local Open Scope Z_scope.

(* how many more calls of _preprocessAndSolveReal(false) a call made in state s can cause at most *)
Definition mu (s : dstate) : nat := ((if scaled s then 2 else 0) + (if objlim_en s then 1 else 0))%nat.

Definition Good (s : dstate) : Prop :=
  (sol_ok s || has_ray s || has_farkas s) = true -> is_user_space (sol_space s) = true.

Definition Final (P : dparams) (s : dstate) : Prop :=
  Good s /\
  (status s = OPTIMAL -> sol_ok s = true) /\
  (p_ensureray P = true -> status s = INFEASIBLE -> has_farkas s = true) /\
  (p_ensureray P = true -> status s = UNBOUNDED -> has_ray s = true).

(* [a]: may _applyPolishing be set in the result *)
Definition RecOK (P : dparams) (a : bool) (r : res) : Prop :=
  match r with Done s => Final P s /\ (apply_pol s = true -> a = true) | OutOfFuel => False | Impossible _ => True end.

Lemma RecOK_weaken P a r : RecOK P false r -> RecOK P a r.
Proof. destruct r; cbn; auto. intros [H1 H2]. split; auto. intros H. discriminate (H2 H). Qed.

Lemma mu_le3 s : (mu s <= 3)%nat.
Proof. unfold mu. destruct (scaled s), (objlim_en s); cbn; lia. Qed.

Arguments zb : simpl never.

Section Body.
Variable P : dparams.
Variable orc : nat -> orec.
Variable rec : bool -> dstate -> res.
Variable m : nat.
Hypothesis Hrec : forall s, (mu s < m)%nat -> Good s -> RecOK P false (rec false s).

Ltac sdestr s := destruct s as [so sc ld scd ss il hb stt hs hr hf ap oe oc uc sp ok fr tr].

Lemma verify_sol_spec o s a :
  (apply_pol s = true -> a = true) ->
  is_user_space (sol_space s) = true ->
  (p_ensureray P = true -> status s = INFEASIBLE -> has_farkas s = true) ->
  (p_ensureray P = true -> status s = UNBOUNDED -> has_ray s = true) ->
  ((if objlim_en s then 1 else 0) < m)%nat ->
  RecOK P a (verify_sol rec o s).
Proof.
  sdestr s. unfold verify_sol. cbn. intros Ha Hsp Hf Hr Hm.
  destruct (o_vbits o) as [[[b1 b2] b3] b4]. cbn.
  destruct (b1 || b2 || b3 || b4) eqn:Hv.
  - apply RecOK_weaken. apply Hrec.
    + unfold mu. cbn. destruct scd; cbn; exact Hm.
    + unfold Good. cbn. intros _. exact Hsp.
  - cbn. unfold Final, Good. cbn. repeat split; auto.
Qed.

Definition vobj_mu (s : dstate) : nat :=
  if negb (scaler_on s) && negb (simp_on s) then (if scaled s then 2 else 0)%nat else (if objlim_en s then 1 else 0)%nat.

Lemma verify_obj_spec o s a :
  (apply_pol s = true -> a = true) ->
  is_user_space (sol_space s) = true ->
  status s = ABORT_VALUE ->
  (vobj_mu s < m)%nat ->
  RecOK P a (verify_obj rec o s).
Proof.
  sdestr s. unfold verify_obj, vobj_mu. cbn. intros Ha Hsp Hst Hm.
  destruct (o_vbits o) as [[[b1 b2] b3] b4]. cbn.
  destruct (negb (o_dualfeas o) || b3 || b4) eqn:Hv.
  - apply RecOK_weaken. apply Hrec.
    + unfold mu. cbn. destruct (negb sc && negb so); cbn in *; destruct scd; cbn in *; try exact Hm; try lia.
    + unfold Good. cbn. intros _. exact Hsp.
  - cbn. unfold Final, Good. cbn. subst stt. repeat split; auto; intros; discriminate.
Qed.

Arguments verify_sol : simpl never.
Arguments verify_obj : simpl never.

Definition is_abort_value (t : st) : bool := match t with ABORT_VALUE => true | _ => false end.

Lemma store_spec o verify s a :
  (apply_pol s = true -> a = true) ->
  (* the gate: an OPTIMAL answer is stored without verification only if it was computed on the user's LP itself *)
  (status s = OPTIMAL -> verify = true \/ (simp_on s = false /\ intl s = false /\ scaled s = false)) ->
  (p_ensureray P = true -> status s = INFEASIBLE \/ status s = UNBOUNDED -> loaded s = true) ->
  (intl s = true -> sol_scaled s = true /\ loaded s = false) ->
  (simp_on s = true -> loaded s = false) ->
  (simp_on s = true -> (mu s < m)%nat) ->
  (verify = true -> is_abort_value (status s) = false -> ((if objlim_en s then 1 else 0) < m)%nat) ->
  (verify = true -> is_abort_value (status s) = true -> (vobj_mu s < m)%nat) ->
  RecOK P a (store rec o verify s).
Proof.
  sdestr s. unfold store. cbn. intros Ha Hgate Hens Hint Hsimp Hmt Hmv Hmo.
  destruct (so && o_throw o) eqn:Hthrow.
  - apply andb_true_iff in Hthrow as [Hso _]. subst so. specialize (Hsimp eq_refl). subst ld.
    apply RecOK_weaken. apply Hrec.
    + unfold mu in *. cbn in *. apply Hmt. reflexivity.
    + unfold Good. cbn. destruct stt; cbn; intros; discriminate.
  - assert (Hspace : is_user_space {| l_simp := false; l_int := if ss && negb ld then false else il; l_pers := false |} = true).
    { unfold is_user_space. cbn. destruct il; [destruct (Hint eq_refl) as [-> ->]; reflexivity | destruct (ss && negb ld); reflexivity]. }
    destruct verify.
    + destruct stt; cbn;
        try (apply verify_sol_spec; cbn;
             [ exact Ha
             | exact Hspace
             | intros He Hs; try discriminate Hs; apply Hens; auto
             | intros He Hs; try discriminate Hs; apply Hens; auto
             | apply Hmv; reflexivity ]).
      (* ABORT_VALUE *)
      apply verify_obj_spec; cbn; [ exact Ha | exact Hspace | reflexivity | ].
      specialize (Hmo eq_refl eq_refl). unfold vobj_mu in *. cbn in *. exact Hmo.
    + unfold RecOK. split; [unfold Final; split; [|split; [|split]] |].
      * abstract (unfold Good; cbn; intros _; exact Hspace).
      * abstract (cbn; intros Hst; destruct (Hgate Hst) as [H | (-> & -> & ->)]; [discriminate | reflexivity]).
      * abstract (cbn; intros He Hst; subst stt; apply Hens; auto).
      * abstract (cbn; intros He Hst; subst stt; apply Hens; auto).
      * abstract (cbn; auto).
Qed.

Arguments store : simpl never.

Lemma Good_irrelevant s s' :
  sol_ok s' = sol_ok s -> has_ray s' = has_ray s -> has_farkas s' = has_farkas s -> sol_space s' = sol_space s ->
  Good s -> Good s'.
Proof. unfold Good. intros -> -> -> ->. auto. Qed.

Lemma store_from_presol_spec o s a :
  (apply_pol s = true -> a = true) ->
  Good s -> status s = OPTIMAL -> (3 < m)%nat ->
  RecOK P a (store_from_presol rec o s).
Proof.
  sdestr s. unfold store_from_presol. cbn. intros Ha HG Hst Hm. subst stt.
  destruct (o_throw o).
  - apply RecOK_weaken. apply Hrec.
    + eapply Nat.le_lt_trans; [apply mu_le3 | exact Hm].
    + eapply Good_irrelevant; [ | | | | exact HG]; reflexivity.
  - apply verify_sol_spec; cbn; try (intros; discriminate); auto.
    destruct oe; lia.
Qed.

Lemma resolve_spec o s a :
  Good s -> (3 < m)%nat -> RecOK P a (resolve rec o s).
Proof.
  sdestr s. unfold resolve. cbn. intros HG Hm.
  apply RecOK_weaken. apply Hrec.
  - eapply Nat.le_lt_trans; [apply mu_le3 | exact Hm].
  - eapply Good_irrelevant; [ | | | | exact HG]; reflexivity.
Qed.

Arguments store_from_presol : simpl never.
Arguments resolve : simpl never.

Definition b2n (b : bool) : nat := if b then 1%nat else 0%nat.

Lemma bind_spec r k a a' :
  RecOK P a' r ->
  (forall s', Final P s' -> (apply_pol s' = true -> a' = true) -> RecOK P a (k s')) ->
  RecOK P a (bind r k).
Proof. destruct r as [s' | | s']; cbn; auto. intros [HF Hap] Hk. apply Hk; auto. Qed.

Lemma evaluate_spec o sres en s a :
  (apply_pol s = true -> a = true) ->
  Good s ->
  (intl s = true -> sol_scaled s = true /\ loaded s = false) ->
  (simp_on s = true -> loaded s = false) ->
  (loaded s = true -> intl s = false) ->
  (loaded s = true -> scaler_on s = true -> scaled s = true) ->
  (sres <> S_OKAY -> (3 < m)%nat) ->
  (loaded s = false \/ apply_pol s = true -> (3 < m)%nat) ->
  (loaded s = true -> (2 * b2n (scaled s) + b2n en <= m)%nat) ->
  objlim_en s = true ->
  RecOK P a (evaluate P rec o sres en s).
Proof.
  sdestr s. unfold evaluate. cbn. intros Ha HG Hint Hsimp Hli Hls Hsres Hbig Hload Hoe. subst oe.
  assert (Hmu3 : forall s', (3 < m)%nat -> (mu s' < m)%nat).
  { intros s' H3. eapply Nat.le_lt_trans; [apply mu_le3 | exact H3]. }
  assert (Hso : so = true -> (3 < m)%nat).
  { intros Hs. apply Hbig. left. apply Hsimp. exact Hs. }
  assert (Hnl : ld = false -> (3 < m)%nat) by (intros Hs; apply Hbig; left; exact Hs).
  (* frequently used: the state handed to store has the fields of s except status and trace *)
  destruct sres.
  - (* S_OKAY *)
    destruct (o_status o) eqn:Hos.
    + (* OPTIMAL: store, then the polishing re-solve *)
      apply bind_spec with (a' := ap).
      * apply store_spec; cbn.
        -- auto.
        -- intros _. destruct ld; cbn; [destruct scd; cbn; [left; reflexivity | right] | left; reflexivity].
           repeat split; auto; destruct so; auto; discriminate (Hsimp eq_refl).
        -- intros _ [H | H]; discriminate H.
        -- exact Hint.
        -- exact Hsimp.
        -- intros Hs. specialize (Hso Hs). unfold mu. cbn. destruct scd; cbn; lia.
        -- intros Hv _. destruct ld; cbn in Hv.
           ++ subst scd. specialize (Hload eq_refl). cbn in Hload. lia.
           ++ specialize (Hnl eq_refl). lia.
        -- intros _ H. discriminate H.
      * intros s' HF Hap. destruct (apply_pol s') eqn:Hp.
        -- apply RecOK_weaken. apply Hrec.
           ++ apply Hmu3. apply Hbig. right. apply Hap. reflexivity.
           ++ destruct HF as [HG' _]. eapply Good_irrelevant; [ | | | | exact HG']; reflexivity.
        -- cbn. split; auto. intros H. rewrite Hp in H. discriminate H.
    + (* UNBOUNDED *)
      destruct (negb ld && p_ensureray P) eqn:Hc.
      * apply andb_true_iff in Hc as [Hl _]. apply negb_true_iff in Hl.
        apply resolve_spec; [ eapply Good_irrelevant; [ | | | | exact HG]; reflexivity | apply Hnl; exact Hl ].
      * apply store_spec; cbn.
        -- auto.
        -- intros H; discriminate H.
        -- intros He _. rewrite He in Hc. destruct ld; [reflexivity | discriminate Hc].
        -- exact Hint.
        -- exact Hsimp.
        -- intros Hs. specialize (Hso Hs). unfold mu. cbn. destruct scd; cbn; lia.
        -- intros H; discriminate H.
        -- intros H; discriminate H.
    + (* INFEASIBLE *)
      destruct (negb ld && p_ensureray P) eqn:Hc.
      * apply andb_true_iff in Hc as [Hl _]. apply negb_true_iff in Hl.
        apply resolve_spec; [ eapply Good_irrelevant; [ | | | | exact HG]; reflexivity | apply Hnl; exact Hl ].
      * apply store_spec; cbn.
        -- auto.
        -- intros H; discriminate H.
        -- intros He _. rewrite He in Hc. destruct ld; [reflexivity | discriminate Hc].
        -- exact Hint.
        -- exact Hsimp.
        -- intros Hs. specialize (Hso Hs). unfold mu. cbn. destruct scd; cbn; lia.
        -- intros H; discriminate H.
        -- intros H; discriminate H.
    + (* INForUNBD *)
      destruct (negb ld && p_ensureray P) eqn:Hc.
      * apply andb_true_iff in Hc as [Hl _]. apply negb_true_iff in Hl.
        apply resolve_spec; [ eapply Good_irrelevant; [ | | | | exact HG]; reflexivity | apply Hnl; exact Hl ].
      * apply store_spec; cbn.
        -- auto.
        -- intros H; discriminate H.
        -- intros _ [H | H]; discriminate H.
        -- exact Hint.
        -- exact Hsimp.
        -- intros Hs. specialize (Hso Hs). unfold mu. cbn. destruct scd; cbn; lia.
        -- intros H; discriminate H.
        -- intros H; discriminate H.
    + (* OPT_UNSCALED_VIOL: default branch *)
      unfold RecOK, Final. split; [split; [|split; [|split]]|].
      * eapply Good_irrelevant; [ | | | | exact HG]; reflexivity.
      * cbn. intros H; discriminate H.
      * cbn. intros _ H; discriminate H.
      * cbn. intros _ H; discriminate H.
      * cbn. auto.
    + (* SINGULAR *)
      destruct ld; cbn.
      * unfold RecOK, Final. split; [split; [|split; [|split]]|].
        -- eapply Good_irrelevant; [ | | | | exact HG]; reflexivity.
        -- cbn. intros H; discriminate H.
        -- cbn. intros _ H; discriminate H.
        -- cbn. intros _ H; discriminate H.
        -- cbn. auto.
      * apply RecOK_weaken. apply Hrec.
        -- apply Hmu3. apply Hnl. reflexivity.
        -- eapply Good_irrelevant; [ | | | | exact HG]; reflexivity.
    + (* ABORT_VALUE *)
      destruct en; [ | exact I].
      apply store_spec; cbn.
      * auto.
      * intros H; discriminate H.
      * intros _ [H | H]; discriminate H.
      * exact Hint.
      * exact Hsimp.
      * intros Hs. specialize (Hso Hs). unfold mu. cbn. destruct scd; cbn; lia.
      * intros _ H; discriminate H.
      * intros _ _. unfold vobj_mu. cbn. destruct ld.
        -- specialize (Hload eq_refl). cbn in Hload.
           destruct so; [discriminate (Hsimp eq_refl)|]. destruct sc; cbn.
           ++ rewrite (Hls eq_refl eq_refl) in Hload. cbn in Hload. lia.
           ++ destruct scd; cbn in *; lia.
        -- specialize (Hnl eq_refl). destruct (negb sc && negb so), scd; lia.
    + (* ABORT_CYCLING *)
      destruct (negb ld || scd) eqn:Hc.
      * apply store_spec; cbn.
        -- auto.
        -- intros H; discriminate H.
        -- intros _ [H | H]; discriminate H.
        -- exact Hint.
        -- exact Hsimp.
        -- intros Hs. specialize (Hso Hs). unfold mu. cbn. destruct scd; cbn; lia.
        -- intros _ _. destruct ld; cbn in Hc.
           ++ subst scd. specialize (Hload eq_refl). cbn in Hload. lia.
           ++ specialize (Hnl eq_refl). lia.
        -- intros _ H; discriminate H.
      * apply orb_false_iff in Hc as [Hl Hsc]. apply negb_false_iff in Hl. subst ld scd.
        apply store_spec; cbn.
        -- auto.
        -- intros _. right. repeat split; auto; destruct so; auto; discriminate (Hsimp eq_refl).
        -- auto.
        -- exact Hint.
        -- exact Hsimp.
        -- intros Hs. specialize (Hso Hs). unfold mu. cbn. lia.
        -- intros H; discriminate H.
        -- intros H; discriminate H.
    + (* ABORT_TIME *)
      apply store_spec; cbn; [ auto | intros H; discriminate H | intros _ [H | H]; discriminate H | exact Hint | exact Hsimp
                             | intros Hs; specialize (Hso Hs); unfold mu; cbn; destruct scd; cbn; lia | intros H; discriminate H | intros H; discriminate H ].
    + (* ABORT_ITER *)
      apply store_spec; cbn; [ auto | intros H; discriminate H | intros _ [H | H]; discriminate H | exact Hint | exact Hsimp
                             | intros Hs; specialize (Hso Hs); unfold mu; cbn; destruct scd; cbn; lia | intros H; discriminate H | intros H; discriminate H ].
    + (* REGULAR *)
      apply store_spec; cbn; [ auto | intros H; discriminate H | intros _ [H | H]; discriminate H | exact Hint | exact Hsimp
                             | intros Hs; specialize (Hso Hs); unfold mu; cbn; destruct scd; cbn; lia | intros H; discriminate H | intros H; discriminate H ].
    + (* RUNNING *)
      apply store_spec; cbn; [ auto | intros H; discriminate H | intros _ [H | H]; discriminate H | exact Hint | exact Hsimp
                             | intros Hs; specialize (Hso Hs); unfold mu; cbn; destruct scd; cbn; lia | intros H; discriminate H | intros H; discriminate H ].
    + (* OTHER: default branch *)
      unfold RecOK, Final. split; [split; [|split; [|split]]|].
      * eapply Good_irrelevant; [ | | | | exact HG]; reflexivity.
      * cbn. intros H; discriminate H.
      * cbn. intros _ H; discriminate H.
      * cbn. intros _ H; discriminate H.
      * cbn. auto.
  - (* S_INFEASIBLE *)
    assert (H3 : (3 < m)%nat) by (apply Hsres; discriminate).
    destruct (p_ensureray P) eqn:He.
    + apply RecOK_weaken. apply Hrec; [ apply Hmu3; exact H3 | eapply Good_irrelevant; [ | | | | exact HG]; reflexivity ].
    + unfold RecOK, Final. split; [split; [|split; [|split]]|].
      * eapply Good_irrelevant; [ | | | | exact HG]; reflexivity.
      * cbn. intros H; discriminate H.
      * intros H; rewrite He in H; discriminate H.
      * intros H; rewrite He in H; discriminate H.
      * cbn. auto.
  - (* S_DUAL_INFEASIBLE *)
    assert (H3 : (3 < m)%nat) by (apply Hsres; discriminate).
    destruct (p_ensureray P) eqn:He.
    + apply RecOK_weaken. apply Hrec; [ apply Hmu3; exact H3 | eapply Good_irrelevant; [ | | | | exact HG]; reflexivity ].
    + unfold RecOK, Final. split; [split; [|split; [|split]]|].
      * eapply Good_irrelevant; [ | | | | exact HG]; reflexivity.
      * cbn. intros H; discriminate H.
      * intros H; rewrite He in H; discriminate H.
      * intros H; rewrite He in H; discriminate H.
      * cbn. auto.
  - (* S_UNBOUNDED *)
    assert (H3 : (3 < m)%nat) by (apply Hsres; discriminate).
    destruct (p_ensureray P) eqn:He.
    + apply RecOK_weaken. apply Hrec; [ apply Hmu3; exact H3 | eapply Good_irrelevant; [ | | | | exact HG]; reflexivity ].
    + unfold RecOK, Final. split; [split; [|split; [|split]]|].
      * eapply Good_irrelevant; [ | | | | exact HG]; reflexivity.
      * cbn. intros H; discriminate H.
      * intros H; rewrite He in H; discriminate H.
      * intros H; rewrite He in H; discriminate H.
      * cbn. auto.
  - (* S_VANISHED *)
    assert (H3 : (3 < m)%nat) by (apply Hsres; discriminate).
    apply store_from_presol_spec; cbn; auto.
Qed.

Arguments evaluate : simpl never.

Ltac side :=
  cbn; intros;
  repeat match goal with
         | H : _ /\ _ |- _ => destruct H
         | H : _ \/ _ |- _ => destruct H
         | H : true = true -> _ |- _ => specialize (H eq_refl)
         | H : ?x = ?x -> _ |- _ => specialize (H eq_refl)
         end;
  try discriminate; try congruence; try (repeat split; congruence); try (cbn in *; lia); auto.

(* the fields of the state that _preprocessAndSolveReal hands to _evaluateSolutionReal *)
Definition copy_lp (apply : bool) (s : dstate) : bool :=
  (apply && p_simp P) || ((if apply then p_scaler P else if scaled s then scaler_on s else false) && negb (scaled s)).

Lemma setup_simp_on apply o s : simp_on (pas_setup P apply o s) = apply && p_simp P.
Proof. destruct s; reflexivity. Qed.
Lemma setup_scaler_on apply o s :
  scaler_on (pas_setup P apply o s) = if apply then p_scaler P else if scaled s then scaler_on s else false.
Proof. destruct s; reflexivity. Qed.
Lemma setup_loaded apply o s : loaded (pas_setup P apply o s) = negb (copy_lp apply s).
Proof. destruct s; reflexivity. Qed.
Lemma setup_scaled apply o s : scaled (pas_setup P apply o s) = scaled s.
Proof. destruct s; reflexivity. Qed.
Lemma setup_apply_pol apply o s : apply_pol (pas_setup P apply o s) = apply && p_simp P.
Proof. destruct s; reflexivity. Qed.
Lemma setup_objlim_en apply o s : objlim_en (pas_setup P apply o s) = true.
Proof. destruct s; reflexivity. Qed.
Lemma setup_sol_ok apply o s : sol_ok (pas_setup P apply o s) = sol_ok s.
Proof. destruct s; reflexivity. Qed.
Lemma setup_has_ray apply o s : has_ray (pas_setup P apply o s) = has_ray s.
Proof. destruct s; reflexivity. Qed.
Lemma setup_has_farkas apply o s : has_farkas (pas_setup P apply o s) = has_farkas s.
Proof. destruct s; reflexivity. Qed.
Lemma setup_sol_space apply o s : sol_space (pas_setup P apply o s) = sol_space s.
Proof. destruct s; reflexivity. Qed.
Lemma setup_sol_scaled apply o s :
  sol_scaled (pas_setup P apply o s) =
  let base := if apply && p_simp P then false else scaled s in
  let sc := is_okay (pas_sres P apply o) && (if apply then p_scaler P else if scaled s then scaler_on s else false) && negb base in
  if sc then o_scaled o else base.
Proof. destruct s; reflexivity. Qed.
Lemma setup_intl apply o s :
  intl (pas_setup P apply o s) =
  let base := if apply && p_simp P then false else scaled s in
  let sc := is_okay (pas_sres P apply o) && (if apply then p_scaler P else if scaled s then scaler_on s else false) && negb base in
  if sc then o_scaled o else false.
Proof. destruct s; reflexivity. Qed.

Lemma pas_body_spec apply s :
  Good s -> (apply = true -> (3 < m)%nat) -> (apply = false -> (mu s <= m)%nat) ->
  RecOK P (apply && p_simp P) (pas_body P orc rec apply s).
Proof.
  intros HG Ht Hf. unfold pas_body. cbv zeta.
  set (o := orc (frame s)).
  apply evaluate_spec;
    rewrite ?setup_simp_on, ?setup_scaler_on, ?setup_loaded, ?setup_scaled, ?setup_apply_pol, ?setup_objlim_en,
            ?setup_sol_scaled, ?setup_intl; unfold copy_lp, pas_sres, mu in *; cbv zeta.
  - auto.
  - eapply Good_irrelevant; [ apply setup_sol_ok | apply setup_has_ray | apply setup_has_farkas | apply setup_sol_space | exact HG ].
  - destruct apply, (p_simp P), (p_scaler P), (scaled s), (scaler_on s), (o_scaled o), (o_simp o); cbn; intros; try discriminate; auto.
  - destruct apply, (p_simp P), (p_scaler P), (scaled s), (scaler_on s); cbn; intros; try discriminate; auto.
  - destruct apply, (p_simp P), (p_scaler P), (scaled s), (scaler_on s), (o_scaled o), (o_simp o); cbn; intros; try discriminate; auto.
  - destruct apply, (p_simp P), (p_scaler P), (scaled s), (scaler_on s); cbn; intros; try discriminate; auto.
  - destruct apply; [intros _; apply Ht; reflexivity|]. cbn. intros H. exfalso. apply H. reflexivity.
  - destruct apply; [intros _; apply Ht; reflexivity|].
    destruct (p_simp P), (p_scaler P), (scaled s), (scaler_on s); cbn; intros [H | H]; discriminate H.
  - destruct apply.
    + specialize (Ht eq_refl). intros _. destruct (scaled s), (objlim_en s); cbn; lia.
    + specialize (Hf eq_refl). intros _. destruct (scaled s), (objlim_en s); cbn in *; lia.
  - reflexivity.
Qed.

End Body.

(* ---- every call terminates within the fuel, whatever the oracles answer ---- *)
Lemma pas_false_ok P orc : forall n s, (mu s <= n)%nat -> Good s -> RecOK P false (pas P orc (S n) false s).
Proof.
  induction n as [|n IH]; intros s Hm HG; cbn [pas].
  - apply (pas_body_spec P orc (pas P orc 0) 0 (fun s' H => ltac:(lia)) false s HG); [discriminate | intros _; exact Hm].
  - apply (pas_body_spec P orc (pas P orc (S n)) (S n) (fun s' H HG' => IH s' ltac:(lia) HG') false s HG);
      [discriminate | intros _; exact Hm].
Qed.

Lemma pas_ok P orc apply s : Good s -> RecOK P (apply && p_simp P) (pas P orc FUEL apply s).
Proof.
  intros HG. unfold FUEL. cbn [pas].
  apply (pas_body_spec P orc (pas P orc 4) 4).
  - intros s' _ HG'. apply (pas_false_ok P orc 3); [apply mu_le3 | exact HG'].
  - exact HG.
  - intros _. lia.
  - intros _. pose proof (mu_le3 s). lia.
Qed.

Lemma optimize_ok P orc osc s0 : RecOK P (negb (has_basis s0) && negb (p_objlim P) && p_simp P) (optimize P orc osc FUEL s0).
Proof.
  unfold optimize. cbv zeta.
  match goal with |- RecOK _ _ (pas _ _ _ ?ap ?st) => set (apply := ap); set (s := st) end.
  assert (HG : Good s).
  { unfold Good. subst s. destruct s0; cbn. intros H; discriminate H. }
  pose proof (pas_ok P orc apply s HG) as H.
  destruct (pas P orc FUEL apply s) as [r | | r]; cbn in *; auto.
Qed.

Theorem driver_terminates P orc osc s0 : optimize P orc osc FUEL s0 <> OutOfFuel.
Proof. pose proof (optimize_ok P orc osc s0) as H. intros E. rewrite E in H. exact H. Qed.

Theorem optimal_is_gated P orc osc s0 r :
  optimize P orc osc FUEL s0 = Done r -> status r = OPTIMAL -> sol_ok r = true.
Proof. pose proof (optimize_ok P orc osc s0) as H. intros E. rewrite E in H. destruct H as [(_ & H & _) _]. exact H. Qed.

Theorem ensureray_offers_proof P orc osc s0 r :
  p_ensureray P = true -> optimize P orc osc FUEL s0 = Done r ->
  (status r = INFEASIBLE -> has_farkas r = true) /\ (status r = UNBOUNDED -> has_ray r = true).
Proof.
  pose proof (optimize_ok P orc osc s0) as H. intros He E. rewrite E in H. destruct H as [(_ & _ & H1 & H2) _]. auto.
Qed.

Theorem offered_solution_in_user_space P orc osc s0 r :
  optimize P orc osc FUEL s0 = Done r ->
  (sol_ok r || has_ray r || has_farkas r) = true -> is_user_space (sol_space r) = true.
Proof. pose proof (optimize_ok P orc osc s0) as H. intros E. rewrite E in H. destruct H as [(H & _) _]. exact H. Qed.
