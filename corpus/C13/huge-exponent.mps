NAME          P1
ROWS
 N  obj
 G  R0
 E  R1
 E  R2
 N  free2
COLUMNS
    X0  obj  7
    X0  R0  2.5
    X0  R2  5.  R1  2.5
RHS
    RHS  R0  2.5
    RHS  R1  1
    RHS  R2  -1e999999
RANGES
    RNG  R0  1E-3
BOUNDS
    UI  BND  X0  1E-3
ENDATA
