NAME          T
ROWS
 N  obj
 L  r1
COLUMNS
    x         obj                  1   r1                   1
RHS
    RHS       r1                   4
BOUNDS
              $ comment
ENDATA
