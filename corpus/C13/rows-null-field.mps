NAME          TEST
ROWS
 N  obj
 $
 G  R0
COL