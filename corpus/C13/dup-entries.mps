NAME          TEST
ROWS
 N  obj
 G  R0
 E  R1
 L  R2
COLUMNS
    X0        R0                1e3   R0                1E-3
    MARKER    'MARKER'                 'INTEND'
RHS
    RHS       R0                  12
BOUNDS
 LO BND       X0               -1e30
ENDATA
