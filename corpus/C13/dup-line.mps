NAME          TEST
OBJSENSE
    MAX
ROWS
 N  obj
 G  R0
COLUMNS
    X0  obj  100  R0  .5
    X0  obj  100  R0  .5
RHS
    RHS  R0  1
BOUNDS
    PL  BND  X0  +4
ENDATA
