NAME  afiro
 XU X01       R09
 UL X02
