#!/bin/bash
# MANIFEST.setup_cmd: build the whole framework offline from the files on disk:
# regenerated tables -> full Coq build (.vo, no -vos) -> extraction + OCaml model runners -> C++ harnesses for the current /repo tree.
set -e
cd "$(dirname "$0")"
export CARGO_NET_OFFLINE=true GOPROXY=off PIP_NO_INDEX=1
python3 setup_all.py "$@"
