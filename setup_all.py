#!/usr/bin/env python3
import concurrent.futures as cf
import importlib.util
import os
import sys
import time

root = os.path.dirname(os.path.abspath(__file__))
sys.path.insert(0, root)
import vlib


def load(pid):
    spec = importlib.util.spec_from_file_location("check_" + pid, os.path.join(root, "checks", pid + ".py"))
    m = importlib.util.module_from_spec(spec)
    spec.loader.exec_module(m)
    return m


def main():
    t0 = time.time()
    pids = sorted(f[:-3] for f in os.listdir(os.path.join(root, "checks")) if f.endswith(".py") and f[0] == "C" and f[1:3].isdigit())
    cp = os.path.join(root, "claimed.txt")
    if os.path.exists(cp):
        claimed = set(open(cp).read().split())
        pids = [p for p in pids if p in claimed]
    mods = {p: load(p) for p in pids}
    # 0. sources generated for harnesses
    for p, m in mods.items():
        if hasattr(m, "pregenerate"):
            m.pregenerate()
    # 1. harnesses (parallel, they dominate the wall time)
    jobs = []
    for p, m in mods.items():
        for h in getattr(m, "HARNESSES", []):
            jobs.append(h)
    vlib.build_lib()
    with cf.ThreadPoolExecutor(max_workers=8) as ex:
        futs = {ex.submit(vlib.build_harness, **(h if isinstance(h, dict) else {"name": h})): h for h in jobs}
        for f in cf.as_completed(futs):
            f.result()
    # 2. regenerated tables
    for p, m in mods.items():
        if hasattr(m, "regenerate"):
            m.regenerate()
    # 3. Coq: full build
    vlib.coq_project()
    targets = ["Properties_%s.vo" % p for p in pids] + ["Extract_%s.vo" % p for p in pids if getattr(mods[p], "MODEL", False)]
    rc, out = vlib.coq_make(targets, timeout=7200)
    if rc != 0:
        print(out[-4000:])
        print("SETUP: Coq build failed")
        sys.exit(1)
    # 4. extraction + runners
    for p, m in mods.items():
        if getattr(m, "MODEL", False):
            vlib.build_model(p)
    print("SETUP ok in %.0fs: %d checks" % (time.time() - t0, len(pids)))


if __name__ == "__main__":
    main()
