#!/usr/bin/env python3
"""Regenerate MANIFEST.json from checks/Cxx.meta.json (one file per claimed property) and not_applicable.json."""
import json
import os

root = os.path.dirname(os.path.abspath(__file__))
props = [json.loads(l) for l in open(os.path.join(root, "properties.jsonl"))]
na_path = os.path.join(root, "not_applicable.json")
na_reasons = json.load(open(na_path)) if os.path.exists(na_path) else {}
claimed_path = os.path.join(root, "claimed.txt")
claimed = set(open(claimed_path).read().split()) if os.path.exists(claimed_path) else None
checks, na = [], []
for p in props:
    pid = p["id"]
    meta = os.path.join(root, "checks", pid + ".meta.json")
    script = os.path.join(root, "checks", pid + ".py")
    if os.path.exists(meta) and os.path.exists(script) and (claimed is None or pid in claimed):
        m = json.load(open(meta))
        c = {"property_id": pid,
             "quick_cmd": "./check %s --tier quick" % pid,
             "thorough_cmd": "./check %s --tier thorough" % pid,
             "evidence_file": "evidence/%s.json" % pid,
             "replay_cmd_template": "./check %s --replay {path}" % pid,
             "engine": "rocq-model+correspondence",
             "level_claimed": m["level_claimed"],
             "level_note": m["level_note"],
             "technique": m["technique"]}
        checks.append(c)
    else:
        na.append({"property_id": pid, "reason": na_reasons.get(pid, "check not built yet in this development (no claim is made); see DESIGN.md section 5 for the plan")})
hooks_path = os.path.join(root, "hooks.json")
hooks = json.load(open(hooks_path)) if os.path.exists(hooks_path) else {}
man = {
    "version": 1,
    "setup_cmd": "./setup.sh",
    "hooks": {"guard": "SCIPOPT_SOPLEX_VERIF",
              "enable": "harnesses are compiled from /repo/src with -DSCIPOPT_SOPLEX_VERIF -fno-access-control (vlib.base_flags); private state is read through -fno-access-control on the harness translation unit only; the one source hook (commit a90388f, add-only) makes the floating-point solve driver append its control decisions to a thread-local sink that harness/C01.cpp installs around optimize()",
              "baseline_off_cmd": "./baseline_off.sh",
              "source_commits": hooks.get("source_commits", []),
              "add_only": True},
    "engines": [{"name": "rocq-model+correspondence", "path": "check",
                 "serves_properties": [c["property_id"] for c in checks],
                 "kind_free_text": "Coq 8.16 models and theorems (coq/), regenerated tables (translator/), extraction to OCaml (extract/), C++ harnesses compiled against the current /repo/src (harness/), differential correspondence and violation search (checks/)"}],
    "checks": checks,
    "not_applicable": na,
    "notes": "Every check = prove (Properties_<id>.v re-checked, Print Assumptions parsed) + build harness from the current tree + correspondence/validation + decision. Known genuine defects are listed in KNOWN_FINDINGS.json."
}
json.dump(man, open(os.path.join(root, "MANIFEST.json"), "w"), indent=1)
print("MANIFEST: %d checks, %d not applicable" % (len(checks), len(na)))
