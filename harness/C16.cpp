// C16 harness: limits and interrupts.  A small step interpreter over ONE SoPlex object per "DO" line so that the experiment
// logic (which limit, which stop point, lift and re-solve) lives in checks/C16.py.
//
//   LP <id> <min|max> <offset> <n> <m> / C ... / R ...        an LP (same format as harness/C01.cpp)
//   DO <runid> step ; step ; ...
//        new k=v ...      fresh solver, parameters set BEFORE the LP is loaded (needed for syncmode/solvemode)
//        set k=v ...      parameters set on the live object
//        opt              optimize()
//        optint <j>       optimize(&flag); the flag is raised while the solver prints its j-th iteration display line
//                         (j = 0: raised before the call).  The lines are seen by a std::streambuf hooked as the solver's
//                         INFO1..INFO3 streams (needs verbosity>=3; displayfreq=1 gives one line per loop pass; with
//                         verbosity=5 the messages that say why a pass or an inner solve ended are recorded too); no source hook.
//   every opt/optint prints one line  "OBS <runid> <stepno> key=value ..."  (doubles as exact dyadics)
#include "soplex.h"
#include "common.hpp"
#include <fstream>
#include <memory>

using namespace soplex;
using vf::dy;
typedef SoPlexBase<double> SP;

static std::ofstream devnull("/dev/null");

// collects the iteration display lines "  L  |   0.0 |       3 |     1 | 0.00e+00 | ... | value" of the simplex loop
struct LineBuf : public std::streambuf
{
   std::string cur;
   std::string log;            // "L0,L0,L1,E1," : algorithm type and iteration counter of every display line
   int count = 0;
   int raiseAt = -1;
   volatile bool* flag = nullptr;
   int other = 0;

   void reset(int at, volatile bool* f)
   {
      cur.clear();
      log.clear();
      count = 0;
      other = 0;
      raiseAt = at;
      flag = f;
   }
   void line()
   {
      if(cur.size() > 6 && cur[0] == ' ' && cur[1] == ' ' && (cur[2] == 'L' || cur[2] == 'E') && cur[5] == '|')
      {
         // fields separated by '|': type, time, iters, facts, shift, viol sum, viol num, value
         std::vector<std::string> f;
         size_t a = 0;

         for(size_t k = 0; k <= cur.size(); k++)
            if(k == cur.size() || cur[k] == '|')
            {
               f.push_back(cur.substr(a, k - a));
               a = k + 1;
            }

         count++;

         if(f.size() >= 5)
         {
            log += cur[2];
            log += std::to_string(atoi(f[2].c_str()));

            if(atof(f[4].c_str()) != 0.0)
               log += "s";

            log += ",";
         }

         if(raiseAt >= 0 && count >= raiseAt && flag != nullptr)
            *flag = true;
      }
      else if(!cur.empty())
      {
         other++;
         // messages of the simplex loop (INFO2 / INFO3) that tell why a pass or a solve ended
         static const struct { const char* text; const char* tok; } marks[] =
         {
            {" --- cannot detect unboundedness while shift", "u"},
            {" --- maximum number of iterations", "i"},
            {" --- aborted due to interrupt signal", "x"},
            {" --- timelimit (", "t"},
            {" --- objective value limit (", "v"},
            {" --- abort solving due to", "c"},
            {" --- stalling detected", "z"},
            {" --- basis singular", "g"},
            {" --- termination despite violations", "d"},
            {" --- trying instable", "n"},
            {" --- perform solution polishing", "p"},
            {"Something wrong with factorization", "w"},
            {"Caught exception", "e"},
            {" --- verifying objective limit", "V"},
            {" --- detected violations in original problem space", "r"},
            {"simplifier detected infeasibility or unboundedness", "y"},
            {"encountered singularity", "G"},
            {"encountered cycling", "C"},
         };

         for(auto& mk : marks)
            if(cur.compare(0, strlen(mk.text), mk.text) == 0)
            {
               log += mk.tok;

               if(mk.tok[0] == 'e')      // the text of a caught exception (hex), to label observations
                  log += vf::hex(cur.substr(0, 80));

               log += ",";
            }

         if(cur.compare(0, 24, "Finished solving (status") == 0)
         {
            // "Finished solving (status=-6, iters=3, leave=1, enter=2, flips=0" : end of one inner solve
            int stv = 0, itv = 0;
            sscanf(cur.c_str(), "Finished solving (status=%d, iters=%d", &stv, &itv);
            log += "." + std::to_string(stv) + "/" + std::to_string(itv) + ",";
         }
      }

      cur.clear();
   }
   int overflow(int c) override
   {
      if(c == '\n')
         line();
      else if(c != EOF)
         cur.push_back((char)c);

      return c;
   }
};

struct CaseLP
{
   bool maxi;
   std::string offset;
   std::vector<std::string> obj, lo, up, lhs, rhs;
   std::vector<std::vector<std::pair<int, std::string>>> rows;
};

static double num(const std::string& t)
{
   if(t == "inf") return infinity;

   if(t == "-inf") return -infinity;

   size_t c = t.find('/');

   if(c == std::string::npos) return atof(t.c_str());

   return atof(t.substr(0, c).c_str()) / atof(t.substr(c + 1).c_str());
}

static void load(SP& s, const CaseLP& L)
{
   s.setIntParam(SP::OBJSENSE, L.maxi ? SP::OBJSENSE_MAXIMIZE : SP::OBJSENSE_MINIMIZE);
   DSVector empty(0);

   for(size_t j = 0; j < L.obj.size(); j++)
      s.addColReal(LPCol(num(L.obj[j]), empty, num(L.up[j]), num(L.lo[j])));

   for(size_t i = 0; i < L.rows.size(); i++)
   {
      DSVector r((int)L.rows[i].size());

      for(auto& e : L.rows[i])
         r.add(e.first, num(e.second));

      s.addRowReal(LPRow(num(L.lhs[i]), r, num(L.rhs[i])));
   }

   s.setRealParam(SP::OBJ_OFFSET, num(L.offset));
}

static bool setParam(SP& s, const std::string& kv)
{
   size_t e = kv.find('=');

   if(e == std::string::npos)
      return false;

   std::string k = kv.substr(0, e), v = kv.substr(e + 1);
   auto& st = *s._currentSettings;

   for(int i = 0; i < SP::BOOLPARAM_COUNT; i++)
      if(st.boolParam.name[i] == k)
         return s.setBoolParam((SP::BoolParam)i, v == "1" || v == "true");

   for(int i = 0; i < SP::INTPARAM_COUNT; i++)
      if(st.intParam.name[i] == k)
         return s.setIntParam((SP::IntParam)i, atoi(v.c_str()));

   for(int i = 0; i < SP::REALPARAM_COUNT; i++)
      if(st.realParam.name[i] == k)
         return s.setRealParam((SP::RealParam)i, v.find(':') != std::string::npos ? vf::undy(v) : atof(v.c_str()));

   if(k == "seed")
   {
      s.setRandomSeed((unsigned)strtoul(v.c_str(), nullptr, 10));
      return true;
   }

   return false;
}

static const char* statusName(SPxSolverBase<double>::Status st)
{
   switch(st)
   {
   case SPxSolverBase<double>::ERROR: return "ERROR";
   case SPxSolverBase<double>::NO_RATIOTESTER: return "NO_RATIOTESTER";
   case SPxSolverBase<double>::NO_PRICER: return "NO_PRICER";
   case SPxSolverBase<double>::NO_SOLVER: return "NO_SOLVER";
   case SPxSolverBase<double>::NOT_INIT: return "NOT_INIT";
   case SPxSolverBase<double>::ABORT_CYCLING: return "ABORT_CYCLING";
   case SPxSolverBase<double>::ABORT_TIME: return "ABORT_TIME";
   case SPxSolverBase<double>::ABORT_ITER: return "ABORT_ITER";
   case SPxSolverBase<double>::ABORT_VALUE: return "ABORT_VALUE";
   case SPxSolverBase<double>::SINGULAR: return "SINGULAR";
   case SPxSolverBase<double>::NO_PROBLEM: return "NO_PROBLEM";
   case SPxSolverBase<double>::REGULAR: return "REGULAR";
   case SPxSolverBase<double>::RUNNING: return "RUNNING";
   case SPxSolverBase<double>::UNKNOWN: return "UNKNOWN";
   case SPxSolverBase<double>::OPTIMAL: return "OPTIMAL";
   case SPxSolverBase<double>::UNBOUNDED: return "UNBOUNDED";
   case SPxSolverBase<double>::INFEASIBLE: return "INFEASIBLE";
   case SPxSolverBase<double>::INForUNBD: return "INForUNBD";
   case SPxSolverBase<double>::OPTIMAL_UNSCALED_VIOLATIONS: return "OPTIMAL_UNSCALED_VIOLATIONS";
   default: return "OTHER";
   }
}

static const char* basisName(SPxSolverBase<double>::VarStatus s)
{
   switch(s)
   {
   case SPxSolverBase<double>::ON_UPPER: return "U";
   case SPxSolverBase<double>::ON_LOWER: return "L";
   case SPxSolverBase<double>::FIXED: return "F";
   case SPxSolverBase<double>::ZERO: return "Z";
   case SPxSolverBase<double>::BASIC: return "B";
   default: return "?";
   }
}

static std::string vecQ(const VectorRational& v)
{
   std::string o;

   for(int i = 0; i < v.dim(); i++)
      o += v[i].str() + ",";

   return o.empty() ? "," : o;
}

// records of the guarded driver hook (SOPLEX_VERIF_DRIVER_TRACE) for the optimize() call just made
static std::vector<long> drvTrace;

static void observe(SP& s, const std::string& id, int step, LineBuf& lb, bool raised, const char* what, double wall)
{
   int n = s.numCols(), m = s.numRows();
   auto st = s.status();
   printf("OBS %s %d what=%s status=%s iters=%d hasSol=%d pfeas=%d dfeas=%d hasBasis=%d", id.c_str(), step, what, statusName(st),
          s.numIterations(), s.hasSol() ? 1 : 0, s.isPrimalFeasible() ? 1 : 0, s.isDualFeasible() ? 1 : 0, s.hasBasis() ? 1 : 0);
   // private state, used only to label observations: inner solver status, basis status, algorithm, refinements
   printf(" sstat=%s bstat=%d stype=%s srep=%s refs=%d stallrefs=%d loaded=%d", statusName(s._solver.status()),
          (int)s._solver.basis().status(), s._solver.type() == SPxSolverBase<double>::ENTER ? "E" : "L",
          s._solver.rep() == SPxSolverBase<double>::COLUMN ? "C" : "R", s._statistics->refinements, s._statistics->stallRefinements,
          s._isRealLPLoaded ? 1 : 0);
   printf(" lines=%d raised=%d wall=%.6f simp=%d", lb.count, raised ? 1 : 0, wall, (int)s._simplifierMainSM.result());

   // the floating-point solve driver: parameters it reads, the flags it leaves and its control trace (replayed through
   // coq/DriverModel.v); exact solves take another path and are not replayed
   if(drvTrace.size() >= 5 && drvTrace[0] == 1)
   {
      printf(" drvp=%d,%d,%d,%d,%d drvf=%d,%d,%d,%d drv=", s.intParam(SP::SIMPLIFIER) != SP::SIMPLIFIER_OFF ? 1 : 0,
             s.intParam(SP::SCALER) != SP::SCALER_OFF ? 1 : 0, s.boolParam(SP::PERSISTENTSCALING) ? 1 : 0, s.boolParam(SP::ENSURERAY) ? 1 : 0,
             (s.realParam(SP::OBJLIMIT_LOWER) == -s.realParam(SP::INFTY) && s.realParam(SP::OBJLIMIT_UPPER) == s.realParam(SP::INFTY)) ? 0 : 1,
             (int)st, s.hasBasis() ? 1 : 0, s.hasPrimalRay() ? 1 : 0, s.hasDualFarkas() ? 1 : 0);

      for(size_t k = 0; k + 4 < drvTrace.size(); k += 5)
         printf("%ld,%ld,%ld,%ld,%ld;", drvTrace[k], drvTrace[k + 1], drvTrace[k + 2], drvTrace[k + 3], drvTrace[k + 4]);
   }

   if(s.hasSol())
      printf(" obj=%s", dy(s.objValueReal()).c_str());

   if(s.hasBasis())
   {
      std::vector<SPxSolverBase<double>::VarStatus> rs(m), cs(n);
      s.getBasis(rs.data(), cs.data());
      printf(" brows=");

      for(int i = 0; i < m; i++) printf("%s", basisName(rs[i]));

      printf(", bcols=");

      for(int j = 0; j < n; j++) printf("%s", basisName(cs[j]));

      printf(",");
   }

   if(s.intParam(SP::SOLVEMODE) == SP::SOLVEMODE_RATIONAL && s.hasSol())
   {
      VectorRational x(n), y(m), r(n), f(m);

      if(s.isPrimalFeasible() && s.getPrimalRational(x))
         printf(" xq=%s", vecQ(x).c_str());

      if(s.isDualFeasible() && s.getDualRational(y))
         printf(" yq=%s", vecQ(y).c_str());

      if(s.hasPrimalRay() && s.getPrimalRayRational(r))
         printf(" rayq=%s", vecQ(r).c_str());

      if(s.hasDualFarkas() && s.getDualFarkasRational(f))
         printf(" farkasq=%s", vecQ(f).c_str());
   }

   printf(" log=%s\n", lb.log.empty() ? "," : lb.log.c_str());
   fflush(stdout);
}

int main(int argc, char** argv)
{
   if(argc < 2)
   {
      fprintf(stderr, "usage: C16 <casefile>\n");
      return 2;
   }

   std::ifstream in(argv[1]);
   std::string line;
   CaseLP L;
   std::string id;

   while(std::getline(in, line))
   {
      auto t = vf::split(line);

      if(t.empty()) continue;

      if(t[0] == "LP")
      {
         L = CaseLP();
         id = t[1];
         L.maxi = t[2] == "max";
         L.offset = t[3];
         printf("CASE %s\n", id.c_str());
      }
      else if(t[0] == "C")
      {
         L.obj.push_back(t[1]);
         L.lo.push_back(t[2]);
         L.up.push_back(t[3]);
      }
      else if(t[0] == "R")
      {
         L.lhs.push_back(t[1]);
         L.rhs.push_back(t[2]);
         std::vector<std::pair<int, std::string>> r;

         for(size_t k = 3; k < t.size(); k++)
         {
            size_t c = t[k].find(':');
            r.push_back({atoi(t[k].substr(0, c).c_str()), t[k].substr(c + 1)});
         }

         L.rows.push_back(r);
      }
      else if(t[0] == "DO")
      {
         std::string rid = t[1];
         std::unique_ptr<SP> s;
         DSVectorBase<double> savedVec;
         double savedObj = 0.0, savedLo = 0.0, savedUp = 0.0;
         bool haveSaved = false;
         LineBuf lb;
         std::ostream los(&lb);
         volatile bool flag = false;
         int step = 0;
         bool badparam = false;
         size_t k = 2;

         try
         {
            while(k < t.size())
            {
               std::string cmd = t[k++];
               std::vector<std::string> args;

               while(k < t.size() && t[k] != ";")
                  args.push_back(t[k++]);

               if(k < t.size())
                  k++;   // skip ';'

               if(cmd == "new")
               {
                  s.reset(new SP());

                  for(int v = SPxOut::ERROR; v <= SPxOut::INFO3; v++)
                     s->spxout.setStream((SPxOut::Verbosity)v, devnull);

                  s->spxout.setStream(SPxOut::INFO1, los);
                  s->spxout.setStream(SPxOut::INFO2, los);
                  s->spxout.setStream(SPxOut::INFO3, los);
                  s->setIntParam(SP::VERBOSITY, 0);

                  for(auto& a : args)
                     badparam = !setParam(*s, a) || badparam;

                  load(*s, L);
               }
               else if(!s)
                  continue;
               else if(cmd == "set")
               {
                  for(auto& a : args)
                     badparam = !setParam(*s, a) || badparam;
               }
               else if(cmd == "dropcol")
               {
                  // hot-start scenarios: the last column is taken out (and remembered) before a first, unobserved solve ...
                  int n = s->numCols();

                  if(n >= 2)
                  {
                     s->getColVectorReal(n - 1, savedVec);
                     savedObj = s->objReal(n - 1);
                     savedLo = s->lowerReal(n - 1);
                     savedUp = s->upperReal(n - 1);
                     haveSaved = true;
                     s->removeColReal(n - 1);
                  }
               }
               else if(cmd == "readd")
               {
                  // ... and put back at the same position before the observed solves: the LP is the case's LP again
                  if(haveSaved)
                     s->addColReal(LPColReal(savedObj, savedVec, savedUp, savedLo));

                  haveSaved = false;
               }
               else if(cmd == "optq")
                  s->optimize();
               else if(cmd == "opt" || cmd == "optint")
               {
                  int at = (cmd == "optint" && !args.empty()) ? atoi(args[0].c_str()) : -1;
                  flag = (at == 0);
                  lb.reset(at, &flag);
                  struct timespec t0, t1;
                  clock_gettime(CLOCK_MONOTONIC, &t0);

                  drvTrace.clear();
#ifdef SCIPOPT_SOPLEX_VERIF
                  verifDriverTraceSink() = &drvTrace;
#endif

                  try
                  {
                     if(cmd == "optint")
                        s->optimize(&flag);
                     else
                        s->optimize();
                  }
                  catch(...)
                  {
#ifdef SCIPOPT_SOPLEX_VERIF
                     verifDriverTraceSink() = nullptr;
#endif
                     throw;
                  }

#ifdef SCIPOPT_SOPLEX_VERIF
                  verifDriverTraceSink() = nullptr;
#endif

                  clock_gettime(CLOCK_MONOTONIC, &t1);
                  observe(*s, rid + (badparam ? "!badparam" : ""), step, lb, flag, cmd.c_str(),
                          (t1.tv_sec - t0.tv_sec) + 1e-9 * (t1.tv_nsec - t0.tv_nsec));
                  step++;
               }
            }
         }
         catch(const SPxException& e)
         {
            printf("OBS %s %d what=exception status=EXCEPTION msg=%s\n", rid.c_str(), step, vf::hex(e.what()).c_str());
            fflush(stdout);
         }
         catch(const std::exception& e)
         {
            printf("OBS %s %d what=exception status=EXCEPTION msg=%s\n", rid.c_str(), step, vf::hex(e.what()).c_str());
            fflush(stdout);
         }
      }
   }

   return 0;
}
