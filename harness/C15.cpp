// C15 harness: parameter table dump, accepted-value probe, and operation histories over the
// parameter interface.  Compiled against /repo/src on every tree state (see vlib.build_harness).
#include "soplex.h"
#include "common.hpp"
#include <csignal>
#include <csetjmp>
#include <fstream>
#include <unistd.h>

using namespace soplex;
using vf::dy;
typedef SoPlexBase<double> SP;

static std::ofstream devnull("/dev/null");
static void quiet(SP& s)
{
   for(int v = SPxOut::ERROR; v <= SPxOut::INFO3; v++)
      s.spxout.setStream((SPxOut::Verbosity)v, devnull);
}

static std::string ratOrig;      // the rational LP right after the user's data entry
static bool ratObserved = false;
static int ratClass(SP& s);

static std::string obs(SP& s, const std::string& lp0)
{
   std::ostringstream o;
   o << "b=";

   for(int i = 0; i < SP::BOOLPARAM_COUNT; i++)
      o << (s.boolParam((SP::BoolParam)i) ? 1 : 0);

   o << " i=";

   for(int i = 0; i < SP::INTPARAM_COUNT; i++)
      o << s.intParam((SP::IntParam)i) << ",";

   o << " r=";

   for(int i = 0; i < SP::REALPARAM_COUNT; i++)
      o << dy(s.realParam((SP::RealParam)i)) << ",";

   o << " seed=" << s.randomSeed();
   // derived selections ("what is set is what is used")
   int simp = s._simplifier == nullptr ? 0 : (s._simplifier == (SPxSimplifier<double>*)&s._simplifierMainSM ? 1 : 9);
   int sc = 9;

   if(s._scaler == nullptr) sc = 0;
   else if(s._scaler == (SPxScaler<double>*)&s._scalerUniequi) sc = 1;
   else if(s._scaler == (SPxScaler<double>*)&s._scalerBiequi) sc = 2;
   else if(s._scaler == (SPxScaler<double>*)&s._scalerGeo1) sc = 3;
   else if(s._scaler == (SPxScaler<double>*)&s._scalerGeo8) sc = 4;
   else if(s._scaler == (SPxScaler<double>*)&s._scalerLeastsq) sc = 5;
   else if(s._scaler == (SPxScaler<double>*)&s._scalerGeoequi) sc = 6;

   int st = 9;

   if(s._starter == nullptr) st = 0;
   else if(s._starter == (SPxStarter<double>*)&s._starterWeight) st = 1;
   else if(s._starter == (SPxStarter<double>*)&s._starterSum) st = 2;
   else if(s._starter == (SPxStarter<double>*)&s._starterVector) st = 3;

   int pr = 9;
   const void* p = s._solver.pricer();

   if(p == (SPxPricer<double>*)&s._pricerAuto) pr = 0;
   else if(p == (SPxPricer<double>*)&s._pricerDantzig) pr = 1;
   else if(p == (SPxPricer<double>*)&s._pricerParMult) pr = 2;
   else if(p == (SPxPricer<double>*)&s._pricerDevex) pr = 3;
   else if(p == (SPxPricer<double>*)&s._pricerQuickSteep) pr = 4;
   else if(p == (SPxPricer<double>*)&s._pricerSteep) pr = 5;

   int rt = 9;
   const void* t = s._solver.ratiotester();

   if(t == (SPxRatioTester<double>*)&s._ratiotesterTextbook) rt = 0;
   else if(t == (SPxRatioTester<double>*)&s._ratiotesterHarris) rt = 1;
   else if(t == (SPxRatioTester<double>*)&s._ratiotesterFast) rt = 2;
   else if(t == (SPxRatioTester<double>*)&s._ratiotesterBoundFlipping) rt = 3;

   int ut = s._slufactor.utype() == SLUFactor<double>::ETA ? 0 : 1;
   int mu = s._solver.basis().getMaxUpdates();
   int pol = (int) s._solver.getSolutionPolishing();
   int sense = s._realLP->spxSense() == SPxLPBase<double>::MAXIMIZE ? 1 : -1;
   o << " d=" << simp << "," << sc << "," << st << "," << pr << "," << rt << "," << ut << "," << mu << "," << pol << "," <<
     sense << ",";
   auto tol = s.tolerances();
   o << " t=" << dy(tol->feastol()) << "," << dy(tol->opttol()) << "," << dy(tol->epsilon()) << "," << dy(
        tol->epsilonFactorization()) << "," << dy(tol->epsilonUpdate()) << "," << dy(tol->epsilonPivot()) << "," << dy(
        tol->floatingPointFeastol()) << "," << dy(tol->floatingPointOpttol()) << "," << dy(s._slufactor.markowitz()) << "," <<
     dy(s._realLP->objOffset()) << ",";
   // the stored LP with sense and offset masked out
   std::string lp = vf::dumpLPReal(s);
   size_t a = lp.find(" sense="), b = lp.find(" obj=");
   lp = lp.substr(0, a) + lp.substr(b);

   // objective entries are reported through the user's sense, so they stay the same under a sense change
   o << " lp=" << (lp == lp0 ? "same" : "CHANGED");

   if(ratObserved)
      o << " rat=" << ratClass(s);

   return o.str();
}

// canonical dump of the rational LP (only if one exists)
static std::string dumpRat(SP& s)
{
   if(s._rationalLP == nullptr)
      return "none";

   std::ostringstream o;
   int m = s.numRowsRational(), n = s.numColsRational();
   o << m << "x" << n << ":";

   for(int j = 0; j < n; j++)
      o << s.objRational(j).str() << "[" << s.lowerRational(j).str() << "," << s.upperRational(j).str() << "];";

   for(int i = 0; i < m; i++)
   {
      o << s.lhsRational(i).str() << "<" << s.rhsRational(i).str() << ":";
      const SVectorRational& r = s.rowVectorRational(i);
      std::vector<std::pair<int, std::string>> es;

      for(int k = 0; k < r.size(); k++) es.push_back({r.index(k), r.value(k).str()});

      std::sort(es.begin(), es.end());

      for(auto& e : es) o << e.first << "=" << e.second << ",";

      o << ";";
   }

   return o.str();
}

// the exact rational image of the floating-point LP in the same format
static std::string dumpRealAsRat(SP& s)
{
   std::ostringstream o;
   int m = s.numRows(), n = s.numCols();
   // the copy made by _syncLPRational converts every double exactly, whatever the INFTY parameter says
   auto q = [&](double v)
   {
      return Rational(v).str();
   };
   o << m << "x" << n << ":";

   for(int j = 0; j < n; j++)
      o << q(s.objReal(j)) << "[" << q(s.lowerReal(j)) << "," << q(s.upperReal(j)) << "];";

   for(int i = 0; i < m; i++)
   {
      o << q(s.lhsReal(i)) << "<" << q(s.rhsReal(i)) << ":";
      DSVectorBase<double> r;
      s.getRowVectorReal(i, r);
      std::vector<std::pair<int, std::string>> es;

      for(int k = 0; k < r.size(); k++) es.push_back({r.index(k), Rational(r.value(k)).str()});

      std::sort(es.begin(), es.end());

      for(auto& e : es) o << e.first << "=" << e.second << ",";

      o << ";";
   }

   return o.str();
}


// 0 none, 1 the data as entered, 2 exact image of the floating-point LP, 3 empty, 9 something else
static int ratClass(SP& s)
{
   std::string d = dumpRat(s);

   if(d == "none") return 0;

   if(d == ratOrig) return 1;

   if(d == dumpRealAsRat(s)) return 2;

   if(s.numRowsRational() == 0 && s.numColsRational() == 0) return 3;

   return 9;
}

static std::string maskedLP(SP& s)
{
   std::string lp = vf::dumpLPReal(s);
   size_t a = lp.find(" sense="), b = lp.find(" obj=");
   return lp.substr(0, a) + lp.substr(b);
}

static void loadLP(SP& s)
{
   DSVector c0(0);
   s.addColReal(LPCol(1.0, c0, 4.0, 0.0));
   s.addColReal(LPCol(-2.0, c0, infinity, -1.0));
   s.addColReal(LPCol(0.5, c0, 3.0, 3.0));
   DSVector r(3);
   r.add(0, 1.0);
   r.add(1, 2.0);
   s.addRowReal(LPRow(-infinity, r, 7.0));
   r.clear();
   r.add(1, -1.0);
   r.add(2, 0.25);
   s.addRowReal(LPRow(1.0, r, 5.0));
}

static void dumpTable()
{
   SP s;
   s.setIntParam(SP::VERBOSITY, 0);
   auto& st = *s._currentSettings;
   printf("NB %d NI %d NR %d\n", (int)SP::BOOLPARAM_COUNT, (int)SP::INTPARAM_COUNT, (int)SP::REALPARAM_COUNT);

   for(int i = 0; i < SP::BOOLPARAM_COUNT; i++)
   {
      SP f;
      f.setIntParam(SP::VERBOSITY, 0);
      bool d = st.boolParam.defaultValue[i];
      bool settable = f.setBoolParam((SP::BoolParam)i, !d) && f.boolParam((SP::BoolParam)i) == !d;
      printf("B %d %s %d %d\n", i, st.boolParam.name[i].c_str(), d ? 1 : 0, settable ? 1 : 0);
   }

   for(int i = 0; i < SP::INTPARAM_COUNT; i++)
   {
      long lo = st.intParam.lower[i], up = st.intParam.upper[i];
      printf("I %d %s %d %ld %ld acc", i, st.intParam.name[i].c_str(), st.intParam.defaultValue[i], lo, up);
      long hi = up < lo + 16 ? up : lo + 16;

      for(long v = lo; v <= hi; v++)
      {
         SP f;
         f.setIntParam(SP::VERBOSITY, 0);

         // probe from a state whose current value differs from v
         if(f.intParam((SP::IntParam)i) == (int)v)
         {
            bool moved = false;

            for(long w = lo; w <= hi && !moved; w++)
               if(w != v && f.setIntParam((SP::IntParam)i, (int)w))
                  moved = f.intParam((SP::IntParam)i) == (int) w;

            if(!moved)
            {
               printf(" %ld", v);   // only value: accepted by definition (it is the default)
               continue;
            }
         }

         if(f.setIntParam((SP::IntParam)i, (int)v) && f.intParam((SP::IntParam)i) == (int)v)
            printf(" %ld", v);
      }

      printf("\n");
   }

   for(int i = 0; i < SP::REALPARAM_COUNT; i++)
   {
      double lo = st.realParam.lower[i], up = st.realParam.upper[i], d = st.realParam.defaultValue[i];
      double cand[3] = {lo, up, lo / 2 + up / 2};
      bool settable = false;

      for(int c = 0; c < 3; c++)
      {
         SP f;
         f.setIntParam(SP::VERBOSITY, 0);

         if(cand[c] != d && f.setRealParam((SP::RealParam)i, cand[c]) && f.realParam((SP::RealParam)i) == cand[c])
            settable = true;
      }

      printf("R %d %s %s %s %s %d\n", i, st.realParam.name[i].c_str(), dy(d).c_str(), dy(lo).c_str(), dy(up).c_str(),
             settable ? 1 : 0);
   }

   printf("END\n");
}

static sigjmp_buf jb;
static void onfpe(int)
{
   siglongjmp(jb, 1);
}

// run histories from a case file; one observation line per operation
static void runCases(const char* fn)
{
   std::ifstream in(fn);
   std::string line;
   SP* s = nullptr;
   std::string lp0;
   char tmpl[] = "/tmp/verifC15XXXXXX";
   int fd = mkstemp(tmpl);
   close(fd);
   std::string tmpf = tmpl;

   while(std::getline(in, line))
   {
      auto t = vf::split(line);

      if(t.empty())
         continue;

      if(t[0] == "CASE")
      {
         delete s;
         s = new SP();
         quiet(*s);

         ratObserved = false;
         ratOrig = "";

         if(t[2] == "1")
            loadLP(*s);

         lp0 = maskedLP(*s);
         printf("CASE %s\n", t[1].c_str());
         printf("init %s\n", obs(*s, lp0).c_str());
         continue;
      }

      std::string ret = "?";
      signal(SIGFPE, onfpe);

      if(sigsetjmp(jb, 1))
      {
         // a floating-point exception killed the call: report and abandon this history
         printf("%s ret=SIGFPE\n", t[0].c_str());
         fflush(stdout);
         // the object may be inconsistent: leak it deliberately
         s = new SP();
         quiet(*s);
         lp0 = maskedLP(*s);
         continue;
      }

      try
      {
         if(t[0] == "B")
            ret = s->setBoolParam((SP::BoolParam)atoi(t[1].c_str()), t[2] == "1") ? "1" : "0";
         else if(t[0] == "I")
            ret = s->setIntParam((SP::IntParam)atoi(t[1].c_str()), atoi(t[2].c_str())) ? "1" : "0";
         else if(t[0] == "R")
            ret = s->setRealParam((SP::RealParam)atoi(t[1].c_str()), vf::undy(t[2])) ? "1" : "0";
         else if(t[0] == "S")
         {
            s->setRandomSeed((unsigned int)strtoul(t[1].c_str(), nullptr, 10));
            ret = "1";
         }
         else if(t[0] == "P")
         {
            std::string l = vf::unhex(t[1]);
            std::vector<char> buf(l.begin(), l.end());
            buf.push_back('\0');
            buf.resize(buf.size() + 8, '\0');   // the tokeniser may step one past the terminator (C13)
            ret = s->parseSettingsString(buf.data()) ? "1" : "0";
         }
         else if(t[0] == "L" || t[0] == "LN")
         {
            // load a settings file made of the given lines; LN: the last line is not terminated
            std::ofstream f(tmpf);

            for(size_t k = 1; k < t.size(); k++)
               f << vf::unhex(t[k]) << ((t[0] == "LN" && k + 1 == t.size()) ? "" : "\n");

            f.close();
            ret = s->loadSettingsFile(tmpf.c_str()) ? "1" : "0";
         }
         else if(t[0] == "X")
         {
            s->resetSettings();
            ret = "1";
         }
         else if(t[0] == "LOADLP")
         {
            // the user loads an LP and, if a rational LP exists, enters data that no double represents
            loadLP(*s);

            if(s->_rationalLP != nullptr)
            {
               if(s->intParam(SP::SYNCMODE) == SP::SYNCMODE_MANUAL)
                  s->syncLPRational();     // in manual mode the user synchronises explicitly before editing

               Rational third = 1;
               third /= 3;
               Rational m73 = -7;
               m73 /= 3;
               s->changeObjRational(0, third);
               s->changeLowerRational(1, m73);
               s->changeElementRational(1, 2, third);
            }

            lp0 = maskedLP(*s);
            ratOrig = dumpRat(*s);
            ratObserved = true;
            ret = "1";
         }
         else if(t[0] == "C")
         {
            // copy-settings: build a second object from the given ops (B/I/R triples) and setSettings from it
            SP o;
            quiet(o);

            for(size_t k = 1; k + 2 < t.size() + 0; k += 3)
            {
               if(t[k] == "B") o.setBoolParam((SP::BoolParam)atoi(t[k + 1].c_str()), t[k + 2] == "1");
               else if(t[k] == "I") o.setIntParam((SP::IntParam)atoi(t[k + 1].c_str()), atoi(t[k + 2].c_str()));
               else if(t[k] == "R") o.setRealParam((SP::RealParam)atoi(t[k + 1].c_str()), vf::undy(t[k + 2]));
            }

            ret = s->setSettings(o.settings()) ? "1" : "0";
         }
         else if(t[0] == "V")
         {
            // save (onlyChanged = t[1]) and load into a fresh object; report differences
            bool only = t[1] == "1";
            s->saveSettingsFile(tmpf.c_str(), only);
            SP o;
            quiet(o);

            bool ok = o.loadSettingsFile(tmpf.c_str());
            std::ostringstream d;
            d << (ok ? "1" : "0");

            for(int i = 0; i < SP::BOOLPARAM_COUNT; i++)
               if(o.boolParam((SP::BoolParam)i) != s->boolParam((SP::BoolParam)i))
                  d << ";b" << i;

            for(int i = 0; i < SP::INTPARAM_COUNT; i++)
               if(o.intParam((SP::IntParam)i) != s->intParam((SP::IntParam)i))
                  d << ";i" << i;

            for(int i = 0; i < SP::REALPARAM_COUNT; i++)
            {
               double a = o.realParam((SP::RealParam)i), b = s->realParam((SP::RealParam)i);

               // reals are written with 8 significant digits (setScientific default precision)
               if(!(a == b) && !(fabs(a - b) <= 1e-7 * fabs(b)))
                  d << ";r" << i << "(" << dy(a) << "/" << dy(b) << ")";
            }

            if(o.randomSeed() != s->randomSeed())
               d << ";seed";

            ret = d.str();
         }
         else
            ret = "badop";
      }
      catch(const std::exception& e)
      {
         ret = "EXC";
      }
      catch(...)
      {
         ret = "EXC";
      }

      printf("%s ret=%s %s\n", t[0].c_str(), ret.c_str(), obs(*s, lp0).c_str());
      fflush(stdout);
   }

   delete s;
   unlink(tmpf.c_str());
}

// "what is set is what is used" across a solve: the selections a from-scratch optimize() re-derives from the parameters
// (_enableSimplifierAndScaler and friends) must be the objects the parameters name, or none where the solve switches one off
static int scalerCode(SP& s)
{
   if(s._scaler == nullptr) return 0;
   if(s._scaler == (SPxScaler<double>*)&s._scalerUniequi) return 1;
   if(s._scaler == (SPxScaler<double>*)&s._scalerBiequi) return 2;
   if(s._scaler == (SPxScaler<double>*)&s._scalerGeo1) return 3;
   if(s._scaler == (SPxScaler<double>*)&s._scalerGeo8) return 4;
   if(s._scaler == (SPxScaler<double>*)&s._scalerLeastsq) return 5;
   if(s._scaler == (SPxScaler<double>*)&s._scalerGeoequi) return 6;
   return 9;
}
static void afterSolve()
{
   for(int sc = 0; sc <= 6; sc++)
      for(int pers = 0; pers <= 1; pers++)
         for(int simp = 0; simp <= 1; simp++)
            for(int pricer = 0; pricer <= 5; pricer += 5)
            {
               SP s;
               quiet(s);
               s.setIntParam(SP::SCALER, sc);
               s.setBoolParam(SP::PERSISTENTSCALING, pers == 1);
               s.setIntParam(SP::SIMPLIFIER, simp);
               s.setIntParam(SP::PRICER, pricer);
               int before = scalerCode(s);
               loadLP(s);
               // badly scaled on purpose, so that every scaler has something to do
               s.changeElementReal(0, 0, 4096.0);
               s.changeElementReal(1, 1, -1.0 / 1024.0);
               int st = (int) s.optimize();
               int after = scalerCode(s);
               std::string nm = s._scaler != nullptr ? s._scaler->getName() : "-";
               int pr = 9;
               const void* p = s._solver.pricer();

               if(p == (SPxPricer<double>*)&s._pricerAuto) pr = 0;
               else if(p == (SPxPricer<double>*)&s._pricerDantzig) pr = 1;
               else if(p == (SPxPricer<double>*)&s._pricerParMult) pr = 2;
               else if(p == (SPxPricer<double>*)&s._pricerDevex) pr = 3;
               else if(p == (SPxPricer<double>*)&s._pricerQuickSteep) pr = 4;
               else if(p == (SPxPricer<double>*)&s._pricerSteep) pr = 5;

               int simpAfter = s._simplifier == nullptr ? 0 : (s._simplifier == (SPxSimplifier<double>*)&s._simplifierMainSM ? 1 : 9);
               printf("AFTERSOLVE scaler=%d persistent=%d simplifier=%d pricer=%d before=%d after=%d simp_after=%d pricer_after=%d status=%d param=%d name=%s\n",
                      sc, pers, simp, pricer, before, after, simpAfter, pr, st, s.intParam(SP::SCALER), vf::hex(nm).c_str());
            }
}

int main(int argc, char** argv)
{
   if(argc >= 2 && !strcmp(argv[1], "aftersolve"))
      afterSolve();
   else if(argc >= 2 && !strcmp(argv[1], "table"))
      dumpTable();
   else if(argc >= 3 && !strcmp(argv[1], "run"))
      runCases(argv[2]);
   else
   {
      fprintf(stderr, "usage: C15 table | run <casefile>\n");
      return 2;
   }

   return 0;
}
